/-
  Props/C06System — C06(1) at SYSTEM level: solving phase `p` of a system is solving its
  "behaviour system" `s.behave p`, in which every component is replaced by what it does in `p`.

  Definitions (namespace `SysLoss.C06`)
   * `Comp.behave c ph`   : the phase-free component `c` behaves as under the answers `ph` of its phase
                            configuration (= `C06.behave`): a PLoad/ILoad gets `pwr/ii := loadVal …`
                            (main value without configuration, sleep value `pwrs/iis` if the phase is
                            absent, else the configured value), an RLoad gets `rs :=` the configured
                            value if the phase is listed and keeps `rs` otherwise, every other kind is itself.
   * `SNode.replaced p`   : the node is a load, or is active in `p` (no configuration, or `p` listed).
   * `SNode.behave p`     : a replaced node becomes (behaved component, `pconf := .table []`); an
                            INACTIVE non-load (configuration non-empty, `p` not listed) is left untouched,
                            configuration included — no phase-free component has its law (0 V out, draws `iis`).
   * `SSys.behave s p`    : every node behaved; ids, links, topological order, groups, rails and the
                            system phases (only read by the energy column) are kept.

  Theorems — all at full strength (arbitrary `SSys`, no well-formedness), unless marked:
   * `fwdAt_behave`, `backAt_behave`      : every cell of the forward / backward sweep of `s` in phase `p`
                                            is the cell of `s.behave p`, for ANY vectors `(v, i, state)`.
   * `fwdProp_behave`, `backProp_behave`  : hence the whole sweeps agree (exceptions included),
   * `loop_behave`                        : and so does the whole iteration FROM ANY COMMON START
                                            (same result, same sweep count, same exception).
   * `converged_behave`, `steady_behave`  : `(v,i,st)` is a converged state (`C03.ConvergedAt`, the exit test
                                            of `_solve`) / an exact steady state (`C02.Steady`) of `s`
                                            in phase `p` iff it is one of `s.behave p`.
   * `init_behave`                        : the initial voltage vector and the initial flags agree; the
                                            initial current vector agrees in every cell that is not an
                                            ILoad with a non-empty table.
     `init_behave_full_fails`             : the initial current vectors DO differ on a concrete system:
                                            `ILoad._get_inp_current` returns `ii` whatever the phase, the
                                            behaviour component starts from the phase value.  Therefore the
                                            two runs are not the same sequence of iterates (the parent of the
                                            ILoad sees another `io` in the first sweep) and
     `solvePhase_behave_partial`          : `solve` of phase `p` = `solve` of the behaviour system (same
                                            vectors, flags, sweep count or exception) is proved under the
                                            explicit hypothesis `InitAgree` (every ILoad with a non-empty
                                            table has `loadVal ii iis = ii` in `p`, e.g. no ILoad has a table).
                                            Without it only `converged_behave` / `steady_behave` /
                                            `loop_behave` hold — what is NOT proved is that the two
                                            runs from their own initial guesses stop at the same iterate.
     `solvePhase_behave_full_fails`       : the hypothesis is needed: Source → ILoad(ii 0.1, table run: 0.2)
                                            returns the same vectors after 3 resp. 2 sweeps.
   * `compRow_behave_partial`             : for the same vectors the assembled row of node `n` agrees in
                                            EVERY cell except `warn`, and the running domain agrees;
                                            `warn` agrees unless the node is a load whose table is non-empty
                                            and does not list `p` ("sleeping load", `SleepingAt`): then the code
                                            reports no warning at all (`_solv_get_warns` returns "" before
                                            looking at the limits) while the behaviour system checks the limits
                                            (`warn_sleeping_differs`: concrete witness).
                                            Partial: hypothesis `RootNotRLoad s n` — node `n` is not an RLoad without
                                            parents — the row of a root uses `vi = v + rs·ii` with the
                                            constructor's `rs`, not the phase value
                                            (`compRow_behave_full_fails`: witness on a one-node system).  It is
                                            implied by well-formedness (`C02.TreeWF.rootSrc`, roots are
                                            sources): `compRow_behave_wf`.
     `compRows_behave_partial`            : all component rows of the phase, `warn` blanked, agree.
     `phaseTable_behave_partial`          : if no listed node is a sleeping load, the whole per-phase table
                                            (rows with warnings, subsystem rows, total) is that of `s.behave p`.
   * `solvePhase_label`                   : in a system without phase configuration the phase name is only a
                                            label (same run for every name).
   * `behave_noconf`, `phase_is_nophase_system` : if every node is a load or active in `p` (`AllReplaced`), the
                                            system `SSys.nophase s p` (= `s.behave p` with the system phases
                                            dropped, too) has NO phase configuration left, and the converged /
                                            steady states of phase `p` — and the iteration from any common
                                            start — are exactly those of that system solved without phases
                                            (phase name ""); under `InitAgree` the two `solve` runs are equal.
  There is no configuration text in a `Row`, so "except the cells that show configuration text" is vacuous.
-/
import SysLoss.Proofs.Basic
import SysLoss.Model.Table
import SysLoss.Props.C03
import SysLoss.Props.C06
import SysLoss.Props.C02Table

set_option linter.unusedSectionVars false
set_option linter.unusedVariables false

namespace SysLoss
namespace C06
variable {α : Type} [Field α] [LinearOrder α] [IsStrictOrderedRing α]

/-! ### definitions -/

/-- what component `c` does under the phase answers `ph`, as a phase-free component -/
abbrev Comp.behave (c : Comp α) (ph : PhaseCtx α) : Comp α := SysLoss.C06.behave c ph

/-- the node is a load, or active in phase `p` -/
def SNode.replaced (p : String) (nd : SNode α) : Bool :=
  nd.comp.kind.ctype == .LOAD || !(nd.pconf.ctx p).inactive

/-- a load whose table is non-empty and does not list `p` -/
def SNode.sleepingLoad (p : String) (nd : SNode α) : Bool :=
  nd.comp.kind.ctype == .LOAD && (nd.pconf.ctx p).inactive

def SNode.behave (p : String) (nd : SNode α) : SNode α :=
  if SNode.replaced p nd then
    { nd with comp := Comp.behave nd.comp (nd.pconf.ctx p), pconf := .table [] }
  else nd

def SSys.behave (s : SSys α) (p : String) : SSys α :=
  { s with nodes := s.nodes.map (Option.map (SNode.behave p)) }

/-! ### component level -/

theorem ctx_empty (p : String) : ((PhaseConf.table []).ctx p : PhaseCtx α) = PhaseCtx.none := rfl

theorem behave_kind (c : Comp α) (ph : PhaseCtx α) : (behave c ph).kind = c.kind := by
  unfold behave; cases hk : c.kind <;> simp [hk]

theorem behave_name (c : Comp α) (ph : PhaseCtx α) : (behave c ph).name = c.name := by
  unfold behave; cases hk : c.kind <;> simp

theorem behave_limits (c : Comp α) (ph : PhaseCtx α) : (behave c ph).limits = c.limits := by
  unfold behave; cases hk : c.kind <;> simp

theorem behave_rs (c : Comp α) (ph : PhaseCtx α) (h : c.kind ≠ .rload) : (behave c ph).rs = c.rs := by
  unfold behave; cases hk : c.kind <;> simp_all

theorem isLoad_iff (c : Comp α) :
    (c.kind.ctype == .LOAD) = true ↔ (c.kind = .pload ∨ c.kind = .iload ∨ c.kind = .rload) := by
  cases hk : c.kind <;> simp [Kind.ctype]

theorem notLoad_iff (c : Comp α) :
    (c.kind.ctype == .LOAD) = false ↔ (c.kind ≠ .pload ∧ c.kind ≠ .iload ∧ c.kind ≠ .rload) := by
  cases hk : c.kind <;> simp [Kind.ctype]

/-! ### node level: a behaved node obeys, under its own (possibly emptied) configuration, exactly the
    laws the original node obeys under the original configuration -/

section node
variable (p : String) (nd : SNode α)

@[simp] theorem nb_parents : (SNode.behave p nd).parents = nd.parents := by
  unfold SNode.behave; split <;> rfl
@[simp] theorem nb_childs : (SNode.behave p nd).childs = nd.childs := by
  unfold SNode.behave; split <;> rfl
@[simp] theorem nb_group : (SNode.behave p nd).group = nd.group := by
  unfold SNode.behave; split <;> rfl
@[simp] theorem nb_rail : (SNode.behave p nd).rail = nd.rail := by
  unfold SNode.behave; split <;> rfl
@[simp] theorem nb_kind : (SNode.behave p nd).comp.kind = nd.comp.kind := by
  unfold SNode.behave; split
  · exact behave_kind _ _
  · rfl
@[simp] theorem nb_name : (SNode.behave p nd).comp.name = nd.comp.name := by
  unfold SNode.behave; split
  · exact behave_name _ _
  · rfl
@[simp] theorem nb_limits : (SNode.behave p nd).comp.limits = nd.comp.limits := by
  unfold SNode.behave; split
  · exact behave_limits _ _
  · rfl
@[simp] theorem nb_priInp (off : List Bool) (vi : List α) :
    (SNode.behave p nd).comp.priInp off vi = nd.comp.priInp off vi := by
  unfold Comp.priInp; rw [nb_kind]

theorem nb_rs (h : nd.comp.kind ≠ .rload) : (SNode.behave p nd).comp.rs = nd.comp.rs := by
  unfold SNode.behave; split
  · exact behave_rs _ _ h
  · rfl

/-- the three laws -/
theorem nb_laws (vi : List α) (io : α) (off : List Bool) (vin vo ii ta : α) :
    (SNode.behave p nd).comp.solvOutpVolt vi io ((SNode.behave p nd).pconf.ctx p) off
        = nd.comp.solvOutpVolt vi io (nd.pconf.ctx p) off ∧
    (SNode.behave p nd).comp.solvInpCurr vi io ((SNode.behave p nd).pconf.ctx p) off
        = nd.comp.solvInpCurr vi io (nd.pconf.ctx p) off ∧
    (SNode.behave p nd).comp.solvPwrLoss vin vo ii io ta ((SNode.behave p nd).pconf.ctx p)
        = nd.comp.solvPwrLoss vin vo ii io ta (nd.pconf.ctx p) := by
  unfold SNode.behave
  by_cases hr : SNode.replaced p nd = true
  · rw [if_pos hr]
    simp only [ctx_empty]
    by_cases hl : (nd.comp.kind.ctype == .LOAD) = true
    · obtain ⟨h1, h2, h3⟩ := load_phase_behaviour nd.comp ((isLoad_iff _).mp hl) (nd.pconf.ctx p)
        vi io off vin vo ii ta
      exact ⟨h1.symm, h2.symm, h3.symm⟩
    · have hl' : (nd.comp.kind.ctype == .LOAD) = false := by simpa using hl
      have hact : (nd.pconf.ctx p).inactive = false := by
        unfold SNode.replaced at hr; rw [hl'] at hr; simpa using hr
      have hk := (notLoad_iff _).mp hl'
      obtain ⟨h1, h2, h3, _, _⟩ := active_eq_nophase nd.comp hk (nd.pconf.ctx p) hact vi io off vin vo ii ta
      have hb : Comp.behave nd.comp (nd.pconf.ctx p) = nd.comp := by
        obtain ⟨k1, k2, k3⟩ := hk
        unfold Comp.behave behave; cases hkk : nd.comp.kind <;> simp_all
      rw [hb]
      exact ⟨h1.symm, h2.symm, h3.symm⟩
  · rw [if_neg hr]; exact ⟨rfl, rfl, rfl⟩

theorem nb_outp (vi : List α) (io : α) (off : List Bool) :
    (SNode.behave p nd).comp.solvOutpVolt vi io ((SNode.behave p nd).pconf.ctx p) off
        = nd.comp.solvOutpVolt vi io (nd.pconf.ctx p) off := (nb_laws p nd vi io off 0 0 0 0).1

theorem nb_inp (vi : List α) (io : α) (off : List Bool) :
    (SNode.behave p nd).comp.solvInpCurr vi io ((SNode.behave p nd).pconf.ctx p) off
        = nd.comp.solvInpCurr vi io (nd.pconf.ctx p) off := (nb_laws p nd vi io off 0 0 0 0).2.1

theorem nb_pwr (vin vo ii io ta : α) :
    (SNode.behave p nd).comp.solvPwrLoss vin vo ii io ta ((SNode.behave p nd).pconf.ctx p)
        = nd.comp.solvPwrLoss vin vo ii io ta (nd.pconf.ctx p) := (nb_laws p nd [] io [] vin vo ii ta).2.2

/-- the initial guesses: voltage and flag always, current unless the node is an ILoad with a table -/
theorem nb_init :
    (SNode.behave p nd).comp.initVolt ((SNode.behave p nd).pconf.ctx p) = nd.comp.initVolt (nd.pconf.ctx p) ∧
    (SNode.behave p nd).comp.initOff ((SNode.behave p nd).pconf.ctx p) = nd.comp.initOff (nd.pconf.ctx p) ∧
    ((nd.comp.kind = .iload → loadVal nd.comp.ii nd.comp.iis (nd.pconf.ctx p) = nd.comp.ii) →
      (SNode.behave p nd).comp.initCurr ((SNode.behave p nd).pconf.ctx p) = nd.comp.initCurr (nd.pconf.ctx p)) := by
  unfold SNode.behave
  by_cases hr : SNode.replaced p nd = true
  · rw [if_pos hr]
    simp only [ctx_empty]
    by_cases hl : (nd.comp.kind.ctype == .LOAD) = true
    · unfold Comp.behave behave Comp.initVolt Comp.initOff Comp.initCurr
      rcases (isLoad_iff _).mp hl with hk | hk | hk <;> simp [hk]
    · have hl' : (nd.comp.kind.ctype == .LOAD) = false := by simpa using hl
      have hact : (nd.pconf.ctx p).inactive = false := by
        unfold SNode.replaced at hr; rw [hl'] at hr; simpa using hr
      have hk := (notLoad_iff _).mp hl'
      obtain ⟨_, _, _, h4, h5⟩ := active_eq_nophase nd.comp hk (nd.pconf.ctx p) hact [] 0 [] 0 0 0 0
      have hb : Comp.behave nd.comp (nd.pconf.ctx p) = nd.comp := by
        obtain ⟨k1, k2, k3⟩ := hk
        unfold Comp.behave behave; cases hkk : nd.comp.kind <;> simp_all
      rw [hb]
      refine ⟨h4.symm, ?_, fun _ => h5.symm⟩
      unfold Comp.initOff
      have hnone : (PhaseCtx.none : PhaseCtx α).inactive = false := rfl
      cases hkk : nd.comp.kind <;> simp [hact, hnone]
  · rw [if_neg hr]; exact ⟨rfl, rfl, fun _ => rfl⟩

end node

/-! ### system level: the solver's view -/

section sys
variable (s : SSys α) (p : String)

@[simp] theorem hidx_behave : (SSys.behave s p).hidx = s.hidx := by
  simp [SSys.behave, SSys.hidx]

@[simp] theorem topo_behave : (SSys.behave s p).topo = s.topo := rfl
@[simp] theorem phases_behave : (SSys.behave s p).phases = s.phases := rfl

theorem node?_behave (n : Nat) : (SSys.behave s p).node? n = (s.node? n).map (SNode.behave p) := by
  unfold SSys.node? SSys.behave
  simp only [Array.getD_eq_getD_getElem?, Array.getElem?_map]
  cases s.nodes[n]? <;> rfl

theorem childShare_behave (node : Nat) (i v : Vec α) (st : St) (c : Nat) :
    (SSys.behave s p).childShare node i v st c = s.childShare node i v st c := by
  unfold SSys.childShare
  rw [node?_behave]
  cases s.node? c <;> simp

theorem childCurr_behave (node : Nat) (i v : Vec α) (st : St) :
    (SSys.behave s p).childCurr node i v st = s.childCurr node i v st := by
  unfold SSys.childCurr
  rw [node?_behave]
  cases s.node? node with
  | none => rfl
  | some nd =>
    simp only [Option.map_some, nb_childs]
    congr 1
    apply List.map_congr_left
    intro c _
    exact childShare_behave s p node i v st c

theorem lawArgs_behave (nd : SNode α) (n : Nat) (v i : Vec α) (st : St) :
    (SSys.behave s p).lawArgs (SNode.behave p nd) n v i st = s.lawArgs nd n v i st := by
  unfold SSys.lawArgs
  simp only [nb_parents, nb_childs, childCurr_behave]

/-- **Forward sweep, cell by cell.** -/
theorem fwdAt_behave (v i : Vec α) (st : St) (n : Nat) :
    (SSys.behave s p).fwdAt p v i st n = s.fwdAt p v i st n := by
  unfold SSys.fwdAt
  rw [node?_behave]
  cases s.node? n with
  | none => rfl
  | some nd =>
    simp only [Option.map_some, lawArgs_behave]
    exact nb_outp p nd _ _ _

/-- **Backward sweep, cell by cell.** -/
theorem backAt_behave (v i : Vec α) (st : St) (n : Nat) :
    (SSys.behave s p).backAt p v i st n = s.backAt p v i st n := by
  unfold SSys.backAt
  rw [node?_behave]
  cases s.node? n with
  | none => rfl
  | some nd =>
    simp only [Option.map_some, lawArgs_behave]
    exact nb_inp p nd _ _ _

theorem fwdProp_behave (v i : Vec α) (st : St) :
    (SSys.behave s p).fwdProp p v i st = s.fwdProp p v i st := by
  unfold SSys.fwdProp
  simp only [hidx_behave, topo_behave, fwdAt_behave]

theorem backProp_behave (v i : Vec α) (st : St) :
    (SSys.behave s p).backProp p v i st = s.backProp p v i st := by
  unfold SSys.backProp
  simp only [hidx_behave, topo_behave, backAt_behave]

/-- **The whole iteration from any common start.** -/
theorem loop_behave (cfg : Cfg α) :
    ∀ (fuel : Nat) (v i : Vec α) (st : St) (it : Nat),
      (SSys.behave s p).loop cfg p fuel v i st it = s.loop cfg p fuel v i st it := by
  intro fuel
  induction fuel with
  | zero => intro v i st it; rfl
  | succ k ih =>
    intro v i st it
    unfold SSys.loop
    simp only [fwdProp_behave, backProp_behave, ih]

/-- **Converged states.**  The exit test of `_solve` fires on `(v, i, state)` in phase `p` of `s` iff it
    fires on it in the behaviour system. -/
theorem converged_behave (cfg : Cfg α) (v i : Vec α) (st : St) :
    C03.ConvergedAt s cfg p v i st ↔ C03.ConvergedAt (SSys.behave s p) cfg p v i st := by
  unfold C03.ConvergedAt
  simp only [fwdProp_behave, backProp_behave]

/-- **Exact steady states.** -/
theorem steady_behave (v i : Vec α) (st : St) :
    C02.Steady s p v i st ↔ C02.Steady (SSys.behave s p) p v i st := by
  constructor
  · intro h
    exact ⟨by simpa only [fwdProp_behave] using h.fwd, by simpa only [backProp_behave] using h.back, h.flag⟩
  · intro h
    exact ⟨by simpa only [fwdProp_behave] using h.fwd, by simpa only [backProp_behave] using h.back, h.flag⟩

/-! ### the initial guess -/

/-- every ILoad with a table starts, in phase `p`, from the value it will draw in `p` -/
def InitAgree (s : SSys α) (p : String) : Prop :=
  ∀ n nd, s.node? n = some nd → nd.comp.kind = .iload →
    loadVal nd.comp.ii nd.comp.iis (nd.pconf.ctx p) = nd.comp.ii

theorem initOffCell_behave (n : Nat) :
    (match (SSys.behave s p).node? n with
      | some nd => nd.comp.initOff (nd.pconf.ctx p) | none => false) =
    (match s.node? n with
      | some nd => nd.comp.initOff (nd.pconf.ctx p) | none => false) := by
  rw [node?_behave]
  cases s.node? n with
  | none => rfl
  | some nd => exact (nb_init p nd).2.1

/-- **Initial vectors.**  Voltages and flags agree; currents agree in every cell that is not an ILoad
    whose phase value differs from its `ii`. -/
theorem init_behave :
    ((SSys.behave s p).init p).1 = (s.init p).1 ∧
    ((SSys.behave s p).init p).2.2 = (s.init p).2.2 ∧
    ((SSys.behave s p).init p).2.1.size = (s.init p).2.1.size ∧
    ∀ n, (∀ nd, s.node? n = some nd → nd.comp.kind = .iload →
            loadVal nd.comp.ii nd.comp.iis (nd.pconf.ctx p) = nd.comp.ii) →
      vget ((SSys.behave s p).init p).2.1 n = vget (s.init p).2.1 n := by
  unfold SSys.init
  simp only [hidx_behave]
  refine ⟨?_, ?_, by simp, ?_⟩
  · congr 1
    apply List.map_congr_left
    intro n _
    rw [node?_behave]
    cases s.node? n with
    | none => rfl
    | some nd => exact (nb_init p nd).1
  · congr 1
    apply List.map_congr_left
    intro n _
    rw [node?_behave]
    cases hn : s.node? n with
    | none => rfl
    | some nd =>
      simp only [Option.map_some, nb_parents]
      split
      · rw [(nb_init p nd).2.1]
      · apply List.map_congr_left
        intro q _
        exact initOffCell_behave s p q
  · intro n hn
    unfold vget
    simp only [Array.getD_eq_getD_getElem?, List.getElem?_toArray, List.getElem?_map]
    cases hr : (List.range s.hidx)[n]? with
    | none => rfl
    | some m =>
      have hm : m = n := by
        rw [List.getElem?_eq_some_iff] at hr
        obtain ⟨_, h⟩ := hr
        simpa using h.symm
      subst hm
      simp only [Option.map_some, Option.getD_some]
      rw [node?_behave]
      cases hnd : s.node? m with
      | none => rfl
      | some nd => exact (nb_init p nd).2.2 (hn nd hnd)

/-- under `InitAgree` the initial triples are equal -/
theorem init_behave_partial (h : InitAgree s p) : (SSys.behave s p).init p = s.init p := by
  obtain ⟨h1, h2, h3, h4⟩ := init_behave s p
  have hi : ((SSys.behave s p).init p).2.1 = (s.init p).2.1 := by
    apply Array.ext h3
    intro k hk1 hk2
    have := h4 k (fun nd hnd => h k nd hnd)
    unfold vget at this
    simpa [Array.getD_eq_getD_getElem?, hk1, hk2] using this
  exact Prod.ext h1 (Prod.ext hi h2)

/-- **`solve` of a phase = `solve` of the behaviour system**, under `InitAgree` (see the header: without
    it the two runs start from different current vectors). -/
theorem solvePhase_behave_partial (cfg : Cfg α) (h : InitAgree s p) :
    (SSys.behave s p).solvePhase cfg p = s.solvePhase cfg p := by
  unfold SSys.solvePhase SSys.solveRaw
  rw [init_behave_partial s p h]
  simp only [loop_behave]

end sys

/-! ### the result table -/

section table
variable (s : SSys α) (p : String)

theorem nameOf_behave (n : Nat) : (SSys.behave s p).nameOf n = s.nameOf n := by
  unfold SSys.nameOf
  rw [node?_behave]
  cases s.node? n <;> simp

theorem parentName_behave (n : Nat) : (SSys.behave s p).parentName n = s.parentName n := by
  unfold SSys.parentName
  rw [node?_behave]
  cases s.node? n with
  | none => rfl
  | some nd =>
    simp only [Option.map_some, nb_parents]
    cases nd.parents <;> simp [nameOf_behave]

theorem rootOf_behave : ∀ (fuel n : Nat), (SSys.behave s p).rootOf fuel n = s.rootOf fuel n := by
  intro fuel
  induction fuel with
  | zero => intro n; rfl
  | succ k ih =>
    intro n
    unfold SSys.rootOf
    rw [node?_behave]
    cases s.node? n with
    | none => rfl
    | some nd =>
      simp only [Option.map_some, nb_parents]
      cases nd.parents <;> simp [ih]

theorem findDomain_behave (n : Nat) (d : String) (v : Vec α) :
    (SSys.behave s p).findDomain n d v = s.findDomain n d v := by
  unfold SSys.findDomain
  rw [node?_behave]
  cases s.node? n with
  | none => rfl
  | some nd =>
    simp only [Option.map_some, nb_parents, nb_kind, nb_name, nameOf_behave, rootOf_behave, hidx_behave]

theorem find_map_aux (pn : String) : ∀ (l : List (SNode α)),
    (l.map (SNode.behave p)).find? (fun x => x.comp.name == pn) =
      (l.find? (fun x => x.comp.name == pn)).map (SNode.behave p) := by
  intro l
  induction l with
  | nil => rfl
  | cons a t ih =>
    simp only [List.map_cons, List.find?_cons, nb_name]
    cases h : (a.comp.name == pn)
    · simpa using ih
    · simp

theorem railFind_behave (pn : String) :
    ((SSys.behave s p).nodes.toList.filterMap id).find? (fun x => x.comp.name == pn) =
      ((s.nodes.toList.filterMap id).find? (fun x => x.comp.name == pn)).map (SNode.behave p) := by
  have : (SSys.behave s p).nodes.toList.filterMap id = (s.nodes.toList.filterMap id).map (SNode.behave p) := by
    unfold SSys.behave
    simp only [Array.toList_map]
    generalize s.nodes.toList = l
    induction l with
    | nil => rfl
    | cons a t ih =>
      simp only [List.map_cons, List.filterMap_cons, id_eq]
      cases a with
      | none => simpa using ih
      | some x => simpa using ih
  rw [this]
  exact find_map_aux p pn _

/-- warnings: the behaviour node reports what the node reports, unless it is a sleeping load -/
theorem nb_warns (nd : SNode α) (vi vo ii io ta : α) :
    (SNode.sleepingLoad p nd = false →
      (SNode.behave p nd).comp.solvGetWarns vi vo ii io ta ((SNode.behave p nd).pconf.ctx p)
        = nd.comp.solvGetWarns vi vo ii io ta (nd.pconf.ctx p)) ∧
    (SNode.sleepingLoad p nd = true → nd.comp.solvGetWarns vi vo ii io ta (nd.pconf.ctx p) = []) := by
  constructor
  · intro hsl
    unfold Comp.solvGetWarns
    rw [nb_pwr, nb_kind, nb_limits]
    have hc : ((SNode.behave p nd).pconf.ctx p).inactive = true → (nd.pconf.ctx p).inactive = true := by
      unfold SNode.behave
      split
      · intro h; exact absurd h (by simp [ctx_empty]; rfl)
      · exact id
    have hc' : (nd.comp.kind.ctype != .SOURCE && nd.comp.kind.ctype != .SLOSS) = true →
        (nd.pconf.ctx p).inactive = true → ((SNode.behave p nd).pconf.ctx p).inactive = true := by
      intro h1 h2
      have : SNode.replaced p nd = false := by
        unfold SNode.replaced
        unfold SNode.sleepingLoad at hsl
        rw [h2] at hsl ⊢
        simpa using hsl
      unfold SNode.behave
      rw [this]
      simpa using h2
    by_cases hA : (nd.comp.kind.ctype != .SOURCE && nd.comp.kind.ctype != .SLOSS) = true
    · by_cases hB : (nd.pconf.ctx p).inactive = true
      · rw [hc' hA hB, hB]
      · have hB' : (nd.pconf.ctx p).inactive = false := by simpa using hB
        have hB'' : ((SNode.behave p nd).pconf.ctx p).inactive = false := by
          by_contra hcon
          exact hB (hc (by simpa using hcon))
        rw [hB', hB'']
    · have hA' : (nd.comp.kind.ctype != .SOURCE && nd.comp.kind.ctype != .SLOSS) = false := by simpa using hA
      rw [hA']
      simp
  · intro hsl
    unfold SNode.sleepingLoad at hsl
    unfold Comp.solvGetWarns
    have hl : (nd.comp.kind.ctype == .LOAD) = true := by
      cases h : (nd.comp.kind.ctype == .LOAD) <;> simp_all
    have hi : (nd.pconf.ctx p).inactive = true := by
      cases h : (nd.pconf.ctx p).inactive <;> simp_all
    have hlt : nd.comp.kind.ctype = .LOAD := by simpa using hl
    rw [hi, hlt]
    simp

theorem warn_tail (nd : SNode α) (vi vo ii io ta : α) :
    ((¬∃ nd', some nd = some nd' ∧ SNode.sleepingLoad p nd' = true) →
      joinWarn (nd.comp.solvGetWarns vi vo ii io ta (nd.pconf.ctx p)) =
        joinWarn ((SNode.behave p nd).comp.solvGetWarns vi vo ii io ta ((SNode.behave p nd).pconf.ctx p))) ∧
    ((∃ nd', some nd = some nd' ∧ SNode.sleepingLoad p nd' = true) →
      joinWarn (nd.comp.solvGetWarns vi vo ii io ta (nd.pconf.ctx p)) = "") := by
  constructor
  · intro h
    have hsl : SNode.sleepingLoad p nd = false := by
      cases hh : SNode.sleepingLoad p nd
      · rfl
      · exact absurd ⟨nd, rfl, hh⟩ h
    rw [(nb_warns p nd _ _ _ _ _).1 hsl]
  · rintro ⟨nd', h1, h2⟩
    cases h1
    rw [(nb_warns p nd _ _ _ _ _).2 h2]
    rfl

/-- node `n` is not an RLoad without parents (implied by C14 well-formedness: roots are sources) -/
def RootNotRLoad (s : SSys α) (n : Nat) : Prop :=
  ∀ nd, s.node? n = some nd → nd.parents = [] → nd.comp.kind ≠ .rload

/-- node `n` is a load whose non-empty table does not list `p` -/
def SleepingAt (s : SSys α) (p : String) (n : Nat) : Prop :=
  ∃ nd, s.node? n = some nd ∧ SNode.sleepingLoad p nd = true

/-- **Rows.**  For the same vectors the row of node `n` in phase `p` and the row of the behaviour system
    agree in every cell but `warn`, and hand on the same domain; `warn` agrees too unless `n` is a
    sleeping load, for which the code reports nothing. -/
theorem compRow_behave_partial (ta : α) (v i : Vec α) (st : St) (n : Nat) (dname : String)
    (hroot : RootNotRLoad s n) :
    (s.compRow p ta v i st n dname).2 = ((SSys.behave s p).compRow p ta v i st n dname).2 ∧
    (s.compRow p ta v i st n dname).1 =
      { ((SSys.behave s p).compRow p ta v i st n dname).1 with
          warn := (s.compRow p ta v i st n dname).1.warn } ∧
    (¬ SleepingAt s p n →
      (s.compRow p ta v i st n dname).1.warn = ((SSys.behave s p).compRow p ta v i st n dname).1.warn) ∧
    (SleepingAt s p n → (s.compRow p ta v i st n dname).1.warn = "") := by
  unfold SSys.compRow SleepingAt
  rw [node?_behave]
  cases hn : s.node? n with
  | none => simp
  | some nd =>
    by_cases hk : nd.comp.kind = .rload
    · have hp : ¬ nd.parents.isEmpty = true := fun h => hroot nd hn (by simpa using h) hk
      obtain ⟨a, t, hpar⟩ : ∃ a t, nd.parents = a :: t := by
        cases h : nd.parents with
        | nil => simp [h] at hp
        | cons a t => exact ⟨a, t, rfl⟩
      have hpri : ∀ off vi, nd.comp.priInp off vi = some 0 := by
        intro off vi; unfold Comp.priInp; rw [hk]
      by_cases hc : (a :: t).length > 1
      · simp only [Option.map_some, nb_parents, nb_childs, nb_group, nb_rail, nb_kind, nb_name, nb_priInp,
          nb_pwr, findDomain_behave, nameOf_behave, parentName_behave, childCurr_behave, railFind_behave,
          phases_behave, hpar, List.isEmpty_cons, Bool.false_eq_true, if_false, hpri, hc, if_true]
        generalize List.find? _ (List.filterMap id s.nodes.toList) = o
        refine ⟨trivial, by cases o <;> simp only [Option.map_some, Option.map_none, nb_rail],
          (warn_tail p nd _ _ _ _ _).1, (warn_tail p nd _ _ _ _ _).2⟩
      · simp only [Option.map_some, nb_parents, nb_childs, nb_group, nb_rail, nb_kind, nb_name, nb_priInp,
          nb_pwr, findDomain_behave, nameOf_behave, parentName_behave, childCurr_behave, railFind_behave,
          phases_behave, hpar, List.isEmpty_cons, Bool.false_eq_true, if_false, hpri, hc, List.head?_cons]
        generalize List.find? _ (List.filterMap id s.nodes.toList) = o
        refine ⟨trivial, by cases o <;> simp only [Option.map_some, Option.map_none, nb_rail],
          (warn_tail p nd _ _ _ _ _).1, (warn_tail p nd _ _ _ _ _).2⟩
    · have hr := nb_rs p nd hk
      simp only [Option.map_some, nb_parents, nb_childs, nb_group, nb_rail, nb_kind, nb_name, nb_priInp,
        nb_pwr, findDomain_behave, nameOf_behave, parentName_behave, childCurr_behave, railFind_behave,
        phases_behave, hr]
      generalize List.find? _ (List.filterMap id s.nodes.toList) = o
      refine ⟨trivial, by cases o <;> simp only [Option.map_some, Option.map_none, nb_rail],
          (warn_tail p nd _ _ _ _ _).1, (warn_tail p nd _ _ _ _ _).2⟩

/-- `RootNotRLoad` from the solver-view well-formedness of C02 (roots are exactly the sources) -/
theorem rootNotRLoad_of_wf (h : C02.TreeWF s) (n : Nat) : RootNotRLoad s n := by
  intro nd hn hp hk
  have := (h.rootSrc n nd hn).mp hp
  rw [hk] at this
  cases this

theorem compRow_behave_wf (h : C02.TreeWF s) (ta : α) (v i : Vec α) (st : St) (n : Nat) (dname : String) :
    (s.compRow p ta v i st n dname).2 = ((SSys.behave s p).compRow p ta v i st n dname).2 ∧
    (s.compRow p ta v i st n dname).1 =
      { ((SSys.behave s p).compRow p ta v i st n dname).1 with
          warn := (s.compRow p ta v i st n dname).1.warn } ∧
    (¬ SleepingAt s p n →
      (s.compRow p ta v i st n dname).1.warn = ((SSys.behave s p).compRow p ta v i st n dname).1.warn) ∧
    (SleepingAt s p n → (s.compRow p ta v i st n dname).1.warn = "") :=
  compRow_behave_partial s p ta v i st n dname (rootNotRLoad_of_wf s h n)

/-- a row with its warning cell blanked -/
def blank (r : Row α) : Row α := { r with warn := "" }

/-- the loop body of `compRows` -/
def rowStep (s : SSys α) (p : String) (ta : α) (v i : Vec α) (st : St)
    (acc : List (Row α) × String × List (Nat × String)) (n : Nat) :
    List (Row α) × String × List (Nat × String) :=
  let start := match s.node? n with
    | some node => (match node.parents with
        | [] => acc.2.1
        | q :: _ => (acc.2.2.lookup q).getD acc.2.1)
    | none => acc.2.1
  ((acc.1 ++ [(s.compRow p ta v i st n start).1]), (s.compRow p ta v i st n start).2,
    (n, (s.compRow p ta v i st n start).2) :: acc.2.2)

theorem compRows_eq_fold (s : SSys α) (p : String) (ta : α) (v i : Vec α) (st : St) :
    s.compRows p ta v i st = (s.topo.foldl (rowStep s p ta v i st) ([], "none", [])).1 := rfl

theorem rowStep_start (n : Nat) (acc : List (Row α) × String × List (Nat × String)) :
    (match (SSys.behave s p).node? n with
      | some node => (match node.parents with
          | [] => acc.2.1
          | q :: _ => (acc.2.2.lookup q).getD acc.2.1)
      | none => acc.2.1) =
    (match s.node? n with
      | some node => (match node.parents with
          | [] => acc.2.1
          | q :: _ => (acc.2.2.lookup q).getD acc.2.1)
      | none => acc.2.1) := by
  rw [node?_behave]
  cases s.node? n with
  | none => rfl
  | some nd => simp only [Option.map_some, nb_parents]

theorem fold_rows {β : Type} (g : Row α → β) (ta : α) (v i : Vec α) (st : St) :
    ∀ (l : List Nat),
      (∀ n ∈ l, ∀ d, g (s.compRow p ta v i st n d).1 = g ((SSys.behave s p).compRow p ta v i st n d).1 ∧
        (s.compRow p ta v i st n d).2 = ((SSys.behave s p).compRow p ta v i st n d).2) →
      ∀ (acc acc' : List (Row α) × String × List (Nat × String)),
        acc.2 = acc'.2 → acc.1.map g = acc'.1.map g →
        (l.foldl (rowStep s p ta v i st) acc).1.map g =
          (l.foldl (rowStep (SSys.behave s p) p ta v i st) acc').1.map g := by
  intro l
  induction l with
  | nil => intro _ acc acc' _ h; exact h
  | cons n t ih =>
    intro hl acc acc' h2 h1
    simp only [List.foldl_cons]
    apply ih (fun m hm => hl m (List.mem_cons_of_mem _ hm))
    · unfold rowStep
      simp only [rowStep_start]
      rw [h2]
      rw [(hl n (List.mem_cons_self ..) _).2]
    · unfold rowStep
      simp only [rowStep_start]
      rw [h2]
      simp only [List.map_append, List.map_cons, List.map_nil, h1]
      rw [(hl n (List.mem_cons_self ..) _).1]

/-- **All component rows of the phase**, warning cell blanked, are those of the behaviour system. -/
theorem compRows_behave_partial (ta : α) (v i : Vec α) (st : St) (hroot : ∀ n ∈ s.topo, RootNotRLoad s n) :
    (s.compRows p ta v i st).map blank = ((SSys.behave s p).compRows p ta v i st).map blank := by
  rw [compRows_eq_fold, compRows_eq_fold]
  apply fold_rows s p blank ta v i st s.topo _ _ _ rfl rfl
  intro n hn d
  obtain ⟨h1, h2, _, _⟩ := compRow_behave_partial s p ta v i st n d (hroot n hn)
  refine ⟨?_, h1⟩
  rw [h2]
  rfl

/-- If no listed node is a sleeping load, the whole per-phase table (component rows with warnings,
    subsystem rows, total row) is the table of the behaviour system. -/
theorem phaseTable_behave_partial (ta : α) (v i : Vec α) (st : St)
    (hroot : ∀ n ∈ s.topo, RootNotRLoad s n) (hns : ∀ n ∈ s.topo, ¬ SleepingAt s p n) :
    s.phaseTable p ta v i st = (SSys.behave s p).phaseTable p ta v i st := by
  have hrows : s.compRows p ta v i st = (SSys.behave s p).compRows p ta v i st := by
    have := fold_rows s p id ta v i st s.topo (by
      intro n hn d
      obtain ⟨h1, h2, h3, _⟩ := compRow_behave_partial s p ta v i st n d (hroot n hn)
      refine ⟨?_, h1⟩
      have hw := h3 (hns n hn)
      simp only [id]
      rw [h2, hw]) ([], "none", []) ([], "none", []) rfl rfl
    simpa [compRows_eq_fold] using this
  unfold SSys.phaseTable
  rw [hrows]
  rfl

end table

/-! ### no configuration left: phase `p` is a phase-free system -/

section nophase

/-- no component has a phase configuration -/
def NoConf (t : SSys α) : Prop := ∀ n nd, t.node? n = some nd → nd.pconf = .table []

/-- no component has a phase configuration and the system has no phases -/
def NoPhases (t : SSys α) : Prop := t.phases = [] ∧ NoConf t

/-- every node is a load or active in `p` -/
def AllReplaced (s : SSys α) (p : String) : Prop :=
  ∀ n nd, s.node? n = some nd → SNode.replaced p nd = true

/-- the behaviour system with the system phases dropped as well -/
def SSys.nophase (s : SSys α) (p : String) : SSys α := { SSys.behave s p with phases := [] }

variable (t : SSys α)

theorem fwdAt_label (h : NoConf t) (q q' : String) (v i : Vec α) (st : St) (n : Nat) :
    t.fwdAt q v i st n = t.fwdAt q' v i st n := by
  unfold SSys.fwdAt
  cases hn : t.node? n with
  | none => rfl
  | some nd => simp only [h n nd hn, ctx_empty]

theorem backAt_label (h : NoConf t) (q q' : String) (v i : Vec α) (st : St) (n : Nat) :
    t.backAt q v i st n = t.backAt q' v i st n := by
  unfold SSys.backAt
  cases hn : t.node? n with
  | none => rfl
  | some nd => simp only [h n nd hn, ctx_empty]

theorem fwdProp_label (h : NoConf t) (q q' : String) (v i : Vec α) (st : St) :
    t.fwdProp q v i st = t.fwdProp q' v i st := by
  unfold SSys.fwdProp
  simp only [fwdAt_label t h q q']

theorem backProp_label (h : NoConf t) (q q' : String) (v i : Vec α) (st : St) :
    t.backProp q v i st = t.backProp q' v i st := by
  unfold SSys.backProp
  simp only [backAt_label t h q q']

theorem loop_label (h : NoConf t) (q q' : String) (cfg : Cfg α) :
    ∀ (fuel : Nat) (v i : Vec α) (st : St) (it : Nat),
      t.loop cfg q fuel v i st it = t.loop cfg q' fuel v i st it := by
  intro fuel
  induction fuel with
  | zero => intro v i st it; rfl
  | succ k ih =>
    intro v i st it
    unfold SSys.loop
    simp only [fwdProp_label t h q q', backProp_label t h q q', ih]

theorem init_label (h : NoConf t) (q q' : String) : t.init q = t.init q' := by
  have cell : ∀ n, (match t.node? n with
      | some nd => nd.comp.initOff (nd.pconf.ctx q) | none => false) =
      (match t.node? n with
      | some nd => nd.comp.initOff (nd.pconf.ctx q') | none => false) := by
    intro n
    cases hn : t.node? n with
    | none => rfl
    | some nd => simp only [h n nd hn, ctx_empty]
  unfold SSys.init
  refine Prod.ext ?_ (Prod.ext ?_ ?_)
  · simp only
    congr 1
    apply List.map_congr_left
    intro n _
    cases hn : t.node? n with
    | none => rfl
    | some nd => simp only [h n nd hn, ctx_empty]
  · simp only
    congr 1
    apply List.map_congr_left
    intro n _
    cases hn : t.node? n with
    | none => rfl
    | some nd => simp only [h n nd hn, ctx_empty]
  · simp only
    congr 1
    apply List.map_congr_left
    intro n _
    cases hn : t.node? n with
    | none => rfl
    | some nd =>
      simp only
      split
      · simp only [h n nd hn, ctx_empty]
      · apply List.map_congr_left
        intro m _
        exact cell m

/-- **In a system without phase configuration the phase name is only a label**: every phase name gives
    the same run. -/
theorem solvePhase_label (h : NoConf t) (q q' : String) (cfg : Cfg α) :
    t.solvePhase cfg q = t.solvePhase cfg q' := by
  unfold SSys.solvePhase SSys.solveRaw
  rw [init_label t h q q']
  simp only [loop_label t h q q']

variable (s : SSys α) (p : String)

/-- the solver never reads the system phases -/
theorem loop_nophase (cfg : Cfg α) (q : String) :
    ∀ (fuel : Nat) (v i : Vec α) (st : St) (it : Nat),
      (SSys.nophase s p).loop cfg q fuel v i st it = (SSys.behave s p).loop cfg q fuel v i st it := by
  intro fuel
  induction fuel with
  | zero => intro v i st it; rfl
  | succ k ih =>
    intro v i st it
    unfold SSys.loop
    have hf : (SSys.nophase s p).fwdProp q v i st = (SSys.behave s p).fwdProp q v i st := rfl
    have hb : ∀ v', (SSys.nophase s p).backProp q v' i st = (SSys.behave s p).backProp q v' i st :=
      fun _ => rfl
    simp only [hf, hb, ih]

theorem solvePhase_nophase (cfg : Cfg α) (q : String) :
    (SSys.nophase s p).solvePhase cfg q = (SSys.behave s p).solvePhase cfg q := by
  unfold SSys.solvePhase SSys.solveRaw
  have hi : (SSys.nophase s p).init q = (SSys.behave s p).init q := rfl
  rw [hi]
  simp only [loop_nophase]

/-- if every node is a load or active in `p`, nothing of the phase configuration is left -/
theorem behave_noconf (hall : AllReplaced s p) : NoPhases (SSys.nophase s p) := by
  refine ⟨rfl, ?_⟩
  intro n nd hn
  have hn' : (SSys.behave s p).node? n = some nd := hn
  rw [node?_behave] at hn'
  cases ho : s.node? n with
  | none => rw [ho] at hn'; cases hn'
  | some nd0 =>
    rw [ho] at hn'
    simp only [Option.map_some, Option.some.injEq] at hn'
    subst hn'
    unfold SNode.behave
    rw [if_pos (hall n nd0 ho)]

/-- **Phase `p` is a phase-free system.**  If every component is a load or active in `p`, then the system
    `SSys.nophase s p` has no phase configuration (and no phases) at all, and `(v, i, state)` is a converged
    / exact steady state of `s` in phase `p` iff it is one of that system solved WITHOUT phases; started
    from the same triple the two iterations coincide, and under `InitAgree` so do the two `solve` runs. -/
theorem phase_is_nophase_system (hall : AllReplaced s p) :
    NoPhases (SSys.nophase s p) ∧
    (∀ (cfg : Cfg α) (v i : Vec α) (st : St),
      (C03.ConvergedAt s cfg p v i st ↔ C03.ConvergedAt (SSys.nophase s p) cfg "" v i st) ∧
      (C02.Steady s p v i st ↔ C02.Steady (SSys.nophase s p) "" v i st) ∧
      ∀ fuel it, s.loop cfg p fuel v i st it = (SSys.nophase s p).loop cfg "" fuel v i st it) ∧
    (InitAgree s p → ∀ cfg : Cfg α, s.solvePhase cfg p = (SSys.nophase s p).solvePhase cfg "") := by
  have hnp := behave_noconf s p hall
  have hf : ∀ v i st, (SSys.nophase s p).fwdProp "" v i st = s.fwdProp p v i st := by
    intro v i st
    rw [fwdProp_label _ hnp.2 "" p]
    exact fwdProp_behave s p v i st
  have hb : ∀ v i st, (SSys.nophase s p).backProp "" v i st = s.backProp p v i st := by
    intro v i st
    rw [backProp_label _ hnp.2 "" p]
    exact backProp_behave s p v i st
  have hl : ∀ cfg fuel v i st it,
      (SSys.nophase s p).loop cfg "" fuel v i st it = s.loop cfg p fuel v i st it := by
    intro cfg fuel v i st it
    rw [loop_label _ hnp.2 "" p, loop_nophase]
    exact loop_behave s p cfg fuel v i st it
  refine ⟨hnp, ?_, ?_⟩
  · intro cfg v i st
    refine ⟨?_, ?_, fun fuel it => (hl cfg fuel v i st it).symm⟩
    · unfold C03.ConvergedAt
      simp only [hf, hb]
    · constructor
      · intro h
        exact ⟨by simpa only [hf] using h.fwd, by simpa only [hb] using h.back, h.flag⟩
      · intro h
        exact ⟨by simpa only [hf] using h.fwd, by simpa only [hb] using h.back, h.flag⟩
  · intro hi cfg
    rw [solvePhase_label _ hnp.2 "" p, solvePhase_nophase]
    exact (solvePhase_behave_partial s p cfg hi).symm

end nophase

/-! ### non-vacuity and witnesses (ℚ):
    Source(5 V) → LinReg(3.3 V, active in "run" only) → PLoad(0.5 W; table run: 1.0; sleep value 0.01),
    phases run (1 s) / sleep (9 s); the load has a lower limit on its input voltage. -/

section examples

def pSrc : Comp ℚ := { name := "S", kind := .source, par := .const 0, vo := 5 }
def pReg : Comp ℚ :=
  { name := "R", kind := .linreg, par := .const (1/1000), vo := 33/10, vdrop := 1/2, iis := 1/100000 }
def pLoad : Comp ℚ :=
  { name := "L", kind := .pload, par := .const 0, pwr := 1/2, pwrs := 1/100, limits := [("vi", (1, 10))] }

def pSys : SSys ℚ :=
  { nodes := #[some ⟨pSrc, [], [1], .table [], "", ""⟩, some ⟨pReg, [0], [2], .names ["run"], "", ""⟩,
               some ⟨pLoad, [1], [], .table [("run", 1)], "", ""⟩],
    topo := [0, 1, 2], phases := [("run", 1), ("sleep", 9)] }

def pCfg : Cfg ℚ := ⟨1/100000000, 1/100000, 1/1000000, 10000⟩

theorem pNode (n : Nat) (nd : SNode ℚ) (h : pSys.node? n = some nd) :
    (n = 0 ∧ nd = ⟨pSrc, [], [1], .table [], "", ""⟩) ∨
    (n = 1 ∧ nd = ⟨pReg, [0], [2], .names ["run"], "", ""⟩) ∨
    (n = 2 ∧ nd = ⟨pLoad, [1], [], .table [("run", 1)], "", ""⟩) := by
  match n with
  | 0 => simp [SSys.node?, pSys] at h; subst h; simp
  | 1 => simp [SSys.node?, pSys] at h; subst h; simp
  | 2 => simp [SSys.node?, pSys] at h; subst h; simp
  | n + 3 => simp [SSys.node?, pSys] at h

theorem pAll : AllReplaced pSys "run" := by
  intro n nd h
  rcases pNode n nd h with ⟨_, rfl⟩ | ⟨_, rfl⟩ | ⟨_, rfl⟩ <;> decide

theorem pInit (q : String) : InitAgree pSys q := by
  intro n nd h hk
  rcases pNode n nd h with ⟨_, rfl⟩ | ⟨_, rfl⟩ | ⟨_, rfl⟩ <;> simp [pSrc, pReg, pLoad] at hk

theorem pRoot (q : Nat) : RootNotRLoad pSys q := by
  intro nd h _ hk
  rcases pNode q nd h with ⟨_, rfl⟩ | ⟨_, rfl⟩ | ⟨_, rfl⟩ <;> simp [pSrc, pReg, pLoad] at hk

/-- what the behaviour systems look like: in "run" the load draws 1 W and nothing is configured; in
    "sleep" the load draws its sleep value 0.01 W, the (inactive) regulator keeps its list -/
example : (((SSys.behave pSys "run").node? 2).map fun nd => nd.comp.pwr) = some 1 ∧
    (((SSys.behave pSys "sleep").node? 2).map fun nd => nd.comp.pwr) = some (1/100) ∧
    (((SSys.behave pSys "sleep").node? 1).map fun nd => (nd.pconf.ctx "sleep").inactive) = some true ∧
    (((SSys.behave pSys "run").node? 1).map fun nd => (nd.pconf.ctx "sleep").inactive) = some false := by
  decide +kernel

/-- both phases of the example are solved (within 5 sweeps) … -/
example : (match pSys.solvePhase pCfg "run" with | .ok r => decide (r.iters ≤ 5) | .error _ => false) = true ∧
    (match pSys.solvePhase pCfg "sleep" with | .ok r => decide (r.iters ≤ 5) | .error _ => false) = true := by
  decide +kernel

/-- … so `converged_behave` / `steady_behave` / `solvePhase_behave_partial` / `phase_is_nophase_system`
    speak about existing states: the result of phase "run" is a converged state of the configuration-free
    system solved without phases, and the two `solve` runs are the same. -/
example : ∃ r, pSys.solvePhase pCfg "run" = .ok r ∧
    C03.ConvergedAt (SSys.behave pSys "run") pCfg "run" r.v r.i r.st ∧
    NoPhases (SSys.nophase pSys "run") ∧
    C03.ConvergedAt (SSys.nophase pSys "run") pCfg "" r.v r.i r.st ∧
    (SSys.nophase pSys "run").solvePhase pCfg "" = .ok r ∧
    (SSys.behave pSys "run").solvePhase pCfg "run" = .ok r := by
  cases h : pSys.solvePhase pCfg "run" with
  | error e =>
    have : (match pSys.solvePhase pCfg "run" with | .ok r => true | .error _ => false) = true := by
      decide +kernel
    rw [h] at this; cases this
  | ok r =>
    have hc := C03.solvePhase_sound pSys pCfg "run" r h
    obtain ⟨h1, h2, h3⟩ := phase_is_nophase_system pSys "run" pAll
    refine ⟨r, rfl, (converged_behave pSys "run" pCfg r.v r.i r.st).mp hc, h1,
      ((h2 pCfg r.v r.i r.st).1).mp hc, ?_, ?_⟩
    · rw [← h3 (pInit "run") pCfg]; exact h
    · rw [solvePhase_behave_partial pSys "run" pCfg (pInit "run")]; exact h

/-- phase "sleep": the regulator is inactive (kept with its configuration), the load sleeps; the result
    is a converged state of the behaviour system and the `solve` runs agree -/
example : ∃ r, pSys.solvePhase pCfg "sleep" = .ok r ∧
    C03.ConvergedAt (SSys.behave pSys "sleep") pCfg "sleep" r.v r.i r.st ∧
    (SSys.behave pSys "sleep").solvePhase pCfg "sleep" = .ok r ∧ ¬ AllReplaced pSys "sleep" := by
  cases h : pSys.solvePhase pCfg "sleep" with
  | error e =>
    have : (match pSys.solvePhase pCfg "sleep" with | .ok r => true | .error _ => false) = true := by
      decide +kernel
    rw [h] at this; cases this
  | ok r =>
    refine ⟨r, rfl, (converged_behave pSys "sleep" pCfg r.v r.i r.st).mp
      (C03.solvePhase_sound pSys pCfg "sleep" r h), ?_, ?_⟩
    · rw [solvePhase_behave_partial pSys "sleep" pCfg (pInit "sleep")]; exact h
    · intro hall
      have := hall 1 ⟨pReg, [0], [2], .names ["run"], "", ""⟩ (by simp [SSys.node?, pSys])
      revert this; decide

/-- rows: the hypotheses of `compRow_behave_partial` / `compRows_behave_partial` / `phaseTable_behave_partial` hold in the
    example ("run" has no sleeping load) -/
example (ta : ℚ) (v i : Vec ℚ) (st : St) :
    pSys.phaseTable "run" ta v i st = (SSys.behave pSys "run").phaseTable "run" ta v i st :=
  phaseTable_behave_partial pSys "run" ta v i st (fun n _ => pRoot n) (by
    rintro n _ ⟨nd, h, hs⟩
    rcases pNode n nd h with ⟨_, rfl⟩ | ⟨_, rfl⟩ | ⟨_, rfl⟩ <;> revert hs <;> decide)

example (ta : ℚ) (v i : Vec ℚ) (st : St) :
    (pSys.compRows "sleep" ta v i st).map blank =
      ((SSys.behave pSys "sleep").compRows "sleep" ta v i st).map blank :=
  compRows_behave_partial pSys "sleep" ta v i st (fun n _ => pRoot n)

/-- the sleeping-load exception of `compRow_behave_partial` is real: in "sleep" the load sits at 0 V, below its
    `vi` limit; the code reports nothing, the behaviour system reports `vi` -/
theorem warn_sleeping_differs :
    SleepingAt pSys "sleep" 2 ∧
    (pSys.compRow "sleep" 25 #[5, 0, 0] #[0, 0, 0] #[[false], [true], [true]] 2 "S").1.warn = "" ∧
    ((SSys.behave pSys "sleep").compRow "sleep" 25 #[5, 0, 0] #[0, 0, 0] #[[false], [true], [true]] 2 "S").1.warn
      = "vi" := by
  refine ⟨⟨⟨pLoad, [1], [], .table [("run", 1)], "", ""⟩, by simp [SSys.node?, pSys], by decide⟩, ?_, ?_⟩
  · decide +kernel
  · decide +kernel

/-- the full statement of `init_behave` (equal initial triples) … -/
def init_behave_full : Prop := ∀ (s : SSys ℚ) (p : String), (SSys.behave s p).init p = s.init p

def iLoad : Comp ℚ := { name := "L", kind := .iload, par := .const 0, ii := 1/10, iis := 1/1000 }
def iSys : SSys ℚ :=
  { nodes := #[some ⟨pSrc, [], [1], .table [], "", ""⟩, some ⟨iLoad, [0], [], .table [("run", 1/5)], "", ""⟩],
    topo := [0, 1], phases := [("run", 1), ("sleep", 9)] }

/-- … fails: an ILoad with a table starts from `ii = 0.1 A`, its behaviour component from the 0.2 A of the phase -/
theorem init_behave_full_fails : ¬ init_behave_full := by
  intro h
  have h1 := congrArg (fun x => vget x.2.1 1) (h iSys "run")
  revert h1
  decide +kernel

/-- the full statement of `solvePhase_behave_partial` (no `InitAgree`) … -/
def solvePhase_behave_full : Prop :=
  ∀ (s : SSys ℚ) (cfg : Cfg ℚ) (p : String), (SSys.behave s p).solvePhase cfg p = s.solvePhase cfg p

def itersOf (r : Except Err (SolveOut ℚ)) : Nat := match r with | .ok o => o.iters | .error _ => 0

/-- … fails as well: both runs stop at the same vectors, but the run of the behaviour system needs one
    sweep less (the source sees the ILoad's phase current from the start) -/
theorem solvePhase_behave_full_fails : ¬ solvePhase_behave_full := by
  intro h
  have h1 := congrArg itersOf (h iSys pCfg "run")
  revert h1
  decide +kernel

/-- the full statement of `compRow_behave_partial` without `RootNotRLoad` (here only its `vin` cell) … -/
def compRow_behave_full : Prop :=
  ∀ (s : SSys ℚ) (p : String) (ta : ℚ) (v i : Vec ℚ) (st : St) (n : Nat) (d : String),
    (s.compRow p ta v i st n d).1.vin = ((SSys.behave s p).compRow p ta v i st n d).1.vin

def rLoad : Comp ℚ := { name := "L", kind := .rload, par := .const 0, rs := 10 }
def rSys : SSys ℚ :=
  { nodes := #[some ⟨rLoad, [], [], .table [("run", 20)], "", ""⟩], topo := [0], phases := [("run", 1), ("sleep", 9)] }

/-- … fails on the (ill-formed) system whose only node is an RLoad: the root row adds `rs·ii` with the
    constructor's `rs` -/
theorem compRow_behave_full_fails : ¬ compRow_behave_full := by
  intro h
  have h1 := h rSys "run" 25 #[5] #[1] #[[false]] 0 ""
  revert h1
  decide +kernel

end examples

end C06
end SysLoss
