/-
  Props/C16Final — C16, the composition: two edit histories that end in the same final structure give the same
  `solve()` table.

  `Props/C16` shows that what `_rel_update()` hands to the solver factors through the name-keyed abstraction `abs s`;
  `Props/C16Renumber` that the solver and the table assembly commute with a renumbering of the nodes (`Iso`).  This
  file is the link between the two.

    AStruct.Same a b          "the same final structure": every entry of `a` has an entry of `b` with the same name, the
                              same component object, the same ORDERED inputs (`parents`, by name) and the same SET of
                              feeder names (`preds`), and vice versa (with distinct names this is: the `comps` lists are
                              permutations of each other modulo the order inside `preds`); the lookups the analyses make
                              in `phase_conf` (`confOf`: last entry under the name), `groups`, `rails` (`dget`) agree for
                              every component name; `phases` are equal as ORDERED lists.  Not compared: the system name,
                              the order of `comps`, sibling order, the `nodes` key list and `addressable` (fixed by `WF`).
                              For well-formed structures the registries have exactly the component names as keys, so
                              "lookups agree on the names" is "equal as finite maps".  `Same` is decidable.
    ValidTopo s topo          `topo` lists exactly the live node indices, once each, every predecessor of a node before it
    sigma s₁ s₂               the renumbering: node `n` of `s₁` ↦ `attrs["nodes"]` of `s₂` at the name of `n`

    toSSys_node?              the solver's view, cell by cell (every index, live or not)
    toSSys_iso                Legal ∧ WF (both), Same, ValidTopo (both)  ⇒  `C16R.Iso (sigma s₁ s₂) (toSSys s₁) (toSSys s₂)`
    toSSys_tableWF            Legal ∧ WF ∧ ValidTopo ⇒ `C16R.TableWF (toSSys s)`
    same_structure_same_table `solve()` succeeds on `s₁` ⇒ it succeeds on `s₂`; per phase the component rows and the
                              subsystem rows are permutations of each other, the "System total" rows are equal, the
                              "System average" row is equal
    same_structure_same_error `solve()` raises on `s₁` ⇒ it raises on `s₂` — the same exception if `s₂` processes the
                              nodes in the corresponding order (`C16R.solve_renumber_error`: when several component laws
                              raise in one sweep, which one escapes is rustworkx's choice)
    histories_same_table, histories_same_error
                              the same for the states reached by two histories from two constructor calls: no
                              `Legal` / `WF` hypothesis is left (`C14.legal_run`, `C14.wf_always`)
    exists_validTopo          every sane state has a valid order, so the hypothesis `ValidTopo` on the parameter `topo`
                              (rustworkx's `topological_sort`, modelled as a parameter, not verified) is satisfiable
    AStruct.Same.comps_perm   with distinct names, `Same` gives a permutation of `comps` matching entry by entry

  Full strength: no hypothesis on the component kinds (PMux with its ordered inputs included), none on `parentsOf`
  (it cannot fail in a well-formed state: `parentsOf_ok`).  Row ORDER is not claimed (it is `topo` order).

  What is assumed and not proved here: that `topo` is a valid topological order (rustworkx), and everything
  `Sys.toSSys` itself assumes about how `_rel_update()` / `_set_phase_lkup()` feed the solver (Props/C16).

  Non-vacuity: `C16.histA` / `C16.histB` (different node indices, a deleted subtree whose indices are re-used, a rename,
  other sibling order) satisfy `Same` (by `decide`, light payloads); carried over to solver payloads at ℚ (`liftOp`,
  plus system phases and a per-phase load configuration made at different points of the two histories): `Same` holds
  (kernel-decided through the sound test `subB`; `Comp ℚ` has no `DecidableEq`), the final states have different node
  numberings, sibling orders and registry orders, `solve()` succeeds on the first and `histories_same_table` yields
  the table of the second; the error counterpart is instantiated on an undefined phase.
-/
import SysLoss.Props.C16
import SysLoss.Props.C16Renumber

set_option linter.unusedSectionVars false
set_option linter.unusedVariables false
set_option linter.unusedSimpArgs false

namespace SysLoss

/-! ### "the same final structure" -/

section
variable {π ν : Type} [CompLike π]

namespace AEntry

/-- the same component in the same place: name, object, ordered inputs, set of feeders -/
def Match (e e' : AEntry π) : Prop :=
  e'.name = e.name ∧ e'.comp = e.comp ∧ e'.parents = e.parents ∧
  (∀ x ∈ e.preds.map (·.1), x ∈ e'.preds.map (·.1)) ∧ (∀ x ∈ e'.preds.map (·.1), x ∈ e.preds.map (·.1))

theorem Match.symm {e e' : AEntry π} (h : e.Match e') : e'.Match e :=
  ⟨h.1.symm, h.2.1.symm, h.2.2.1.symm, h.2.2.2.2, h.2.2.2.1⟩

instance [DecidableEq π] (e e' : AEntry π) : Decidable (e.Match e') := by unfold Match; infer_instance

end AEntry

namespace AStruct

/-- every entry of `a` is matched in `b` -/
def Sub (a b : AStruct π ν) : Prop := ∀ e ∈ a.comps, ∃ e' ∈ b.comps, e.Match e'

/-- the same final structure -/
def Same (a b : AStruct π ν) : Prop :=
  a.Sub b ∧ b.Sub a ∧
  (∀ x ∈ a.names, a.confOf x = b.confOf x) ∧
  (∀ x ∈ a.names, dget a.groups x = dget b.groups x) ∧
  (∀ x ∈ a.names, dget a.rails x = dget b.rails x) ∧
  a.phases = b.phases

instance [DecidableEq π] (a b : AStruct π ν) : Decidable (a.Sub b) := by unfold Sub; infer_instance

instance [DecidableEq π] [DecidableEq ν] (a b : AStruct π ν) : Decidable (a.Same b) := by
  unfold Same confOf; infer_instance

theorem Sub.names {a b : AStruct π ν} (h : a.Sub b) : ∀ x ∈ a.names, x ∈ b.names := by
  intro x hx
  obtain ⟨e, he, rfl⟩ := List.mem_map.mp hx
  obtain ⟨e', he', hm⟩ := h e he
  exact List.mem_map.mpr ⟨e', he', hm.1⟩

theorem Same.symm {a b : AStruct π ν} (h : a.Same b) : b.Same a := by
  obtain ⟨h1, h2, h3, h4, h5, h6⟩ := h
  exact ⟨h2, h1, fun x hx => (h3 x (h2.names x hx)).symm, fun x hx => (h4 x (h2.names x hx)).symm,
    fun x hx => (h5 x (h2.names x hx)).symm, h6.symm⟩

theorem Same.refl (a : AStruct π ν) : a.Same a :=
  ⟨fun e he => ⟨e, he, rfl, rfl, rfl, fun _ h => h, fun _ h => h⟩,
   fun e he => ⟨e, he, rfl, rfl, rfl, fun _ h => h, fun _ h => h⟩, fun _ _ => rfl, fun _ _ => rfl, fun _ _ => rfl, rfl⟩

/-- `Sub` both ways between lists with distinct names: the second list is, up to its order, the first one entry by
    entry -/
theorem perm_of_sub : ∀ (la lb : List (AEntry π)), (la.map (·.name)).Nodup → (lb.map (·.name)).Nodup →
    (∀ e ∈ la, ∃ e' ∈ lb, e.Match e') → (∀ e' ∈ lb, ∃ e ∈ la, e.Match e') →
    ∃ l, l.Perm lb ∧ List.Forall₂ AEntry.Match la l := by
  intro la
  induction la with
  | nil =>
    intro lb _ _ _ h2
    cases lb with
    | nil => exact ⟨[], List.Perm.refl _, List.Forall₂.nil⟩
    | cons b t => obtain ⟨e, he, _⟩ := h2 b (by simp); simp at he
  | cons e t ih =>
    intro lb hna hnb h1 h2
    obtain ⟨e', he', hm⟩ := h1 e (by simp)
    obtain ⟨s, r, rfl⟩ := List.mem_iff_append.mp he'
    simp only [List.map_cons, List.nodup_cons, List.mem_map, not_exists, not_and] at hna
    have hnb' : ((s ++ r).map (·.name)).Nodup := by
      have : ((s ++ r).map (·.name)).Sublist ((s ++ e' :: r).map (·.name)) :=
        List.Sublist.map _ (List.Sublist.append (List.Sublist.refl s) (List.sublist_cons_self e' r))
      exact hnb.sublist this
    have hne' : ∀ x ∈ s ++ r, x.name ≠ e'.name := by
      intro x hx hxe
      have hp : ((s ++ e' :: r).map (·.name)).Perm (e'.name :: (s ++ r).map (·.name)) :=
        (List.perm_middle (a := e') (l₁ := s) (l₂ := r)).map _
      have := (hp.nodup_iff.mp hnb)
      simp only [List.nodup_cons, List.mem_map, not_exists, not_and] at this
      exact this.1 x hx hxe
    obtain ⟨l', hl', hf⟩ := ih (s ++ r) hna.2 hnb' (by
        intro x hx
        obtain ⟨x', hx', hmx⟩ := h1 x (List.mem_cons_of_mem _ hx)
        refine ⟨x', ?_, hmx⟩
        rcases List.mem_append.mp hx' with h | h
        · exact List.mem_append_left _ h
        · rcases List.mem_cons.mp h with rfl | h
          · exact absurd (hmx.1.symm.trans hm.1) (hna.1 x hx)
          · exact List.mem_append_right _ h) (by
        intro x' hx'
        have hx'' : x' ∈ s ++ e' :: r := by
          rcases List.mem_append.mp hx' with h | h
          · exact List.mem_append_left _ h
          · exact List.mem_append_right _ (List.mem_cons_of_mem _ h)
        obtain ⟨x, hx, hmx⟩ := h2 x' hx''
        rcases List.mem_cons.mp hx with rfl | hx
        · exact absurd (hmx.1.trans hm.1.symm) (hne' x' hx')
        · exact ⟨x, hx, hmx⟩)
    exact ⟨e' :: l', (List.Perm.cons e' hl').trans List.perm_middle.symm, List.Forall₂.cons hm hf⟩

/-- for structures with distinct names, `Same` says: the `comps` lists are permutations of each other, compared by
    (name, component, ordered inputs, set of feeder names) -/
theorem Same.comps_perm {a b : AStruct π ν} (h : a.Same b) (ha : a.namesDistinct) (hb : b.namesDistinct) :
    ∃ l, l.Perm b.comps ∧ List.Forall₂ AEntry.Match a.comps l :=
  perm_of_sub a.comps b.comps ha hb h.1 (fun e' he' => by
    obtain ⟨e, he, hm⟩ := h.2.1 e' he'
    exact ⟨e, he, hm.symm⟩)

end AStruct

/-- a valid `_topo_nodes`: exactly the live node indices, once each, every predecessor of a node before the node -/
structure ValidTopo (s : Sys π ν) (topo : List Nat) : Prop where
  nodup : topo.Nodup
  live  : ∀ n, n ∈ topo ↔ n ∈ s.ids
  order : ∀ pre n post, topo = pre ++ n :: post → ∀ p ∈ s.preds n, p ∈ pre

namespace Sys

/-- the renumbering between two states with the same structure: node `n` of `s₁` ↦ the node of `s₂` registered
    under the name of `n` -/
def sigma (s₁ s₂ : Sys π ν) (n : Nat) : Nat :=
  match s₁.nameOf n with
  | some x => (dget s₂.nodes x).getD 0
  | none => 0

end Sys

namespace C16F

theorem sigma_eq {s₁ s₂ : Sys π ν} (hs₁ : Sane s₁) (hr₂ : WFr s₂) {p q : Nat × π} (hp : p ∈ s₁.comps)
    (hq : q ∈ s₂.comps) (h : nameOfC q.2 = nameOfC p.2) : Sys.sigma s₁ s₂ p.1 = q.1 := by
  unfold Sys.sigma
  rw [nameOf_of_mem hs₁ hp]
  simp only
  rw [← h, hr₂.nodes_get q hq]
  rfl

/-- a live component of `s₁` and its counterpart in `s₂` -/
theorem counterpart {s₁ s₂ : Sys π ν} (h : s₁.abs.Sub s₂.abs) {p : Nat × π} (hp : p ∈ s₁.comps) :
    ∃ q ∈ s₂.comps, (s₁.absEntry p).Match (s₂.absEntry q) := by
  obtain ⟨e', he', hm⟩ := h _ (mem_abs_comps.mpr ⟨p, hp, rfl⟩)
  obtain ⟨q, hq, rfl⟩ := mem_abs_comps.mp he'
  exact ⟨q, hq, hm⟩

theorem succs_nodup {s : Sys π ν} (hs : Sane s) (n : Nat) : (s.succs n).Nodup := by
  unfold Sys.succs
  have h1 : (s.edges.filter (fun e => decide (e.1 = n))).Nodup := hs.edges_nodup.filter _
  refine nodup_map_on ?_ h1
  intro a ha b hb hab
  simp only [List.mem_filter, decide_eq_true_eq] at ha hb
  exact Prod.ext (ha.2.trans hb.2.symm) hab

theorem sigma_inj {s₁ s₂ : Sys π ν} (hs₁ : Sane s₁) (hr₁ : WFr s₁) (hs₂ : Sane s₂) (hr₂ : WFr s₂)
    (h : s₁.abs.Sub s₂.abs) {n m : Nat} (hn : n ∈ s₁.ids) (hm : m ∈ s₁.ids)
    (he : Sys.sigma s₁ s₂ n = Sys.sigma s₁ s₂ m) : n = m := by
  obtain ⟨c, hc⟩ := payload?_of_mem_ids hn
  obtain ⟨d, hd⟩ := payload?_of_mem_ids hm
  have hp := mem_of_payload? hc
  have hq := mem_of_payload? hd
  obtain ⟨p', hp', hmp⟩ := counterpart h hp
  obtain ⟨q', hq', hmq⟩ := counterpart h hq
  have e1 := sigma_eq hs₁ hr₂ hp hp' hmp.1
  have e2 := sigma_eq hs₁ hr₂ hq hq' hmq.1
  simp only at e1 e2
  have : p' = q' := eq_of_mem_same_id hs₂ hp' hq' (by rw [← e1, ← e2, he])
  have hnm : nameOfC c = nameOfC d := by
    have a1 : nameOfC p'.2 = nameOfC c := hmp.1
    have a2 : nameOfC q'.2 = nameOfC d := hmq.1
    rw [← a1, ← a2, this]
  have := name_inj hr₁.names_nodup hp hq hnm
  exact congrArg Prod.fst this

/-- the children of a component and of its counterpart correspond (one direction; the other by symmetry) -/
theorem succ_transfer {s₁ s₂ : Sys π ν} (hs₁ : Sane s₁) (hs₂ : Sane s₂) (hr₂ : WFr s₂)
    (h : s₁.abs.Sub s₂.abs) {p q : Nat × π} (hp : p ∈ s₁.comps) (hq : q ∈ s₂.comps)
    (hpq : nameOfC q.2 = nameOfC p.2) {k : Nat} (hk : k ∈ s₁.succs p.1) :
    ∃ kc mp, (k, kc) ∈ s₁.comps ∧ mp ∈ s₂.comps ∧ nameOfC mp.2 = nameOfC kc ∧ mp.1 ∈ s₂.succs q.1 := by
  have hedge := mem_succs.mp hk
  obtain ⟨kc, hkc⟩ := payload?_of_mem_ids (hs₁.edges_live _ hedge).2
  have hkm := mem_of_payload? hkc
  obtain ⟨mp, hmp, hm⟩ := counterpart h hkm
  refine ⟨kc, mp, hkm, hmp, hm.1, ?_⟩
  have h1 : nameOfC p.2 ∈ (s₁.absEntry (k, kc)).preds.map (·.1) :=
    List.mem_map.mpr ⟨(nameOfC p.2, kindOfC p.2),
      mem_predInfo.mpr ⟨p.1, mem_preds.mpr hedge, p.2, payload?_of_mem hs₁ hp, rfl⟩, rfl⟩
  have h2 := hm.2.2.2.1 _ h1
  obtain ⟨pi, hpi, hpn⟩ := List.mem_map.mp h2
  obtain ⟨q', hq', c', hc', rfl⟩ := mem_predInfo.mp hpi
  have : (q', c') = q := name_inj hr₂.names_nodup (mem_of_payload? hc') hq (by rw [hpq]; exact hpn)
  have hq1 : q' = q.1 := by rw [← this]
  rw [← hq1]
  exact mem_succs.mpr (mem_preds.mp hq')

/-- ordered inputs: equal name lists are renumbered index lists -/
theorem parents_map {s₁ s₂ : Sys π ν} (hs₁ : Sane s₁) (hs₂ : Sane s₂) (hr₂ : WFr s₂) :
    ∀ (l₁ l₂ : List (Option Nat)),
      (∀ x ∈ l₁, ∃ q ∈ s₁.ids, x = some q) → (∀ x ∈ l₂, ∃ q ∈ s₂.ids, x = some q) →
      l₁.map (fun o => o.bind s₁.nameOf) = l₂.map (fun o => o.bind s₂.nameOf) →
      l₂.filterMap id = (l₁.filterMap id).map (Sys.sigma s₁ s₂) := by
  intro l₁
  induction l₁ with
  | nil =>
    intro l₂ _ _ h
    cases l₂ with
    | nil => rfl
    | cons b t => simp at h
  | cons a t ih =>
    intro l₂ h1 h2 h
    cases l₂ with
    | nil => simp at h
    | cons b t' =>
      simp only [List.map_cons, List.cons.injEq] at h
      obtain ⟨qa, hqa, rfl⟩ := h1 a (by simp)
      obtain ⟨qb, hqb, rfl⟩ := h2 b (by simp)
      obtain ⟨ca, hca⟩ := payload?_of_mem_ids hqa
      obtain ⟨cb, hcb⟩ := payload?_of_mem_ids hqb
      have hn : nameOfC cb = nameOfC ca := by
        have := h.1
        simp only [Option.bind_some, Sys.nameOf, hca, hcb, Option.map_some, Option.some.injEq] at this
        exact this.symm
      have hσ := sigma_eq hs₁ hr₂ (mem_of_payload? hca) (mem_of_payload? hcb) hn
      simp only at hσ
      have := ih t' (fun x hx => h1 x (List.mem_cons_of_mem _ hx)) (fun x hx => h2 x (List.mem_cons_of_mem _ hx)) h.2
      show qb :: t'.filterMap id = Sys.sigma s₁ s₂ qa :: (t.filterMap id).map (Sys.sigma s₁ s₂)
      rw [this, hσ]

open Classical in
/-- every state rustworkx can be in has a valid topological order (sort the live nodes by the number of nodes they
    reach, descending), so `ValidTopo` is satisfiable for every reachable state -/
theorem exists_validTopo {s : Sys π ν} (hs : Sane s) : ∃ topo, ValidTopo s topo := by
  let key : Nat → Nat := fun n => (s.ids.filter fun x => decide (Path s.edges n x)).length
  have hkey : ∀ p n, (p, n) ∈ s.edges → key n < key p := by
    intro p n he
    apply length_filter_lt (a := n)
    · intro x hx
      simp only [decide_eq_true_eq] at hx ⊢
      exact Path.cons he hx
    · exact (hs.edges_live _ he).2
    · simpa using Path.single he
    · simpa using hs.acyclic n
  let le : Nat → Nat → Bool := fun a b => decide (key b ≤ key a)
  refine ⟨s.ids.mergeSort le, ?_, ?_, ?_⟩
  · exact (List.mergeSort_perm s.ids le).nodup_iff.mpr hs.ids_nodup
  · intro n; exact (List.mergeSort_perm s.ids le).mem_iff
  · intro pre n post htopo p hp
    have hsorted : List.Pairwise (fun a b => le a b = true) (s.ids.mergeSort le) :=
      List.pairwise_mergeSort (fun a b c h1 h2 => by simp only [le, decide_eq_true_eq] at *; omega)
        (fun a b => by simp only [le, Bool.or_eq_true, decide_eq_true_eq]; omega) s.ids
    have hlt := hkey p n (mem_preds.mp hp)
    have hpm : p ∈ s.ids.mergeSort le :=
      (List.mergeSort_perm s.ids le).mem_iff.mpr (preds_live hs hp).1
    rw [htopo] at hpm hsorted
    rcases List.mem_append.mp hpm with h | h
    · exact h
    · exfalso
      rcases List.mem_cons.mp h with rfl | h
      · omega
      · have := (List.pairwise_cons.mp (List.pairwise_append.mp hsorted).2.1).1 p h
        simp only [le, decide_eq_true_eq] at this
        omega

end C16F
end

/-! ### the solver's view -/

section
variable {α : Type} [Field α] [LinearOrder α] [IsStrictOrderedRing α]

/-- the payload `toSSys` puts at a live node index -/
def Sys.mkNode (s : Sys (Comp α) α) (n : Nat) (c : Comp α) : SNode α :=
  { comp := c
    parents := ((s.parentsOf n).toOption.getD []).filterMap id
    childs := s.succs n
    pconf := (s.phaseLkup n).getD (.table [])
    group := (dget s.groups c.name).getD ""
    rail := (dget s.rails c.name).getD "" }

namespace C16F
open C16R

theorem le_foldl_max : ∀ (l : List Nat) (i : Nat), i ≤ l.foldl max i ∧ ∀ x ∈ l, x ≤ l.foldl max i := by
  intro l
  induction l with
  | nil => intro i; simp
  | cons a t ih =>
    intro i
    simp only [List.foldl_cons, List.mem_cons, forall_eq_or_imp]
    obtain ⟨h1, h2⟩ := ih (max i a)
    exact ⟨le_trans (le_max_left _ _) h1, le_trans (le_max_right _ _) h1, h2⟩

/-- the solver's view, cell by cell -/
theorem toSSys_node? (s : Sys (Comp α) α) (topo : List Nat) (n : Nat) :
    (s.toSSys topo).node? n = (s.payload? n).map (s.mkNode n) := by
  cases hc : s.payload? n with
  | some c =>
    have hn := mem_ids_of_payload? hc
    have hlt : n < s.ids.foldl max 0 + 1 := Nat.lt_succ_of_le ((le_foldl_max s.ids 0).2 n hn)
    obtain ⟨c', hc', h⟩ := C16.toSSys_node topo hn hlt
    rw [hc] at hc'
    cases hc'
    rw [h]; rfl
  | none =>
    unfold Sys.toSSys SSys.node?
    by_cases hlt : n < s.ids.foldl max 0 + 1
    · simp [Array.getD, hlt, hc]
    · simp [Array.getD, hlt]

theorem toSSys_live {s : Sys (Comp α) α} {topo : List Nat} {n : Nat} :
    (∃ nd, (s.toSSys topo).node? n = some nd) ↔ n ∈ s.ids := by
  rw [toSSys_node?]
  constructor
  · rintro ⟨nd, h⟩
    obtain ⟨c, hc, _⟩ := Option.map_eq_some_iff.mp h
    exact mem_ids_of_payload? hc
  · intro h
    obtain ⟨c, hc⟩ := payload?_of_mem_ids h
    exact ⟨_, by rw [hc]; rfl⟩

/-- `_parents[n]` as the solver gets it lists predecessors of `n` -/
theorem mkNode_parents {s : Sys (Comp α) α} (hr : WFr s) {p : Nat × Comp α} (hp : p ∈ s.comps) :
    ∃ l, s.parentsOf p.1 = .ok l ∧ (s.mkNode p.1 p.2).parents = l.filterMap id ∧
      (∀ x ∈ l, ∃ q ∈ s.preds p.1, x = some q) ∧ (l = [] ↔ s.preds p.1 = []) := by
  obtain ⟨l, hl, h1, h2⟩ := parentsOf_ok hr hp
  refine ⟨l, hl, ?_, h1, h2⟩
  simp [Sys.mkNode, hl, Except.toOption]

theorem mem_mkNode_parents {s : Sys (Comp α) α} (hr : WFr s) {p : Nat × Comp α} (hp : p ∈ s.comps) {x : Nat}
    (hx : x ∈ (s.mkNode p.1 p.2).parents) : x ∈ s.preds p.1 := by
  obtain ⟨l, _, hpar, h1, _⟩ := mkNode_parents hr hp
  rw [hpar] at hx
  obtain ⟨o, ho, hox⟩ := List.mem_filterMap.mp hx
  obtain ⟨q, hq, rfl⟩ := h1 o ho
  simp only [id, Option.some.injEq] at hox
  exact hox ▸ hq

/-- **the link**: two legal, well-formed states with the same abstract structure are, as the solver sees them,
    renumberings of each other -/
theorem toSSys_iso {s₁ s₂ : Sys (Comp α) α} (hl₁ : Legal s₁) (hw₁ : s₁.abs.WF) (hl₂ : Legal s₂) (hw₂ : s₂.abs.WF)
    (hsame : s₁.abs.Same s₂.abs) {topo₁ topo₂ : List Nat} (ht₁ : ValidTopo s₁ topo₁) (ht₂ : ValidTopo s₂ topo₂) :
    Iso (Sys.sigma s₁ s₂) (s₁.toSSys topo₁) (s₂.toSSys topo₂) := by
  have hs₁ := hl₁.sane
  have hs₂ := hl₂.sane
  have hr₁ := wfr_of_wf_abs hs₁ hw₁
  have hr₂ := wfr_of_wf_abs hs₂ hw₂
  obtain ⟨h12, h21, hconf, hgrp, hrail, hph⟩ := hsame
  refine ⟨?_, ?_, ?_, ?_, ?_, ?_, ?_, ?_⟩
  · -- inj
    intro n m nd md hn hm he
    exact sigma_inj hs₁ hr₁ hs₂ hr₂ h12 (toSSys_live.mp ⟨nd, hn⟩) (toSSys_live.mp ⟨md, hm⟩) he
  · -- node
    intro n nd hn
    rw [toSSys_node?] at hn
    obtain ⟨c, hc, rfl⟩ := Option.map_eq_some_iff.mp hn
    have hp := mem_of_payload? hc
    obtain ⟨q, hq, hm⟩ := counterpart h12 hp
    have hσ : Sys.sigma s₁ s₂ n = q.1 := sigma_eq hs₁ hr₂ hp hq hm.1
    have hqc : q.2 = c := hm.2.1
    have hname : nameOfC q.2 = nameOfC c := hm.1
    refine ⟨s₂.mkNode q.1 q.2, ?_, ?_⟩
    · rw [hσ, toSSys_node?, payload?_of_mem hs₂ hq]; rfl
    · have hnm : nameOfC c ∈ s₁.abs.names := by rw [abs_names]; exact mem_names_of_mem hp
      refine ⟨hqc, ?_, ?_, ?_, ?_, ?_⟩
      · -- pconf
        show (s₂.phaseLkup q.1).getD _ = (s₁.phaseLkup n).getD _
        have e1 := C16.phase_lkup_factors hl₁ hw₁ hp
        have e2 := C16.phase_lkup_factors hl₂ hw₂ hq
        simp only at e1
        rw [e1, e2, hname, hconf _ hnm]
      · -- group
        show (dget s₂.groups q.2.name).getD "" = (dget s₁.groups c.name).getD ""
        rw [hqc]
        exact congrArg (·.getD "") (hgrp _ hnm).symm
      · -- rail
        show (dget s₂.rails q.2.name).getD "" = (dget s₁.rails c.name).getD ""
        rw [hqc]
        exact congrArg (·.getD "") (hrail _ hnm).symm
      · -- parents, in order
        obtain ⟨l₁, hl1, hpar1, hsub1, _⟩ := mkNode_parents hr₁ hp
        obtain ⟨l₂, hl2, hpar2, hsub2, _⟩ := mkNode_parents hr₂ hq
        rw [hpar1, hpar2]
        apply parents_map hs₁ hs₂ hr₂
        · intro x hx
          obtain ⟨r, hr, rfl⟩ := hsub1 x hx
          exact ⟨r, (preds_live hs₁ hr).1, rfl⟩
        · intro x hx
          obtain ⟨r, hr, rfl⟩ := hsub2 x hx
          exact ⟨r, (preds_live hs₂ hr).1, rfl⟩
        · have := hm.2.2.1
          simp only [Sys.absEntry, hl1, hl2] at this
          exact this.symm
      · -- children, up to their order
        show (s₂.succs q.1).Perm ((s₁.succs n).map (Sys.sigma s₁ s₂))
        have hnd2 := succs_nodup hs₂ q.1
        have hnd1 : ((s₁.succs n).map (Sys.sigma s₁ s₂)).Nodup := by
          apply nodup_map_on _ (succs_nodup hs₁ n)
          intro a ha b hb hab
          exact sigma_inj hs₁ hr₁ hs₂ hr₂ h12 (hs₁.edges_live _ (mem_succs.mp ha)).2
            (hs₁.edges_live _ (mem_succs.mp hb)).2 hab
        rw [List.perm_ext_iff_of_nodup hnd2 hnd1]
        intro m
        constructor
        · intro hmm
          obtain ⟨mc, kp, hmc, hkp, hnk, hks⟩ :=
            succ_transfer hs₂ hs₁ hr₁ h21 hq hp hname.symm hmm
          refine List.mem_map.mpr ⟨kp.1, hks, ?_⟩
          exact sigma_eq hs₁ hr₂ hkp hmc hnk.symm
        · intro hmm
          obtain ⟨k, hk, rfl⟩ := List.mem_map.mp hmm
          obtain ⟨kc, mp, hkc, hmp, hnk, hms⟩ := succ_transfer hs₁ hs₂ hr₂ h12 hp hq hname hk
          have : Sys.sigma s₁ s₂ k = mp.1 := sigma_eq hs₁ hr₂ hkc hmp hnk
          rw [this]; exact hms
  · -- surj
    intro m nd' hm
    rw [toSSys_node?] at hm
    obtain ⟨c, hc, rfl⟩ := Option.map_eq_some_iff.mp hm
    have hq := mem_of_payload? hc
    obtain ⟨p, hp, hmp⟩ := counterpart h21 hq
    refine ⟨p.1, s₁.mkNode p.1 p.2, ?_, ?_⟩
    · rw [toSSys_node?, payload?_of_mem hs₁ hp]; rfl
    · exact sigma_eq hs₁ hr₂ hp hq hmp.1.symm
  · intro n
    rw [toSSys_live]; exact ht₁.live n
  · intro m
    rw [toSSys_live]; exact ht₂.live m
  · -- parentsLive
    intro n nd hn x hx
    rw [toSSys_node?] at hn
    obtain ⟨c, hc, rfl⟩ := Option.map_eq_some_iff.mp hn
    have := mem_mkNode_parents hr₁ (mem_of_payload? hc) hx
    exact toSSys_live.mpr (preds_live hs₁ this).1
  · -- childsLive
    intro n nd hn x hx
    rw [toSSys_node?] at hn
    obtain ⟨c, hc, rfl⟩ := Option.map_eq_some_iff.mp hn
    exact toSSys_live.mpr (hs₁.edges_live _ (mem_succs.mp hx)).2
  · exact hph.symm

/-- what the table assembly relies on holds for the solver's view of every legal, well-formed state -/
theorem toSSys_tableWF {s : Sys (Comp α) α} (hl : Legal s) (hw : s.abs.WF) {topo : List Nat} (ht : ValidTopo s topo) :
    TableWF (s.toSSys topo) := by
  have hs := hl.sane
  have hr := wfr_of_wf_abs hs hw
  refine ⟨?_, ht.nodup, ?_, ?_⟩
  · intro n m nd md hn hm he
    rw [toSSys_node?] at hn hm
    obtain ⟨c, hc, rfl⟩ := Option.map_eq_some_iff.mp hn
    obtain ⟨d, hd, rfl⟩ := Option.map_eq_some_iff.mp hm
    have := name_inj hr.names_nodup (mem_of_payload? hc) (mem_of_payload? hd) he
    exact congrArg Prod.fst this
  · intro pre n post htopo nd p rest hn hpar
    rw [toSSys_node?] at hn
    obtain ⟨c, hc, rfl⟩ := Option.map_eq_some_iff.mp hn
    have hp : p ∈ (s.mkNode n c).parents := by rw [hpar]; simp
    exact ht.order pre n post htopo p (mem_mkNode_parents hr (mem_of_payload? hc) hp)
  · intro n nd hn hpar
    rw [toSSys_node?] at hn
    obtain ⟨c, hc, rfl⟩ := Option.map_eq_some_iff.mp hn
    have hp := mem_of_payload? hc
    obtain ⟨l, _, hpar', hsub, hnil⟩ := mkNode_parents hr hp
    have hl0 : l = [] := by
      cases l with
      | nil => rfl
      | cons o t =>
        obtain ⟨q, _, rfl⟩ := hsub o (by simp)
        rw [hpar'] at hpar
        simp at hpar
    exact (hr.roots _ hp).mp (hnil.mp hl0)

/-- **C16, composed**: the same final structure gives the same `solve()` table — rows up to their order (it is
    rustworkx's), totals and the average row equal -/
theorem same_structure_same_table {s₁ s₂ : Sys (Comp α) α} (hl₁ : Legal s₁) (hw₁ : s₁.abs.WF) (hl₂ : Legal s₂)
    (hw₂ : s₂.abs.WF) (hsame : s₁.abs.Same s₂.abs) {topo₁ topo₂ : List Nat} (ht₁ : ValidTopo s₁ topo₁)
    (ht₂ : ValidTopo s₂ topo₂) (cfg : Cfg α) (hatol : 0 ≤ cfg.atol) (ph : String) (ta : α) (T₁ : Table α)
    (h : (s₁.toSSys topo₁).solve cfg ph ta = .ok T₁) :
    ∃ T₂, (s₂.toSSys topo₂).solve cfg ph ta = .ok T₂ ∧
      List.Forall₂ (fun p p' => p'.1 = p.1 ∧ p'.2.comps.Perm p.2.comps ∧ p'.2.subs.Perm p.2.subs ∧
        p'.2.total = p.2.total ∧ p'.2.nsrc = p.2.nsrc) T₁.phases T₂.phases ∧
      T₂.avg = T₁.avg :=
  solve_renumber (toSSys_iso hl₁ hw₁ hl₂ hw₂ hsame ht₁ ht₂) (toSSys_tableWF hl₁ hw₁ ht₁)
    (toSSys_tableWF hl₂ hw₂ ht₂) cfg hatol ph ta T₁ h

/-- … and an exception on one side is an exception on the other; the same one when the nodes are processed in the
    corresponding order -/
theorem same_structure_same_error {s₁ s₂ : Sys (Comp α) α} (hl₁ : Legal s₁) (hw₁ : s₁.abs.WF) (hl₂ : Legal s₂)
    (hw₂ : s₂.abs.WF) (hsame : s₁.abs.Same s₂.abs) {topo₁ topo₂ : List Nat} (ht₁ : ValidTopo s₁ topo₁)
    (ht₂ : ValidTopo s₂ topo₂) (cfg : Cfg α) (hatol : 0 ≤ cfg.atol) (ph : String) (ta : α) (e : Err)
    (h : (s₁.toSSys topo₁).solve cfg ph ta = .error e) :
    ∃ e', (s₂.toSSys topo₂).solve cfg ph ta = .error e' ∧ (topo₂ = topo₁.map (Sys.sigma s₁ s₂) → e' = e) :=
  solve_renumber_error (toSSys_iso hl₁ hw₁ hl₂ hw₂ hsame ht₁ ht₂) cfg hatol ph ta e h

/-- success and failure of `solve()` depend on the final structure only -/
theorem same_structure_isOk_iff {s₁ s₂ : Sys (Comp α) α} (hl₁ : Legal s₁) (hw₁ : s₁.abs.WF) (hl₂ : Legal s₂)
    (hw₂ : s₂.abs.WF) (hsame : s₁.abs.Same s₂.abs) {topo₁ topo₂ : List Nat} (ht₁ : ValidTopo s₁ topo₁)
    (ht₂ : ValidTopo s₂ topo₂) (cfg : Cfg α) (hatol : 0 ≤ cfg.atol) (ph : String) (ta : α) :
    (∃ T, (s₁.toSSys topo₁).solve cfg ph ta = .ok T) ↔ (∃ T, (s₂.toSSys topo₂).solve cfg ph ta = .ok T) := by
  constructor
  · rintro ⟨T, hT⟩
    obtain ⟨T', hT', _⟩ := same_structure_same_table hl₁ hw₁ hl₂ hw₂ hsame ht₁ ht₂ cfg hatol ph ta T hT
    exact ⟨T', hT'⟩
  · rintro ⟨T, hT⟩
    obtain ⟨T', hT', _⟩ := same_structure_same_table hl₂ hw₂ hl₁ hw₁ hsame.symm ht₂ ht₁ cfg hatol ph ta T hT
    exact ⟨T', hT'⟩

/-- **for histories**: two systems, each constructed and then edited by any sequence of calls (accepted or rejected),
    that end in the same structure give the same `solve()` table.  No well-formedness hypothesis is left. -/
theorem histories_same_table {name₁ name₂ : String} {src₁ src₂ : Comp α} {g₁ r₁ g₂ r₂ : String}
    {a b : Sys (Comp α) α} (ha : Sys.init name₁ src₁ g₁ r₁ = some a) (hb : Sys.init name₂ src₂ g₂ r₂ = some b)
    (h₁ h₂ : List (Op (Comp α) α)) (hsame : (a.run h₁).abs.Same (b.run h₂).abs) {topo₁ topo₂ : List Nat}
    (ht₁ : ValidTopo (a.run h₁) topo₁) (ht₂ : ValidTopo (b.run h₂) topo₂) (cfg : Cfg α) (hatol : 0 ≤ cfg.atol)
    (ph : String) (ta : α) (T₁ : Table α) (h : ((a.run h₁).toSSys topo₁).solve cfg ph ta = .ok T₁) :
    ∃ T₂, ((b.run h₂).toSSys topo₂).solve cfg ph ta = .ok T₂ ∧
      List.Forall₂ (fun p p' => p'.1 = p.1 ∧ p'.2.comps.Perm p.2.comps ∧ p'.2.subs.Perm p.2.subs ∧
        p'.2.total = p.2.total ∧ p'.2.nsrc = p.2.nsrc) T₁.phases T₂.phases ∧
      T₂.avg = T₁.avg :=
  same_structure_same_table (C14.legal_run (C14.legal_init ha) h₁) (C14.wf_always ha h₁)
    (C14.legal_run (C14.legal_init hb) h₂) (C14.wf_always hb h₂) hsame ht₁ ht₂ cfg hatol ph ta T₁ h

theorem histories_same_error {name₁ name₂ : String} {src₁ src₂ : Comp α} {g₁ r₁ g₂ r₂ : String}
    {a b : Sys (Comp α) α} (ha : Sys.init name₁ src₁ g₁ r₁ = some a) (hb : Sys.init name₂ src₂ g₂ r₂ = some b)
    (h₁ h₂ : List (Op (Comp α) α)) (hsame : (a.run h₁).abs.Same (b.run h₂).abs) {topo₁ topo₂ : List Nat}
    (ht₁ : ValidTopo (a.run h₁) topo₁) (ht₂ : ValidTopo (b.run h₂) topo₂) (cfg : Cfg α) (hatol : 0 ≤ cfg.atol)
    (ph : String) (ta : α) (e : Err) (h : ((a.run h₁).toSSys topo₁).solve cfg ph ta = .error e) :
    ∃ e', ((b.run h₂).toSSys topo₂).solve cfg ph ta = .error e' ∧
      (topo₂ = topo₁.map (Sys.sigma (a.run h₁) (b.run h₂)) → e' = e) :=
  same_structure_same_error (C14.legal_run (C14.legal_init ha) h₁) (C14.wf_always ha h₁)
    (C14.legal_run (C14.legal_init hb) h₂) (C14.wf_always hb h₂) hsame ht₁ ht₂ cfg hatol ph ta e h

end C16F
end

/-! ### non-vacuity: `C16.histA` / `C16.histB` with solver payloads -/

namespace C16F
open C16R

/-- a decidable sufficient test for `ValidTopo` -/
def topoOK {π ν : Type} [CompLike π] (s : Sys π ν) : List Nat → List Nat → Bool
  | _, [] => true
  | seen, n :: rest => (s.preds n).all (fun p => decide (p ∈ seen)) && topoOK s (seen ++ [n]) rest

theorem topoOK_sound {π ν : Type} [CompLike π] (s : Sys π ν) : ∀ (rest seen : List Nat), topoOK s seen rest = true →
    ∀ pre n post, rest = pre ++ n :: post → ∀ p ∈ s.preds n, p ∈ seen ++ pre := by
  intro rest
  induction rest with
  | nil => intro seen _ pre n post h; simp at h
  | cons a t ih =>
    intro seen hok pre n post h p hp
    unfold topoOK at hok
    simp only [Bool.and_eq_true, List.all_eq_true, decide_eq_true_eq] at hok
    cases pre with
    | nil =>
      simp only [List.nil_append, List.cons.injEq] at h
      rw [← h.1] at hp
      simpa using hok.1 p hp
    | cons b pre' =>
      simp only [List.cons_append, List.cons.injEq] at h
      have := ih (seen ++ [a]) hok.2 pre' n post h.2 p hp
      rw [← h.1]
      simpa [List.append_assoc] using this

theorem validTopo_of_check {π ν : Type} [CompLike π] {s : Sys π ν} {topo : List Nat}
    (h : topo.Nodup ∧ (∀ n ∈ topo, n ∈ s.ids) ∧ (∀ n ∈ s.ids, n ∈ topo) ∧ topoOK s [] topo = true) :
    ValidTopo s topo :=
  ⟨h.1, fun n => ⟨h.2.1 n, h.2.2.1 n⟩, fun pre n post ht p hp => by
    simpa using topoOK_sound s topo [] h.2.2.2 pre n post ht p hp⟩

deriving instance DecidableEq for Param

/-- a sound (incomplete: it wants empty `params`) test for the equality of two components -/
def compEqB (a b : Comp ℚ) : Bool :=
  decide (a.name = b.name) && decide (a.kind = b.kind) && decide (a.vo = b.vo) && decide (a.rs = b.rs) &&
  decide (a.rsList = b.rsList) && decide (a.par = b.par) && decide (a.vdrop = b.vdrop) && decide (a.iq = b.iq) &&
  decide (a.iis = b.iis) && decide (a.rt = b.rt) && decide (a.pwr = b.pwr) && decide (a.pwrs = b.pwrs) &&
  decide (a.ii = b.ii) && decide (a.loss = b.loss) && decide (a.diode = b.diode) && decide (a.limits = b.limits) &&
  a.params.isEmpty && b.params.isEmpty

theorem compEqB_sound {a b : Comp ℚ} (h : compEqB a b = true) : a = b := by
  cases a; cases b
  simp only [compEqB, Bool.and_eq_true, decide_eq_true_eq, List.isEmpty_iff] at h
  obtain ⟨⟨⟨⟨⟨⟨⟨⟨⟨⟨⟨⟨⟨⟨⟨⟨⟨h1, h2⟩, h3⟩, h4⟩, h5⟩, h6⟩, h7⟩, h8⟩, h9⟩, h10⟩, h11⟩, h12⟩, h13⟩, h14⟩, h15⟩, h16⟩, h17⟩, h18⟩ := h
  subst h1 h2 h3 h4 h5 h6 h7 h8 h9 h10 h11 h12 h13 h14 h15 h16 h17 h18
  rfl

def matchB (e e' : AEntry (Comp ℚ)) : Bool :=
  decide (e'.name = e.name) && compEqB e'.comp e.comp && decide (e'.parents = e.parents) &&
  decide (∀ x ∈ e.preds.map (·.1), x ∈ e'.preds.map (·.1)) && decide (∀ x ∈ e'.preds.map (·.1), x ∈ e.preds.map (·.1))

def subB (a b : AStruct (Comp ℚ) ℚ) : Bool := a.comps.all fun e => b.comps.any fun e' => matchB e e'

theorem sub_of_subB {a b : AStruct (Comp ℚ) ℚ} (h : subB a b = true) : a.Sub b := by
  intro e he
  simp only [subB, List.all_eq_true, List.any_eq_true] at h
  obtain ⟨e', he', hm⟩ := h e he
  simp only [matchB, Bool.and_eq_true, decide_eq_true_eq] at hm
  exact ⟨e', he', hm.1.1.1.1, compEqB_sound hm.1.1.1.2, hm.1.1.2, hm.1.2, hm.2⟩

/-- `C16.histA` and `C16.histB` end in the same structure -/
example : (C14.s0.run C16.histA).abs.Same (C14.s0.run C16.histB).abs := by decide

/-- solver payload for the light components of `C16.histA` / `C16.histB` -/
def liftC (c : PComp) : Comp ℚ :=
  match c.kind with
  | .source => { name := c.name, kind := .source, vo := 5, rs := 1/10, par := .const 0 }
  | .converter => { name := c.name, kind := .converter, vo := 3, par := .const (9/10), iq := 1/1000 }
  | k => { name := c.name, kind := k, pwr := 1/2, par := .const 0 }

/-- the same call on a system of solver components (the phase calls do not occur in `histA` / `histB`) -/
def liftOp : Op PComp String → Op (Comp ℚ) ℚ
  | .addSource c g r => .addSource (liftC c) g r
  | .addComp p c g r => .addComp p (liftC c) g r
  | .changeComp x c g r => .changeComp x (liftC c) g r
  | .delComp x d => .delComp x d
  | .setSysPhases ph => .setSysPhases (ph.map fun p => (p.1, 0))
  | .setCompPhases x _ => .setCompPhases x .bad

/-- `System("s", Source("S", vo=5, rs=0.1))` -/
def s0q : Sys (Comp ℚ) ℚ :=
  { name := "s", comps := [(0, liftC (C14.src "S"))], edges := [], free := [], next := 1, nodes := [("S", 0)],
    phaseConf := [("S", .table [])], groups := [("S", "")], rails := [("S", "")], pnames := [(0, [])], phases := [] }

theorem s0q_init : Sys.init "s" (liftC (C14.src "S")) "" "" = some s0q := rfl

def exPhases : Op (Comp ℚ) ℚ := .setSysPhases [("run", 600), ("sleep", 3000)]
def exKconf : Op (Comp ℚ) ℚ := .setCompPhases "K" (.conf (.table [("run", 1/4)]))

/-- `C16.histA` (S → B → {L, K} built directly), then the phases and K's per-phase power -/
def hA : List (Op (Comp ℚ) ℚ) := C16.histA.map liftOp ++ [exPhases, exKconf]

/-- `C16.histB` (other insertion order, a deleted subtree whose node indices are re-used, a rename), with K
    configured before the rename and the deletion, and the phases declared at the end -/
def hB : List (Op (Comp ℚ) ℚ) :=
  (C16.histB.take 7).map liftOp ++ [exKconf] ++ (C16.histB.drop 7).map liftOp ++ [exPhases]

/-- the two final states differ: node numbering, sibling order, registry order -/
example :
    (s0q.run hA).ids = [0, 1, 2, 3] ∧ (s0q.run hB).ids = [0, 1, 2, 4] ∧
    (s0q.run hA).succs 1 = [2, 3] ∧ (s0q.run hB).succs 1 = [2, 4] ∧
    (s0q.run hA).nameOf 2 = some "L" ∧ (s0q.run hB).nameOf 2 = some "K" ∧
    dkeys (s0q.run hA).phaseConf = ["S", "B", "L", "K"] ∧ dkeys (s0q.run hB).phaseConf = ["S", "K", "L", "B"] := by
  decide +kernel

/-- … but they have the same structure -/
theorem ex_same : (s0q.run hA).abs.Same (s0q.run hB).abs :=
  ⟨sub_of_subB (by decide +kernel), sub_of_subB (by decide +kernel), by decide +kernel, by decide +kernel,
   by decide +kernel, by decide +kernel⟩

theorem ex_topoA : ValidTopo (s0q.run hA) [0, 1, 2, 3] := validTopo_of_check (by decide +kernel)
theorem ex_topoB : ValidTopo (s0q.run hB) [0, 1, 4, 2] := validTopo_of_check (by decide +kernel)

/-- the renumbering is a genuine one -/
example : (List.map (Sys.sigma (s0q.run hA) (s0q.run hB)) [0, 1, 2, 3]) = [0, 1, 4, 2] := by decide +kernel

/-- `toSSys_iso` and `toSSys_tableWF` apply (no hypothesis about the two states is left: they are reachable) -/
example : Iso (Sys.sigma (s0q.run hA) (s0q.run hB)) ((s0q.run hA).toSSys [0, 1, 2, 3])
    ((s0q.run hB).toSSys [0, 1, 4, 2]) :=
  toSSys_iso (C14.legal_run (C14.legal_init s0q_init) hA) (C14.wf_always s0q_init hA)
    (C14.legal_run (C14.legal_init s0q_init) hB) (C14.wf_always s0q_init hB) ex_same ex_topoA ex_topoB

example : ∃ topo, ValidTopo (s0q.run hB) topo := exists_validTopo (C14.legal_run (C14.legal_init s0q_init) hB).sane

example : ∃ l, l.Perm (s0q.run hB).abs.comps ∧ List.Forall₂ AEntry.Match (s0q.run hA).abs.comps l :=
  ex_same.comps_perm (C14.wf_always s0q_init hA).1 (C14.wf_always s0q_init hB).1

example : TableWF ((s0q.run hB).toSSys [0, 1, 4, 2]) :=
  toSSys_tableWF (C14.legal_run (C14.legal_init s0q_init) hB) (C14.wf_always s0q_init hB) ex_topoB

/-- `solve()` succeeds on the directly built system, in both phases, with an average row … -/
theorem exA_solves : ∃ T, ((s0q.run hA).toSSys [0, 1, 2, 3]).solve exCfg "" 25 = .ok T ∧
    T.phases.map (·.1) = ["run", "sleep"] ∧ T.avg.isSome = true := by
  cases hx : ((s0q.run hA).toSSys [0, 1, 2, 3]).solve exCfg "" 25 with
  | ok T =>
    have : (((s0q.run hA).toSSys [0, 1, 2, 3]).solve exCfg "" 25).toOption.map
        (fun T => (T.phases.map (·.1), T.avg.isSome)) = some (["run", "sleep"], true) := by decide +kernel
    rw [hx] at this
    simp only [Except.toOption, Option.map_some, Option.some.injEq, Prod.mk.injEq] at this
    exact ⟨T, rfl, this.1, this.2⟩
  | error e =>
    have : ((((s0q.run hA).toSSys [0, 1, 2, 3]).solve exCfg "" 25).toOption.map
        (fun T => T.phases.length)).isSome = true := by decide +kernel
    rw [hx] at this; cases this

/-- … hence (`histories_same_table`) on the system built by the detour, with the same table -/
example : ∃ T₁ T₂, ((s0q.run hA).toSSys [0, 1, 2, 3]).solve exCfg "" 25 = .ok T₁ ∧
    ((s0q.run hB).toSSys [0, 1, 4, 2]).solve exCfg "" 25 = .ok T₂ ∧ T₂.avg = T₁.avg ∧ T₁.avg.isSome = true ∧
    List.Forall₂ (fun p p' => p'.1 = p.1 ∧ p'.2.comps.Perm p.2.comps ∧ p'.2.subs.Perm p.2.subs ∧
      p'.2.total = p.2.total ∧ p'.2.nsrc = p.2.nsrc) T₁.phases T₂.phases := by
  obtain ⟨T₁, hT, _, havg⟩ := exA_solves
  obtain ⟨T₂, hT₂, hrows, he⟩ :=
    histories_same_table s0q_init s0q_init hA hB ex_same ex_topoA ex_topoB exCfg (by norm_num [exCfg]) "" 25 T₁ hT
  exact ⟨T₁, T₂, hT, hT₂, he, havg, hrows⟩

/-- the rows really come out in different orders: the statement is about permutations for a reason -/
example :
    (((s0q.run hA).toSSys [0, 1, 2, 3]).solve exCfg "run" 25).toOption.map
      (fun T => T.phases.map fun p => p.2.comps.map (·.name)) = some [["S", "B", "L", "K"]] ∧
    (((s0q.run hB).toSSys [0, 1, 4, 2]).solve exCfg "run" 25).toOption.map
      (fun T => T.phases.map fun p => p.2.comps.map (·.name)) = some [["S", "B", "L", "K"]] ∧
    (((s0q.run hB).toSSys [0, 1, 2, 4]).solve exCfg "run" 25).toOption.map
      (fun T => T.phases.map fun p => p.2.comps.map (·.name)) = some [["S", "B", "K", "L"]] := by
  decide +kernel

/-- the error counterpart applies as well: an undefined phase is a ValueError on both -/
example : ∃ e', ((s0q.run hB).toSSys [0, 1, 4, 2]).solve exCfg "nosuch" 25 = .error e' ∧
    e' = .value "The specified phase is not defined" := by
  have h : ((s0q.run hA).toSSys [0, 1, 2, 3]).solve exCfg "nosuch" 25 =
      .error (.value "The specified phase is not defined") := by
    have : (match ((s0q.run hA).toSSys [0, 1, 2, 3]).solve exCfg "nosuch" 25 with
        | .error e => some e | .ok _ => none) = some (.value "The specified phase is not defined") := by
      decide +kernel
    cases hx : ((s0q.run hA).toSSys [0, 1, 2, 3]).solve exCfg "nosuch" 25 with
    | ok T => rw [hx] at this; cases this
    | error e => rw [hx] at this; simp only [Option.some.injEq] at this; rw [this]
  obtain ⟨e', he', heq⟩ :=
    histories_same_error s0q_init s0q_init hA hB ex_same ex_topoA ex_topoB exCfg (by norm_num [exCfg]) "nosuch" 25 _ h
  exact ⟨e', he', heq (by decide +kernel)⟩

end C16F
end SysLoss
