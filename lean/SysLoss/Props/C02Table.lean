/-
  Props/C02Table — the table assembler meets the abstract forest of `C02.system_balance`.

  `Props/C02` proves the per-kind identities `pml_*` about `Comp.solvPwrLoss` and the balance
  `system_balance` of an ABSTRACT forest of rows.  This file closes the gap between the two and the
  model's own table assembler (`SSys.compRow` / `SSys.compRows`, Model/Table.lean) fed with an exact
  steady state of the model's own sweeps (`SSys.fwdProp` / `SSys.backProp`, Model/Solver.lean):

   A. `local_fed`, `local_source_partial`, `live_load`, `local_mux` (§G) : one component whose
      `(Vout, Iin)` are what its own voltage / current law return for `(Vin, Iout)` has a row with
      `Power − Loss = |Vout|·Iout` and `Power = |Vin|·Iin` (loads: `Power + Loss = |Vin|·Iin`) — every
      kind, awake / asleep / dead supply / off-flag, by instantiating the `pml_*` identities of Props/C02.
   B. `TreeWF` (well-formed solver view), `Steady` (exact steady state: `fwdProp v i st = ok (v, _)`,
      `backProp v i st = i`, a flag only on a 0 V output), `steady_cell`, `compRow_single`, `compRow_root`.
   C. `row_power_identity`, `row_power_identity_source_partial` (and `row_power_identity_mux`, §G) : the
      per-row identity for the rows `compRow` builds in a steady state.
   D. `compRows_numeric` : `compRows` is `topo.map (compRow …)` for every function of a row that does
      not read the Domain cell (the fold only threads the domain bookkeeping).
   E. `node_balance`, `table_balance_partial` : for a tree WITHOUT PMux the rows of `compRows` satisfy
      every hypothesis of `system_balance`, hence
          Σ_{SOURCE rows} Power = Σ_{LOAD rows} (Power + Loss) + Σ_{other rows} Loss.
   F. `steady_currents_nonneg` : the currents of a steady state are ≥ 0 (induction from the leaves up
      along `_topo_nodes`), so the balance theorems need no hypothesis on `i` beyond `Steady`.
   G. `table_balance_mux_partial` : the same balance WITH PMux — a mux is fed by the input it selected
      (`feederM`; current attribution as in Props/C05), a mux without live input books no power.

  What is NOT covered / what makes the `_partial` theorems partial (hypothesis `CompsOK`):
   * finding F01: a Source with `vo < 0` and `rs ≠ 0` is excluded (`CompsOK.f01`), as in
     `pml_source_spec_partial`.  Without the exclusion the table balance fails: `table_balance_full_fails`.
   * a Converter with `vo = 0` is excluded (`CompsOK.conv`): the constructor accepts it, and then the
     current law returns 0 A while the loss law books `|iq·Vin|` (awake, unloaded) resp. `|iis·Vin|`
     (asleep) as Loss: Power − Loss < 0 (`converter_vo0_breaks_identity`, `table_balance_full_f01_fails`;
     the Python shows the same row: Power 0 W, Loss 0.5 W).
   * phase values (`phase_conf[phase]` of a load) are assumed ≥ 0 (`PhaseValOK`); they are not part of `Phys`.
   * the link from the component rows to the "Subsystem" / "System total" rows (grouping by Domain) is
     Props/C07, not repeated here; approximate (tolerance-converged) states are not covered: `Steady` is exact.
-/
import SysLoss.Proofs.Basic
import SysLoss.Spec.Laws
import SysLoss.Spec.Phys
import SysLoss.Model.Table
import SysLoss.Proofs.Tree
import SysLoss.Proofs.Domain
import SysLoss.Props.C01
import SysLoss.Props.C02
import SysLoss.Props.C05
import SysLoss.Props.C16Sweep
import Mathlib.Algebra.BigOperators.Group.List.Basic
import Mathlib.Algebra.Order.BigOperators.Group.List
import Mathlib.Tactic.NormNum

set_option linter.unusedSectionVars false
set_option linter.unusedVariables false
set_option linter.unnecessarySeqFocus false
set_option linter.unusedTactic false

namespace SysLoss
namespace C02
variable {α : Type} [Field α] [LinearOrder α] [IsStrictOrderedRing α]

/-! ### A. one component in a local steady state -/

/-- a flag that is only raised on a 0 V supply changes nothing a non-source, non-mux law computes -/
theorem flag_irrelevant (c : Comp α) (hs : c.kind ≠ .source) (hm : c.kind ≠ .pmux)
    (vi io : α) (ph : PhaseCtx α) (b : Bool) (hb : b = true → vi = 0) :
    (∀ vo b', c.solvOutpVolt [vi] io ph [b] = .ok (vo, b') →
        ∃ b'', c.solvOutpVolt [vi] io ph [false] = .ok (vo, b'')) ∧
    c.solvInpCurr [vi] io ph [b] = c.solvInpCurr [vi] io ph [false] := by
  cases b with
  | false => exact ⟨fun vo b' h => ⟨b', h⟩, rfl⟩
  | true =>
    have hv : vi = 0 := hb rfl
    subst hv
    have hz : isZ (0 : α) = true := (isZ_iff _).mpr rfl
    unfold Comp.solvOutpVolt Comp.solvInpCurr calcInpCurrent
    cases hk : c.kind <;> simp [hk, off0, hz] at hs hm ⊢

/-- converse of `series_core`: a series element whose drop kept the sign dropped less than `|vi|` -/
theorem sign_kept_lt (vi d : α) (hvi : vi ≠ 0) (he : nsign (vi - d * nsign vi) = nsign vi) : d < |vi| := by
  rcases lt_or_gt_of_ne hvi with hn | hp
  · rw [nsign_eq_iff_neg hn, nsign_of_neg hn] at he
    rw [abs_of_neg hn]; linarith
  · rw [nsign_eq_iff_pos hp, nsign_of_pos hp] at he
    rw [abs_of_pos hp]; linarith

/-- what the balance needs from a fed non-load row: it passes on `|Vout|·Iout` of the `|Vin|·Iin` it takes -/
def FedOK (r : PL α) (vi vo ii io : α) : Prop := r.pwr - r.loss = |vo| * io ∧ r.pwr = |vi| * ii

/-- everything is 0 on a dead supply -/
theorem local_dead (c : Comp α) (hs : c.kind ≠ .source) (hm : c.kind ≠ .pmux)
    (io ta : α) (ph : PhaseCtx α) (vo ii : α) (b' : Bool)
    (hfwd : c.solvOutpVolt [0] io ph [false] = .ok (vo, b'))
    (hback : c.solvInpCurr [0] io ph [false] = ii) :
    vo = 0 ∧ ii = 0 ∧ (c.solvPwrLoss 0 vo ii io ta ph).pwr = 0 ∧ (c.solvPwrLoss 0 vo ii io ta ph).loss = 0 := by
  have hz : isZ (0 : α) = true := (isZ_iff _).mpr rfl
  unfold Comp.solvOutpVolt at hfwd
  unfold Comp.solvInpCurr calcInpCurrent at hback
  unfold Comp.solvPwrLoss
  cases hk : c.kind <;> simp [hk, off0, hz, PL.zeros] at hs hm hfwd hback ⊢ <;>
    (try split_ifs) <;> simp_all


/-- series resistor on a live supply -/
theorem live_rloss (c : Comp α) (hk : c.kind = .rloss) (hc : c.Phys) (vi io ta : α) (ph : PhaseCtx α)
    (vo ii : α) (b' : Bool) (hvi : vi ≠ 0) (hio : 0 ≤ io)
    (hfwd : c.solvOutpVolt [vi] io ph [false] = .ok (vo, b'))
    (hback : c.solvInpCurr [vi] io ph [false] = ii) :
    FedOK (c.solvPwrLoss vi vo ii io ta ph) vi vo ii io := by
  have hz : isZ vi = false := (isZ_false_iff _).mpr hvi
  unfold Comp.solvOutpVolt at hfwd
  simp only [hk, List.headD_cons, off0, hz, Bool.or_false, Bool.false_eq_true, if_false] at hfwd
  by_cases he : eqB (nsign (vi - c.rs * io * nsign vi)) (nsign vi) = true
  swap
  · simp [he] at hfwd
  simp only [he, if_true, Except.ok.injEq, Prod.mk.injEq] at hfwd
  obtain ⟨hvo, _⟩ := hfwd
  have he' := (eqB_iff _ _).mp he
  have hd0 : 0 ≤ c.rs * io := mul_nonneg hc.rs hio
  have hlt := sign_kept_lt vi (c.rs * io) hvi he'
  obtain ⟨h1, h2, h3⟩ := series_core vi (c.rs * io) hd0 hlt
  have hii : ii = io := by
    unfold Comp.solvInpCurr calcInpCurrent at hback
    simp [hk, hz, off0] at hback; exact hback.symm
  subst hii
  unfold FedOK Comp.solvPwrLoss
  simp only [hk, h1, Bool.not_true, Bool.false_eq_true, if_false, nabs_eq_abs, h2]
  rw [← hvo, h3, abs_mul_of_nonneg_right _ _ hio]
  exact ⟨by ring, rfl⟩

/-- voltage-drop element on a live supply -/
theorem live_vloss (c : Comp α) (hk : c.kind = .vloss) (hc : c.Phys) (vi io ta : α) (ph : PhaseCtx α)
    (vo ii : α) (b' : Bool) (hvi : vi ≠ 0) (hio : 0 ≤ io)
    (hfwd : c.solvOutpVolt [vi] io ph [false] = .ok (vo, b'))
    (hback : c.solvInpCurr [vi] io ph [false] = ii) :
    FedOK (c.solvPwrLoss vi vo ii io ta ph) vi vo ii io := by
  have hz : isZ vi = false := (isZ_false_iff _).mpr hvi
  have hd0 := hc.par |io| |vi|
  unfold Comp.solvOutpVolt at hfwd
  simp only [hk, List.headD_cons, off0, hz, Bool.or_false, Bool.false_eq_true, if_false, nabs_eq_abs] at hfwd
  generalize hdd : c.par.interp |io| |vi| = d at *
  by_cases he : eqB (nsign (vi - d * nsign vi)) (nsign vi) = true
  swap
  · simp [he] at hfwd
  simp only [he, if_true, Except.ok.injEq, Prod.mk.injEq] at hfwd
  obtain ⟨hvo, _⟩ := hfwd
  have he' := (eqB_iff _ _).mp he
  have hlt := sign_kept_lt vi d hvi he'
  obtain ⟨h1, h2, h3⟩ := series_core vi d hd0 hlt
  have hii : ii = io := by
    unfold Comp.solvInpCurr calcInpCurrent at hback
    simp [hk, hz, off0] at hback; exact hback.symm
  subst hii
  unfold FedOK Comp.solvPwrLoss
  simp only [hk, nabs_eq_abs, hdd, h1, Bool.not_true, Bool.false_eq_true, if_false, h2]
  rw [← hvo, h3, abs_mul_of_nonneg_right _ _ hio]
  exact ⟨by ring, rfl⟩

/-- diode bridge on a live supply -/
theorem live_diode (c : Comp α) (hk : c.kind = .rectifier) (hdi : c.diode = true) (hc : c.Phys)
    (vi io ta : α) (ph : PhaseCtx α)
    (vo ii : α) (b' : Bool) (hvi : vi ≠ 0) (hio : 0 ≤ io)
    (hfwd : c.solvOutpVolt [vi] io ph [false] = .ok (vo, b'))
    (hback : c.solvInpCurr [vi] io ph [false] = ii) :
    FedOK (c.solvPwrLoss vi vo ii io ta ph) vi vo ii io := by
  have hz : isZ vi = false := (isZ_false_iff _).mpr hvi
  have hd0 : 0 ≤ 2 * c.par.interp |io| |vi| := by have := hc.par |io| |vi|; linarith
  unfold Comp.solvOutpVolt at hfwd
  simp only [hk, hdi, List.headD_cons, off0, hz, Bool.or_false, Bool.false_eq_true, if_false, if_true,
    nabs_eq_abs] at hfwd
  generalize hdd : c.par.interp |io| |vi| = d at *
  by_cases he : eqB (nsign (vi - 2 * d * nsign vi)) (nsign vi) = true
  swap
  · simp [he] at hfwd
  simp only [he, if_true, Except.ok.injEq, Prod.mk.injEq] at hfwd
  obtain ⟨hvo, _⟩ := hfwd
  have he' := (eqB_iff _ _).mp he
  have hlt := sign_kept_lt vi (2 * d) hvi he'
  obtain ⟨h1, h2, h3⟩ := series_core vi (2 * d) hd0 hlt
  have hii : ii = io := by
    unfold Comp.solvInpCurr calcInpCurrent at hback
    simp [hk, hdi, hz, off0] at hback; exact hback.symm
  subst hii
  unfold FedOK Comp.solvPwrLoss
  simp only [hk, hdi, hz, nabs_eq_abs, hdd, h1, Bool.not_true, Bool.false_eq_true, if_false, if_true, h2]
  rw [← hvo, abs_abs, h3, abs_mul_of_nonneg_right _ _ hio]
  exact ⟨by ring, rfl⟩

/-- converter / regulator / switch asleep on a live supply -/
theorem live_sleep (c : Comp α) (hk : c.kind = .converter ∨ c.kind = .linreg ∨ c.kind = .pswitch)
    (hc : c.Phys) (hcv : c.kind = .converter → c.vo ≠ 0)
    (vi io ta : α) (ph : PhaseCtx α) (hina : ph.inactive = true)
    (vo ii : α) (b' : Bool) (hvi : vi ≠ 0)
    (hfwd : c.solvOutpVolt [vi] io ph [false] = .ok (vo, b'))
    (hback : c.solvInpCurr [vi] io ph [false] = ii) :
    FedOK (c.solvPwrLoss vi vo ii io ta ph) vi vo ii io := by
  have hz : isZ vi = false := (isZ_false_iff _).mpr hvi
  have hk' : c.kind = .converter ∨ c.kind = .linreg ∨ c.kind = .pswitch ∨ c.kind = .pmux := by tauto
  obtain ⟨h1, h2, h3⟩ := pml_sleep c hk' hc vi vo ii io ta ph hina hvi
  have hvo : vo = 0 := by
    unfold Comp.solvOutpVolt at hfwd
    rcases hk with hk | hk | hk <;>
      simp only [hk, List.headD_cons, off0, hz, hina, Bool.or_false, Bool.false_eq_true, if_false, if_true,
        Except.ok.injEq, Prod.mk.injEq] at hfwd <;> exact hfwd.1.symm
  have hii : ii = c.iis := by
    unfold Comp.solvInpCurr at hback
    rcases hk with hk | hk | hk
    · have hzo : isZ c.vo = false := (isZ_false_iff _).mpr (hcv hk)
      simp [hk, hz, hzo, off0, hina] at hback; exact hback.symm
    · simp [hk, hz, off0, hina] at hback; exact hback.symm
    · simp [hk, hz, off0, hina] at hback; exact hback.symm
  unfold FedOK
  rw [h3, h1, hvo, hii]; simp [mul_comm]

/-- converter / regulator / switch / mux awake on a live input book `|Vin·Iin|` as Power -/
theorem pwr_awake (c : Comp α)
    (hk : c.kind = .converter ∨ c.kind = .linreg ∨ c.kind = .pswitch ∨ c.kind = .pmux)
    (vi vo ii io ta : α) (ph : PhaseCtx α) (hact : ph.inactive = false) (hvi : vi ≠ 0) :
    (c.solvPwrLoss vi vo ii io ta ph).pwr = |vi * ii| := by
  have hz : isZ vi = false := (isZ_false_iff _).mpr hvi
  unfold Comp.solvPwrLoss finishPL
  rcases hk with hk | hk | hk | hk <;> simp [hk, hz, hact]

/-- converter awake on a live supply -/
theorem live_converter (c : Comp α) (hk : c.kind = .converter) (hc : c.Phys) (hcv : c.vo ≠ 0)
    (vi io ta : α) (ph : PhaseCtx α) (hact : ph.inactive = false)
    (vo ii : α) (b' : Bool) (hvi : vi ≠ 0) (hio : 0 ≤ io)
    (hfwd : c.solvOutpVolt [vi] io ph [false] = .ok (vo, b'))
    (hback : c.solvInpCurr [vi] io ph [false] = ii) :
    FedOK (c.solvPwrLoss vi vo ii io ta ph) vi vo ii io := by
  have hz : isZ vi = false := (isZ_false_iff _).mpr hvi
  have hzo : isZ c.vo = false := (isZ_false_iff _).mpr hcv
  have hvo : vo = c.vo := by
    unfold Comp.solvOutpVolt at hfwd
    simp only [hk, List.headD_cons, off0, hz, hact, Bool.or_false, Bool.false_eq_true, if_false,
      Except.ok.injEq, Prod.mk.injEq] at hfwd
    exact hfwd.1.symm
  unfold Comp.solvInpCurr at hback
  simp only [hk, List.headD_cons, off0, hz, hzo, hact, Bool.or_false, Bool.false_eq_true, if_false,
    nabs_eq_abs] at hback
  obtain ⟨he0, he1⟩ := hc.eff hk |io| |vi|
  have hpw := pwr_awake c (Or.inl hk) vi vo ii io ta ph hact hvi
  by_cases hi0 : io = 0
  · subst hi0
    have hzi : isZ (0 : α) = true := (isZ_iff _).mpr rfl
    simp only [hzi, if_true] at hback
    have hii : 0 ≤ ii := by rw [← hback]; exact hc.iq
    obtain ⟨h1, _, _⟩ := pml_resid_converter_noload c hk hc vi vo ii ta ph hact hvi hii
    refine ⟨?_, ?_⟩
    · rw [h1, ← hback]; ring
    · rw [hpw, abs_mul_of_nonneg_right _ _ hii]
  · have hzi : isZ io = false := (isZ_false_iff _).mpr hi0
    have hip : 0 < io := lt_of_le_of_ne hio (Ne.symm hi0)
    simp only [hzi, Bool.false_eq_true, if_false] at hback
    have hii : 0 ≤ ii := by rw [← hback]; exact abs_nonneg _
    obtain ⟨h1, _, _⟩ := pml_resid_converter c hk hc vi vo ii io ta ph hact hvi hii hi0
    generalize c.par.interp |io| |vi| = e at *
    have hvp : 0 < |vi| := abs_pos.mpr hvi
    have hiiv : ii = |c.vo| * io / (|vi| * e) := by
      rw [← hback, abs_div, abs_mul, abs_mul, abs_of_pos hip, abs_of_pos he0]
    refine ⟨?_, ?_⟩
    · rw [h1, hvo, hiiv]; field_simp
    · rw [hpw, abs_mul_of_nonneg_right _ _ hii]

/-- linear regulator awake on a live supply -/
theorem live_linreg (c : Comp α) (hk : c.kind = .linreg) (hc : c.Phys)
    (vi io ta : α) (ph : PhaseCtx α) (hact : ph.inactive = false)
    (vo ii : α) (b' : Bool) (hvi : vi ≠ 0) (hio : 0 ≤ io)
    (hfwd : c.solvOutpVolt [vi] io ph [false] = .ok (vo, b'))
    (hback : c.solvInpCurr [vi] io ph [false] = ii) :
    FedOK (c.solvPwrLoss vi vo ii io ta ph) vi vo ii io := by
  have hz : isZ vi = false := (isZ_false_iff _).mpr hvi
  have hvo : |vo| = |linregV c.vo c.vdrop vi| := by
    unfold Comp.solvOutpVolt at hfwd
    simp only [hk, List.headD_cons, off0, hz, hact, Bool.or_false, Bool.false_eq_true, if_false] at hfwd
    by_cases hneg : c.vo < 0
    · simp only [hneg, if_true, Except.ok.injEq, Prod.mk.injEq] at hfwd
      rw [← hfwd.1, abs_neg]
    · simp only [hneg, if_false, Except.ok.injEq, Prod.mk.injEq] at hfwd
      rw [← hfwd.1]
  unfold Comp.solvInpCurr at hback
  simp only [hk, List.headD_cons, off0, hz, hact, Bool.or_false, Bool.false_eq_true, if_false,
    nabs_eq_abs] at hback
  have hii : 0 ≤ ii := by rw [← hback]; have := hc.par |io| |vi|; linarith
  obtain ⟨h1, _, _⟩ := pml_resid_linreg c hk vi vo ii io ta ph hact hvi hii hio
  have hpw := pwr_awake c (Or.inr (Or.inl hk)) vi vo ii io ta ph hact hvi
  refine ⟨?_, ?_⟩
  · rw [h1, hvo, ← hback]; ring
  · rw [hpw, abs_mul_of_nonneg_right _ _ hii]

/-- switch awake on a live supply -/
theorem live_switch (c : Comp α) (hk : c.kind = .pswitch) (hc : c.Phys)
    (vi io ta : α) (ph : PhaseCtx α) (hact : ph.inactive = false)
    (vo ii : α) (b' : Bool) (hvi : vi ≠ 0) (hio : 0 ≤ io)
    (hback : c.solvInpCurr [vi] io ph [false] = ii) :
    FedOK (c.solvPwrLoss vi vo ii io ta ph) vi vo ii io := by
  have hz : isZ vi = false := (isZ_false_iff _).mpr hvi
  unfold Comp.solvInpCurr at hback
  simp only [hk, List.headD_cons, off0, hz, hact, Bool.or_false, Bool.false_eq_true, if_false,
    nabs_eq_abs] at hback
  have hii : 0 ≤ ii := by rw [← hback]; have := hc.par |io| |vi|; linarith
  obtain ⟨h1, _, _⟩ := pml_resid_switch c (Or.inl hk) vi vo ii io ta ph hact hvi hii hio
  have hpw := pwr_awake c (Or.inr (Or.inr (Or.inl hk))) vi vo ii io ta ph hact hvi
  refine ⟨?_, ?_⟩
  · rw [h1, ← hback]; ring
  · rw [hpw, abs_mul_of_nonneg_right _ _ hii]

/-- MOSFET bridge on a live supply -/
theorem live_mosfet (c : Comp α) (hk : c.kind = .rectifier) (hdi : c.diode = false) (hc : c.Phys)
    (vi io ta : α) (ph : PhaseCtx α)
    (vo ii : α) (b' : Bool) (hvi : vi ≠ 0) (hio : 0 ≤ io)
    (hfwd : c.solvOutpVolt [vi] io ph [false] = .ok (vo, b'))
    (hback : c.solvInpCurr [vi] io ph [false] = ii) :
    FedOK (c.solvPwrLoss vi vo ii io ta ph) vi vo ii io := by
  have hz : isZ vi = false := (isZ_false_iff _).mpr hvi
  have hvo : |vo| = |vi| - 2 * c.rs * io := by
    unfold Comp.solvOutpVolt at hfwd
    simp only [hk, hdi, List.headD_cons, off0, hz, Bool.or_false, Bool.false_eq_true, if_false,
      nabs_eq_abs] at hfwd
    cases hl : c.rsList with
    | some l => simp [hl] at hfwd
    | none =>
      simp only [hl] at hfwd
      by_cases hpos : 0 < |vi| - 2 * c.rs * io
      · simp only [hpos, decide_true, Bool.not_true, Bool.false_eq_true, if_false, Except.ok.injEq,
          Prod.mk.injEq] at hfwd
        rw [← hfwd.1, abs_abs, abs_of_pos hpos]
      · simp [hpos] at hfwd
  unfold Comp.solvInpCurr calcInpCurrent at hback
  simp only [hk, hdi, List.headD_cons, off0, hz, Bool.or_false, Bool.false_eq_true, if_false,
    nabs_eq_abs] at hback
  have hpwr : (c.solvPwrLoss vi vo ii io ta ph).pwr = |vi * ii| := by
    unfold Comp.solvPwrLoss; simp [hk, hdi, hz]
  by_cases hi0 : io = 0
  · subst hi0
    have hzi : isZ (0 : α) = true := (isZ_iff _).mpr rfl
    simp only [hzi, if_true] at hback
    have hii : 0 ≤ ii := by rw [← hback]; exact hc.iq
    refine ⟨?_, by rw [hpwr, abs_mul_of_nonneg_right _ _ hii]⟩
    rw [hpwr, abs_mul_of_nonneg_right _ _ hii]
    unfold Comp.solvPwrLoss; simp [hk, hdi, hz, hzi, ← hback]; ring
  · have hzi : isZ io = false := (isZ_false_iff _).mpr hi0
    have hip : 0 < io := lt_of_le_of_ne hio (Ne.symm hi0)
    simp only [hzi, Bool.false_eq_true, if_false] at hback
    have hii : 0 ≤ ii := by rw [← hback]; have := hc.par |io| |vi|; linarith
    obtain ⟨h1, _, _⟩ := pml_resid_mosfet c hk hdi vi vo ii io ta ph hvi hii hip
    refine ⟨?_, by rw [hpwr, abs_mul_of_nonneg_right _ _ hii]⟩
    rw [h1, hvo, ← hback]; ring

/-- what the balance needs from a load row: its consumption `|Vin|·Iin` is booked as Power or as Loss -/
theorem live_load (c : Comp α) (hk : c.kind.ctype = .LOAD) (vi vo ii io ta : α) (ph : PhaseCtx α)
    (hii : 0 ≤ ii) :
    (c.solvPwrLoss vi vo ii io ta ph).pwr + (c.solvPwrLoss vi vo ii io ta ph).loss = |vi| * ii := by
  have hk' : c.kind = .pload ∨ c.kind = .iload ∨ c.kind = .rload := by
    cases h : c.kind <;> simp [h, Kind.ctype] at hk ⊢
  obtain ⟨h1, h2⟩ := load_xor c hk' vi vo ii io ta ph
  rw [← abs_mul_of_nonneg_right _ _ hii]
  cases hl : c.loss with
  | true => obtain ⟨a, b⟩ := h1 hl; rw [a, b]; ring
  | false => obtain ⟨a, b⟩ := h2 hl; rw [a, b]; ring

/-- no current is drawn from a 0 V supply -/
theorem curr_dead (c : Comp α) (hs : c.kind ≠ .source) (hm : c.kind ≠ .pmux)
    (io : α) (ph : PhaseCtx α) (off : List Bool) : c.solvInpCurr [0] io ph off = 0 := by
  have hz : isZ (0 : α) = true := (isZ_iff _).mpr rfl
  unfold Comp.solvInpCurr calcInpCurrent
  cases hk : c.kind <;> simp [hk, hz] at hs hm ⊢

/-- **One fed component in a local steady state** (any kind but Source, PMux and the loads): its row
    books `|Vin|·Iin` as Power and passes on exactly `|Vout|·Iout`. -/
theorem local_fed (c : Comp α) (hc : c.Phys) (hs : c.kind ≠ .source) (hm : c.kind ≠ .pmux)
    (hld : c.kind.ctype ≠ .LOAD) (hcv : c.kind = .converter → c.vo ≠ 0)
    (vi io ta : α) (ph : PhaseCtx α) (b : Bool) (hb : b = true → vi = 0)
    (vo ii : α) (b' : Bool) (hio : 0 ≤ io)
    (hfwd : c.solvOutpVolt [vi] io ph [b] = .ok (vo, b'))
    (hback : c.solvInpCurr [vi] io ph [b] = ii) :
    FedOK (c.solvPwrLoss vi vo ii io ta ph) vi vo ii io := by
  obtain ⟨f1, f2⟩ := flag_irrelevant c hs hm vi io ph b hb
  obtain ⟨b'', hfwd'⟩ := f1 vo b' hfwd
  rw [f2] at hback
  by_cases hvi : vi = 0
  · subst hvi
    obtain ⟨h1, h2, h3, h4⟩ := local_dead c hs hm io ta ph vo ii b'' hfwd' hback
    unfold FedOK; rw [h3, h4, h1, h2]; simp
  · cases hina : ph.inactive with
    | true =>
      cases hk : c.kind with
      | source => exact absurd hk hs
      | pmux => exact absurd hk hm
      | pload => simp [hk, Kind.ctype] at hld
      | iload => simp [hk, Kind.ctype] at hld
      | rload => simp [hk, Kind.ctype] at hld
      | rloss => exact live_rloss c hk hc vi io ta ph vo ii b'' hvi hio hfwd' hback
      | vloss => exact live_vloss c hk hc vi io ta ph vo ii b'' hvi hio hfwd' hback
      | converter => exact live_sleep c (Or.inl hk) hc hcv vi io ta ph hina vo ii b'' hvi hfwd' hback
      | linreg => exact live_sleep c (Or.inr (Or.inl hk)) hc hcv vi io ta ph hina vo ii b'' hvi hfwd' hback
      | pswitch => exact live_sleep c (Or.inr (Or.inr hk)) hc hcv vi io ta ph hina vo ii b'' hvi hfwd' hback
      | rectifier =>
        cases hdi : c.diode with
        | true => exact live_diode c hk hdi hc vi io ta ph vo ii b'' hvi hio hfwd' hback
        | false => exact live_mosfet c hk hdi hc vi io ta ph vo ii b'' hvi hio hfwd' hback
    | false =>
      cases hk : c.kind with
      | source => exact absurd hk hs
      | pmux => exact absurd hk hm
      | pload => simp [hk, Kind.ctype] at hld
      | iload => simp [hk, Kind.ctype] at hld
      | rload => simp [hk, Kind.ctype] at hld
      | rloss => exact live_rloss c hk hc vi io ta ph vo ii b'' hvi hio hfwd' hback
      | vloss => exact live_vloss c hk hc vi io ta ph vo ii b'' hvi hio hfwd' hback
      | converter => exact live_converter c hk hc (hcv hk) vi io ta ph hina vo ii b'' hvi hio hfwd' hback
      | linreg => exact live_linreg c hk hc vi io ta ph hina vo ii b'' hvi hio hfwd' hback
      | pswitch => exact live_switch c hk hc vi io ta ph hina vo ii b'' hvi hio hback
      | rectifier =>
        cases hdi : c.diode with
        | true => exact live_diode c hk hdi hc vi io ta ph vo ii b'' hvi hio hfwd' hback
        | false => exact live_mosfet c hk hdi hc vi io ta ph vo ii b'' hvi hio hfwd' hback

/-- **A Source in a local steady state** (`io` = what its children draw, `flag` its own off-flag):
    its row — which shows `Iout = Iin = i` — balances, and `i` is `io` unless the source is dead, in
    which case its output is 0 V.  Negative sources with series resistance are excluded (finding F01). -/
theorem local_source_partial (c : Comp α) (hk : c.kind = .source) (hc : c.Phys)
    (hF01 : 0 ≤ c.vo ∨ c.rs = 0)
    (vold io ta : α) (ph : PhaseCtx α) (off : List Bool) (vn i : α) (b' : Bool) (hio : 0 ≤ io)
    (hfwd : c.solvOutpVolt [vold] io ph off = .ok (vn, b'))
    (hback : c.solvInpCurr [vold] io ph off = i) (x y : α) :
    (c.solvPwrLoss x y i i ta ph).pwr - (c.solvPwrLoss x y i i ta ph).loss = |vn| * i ∧
      (i = io ∨ (i = 0 ∧ vn = 0)) := by
  unfold Comp.solvOutpVolt at hfwd
  unfold Comp.solvInpCurr calcInpCurrent at hback
  simp only [hk] at hfwd hback
  cases hina : ph.inactive with
  | true =>
    simp only [hina, if_true, Except.ok.injEq, Prod.mk.injEq] at hfwd hback
    obtain ⟨hv, _⟩ := hfwd
    subst hv; subst hback
    refine ⟨?_, Or.inr ⟨rfl, rfl⟩⟩
    unfold Comp.solvPwrLoss; simp [hk, hina, PL.zeros]
  | false =>
    simp only [hina, Bool.false_eq_true, if_false] at hfwd hback
    by_cases hd : (isZ c.vo || off0 off) = true
    · simp only [hd, if_true, Except.ok.injEq, Prod.mk.injEq] at hfwd hback
      obtain ⟨hv, _⟩ := hfwd
      subst hv; subst hback
      refine ⟨?_, Or.inr ⟨rfl, rfl⟩⟩
      unfold Comp.solvPwrLoss
      by_cases hz : isZ c.vo = true <;> simp [hk, hina, hz, PL.zeros]
    · simp only [hd, Bool.false_eq_true, if_false] at hfwd hback
      subst hback
      refine ⟨?_, Or.inl rfl⟩
      have hz : isZ c.vo = false := by
        cases h : isZ c.vo
        · rfl
        · simp [h] at hd
      have hne : c.vo ≠ 0 := (isZ_false_iff _).mp hz
      by_cases he : eqB (nsign (c.vo - c.rs * io)) (nsign c.vo) = true
      swap
      · simp [he] at hfwd
      simp only [he, if_true, Except.ok.injEq, Prod.mk.injEq] at hfwd
      obtain ⟨hv, _⟩ := hfwd
      have he' := (eqB_iff _ _).mp he
      have h := pml_source c hk x y io io ta ph hina hne hio
      rw [h, ← hv]
      rcases hF01 with h0 | h0
      · have hp : 0 < c.vo := lt_of_le_of_ne h0 (Ne.symm hne)
        rw [nsign_eq_iff_pos hp] at he'
        rw [abs_of_pos hp, abs_of_pos he']
      · rw [h0]; simp

/-- Why `Converter(vo = 0)` is excluded: the constructor accepts it (`Phys` holds), the voltage law
    returns 0 V, the current law 0 A, and the loss law books `|iq·Vin|`: Power − Loss = −1/2 W ≠ |Vout|·Iout. -/
theorem converter_vo0_breaks_identity :
    let c : Comp ℚ := { name := "C", kind := .converter, par := .const (9/10), vo := 0, iq := 1/10 }
    c.Phys ∧ c.solvOutpVolt [5] 0 PhaseCtx.none [false] = .ok (0, false) ∧
      c.solvInpCurr [5] 0 PhaseCtx.none [false] = 0 ∧
      (c.solvPwrLoss 5 0 0 0 25 PhaseCtx.none).pwr - (c.solvPwrLoss 5 0 0 0 25 PhaseCtx.none).loss = -1/2 := by
  intro c
  refine ⟨?_, by decide +kernel, by decide +kernel, by decide +kernel⟩
  constructor <;> simp [c, Comp.muxRs, Param.Nonneg, Param.interp]
  all_goals norm_num

/-! ### B. the solver's view of a well-formed tree, exact steady states, the cells of a row -/

/-- Well-formedness of the solver's view `(_parents, _childs, _topo_nodes)` after `_rel_update()`. -/
structure TreeWF (s : SSys α) : Prop where
  /-- `_topo_nodes` lists every live node id exactly once … -/
  nodup    : s.topo.Nodup
  live     : ∀ n, n ∈ s.topo ↔ (s.node? n).isSome
  bound    : ∀ n ∈ s.topo, n < s.hidx
  /-- … parents before children -/
  order    : ∀ p c pd, s.node? p = some pd → c ∈ pd.childs → s.topo.idxOf p < s.topo.idxOf c
  parLive  : ∀ n nd, s.node? n = some nd → ∀ p ∈ nd.parents, (s.node? p).isSome
  chLive   : ∀ n nd, s.node? n = some nd → ∀ c ∈ nd.childs, (s.node? c).isSome
  /-- `_childs` is the converse of `_parents` -/
  link     : ∀ p c pd cd, s.node? p = some pd → s.node? c = some cd → (c ∈ pd.childs ↔ p ∈ cd.parents)
  chNodup  : ∀ n nd, s.node? n = some nd → nd.childs.Nodup
  parNodup : ∀ n nd, s.node? n = some nd → nd.parents.Nodup
  /-- the roots are exactly the sources -/
  rootSrc  : ∀ n nd, s.node? n = some nd → (nd.parents = [] ↔ nd.comp.kind = .source)
  /-- only a PMux has several inputs -/
  muxOnly  : ∀ n nd, s.node? n = some nd → 1 < nd.parents.length → nd.comp.kind = .pmux
  /-- loads are leaves -/
  loadLeaf : ∀ n nd, s.node? n = some nd → nd.comp.kind.ctype = .LOAD → nd.childs = []

/-- an exact steady state of the sweeps: one forward and one backward sweep reproduce `(v, i)`, and
    an off-flag is only ever set on a 0 V output -/
structure Steady (s : SSys α) (phase : String) (v i : Vec α) (st : St) : Prop where
  fwd  : ∃ st', s.fwdProp phase v i st = .ok (v, st')
  back : s.backProp phase v i st = i
  flag : ∀ n, sget st n = true → vget v n = 0

/-- in a steady state every listed cell is a fixed point of its pointwise law -/
theorem steady_cell (s : SSys α) (phase : String) (v i : Vec α) (st : St)
    (hb : ∀ n ∈ s.topo, n < s.hidx) (hst : Steady s phase v i st) (n : Nat) (hn : n ∈ s.topo) :
    (∃ b, s.fwdAt phase v i st n = .ok (vget v n, b)) ∧ s.backAt phase v i st n = vget i n := by
  obtain ⟨st', hf⟩ := hst.fwd
  obtain ⟨_, _, h3, _⟩ := C16.fwdProp_pointwise s phase v i st v st' hf
  obtain ⟨x, b, e1, e2, _⟩ := h3 n hn (hb n hn)
  obtain ⟨_, k2, _⟩ := C16.backProp_pointwise s phase v i st
  refine ⟨⟨b, by rw [e1, e2]⟩, ?_⟩
  have := k2 n hn (hb n hn)
  rw [hst.back] at this
  exact this.symm

/-- the output current the sweeps and the table use for a fed node -/
def ioOf (s : SSys α) (nd : SNode α) (n : Nat) (v i : Vec α) (st : St) : α :=
  if nd.childs.isEmpty then 0 else s.childCurr n i v st

theorem ioOf_eq_sum (s : SSys α) (nd : SNode α) (n : Nat) (hnode : s.node? n = some nd) (v i : Vec α) (st : St) :
    ioOf s nd n v i st = (nd.childs.map (s.childShare n i v st)).sum := by
  unfold ioOf SSys.childCurr
  rw [hnode]; simp only [sumL_eq_sum]
  cases h : nd.childs with
  | nil => simp
  | cons a l => simp

theorem childShare_nonneg (s : SSys α) (n : Nat) (v i : Vec α) (st : St) (c : Nat) (hic : 0 ≤ vget i c) :
    0 ≤ s.childShare n i v st c := by
  unfold SSys.childShare
  cases s.node? c with
  | none => exact le_refl _
  | some cd =>
    simp only
    cases cd.comp.priInp (cd.parents.map (sget st)) (cd.parents.map (vget v)) with
    | none => exact hic
    | some k =>
      simp only
      split_ifs
      · exact hic
      · exact le_refl _
      · exact hic

theorem ioOf_nonneg (s : SSys α) (nd : SNode α) (n : Nat) (hnode : s.node? n = some nd) (v i : Vec α) (st : St)
    (hi : ∀ m, 0 ≤ vget i m) : 0 ≤ ioOf s nd n v i st := by
  rw [ioOf_eq_sum s nd n hnode]
  apply List.sum_nonneg
  intro x hx
  obtain ⟨c, _, rfl⟩ := List.mem_map.mp hx
  exact childShare_nonneg s n v i st c (hi c)

/-- the cells of the row of a single-supply node -/
theorem compRow_single (s : SSys α) (phase : String) (ta : α) (v i : Vec α) (st : St)
    (n p : Nat) (nd : SNode α) (hnode : s.node? n = some nd) (hpar : nd.parents = [p]) (d : String) :
    let io := ioOf s nd n v i st
    let pl := nd.comp.solvPwrLoss (vget v p) (vget v n) (vget i n) io ta (nd.pconf.ctx phase)
    let r := (s.compRow phase ta v i st n d).1
    r.typ = nd.comp.kind.ctype.name ∧ r.vin = some (vget v p) ∧ r.vout = some (vget v n) ∧
      r.iin = some (vget i n) ∧ r.iout = some io ∧ r.pwr = some pl.pwr ∧ r.loss = some pl.loss := by
  intro io pl r
  have hr : r = (s.compRow phase ta v i st n d).1 := rfl
  obtain ⟨l1, l2, l3, _, l5⟩ := C01.row_linkage s phase ta v i st n p nd hnode hpar d
  refine ⟨?_, l1, l2, l3, l5, ?_, ?_⟩ <;>
  · unfold SSys.compRow at hr
    simp only [hnode, hpar, List.isEmpty_cons, Bool.false_eq_true, if_false, List.length_cons, List.length_nil,
      List.head?_cons, Bool.not_false, Bool.true_and] at hr
    cases hpri : nd.comp.priInp [sget st p] [vget v p] <;> simp [hr, hpri, pl, io, ioOf]

/-- the cells of the row of a root -/
theorem compRow_root (s : SSys α) (phase : String) (ta : α) (v i : Vec α) (st : St)
    (n : Nat) (nd : SNode α) (hnode : s.node? n = some nd) (hpar : nd.parents = []) (d : String) :
    let pl := nd.comp.solvPwrLoss (vget v n + nd.comp.rs * vget i n) (vget v n) (vget i n) (vget i n) ta
      (nd.pconf.ctx phase)
    let r := (s.compRow phase ta v i st n d).1
    r.typ = nd.comp.kind.ctype.name ∧ r.vin = some (vget v n + nd.comp.rs * vget i n) ∧
      r.vout = some (vget v n) ∧ r.iin = some (vget i n) ∧ r.iout = some (vget i n) ∧
      r.pwr = some pl.pwr ∧ r.loss = some pl.loss := by
  intro pl r
  have hr : r = (s.compRow phase ta v i st n d).1 := rfl
  unfold SSys.compRow at hr
  simp only [hnode, hpar, List.isEmpty_nil, if_true] at hr
  simp [hr, pl]

/-! ### C. per-row power identity in an exact steady state -/

/-- fed node, explicit form -/
theorem fed_node_ok (s : SSys α) (phase : String) (ta : α) (v i : Vec α) (st : St)
    (hb : ∀ n ∈ s.topo, n < s.hidx) (hst : Steady s phase v i st) (hi : ∀ m, 0 ≤ vget i m)
    (n p : Nat) (nd : SNode α) (hn : n ∈ s.topo) (hnode : s.node? n = some nd) (hpar : nd.parents = [p])
    (hs : nd.comp.kind ≠ .source) (hm : nd.comp.kind ≠ .pmux) (hld : nd.comp.kind.ctype ≠ .LOAD)
    (hc : nd.comp.Phys) (hcv : nd.comp.kind = .converter → nd.comp.vo ≠ 0) :
    FedOK (nd.comp.solvPwrLoss (vget v p) (vget v n) (vget i n) (ioOf s nd n v i st) ta (nd.pconf.ctx phase))
      (vget v p) (vget v n) (vget i n) (ioOf s nd n v i st) := by
  obtain ⟨⟨b, hf⟩, hbk⟩ := steady_cell s phase v i st hb hst n hn
  obtain ⟨a1, a2⟩ := C01.sweep_args_are_row s phase ta v i st n p nd hnode hpar ""
  rw [a1] at hf
  rw [a2] at hbk
  exact local_fed nd.comp hc hs hm hld hcv (vget v p) (ioOf s nd n v i st) ta (nd.pconf.ctx phase)
    (sget st p) (hst.flag p) (vget v n) (vget i n) b (ioOf_nonneg s nd n hnode v i st hi) hf hbk

/-- **Row power identity.**  In an exact steady state with non-negative currents, the assembled row of
    every live single-supply component that is neither a load nor a mux (nor, ill-formedly, a source)
    satisfies `Power − Loss = |Vout|·Iout` — and `Power = |Vin|·Iin`.
    Hypothesis beyond `Phys`: a Converter has `vo ≠ 0` (see the header: `Converter(vo = 0)` is accepted
    by the constructor and breaks the identity when `iq ≠ 0`). -/
theorem row_power_identity (s : SSys α) (phase : String) (ta : α) (v i : Vec α) (st : St)
    (hb : ∀ n ∈ s.topo, n < s.hidx) (hst : Steady s phase v i st) (hi : ∀ m, 0 ≤ vget i m)
    (n p : Nat) (nd : SNode α) (hn : n ∈ s.topo) (hnode : s.node? n = some nd) (hpar : nd.parents = [p])
    (hs : nd.comp.kind ≠ .source) (hm : nd.comp.kind ≠ .pmux) (hld : nd.comp.kind.ctype ≠ .LOAD)
    (hc : nd.comp.Phys) (hcv : nd.comp.kind = .converter → nd.comp.vo ≠ 0) (d : String) :
    let r := (s.compRow phase ta v i st n d).1
    ∃ P L Vi Vo Ii Io, r.pwr = some P ∧ r.loss = some L ∧ r.vin = some Vi ∧ r.vout = some Vo ∧
      r.iin = some Ii ∧ r.iout = some Io ∧ P - L = |Vo| * Io ∧ P = |Vi| * Ii := by
  intro r
  obtain ⟨_, c2, c3, c4, c5, c6, c7⟩ := compRow_single s phase ta v i st n p nd hnode hpar d
  obtain ⟨f1, f2⟩ := fed_node_ok s phase ta v i st hb hst hi n p nd hn hnode hpar hs hm hld hc hcv
  exact ⟨_, _, _, _, _, _, c6, c7, c2, c3, c4, c5, f1, f2⟩

/-- root, explicit form: the row balances, and its `Iout` is what the children draw unless the source
    is dead (0 V) -/
theorem root_node_ok (s : SSys α) (phase : String) (ta : α) (v i : Vec α) (st : St)
    (hb : ∀ n ∈ s.topo, n < s.hidx) (hst : Steady s phase v i st) (hi : ∀ m, 0 ≤ vget i m)
    (n : Nat) (nd : SNode α) (hn : n ∈ s.topo) (hnode : s.node? n = some nd) (hpar : nd.parents = [])
    (hs : nd.comp.kind = .source) (hc : nd.comp.Phys) (hF01 : 0 ≤ nd.comp.vo ∨ nd.comp.rs = 0) (x y : α) :
    (nd.comp.solvPwrLoss x y (vget i n) (vget i n) ta (nd.pconf.ctx phase)).pwr
      - (nd.comp.solvPwrLoss x y (vget i n) (vget i n) ta (nd.pconf.ctx phase)).loss = |vget v n| * vget i n ∧
    (vget i n = ioOf s nd n v i st ∨ (vget i n = 0 ∧ vget v n = 0)) := by
  obtain ⟨⟨b, hf⟩, hbk⟩ := steady_cell s phase v i st hb hst n hn
  unfold SSys.fwdAt SSys.lawArgs at hf
  unfold SSys.backAt SSys.lawArgs at hbk
  simp only [hnode, hpar, List.isEmpty_nil, if_true] at hf hbk
  exact local_source_partial nd.comp hs hc hF01 (vget v n) (ioOf s nd n v i st) ta (nd.pconf.ctx phase)
    (st.getD n []) (vget v n) (vget i n) b (ioOf_nonneg s nd n hnode v i st hi) hf hbk x y

/-- **Row power identity, Source rows** (finding F01 excluded: `0 ≤ vo` or `rs = 0`). -/
theorem row_power_identity_source_partial (s : SSys α) (phase : String) (ta : α) (v i : Vec α) (st : St)
    (hb : ∀ n ∈ s.topo, n < s.hidx) (hst : Steady s phase v i st) (hi : ∀ m, 0 ≤ vget i m)
    (n : Nat) (nd : SNode α) (hn : n ∈ s.topo) (hnode : s.node? n = some nd) (hpar : nd.parents = [])
    (hs : nd.comp.kind = .source) (hc : nd.comp.Phys) (hF01 : 0 ≤ nd.comp.vo ∨ nd.comp.rs = 0) (d : String) :
    let r := (s.compRow phase ta v i st n d).1
    ∃ P L Vo Io, r.pwr = some P ∧ r.loss = some L ∧ r.vout = some Vo ∧ r.iout = some Io ∧
      P - L = |Vo| * Io := by
  intro r
  obtain ⟨_, _, c3, _, c5, c6, c7⟩ := compRow_root s phase ta v i st n nd hnode hpar d
  obtain ⟨f1, _⟩ := root_node_ok s phase ta v i st hb hst hi n nd hn hnode hpar hs hc hF01
    (vget v n + nd.comp.rs * vget i n) (vget v n)
  exact ⟨_, _, _, _, c6, c7, c3, c5, f1⟩

/-! ### D. the rows of `compRows` are the rows of `compRow`, one per listed node; the loop only threads the domain -/

/-- the inherited domain name only shows in the Domain cell -/
theorem compRow_domain_only (s : SSys α) (phase : String) (ta : α) (v i : Vec α) (st : St) (n : Nat)
    (d d' : String) :
    { (s.compRow phase ta v i st n d).1 with domain := "" }
      = { (s.compRow phase ta v i st n d').1 with domain := "" } := by
  unfold SSys.compRow
  cases s.node? n <;> rfl

/-- a function of a row that does not look at the Domain cell -/
def DomainFree {β : Type} (g : Row α → β) : Prop := ∀ (r : Row α) (x : String), g { r with domain := x } = g r

theorem domainFree_compRow {β : Type} (g : Row α → β) (hg : DomainFree g)
    (s : SSys α) (phase : String) (ta : α) (v i : Vec α) (st : St) (n : Nat) (d d' : String) :
    g (s.compRow phase ta v i st n d).1 = g (s.compRow phase ta v i st n d').1 := by
  rw [← hg (s.compRow phase ta v i st n d).1 "", ← hg (s.compRow phase ta v i st n d').1 "",
    compRow_domain_only s phase ta v i st n d d']

/-- **`compRows` is a map over `_topo_nodes`** as far as every cell but Domain is concerned: the fold only
    threads the domain bookkeeping, the numeric cells of a row are those of `compRow` for any inherited
    domain (here `""`). -/
theorem compRows_numeric {β : Type} (g : Row α → β) (hg : DomainFree g)
    (s : SSys α) (phase : String) (ta : α) (v i : Vec α) (st : St) :
    (s.compRows phase ta v i st).map g = s.topo.map fun n => g (s.compRow phase ta v i st n "").1 := by
  rw [compRows_eq_foldl]
  have key : ∀ (l : List Nat) (acc : List (Row α) × String × List (Nat × String)),
      ((l.foldl (rowStep s phase ta v i st) acc).1).map g
        = acc.1.map g ++ l.map fun n => g (s.compRow phase ta v i st n "").1 := by
    intro l
    induction l with
    | nil => intro acc; simp
    | cons n l' ih =>
      intro acc
      rw [List.foldl_cons, ih]
      unfold rowStep
      simp only [List.map_append, List.map_cons, List.map_nil, List.append_assoc, List.cons_append,
        List.nil_append]
      rw [domainFree_compRow g hg s phase ta v i st n _ ""]
  simpa using key s.topo ([], "none", [])

theorem compRows_length (s : SSys α) (phase : String) (ta : α) (v i : Vec α) (st : St) :
    (s.compRows phase ta v i st).length = s.topo.length := by
  have := congrArg List.length (compRows_numeric (fun _ : Row α => ()) (fun _ _ => rfl) s phase ta v i st)
  simpa using this

/-! ### E. whole-table balance, systems without a PMux -/

/-- no component is a PMux -/
def NoMux (s : SSys α) : Prop := ∀ n nd, s.node? n = some nd → nd.comp.kind ≠ .pmux

/-- accepted parameters, plus the two exclusions: finding F01 (negative Source with series
    resistance) and a Converter with `vo = 0` -/
structure CompsOK (s : SSys α) : Prop where
  phys : ∀ n nd, s.node? n = some nd → nd.comp.Phys
  f01  : ∀ n nd, s.node? n = some nd → nd.comp.kind = .source → 0 ≤ nd.comp.vo ∨ nd.comp.rs = 0
  conv : ∀ n nd, s.node? n = some nd → nd.comp.kind = .converter → nd.comp.vo ≠ 0

/-- Power / Loss cell of a row as a number (both cells are always filled for component rows) -/
def rP (r : Row α) : α := r.pwr.getD 0
def rL (r : Row α) : α := r.loss.getD 0

def cellsOf (r : Row α) : Cells α :=
  ⟨r.vin.getD 0, r.vout.getD 0, r.iin.getD 0, r.iout.getD 0, rP r, rL r⟩

/-- the feeder of a node in a system without mux: its only parent -/
def feeder (s : SSys α) (n : Nat) : Option Nat :=
  match s.node? n with
  | some nd => nd.parents.head?
  | none => none

def isLoadB (s : SSys α) (n : Nat) : Bool :=
  match s.node? n with
  | some nd => decide (nd.comp.kind.ctype = .LOAD)
  | none => false

theorem ctype_name_load (ct : CType) : (ct.name == "LOAD") = decide (ct = .LOAD) := by
  cases ct <;> decide

theorem kind_name_source (k : Kind) : (k.ctype.name == "SOURCE") = decide (k = .source) := by
  cases k <;> decide

theorem node_of_mem (s : SSys α) (hwf : TreeWF s) (n : Nat) (hn : n ∈ s.topo) : ∃ nd, s.node? n = some nd :=
  Option.isSome_iff_exists.mp ((hwf.live n).mp hn)

theorem mem_of_node (s : SSys α) (hwf : TreeWF s) (n : Nat) (nd : SNode α) (h : s.node? n = some nd) :
    n ∈ s.topo := (hwf.live n).mpr (by rw [h]; rfl)

/-- without a mux every node has no parent or exactly one -/
theorem parents_cases (s : SSys α) (hwf : TreeWF s) (hnm : NoMux s) (n : Nat) (nd : SNode α)
    (h : s.node? n = some nd) : nd.parents = [] ∨ ∃ p, nd.parents = [p] := by
  cases hp : nd.parents with
  | nil => exact Or.inl rfl
  | cons p l =>
    cases l with
    | nil => exact Or.inr ⟨p, rfl⟩
    | cons q l' =>
      exact absurd (hwf.muxOnly n nd h (by rw [hp]; simp)) (hnm n nd h)

/-- a child of `n` in a system without mux has `n` as its only parent -/
theorem child_parents (s : SSys α) (hwf : TreeWF s) (hnm : NoMux s) (n c : Nat) (nd : SNode α)
    (h : s.node? n = some nd) (hc : c ∈ nd.childs) : ∃ cd, s.node? c = some cd ∧ cd.parents = [n] := by
  obtain ⟨cd, hcd⟩ := Option.isSome_iff_exists.mp (hwf.chLive n nd h c hc)
  have hin : n ∈ cd.parents := (hwf.link n c nd cd h hcd).mp hc
  refine ⟨cd, hcd, ?_⟩
  rcases parents_cases s hwf hnm c cd hcd with h0 | ⟨p, h1⟩
  · rw [h0] at hin; cases hin
  · rw [h1] at hin ⊢
    simp only [List.mem_singleton] at hin
    rw [hin]

/-- the children of `n` are exactly the listed nodes fed by `n` -/
theorem kids_eq_childs (s : SSys α) (hwf : TreeWF s) (hnm : NoMux s) (n : Nat) (nd : SNode α)
    (h : s.node? n = some nd) : kidsOf s.topo.toFinset (feeder s) n = nd.childs.toFinset := by
  ext c
  simp only [kidsOf, Finset.mem_filter, List.mem_toFinset]
  constructor
  · rintro ⟨hc, hf⟩
    obtain ⟨cd, hcd⟩ := node_of_mem s hwf c hc
    unfold feeder at hf
    rw [hcd] at hf
    have hin : n ∈ cd.parents := List.mem_of_mem_head? hf
    exact (hwf.link n c nd cd h hcd).mpr hin
  · intro hc
    obtain ⟨cd, hcd, hp⟩ := child_parents s hwf hnm n c nd h hc
    refine ⟨mem_of_node s hwf c cd hcd, ?_⟩
    unfold feeder; simp only [hcd, hp]; rfl

/-- without mux the output current is the plain sum of the children's input currents -/
theorem ioOf_children (s : SSys α) (hwf : TreeWF s) (hnm : NoMux s) (n : Nat) (nd : SNode α)
    (h : s.node? n = some nd) (v i : Vec α) (st : St) :
    ioOf s nd n v i st = (nd.childs.map (vget i)).sum := by
  rw [ioOf_eq_sum s nd n h]
  congr 1
  apply List.map_congr_left
  intro c hc
  obtain ⟨cd, hcd, hp⟩ := child_parents s hwf hnm n c nd h hc
  exact C05.single_parent_share s i v st c cd hcd n hp n

/-- the row of node `n` as six numbers -/
def rowOf (s : SSys α) (phase : String) (ta : α) (v i : Vec α) (st : St) (n : Nat) : Cells α :=
  cellsOf (s.compRow phase ta v i st n "").1

theorem rowOf_fed (s : SSys α) (phase : String) (ta : α) (v i : Vec α) (st : St)
    (n p : Nat) (nd : SNode α) (hnode : s.node? n = some nd) (hpar : nd.parents = [p]) :
    rowOf s phase ta v i st n = ⟨vget v p, vget v n, vget i n, ioOf s nd n v i st,
      (nd.comp.solvPwrLoss (vget v p) (vget v n) (vget i n) (ioOf s nd n v i st) ta (nd.pconf.ctx phase)).pwr,
      (nd.comp.solvPwrLoss (vget v p) (vget v n) (vget i n) (ioOf s nd n v i st) ta (nd.pconf.ctx phase)).loss⟩ := by
  obtain ⟨_, c2, c3, c4, c5, c6, c7⟩ := compRow_single s phase ta v i st n p nd hnode hpar ""
  unfold rowOf cellsOf rP rL
  rw [c2, c3, c4, c5, c6, c7]; rfl

theorem rowOf_root (s : SSys α) (phase : String) (ta : α) (v i : Vec α) (st : St)
    (n : Nat) (nd : SNode α) (hnode : s.node? n = some nd) (hpar : nd.parents = []) :
    rowOf s phase ta v i st n = ⟨vget v n + nd.comp.rs * vget i n, vget v n, vget i n, vget i n,
      (nd.comp.solvPwrLoss (vget v n + nd.comp.rs * vget i n) (vget v n) (vget i n) (vget i n) ta
        (nd.pconf.ctx phase)).pwr,
      (nd.comp.solvPwrLoss (vget v n + nd.comp.rs * vget i n) (vget v n) (vget i n) (vget i n) ta
        (nd.pconf.ctx phase)).loss⟩ := by
  obtain ⟨_, c2, c3, c4, c5, c6, c7⟩ := compRow_root s phase ta v i st n nd hnode hpar ""
  unfold rowOf cellsOf rP rL
  rw [c2, c3, c4, c5, c6, c7]; rfl

/-- every live row shows `v n` as Vout and `i n` as Iin -/
theorem rowOf_vout_iin (s : SSys α) (hwf : TreeWF s) (hnm : NoMux s) (phase : String) (ta : α) (v i : Vec α)
    (st : St) (n : Nat) (nd : SNode α) (hnode : s.node? n = some nd) :
    (rowOf s phase ta v i st n).vout = vget v n ∧ (rowOf s phase ta v i st n).iin = vget i n := by
  rcases parents_cases s hwf hnm n nd hnode with h0 | ⟨p, h1⟩
  · rw [rowOf_root s phase ta v i st n nd hnode h0]; exact ⟨rfl, rfl⟩
  · rw [rowOf_fed s phase ta v i st n p nd hnode h1]; exact ⟨rfl, rfl⟩

/-- **Iout = Σ Iin of the children**, for every live row of a steady state without mux -/
theorem rowOf_iout (s : SSys α) (hwf : TreeWF s) (hnm : NoMux s) (hok : CompsOK s)
    (phase : String) (ta : α) (v i : Vec α) (st : St) (hst : Steady s phase v i st) (hi : ∀ m, 0 ≤ vget i m)
    (n : Nat) (nd : SNode α) (hnode : s.node? n = some nd) :
    (rowOf s phase ta v i st n).iout = (nd.childs.map (vget i)).sum := by
  rcases parents_cases s hwf hnm n nd hnode with h0 | ⟨p, h1⟩
  · rw [rowOf_root s phase ta v i st n nd hnode h0]
    show vget i n = _
    have hsrc := (hwf.rootSrc n nd hnode).mp h0
    obtain ⟨_, h2⟩ := root_node_ok s phase ta v i st hwf.bound hst hi n nd (mem_of_node s hwf n nd hnode)
      hnode h0 hsrc (hok.phys n nd hnode) (hok.f01 n nd hnode hsrc) 0 0
    rcases h2 with h2 | ⟨hi0, hv0⟩
    · rw [h2, ioOf_children s hwf hnm n nd hnode]
    · rw [hi0]
      symm
      apply List.sum_eq_zero
      intro x hx
      obtain ⟨c, hc, rfl⟩ := List.mem_map.mp hx
      obtain ⟨cd, hcd, hp⟩ := child_parents s hwf hnm n c nd hnode hc
      obtain ⟨_, hbk⟩ := steady_cell s phase v i st hwf.bound hst c (mem_of_node s hwf c cd hcd)
      rw [← hbk, (C01.sweep_args_are_row s phase ta v i st c n cd hcd hp "").2, hv0]
      have hns : cd.comp.kind ≠ .source := by
        intro e
        have := (hwf.rootSrc c cd hcd).mpr e
        rw [hp] at this; cases this
      exact curr_dead cd.comp hns (hnm c cd hcd) _ _ _
  · rw [rowOf_fed s phase ta v i st n p nd hnode h1]
    exact ioOf_children s hwf hnm n nd hnode v i st

open Finset in
/-- **The assembler's rows form the forest of `system_balance`**: balance over the listed nodes. -/
theorem node_balance (s : SSys α) (hwf : TreeWF s) (hnm : NoMux s) (hok : CompsOK s)
    (phase : String) (ta : α) (v i : Vec α) (st : St) (hst : Steady s phase v i st) (hi : ∀ m, 0 ≤ vget i m) :
    ∑ n ∈ s.topo.toFinset, (if feeder s n = none then (rowOf s phase ta v i st n).pwr else 0)
      = ∑ n ∈ s.topo.toFinset,
          (if isLoadB s n then (rowOf s phase ta v i st n).pwr + (rowOf s phase ta v i st n).loss
           else (rowOf s phase ta v i st n).loss) := by
  have hmem : ∀ n, n ∈ s.topo.toFinset → ∃ nd, s.node? n = some nd := fun n hn =>
    node_of_mem s hwf n (List.mem_toFinset.mp hn)
  have hfeed : ∀ n nd, s.node? n = some nd → feeder s n = nd.parents.head? := by
    intro n nd h; unfold feeder; rw [h]
  have hload : ∀ n nd, s.node? n = some nd → (isLoadB s n = true ↔ nd.comp.kind.ctype = .LOAD) := by
    intro n nd h; unfold isLoadB; rw [h]; simp
  apply system_balance s.topo.toFinset (feeder s) ?_ (isLoadB s) (rowOf s phase ta v i st)
  · -- Vin = Vout of the feeder
    intro c hc p hp
    obtain ⟨cd, hcd⟩ := hmem c hc
    rw [hfeed c cd hcd] at hp
    have hpin : p ∈ cd.parents := List.mem_of_mem_head? hp
    obtain ⟨pd, hpd⟩ := Option.isSome_iff_exists.mp (hwf.parLive c cd hcd p hpin)
    rcases parents_cases s hwf hnm c cd hcd with h0 | ⟨q, h1⟩
    · rw [h0] at hpin; cases hpin
    · rw [h1] at hpin; simp only [List.mem_singleton] at hpin; subst hpin
      rw [(rowOf_vout_iin s hwf hnm phase ta v i st p pd hpd).1, rowOf_fed s phase ta v i st c p cd hcd h1]
  · -- Iout = Σ Iin of the children
    intro n hn
    obtain ⟨nd, hnd⟩ := hmem n hn
    rw [rowOf_iout s hwf hnm hok phase ta v i st hst hi n nd hnd, kids_eq_childs s hwf hnm n nd hnd,
      List.sum_toFinset _ (hwf.chNodup n nd hnd)]
    congr 1
    apply List.map_congr_left
    intro c hc
    obtain ⟨cd, hcd, _⟩ := child_parents s hwf hnm n c nd hnd hc
    exact (rowOf_vout_iin s hwf hnm phase ta v i st c cd hcd).2.symm
  · -- non-loads: Power − Loss = |Vout|·Iout
    intro n hn hl
    obtain ⟨nd, hnd⟩ := hmem n hn
    have hnl : nd.comp.kind.ctype ≠ .LOAD := by
      intro e; rw [(hload n nd hnd).mpr e] at hl; cases hl
    have hnt := List.mem_toFinset.mp hn
    rcases parents_cases s hwf hnm n nd hnd with h0 | ⟨p, h1⟩
    · have hsrc := (hwf.rootSrc n nd hnd).mp h0
      rw [rowOf_root s phase ta v i st n nd hnd h0]
      exact (root_node_ok s phase ta v i st hwf.bound hst hi n nd hnt hnd h0 hsrc (hok.phys n nd hnd)
        (hok.f01 n nd hnd hsrc) _ _).1
    · have hns : nd.comp.kind ≠ .source := by
        intro e
        have := (hwf.rootSrc n nd hnd).mpr e
        rw [h1] at this; cases this
      rw [rowOf_fed s phase ta v i st n p nd hnd h1]
      exact (fed_node_ok s phase ta v i st hwf.bound hst hi n p nd hnt hnd h1 hns (hnm n nd hnd) hnl
        (hok.phys n nd hnd) (hok.conv n nd hnd)).1
  · -- fed non-loads: Power = |Vin|·Iin
    intro n hn hl hp
    obtain ⟨nd, hnd⟩ := hmem n hn
    have hnl : nd.comp.kind.ctype ≠ .LOAD := by
      intro e; rw [(hload n nd hnd).mpr e] at hl; cases hl
    have hnt := List.mem_toFinset.mp hn
    rcases parents_cases s hwf hnm n nd hnd with h0 | ⟨p, h1⟩
    · rw [hfeed n nd hnd, h0] at hp; exact absurd rfl hp
    · have hns : nd.comp.kind ≠ .source := by
        intro e
        have := (hwf.rootSrc n nd hnd).mpr e
        rw [h1] at this; cases this
      rw [rowOf_fed s phase ta v i st n p nd hnd h1]
      exact (fed_node_ok s phase ta v i st hwf.bound hst hi n p nd hnt hnd h1 hns (hnm n nd hnd) hnl
        (hok.phys n nd hnd) (hok.conv n nd hnd)).2
  · -- loads: fed, leaves, consumption booked as Power or Loss
    intro n hn hl
    obtain ⟨nd, hnd⟩ := hmem n hn
    have hld : nd.comp.kind.ctype = .LOAD := (hload n nd hnd).mp hl
    rcases parents_cases s hwf hnm n nd hnd with h0 | ⟨p, h1⟩
    · have hsrc := (hwf.rootSrc n nd hnd).mp h0
      rw [hsrc] at hld; cases hld
    · refine ⟨by rw [hfeed n nd hnd, h1]; simp, ?_, ?_⟩
      · rw [rowOf_fed s phase ta v i st n p nd hnd h1]
        show ioOf s nd n v i st = 0
        unfold ioOf; rw [hwf.loadLeaf n nd hnd hld]; rfl
      · rw [rowOf_fed s phase ta v i st n p nd hnd h1]
        exact live_load nd.comp hld _ _ _ _ _ _ (hi n)
  · -- feeders are listed
    intro c hc p hp
    obtain ⟨cd, hcd⟩ := hmem c hc
    rw [hfeed c cd hcd] at hp
    obtain ⟨pd, hpd⟩ := Option.isSome_iff_exists.mp (hwf.parLive c cd hcd p (List.mem_of_mem_head? hp))
    exact List.mem_toFinset.mpr (mem_of_node s hwf p pd hpd)

theorem sum_filter_map {β : Type} (l : List β) (q : β → Bool) (f : β → α) :
    ((l.filter q).map f).sum = (l.map fun x => if q x then f x else 0).sum := by
  induction l with
  | nil => simp
  | cons a l ih =>
    by_cases h : q a = true
    · simp [h, ih]
    · simp [h, ih]

/-- the cells the balance reads are `some` in every component row -/
theorem compRow_cells_some (s : SSys α) (phase : String) (ta : α) (v i : Vec α) (st : St) (n : Nat)
    (nd : SNode α) (hnode : s.node? n = some nd) (d : String) :
    ((s.compRow phase ta v i st n d).1.pwr).isSome ∧ ((s.compRow phase ta v i st n d).1.loss).isSome := by
  unfold SSys.compRow; simp only [hnode]; exact ⟨rfl, rfl⟩

/-- **Whole-table energy balance, systems without a PMux.**
    For a well-formed tree without mux, accepted parameters (and the exclusions of `CompsOK`), in an exact
    steady state with non-negative currents, the component rows of `solve()` satisfy
    `Σ_{SOURCE rows} Power = Σ_{LOAD rows} (Power + Loss) + Σ_{other rows} Loss`. -/
theorem table_balance_of_nonneg_partial (s : SSys α) (hwf : TreeWF s) (hnm : NoMux s) (hok : CompsOK s)
    (phase : String) (ta : α) (v i : Vec α) (st : St) (hst : Steady s phase v i st) (hi : ∀ m, 0 ≤ vget i m) :
    let rows := s.compRows phase ta v i st
    ((rows.filter (·.typ == "SOURCE")).map rP).sum
      = ((rows.filter (·.typ == "LOAD")).map fun r => rP r + rL r).sum
        + ((rows.filter (·.typ != "LOAD")).map rL).sum := by
  intro rows
  have hnb := node_balance s hwf hnm hok phase ta v i st hst hi
  rw [List.sum_toFinset _ hwf.nodup, List.sum_toFinset _ hwf.nodup] at hnb
  rw [sum_filter_map, sum_filter_map, sum_filter_map, ← List.sum_map_add]
  rw [compRows_numeric (fun r : Row α => if (r.typ == "SOURCE") = true then rP r else 0) (fun _ _ => rfl)]
  show _ = (List.map _ (s.compRows phase ta v i st)).sum
  rw [compRows_numeric (fun r : Row α => (if (r.typ == "LOAD") = true then rP r + rL r else 0)
    + if (r.typ != "LOAD") = true then rL r else 0) (fun _ _ => rfl)]
  have hL : ∀ n ∈ s.topo,
      (if ((s.compRow phase ta v i st n "").1.typ == "SOURCE") = true then rP (s.compRow phase ta v i st n "").1
        else 0) = (if feeder s n = none then (rowOf s phase ta v i st n).pwr else 0) := by
    intro n hn
    obtain ⟨nd, hnd⟩ := node_of_mem s hwf n hn
    have htyp : (s.compRow phase ta v i st n "").1.typ = nd.comp.kind.ctype.name := by
      unfold SSys.compRow; simp only [hnd]
    have hf : feeder s n = nd.parents.head? := by unfold feeder; rw [hnd]
    rw [htyp, kind_name_source, hf]
    have hiff := hwf.rootSrc n nd hnd
    by_cases hk : nd.comp.kind = .source
    · rw [hiff.mpr hk]; simp [hk, rowOf, cellsOf]
    · have : nd.parents ≠ [] := fun e => hk (hiff.mp e)
      have h2 : nd.parents.head? ≠ none := by
        cases hp : nd.parents with
        | nil => exact absurd hp this
        | cons a l => simp
      simp [hk, h2]
  have hR : ∀ n ∈ s.topo,
      ((if ((s.compRow phase ta v i st n "").1.typ == "LOAD") = true
          then rP (s.compRow phase ta v i st n "").1 + rL (s.compRow phase ta v i st n "").1 else 0)
        + if ((s.compRow phase ta v i st n "").1.typ != "LOAD") = true then rL (s.compRow phase ta v i st n "").1
          else 0)
      = (if isLoadB s n = true then (rowOf s phase ta v i st n).pwr + (rowOf s phase ta v i st n).loss
          else (rowOf s phase ta v i st n).loss) := by
    intro n hn
    obtain ⟨nd, hnd⟩ := node_of_mem s hwf n hn
    have htyp : (s.compRow phase ta v i st n "").1.typ = nd.comp.kind.ctype.name := by
      unfold SSys.compRow; simp only [hnd]
    have hl : isLoadB s n = decide (nd.comp.kind.ctype = .LOAD) := by unfold isLoadB; rw [hnd]
    rw [htyp, hl, bne, ctype_name_load]
    by_cases hk : nd.comp.kind.ctype = .LOAD <;> simp [hk, rowOf, cellsOf]
  rw [List.map_congr_left hL, List.map_congr_left hR]
  exact hnb

/-! ### F. currents of a steady state are non-negative (so `hi` above is not an extra assumption) -/

/-- a value configured for the phase (loads: power / current / resistance of that phase) is not negative -/
def PhaseValOK (ph : PhaseCtx α) : Prop := ph.hasConf = true → ph.listed = true → 0 ≤ ph.val

/-- every current law returns a non-negative current for a non-negative output current -/
theorem curr_nonneg (c : Comp α) (hc : c.Phys) (vi : List α) (io : α) (hio : 0 ≤ io) (ph : PhaseCtx α)
    (hpv : PhaseValOK ph) (off : List Bool) : 0 ≤ c.solvInpCurr vi io ph off := by
  have hig : ∀ x y, 0 ≤ io + c.par.interp x y := fun x y => by have := hc.par x y; linarith
  unfold Comp.solvInpCurr calcInpCurrent
  cases hk : c.kind <;> simp only
  case source => split_ifs <;> first | exact le_refl _ | exact hio
  case pload =>
    split_ifs
    · exact le_refl _
    · apply div_nonneg _ (by rw [nabs_eq_abs]; exact abs_nonneg _)
      unfold loadVal
      split_ifs with h1 h2
      · exact hc.pwr
      · exact hc.pwrs
      · exact hpv (by simpa using h1) (by simpa using h2)
  case iload => split_ifs <;> first | exact le_refl _ | (rw [nabs_eq_abs]; exact abs_nonneg _)
  case rload =>
    split_ifs with h1 h2
    · exact le_refl _
    · apply div_nonneg (by rw [nabs_eq_abs]; exact abs_nonneg _)
      simp only [Bool.and_eq_true] at h2
      exact hpv h2.1 h2.2
    · exact div_nonneg (by rw [nabs_eq_abs]; exact abs_nonneg _) hc.rs
  case rloss => split_ifs <;> first | exact le_refl _ | exact hio
  case vloss => split_ifs <;> first | exact le_refl _ | exact hio
  case converter =>
    split_ifs <;> first | exact le_refl _ | exact hc.iis | exact hc.iq | (rw [nabs_eq_abs]; exact abs_nonneg _)
  case linreg => split_ifs <;> first | exact le_refl _ | exact hc.iis | exact hig _ _
  case pswitch => split_ifs <;> first | exact le_refl _ | exact hc.iis | exact hig _ _
  case pmux =>
    cases priInpAux off vi 0 with
    | none => exact le_refl _
    | some k => simp only; split_ifs <;> first | exact hc.iis | exact hig _ _
  case rectifier =>
    split_ifs <;> first | exact le_refl _ | exact hio | exact hc.iq | exact hig _ _

/-- **Non-negative currents.**  In a well-formed tree with accepted parameters and non-negative phase
    values, every current vector that the back sweep reproduces is non-negative (induction from the
    leaves up along `_topo_nodes`). -/
theorem steady_currents_nonneg (s : SSys α) (hwf : TreeWF s)
    (hphys : ∀ n nd, s.node? n = some nd → nd.comp.Phys)
    (phase : String) (hpv : ∀ n nd, s.node? n = some nd → PhaseValOK (nd.pconf.ctx phase))
    (v i : Vec α) (st : St) (hback : s.backProp phase v i st = i) : ∀ m, 0 ≤ vget i m := by
  obtain ⟨_, k2, k3⟩ := C16.backProp_pointwise s phase v i st
  rw [hback] at k2 k3
  have key : ∀ k n, n ∈ s.topo → s.topo.length - s.topo.idxOf n ≤ k → 0 ≤ vget i n := by
    intro k
    induction k with
    | zero =>
      intro n hn hk
      have := List.idxOf_lt_length_of_mem hn
      omega
    | succ k ih =>
      intro n hn hk
      obtain ⟨nd, hnd⟩ := node_of_mem s hwf n hn
      rw [k2 n hn (hwf.bound n hn)]
      unfold SSys.backAt SSys.lawArgs
      simp only [hnd]
      apply curr_nonneg nd.comp (hphys n nd hnd) _ _ _ _ (hpv n nd hnd)
      show 0 ≤ ioOf s nd n v i st
      rw [ioOf_eq_sum s nd n hnd]
      apply List.sum_nonneg
      intro x hx
      obtain ⟨c, hc, rfl⟩ := List.mem_map.mp hx
      apply childShare_nonneg
      have hcl : c ∈ s.topo := (hwf.live c).mpr (hwf.chLive n nd hnd c hc)
      have hord := hwf.order n c nd hnd hc
      exact ih c hcl (by omega)
  intro m
  by_cases hm : m ∈ s.topo
  · exact key _ m hm (le_refl _)
  · rw [k3 m hm]

/-- **Whole-table energy balance, systems without a PMux** — final form.
    Hypotheses: well-formed tree (`TreeWF`), no PMux, accepted parameters with the exclusions of F01 and
    of a 0 V Converter (`CompsOK`), non-negative phase values, exact steady state. -/
theorem table_balance_partial (s : SSys α) (hwf : TreeWF s) (hnm : NoMux s) (hok : CompsOK s)
    (phase : String) (hpv : ∀ n nd, s.node? n = some nd → PhaseValOK (nd.pconf.ctx phase))
    (ta : α) (v i : Vec α) (st : St) (hst : Steady s phase v i st) :
    let rows := s.compRows phase ta v i st
    ((rows.filter (·.typ == "SOURCE")).map rP).sum
      = ((rows.filter (·.typ == "LOAD")).map fun r => rP r + rL r).sum
        + ((rows.filter (·.typ != "LOAD")).map rL).sum :=
  table_balance_of_nonneg_partial s hwf hnm hok phase ta v i st hst
    (steady_currents_nonneg s hwf hok.phys phase hpv v i st hst.back)

/-- `row_power_identity` with the non-negativity of the currents discharged by `TreeWF` -/
theorem row_power_identity_wf (s : SSys α) (hwf : TreeWF s)
    (hphys : ∀ n nd, s.node? n = some nd → nd.comp.Phys)
    (phase : String) (hpv : ∀ n nd, s.node? n = some nd → PhaseValOK (nd.pconf.ctx phase))
    (ta : α) (v i : Vec α) (st : St) (hst : Steady s phase v i st)
    (n p : Nat) (nd : SNode α) (hnode : s.node? n = some nd) (hpar : nd.parents = [p])
    (hs : nd.comp.kind ≠ .source) (hm : nd.comp.kind ≠ .pmux) (hld : nd.comp.kind.ctype ≠ .LOAD)
    (hcv : nd.comp.kind = .converter → nd.comp.vo ≠ 0) (d : String) :
    let r := (s.compRow phase ta v i st n d).1
    ∃ P L Vi Vo Ii Io, r.pwr = some P ∧ r.loss = some L ∧ r.vin = some Vi ∧ r.vout = some Vo ∧
      r.iin = some Ii ∧ r.iout = some Io ∧ P - L = |Vo| * Io ∧ P = |Vi| * Ii :=
  row_power_identity s phase ta v i st hwf.bound hst
    (steady_currents_nonneg s hwf hphys phase hpv v i st hst.back) n p nd (mem_of_node s hwf n nd hnode)
    hnode hpar hs hm hld (hphys n nd hnode) hcv d

/-! ### G. systems with PMux: the feeder of a mux is its selected input -/

theorem pri_some_spec (off : List Bool) (vi : List α) (k : Nat) (h : priInpAux off vi 0 = some k) :
    k < off.length ∧ k < vi.length ∧ off.getD k false = false ∧ vi.getD k 0 ≠ 0 := by
  obtain ⟨o, x, ho, hx, hof, hne⟩ := ((C05.pri_first_live off vi).1 k).mp h |>.1
  have h1 : k < off.length := by
    by_contra hh
    rw [List.getElem?_eq_none (by omega)] at ho; cases ho
  have h2 : k < vi.length := by
    by_contra hh
    rw [List.getElem?_eq_none (by omega)] at hx; cases hx
  refine ⟨h1, h2, ?_, ?_⟩
  · simp [List.getD, ho, hof]
  · simp [List.getD, hx, hne]

/-- **A PMux in a local steady state.**  With a live input `k`, the row built from `(V_k, Vout, Iin, Iout)`
    books `|V_k|·Iin` as Power and passes on `|Vout|·Iout`; without a live input it outputs 0 V and draws 0 A. -/
theorem local_mux (c : Comp α) (hk : c.kind = .pmux) (hc : c.Phys) (vi : List α) (off : List Bool)
    (io ta : α) (ph : PhaseCtx α) (vo ii : α) (b' : Bool) (hio : 0 ≤ io)
    (hfwd : c.solvOutpVolt vi io ph off = .ok (vo, b'))
    (hback : c.solvInpCurr vi io ph off = ii) :
    (∀ k, priInpAux off vi 0 = some k →
        FedOK (c.solvPwrLoss (vi.getD k 0) vo ii io ta ph) (vi.getD k 0) vo ii io) ∧
    (priInpAux off vi 0 = none → vo = 0 ∧ ii = 0) := by
  constructor
  · intro k hsel
    obtain ⟨_, _, _, hvk⟩ := pri_some_spec off vi k hsel
    have hz : isZ (vi.getD k 0) = false := (isZ_false_iff _).mpr hvk
    unfold Comp.solvInpCurr at hback
    simp only [hk, hsel, nabs_eq_abs] at hback
    cases hina : ph.inactive with
    | true =>
      simp only [hina, if_true] at hback
      have hvo : vo = 0 := by
        unfold Comp.solvOutpVolt at hfwd
        simp only [hk, hsel, hina, if_true] at hfwd
        cases hl : c.rsList with
        | some l =>
          simp only [hl] at hfwd
          by_cases hlen : l.length < vi.length
          · simp [hlen] at hfwd
          · simp only [hlen, if_false, Except.ok.injEq, Prod.mk.injEq] at hfwd
            exact hfwd.1.symm
        | none =>
          simp only [hl, Except.ok.injEq, Prod.mk.injEq] at hfwd
          exact hfwd.1.symm
      obtain ⟨h1, h2, h3⟩ := pml_sleep c (Or.inr (Or.inr (Or.inr hk))) hc (vi.getD k 0) vo ii io ta ph hina hvk
      unfold FedOK
      rw [h3, h1, hvo, ← hback]; simp [mul_comm]
    | false =>
      simp only [hina, Bool.false_eq_true, if_false] at hback
      have hii : 0 ≤ ii := by rw [← hback]; have := hc.par |io| |vi.getD k 0|; linarith
      obtain ⟨h1, _, _⟩ := pml_resid_switch c (Or.inr hk) (vi.getD k 0) vo ii io ta ph hina hvk hii hio
      have hpw := pwr_awake c (Or.inr (Or.inr (Or.inr hk))) (vi.getD k 0) vo ii io ta ph hina hvk
      refine ⟨?_, ?_⟩
      · rw [h1, ← hback]; ring
      · rw [hpw, abs_mul_of_nonneg_right _ _ hii]
  · intro hnone
    unfold Comp.solvOutpVolt at hfwd
    unfold Comp.solvInpCurr at hback
    simp only [hk, hnone, Except.ok.injEq, Prod.mk.injEq] at hfwd hback
    exact ⟨hfwd.1.symm, hback.symm⟩

/-- the feeder of a node: the selected input of a PMux (none when no input is live), the only
    parent of any other component (none for a root) -/
def feederM (s : SSys α) (v : Vec α) (st : St) (n : Nat) : Option Nat :=
  match s.node? n with
  | none => none
  | some nd =>
    if nd.comp.kind = .pmux then
      (priInpAux (nd.parents.map (sget st)) (nd.parents.map (vget v)) 0).map fun k => nd.parents.getD k 0
    else nd.parents.head?

/-- the input voltage a mux row reports -/
def muxVin (v : Vec α) (st : St) (nd : SNode α) : α :=
  match priInpAux (nd.parents.map (sget st)) (nd.parents.map (vget v)) 0 with
  | some k => vget v (nd.parents.getD k 0)
  | none => vget v (nd.parents.headD 0)

/-- the Power / Loss cells of any row are the loss law applied to the row's own Vin, Vout, Iin, Iout -/
theorem compRow_consistent (s : SSys α) (phase : String) (ta : α) (v i : Vec α) (st : St)
    (n : Nat) (nd : SNode α) (hnode : s.node? n = some nd) (d : String) :
    let r := (s.compRow phase ta v i st n d).1
    ∃ VI IO, r.vin = some VI ∧ r.vout = some (vget v n) ∧ r.iin = some (vget i n) ∧ r.iout = some IO ∧
      r.pwr = some (nd.comp.solvPwrLoss VI (vget v n) (vget i n) IO ta (nd.pconf.ctx phase)).pwr ∧
      r.loss = some (nd.comp.solvPwrLoss VI (vget v n) (vget i n) IO ta (nd.pconf.ctx phase)).loss ∧
      r.typ = nd.comp.kind.ctype.name ∧ (nd.parents ≠ [] → IO = ioOf s nd n v i st) := by
  intro r
  have hr : r = (s.compRow phase ta v i st n d).1 := rfl
  unfold SSys.compRow at hr
  simp only [hnode] at hr
  rw [hr]
  refine ⟨_, _, rfl, rfl, rfl, rfl, rfl, rfl, rfl, ?_⟩
  intro hne
  cases hp : nd.parents with
  | nil => exact absurd hp hne
  | cons a l => simp [ioOf]

theorem rowOf_mux (s : SSys α) (phase : String) (ta : α) (v i : Vec α) (st : St)
    (n : Nat) (nd : SNode α) (hnode : s.node? n = some nd) (hk : nd.comp.kind = .pmux)
    (hpar : nd.parents ≠ []) :
    rowOf s phase ta v i st n = ⟨muxVin v st nd, vget v n, vget i n, ioOf s nd n v i st,
      (nd.comp.solvPwrLoss (muxVin v st nd) (vget v n) (vget i n) (ioOf s nd n v i st) ta (nd.pconf.ctx phase)).pwr,
      (nd.comp.solvPwrLoss (muxVin v st nd) (vget v n) (vget i n) (ioOf s nd n v i st) ta (nd.pconf.ctx phase)).loss⟩ := by
  have hvin : (s.compRow phase ta v i st n "").1.vin = some (muxVin v st nd) := by
    unfold SSys.compRow muxVin Comp.priInp
    cases hp : nd.parents with
    | nil => exact absurd hp hpar
    | cons p0 rest =>
      simp only [hnode, hk, hp, List.isEmpty_cons, Bool.false_eq_true, if_false]
      cases hsel : priInpAux (List.map (sget st) (p0 :: rest)) (List.map (vget v) (p0 :: rest)) 0 with
      | none => simp
      | some k =>
        cases rest with
        | nil =>
          obtain ⟨h1, _, _, _⟩ := pri_some_spec _ _ k hsel
          simp only [List.map_cons, List.map_nil, List.length_cons, List.length_nil] at h1
          have : k = 0 := by omega
          subst this; simp
        | cons p1 rest' => simp
  obtain ⟨VI, IO, c1, c2, c3, c4, c5, c6, _, c8⟩ := compRow_consistent s phase ta v i st n nd hnode ""
  rw [hvin] at c1
  have e1 : VI = muxVin v st nd := (Option.some.inj c1).symm
  have e2 := c8 hpar
  subst e1; subst e2
  unfold rowOf cellsOf rP rL
  rw [hvin, c2, c3, c4, c5, c6]; rfl

theorem pri_none_head (o : Bool) (os : List Bool) (x : α) (xs : List α)
    (h : priInpAux (o :: os) (x :: xs) 0 = none) : o = true ∨ x = 0 := by
  unfold priInpAux at h
  by_cases hc : (!o && !isZ x) = true
  · simp [hc] at h
  · simp only [Bool.and_eq_true, Bool.not_eq_true', not_and, Bool.not_eq_false] at hc
    cases o with
    | true => exact Or.inl rfl
    | false => exact Or.inr ((isZ_iff x).mp (hc rfl))

theorem getD_map_vget (v : Vec α) (pp : List Nat) (k : Nat) (hk : k < pp.length) :
    (pp.map (vget v)).getD k 0 = vget v (pp.getD k 0) := by
  simp [List.getD, List.getElem?_map, List.getElem?_eq_getElem hk]

/-- a PMux node in a steady state: its row (which shows the selected input's voltage, or a dead
    input's 0 V) balances; without a live input it outputs 0 V, draws 0 A and books no power -/
theorem mux_node_ok (s : SSys α) (phase : String) (ta : α) (v i : Vec α) (st : St)
    (hb : ∀ n ∈ s.topo, n < s.hidx) (hst : Steady s phase v i st) (hi : ∀ m, 0 ≤ vget i m)
    (n : Nat) (nd : SNode α) (hn : n ∈ s.topo) (hnode : s.node? n = some nd)
    (hk : nd.comp.kind = .pmux) (hpar : nd.parents ≠ []) (hc : nd.comp.Phys) :
    FedOK (nd.comp.solvPwrLoss (muxVin v st nd) (vget v n) (vget i n) (ioOf s nd n v i st) ta (nd.pconf.ctx phase))
      (muxVin v st nd) (vget v n) (vget i n) (ioOf s nd n v i st) ∧
    (priInpAux (nd.parents.map (sget st)) (nd.parents.map (vget v)) 0 = none →
      vget v n = 0 ∧ vget i n = 0 ∧
      (nd.comp.solvPwrLoss (muxVin v st nd) (vget v n) (vget i n) (ioOf s nd n v i st) ta (nd.pconf.ctx phase)).pwr = 0) := by
  obtain ⟨⟨b, hf⟩, hbk⟩ := steady_cell s phase v i st hb hst n hn
  have hne : nd.parents.isEmpty = false := by
    cases hp : nd.parents with
    | nil => exact absurd hp hpar
    | cons a l => rfl
  unfold SSys.fwdAt SSys.lawArgs at hf
  unfold SSys.backAt SSys.lawArgs at hbk
  simp only [hnode, hne, Bool.false_eq_true, if_false] at hf hbk
  obtain ⟨m1, m2⟩ := local_mux nd.comp hk hc _ _ (ioOf s nd n v i st) ta (nd.pconf.ctx phase) (vget v n)
    (vget i n) b (ioOf_nonneg s nd n hnode v i st hi) hf hbk
  cases hsel : priInpAux (nd.parents.map (sget st)) (nd.parents.map (vget v)) 0 with
  | some k =>
    have hm := m1 k hsel
    obtain ⟨h1, _, _, _⟩ := pri_some_spec _ _ k hsel
    rw [List.length_map] at h1
    rw [getD_map_vget v nd.parents k h1] at hm
    have e : muxVin v st nd = vget v (nd.parents.getD k 0) := by unfold muxVin; rw [hsel]
    rw [e]
    exact ⟨hm, fun h => by cases h⟩
  | none =>
    obtain ⟨hv0, hi0⟩ := m2 hsel
    have e : muxVin v st nd = 0 := by
      unfold muxVin; rw [hsel]
      cases hp : nd.parents with
      | nil => exact absurd hp hpar
      | cons p0 rest =>
        rw [hp] at hsel
        simp only [List.map_cons] at hsel
        rcases pri_none_head _ _ _ _ hsel with h | h
        · exact hst.flag p0 h
        · exact h
    have hz : isZ (0 : α) = true := (isZ_iff _).mpr rfl
    have hp0 : (nd.comp.solvPwrLoss 0 (vget v n) (vget i n) (ioOf s nd n v i st) ta (nd.pconf.ctx phase)) = PL.zeros 0 := by
      unfold Comp.solvPwrLoss; simp [hk, hz]
    rw [e, hp0, hv0, hi0]
    refine ⟨⟨by simp [PL.zeros], by simp [PL.zeros]⟩, fun _ => ⟨rfl, rfl, rfl⟩⟩

theorem parents_cases' (s : SSys α) (hwf : TreeWF s) (n : Nat) (nd : SNode α)
    (h : s.node? n = some nd) (hk : nd.comp.kind ≠ .pmux) : nd.parents = [] ∨ ∃ p, nd.parents = [p] := by
  cases hp : nd.parents with
  | nil => exact Or.inl rfl
  | cons p l =>
    cases l with
    | nil => exact Or.inr ⟨p, rfl⟩
    | cons q l' => exact absurd (hwf.muxOnly n nd h (by rw [hp]; simp)) hk

theorem mux_parents_ne (s : SSys α) (hwf : TreeWF s) (n : Nat) (nd : SNode α)
    (h : s.node? n = some nd) (hk : nd.comp.kind = .pmux) : nd.parents ≠ [] := by
  intro e
  have := (hwf.rootSrc n nd h).mp e
  rw [hk] at this; cases this

theorem feederM_nonmux (s : SSys α) (v : Vec α) (st : St) (n : Nat) (nd : SNode α)
    (h : s.node? n = some nd) (hk : nd.comp.kind ≠ .pmux) : feederM s v st n = nd.parents.head? := by
  unfold feederM; simp only [h, hk, if_false]

theorem feederM_mux (s : SSys α) (v : Vec α) (st : St) (n : Nat) (nd : SNode α)
    (h : s.node? n = some nd) (hk : nd.comp.kind = .pmux) :
    feederM s v st n =
      (priInpAux (nd.parents.map (sget st)) (nd.parents.map (vget v)) 0).map fun k => nd.parents.getD k 0 := by
  unfold feederM; simp only [h, hk, if_true]

theorem getD_mem_of_lt (pp : List Nat) (k : Nat) (hk : k < pp.length) : pp.getD k 0 ∈ pp := by
  simp [List.getD, List.getElem?_eq_getElem hk]

theorem feederM_mem (s : SSys α) (v : Vec α) (st : St) (n p : Nat) (nd : SNode α)
    (h : s.node? n = some nd) (hf : feederM s v st n = some p) : p ∈ nd.parents := by
  by_cases hk : nd.comp.kind = .pmux
  · rw [feederM_mux s v st n nd h hk] at hf
    cases hsel : priInpAux (nd.parents.map (sget st)) (nd.parents.map (vget v)) 0 with
    | none => rw [hsel] at hf; cases hf
    | some k =>
      rw [hsel] at hf
      simp only [Option.map_some, Option.some.injEq] at hf
      obtain ⟨h1, _, _, _⟩ := pri_some_spec _ _ k hsel
      rw [List.length_map] at h1
      rw [← hf]; exact getD_mem_of_lt _ _ h1
  · rw [feederM_nonmux s v st n nd h hk] at hf
    exact List.mem_of_mem_head? hf

/-- **Current attribution in a steady state**: child `c` of `n` contributes its input current to `n`'s
    output current iff `n` is `c`'s feeder (its only parent, or the input a mux selected) -/
theorem share_eq (s : SSys α) (hwf : TreeWF s) (hphys : ∀ n nd, s.node? n = some nd → nd.comp.Phys)
    (phase : String) (ta : α) (v i : Vec α) (st : St) (hst : Steady s phase v i st) (hi : ∀ m, 0 ≤ vget i m)
    (n c : Nat) (nd : SNode α) (h : s.node? n = some nd) (hc : c ∈ nd.childs) :
    s.childShare n i v st c = if feederM s v st c = some n then vget i c else 0 := by
  obtain ⟨cd, hcd⟩ := Option.isSome_iff_exists.mp (hwf.chLive n nd h c hc)
  have hin : n ∈ cd.parents := (hwf.link n c nd cd h hcd).mp hc
  by_cases hk : cd.comp.kind = .pmux
  · have hpne := mux_parents_ne s hwf c cd hcd hk
    rw [feederM_mux s v st c cd hcd hk]
    cases hsel : priInpAux (cd.parents.map (sget st)) (cd.parents.map (vget v)) 0 with
    | none =>
      obtain ⟨_, hdead⟩ := mux_node_ok s phase ta v i st hwf.bound hst hi c cd (mem_of_node s hwf c cd hcd) hcd
        hk hpne (hphys c cd hcd)
      have hshare : s.childShare n i v st c = vget i c := by
        unfold SSys.childShare Comp.priInp
        simp only [hcd, hk, hsel]
      rw [hshare, (hdead hsel).2.1]; simp
    | some k =>
      obtain ⟨h1, _, _, _⟩ := pri_some_spec _ _ k hsel
      rw [List.length_map] at h1
      by_cases hlen : cd.parents.length > 1
      · rw [C05.mux_current_attribution s i v st c cd hcd hk hlen k hsel n]
        simp only [Option.map_some, Option.some.injEq]
      · have hp : cd.parents = [n] := by
          cases hpp : cd.parents with
          | nil => rw [hpp] at hin; cases hin
          | cons a l =>
            cases l with
            | nil => rw [hpp] at hin; simp only [List.mem_singleton] at hin; rw [hin]
            | cons b l' => rw [hpp] at hlen; simp at hlen
        rw [C05.single_parent_share s i v st c cd hcd n hp n]
        have hk0 : k = 0 := by rw [hp] at h1; simp at h1; exact h1
        subst hk0
        simp [hp]
  · rw [feederM_nonmux s v st c cd hcd hk]
    rcases parents_cases' s hwf c cd hcd hk with h0 | ⟨p, h1⟩
    · rw [h0] at hin; cases hin
    · rw [h1] at hin; simp only [List.mem_singleton] at hin; subst hin
      rw [C05.single_parent_share s i v st c cd hcd n h1 n, h1]; simp

/-- the output current of a fed node is the sum of the input currents of the children it feeds -/
theorem ioOf_shares (s : SSys α) (hwf : TreeWF s) (hphys : ∀ n nd, s.node? n = some nd → nd.comp.Phys)
    (phase : String) (ta : α) (v i : Vec α) (st : St) (hst : Steady s phase v i st) (hi : ∀ m, 0 ≤ vget i m)
    (n : Nat) (nd : SNode α) (h : s.node? n = some nd) :
    ioOf s nd n v i st = (nd.childs.map fun c => if feederM s v st c = some n then vget i c else 0).sum := by
  rw [ioOf_eq_sum s nd n h]
  congr 1
  apply List.map_congr_left
  intro c hc
  exact share_eq s hwf hphys phase ta v i st hst hi n c nd h hc

/-- the listed nodes fed by `n` are those of its children that select it -/
theorem kidsM_eq (s : SSys α) (hwf : TreeWF s) (v : Vec α) (st : St) (n : Nat) (nd : SNode α)
    (h : s.node? n = some nd) :
    kidsOf s.topo.toFinset (feederM s v st) n
      = nd.childs.toFinset.filter fun c => feederM s v st c = some n := by
  ext c
  simp only [kidsOf, Finset.mem_filter, List.mem_toFinset]
  constructor
  · rintro ⟨hc, hf⟩
    obtain ⟨cd, hcd⟩ := node_of_mem s hwf c hc
    exact ⟨(hwf.link n c nd cd h hcd).mpr (feederM_mem s v st c n cd hcd hf), hf⟩
  · rintro ⟨hc, hf⟩
    exact ⟨(hwf.live c).mpr (hwf.chLive n nd h c hc), hf⟩

/-- everything `system_balance` asks of one row, for any live node of a steady state (mux included) -/
theorem row_ok (s : SSys α) (hwf : TreeWF s) (hok : CompsOK s)
    (phase : String) (ta : α) (v i : Vec α) (st : St) (hst : Steady s phase v i st) (hi : ∀ m, 0 ≤ vget i m)
    (n : Nat) (nd : SNode α) (hnode : s.node? n = some nd) :
    let r := rowOf s phase ta v i st n
    r.vout = vget v n ∧ r.iin = vget i n ∧
    (∀ p, feederM s v st n = some p → r.vin = vget v p) ∧
    (nd.comp.kind.ctype ≠ .LOAD →
      r.pwr - r.loss = |r.vout| * r.iout ∧ (feederM s v st n ≠ none → r.pwr = |r.vin| * r.iin) ∧
      (feederM s v st n = none → nd.comp.kind ≠ .source → r.pwr = 0)) ∧
    (nd.comp.kind.ctype = .LOAD →
      feederM s v st n ≠ none ∧ r.iout = 0 ∧ r.pwr + r.loss = |r.vin| * r.iin) ∧
    r.iout = (nd.childs.map fun c => if feederM s v st c = some n then vget i c else 0).sum := by
  intro r
  have hr : r = rowOf s phase ta v i st n := rfl
  have hn : n ∈ s.topo := mem_of_node s hwf n nd hnode
  have hphys := hok.phys
  have hshares := ioOf_shares s hwf hphys phase ta v i st hst hi n nd hnode
  by_cases hk : nd.comp.kind = .pmux
  · -- PMux
    have hpne := mux_parents_ne s hwf n nd hnode hk
    obtain ⟨⟨f1, f2⟩, hdead⟩ := mux_node_ok s phase ta v i st hwf.bound hst hi n nd hn hnode hk hpne
      (hphys n nd hnode)
    rw [rowOf_mux s phase ta v i st n nd hnode hk hpne] at hr
    have hfm := feederM_mux s v st n nd hnode hk
    rw [hr]
    refine ⟨rfl, rfl, ?_, fun _ => ⟨f1, fun _ => f2, ?_⟩, ?_, hshares⟩
    · intro p hp
      rw [hfm] at hp
      show muxVin v st nd = vget v p
      unfold muxVin
      cases hsel : priInpAux (nd.parents.map (sget st)) (nd.parents.map (vget v)) 0 with
      | none => rw [hsel] at hp; cases hp
      | some k =>
        rw [hsel] at hp
        simp only [Option.map_some, Option.some.injEq] at hp
        rw [← hp]
    · intro hnone _
      rw [hfm] at hnone
      have hsel : priInpAux (nd.parents.map (sget st)) (nd.parents.map (vget v)) 0 = none := by
        cases hh : priInpAux (nd.parents.map (sget st)) (nd.parents.map (vget v)) 0 with
        | none => rfl
        | some k => rw [hh] at hnone; cases hnone
      exact (hdead hsel).2.2
    · intro hl; rw [hk] at hl; cases hl
  · have hfm := feederM_nonmux s v st n nd hnode hk
    rcases parents_cases' s hwf n nd hnode hk with h0 | ⟨p, h1⟩
    · -- root
      have hsrc := (hwf.rootSrc n nd hnode).mp h0
      obtain ⟨g1, g2⟩ := root_node_ok s phase ta v i st hwf.bound hst hi n nd hn hnode h0 hsrc
        (hphys n nd hnode) (hok.f01 n nd hnode hsrc) (vget v n + nd.comp.rs * vget i n) (vget v n)
      rw [rowOf_root s phase ta v i st n nd hnode h0] at hr
      rw [hr, hfm, h0]
      refine ⟨rfl, rfl, fun p hp => (by cases hp), fun _ => ⟨g1, fun hh => absurd rfl hh, fun _ hh => absurd hsrc hh⟩,
        fun hl => (by rw [hsrc] at hl; cases hl), ?_⟩
      show vget i n = _
      rcases g2 with g2 | ⟨hi0, hv0⟩
      · rw [g2]; exact hshares
      · rw [hi0]
        symm
        apply List.sum_eq_zero
        intro x hx
        obtain ⟨c, hc, rfl⟩ := List.mem_map.mp hx
        by_cases hf : feederM s v st c = some n
        · rw [if_pos hf]
          obtain ⟨cd, hcd⟩ := Option.isSome_iff_exists.mp (hwf.chLive n nd hnode c hc)
          by_cases hkc : cd.comp.kind = .pmux
          · exfalso
            rw [feederM_mux s v st c cd hcd hkc] at hf
            cases hsel : priInpAux (cd.parents.map (sget st)) (cd.parents.map (vget v)) 0 with
            | none => rw [hsel] at hf; cases hf
            | some k =>
              rw [hsel] at hf
              simp only [Option.map_some, Option.some.injEq] at hf
              obtain ⟨h1, _, _, h4⟩ := pri_some_spec _ _ k hsel
              rw [List.length_map] at h1
              rw [getD_map_vget v cd.parents k h1, hf] at h4
              exact h4 hv0
          · rw [feederM_nonmux s v st c cd hcd hkc] at hf
            rcases parents_cases' s hwf c cd hcd hkc with e0 | ⟨q, e1⟩
            · rw [e0] at hf; cases hf
            · rw [e1] at hf; simp only [List.head?_cons, Option.some.injEq] at hf; subst hf
              obtain ⟨_, hbk⟩ := steady_cell s phase v i st hwf.bound hst c (mem_of_node s hwf c cd hcd)
              rw [← hbk, (C01.sweep_args_are_row s phase ta v i st c q cd hcd e1 "").2, hv0]
              have hns : cd.comp.kind ≠ .source := by
                intro e
                have := (hwf.rootSrc c cd hcd).mpr e
                rw [e1] at this; cases this
              exact curr_dead cd.comp hns hkc _ _ _
        · rw [if_neg hf]
    · -- single supply
      have hns : nd.comp.kind ≠ .source := by
        intro e
        have := (hwf.rootSrc n nd hnode).mpr e
        rw [h1] at this; cases this
      rw [rowOf_fed s phase ta v i st n p nd hnode h1] at hr
      rw [hr, hfm, h1]
      refine ⟨rfl, rfl, fun q hq => ?_, fun hnl => ?_, fun hl => ?_, hshares⟩
      · simp only [List.head?_cons, Option.some.injEq] at hq; rw [hq]
      · obtain ⟨f1, f2⟩ := fed_node_ok s phase ta v i st hwf.bound hst hi n p nd hn hnode h1 hns hk hnl
          (hphys n nd hnode) (hok.conv n nd hnode)
        exact ⟨f1, fun _ => f2, fun hh => by simp at hh⟩
      · refine ⟨by simp, ?_, live_load nd.comp hl _ _ _ _ _ _ (hi n)⟩
        show ioOf s nd n v i st = 0
        unfold ioOf; rw [hwf.loadLeaf n nd hnode hl]; rfl

open Finset in
/-- the rows of a steady state form the forest of `system_balance`, a PMux being fed by its selected input -/
theorem node_balance_mux (s : SSys α) (hwf : TreeWF s) (hok : CompsOK s)
    (phase : String) (ta : α) (v i : Vec α) (st : St) (hst : Steady s phase v i st) (hi : ∀ m, 0 ≤ vget i m) :
    ∑ n ∈ s.topo.toFinset, (if feederM s v st n = none then (rowOf s phase ta v i st n).pwr else 0)
      = ∑ n ∈ s.topo.toFinset,
          (if isLoadB s n then (rowOf s phase ta v i st n).pwr + (rowOf s phase ta v i st n).loss
           else (rowOf s phase ta v i st n).loss) := by
  have hmem : ∀ n, n ∈ s.topo.toFinset → ∃ nd, s.node? n = some nd := fun n hn =>
    node_of_mem s hwf n (List.mem_toFinset.mp hn)
  have hload : ∀ n nd, s.node? n = some nd → (isLoadB s n = true ↔ nd.comp.kind.ctype = .LOAD) := by
    intro n nd h; unfold isLoadB; rw [h]; simp
  have hrow := fun n nd h => row_ok s hwf hok phase ta v i st hst hi n nd h
  apply system_balance s.topo.toFinset (feederM s v st) ?_ (isLoadB s) (rowOf s phase ta v i st)
  · intro c hc p hp
    obtain ⟨cd, hcd⟩ := hmem c hc
    obtain ⟨_, _, r3, _⟩ := hrow c cd hcd
    obtain ⟨pd, hpd⟩ := Option.isSome_iff_exists.mp (hwf.parLive c cd hcd p (feederM_mem s v st c p cd hcd hp))
    rw [r3 p hp, (hrow p pd hpd).1]
  · intro n hn
    obtain ⟨nd, hnd⟩ := hmem n hn
    obtain ⟨_, _, _, _, _, r6⟩ := hrow n nd hnd
    rw [r6, kidsM_eq s hwf v st n nd hnd, Finset.sum_filter, List.sum_toFinset _ (hwf.chNodup n nd hnd)]
    congr 1
    apply List.map_congr_left
    intro c hc
    obtain ⟨cd, hcd⟩ := Option.isSome_iff_exists.mp (hwf.chLive n nd hnd c hc)
    rw [(hrow c cd hcd).2.1]
  · intro n hn hl
    obtain ⟨nd, hnd⟩ := hmem n hn
    have hnl : nd.comp.kind.ctype ≠ .LOAD := by
      intro e; rw [(hload n nd hnd).mpr e] at hl; cases hl
    exact ((hrow n nd hnd).2.2.2.1 hnl).1
  · intro n hn hl hp
    obtain ⟨nd, hnd⟩ := hmem n hn
    have hnl : nd.comp.kind.ctype ≠ .LOAD := by
      intro e; rw [(hload n nd hnd).mpr e] at hl; cases hl
    exact ((hrow n nd hnd).2.2.2.1 hnl).2.1 hp
  · intro n hn hl
    obtain ⟨nd, hnd⟩ := hmem n hn
    exact (hrow n nd hnd).2.2.2.2.1 ((hload n nd hnd).mp hl)
  · intro c hc p hp
    obtain ⟨cd, hcd⟩ := hmem c hc
    obtain ⟨pd, hpd⟩ := Option.isSome_iff_exists.mp (hwf.parLive c cd hcd p (feederM_mem s v st c p cd hcd hp))
    exact List.mem_toFinset.mpr (mem_of_node s hwf p pd hpd)

/-- **Whole-table energy balance, PMux included** (non-negative currents given). -/
theorem table_balance_mux_of_nonneg_partial (s : SSys α) (hwf : TreeWF s) (hok : CompsOK s)
    (phase : String) (ta : α) (v i : Vec α) (st : St) (hst : Steady s phase v i st) (hi : ∀ m, 0 ≤ vget i m) :
    let rows := s.compRows phase ta v i st
    ((rows.filter (·.typ == "SOURCE")).map rP).sum
      = ((rows.filter (·.typ == "LOAD")).map fun r => rP r + rL r).sum
        + ((rows.filter (·.typ != "LOAD")).map rL).sum := by
  intro rows
  have hnb := node_balance_mux s hwf hok phase ta v i st hst hi
  rw [List.sum_toFinset _ hwf.nodup, List.sum_toFinset _ hwf.nodup] at hnb
  rw [sum_filter_map, sum_filter_map, sum_filter_map, ← List.sum_map_add]
  rw [compRows_numeric (fun r : Row α => if (r.typ == "SOURCE") = true then rP r else 0) (fun _ _ => rfl)]
  show _ = (List.map _ (s.compRows phase ta v i st)).sum
  rw [compRows_numeric (fun r : Row α => (if (r.typ == "LOAD") = true then rP r + rL r else 0)
    + if (r.typ != "LOAD") = true then rL r else 0) (fun _ _ => rfl)]
  have hL : ∀ n ∈ s.topo,
      (if ((s.compRow phase ta v i st n "").1.typ == "SOURCE") = true then rP (s.compRow phase ta v i st n "").1
        else 0) = (if feederM s v st n = none then (rowOf s phase ta v i st n).pwr else 0) := by
    intro n hn
    obtain ⟨nd, hnd⟩ := node_of_mem s hwf n hn
    have htyp : (s.compRow phase ta v i st n "").1.typ = nd.comp.kind.ctype.name := by
      unfold SSys.compRow; simp only [hnd]
    obtain ⟨_, _, _, r4, r5, _⟩ := row_ok s hwf hok phase ta v i st hst hi n nd hnd
    rw [htyp, kind_name_source]
    by_cases hk : nd.comp.kind = .source
    · have hf : feederM s v st n = none := by
        rw [feederM_nonmux s v st n nd hnd (by rw [hk]; decide), (hwf.rootSrc n nd hnd).mpr hk]; rfl
      simp [hk, hf, rowOf, cellsOf]
    · simp only [hk, decide_false, Bool.false_eq_true, if_false]
      by_cases hf : feederM s v st n = none
      · rw [if_pos hf]
        by_cases hl : nd.comp.kind.ctype = .LOAD
        · exact absurd hf (r5 hl).1
        · exact ((r4 hl).2.2 hf hk).symm
      · rw [if_neg hf]
  have hR : ∀ n ∈ s.topo,
      ((if ((s.compRow phase ta v i st n "").1.typ == "LOAD") = true
          then rP (s.compRow phase ta v i st n "").1 + rL (s.compRow phase ta v i st n "").1 else 0)
        + if ((s.compRow phase ta v i st n "").1.typ != "LOAD") = true then rL (s.compRow phase ta v i st n "").1
          else 0)
      = (if isLoadB s n = true then (rowOf s phase ta v i st n).pwr + (rowOf s phase ta v i st n).loss
          else (rowOf s phase ta v i st n).loss) := by
    intro n hn
    obtain ⟨nd, hnd⟩ := node_of_mem s hwf n hn
    have htyp : (s.compRow phase ta v i st n "").1.typ = nd.comp.kind.ctype.name := by
      unfold SSys.compRow; simp only [hnd]
    have hl : isLoadB s n = decide (nd.comp.kind.ctype = .LOAD) := by unfold isLoadB; rw [hnd]
    rw [htyp, hl, bne, ctype_name_load]
    by_cases hk : nd.comp.kind.ctype = .LOAD <;> simp [hk, rowOf, cellsOf]
  rw [List.map_congr_left hL, List.map_congr_left hR]
  exact hnb

/-- **Whole-table energy balance, PMux included** — final form.
    Hypotheses: well-formed tree (`TreeWF`), accepted parameters with the exclusions of F01 and of a 0 V
    Converter (`CompsOK`), non-negative phase values, exact steady state.  A PMux counts as fed by the
    input it selected (Props/C05); a PMux without live input books no power. -/
theorem table_balance_mux_partial (s : SSys α) (hwf : TreeWF s) (hok : CompsOK s)
    (phase : String) (hpv : ∀ n nd, s.node? n = some nd → PhaseValOK (nd.pconf.ctx phase))
    (ta : α) (v i : Vec α) (st : St) (hst : Steady s phase v i st) :
    let rows := s.compRows phase ta v i st
    ((rows.filter (·.typ == "SOURCE")).map rP).sum
      = ((rows.filter (·.typ == "LOAD")).map fun r => rP r + rL r).sum
        + ((rows.filter (·.typ != "LOAD")).map rL).sum :=
  table_balance_mux_of_nonneg_partial s hwf hok phase ta v i st hst
    (steady_currents_nonneg s hwf hok.phys phase hpv v i st hst.back)

/-- **Row power identity, PMux rows**: the row shows the selected input's voltage as Vin (C05) and
    satisfies `Power − Loss = |Vout|·Iout`, `Power = |Vin|·Iin` (all 0 without a live input). -/
theorem row_power_identity_mux (s : SSys α) (phase : String) (ta : α) (v i : Vec α) (st : St)
    (hb : ∀ n ∈ s.topo, n < s.hidx) (hst : Steady s phase v i st) (hi : ∀ m, 0 ≤ vget i m)
    (n : Nat) (nd : SNode α) (hn : n ∈ s.topo) (hnode : s.node? n = some nd)
    (hk : nd.comp.kind = .pmux) (hpar : nd.parents ≠ []) (hc : nd.comp.Phys) (d : String) :
    let r := (s.compRow phase ta v i st n d).1
    ∃ P L Vi Vo Ii Io, r.pwr = some P ∧ r.loss = some L ∧ r.vin = some Vi ∧ r.vout = some Vo ∧
      r.iin = some Ii ∧ r.iout = some Io ∧ P - L = |Vo| * Io ∧ P = |Vi| * Ii := by
  intro r
  have hg := domainFree_compRow (fun r : Row α => (r.vin, r.vout, r.iin, r.iout, r.pwr, r.loss))
    (fun _ _ => rfl) s phase ta v i st n d ""
  simp only [Prod.mk.injEq] at hg
  obtain ⟨g1, g2, g3, g4, g5, g6⟩ := hg
  obtain ⟨VI, IO, c1, c2, c3, c4, c5, c6, _, _⟩ := compRow_consistent s phase ta v i st n nd hnode ""
  have hrow := rowOf_mux s phase ta v i st n nd hnode hk hpar
  unfold rowOf cellsOf rP rL at hrow
  rw [c1, c4] at hrow
  simp only [Option.getD_some, Cells.mk.injEq] at hrow
  obtain ⟨e1, _, _, e4, _, _⟩ := hrow
  subst e1; subst e4
  obtain ⟨⟨f1, f2⟩, _⟩ := mux_node_ok s phase ta v i st hb hst hi n nd hn hnode hk hpar hc
  exact ⟨_, _, _, _, _, _, g5.trans c5, g6.trans c6, g1.trans c1, g2.trans c2, g3.trans c3, g4.trans c4, f1, f2⟩

/-! ### non-vacuity: Source(10 V, 1 Ω) → { RLoss(1 Ω) → ILoad(1 A), ILoad(2 A) }
    steady state: 7 V / 6 V at the two rails, 3 A / 1 A / 1 A / 2 A; 30 W = (6 W + 14 W) + (9 W + 1 W) -/

def tbSrc : Comp ℚ := { name := "S", kind := .source, par := .const 0, vo := 10, rs := 1 }
def tbRes : Comp ℚ := { name := "R", kind := .rloss, par := .const 0, rs := 1 }
def tbL1 : Comp ℚ := { name := "L1", kind := .iload, par := .const 0, ii := 1 }
def tbL2 : Comp ℚ := { name := "L2", kind := .iload, par := .const 0, ii := 2 }
def tbN0 : SNode ℚ := { comp := tbSrc, parents := [], childs := [1, 3], pconf := .names [] }
def tbN1 : SNode ℚ := { comp := tbRes, parents := [0], childs := [2] }
def tbN2 : SNode ℚ := { comp := tbL1, parents := [1], childs := [] }
def tbN3 : SNode ℚ := { comp := tbL2, parents := [0], childs := [] }
def tbSys : SSys ℚ := { nodes := #[some tbN0, some tbN1, some tbN2, some tbN3], topo := [0, 1, 2, 3] }
def tbV : Vec ℚ := #[7, 6, 0, 0]
def tbI : Vec ℚ := #[3, 1, 1, 2]
def tbSt : St := #[[false], [false], [false], [false]]

theorem tbNodes (n : Nat) (nd : SNode ℚ) (h : tbSys.node? n = some nd) :
    (n = 0 ∧ nd = tbN0) ∨ (n = 1 ∧ nd = tbN1) ∨ (n = 2 ∧ nd = tbN2) ∨ (n = 3 ∧ nd = tbN3) := by
  rcases n with _ | _ | _ | _ | n
  · have h2 : tbSys.node? 0 = some tbN0 := rfl
    rw [h2] at h; exact Or.inl ⟨rfl, (Option.some.inj h).symm⟩
  · have h2 : tbSys.node? 1 = some tbN1 := rfl
    rw [h2] at h; exact Or.inr (Or.inl ⟨rfl, (Option.some.inj h).symm⟩)
  · have h2 : tbSys.node? 2 = some tbN2 := rfl
    rw [h2] at h; exact Or.inr (Or.inr (Or.inl ⟨rfl, (Option.some.inj h).symm⟩))
  · have h2 : tbSys.node? 3 = some tbN3 := rfl
    rw [h2] at h; exact Or.inr (Or.inr (Or.inr ⟨rfl, (Option.some.inj h).symm⟩))
  · have h2 : tbSys.node? (n + 4) = none := by
      simp [SSys.node?, tbSys]
    rw [h2] at h; cases h

theorem tbWF : TreeWF tbSys where
  nodup := by decide
  live := by
    intro n
    rcases n with _ | _ | _ | _ | n
    · decide
    · decide
    · decide
    · decide
    · have h2 : tbSys.node? (n + 4) = none := by simp [SSys.node?, tbSys]
      rw [h2]; simp [tbSys]
  bound := by decide
  order := by
    intro p c pd h hc
    rcases tbNodes p pd h with ⟨rfl, rfl⟩ | ⟨rfl, rfl⟩ | ⟨rfl, rfl⟩ | ⟨rfl, rfl⟩ <;>
      simp [tbN0, tbN1, tbN2, tbN3] at hc <;> (try rcases hc with rfl | rfl) <;> decide
  parLive := by
    intro n nd h p hp
    rcases tbNodes n nd h with ⟨rfl, rfl⟩ | ⟨rfl, rfl⟩ | ⟨rfl, rfl⟩ | ⟨rfl, rfl⟩ <;>
      simp [tbN0, tbN1, tbN2, tbN3] at hp <;> subst hp <;> rfl
  chLive := by
    intro n nd h c hc
    rcases tbNodes n nd h with ⟨rfl, rfl⟩ | ⟨rfl, rfl⟩ | ⟨rfl, rfl⟩ | ⟨rfl, rfl⟩ <;>
      simp [tbN0, tbN1, tbN2, tbN3] at hc <;> (try rcases hc with rfl | rfl) <;> rfl
  link := by
    intro p c pd cd hp hc
    rcases tbNodes p pd hp with ⟨rfl, rfl⟩ | ⟨rfl, rfl⟩ | ⟨rfl, rfl⟩ | ⟨rfl, rfl⟩ <;>
      rcases tbNodes c cd hc with ⟨rfl, rfl⟩ | ⟨rfl, rfl⟩ | ⟨rfl, rfl⟩ | ⟨rfl, rfl⟩ <;>
      simp [tbN0, tbN1, tbN2, tbN3]
  chNodup := by
    intro n nd h
    rcases tbNodes n nd h with ⟨rfl, rfl⟩ | ⟨rfl, rfl⟩ | ⟨rfl, rfl⟩ | ⟨rfl, rfl⟩ <;>
      simp [tbN0, tbN1, tbN2, tbN3]
  parNodup := by
    intro n nd h
    rcases tbNodes n nd h with ⟨rfl, rfl⟩ | ⟨rfl, rfl⟩ | ⟨rfl, rfl⟩ | ⟨rfl, rfl⟩ <;>
      simp [tbN0, tbN1, tbN2, tbN3]
  rootSrc := by
    intro n nd h
    rcases tbNodes n nd h with ⟨rfl, rfl⟩ | ⟨rfl, rfl⟩ | ⟨rfl, rfl⟩ | ⟨rfl, rfl⟩ <;>
      simp [tbN0, tbN1, tbN2, tbN3, tbSrc, tbRes, tbL1, tbL2]
  muxOnly := by
    intro n nd h hl
    rcases tbNodes n nd h with ⟨rfl, rfl⟩ | ⟨rfl, rfl⟩ | ⟨rfl, rfl⟩ | ⟨rfl, rfl⟩ <;>
      simp [tbN0, tbN1, tbN2, tbN3] at hl
  loadLeaf := by
    intro n nd h hl
    rcases tbNodes n nd h with ⟨rfl, rfl⟩ | ⟨rfl, rfl⟩ | ⟨rfl, rfl⟩ | ⟨rfl, rfl⟩ <;>
      simp [tbN0, tbN1, tbN2, tbN3, tbSrc, tbRes, tbL1, tbL2, Kind.ctype] at hl ⊢

theorem tbNoMux : NoMux tbSys := by
  intro n nd h
  rcases tbNodes n nd h with ⟨rfl, rfl⟩ | ⟨rfl, rfl⟩ | ⟨rfl, rfl⟩ | ⟨rfl, rfl⟩ <;>
    simp [tbN0, tbN1, tbN2, tbN3, tbSrc, tbRes, tbL1, tbL2]

theorem tbOK : CompsOK tbSys where
  phys := by
    intro n nd h
    rcases tbNodes n nd h with ⟨rfl, rfl⟩ | ⟨rfl, rfl⟩ | ⟨rfl, rfl⟩ | ⟨rfl, rfl⟩ <;>
      constructor <;>
      simp [tbN0, tbN1, tbN2, tbN3, tbSrc, tbRes, tbL1, tbL2, Comp.muxRs, Param.Nonneg, Param.interp]
  f01 := by
    intro n nd h hk
    rcases tbNodes n nd h with ⟨rfl, rfl⟩ | ⟨rfl, rfl⟩ | ⟨rfl, rfl⟩ | ⟨rfl, rfl⟩ <;>
      simp [tbN0, tbN1, tbN2, tbN3, tbSrc, tbRes, tbL1, tbL2] at hk ⊢
  conv := by
    intro n nd h hk
    rcases tbNodes n nd h with ⟨rfl, rfl⟩ | ⟨rfl, rfl⟩ | ⟨rfl, rfl⟩ | ⟨rfl, rfl⟩ <;>
      simp [tbN0, tbN1, tbN2, tbN3, tbSrc, tbRes, tbL1, tbL2] at hk

theorem tbSteady : Steady tbSys "" tbV tbI tbSt where
  fwd := ⟨tbSt, by decide +kernel⟩
  back := by decide +kernel
  flag := by
    intro n h
    rcases n with _ | _ | _ | _ | n
    · revert h; decide
    · revert h; decide
    · revert h; decide
    · revert h; decide
    · simp [sget, tbSt] at h

theorem tbPV : ∀ n nd, tbSys.node? n = some nd → PhaseValOK (nd.pconf.ctx "") := by
  intro n nd h
  rcases tbNodes n nd h with ⟨rfl, rfl⟩ | ⟨rfl, rfl⟩ | ⟨rfl, rfl⟩ | ⟨rfl, rfl⟩ <;>
    simp [PhaseValOK, PhaseConf.ctx, tbN0, tbN1, tbN2, tbN3]

theorem tbNonneg : ∀ m, 0 ≤ vget tbI m := by
  intro m
  rcases m with _ | _ | _ | _ | m
  · decide +kernel
  · decide +kernel
  · decide +kernel
  · decide +kernel
  · simp [vget, tbI]

/-- non-vacuity of `table_balance_partial`: every hypothesis holds for the example … -/
example :
    let rows := tbSys.compRows "" 25 tbV tbI tbSt
    ((rows.filter (·.typ == "SOURCE")).map rP).sum
      = ((rows.filter (·.typ == "LOAD")).map fun r => rP r + rL r).sum
        + ((rows.filter (·.typ != "LOAD")).map rL).sum :=
  table_balance_partial tbSys tbWF tbNoMux tbOK "" tbPV 25 tbV tbI tbSt tbSteady

/-- … and the three sums are 30 W = 20 W + 10 W -/
example :
    let rows := tbSys.compRows "" 25 tbV tbI tbSt
    ((rows.filter (·.typ == "SOURCE")).map rP).sum = 30 ∧
    ((rows.filter (·.typ == "LOAD")).map fun r => rP r + rL r).sum = 20 ∧
    ((rows.filter (·.typ != "LOAD")).map rL).sum = 10 := by
  decide +kernel

/-- non-vacuity of `row_power_identity` (the RLoss row: 7 W − 1 W = 6 V · 1 A) and of
    `row_power_identity_source_partial` (the Source row: 30 W − 9 W = 7 V · 3 A) -/
example :
    let r := (tbSys.compRow "" 25 tbV tbI tbSt 1 "").1
    ∃ P L Vi Vo Ii Io, r.pwr = some P ∧ r.loss = some L ∧ r.vin = some Vi ∧ r.vout = some Vo ∧
      r.iin = some Ii ∧ r.iout = some Io ∧ P - L = |Vo| * Io ∧ P = |Vi| * Ii :=
  row_power_identity tbSys "" 25 tbV tbI tbSt tbWF.bound tbSteady tbNonneg 1 0 tbN1 (by decide) rfl rfl
    (by simp [tbN1, tbRes]) (by simp [tbN1, tbRes]) (by simp [tbN1, tbRes, Kind.ctype])
    (tbOK.phys 1 tbN1 rfl) (by simp [tbN1, tbRes]) ""

example :
    let r := (tbSys.compRow "" 25 tbV tbI tbSt 0 "").1
    ∃ P L Vo Io, r.pwr = some P ∧ r.loss = some L ∧ r.vout = some Vo ∧ r.iout = some Io ∧
      P - L = |Vo| * Io :=
  row_power_identity_source_partial tbSys "" 25 tbV tbI tbSt tbWF.bound tbSteady tbNonneg 0 tbN0 (by decide)
    rfl rfl rfl (tbOK.phys 0 tbN0 rfl) (Or.inl (by simp [tbN0, tbSrc])) ""

example : (tbSys.compRow "" 25 tbV tbI tbSt 1 "").1.pwr = some 7 ∧
    (tbSys.compRow "" 25 tbV tbI tbSt 1 "").1.loss = some 1 ∧
    (tbSys.compRow "" 25 tbV tbI tbSt 0 "").1.pwr = some 30 ∧
    (tbSys.compRow "" 25 tbV tbI tbSt 0 "").1.loss = some 9 := by decide +kernel

/-! ### non-vacuity with a PMux: Source(10 V), Source(5 V) → PMux(rs 1 Ω) → ILoad(2 A)
    the mux selects the 10 V input: 8 V out, 2 A from the first source, 0 A from the second;
    20 W + 0 W = 16 W + (0 + 0 + 4 W) -/

def mxS1 : Comp ℚ := { name := "S1", kind := .source, par := .const 0, vo := 10 }
def mxS2 : Comp ℚ := { name := "S2", kind := .source, par := .const 0, vo := 5 }
def mxMx : Comp ℚ := { name := "M", kind := .pmux, par := .const 0, rs := 1 }
def mxLd : Comp ℚ := { name := "L", kind := .iload, par := .const 0, ii := 2 }
def mxN0 : SNode ℚ := { comp := mxS1, parents := [], childs := [2], pconf := .names [] }
def mxN1 : SNode ℚ := { comp := mxS2, parents := [], childs := [2], pconf := .names [] }
def mxN2 : SNode ℚ := { comp := mxMx, parents := [0, 1], childs := [3], pconf := .names [] }
def mxN3 : SNode ℚ := { comp := mxLd, parents := [2], childs := [] }
def mxSys : SSys ℚ := { nodes := #[some mxN0, some mxN1, some mxN2, some mxN3], topo := [1, 0, 2, 3] }
def mxV : Vec ℚ := #[10, 5, 8, 0]
def mxI : Vec ℚ := #[2, 0, 2, 2]
def mxSt : St := #[[false], [false], [false], [false]]

theorem mxNodes (n : Nat) (nd : SNode ℚ) (h : mxSys.node? n = some nd) :
    (n = 0 ∧ nd = mxN0) ∨ (n = 1 ∧ nd = mxN1) ∨ (n = 2 ∧ nd = mxN2) ∨ (n = 3 ∧ nd = mxN3) := by
  rcases n with _ | _ | _ | _ | n
  · have h2 : mxSys.node? 0 = some mxN0 := rfl
    rw [h2] at h; exact Or.inl ⟨rfl, (Option.some.inj h).symm⟩
  · have h2 : mxSys.node? 1 = some mxN1 := rfl
    rw [h2] at h; exact Or.inr (Or.inl ⟨rfl, (Option.some.inj h).symm⟩)
  · have h2 : mxSys.node? 2 = some mxN2 := rfl
    rw [h2] at h; exact Or.inr (Or.inr (Or.inl ⟨rfl, (Option.some.inj h).symm⟩))
  · have h2 : mxSys.node? 3 = some mxN3 := rfl
    rw [h2] at h; exact Or.inr (Or.inr (Or.inr ⟨rfl, (Option.some.inj h).symm⟩))
  · have h2 : mxSys.node? (n + 4) = none := by
      simp [SSys.node?, mxSys]
    rw [h2] at h; cases h

theorem mxWF : TreeWF mxSys where
  nodup := by decide
  live := by
    intro n
    rcases n with _ | _ | _ | _ | n
    · decide
    · decide
    · decide
    · decide
    · have h2 : mxSys.node? (n + 4) = none := by simp [SSys.node?, mxSys]
      rw [h2]; simp [mxSys]
  bound := by decide
  order := by
    intro p c pd h hc
    rcases mxNodes p pd h with ⟨rfl, rfl⟩ | ⟨rfl, rfl⟩ | ⟨rfl, rfl⟩ | ⟨rfl, rfl⟩ <;>
      simp [mxN0, mxN1, mxN2, mxN3] at hc <;> (try subst hc) <;> decide
  parLive := by
    intro n nd h p hp
    rcases mxNodes n nd h with ⟨rfl, rfl⟩ | ⟨rfl, rfl⟩ | ⟨rfl, rfl⟩ | ⟨rfl, rfl⟩ <;>
      simp [mxN0, mxN1, mxN2, mxN3] at hp <;> (try rcases hp with rfl | rfl) <;> rfl
  chLive := by
    intro n nd h c hc
    rcases mxNodes n nd h with ⟨rfl, rfl⟩ | ⟨rfl, rfl⟩ | ⟨rfl, rfl⟩ | ⟨rfl, rfl⟩ <;>
      simp [mxN0, mxN1, mxN2, mxN3] at hc <;> (try subst hc) <;> rfl
  link := by
    intro p c pd cd hp hc
    rcases mxNodes p pd hp with ⟨rfl, rfl⟩ | ⟨rfl, rfl⟩ | ⟨rfl, rfl⟩ | ⟨rfl, rfl⟩ <;>
      rcases mxNodes c cd hc with ⟨rfl, rfl⟩ | ⟨rfl, rfl⟩ | ⟨rfl, rfl⟩ | ⟨rfl, rfl⟩ <;>
      simp [mxN0, mxN1, mxN2, mxN3]
  chNodup := by
    intro n nd h
    rcases mxNodes n nd h with ⟨rfl, rfl⟩ | ⟨rfl, rfl⟩ | ⟨rfl, rfl⟩ | ⟨rfl, rfl⟩ <;>
      simp [mxN0, mxN1, mxN2, mxN3]
  parNodup := by
    intro n nd h
    rcases mxNodes n nd h with ⟨rfl, rfl⟩ | ⟨rfl, rfl⟩ | ⟨rfl, rfl⟩ | ⟨rfl, rfl⟩ <;>
      simp [mxN0, mxN1, mxN2, mxN3]
  rootSrc := by
    intro n nd h
    rcases mxNodes n nd h with ⟨rfl, rfl⟩ | ⟨rfl, rfl⟩ | ⟨rfl, rfl⟩ | ⟨rfl, rfl⟩ <;>
      simp [mxN0, mxN1, mxN2, mxN3, mxS1, mxS2, mxMx, mxLd]
  muxOnly := by
    intro n nd h hl
    rcases mxNodes n nd h with ⟨rfl, rfl⟩ | ⟨rfl, rfl⟩ | ⟨rfl, rfl⟩ | ⟨rfl, rfl⟩ <;>
      simp [mxN0, mxN1, mxN2, mxN3, mxMx] at hl ⊢
  loadLeaf := by
    intro n nd h hl
    rcases mxNodes n nd h with ⟨rfl, rfl⟩ | ⟨rfl, rfl⟩ | ⟨rfl, rfl⟩ | ⟨rfl, rfl⟩ <;>
      simp [mxN0, mxN1, mxN2, mxN3, mxS1, mxS2, mxMx, mxLd, Kind.ctype] at hl ⊢

theorem mxOK : CompsOK mxSys where
  phys := by
    intro n nd h
    rcases mxNodes n nd h with ⟨rfl, rfl⟩ | ⟨rfl, rfl⟩ | ⟨rfl, rfl⟩ | ⟨rfl, rfl⟩ <;>
      constructor <;>
      simp [mxN0, mxN1, mxN2, mxN3, mxS1, mxS2, mxMx, mxLd, Comp.muxRs, Param.Nonneg, Param.interp]
  f01 := by
    intro n nd h hk
    rcases mxNodes n nd h with ⟨rfl, rfl⟩ | ⟨rfl, rfl⟩ | ⟨rfl, rfl⟩ | ⟨rfl, rfl⟩ <;>
      simp [mxN0, mxN1, mxN2, mxN3, mxS1, mxS2, mxMx, mxLd] at hk ⊢
  conv := by
    intro n nd h hk
    rcases mxNodes n nd h with ⟨rfl, rfl⟩ | ⟨rfl, rfl⟩ | ⟨rfl, rfl⟩ | ⟨rfl, rfl⟩ <;>
      simp [mxN0, mxN1, mxN2, mxN3, mxS1, mxS2, mxMx, mxLd] at hk

theorem mxSteady : Steady mxSys "" mxV mxI mxSt where
  fwd := ⟨mxSt, by decide +kernel⟩
  back := by decide +kernel
  flag := by
    intro n h
    rcases n with _ | _ | _ | _ | n
    · revert h; decide
    · revert h; decide
    · revert h; decide
    · revert h; decide
    · simp [sget, mxSt] at h

theorem mxPV : ∀ n nd, mxSys.node? n = some nd → PhaseValOK (nd.pconf.ctx "") := by
  intro n nd h
  rcases mxNodes n nd h with ⟨rfl, rfl⟩ | ⟨rfl, rfl⟩ | ⟨rfl, rfl⟩ | ⟨rfl, rfl⟩ <;>
    simp [PhaseValOK, PhaseConf.ctx, mxN0, mxN1, mxN2, mxN3]

/-- non-vacuity of `table_balance_mux_partial` … -/
example :
    let rows := mxSys.compRows "" 25 mxV mxI mxSt
    ((rows.filter (·.typ == "SOURCE")).map rP).sum
      = ((rows.filter (·.typ == "LOAD")).map fun r => rP r + rL r).sum
        + ((rows.filter (·.typ != "LOAD")).map rL).sum :=
  table_balance_mux_partial mxSys mxWF mxOK "" mxPV 25 mxV mxI mxSt mxSteady

/-- … with the sums 20 W = 16 W + 4 W, and the mux row 20 W − 4 W = 8 V · 2 A fed from the 10 V input -/
example :
    let rows := mxSys.compRows "" 25 mxV mxI mxSt
    ((rows.filter (·.typ == "SOURCE")).map rP).sum = 20 ∧
    ((rows.filter (·.typ == "LOAD")).map fun r => rP r + rL r).sum = 16 ∧
    ((rows.filter (·.typ != "LOAD")).map rL).sum = 4 ∧
    (mxSys.compRow "" 25 mxV mxI mxSt 2 "").1.pwr = some 20 ∧
    (mxSys.compRow "" 25 mxV mxI mxSt 2 "").1.loss = some 4 ∧
    (mxSys.compRow "" 25 mxV mxI mxSt 2 "").1.vin = some 10 ∧
    feederM mxSys mxV mxSt 2 = some 0 := by
  decide +kernel

example :
    let r := (mxSys.compRow "" 25 mxV mxI mxSt 2 "").1
    ∃ P L Vi Vo Ii Io, r.pwr = some P ∧ r.loss = some L ∧ r.vin = some Vi ∧ r.vout = some Vo ∧
      r.iin = some Ii ∧ r.iout = some Io ∧ P - L = |Vo| * Io ∧ P = |Vi| * Ii :=
  row_power_identity_mux mxSys "" 25 mxV mxI mxSt mxWF.bound mxSteady
    (steady_currents_nonneg mxSys mxWF mxOK.phys "" mxPV mxV mxI mxSt mxSteady.back)
    2 mxN2 (by decide) rfl rfl (by simp [mxN2]) (mxOK.phys 2 mxN2 rfl) ""

/-! ### the two exclusions of `CompsOK` are needed: the statement without them fails for the code as it stands -/

/-- the balance claimed for every well-formed tree with accepted parameters (no exclusion) -/
def table_balance_full : Prop :=
  ∀ (s : SSys ℚ), TreeWF s → (∀ n nd, s.node? n = some nd → nd.comp.Phys) →
    ∀ (phase : String), (∀ n nd, s.node? n = some nd → PhaseValOK (nd.pconf.ctx phase)) →
    ∀ (ta : ℚ) (v i : Vec ℚ) (st : St), Steady s phase v i st →
      (((s.compRows phase ta v i st).filter (·.typ == "SOURCE")).map rP).sum
        = (((s.compRows phase ta v i st).filter (·.typ == "LOAD")).map fun r => rP r + rL r).sum
          + (((s.compRows phase ta v i st).filter (·.typ != "LOAD")).map rL).sum

/-- … and with finding F01 excluded but a 0 V Converter allowed -/
def table_balance_full_f01 : Prop :=
  ∀ (s : SSys ℚ), TreeWF s → (∀ n nd, s.node? n = some nd → nd.comp.Phys) →
    (∀ n nd, s.node? n = some nd → nd.comp.kind = .source → 0 ≤ nd.comp.vo ∨ nd.comp.rs = 0) →
    ∀ (phase : String), (∀ n nd, s.node? n = some nd → PhaseValOK (nd.pconf.ctx phase)) →
    ∀ (ta : ℚ) (v i : Vec ℚ) (st : St), Steady s phase v i st →
      (((s.compRows phase ta v i st).filter (·.typ == "SOURCE")).map rP).sum
        = (((s.compRows phase ta v i st).filter (·.typ == "LOAD")).map fun r => rP r + rL r).sum
          + (((s.compRows phase ta v i st).filter (·.typ != "LOAD")).map rL).sum

/-- F01 witness: Source(−12 V, 1 Ω) → ILoad(1 A); steady state −13 V, 1 A; 12 W ≠ 13 W + 1 W -/
def f1Src : Comp ℚ := { name := "S", kind := .source, par := .const 0, vo := -12, rs := 1 }
def f1Ld : Comp ℚ := { name := "L", kind := .iload, par := .const 0, ii := 1 }
def f1N0 : SNode ℚ := { comp := f1Src, parents := [], childs := [1], pconf := .names [] }
def f1N1 : SNode ℚ := { comp := f1Ld, parents := [0], childs := [] }
def f1Sys : SSys ℚ := { nodes := #[some f1N0, some f1N1], topo := [0, 1] }

theorem f1Nodes (n : Nat) (nd : SNode ℚ) (h : f1Sys.node? n = some nd) :
    (n = 0 ∧ nd = f1N0) ∨ (n = 1 ∧ nd = f1N1) := by
  rcases n with _ | _ | n
  · have h2 : f1Sys.node? 0 = some f1N0 := rfl
    rw [h2] at h; exact Or.inl ⟨rfl, (Option.some.inj h).symm⟩
  · have h2 : f1Sys.node? 1 = some f1N1 := rfl
    rw [h2] at h; exact Or.inr (⟨rfl, (Option.some.inj h).symm⟩)
  · have h2 : f1Sys.node? (n + 2) = none := by simp [SSys.node?, f1Sys]
    rw [h2] at h; cases h

theorem f1WF : TreeWF f1Sys where
  nodup := by decide
  live := by
    intro n
    rcases n with _ | _ | n
    · decide
    · decide
    · have h2 : f1Sys.node? (n + 2) = none := by simp [SSys.node?, f1Sys]
      rw [h2]; simp [f1Sys]
  bound := by decide
  order := by
    intro n c nd h hc
    rcases f1Nodes n nd h with ⟨rfl, rfl⟩ | ⟨rfl, rfl⟩ <;>
      simp [f1N0, f1N1, f1Src, f1Ld] at hc <;> (try subst hc) <;> decide
  parLive := by
    intro n nd h p hp
    rcases f1Nodes n nd h with ⟨rfl, rfl⟩ | ⟨rfl, rfl⟩ <;>
      simp [f1N0, f1N1, f1Src, f1Ld] at hp <;> (try subst hp) <;> rfl
  chLive := by
    intro n nd h c hc
    rcases f1Nodes n nd h with ⟨rfl, rfl⟩ | ⟨rfl, rfl⟩ <;>
      simp [f1N0, f1N1, f1Src, f1Ld] at hc <;> (try subst hc) <;> rfl
  link := by
    intro p c pd cd hp hc
    rcases f1Nodes p pd hp with ⟨rfl, rfl⟩ | ⟨rfl, rfl⟩ <;>
      rcases f1Nodes c cd hc with ⟨rfl, rfl⟩ | ⟨rfl, rfl⟩ <;>
      simp [f1N0, f1N1, f1Src, f1Ld]
  chNodup := by
    intro n nd h
    rcases f1Nodes n nd h with ⟨rfl, rfl⟩ | ⟨rfl, rfl⟩ <;>
      simp [f1N0, f1N1, f1Src, f1Ld]
  parNodup := by
    intro n nd h
    rcases f1Nodes n nd h with ⟨rfl, rfl⟩ | ⟨rfl, rfl⟩ <;>
      simp [f1N0, f1N1, f1Src, f1Ld]
  rootSrc := by
    intro n nd h
    rcases f1Nodes n nd h with ⟨rfl, rfl⟩ | ⟨rfl, rfl⟩ <;>
      simp [f1N0, f1N1, f1Src, f1Ld]
  muxOnly := by
    intro n nd h hl
    rcases f1Nodes n nd h with ⟨rfl, rfl⟩ | ⟨rfl, rfl⟩ <;>
      simp [f1N0, f1N1, f1Src, f1Ld] at hl ⊢
  loadLeaf := by
    intro n nd h hl
    rcases f1Nodes n nd h with ⟨rfl, rfl⟩ | ⟨rfl, rfl⟩ <;>
      simp [f1N0, f1N1, f1Src, f1Ld, Kind.ctype] at hl ⊢

theorem f1Phys : ∀ n nd, f1Sys.node? n = some nd → nd.comp.Phys := by
  intro n nd h
  rcases f1Nodes n nd h with ⟨rfl, rfl⟩ | ⟨rfl, rfl⟩ <;>
    constructor <;>
    simp [f1N0, f1N1, f1Src, f1Ld, Comp.muxRs, Param.Nonneg, Param.interp]

theorem f1PV : ∀ n nd, f1Sys.node? n = some nd → PhaseValOK (nd.pconf.ctx "") := by
  intro n nd h
  rcases f1Nodes n nd h with ⟨rfl, rfl⟩ | ⟨rfl, rfl⟩ <;>
    simp [PhaseValOK, PhaseConf.ctx, f1N0, f1N1, f1Src, f1Ld]

theorem f1Steady : Steady f1Sys "" #[-13, 0] #[1, 1] #[[false], [false]] where
  fwd := ⟨#[[false], [false]], by decide +kernel⟩
  back := by decide +kernel
  flag := by
    intro n h
    rcases n with _ | _ | n
    · revert h; decide
    · revert h; decide
    · simp [sget] at h

theorem table_balance_full_fails : ¬ table_balance_full := by
  intro h
  have := h f1Sys f1WF f1Phys "" f1PV 25 #[-13, 0] #[1, 1] #[[false], [false]] f1Steady
  revert this
  decide +kernel

/-- 0 V Converter witness: Source(5 V) → Converter(vo = 0, iq = 0.1 A); steady state 5 V / 0 V, 0 A;
    the source delivers 0 W, the converter row books 0.5 W of Loss -/
def c0Src : Comp ℚ := { name := "S", kind := .source, par := .const 0, vo := 5 }
def c0Cv : Comp ℚ := { name := "C", kind := .converter, par := .const (9/10), vo := 0, iq := 1/10 }
def c0N0 : SNode ℚ := { comp := c0Src, parents := [], childs := [1], pconf := .names [] }
def c0N1 : SNode ℚ := { comp := c0Cv, parents := [0], childs := [], pconf := .names [] }
def c0Sys : SSys ℚ := { nodes := #[some c0N0, some c0N1], topo := [0, 1] }

theorem c0Nodes (n : Nat) (nd : SNode ℚ) (h : c0Sys.node? n = some nd) :
    (n = 0 ∧ nd = c0N0) ∨ (n = 1 ∧ nd = c0N1) := by
  rcases n with _ | _ | n
  · have h2 : c0Sys.node? 0 = some c0N0 := rfl
    rw [h2] at h; exact Or.inl ⟨rfl, (Option.some.inj h).symm⟩
  · have h2 : c0Sys.node? 1 = some c0N1 := rfl
    rw [h2] at h; exact Or.inr (⟨rfl, (Option.some.inj h).symm⟩)
  · have h2 : c0Sys.node? (n + 2) = none := by simp [SSys.node?, c0Sys]
    rw [h2] at h; cases h

theorem c0WF : TreeWF c0Sys where
  nodup := by decide
  live := by
    intro n
    rcases n with _ | _ | n
    · decide
    · decide
    · have h2 : c0Sys.node? (n + 2) = none := by simp [SSys.node?, c0Sys]
      rw [h2]; simp [c0Sys]
  bound := by decide
  order := by
    intro n c nd h hc
    rcases c0Nodes n nd h with ⟨rfl, rfl⟩ | ⟨rfl, rfl⟩ <;>
      simp [c0N0, c0N1, c0Src, c0Cv] at hc <;> (try subst hc) <;> decide
  parLive := by
    intro n nd h p hp
    rcases c0Nodes n nd h with ⟨rfl, rfl⟩ | ⟨rfl, rfl⟩ <;>
      simp [c0N0, c0N1, c0Src, c0Cv] at hp <;> (try subst hp) <;> rfl
  chLive := by
    intro n nd h c hc
    rcases c0Nodes n nd h with ⟨rfl, rfl⟩ | ⟨rfl, rfl⟩ <;>
      simp [c0N0, c0N1, c0Src, c0Cv] at hc <;> (try subst hc) <;> rfl
  link := by
    intro p c pd cd hp hc
    rcases c0Nodes p pd hp with ⟨rfl, rfl⟩ | ⟨rfl, rfl⟩ <;>
      rcases c0Nodes c cd hc with ⟨rfl, rfl⟩ | ⟨rfl, rfl⟩ <;>
      simp [c0N0, c0N1, c0Src, c0Cv]
  chNodup := by
    intro n nd h
    rcases c0Nodes n nd h with ⟨rfl, rfl⟩ | ⟨rfl, rfl⟩ <;>
      simp [c0N0, c0N1, c0Src, c0Cv]
  parNodup := by
    intro n nd h
    rcases c0Nodes n nd h with ⟨rfl, rfl⟩ | ⟨rfl, rfl⟩ <;>
      simp [c0N0, c0N1, c0Src, c0Cv]
  rootSrc := by
    intro n nd h
    rcases c0Nodes n nd h with ⟨rfl, rfl⟩ | ⟨rfl, rfl⟩ <;>
      simp [c0N0, c0N1, c0Src, c0Cv]
  muxOnly := by
    intro n nd h hl
    rcases c0Nodes n nd h with ⟨rfl, rfl⟩ | ⟨rfl, rfl⟩ <;>
      simp [c0N0, c0N1, c0Src, c0Cv] at hl ⊢
  loadLeaf := by
    intro n nd h hl
    rcases c0Nodes n nd h with ⟨rfl, rfl⟩ | ⟨rfl, rfl⟩ <;>
      simp [c0N0, c0N1, c0Src, c0Cv, Kind.ctype] at hl ⊢

theorem c0Phys : ∀ n nd, c0Sys.node? n = some nd → nd.comp.Phys := by
  intro n nd h
  rcases c0Nodes n nd h with ⟨rfl, rfl⟩ | ⟨rfl, rfl⟩ <;>
    constructor <;>
    simp [c0N0, c0N1, c0Src, c0Cv, Comp.muxRs, Param.Nonneg, Param.interp] <;> norm_num

theorem c0PV : ∀ n nd, c0Sys.node? n = some nd → PhaseValOK (nd.pconf.ctx "") := by
  intro n nd h
  rcases c0Nodes n nd h with ⟨rfl, rfl⟩ | ⟨rfl, rfl⟩ <;>
    simp [PhaseValOK, PhaseConf.ctx, c0N0, c0N1, c0Src, c0Cv]

theorem c0Steady : Steady c0Sys "" #[5, 0] #[0, 0] #[[false], [false]] where
  fwd := ⟨#[[false], [false]], by decide +kernel⟩
  back := by decide +kernel
  flag := by
    intro n h
    rcases n with _ | _ | n
    · revert h; decide
    · revert h; decide
    · simp [sget] at h

theorem table_balance_full_f01_fails : ¬ table_balance_full_f01 := by
  intro h
  have := h c0Sys c0WF c0Phys (by
    intro n nd hn hk
    rcases c0Nodes n nd hn with ⟨rfl, rfl⟩ | ⟨rfl, rfl⟩ <;> simp [c0N0, c0N1, c0Src, c0Cv] at hk ⊢)
    "" c0PV 25 #[5, 0] #[0, 0] #[[false], [false]] c0Steady
  revert this
  decide +kernel

end C02
end SysLoss
