/-
  Props/C08System — property C08 on WHOLE SYSTEMS: the rail report of the table the model itself assembles.

  `Props/C08` describes `railRep` applied to an arbitrary `Table`.  This file is about the table the model builds
  (`SSys.assemble` = the rows of `SSys.compRows` / `SSys.compRow` per phase; `SSys.solve` returns such a table:
  `solve_is_assemble`) for a well-formed tree, and states the links C08 leaves open: "Rail in" of a row is the rail of
  its SUPPLIER, the voltage of a rail row is the Vout of the rail's OWNER, a PMux counts towards its SELECTED input.

  Hypotheses (all existing predicates, all discharged for every reachable `System` by `Props/C14Solver`):
    `C02.TreeWF s` (solver view well formed), `C07.NamesDistinct s` (unique component names; together they give
    `C16R.TableWF s`), `C16R.RailsUnique s` (a non-empty rail name has one owner), and — only for (4) —
    `C02.Steady s ph v i st` (EXACT steady state of the sweeps) in every phase.

  Definitions
    `railOf s p`        the rail name registered for node `p` (`""` if none)
    `railVia s p`       what the table shows as "Rail in" of a row supplied by `p`: `railOf s p`, except that the
                        Python (and the model) skip the lookup when the NAME of `p` is `""` (`if pn != ""`)
    `supplier s v st n` the supplier the row of `n` reports: none for a root, the only parent of a single-supply
                        node, for a PMux the input selected by C05's `priInpAux` (= first live input, `C02.feederM`);
                        a PMux WITHOUT live input reports its first declared input (`_get_parent_name`).
    `phaseRails T pt`   the rail rows of one phase of `railRep` (`railRep T = T.phases.flatMap (phaseRails T)`)

  Theorems
   1. `row_supplier_spec`, `row_railIn_spec`  every row `compRow` builds: Parent / Rail in / Vin are name / rail /
      output voltage of `supplier`; spelled out per case (root: `""`; one parent `p`: `railVia s p`; PMux: the input
      `priInpAux` selects, and Vin = the Vout cell of that supplier's row).  `supplier_eq_some_iff` characterises
      `supplier n = some o` as "n is a child of o and (o is its only parent ∨ PMux with o selected ∨ dead PMux with o
      first)".
   2. `rail_volt_is_owner_vout`   every row `r` of `railRep (s.assemble ta outs)`: exactly one live node `o` owns
      `r.rail`, and `r.volt` is the Vout cell of `o`'s row in the same phase.
   3. `rail_members_are_children` the member rows of `r` are exactly the rows of the nodes `n` with
      `supplier n = some o`, in table order.
   4. `rail_curr_is_owner_iout`   FULL (no proviso on unselected PMux children: by `C05.mux_current_attribution`
      they contribute 0 to `o`, and a dead PMux draws 0 A): in exact steady states `r.curr` is the Iout cell of the
      owner's row.  No `Phys` / F01 / F35 exclusion is needed.
   5. `rails_partition`           for ANY table (rail uniqueness is not needed): the rail rows of a phase have distinct
      rail names, every component row with `railIn ≠ ""` is a member of exactly one of them, and Σ curr / pwr / loss
      over the rail rows of the phase = Σ Iin / Power / Loss over the component rows with `railIn ≠ ""`.
      `rails_partition_system` instantiates it for `s.assemble`.
   6. `no_rails_same_table`       no node has a rail ⇒ every row has `railIn = ""` and `railOut = ""` (the Python then has
      no "Rail in" column and returns the solve() table) and `railRep` is empty.
   `rail_row_core`     all facts about one rail row at once (phase, owner, uniqueness, members, volt, the sums).
   `owner_iout`, `share_supplier`, `dead_mux_curr`  the steady-state lemmas behind (4): the Iout cell of ANY live
                       row is Σ Iin over the nodes it supplies; child `c` counts towards `o` iff `supplier c = o`.
   `solve_is_assemble`, `solve_rail_report` : (2)+(3)+ the sums for the table `s.solve` itself returns, i.e. for
                       `rail_rep()`; (5), (6) apply to it as they stand.  (4) needs EXACT steady states, which a
                       tolerance-converged `solve` does not provide — NOT covered for `solve`, only for `assemble` of
                       exact steady states.
   `reachable_rail_report` : `solve_rail_report` for every system reached by an edit history (C14), no structural
                       hypothesis left (`ValidTopo` of the order parameter is assumed, as everywhere).

  Nothing is `_partial`.  What the statements make explicit about the code (model = Python, both checked):
   * a PMux WITHOUT live input still names its first declared input as Parent / Rail in, so it is a member of that
     rail (with 0 A in a steady state): a rail whose only consumer is a dead PMux IS listed (so does the Python:
     two 0 V sources with rails A, B and a PMux on [S1, S2] give a report row `A  0 V  0 A`).
   * a supplier whose component NAME is `""` gives Rail in `""` whatever its rail (`railVia`).
  Not covered: the warning text (already `C08.rail_row_spec`: union of the members' warnings, for any table); the
  efficiency cell; tolerance-converged states for (4).

  Non-vacuity (`Ex`): sources S1 (10 V), S2 (5 V); converter C (rail "3V3") on S1 feeding two loads and PMux M on
  [C, S2], M selecting C and feeding a load.  All hypotheses hold, and the report is kernel-evaluated.
-/
import SysLoss.Props.C14Solver

set_option linter.unusedSectionVars false
set_option linter.unusedVariables false
set_option linter.unusedSimpArgs false
set_option linter.unnecessarySeqFocus false
set_option linter.unusedTactic false

namespace SysLoss
namespace C08S
variable {α : Type} [Field α] [LinearOrder α] [IsStrictOrderedRing α]

/-! ### 0. list facts -/

theorem sum_indicator (L : List String) (hL : L.Nodup) (x : String) (a : α) :
    (L.map fun r => if (x == r) = true then a else 0).sum = if x ∈ L then a else 0 :=
  C07.sum_ite_mem L hL x a

/-- sums over two duplicate-free lists agree when the summand vanishes outside the smaller one -/
theorem sum_eq_of_subset (l1 l2 : List Nat) (h1 : l1.Nodup) (h2 : l2.Nodup) (hsub : ∀ x ∈ l1, x ∈ l2)
    (f : Nat → α) (hz : ∀ x ∈ l2, x ∉ l1 → f x = 0) : (l1.map f).sum = (l2.map f).sum := by
  rw [← List.sum_toFinset f h1, ← List.sum_toFinset f h2]
  apply Finset.sum_subset
  · intro x hx; exact List.mem_toFinset.mpr (hsub x (List.mem_toFinset.mp hx))
  · intro x hx hnx
    exact hz x (List.mem_toFinset.mp hx) (fun h => hnx (List.mem_toFinset.mpr h))

/-! ### 5. the rail rows of a phase partition the supplied component rows (any table) -/

/-- the rail rows of one phase, in the order of `railRep` -/
def phaseRails (T : Table α) (pt : String × PhaseTable α) : List (RailRow α) :=
  (C16R.railsOf T).filterMap (C16R.railRowOf pt.1 pt.2.comps)

theorem railRep_eq_flatMap (T : Table α) : railRep T = T.phases.flatMap (phaseRails T) := rfl

theorem railRowOf_some {ph : String} {comps : List (Row α)} {x : String} {rr : RailRow α}
    (h : C16R.railRowOf ph comps x = some rr) :
    rr.phase = ph ∧ rr.rail = x ∧ comps.filter (·.railIn == x) ≠ [] ∧
      rr.curr = optSum ((comps.filter (·.railIn == x)).map (·.iin)) ∧
      rr.pwr = optSum ((comps.filter (·.railIn == x)).map (·.pwr)) ∧
      rr.loss = optSum ((comps.filter (·.railIn == x)).map (·.loss)) ∧
      rr.volt = (((comps.filter (·.railIn == x)).head?).bind (·.vin)).getD 0 := by
  unfold C16R.railRowOf at h
  by_cases hemp : (comps.filter (·.railIn == x)).isEmpty = true
  · simp [hemp] at h
  · simp only [hemp, Bool.false_eq_true, if_false, Option.some.injEq] at h
    subst h
    refine ⟨rfl, rfl, ?_, rfl, rfl, rfl, rfl⟩
    intro e; apply hemp; simp [e]

theorem railRowOf_none {ph : String} {comps : List (Row α)} {x : String}
    (h : C16R.railRowOf ph comps x = none) : comps.filter (·.railIn == x) = [] := by
  unfold C16R.railRowOf at h
  by_cases hemp : (comps.filter (·.railIn == x)).isEmpty = true
  · exact List.isEmpty_iff.mp hemp
  · simp [hemp] at h

/-- one cell summed over the rail rows of a phase = the members' cells summed rail by rail -/
theorem filterMap_cell_sum (ph : String) (comps : List (Row α)) (proj : RailRow α → α) (cell : Row α → Option α)
    (hproj : ∀ x rr, C16R.railRowOf ph comps x = some rr →
      proj rr = optSum ((comps.filter (·.railIn == x)).map cell)) (L : List String) :
    ((L.filterMap (C16R.railRowOf ph comps)).map proj).sum
      = (L.map fun x => ((comps.filter (·.railIn == x)).map fun r => (cell r).getD 0).sum).sum := by
  induction L with
  | nil => simp
  | cons x L ih =>
    cases hx : C16R.railRowOf ph comps x with
    | none =>
      simp only [List.filterMap_cons, hx, List.map_cons, List.sum_cons, ih, railRowOf_none hx, List.map_nil,
        List.sum_nil, zero_add]
    | some rr =>
      simp only [List.filterMap_cons, hx, List.map_cons, List.sum_cons, ih, hproj x rr hx, C07.optSum_map]

/-- rail by rail = all rows with a named "Rail in" -/
theorem partition_sum (comps : List (Row α)) (L : List String) (hL : L.Nodup) (hne : ∀ x ∈ L, x ≠ "")
    (hcov : ∀ row ∈ comps, row.railIn ≠ "" → row.railIn ∈ L) (g : Row α → α) :
    (L.map fun x => ((comps.filter (·.railIn == x)).map g).sum).sum
      = ((comps.filter (·.railIn != "")).map g).sum := by
  induction comps with
  | nil => simp
  | cons row rest ih =>
    have ih' := ih (fun r hr => hcov r (by simp [hr]))
    have hsplit : ∀ x : String, ((List.filter (·.railIn == x) (row :: rest)).map g).sum
        = (if (row.railIn == x) = true then g row else 0) + ((rest.filter (·.railIn == x)).map g).sum := by
      intro x
      by_cases hx : (row.railIn == x) = true
      · simp [List.filter_cons, hx]
      · simp [List.filter_cons, hx]
    simp only [hsplit]
    rw [List.sum_map_add, ih', sum_indicator L hL]
    by_cases hr : row.railIn = ""
    · have hnot : row.railIn ∉ L := fun hm => hne _ hm hr
      rw [if_neg hnot]
      simp [List.filter_cons, hr]
    · have hin : row.railIn ∈ L := hcov row (by simp) hr
      rw [if_pos hin]
      simp [List.filter_cons, hr]

/-- **(5) The rail rows of a phase partition the supplied rows** — any table.  The rail rows of phase `pt` carry
    distinct rail names; every component row of the phase with a named "Rail in" is a member of exactly one of them;
    hence current / power / loss summed over the rail rows of the phase are Iin / Power / Loss summed over the
    component rows with `railIn ≠ ""`. -/
theorem rails_partition (T : Table α) (pt : String × PhaseTable α) (hpt : pt ∈ T.phases) :
    ((phaseRails T pt).map (·.rail)).Nodup ∧
    (∀ x ∈ phaseRails T pt, x ∈ railRep T ∧ x.phase = pt.1) ∧
    (∀ row ∈ pt.2.comps, row.railIn ≠ "" →
      ∃ x ∈ phaseRails T pt, x.rail = row.railIn ∧ row ∈ C08.members pt.2 x.rail ∧
        ∀ y ∈ phaseRails T pt, row ∈ C08.members pt.2 y.rail → y = x) ∧
    ((phaseRails T pt).map (·.curr)).sum = optSum ((pt.2.comps.filter (·.railIn != "")).map (·.iin)) ∧
    ((phaseRails T pt).map (·.pwr)).sum = optSum ((pt.2.comps.filter (·.railIn != "")).map (·.pwr)) ∧
    ((phaseRails T pt).map (·.loss)).sum = optSum ((pt.2.comps.filter (·.railIn != "")).map (·.loss)) := by
  have hL := C16R.railsOf_nodup T
  have hne : ∀ x ∈ C16R.railsOf T, x ≠ "" := fun x hx => ((C16R.mem_railsOf T x).mp hx).1
  have hcov : ∀ row ∈ pt.2.comps, row.railIn ≠ "" → row.railIn ∈ C16R.railsOf T := fun row hrow hr =>
    (C16R.mem_railsOf T _).mpr ⟨hr, pt, hpt, row, hrow, rfl⟩
  have hrail : ∀ x ∈ phaseRails T pt, ∃ a ∈ C16R.railsOf T, C16R.railRowOf pt.1 pt.2.comps a = some x := by
    intro x hx; exact List.mem_filterMap.mp hx
  -- the rail names of the rows are a sublist of the (duplicate-free) rail list
  have hnames : ((phaseRails T pt).map (·.rail)).Sublist (C16R.railsOf T) := by
    unfold phaseRails
    generalize C16R.railsOf T = L
    induction L with
    | nil => simp
    | cons a L ih =>
      cases ha : C16R.railRowOf pt.1 pt.2.comps a with
      | none => simp only [List.filterMap_cons, ha]; exact ih.trans (List.sublist_cons_self a L)
      | some rr =>
        simp only [List.filterMap_cons, ha, List.map_cons, (railRowOf_some ha).2.1]
        exact ih.cons_cons a
  have hnd : ((phaseRails T pt).map (·.rail)).Nodup := hL.sublist hnames
  refine ⟨hnd, ?_, ?_, ?_, ?_, ?_⟩
  · intro x hx
    obtain ⟨a, _, hxa⟩ := hrail x hx
    refine ⟨?_, (railRowOf_some hxa).1⟩
    rw [railRep_eq_flatMap]; exact List.mem_flatMap.mpr ⟨pt, hpt, hx⟩
  · intro row hrow hr
    have hin := hcov row hrow hr
    have hmem : row ∈ pt.2.comps.filter (·.railIn == row.railIn) := by simp [List.mem_filter, hrow]
    cases hx : C16R.railRowOf pt.1 pt.2.comps row.railIn with
    | none => rw [railRowOf_none hx] at hmem; cases hmem
    | some x =>
      have hxin : x ∈ phaseRails T pt := List.mem_filterMap.mpr ⟨row.railIn, hin, hx⟩
      have hxr := (railRowOf_some hx).2.1
      refine ⟨x, hxin, hxr, ?_, ?_⟩
      · unfold C08.members; rw [hxr]; exact hmem
      · intro y hy hmy
        have hyr : y.rail = row.railIn := by
          unfold C08.members at hmy
          have := (List.mem_filter.mp hmy).2
          have h2 : row.railIn = y.rail := by simpa using this
          exact h2.symm
        exact List.inj_on_of_nodup_map hnd hy hxin (hyr.trans hxr.symm)
  · unfold phaseRails
    rw [filterMap_cell_sum pt.1 pt.2.comps (·.curr) (·.iin) (fun x rr h => (railRowOf_some h).2.2.2.1),
      partition_sum pt.2.comps _ hL hne hcov, C07.optSum_map]
  · unfold phaseRails
    rw [filterMap_cell_sum pt.1 pt.2.comps (·.pwr) (·.pwr) (fun x rr h => (railRowOf_some h).2.2.2.2.1),
      partition_sum pt.2.comps _ hL hne hcov, C07.optSum_map]
  · unfold phaseRails
    rw [filterMap_cell_sum pt.1 pt.2.comps (·.loss) (·.loss) (fun x rr h => (railRowOf_some h).2.2.2.2.2.1),
      partition_sum pt.2.comps _ hL hne hcov, C07.optSum_map]

/-! ### 1. the supplier of a row: Parent, Rail in, Vin -/

/-- the rail name registered for node `p` (`""` if none) -/
def railOf (s : SSys α) (p : Nat) : String :=
  match s.node? p with
  | some pd => pd.rail
  | none => ""

/-- what a row supplied by `p` shows as "Rail in": the rail of `p`; the lookup is skipped when the NAME of `p` is
    empty (`if pn != "": rail_in += [rails[pn]] else: rail_in += [""]`) -/
def railVia (s : SSys α) (p : Nat) : String := if s.nameOf p = "" then "" else railOf s p

/-- the supplier the row of `n` reports: the input C05's selection function picks for a PMux (`C02.feederM`), the
    only parent of any other fed node; a PMux without live input reports its first declared input; none for a root -/
def supplier (s : SSys α) (v : Vec α) (st : St) (n : Nat) : Option Nat :=
  match s.node? n with
  | none => none
  | some nd =>
    match C02.feederM s v st n with
    | some p => some p
    | none => nd.parents.head?

variable {s : SSys α} {v i : Vec α} {st : St}

theorem supplier_root {n : Nat} {nd : SNode α} (hnode : s.node? n = some nd) (hpar : nd.parents = []) :
    supplier s v st n = none := by
  unfold supplier C02.feederM
  simp only [hnode, hpar]
  by_cases hk : nd.comp.kind = .pmux <;> simp [hk, priInpAux]

theorem supplier_mux_sel {n : Nat} {nd : SNode α} (hnode : s.node? n = some nd) (hk : nd.comp.kind = .pmux) {k : Nat}
    (hsel : priInpAux (nd.parents.map (sget st)) (nd.parents.map (vget v)) 0 = some k) :
    supplier s v st n = some (nd.parents.getD k 0) := by
  unfold supplier
  simp only [hnode, C02.feederM_mux s v st n nd hnode hk, hsel, Option.map_some]

theorem supplier_mux_dead {n : Nat} {nd : SNode α} (hnode : s.node? n = some nd) (hk : nd.comp.kind = .pmux)
    (hsel : priInpAux (nd.parents.map (sget st)) (nd.parents.map (vget v)) 0 = none) :
    supplier s v st n = nd.parents.head? := by
  unfold supplier
  simp only [hnode, C02.feederM_mux s v st n nd hnode hk, hsel, Option.map_none]

theorem supplier_nonmux {n : Nat} {nd : SNode α} (hnode : s.node? n = some nd) (hk : nd.comp.kind ≠ .pmux) :
    supplier s v st n = nd.parents.head? := by
  unfold supplier
  simp only [hnode, C02.feederM_nonmux s v st n nd hnode hk]
  cases nd.parents.head? <;> rfl

theorem supplier_single {n p : Nat} {nd : SNode α} (hnode : s.node? n = some nd) (hpar : nd.parents = [p]) :
    supplier s v st n = some p := by
  by_cases hk : nd.comp.kind = .pmux
  · cases hsel : priInpAux (nd.parents.map (sget st)) (nd.parents.map (vget v)) 0 with
    | none => rw [supplier_mux_dead hnode hk hsel, hpar]; rfl
    | some k =>
      obtain ⟨h1, _, _, _⟩ := C02.pri_some_spec _ _ k hsel
      rw [List.length_map, hpar] at h1
      have hk0 : k = 0 := by simpa using h1
      rw [supplier_mux_sel hnode hk hsel, hk0, hpar]; rfl
  · rw [supplier_nonmux hnode hk, hpar]; rfl

/-- the supplier is one of the declared parents -/
theorem supplier_mem {n p : Nat} {nd : SNode α} (hnode : s.node? n = some nd) (h : supplier s v st n = some p) :
    p ∈ nd.parents := by
  unfold supplier at h
  simp only [hnode] at h
  cases hf : C02.feederM s v st n with
  | some q =>
    rw [hf] at h; simp only [Option.some.injEq] at h; subst h
    exact C02.feederM_mem s v st n q nd hnode hf
  | none => rw [hf] at h; exact List.mem_of_mem_head? h

/-- the parent whose name and voltage `compRow` reports (`C16R.selOf`) is `supplier` -/
theorem selOf_eq_supplier (hwf : C02.TreeWF s) {n : Nat} {nd : SNode α} (hnode : s.node? n = some nd) :
    C16R.selOf nd n v st = supplier s v st n := by
  by_cases hk : nd.comp.kind = .pmux
  · have hne := C02.mux_parents_ne s hwf n nd hnode hk
    have hroot : nd.parents.isEmpty = false := by
      cases hpp : nd.parents with
      | nil => exact absurd hpp hne
      | cons _ _ => rfl
    unfold C16R.selOf Comp.priInp
    simp only [hroot, hk, Bool.false_eq_true, if_false]
    cases hsel : priInpAux (nd.parents.map (sget st)) (nd.parents.map (vget v)) 0 with
    | none => simp only [supplier_mux_dead hnode hk hsel]
    | some k =>
      simp only [supplier_mux_sel hnode hk hsel]
      by_cases hl : nd.parents.length > 1
      · simp only [hl, if_true]
      · simp only [hl, if_false]
        obtain ⟨h1, _, _, _⟩ := C02.pri_some_spec _ _ k hsel
        rw [List.length_map] at h1
        cases hpp : nd.parents with
        | nil => exact absurd hpp hne
        | cons p rest =>
          rw [hpp] at hl h1
          cases rest with
          | nil =>
            have hk0 : k = 0 := by simpa using h1
            subst hk0; rfl
          | cons q rest' => simp at hl
  · rw [supplier_nonmux hnode hk]
    rcases C02.parents_cases' s hwf n nd hnode hk with h0 | ⟨p, h1⟩
    · unfold C16R.selOf; simp [h0]
    · unfold C16R.selOf
      simp [h1, C04.priInp_of_ne_mux nd.comp hk]

/-- **(1) Parent, Rail in and Vin of every row are those of `supplier`.**  For the row `compRow` builds for a live
    node `n` (any inherited domain `d`): Name / Rail out / Vout / Iin are the node's own; a node without supplier
    (a root) shows Parent `""` and Rail in `""`; a node supplied by `p` shows the name of `p` as Parent, the rail
    registered for `p` as Rail in, and as Vin the output voltage of `p` — which is the Vout cell of `p`'s own row. -/
theorem row_supplier_spec (hwf : C02.TreeWF s) (hnm : C07.NamesDistinct s) (phase : String) (ta : α)
    {n : Nat} {nd : SNode α} (hnode : s.node? n = some nd) (d : String) :
    let r := (s.compRow phase ta v i st n d).1
    r.name = nd.comp.name ∧ r.railOut = nd.rail ∧ r.phase = phase ∧
    r.vout = some (vget v n) ∧ r.iin = some (vget i n) ∧
    (supplier s v st n = none → r.parent = "" ∧ r.railIn = "") ∧
    (∀ p, supplier s v st n = some p →
      r.parent = s.nameOf p ∧ r.railIn = railVia s p ∧ r.vin = some (vget v p) ∧
      ∀ d', r.vin = (s.compRow phase ta v i st p d').1.vout) := by
  intro r
  have hr : r = (s.compRow phase ta v i st n d).1 := rfl
  rw [C16R.compRow_eq s phase ta v i st hnode] at hr
  simp only [C16R.mkRow] at hr
  have hw := C07.tableWF_of s hwf hnm
  refine ⟨by rw [hr], by rw [hr], by rw [hr], by rw [hr], by rw [hr], ?_, ?_⟩
  · intro hnone
    have hpar : nd.parents = [] := by
      cases hpp : nd.parents with
      | nil => rfl
      | cons p rest =>
        exfalso
        obtain ⟨q, _, hq, _⟩ := C16R.sel_pn (s := s) (v := v) (st := st) hnode (by rw [hpp]; simp)
        rw [selOf_eq_supplier hwf hnode, hnone] at hq; cases hq
    rw [hr]
    unfold C16R.pnOf C16R.railInOf
    simp [hpar]
  · intro p hp
    have hpin := supplier_mem hnode hp
    have hne : nd.parents ≠ [] := by intro e; rw [e] at hpin; cases hpin
    obtain ⟨q, _, hq, hpn⟩ := C16R.sel_pn (s := s) (v := v) (st := st) hnode hne
    rw [selOf_eq_supplier hwf hnode, hp] at hq
    have hqp : p = q := Option.some.inj hq
    subst hqp
    obtain ⟨pd, hpd⟩ := Option.isSome_iff_exists.mp (hwf.parLive n nd hnode p hpin)
    have hname : s.nameOf p = pd.comp.name := by simp only [SSys.nameOf, hpd]
    have hvin : r.vin = some (vget v p) := by
      rw [hr]
      show some (C16R.viOf nd n v i st) = _
      unfold C16R.viOf
      rw [selOf_eq_supplier hwf hnode, hp]
    refine ⟨by rw [hr]; exact hpn, ?_, hvin, ?_⟩
    · rw [hr]
      show C16R.railInOf s (C16R.pnOf s nd n v st) = _
      rw [hpn, hname]
      unfold C16R.railInOf railVia railOf
      by_cases he : pd.comp.name = ""
      · simp [he, hname]
      · have he' : (pd.comp.name != "") = true := by simpa using he
        simp only [he', if_true, C16R.find?_name hw hpd, hname, he, if_false, hpd]
    · intro d'
      rw [hvin, C16R.compRow_eq s phase ta v i st hpd]
      rfl

/-- **(1) "Rail in" of every row, case by case.**  Root: `""`.  One parent `p`: the rail registered for `p`
    (`railVia`).  PMux: the rail of the input C05's selection function `priInpAux` picks (the first live input), whose
    name is the row's Parent and whose Vout cell is the row's Vin; a PMux without live input reports its first input. -/
theorem row_railIn_spec (hwf : C02.TreeWF s) (hnm : C07.NamesDistinct s) (phase : String) (ta : α)
    {n : Nat} {nd : SNode α} (hnode : s.node? n = some nd) (d : String) :
    let r := (s.compRow phase ta v i st n d).1
    (nd.parents = [] → r.railIn = "" ∧ r.parent = "") ∧
    (∀ p, nd.parents = [p] →
      r.parent = s.nameOf p ∧ r.railIn = railVia s p ∧ r.vin = some (vget v p) ∧
      ∀ d', r.vin = (s.compRow phase ta v i st p d').1.vout) ∧
    (nd.comp.kind = .pmux → ∀ k, priInpAux (nd.parents.map (sget st)) (nd.parents.map (vget v)) 0 = some k →
      r.parent = s.nameOf (nd.parents.getD k 0) ∧ r.railIn = railVia s (nd.parents.getD k 0) ∧
      r.vin = some (vget v (nd.parents.getD k 0)) ∧
      ∀ d', r.vin = (s.compRow phase ta v i st (nd.parents.getD k 0) d').1.vout) ∧
    (nd.comp.kind = .pmux → priInpAux (nd.parents.map (sget st)) (nd.parents.map (vget v)) 0 = none →
      ∀ p, nd.parents.head? = some p →
        r.parent = s.nameOf p ∧ r.railIn = railVia s p ∧ r.vin = some (vget v p)) := by
  intro r
  obtain ⟨_, _, _, _, _, h0, h1⟩ := row_supplier_spec (v := v) (i := i) (st := st) hwf hnm phase ta hnode d
  refine ⟨?_, ?_, ?_, ?_⟩
  · intro hpar
    obtain ⟨a, b⟩ := h0 (supplier_root hnode hpar)
    exact ⟨b, a⟩
  · intro p hpar
    exact h1 p (supplier_single hnode hpar)
  · intro hk k hsel
    exact h1 _ (supplier_mux_sel hnode hk hsel)
  · intro hk hsel p hp
    obtain ⟨a, b, c, _⟩ := h1 p (by rw [supplier_mux_dead hnode hk hsel, hp])
    exact ⟨a, b, c⟩

/-- **who is supplied by `o`**: the children of `o` that have `o` as their only parent, plus a PMux child iff the
    input it selects is `o` (a PMux without any live input is listed under its first declared input) -/
theorem supplier_eq_some_iff (hwf : C02.TreeWF s) {n o : Nat} {od : SNode α} (hod : s.node? o = some od) :
    supplier s v st n = some o ↔
      ∃ nd, s.node? n = some nd ∧ n ∈ od.childs ∧
        (nd.parents = [o] ∨
         (nd.comp.kind = .pmux ∧
            ∃ k, priInpAux (nd.parents.map (sget st)) (nd.parents.map (vget v)) 0 = some k ∧ nd.parents.getD k 0 = o) ∨
         (nd.comp.kind = .pmux ∧ priInpAux (nd.parents.map (sget st)) (nd.parents.map (vget v)) 0 = none ∧
            nd.parents.head? = some o)) := by
  constructor
  · intro h
    cases hnode : s.node? n with
    | none => unfold supplier at h; simp [hnode] at h
    | some nd =>
      have hin := supplier_mem hnode h
      refine ⟨nd, rfl, (hwf.link o n od nd hod hnode).mpr hin, ?_⟩
      by_cases hk : nd.comp.kind = .pmux
      · cases hsel : priInpAux (nd.parents.map (sget st)) (nd.parents.map (vget v)) 0 with
        | none =>
          rw [supplier_mux_dead hnode hk hsel] at h
          exact Or.inr (Or.inr ⟨hk, rfl, h⟩)
        | some k =>
          rw [supplier_mux_sel hnode hk hsel] at h
          exact Or.inr (Or.inl ⟨hk, k, rfl, Option.some.inj h⟩)
      · rcases C02.parents_cases' s hwf n nd hnode hk with h0 | ⟨p, h1⟩
        · rw [h0] at hin; cases hin
        · rw [supplier_single hnode h1] at h
          rw [h1, Option.some.inj h]; exact Or.inl rfl
  · rintro ⟨nd, hnode, _, h | ⟨hk, k, hsel, hko⟩ | ⟨hk, hsel, hh⟩⟩
    · exact supplier_single hnode h
    · rw [supplier_mux_sel hnode hk hsel, hko]
    · rw [supplier_mux_dead hnode hk hsel, hh]

/-! ### the rows of one phase of the assembled table -/

/-- the component rows of a phase are the rows `compRow` builds for the nodes in `_topo_nodes` order (each with the
    domain the loop hands it) -/
theorem comps_eq (hwf : C02.TreeWF s) (hnm : C07.NamesDistinct s) (ph : String) (ta : α) (v i : Vec α) (st : St) :
    ∃ dom : Nat → String,
      s.compRows ph ta v i st = s.topo.map fun n => (s.compRow ph ta v i st n (dom n)).1 := by
  have htopo : ∀ n, n ∈ s.topo ↔ ∃ nd, s.node? n = some nd := fun n => by
    rw [hwf.live n, Option.isSome_iff_exists]
  obtain ⟨D, hD, _⟩ := C16R.compRows_spec htopo (C07.tableWF_of s hwf hnm) ph ta v i st
  exact ⟨fun n => C16R.startD s D n, hD⟩

/-- the nodes whose rows name `o` as their supplier, in table order -/
def suppliedBy (s : SSys α) (v : Vec α) (st : St) (o : Nat) : List Nat :=
  s.topo.filter fun n => decide (supplier s v st n = some o)

/-- a row is fed from the named rail `x` iff its supplier is a (named) node owning `x` -/
theorem railIn_eq_iff (hwf : C02.TreeWF s) (hnm : C07.NamesDistinct s) (phase : String) (ta : α)
    {n : Nat} {nd : SNode α} (hnode : s.node? n = some nd) (d : String) {x : String} (hx : x ≠ "") :
    (s.compRow phase ta v i st n d).1.railIn = x ↔
      ∃ o od, s.node? o = some od ∧ od.rail = x ∧ s.nameOf o ≠ "" ∧ supplier s v st n = some o := by
  obtain ⟨_, _, _, _, _, h0, h1⟩ := row_supplier_spec (v := v) (i := i) (st := st) hwf hnm phase ta hnode d
  constructor
  · intro h
    cases hs : supplier s v st n with
    | none => rw [(h0 hs).2] at h; exact absurd h.symm hx
    | some p =>
      obtain ⟨_, hrail, _, _⟩ := h1 p hs
      rw [hrail] at h
      obtain ⟨pd, hpd⟩ := Option.isSome_iff_exists.mp (hwf.parLive n nd hnode p (supplier_mem hnode hs))
      unfold railVia at h
      by_cases he : s.nameOf p = ""
      · rw [if_pos he] at h; exact absurd h.symm hx
      · rw [if_neg he] at h
        refine ⟨p, pd, hpd, ?_, he, rfl⟩
        unfold railOf at h; rw [hpd] at h; exact h
  · rintro ⟨o, od, hod, hrail, hname, hs⟩
    obtain ⟨_, hr, _, _⟩ := h1 o hs
    rw [hr]; unfold railVia railOf
    rw [if_neg hname, hod]; exact hrail

theorem phases_assemble (s : SSys α) (ta : α) (outs : List (String × Vec α × Vec α × St))
    (pt : String × PhaseTable α) :
    pt ∈ (s.assemble ta outs).phases ↔
      ∃ ph v i st, (ph, v, i, st) ∈ outs ∧ pt = (ph, s.phaseTable ph ta v i st) := by
  unfold SSys.assemble
  simp only [List.mem_map]
  constructor
  · rintro ⟨⟨ph, v, i, st⟩, h, rfl⟩; exact ⟨ph, v, i, st, h, rfl⟩
  · rintro ⟨ph, v, i, st, h, rfl⟩; exact ⟨(ph, v, i, st), h, rfl⟩

theorem phaseTable_comps (s : SSys α) (ph : String) (ta : α) (v i : Vec α) (st : St) :
    (s.phaseTable ph ta v i st).comps = s.compRows ph ta v i st := rfl

/-- **the rail rows of the assembled table, all facts at once**: the phase, the unique owner `o` of the rail, the
    member rows (= the rows of the nodes supplied by `o`), voltage (= output voltage of `o`), and the three sums. -/
theorem rail_row_core (hwf : C02.TreeWF s) (hnm : C07.NamesDistinct s) (hru : C16R.RailsUnique s) (ta : α)
    (outs : List (String × Vec α × Vec α × St)) (r : RailRow α) (hr : r ∈ railRep (s.assemble ta outs)) :
    ∃ ph v i st, (ph, v, i, st) ∈ outs ∧ r.phase = ph ∧ r.rail ≠ "" ∧
      ∃ o od, s.node? o = some od ∧ od.rail = r.rail ∧ s.nameOf o ≠ "" ∧
        (∀ o' od', s.node? o' = some od' → od'.rail = r.rail → o' = o) ∧
        ∃ dom : Nat → String,
          s.compRows ph ta v i st = s.topo.map (fun n => (s.compRow ph ta v i st n (dom n)).1) ∧
          C08.members (s.phaseTable ph ta v i st) r.rail
            = (suppliedBy s v st o).map (fun n => (s.compRow ph ta v i st n (dom n)).1) ∧
          suppliedBy s v st o ≠ [] ∧
          r.volt = vget v o ∧
          r.curr = ((suppliedBy s v st o).map (vget i)).sum ∧
          r.curr = optSum ((C08.members (s.phaseTable ph ta v i st) r.rail).map (·.iin)) ∧
          r.pwr = optSum ((C08.members (s.phaseTable ph ta v i st) r.rail).map (·.pwr)) ∧
          r.loss = optSum ((C08.members (s.phaseTable ph ta v i st) r.rail).map (·.loss)) := by
  obtain ⟨pt, hpt, hphase, hne, hmem, hcurr, hpwr, hloss, hvolt, _⟩ := C08.rail_row_spec _ r hr
  obtain ⟨ph, v, i, st, hout, rfl⟩ := (phases_assemble s ta outs pt).mp hpt
  simp only at hphase hmem hcurr hpwr hloss hvolt
  refine ⟨ph, v, i, st, hout, hphase, hne, ?_⟩
  obtain ⟨dom, hdom⟩ := comps_eq hwf hnm ph ta v i st
  have hlive : ∀ n ∈ s.topo, ∃ nd, s.node? n = some nd := fun n hn => C02.node_of_mem s hwf n hn
  have hmembers : C08.members (s.phaseTable ph ta v i st) r.rail
      = (s.topo.filter fun n => (s.compRow ph ta v i st n (dom n)).1.railIn == r.rail).map
          (fun n => (s.compRow ph ta v i st n (dom n)).1) := by
    unfold C08.members
    rw [phaseTable_comps, hdom, List.filter_map]
    rfl
  -- a first member gives the owner
  obtain ⟨row0, hrow0⟩ := List.exists_mem_of_ne_nil _ hmem
  rw [hmembers] at hrow0
  obtain ⟨n0, hn0, _⟩ := List.mem_map.mp hrow0
  obtain ⟨hn0t, hn0r⟩ := List.mem_filter.mp hn0
  obtain ⟨nd0, hnd0⟩ := hlive n0 hn0t
  obtain ⟨o, od, hod, horail, honame, hs0⟩ :=
    (railIn_eq_iff (v := v) (i := i) (st := st) hwf hnm ph ta hnd0 (dom n0) hne).mp (by simpa using hn0r)
  have huniq : ∀ o' od', s.node? o' = some od' → od'.rail = r.rail → o' = o := fun o' od' ho' hr' =>
    hru o' o od' od ho' hod (hr'.trans horail.symm) (by rw [hr']; exact hne)
  have hfilter : (s.topo.filter fun n => (s.compRow ph ta v i st n (dom n)).1.railIn == r.rail)
      = suppliedBy s v st o := by
    unfold suppliedBy
    apply List.filter_congr
    intro n hn
    obtain ⟨nd, hnd⟩ := hlive n hn
    have hiff := railIn_eq_iff (v := v) (i := i) (st := st) hwf hnm ph ta hnd (dom n) hne
    by_cases hsn : supplier s v st n = some o
    · have : (s.compRow ph ta v i st n (dom n)).1.railIn = r.rail := hiff.mpr ⟨o, od, hod, horail, honame, hsn⟩
      simp [this, hsn]
    · have : ¬ (s.compRow ph ta v i st n (dom n)).1.railIn = r.rail := by
        intro h
        obtain ⟨o', od', ho', hr', _, hs'⟩ := hiff.mp h
        rw [huniq o' od' ho' hr'] at hs'
        exact hsn hs'
      simp [this, hsn]
  rw [hfilter] at hmembers
  have hsne : suppliedBy s v st o ≠ [] := by
    intro e; rw [hmembers, e] at hmem; exact hmem rfl
  have hcells : ∀ n ∈ suppliedBy s v st o,
      (s.compRow ph ta v i st n (dom n)).1.vin = some (vget v o) ∧
      (s.compRow ph ta v i st n (dom n)).1.iin = some (vget i n) := by
    intro n hn
    obtain ⟨hnt, hns⟩ := List.mem_filter.mp hn
    obtain ⟨nd, hnd⟩ := hlive n hnt
    obtain ⟨_, _, _, _, hiin, _, h1⟩ := row_supplier_spec (v := v) (i := i) (st := st) hwf hnm ph ta hnd (dom n)
    exact ⟨(h1 o (by simpa using hns)).2.2.1, hiin⟩
  refine ⟨o, od, hod, horail, honame, huniq, dom, hdom, hmembers, hsne, ?_, ?_, hcurr, hpwr, hloss⟩
  · rw [hvolt, hmembers]
    cases hl : suppliedBy s v st o with
    | nil => exact absurd hl hsne
    | cons a l =>
      have := (hcells a (by rw [hl]; simp)).1
      simp [this]
  · rw [hcurr, hmembers, C07.optSum_map, List.map_map]
    congr 1
    apply List.map_congr_left
    intro n hn
    simp [(hcells n hn).2]

theorem mem_suppliedBy (hwf : C02.TreeWF s) {n o : Nat} :
    n ∈ suppliedBy s v st o ↔ supplier s v st n = some o := by
  unfold suppliedBy
  simp only [List.mem_filter, decide_eq_true_eq]
  constructor
  · exact fun h => h.2
  · intro h
    refine ⟨?_, h⟩
    cases hnode : s.node? n with
    | none => unfold supplier at h; simp [hnode] at h
    | some nd => exact C02.mem_of_node s hwf n nd hnode

/-- **(2) The voltage of a rail row is the output voltage of the rail's owner.**  For every row `r` of the rail report
    of the assembled table: `r` belongs to one of the solved phases; exactly one live node `o` carries the rail name
    `r.rail`; `r.volt` is the solved output voltage of `o`, i.e. the Vout cell of `o`'s row in that phase — the only row
    of the phase whose "Rail out" is `r.rail`. -/
theorem rail_volt_is_owner_vout (hwf : C02.TreeWF s) (hnm : C07.NamesDistinct s) (hru : C16R.RailsUnique s) (ta : α)
    (outs : List (String × Vec α × Vec α × St)) (r : RailRow α) (hr : r ∈ railRep (s.assemble ta outs)) :
    ∃ ph v i st, (ph, v, i, st) ∈ outs ∧ r.phase = ph ∧
      ∃ o od, s.node? o = some od ∧ od.rail = r.rail ∧
        (∀ o' od', s.node? o' = some od' → od'.rail = r.rail → o' = o) ∧
        r.volt = vget v o ∧
        ∃ orow ∈ (s.phaseTable ph ta v i st).comps,
          orow.name = od.comp.name ∧ orow.railOut = r.rail ∧ orow.vout = some r.volt ∧
          ∀ row ∈ (s.phaseTable ph ta v i st).comps, row.railOut = r.rail → row = orow := by
  obtain ⟨ph, v, i, st, hout, hphase, hne, o, od, hod, horail, _, huniq, dom, hdom, _, _, hvolt, _⟩ :=
    rail_row_core hwf hnm hru ta outs r hr
  refine ⟨ph, v, i, st, hout, hphase, o, od, hod, horail, huniq, hvolt, ?_⟩
  obtain ⟨c1, c2, _, c4, _⟩ := row_supplier_spec (v := v) (i := i) (st := st) hwf hnm ph ta hod (dom o)
  refine ⟨(s.compRow ph ta v i st o (dom o)).1, ?_, c1, c2.trans horail, by rw [c4, hvolt], ?_⟩
  · rw [phaseTable_comps, hdom]
    exact List.mem_map.mpr ⟨o, C02.mem_of_node s hwf o od hod, rfl⟩
  · intro row hrow hrr
    rw [phaseTable_comps, hdom] at hrow
    obtain ⟨m, hm, rfl⟩ := List.mem_map.mp hrow
    obtain ⟨md, hmd⟩ := C02.node_of_mem s hwf m hm
    obtain ⟨_, d2, _⟩ := row_supplier_spec (v := v) (i := i) (st := st) hwf hnm ph ta hmd (dom m)
    have : m = o := huniq m md hmd (d2.symm.trans hrr)
    rw [this]

/-- **(3) The members of a rail row are the rows of the nodes supplied by the owner.**  With `o` the owner of `r.rail`:
    the component rows of the phase are `R n` for `n` in `_topo_nodes` order (`R n` is the row `compRow` builds for
    `n`), and the member rows of `r` are exactly — in the same order — `R n` for the nodes with `supplier n = some o`:
    the children of `o` having `o` as only parent, plus a PMux child iff the input it selects is `o` (a PMux without
    live input: iff `o` is its first declared input). -/
theorem rail_members_are_children (hwf : C02.TreeWF s) (hnm : C07.NamesDistinct s) (hru : C16R.RailsUnique s)
    (ta : α) (outs : List (String × Vec α × Vec α × St)) (r : RailRow α)
    (hr : r ∈ railRep (s.assemble ta outs)) :
    ∃ ph v i st, (ph, v, i, st) ∈ outs ∧ r.phase = ph ∧
      ∃ o od, s.node? o = some od ∧ od.rail = r.rail ∧
        ∃ R : Nat → Row α, (∀ n, ∃ d, R n = (s.compRow ph ta v i st n d).1) ∧
          (s.phaseTable ph ta v i st).comps = s.topo.map R ∧
          C08.members (s.phaseTable ph ta v i st) r.rail = (suppliedBy s v st o).map R ∧
          ∀ n, n ∈ suppliedBy s v st o ↔
            ∃ nd, s.node? n = some nd ∧ n ∈ od.childs ∧
              (nd.parents = [o] ∨
               (nd.comp.kind = .pmux ∧ ∃ k,
                  priInpAux (nd.parents.map (sget st)) (nd.parents.map (vget v)) 0 = some k ∧
                  nd.parents.getD k 0 = o) ∨
               (nd.comp.kind = .pmux ∧
                  priInpAux (nd.parents.map (sget st)) (nd.parents.map (vget v)) 0 = none ∧
                  nd.parents.head? = some o)) := by
  obtain ⟨ph, v, i, st, hout, hphase, hne, o, od, hod, horail, _, huniq, dom, hdom, hmembers, _⟩ :=
    rail_row_core hwf hnm hru ta outs r hr
  refine ⟨ph, v, i, st, hout, hphase, o, od, hod, horail, fun n => (s.compRow ph ta v i st n (dom n)).1,
    fun n => ⟨dom n, rfl⟩, by rw [phaseTable_comps, hdom], hmembers, ?_⟩
  intro n
  rw [mem_suppliedBy hwf, supplier_eq_some_iff hwf hod]

/-! ### 4. the current of a rail is the output current of its owner (exact steady states) -/

/-- a PMux without live input draws no current -/
theorem dead_mux_curr (hwf : C02.TreeWF s) {phase : String} (hst : C02.Steady s phase v i st) {c : Nat} {cd : SNode α}
    (hcd : s.node? c = some cd) (hk : cd.comp.kind = .pmux)
    (hsel : priInpAux (cd.parents.map (sget st)) (cd.parents.map (vget v)) 0 = none) : vget i c = 0 := by
  obtain ⟨_, hbk⟩ := C02.steady_cell s phase v i st hwf.bound hst c (C02.mem_of_node s hwf c cd hcd)
  have hne : cd.parents.isEmpty = false := by
    cases hpp : cd.parents with
    | nil => exact absurd hpp (C02.mux_parents_ne s hwf c cd hcd hk)
    | cons _ _ => rfl
  unfold SSys.backAt SSys.lawArgs at hbk
  simp only [hcd, hne, Bool.false_eq_true, if_false] at hbk
  unfold Comp.solvInpCurr at hbk
  simp only [hk, hsel] at hbk
  exact hbk.symm

/-- current attribution in a steady state, in terms of `supplier` (cf. `C05.mux_current_attribution`,
    `C05.single_parent_share`): child `c` of `o` adds its input current to the output current of `o` iff `o` is the
    supplier its row names — an unselected PMux adds nothing, and neither does a PMux without live input -/
theorem share_supplier (hwf : C02.TreeWF s) {phase : String} (hst : C02.Steady s phase v i st) {o : Nat} {od : SNode α}
    (hod : s.node? o = some od) {c : Nat} (hc : c ∈ od.childs) :
    s.childShare o i v st c = if supplier s v st c = some o then vget i c else 0 := by
  obtain ⟨cd, hcd⟩ := Option.isSome_iff_exists.mp (hwf.chLive o od hod c hc)
  have hin : o ∈ cd.parents := (hwf.link o c od cd hod hcd).mp hc
  by_cases hk : cd.comp.kind = .pmux
  · cases hsel : priInpAux (cd.parents.map (sget st)) (cd.parents.map (vget v)) 0 with
    | none =>
      have hshare : s.childShare o i v st c = vget i c := by
        unfold SSys.childShare Comp.priInp
        simp only [hcd, hk, hsel]
      rw [hshare, dead_mux_curr hwf hst hcd hk hsel]; simp
    | some k =>
      rw [supplier_mux_sel hcd hk hsel]
      by_cases hlen : cd.parents.length > 1
      · rw [C05.mux_current_attribution s i v st c cd hcd hk hlen k hsel o]
        simp only [Option.some.injEq]
      · have hp : cd.parents = [o] := by
          cases hpp : cd.parents with
          | nil => rw [hpp] at hin; cases hin
          | cons a l =>
            cases l with
            | nil => rw [hpp] at hin; simp only [List.mem_singleton] at hin; rw [hin]
            | cons b l' => rw [hpp] at hlen; simp at hlen
        obtain ⟨h1, _, _, _⟩ := C02.pri_some_spec _ _ k hsel
        rw [List.length_map, hp] at h1
        have hk0 : k = 0 := by simpa using h1
        rw [C05.single_parent_share s i v st c cd hcd o hp o, hk0, hp]; simp
  · rcases C02.parents_cases' s hwf c cd hcd hk with h0 | ⟨p, h1⟩
    · rw [h0] at hin; cases hin
    · rw [h1] at hin; simp only [List.mem_singleton] at hin; subst hin
      rw [C05.single_parent_share s i v st c cd hcd o h1 o, supplier_single hcd h1]; simp

/-- a Source in a local steady state delivers what its children draw, unless it is dead (0 V, 0 A) -/
theorem source_curr_cases (c : Comp α) (hk : c.kind = .source) (vold io : α) (ph : PhaseCtx α) (off : List Bool)
    (vn x : α) (b' : Bool) (hfwd : c.solvOutpVolt [vold] io ph off = .ok (vn, b'))
    (hback : c.solvInpCurr [vold] io ph off = x) : x = io ∨ (x = 0 ∧ vn = 0) := by
  unfold Comp.solvOutpVolt at hfwd
  unfold Comp.solvInpCurr calcInpCurrent at hback
  simp only [hk] at hfwd hback
  cases hina : ph.inactive with
  | true =>
    simp only [hina, if_true, Except.ok.injEq, Prod.mk.injEq] at hfwd hback
    exact Or.inr ⟨hback.symm, hfwd.1.symm⟩
  | false =>
    simp only [hina, Bool.false_eq_true, if_false] at hfwd hback
    by_cases hd : (isZ c.vo || off0 off) = true
    · simp only [hd, if_true, Except.ok.injEq, Prod.mk.injEq] at hfwd hback
      exact Or.inr ⟨hback.symm, hfwd.1.symm⟩
    · simp only [hd, Bool.false_eq_true, if_false] at hfwd hback
      exact Or.inl hback.symm

/-- the Iout cell of the row of ANY live node `o` in an exact steady state is the sum of the input currents of the
    nodes whose rows name `o` as supplier (for a Source: also when it is dead) -/
theorem owner_iout (hwf : C02.TreeWF s) {phase : String} (hst : C02.Steady s phase v i st) (ta : α) {o : Nat}
    {od : SNode α} (hod : s.node? o = some od) (d : String) :
    (s.compRow phase ta v i st o d).1.iout
      = some ((od.childs.map fun c => if supplier s v st c = some o then vget i c else 0).sum) := by
  have hshares : C02.ioOf s od o v i st
      = (od.childs.map fun c => if supplier s v st c = some o then vget i c else 0).sum := by
    rw [C02.ioOf_eq_sum s od o hod]
    congr 1
    apply List.map_congr_left
    intro c hc
    exact share_supplier hwf hst hod hc
  by_cases hpar : od.parents = []
  · obtain ⟨_, _, _, _, c5, _⟩ := C02.compRow_root s phase ta v i st o od hod hpar d
    rw [c5]
    congr 1
    have hsrc := (hwf.rootSrc o od hod).mp hpar
    obtain ⟨⟨b, hf⟩, hbk⟩ := C02.steady_cell s phase v i st hwf.bound hst o (C02.mem_of_node s hwf o od hod)
    unfold SSys.fwdAt SSys.lawArgs at hf
    unfold SSys.backAt SSys.lawArgs at hbk
    simp only [hod, hpar, List.isEmpty_nil, if_true] at hf hbk
    rcases source_curr_cases od.comp hsrc _ _ _ _ _ _ _ hf hbk with h | ⟨hi0, hv0⟩
    · rw [h]; exact hshares
    · rw [hi0]
      symm
      apply List.sum_eq_zero
      intro x hx
      obtain ⟨c, hc, rfl⟩ := List.mem_map.mp hx
      by_cases hs : supplier s v st c = some o
      · rw [if_pos hs]
        obtain ⟨cd, hcd⟩ := Option.isSome_iff_exists.mp (hwf.chLive o od hod c hc)
        by_cases hkc : cd.comp.kind = .pmux
        · cases hsel : priInpAux (cd.parents.map (sget st)) (cd.parents.map (vget v)) 0 with
          | none => exact dead_mux_curr hwf hst hcd hkc hsel
          | some k =>
            exfalso
            rw [supplier_mux_sel hcd hkc hsel] at hs
            obtain ⟨h1, _, _, h4⟩ := C02.pri_some_spec _ _ k hsel
            rw [List.length_map] at h1
            rw [C02.getD_map_vget v cd.parents k h1, Option.some.inj hs] at h4
            exact h4 hv0
        · rcases C02.parents_cases' s hwf c cd hcd hkc with e0 | ⟨q, e1⟩
          · rw [supplier_root hcd e0] at hs; cases hs
          · rw [supplier_single hcd e1] at hs
            have hq : q = o := Option.some.inj hs
            subst hq
            obtain ⟨_, hbkc⟩ := C02.steady_cell s phase v i st hwf.bound hst c (C02.mem_of_node s hwf c cd hcd)
            rw [← hbkc, (C01.sweep_args_are_row s phase ta v i st c q cd hcd e1 "").2, hv0]
            have hns : cd.comp.kind ≠ .source := by
              intro e
              have := (hwf.rootSrc c cd hcd).mpr e
              rw [e1] at this; cases this
            exact C02.curr_dead cd.comp hns hkc _ _ _
      · rw [if_neg hs]
  · obtain ⟨VI, IO, _, _, _, c4, _, _, _, c8⟩ := C02.compRow_consistent s phase ta v i st o od hod d
    rw [c4, c8 hpar, hshares]

/-- the children's contributions, summed over `_topo_nodes` instead of over `_childs[o]` -/
theorem children_sum_eq (hwf : C02.TreeWF s) {o : Nat} {od : SNode α} (hod : s.node? o = some od) :
    (od.childs.map fun c => if supplier s v st c = some o then vget i c else 0).sum
      = ((suppliedBy s v st o).map (vget i)).sum := by
  unfold suppliedBy
  rw [C02.sum_filter_map]
  have := sum_eq_of_subset od.childs s.topo (hwf.chNodup o od hod) hwf.nodup
    (fun c hc => (hwf.live c).mpr (hwf.chLive o od hod c hc))
    (fun c => if supplier s v st c = some o then vget i c else 0)
    (by
      intro x _ hnx
      by_cases hs : supplier s v st x = some o
      · exact absurd ((supplier_eq_some_iff hwf hod).mp hs).choose_spec.2.1 hnx
      · rw [if_neg hs])
  rw [this]
  congr 1
  apply List.map_congr_left
  intro n _
  by_cases hs : supplier s v st n = some o <;> simp [hs]

/-- **(4) The current of a rail row is the output current of the rail's owner** — full strength, no proviso on the
    PMux children of the owner.  If every solved phase is an exact steady state of the sweeps, then for every row `r` of
    the rail report: `r.curr` is the Iout cell of the row of the owner `o` of `r.rail` in the same phase.  (A PMux child
    of `o` that selected another input is not a member of the rail and, by `C05.mux_current_attribution`, adds nothing
    to `o`'s output current; a PMux without live input is listed under its first input and draws 0 A.) -/
theorem rail_curr_is_owner_iout (hwf : C02.TreeWF s) (hnm : C07.NamesDistinct s) (hru : C16R.RailsUnique s) (ta : α)
    (outs : List (String × Vec α × Vec α × St))
    (hsteady : ∀ ph v i st, (ph, v, i, st) ∈ outs → C02.Steady s ph v i st)
    (r : RailRow α) (hr : r ∈ railRep (s.assemble ta outs)) :
    ∃ ph v i st, (ph, v, i, st) ∈ outs ∧ r.phase = ph ∧
      ∃ o od, s.node? o = some od ∧ od.rail = r.rail ∧
        ∃ orow ∈ (s.phaseTable ph ta v i st).comps,
          orow.name = od.comp.name ∧ orow.railOut = r.rail ∧ orow.vout = some r.volt ∧ orow.iout = some r.curr := by
  obtain ⟨ph, v, i, st, hout, hphase, hne, o, od, hod, horail, _, huniq, dom, hdom, _, _, hvolt, hcurr, _⟩ :=
    rail_row_core hwf hnm hru ta outs r hr
  refine ⟨ph, v, i, st, hout, hphase, o, od, hod, horail, ?_⟩
  obtain ⟨c1, c2, _, c4, _⟩ := row_supplier_spec (v := v) (i := i) (st := st) hwf hnm ph ta hod (dom o)
  refine ⟨(s.compRow ph ta v i st o (dom o)).1, ?_, c1, c2.trans horail, by rw [c4, hvolt], ?_⟩
  · rw [phaseTable_comps, hdom]
    exact List.mem_map.mpr ⟨o, C02.mem_of_node s hwf o od hod, rfl⟩
  · rw [owner_iout hwf (hsteady ph v i st hout) ta hod (dom o), children_sum_eq hwf hod, hcurr]

/-! ### 5'. the partition for the assembled table -/

/-- **(5) for the table the model assembles**: per solved phase, the rail rows carry distinct rail names, every
    component row with a named "Rail in" is a member of exactly one of them, and current / power / loss summed over
    the rail rows are Iin / Power / Loss summed over the component rows with `railIn ≠ ""`. -/
theorem rails_partition_system (s : SSys α) (ta : α) (outs : List (String × Vec α × Vec α × St))
    (ph : String) (v i : Vec α) (st : St) (hout : (ph, v, i, st) ∈ outs) :
    let T := s.assemble ta outs
    let pt := (ph, s.phaseTable ph ta v i st)
    ((phaseRails T pt).map (·.rail)).Nodup ∧
    (∀ x ∈ phaseRails T pt, x ∈ railRep T ∧ x.phase = ph) ∧
    (∀ row ∈ s.compRows ph ta v i st, row.railIn ≠ "" →
      ∃ x ∈ phaseRails T pt, x.rail = row.railIn ∧ row ∈ C08.members pt.2 x.rail ∧
        ∀ y ∈ phaseRails T pt, row ∈ C08.members pt.2 y.rail → y = x) ∧
    ((phaseRails T pt).map (·.curr)).sum
      = optSum (((s.compRows ph ta v i st).filter (·.railIn != "")).map (·.iin)) ∧
    ((phaseRails T pt).map (·.pwr)).sum
      = optSum (((s.compRows ph ta v i st).filter (·.railIn != "")).map (·.pwr)) ∧
    ((phaseRails T pt).map (·.loss)).sum
      = optSum (((s.compRows ph ta v i st).filter (·.railIn != "")).map (·.loss)) := by
  intro T pt
  exact rails_partition T pt ((phases_assemble s ta outs pt).mpr ⟨ph, v, i, st, hout, rfl⟩)

/-! ### 6. no rails defined -/

/-- without any registered rail every row `compRow` builds has empty "Rail in" and "Rail out" cells -/
theorem compRow_no_rails (s : SSys α) (hnr : ∀ n nd, s.node? n = some nd → nd.rail = "")
    (ph : String) (ta : α) (v i : Vec α) (st : St) (n : Nat) (d : String) :
    (s.compRow ph ta v i st n d).1.railIn = "" ∧ (s.compRow ph ta v i st n d).1.railOut = "" := by
  cases hnode : s.node? n with
  | none => unfold SSys.compRow; simp [hnode]
  | some nd =>
    rw [C16R.compRow_eq s ph ta v i st hnode]
    simp only [C16R.mkRow]
    refine ⟨?_, hnr n nd hnode⟩
    unfold C16R.railInOf
    split_ifs
    · cases hf : (s.nodes.toList.filterMap id).find? (fun x => x.comp.name == C16R.pnOf s nd n v st) with
      | none => rfl
      | some pd =>
        obtain ⟨m, hm⟩ := (C16R.mem_nodes_iff s pd).mp (List.mem_of_find?_eq_some hf)
        exact hnr m pd hm
    · rfl

/-- **(6) No rails defined ⇒ the rail report is the solve() table.**  If no node carries a rail name then every
    component row of the assembled table has `railIn = ""` and `railOut = ""` — the Python then builds neither a
    "Rail in" nor a "Rail out" column and `rail_rep()` returns the `solve()` table itself — and `railRep` lists no rail
    (composition with `C08.no_rails_empty`).  No well-formedness hypothesis is needed. -/
theorem no_rails_same_table (s : SSys α) (hnr : ∀ n nd, s.node? n = some nd → nd.rail = "") (ta : α)
    (outs : List (String × Vec α × Vec α × St)) :
    (∀ pt ∈ (s.assemble ta outs).phases, ∀ row ∈ pt.2.comps, row.railIn = "" ∧ row.railOut = "") ∧
      railRep (s.assemble ta outs) = [] := by
  have hrows : ∀ pt ∈ (s.assemble ta outs).phases, ∀ row ∈ pt.2.comps, row.railIn = "" ∧ row.railOut = "" := by
    intro pt hpt row hrow
    obtain ⟨ph, v, i, st, _, rfl⟩ := (phases_assemble s ta outs pt).mp hpt
    rw [phaseTable_comps] at hrow
    have hnum := C02.compRows_numeric (fun r : Row α => (r.railIn, r.railOut)) (fun _ _ => rfl) s ph ta v i st
    have hmem : (row.railIn, row.railOut) ∈ (s.compRows ph ta v i st).map fun r => (r.railIn, r.railOut) :=
      List.mem_map.mpr ⟨row, hrow, rfl⟩
    rw [hnum] at hmem
    obtain ⟨n, _, hn⟩ := List.mem_map.mp hmem
    obtain ⟨a, b⟩ := compRow_no_rails s hnr ph ta v i st n ""
    simp only [Prod.mk.injEq] at hn
    exact ⟨hn.1.symm.trans a, hn.2.symm.trans b⟩
  exact ⟨hrows, C08.no_rails_empty _ (fun pt hpt row hrow => (hrows pt hpt row hrow).1)⟩

/-! ### the table `solve()` returns -/

theorem mapM_ok_mem' {β γ : Type} {f : β → Except Err γ} : ∀ {l : List β} {vs : List γ}, l.mapM f = .ok vs →
    ∀ y ∈ vs, ∃ x ∈ l, f x = .ok y
  | [], vs, h => by
    rw [List.mapM_nil] at h
    have : (Except.ok [] : Except Err (List γ)) = .ok vs := h
    rw [← Except.ok.inj this]; simp
  | a :: l, vs, h => by
    rw [List.mapM_cons] at h
    cases ha : f a with
    | error e => rw [ha] at h; cases h
    | ok b =>
      cases hl : l.mapM f with
      | error e => rw [ha, hl] at h; cases h
      | ok bs =>
        rw [ha, hl] at h
        have hvs : vs = b :: bs := by
          have : (Except.ok (b :: bs) : Except Err (List γ)) = .ok vs := h
          exact (Except.ok.inj this).symm
        subst hvs
        intro y hy
        rcases List.mem_cons.mp hy with rfl | hy
        · exact ⟨a, by simp, ha⟩
        · obtain ⟨x, hx, e⟩ := mapM_ok_mem' hl y hy
          exact ⟨x, by simp [hx], e⟩

/-- a successful `solve` returns the table assembled from the per-phase solver outputs -/
theorem solve_is_assemble (s : SSys α) (cfg : Cfg α) (pa : String) (ta : α) (T : Table α)
    (hT : s.solve cfg pa ta = .ok T) :
    ∃ outs, T = s.assemble ta outs ∧
      ∀ ph v i st, (ph, v, i, st) ∈ outs →
        ∃ res, s.solvePhase cfg ph = .ok res ∧ v = res.v ∧ i = res.i ∧ st = res.st := by
  rw [C16R.solve_eq] at hT
  cases hpl : phaseList s.phases pa with
  | error e => rw [hpl] at hT; cases hT
  | ok pl =>
    rw [hpl] at hT
    simp only at hT
    cases hm : pl.mapM (C16R.phaseStep s cfg) with
    | error e => rw [hm] at hT; cases hT
    | ok outs =>
      rw [hm] at hT
      simp only [Except.ok.injEq] at hT
      refine ⟨outs, hT.symm, ?_⟩
      intro ph v i st hin
      obtain ⟨x, _, hx⟩ := mapM_ok_mem' hm _ hin
      unfold C16R.phaseStep at hx
      cases hs : s.solvePhase cfg x with
      | error e => rw [hs] at hx; cases hx
      | ok res =>
        rw [hs] at hx
        have hx' : (x, res.v, res.i, res.st) = (ph, v, i, st) := by
          have : (Except.ok (x, res.v, res.i, res.st) : Except Err _) = .ok (ph, v, i, st) := hx
          exact Except.ok.inj this
        simp only [Prod.mk.injEq] at hx'
        obtain ⟨e1, e2, e3, e4⟩ := hx'
        subst e1
        exact ⟨res, hs, e2.symm, e3.symm, e4.symm⟩

/-- **C08 for the table `solve()` returns** (hence for `rail_rep()`, which is `railRep` of that table): every rail row
    belongs to a solved phase, its rail has exactly one owner `o`, its voltage is the Vout cell of the owner's row, and
    its members — over which `C08.rail_row_spec` says current, power, loss are summed and warnings united — are exactly
    the rows of the nodes supplied by `o` (`supplier_eq_some_iff`: single-parent children of `o`, plus the PMux iff it
    selects `o`). -/
theorem solve_rail_report (hwf : C02.TreeWF s) (hnm : C07.NamesDistinct s) (hru : C16R.RailsUnique s)
    (cfg : Cfg α) (pa : String) (ta : α) (T : Table α) (hT : s.solve cfg pa ta = .ok T)
    (r : RailRow α) (hr : r ∈ railRep T) :
    ∃ res, s.solvePhase cfg r.phase = .ok res ∧
      ∃ o od, s.node? o = some od ∧ od.rail = r.rail ∧ r.rail ≠ "" ∧
        (∀ o' od', s.node? o' = some od' → od'.rail = r.rail → o' = o) ∧
        r.volt = vget res.v o ∧
        ∃ R : Nat → Row α, (∀ n, ∃ d, R n = (s.compRow r.phase ta res.v res.i res.st n d).1) ∧
          (∃ pt ∈ T.phases, pt.1 = r.phase ∧ pt.2.comps = s.topo.map R ∧
            C08.members pt.2 r.rail = (suppliedBy s res.v res.st o).map R) ∧
          (R o).vout = some r.volt ∧ (R o).railOut = r.rail ∧
          r.curr = optSum (((suppliedBy s res.v res.st o).map R).map (·.iin)) ∧
          r.pwr = optSum (((suppliedBy s res.v res.st o).map R).map (·.pwr)) ∧
          r.loss = optSum (((suppliedBy s res.v res.st o).map R).map (·.loss)) := by
  obtain ⟨outs, rfl, houts⟩ := solve_is_assemble s cfg pa ta T hT
  obtain ⟨ph, v, i, st, hout, hphase, hne, o, od, hod, horail, _, huniq, dom, hdom, hmembers, _, hvolt, _, hc, hp, hl⟩ :=
    rail_row_core hwf hnm hru ta outs r hr
  obtain ⟨res, hres, rfl, rfl, rfl⟩ := houts ph _ _ _ hout
  subst hphase
  obtain ⟨_, c2, _, c4, _⟩ := row_supplier_spec (v := res.v) (i := res.i) (st := res.st) hwf hnm r.phase ta hod (dom o)
  refine ⟨res, hres, o, od, hod, horail, hne, huniq, hvolt, fun n => (s.compRow r.phase ta res.v res.i res.st n (dom n)).1,
    fun n => ⟨dom n, rfl⟩, ⟨(r.phase, s.phaseTable r.phase ta res.v res.i res.st), ?_, rfl, ?_, hmembers⟩,
    by rw [c4, hvolt], c2.trans horail, ?_, ?_, ?_⟩
  · exact (phases_assemble s ta outs _).mpr ⟨_, _, _, _, hout, rfl⟩
  · rw [phaseTable_comps, hdom]
  · rw [hc, hmembers]
  · rw [hp, hmembers]
  · rw [hl, hmembers]

/-! ### every reachable system -/

section
variable {name : String} {src : Comp α} {g rl : String} {s0 : Sys (Comp α) α}

/-- **C14 → C08**: for the solver's view of ANY system reached by an edit history, with `topo` a valid processing
    order (rustworkx's, a parameter of the model), no structural hypothesis is left in `solve_rail_report`. -/
theorem reachable_rail_report (h0 : Sys.init name src g rl = some s0) (h : List (Op (Comp α) α)) {topo : List Nat}
    (ht : ValidTopo (s0.run h) topo) (cfg : Cfg α) (pa : String) (ta : α) (T : Table α)
    (hT : ((s0.run h).toSSys topo).solve cfg pa ta = .ok T) (r : RailRow α) (hr : r ∈ railRep T) :
    let s := (s0.run h).toSSys topo
    ∃ res, s.solvePhase cfg r.phase = .ok res ∧
      ∃ o od, s.node? o = some od ∧ od.rail = r.rail ∧ r.rail ≠ "" ∧
        (∀ o' od', s.node? o' = some od' → od'.rail = r.rail → o' = o) ∧
        r.volt = vget res.v o ∧
        ∃ R : Nat → Row α, (∀ n, ∃ d, R n = (s.compRow r.phase ta res.v res.i res.st n d).1) ∧
          (∃ pt ∈ T.phases, pt.1 = r.phase ∧ pt.2.comps = s.topo.map R ∧
            C08.members pt.2 r.rail = (suppliedBy s res.v res.st o).map R) ∧
          (R o).vout = some r.volt ∧ (R o).railOut = r.rail ∧
          r.curr = optSum (((suppliedBy s res.v res.st o).map R).map (·.iin)) ∧
          r.pwr = optSum (((suppliedBy s res.v res.st o).map R).map (·.pwr)) ∧
          r.loss = optSum (((suppliedBy s res.v res.st o).map R).map (·.loss)) := by
  intro s
  obtain ⟨a, _, b, _, _, _, c, _⟩ := C14S.reachable_structure h0 h ht
  exact solve_rail_report a b c cfg pa ta T hT r hr
end

/-! ### non-vacuity: S1 (10 V) → C (3.3 V, rail "3V3", η = 1/2) → { L1 (1 A), L2 (2 A), M };  S2 (5 V, rail "BAT") → M;
    M = PMux on [C, S2] selecting C, M → L3 (1 A).
    Steady state: 10 V / 5 V / 3.3 V / 3.3 V; C delivers 4 A and draws 66/25 A; S2 delivers nothing. -/
namespace Ex

def cS1 : Comp ℚ := { name := "S1", kind := .source, par := .const 0, vo := 10 }
def cS2 : Comp ℚ := { name := "S2", kind := .source, par := .const 0, vo := 5 }
def cC : Comp ℚ := { name := "C", kind := .converter, par := .const (1/2), vo := 33/10 }
def cL1 : Comp ℚ := { name := "L1", kind := .iload, par := .const 0, ii := 1 }
def cL2 : Comp ℚ := { name := "L2", kind := .iload, par := .const 0, ii := 2 }
def cM : Comp ℚ := { name := "M", kind := .pmux, par := .const 0 }
def cL3 : Comp ℚ := { name := "L3", kind := .iload, par := .const 0, ii := 1 }
def n0 : SNode ℚ := { comp := cS1, parents := [], childs := [2], pconf := .names [] }
def n1 : SNode ℚ := { comp := cS2, parents := [], childs := [5], pconf := .names [], rail := "BAT" }
def n2 : SNode ℚ := { comp := cC, parents := [0], childs := [3, 4, 5], pconf := .names [], rail := "3V3" }
def n3 : SNode ℚ := { comp := cL1, parents := [2], childs := [] }
def n4 : SNode ℚ := { comp := cL2, parents := [2], childs := [] }
def n5 : SNode ℚ := { comp := cM, parents := [2, 1], childs := [6], pconf := .names [] }
def n6 : SNode ℚ := { comp := cL3, parents := [5], childs := [] }
def sys : SSys ℚ :=
  { nodes := #[some n0, some n1, some n2, some n3, some n4, some n5, some n6], topo := [1, 0, 2, 3, 4, 5, 6] }
def exV : Vec ℚ := #[10, 5, 33/10, 0, 0, 33/10, 0]
def exI : Vec ℚ := #[66/25, 0, 66/25, 1, 2, 1, 1]
def exSt : St := #[[false], [false], [false], [false], [false], [false], [false]]
def exOuts : List (String × Vec ℚ × Vec ℚ × St) := [("", exV, exI, exSt)]
def exT : Table ℚ := sys.assemble 25 exOuts

theorem exNodes (n : Nat) (nd : SNode ℚ) (h : sys.node? n = some nd) :
    (n = 0 ∧ nd = n0) ∨ (n = 1 ∧ nd = n1) ∨ (n = 2 ∧ nd = n2) ∨ (n = 3 ∧ nd = n3) ∨ (n = 4 ∧ nd = n4) ∨
      (n = 5 ∧ nd = n5) ∨ (n = 6 ∧ nd = n6) := by
  rcases n with _ | _ | _ | _ | _ | _ | _ | n
  · have h2 : sys.node? 0 = some n0 := rfl
    rw [h2] at h; exact Or.inl ⟨rfl, (Option.some.inj h).symm⟩
  · have h2 : sys.node? 1 = some n1 := rfl
    rw [h2] at h; exact Or.inr (Or.inl ⟨rfl, (Option.some.inj h).symm⟩)
  · have h2 : sys.node? 2 = some n2 := rfl
    rw [h2] at h; exact Or.inr (Or.inr (Or.inl ⟨rfl, (Option.some.inj h).symm⟩))
  · have h2 : sys.node? 3 = some n3 := rfl
    rw [h2] at h; exact Or.inr (Or.inr (Or.inr (Or.inl ⟨rfl, (Option.some.inj h).symm⟩)))
  · have h2 : sys.node? 4 = some n4 := rfl
    rw [h2] at h; exact Or.inr (Or.inr (Or.inr (Or.inr (Or.inl ⟨rfl, (Option.some.inj h).symm⟩))))
  · have h2 : sys.node? 5 = some n5 := rfl
    rw [h2] at h; exact Or.inr (Or.inr (Or.inr (Or.inr (Or.inr (Or.inl ⟨rfl, (Option.some.inj h).symm⟩)))))
  · have h2 : sys.node? 6 = some n6 := rfl
    rw [h2] at h; exact Or.inr (Or.inr (Or.inr (Or.inr (Or.inr (Or.inr ⟨rfl, (Option.some.inj h).symm⟩)))))
  · have h2 : sys.node? (n + 7) = none := by simp [SSys.node?, sys]
    rw [h2] at h; cases h

theorem exWF : C02.TreeWF sys where
  nodup := by decide
  live := by
    intro n
    rcases n with _ | _ | _ | _ | _ | _ | _ | n
    · decide
    · decide
    · decide
    · decide
    · decide
    · decide
    · decide
    · have h2 : sys.node? (n + 7) = none := by simp [SSys.node?, sys]
      rw [h2]; simp [sys]
  bound := by decide
  order := by
    intro p c pd h hc
    rcases exNodes p pd h with ⟨rfl, rfl⟩ | ⟨rfl, rfl⟩ | ⟨rfl, rfl⟩ | ⟨rfl, rfl⟩ | ⟨rfl, rfl⟩ | ⟨rfl, rfl⟩ | ⟨rfl, rfl⟩ <;>
      simp [n0, n1, n2, n3, n4, n5, n6] at hc <;> (try rcases hc with rfl | rfl | rfl) <;> (try subst hc) <;> decide
  parLive := by
    intro n nd h p hp
    rcases exNodes n nd h with ⟨rfl, rfl⟩ | ⟨rfl, rfl⟩ | ⟨rfl, rfl⟩ | ⟨rfl, rfl⟩ | ⟨rfl, rfl⟩ | ⟨rfl, rfl⟩ | ⟨rfl, rfl⟩ <;>
      simp [n0, n1, n2, n3, n4, n5, n6] at hp <;> (try rcases hp with rfl | rfl) <;> (try subst hp) <;> rfl
  chLive := by
    intro n nd h c hc
    rcases exNodes n nd h with ⟨rfl, rfl⟩ | ⟨rfl, rfl⟩ | ⟨rfl, rfl⟩ | ⟨rfl, rfl⟩ | ⟨rfl, rfl⟩ | ⟨rfl, rfl⟩ | ⟨rfl, rfl⟩ <;>
      simp [n0, n1, n2, n3, n4, n5, n6] at hc <;> (try rcases hc with rfl | rfl | rfl) <;> (try subst hc) <;> rfl
  link := by
    intro p c pd cd hp hc
    rcases exNodes p pd hp with ⟨rfl, rfl⟩ | ⟨rfl, rfl⟩ | ⟨rfl, rfl⟩ | ⟨rfl, rfl⟩ | ⟨rfl, rfl⟩ | ⟨rfl, rfl⟩ | ⟨rfl, rfl⟩ <;>
      rcases exNodes c cd hc with ⟨rfl, rfl⟩ | ⟨rfl, rfl⟩ | ⟨rfl, rfl⟩ | ⟨rfl, rfl⟩ | ⟨rfl, rfl⟩ | ⟨rfl, rfl⟩ | ⟨rfl, rfl⟩ <;>
      simp [n0, n1, n2, n3, n4, n5, n6]
  chNodup := by
    intro n nd h
    rcases exNodes n nd h with ⟨rfl, rfl⟩ | ⟨rfl, rfl⟩ | ⟨rfl, rfl⟩ | ⟨rfl, rfl⟩ | ⟨rfl, rfl⟩ | ⟨rfl, rfl⟩ | ⟨rfl, rfl⟩ <;>
      simp [n0, n1, n2, n3, n4, n5, n6]
  parNodup := by
    intro n nd h
    rcases exNodes n nd h with ⟨rfl, rfl⟩ | ⟨rfl, rfl⟩ | ⟨rfl, rfl⟩ | ⟨rfl, rfl⟩ | ⟨rfl, rfl⟩ | ⟨rfl, rfl⟩ | ⟨rfl, rfl⟩ <;>
      simp [n0, n1, n2, n3, n4, n5, n6]
  rootSrc := by
    intro n nd h
    rcases exNodes n nd h with ⟨rfl, rfl⟩ | ⟨rfl, rfl⟩ | ⟨rfl, rfl⟩ | ⟨rfl, rfl⟩ | ⟨rfl, rfl⟩ | ⟨rfl, rfl⟩ | ⟨rfl, rfl⟩ <;>
      simp [n0, n1, n2, n3, n4, n5, n6, cS1, cS2, cC, cL1, cL2, cM, cL3]
  muxOnly := by
    intro n nd h hl
    rcases exNodes n nd h with ⟨rfl, rfl⟩ | ⟨rfl, rfl⟩ | ⟨rfl, rfl⟩ | ⟨rfl, rfl⟩ | ⟨rfl, rfl⟩ | ⟨rfl, rfl⟩ | ⟨rfl, rfl⟩ <;>
      simp [n0, n1, n2, n3, n4, n5, n6, cM] at hl ⊢
  loadLeaf := by
    intro n nd h hl
    rcases exNodes n nd h with ⟨rfl, rfl⟩ | ⟨rfl, rfl⟩ | ⟨rfl, rfl⟩ | ⟨rfl, rfl⟩ | ⟨rfl, rfl⟩ | ⟨rfl, rfl⟩ | ⟨rfl, rfl⟩ <;>
      simp [n0, n1, n2, n3, n4, n5, n6, cS1, cS2, cC, cL1, cL2, cM, cL3, Kind.ctype] at hl ⊢

theorem exNames : C07.NamesDistinct sys := by
  intro n m nd md hn hm he
  rcases exNodes n nd hn with ⟨rfl, rfl⟩ | ⟨rfl, rfl⟩ | ⟨rfl, rfl⟩ | ⟨rfl, rfl⟩ | ⟨rfl, rfl⟩ | ⟨rfl, rfl⟩ | ⟨rfl, rfl⟩ <;>
    rcases exNodes m md hm with ⟨rfl, rfl⟩ | ⟨rfl, rfl⟩ | ⟨rfl, rfl⟩ | ⟨rfl, rfl⟩ | ⟨rfl, rfl⟩ | ⟨rfl, rfl⟩ | ⟨rfl, rfl⟩ <;>
    first | rfl | (revert he; decide)

theorem exRails : C16R.RailsUnique sys := by
  intro n m nd md hn hm he hne
  rcases exNodes n nd hn with ⟨rfl, rfl⟩ | ⟨rfl, rfl⟩ | ⟨rfl, rfl⟩ | ⟨rfl, rfl⟩ | ⟨rfl, rfl⟩ | ⟨rfl, rfl⟩ | ⟨rfl, rfl⟩ <;>
    rcases exNodes m md hm with ⟨rfl, rfl⟩ | ⟨rfl, rfl⟩ | ⟨rfl, rfl⟩ | ⟨rfl, rfl⟩ | ⟨rfl, rfl⟩ | ⟨rfl, rfl⟩ | ⟨rfl, rfl⟩ <;>
    first | rfl | (revert he; decide) | (revert hne; decide)

theorem exSteady : C02.Steady sys "" exV exI exSt where
  fwd := ⟨exSt, by decide +kernel⟩
  back := by decide +kernel
  flag := by
    intro n h
    rcases n with _ | _ | _ | _ | _ | _ | _ | n
    · revert h; decide
    · revert h; decide
    · revert h; decide
    · revert h; decide
    · revert h; decide
    · revert h; decide
    · revert h; decide
    · simp [sget, exSt] at h

theorem exSteadyAll : ∀ ph v i st, (ph, v, i, st) ∈ exOuts → C02.Steady sys ph v i st := by
  intro ph v i st h
  simp only [exOuts, List.mem_singleton, Prod.mk.injEq] at h
  obtain ⟨rfl, rfl, rfl, rfl⟩ := h
  exact exSteady

/-- the report of the example has exactly one row: rail "3V3" at 3.3 V, 4 A = 1 A + 2 A + 1 A (the mux counts towards
    the converter it selected), 13.2 W; "BAT" feeds nothing and is not listed -/
example :
    (railRep exT).map (fun r => (r.phase, r.rail, r.volt, r.curr, r.pwr, r.loss)) = [("", "3V3", 33/10, 4, 66/5, 0)] ∧
    supplier sys exV exSt 5 = some 2 ∧ suppliedBy sys exV exSt 2 = [3, 4, 5] ∧ suppliedBy sys exV exSt 1 = [] ∧
    (sys.compRow "" 25 exV exI exSt 5 "").1.railIn = "3V3" ∧ (sys.compRow "" 25 exV exI exSt 5 "").1.parent = "C" ∧
    (sys.compRow "" 25 exV exI exSt 5 "").1.vin = some (33/10) ∧
    (sys.compRow "" 25 exV exI exSt 2 "").1.vout = some (33/10) ∧
    (sys.compRow "" 25 exV exI exSt 2 "").1.iout = some 4 ∧
    (sys.compRow "" 25 exV exI exSt 2 "").1.railIn = "" ∧
    (sys.compRow "" 25 exV exI exSt 6 "").1.railIn = "" := by
  decide +kernel

theorem exRow : railRep exT ≠ [] := by
  intro h
  have : (railRep exT).length = 1 := by decide +kernel
  rw [h] at this; cases this

/-- (1) on the PMux row of the example -/
example :=
  row_railIn_spec (v := exV) (i := exI) (st := exSt) exWF exNames "" 25 (n := 5) (nd := n5) rfl ""

/-- (2), (3), (4) on every (= the one) rail row of the example -/
example := fun r (hr : r ∈ railRep exT) => rail_volt_is_owner_vout exWF exNames exRails 25 exOuts r hr
example := fun r (hr : r ∈ railRep exT) => rail_members_are_children exWF exNames exRails 25 exOuts r hr
example := fun r (hr : r ∈ railRep exT) =>
  rail_curr_is_owner_iout exWF exNames exRails 25 exOuts exSteadyAll r hr

/-- (5) on the phase of the example: 4 A, 13.2 W, 0 W on both sides -/
example := rails_partition_system sys 25 exOuts "" exV exI exSt (by simp [exOuts])
example :
    ((phaseRails exT ("", sys.phaseTable "" 25 exV exI exSt)).map (·.curr)).sum = 4 ∧
    optSum (((sys.compRows "" 25 exV exI exSt).filter (·.railIn != "")).map (·.iin)) = 4 := by
  decide +kernel

/-- `solve_rail_report` on the example: `solve()` itself succeeds on it and its rail report has the one row -/
def exCfg : Cfg ℚ := { atol := 1/100000000, vtol := 1/1000000, itol := 1/1000000, maxiter := 100 }

example : ∃ T, sys.solve exCfg "" 25 = .ok T ∧
    (railRep T).map (fun r => (r.phase, r.rail, r.volt, r.curr)) = [("", "3V3", 33/10, 4)] := by
  have e : (sys.solve exCfg "" 25).toOption.map (fun T => (railRep T).map (fun r => (r.phase, r.rail, r.volt, r.curr)))
      = some [("", "3V3", 33/10, 4)] := by decide +kernel
  cases hx : sys.solve exCfg "" 25 with
  | error err => rw [hx] at e; cases e
  | ok T =>
    rw [hx] at e
    simp only [Except.toOption, Option.map_some, Option.some.injEq] at e
    exact ⟨T, rfl, e⟩

example := fun T (hT : sys.solve exCfg "" 25 = .ok T) r (hr : r ∈ railRep T) =>
  solve_rail_report exWF exNames exRails exCfg "" 25 T hT r hr

/-- (6): the same system with the rail names removed -/
def noRail (nd : SNode ℚ) : SNode ℚ := { nd with rail := "" }
def sys0 : SSys ℚ :=
  { nodes := #[some (noRail n0), some (noRail n1), some (noRail n2), some (noRail n3), some (noRail n4),
      some (noRail n5), some (noRail n6)], topo := [1, 0, 2, 3, 4, 5, 6] }

theorem sys0_no_rails : ∀ n nd, sys0.node? n = some nd → nd.rail = "" := by
  intro n nd h
  rcases n with _ | _ | _ | _ | _ | _ | _ | n
  all_goals first
    | (have h2 : sys0.node? (n + 7) = none := by simp [SSys.node?, sys0]
       rw [h2] at h; cases h)
    | (have := Option.some.inj h; rw [← this]; rfl)

example := no_rails_same_table sys0 sys0_no_rails 25 exOuts
example : (sys0.assemble 25 exOuts).phases.length = 1 ∧ (sys0.compRows "" 25 exV exI exSt).length = 7 := by
  decide +kernel

end Ex

end C08S
end SysLoss
