/-
  Props/C10Rows — C10 for 2-D tables whose vi rows are given in ANY order and sign.

  `_Interp2d` takes the magnitudes of both axes and of the values and hands the scattered points to scipy, which
  does not care about the order of the rows.  The model (`interp2`, Model/Interp.lean) normalises instead:
  `rows := sortRows ((ys.map nabs).zip (f.map (·.map nabs)))` — the (|vi_r|, |row_r|) pairs, insertion-sorted by
  |vi|.  Props/C10 proves knot / edge / range / clamp for a vi axis that is strictly increasing AS GIVEN; this
  file closes the gap for rows in any order:

    1. `sortRows_perm`, `sortRows_sorted`      the normalisation is a permutation of the pairs, strictly
                                               increasing in |vi| whenever the |vi| are pairwise distinct
       `sortRows_eq_of_perm`                   … hence a function of the multiset of pairs only
    2. `interp2_rows_order_free`               two tables whose (|vi_r|, |row_r|) pairs are permutations of each
                                               other evaluate identically — every query, every `diag` (the
                                               diagonal choice is indexed by SORTED cell, so it is the same
                                               parameter on both sides)
       `interp2_eq_normal`, `normal_grid`      every accepted table equals its normal form (axes in magnitude,
                                               rows sorted), which is a well-conditioned `Grid` of Props/C10
    3. `interp2_knot_any_order`                value at (|io_k|, |vi_r|) is |f[r][k]|, r the row index AS GIVEN
       `interp2_edge_y_any_order`              affine along the grid line vi = |vi_r| between two io knots
       `interp2_edge_x_any_order`              affine along the grid line io = |io_k| between two rows that are
                                               neighbours in magnitude (no third |vi| strictly between them)
       `interp2_edge_any_order`                the two together
       `interp2_cell_any_order`                in the cell spanned by two io knots and two neighbouring rows the
                                               value is the triangle interpolant of the four given corners, for
                                               one of the two diagonals
       `interp2_clamp_any_order`               outside: the value at the nearest point of the rectangle
                                               [|io_0|, |io_last|] × [min |vi|, max |vi|]
       `accepted_of_mkTable`, `mkTable_knot_any_order`, `mkTable_clamp_any_order`
                                               the hypotheses `Accepted` are what the constructor model
                                               (`mkTable`) guarantees for every table it turns into a `tab2`
    4. duplicates: `mkTable` (like `_check_interp`) does NOT refuse two rows of equal |vi| as long as not all
       |vi| coincide (vi = [3, -3] is refused: QhullError in both; vi = [3, 5, -5] is accepted by both).
       Every theorem of 2./3. carries the hypothesis `(ys.map nabs).Nodup`; it is needed:
       `dup_rows_not_order_free` (two permutations of the same pairs that the model evaluates differently) and
       `dup_rows_model_value` (what the model returns).  Observed on /repo (Converter eff table, vi = [3, 5, -5]):
       the implementation — Qhull keeps the FIRST given of two coinciding points — returns at (io, |vi|) = (0.1, 5)
       the value of the row given first (0.7), the model — its sort puts the row given LAST first — 0.9 over ℚ
       and NaN over Float (cell of zero height).  Model and code disagree there; such tables are outside C10's
       conditioning (vi axis strictly increasing) and outside what the harness generates.

  Not covered: tables with two rows of equal |vi| (see 4.).
-/
import SysLoss.Props.C10
import SysLoss.Proofs.Ctor

set_option linter.unusedSectionVars false
set_option linter.unusedVariables false
set_option linter.unusedSimpArgs false

namespace SysLoss
namespace C10
variable {α : Type} [Field α] [LinearOrder α] [IsStrictOrderedRing α]

/-- the (|vi_r|, |row_r|) pairs the model sorts (`interp2` unfolds to exactly this expression) -/
def rowPairs (ys : List α) (f : List (List α)) : List (α × List α) :=
  (ys.map nabs).zip (f.map (·.map nabs))

/-! ### 1. the row normalisation -/

theorem insRow_perm (p : α × List α) : ∀ l : List (α × List α), (insRow p l).Perm (p :: l)
  | [] => by simp [insRow]
  | q :: rest => by
    unfold insRow
    split_ifs
    · exact List.Perm.refl _
    · exact ((insRow_perm p rest).cons q).trans (List.Perm.swap p q rest)

/-- **1a.** The model's row sort returns a permutation of the given pairs (no condition at all). -/
theorem sortRows_perm (rows : List (α × List α)) : (sortRows rows).Perm rows := by
  induction rows with
  | nil => simp [sortRows]
  | cons p rest ih =>
    unfold sortRows at ih ⊢
    rw [List.foldr_cons]
    exact (insRow_perm p _).trans (ih.cons p)

/-- **1b.** … sorted strictly increasing in the key whenever the keys are pairwise distinct. -/
theorem sortRows_sorted (rows : List (α × List α)) (hd : (rows.map (·.1)).Nodup) :
    (sortRows rows).Pairwise (fun a b => a.1 < b.1) := by
  have h1 := SysLoss.sortRows_sorted rows
  have h2 : ((sortRows rows).map (·.1)).Nodup := ((sortRows_perm rows).map _).nodup_iff.mpr hd
  rw [List.Nodup, List.pairwise_map] at h2
  exact (h1.and h2).imp (fun h => lt_of_le_of_ne h.1 h.2)

/-- **1c.** The sorted rows depend on the multiset of pairs only. -/
theorem sortRows_eq_of_perm {r1 r2 : List (α × List α)} (hp : r1.Perm r2) (hd : (r1.map (·.1)).Nodup) :
    sortRows r1 = sortRows r2 := by
  have hd2 : (r2.map (·.1)).Nodup := (hp.map _).nodup_iff.mp hd
  refine List.Perm.eq_of_pairwise (le := fun a b => a.1 < b.1) ?_ (sortRows_sorted r1 hd)
    (sortRows_sorted r2 hd2) (((sortRows_perm r1).trans hp).trans (sortRows_perm r2).symm)
  intro a b _ _ h1 h2
  exact absurd h1 (lt_asymm h2)

theorem keys_sublist : ∀ (a : List α) (b : List (List α)), ((a.zip b).map (·.1)).Sublist a
  | [], _ => by simp
  | _ :: _, [] => by simp
  | x :: a, y :: b => by
    simp only [List.zip_cons_cons, List.map_cons]
    exact (keys_sublist a b).cons_cons x

/-- distinct |vi| entries give distinct keys -/
theorem rowPairs_keys_nodup {ys : List α} (f : List (List α)) (hd : (ys.map nabs).Nodup) :
    ((rowPairs ys f).map (·.1)).Nodup :=
  List.Nodup.sublist (keys_sublist _ _) hd

/-! ### 2. the value depends on the set of (|vi|, |row|) pairs only -/

/-- `interp2` reads the table through the io magnitudes and the sorted pairs only -/
theorem interp2_congr {xs xs' ys ys' : List α} {f f' : List (List α)} (hx : xs.map nabs = xs'.map nabs)
    (hr : sortRows (rowPairs ys f) = sortRows (rowPairs ys' f')) (diag : List (List Bool)) (x y : α) :
    interp2 xs ys f diag x y = interp2 xs' ys' f' diag x y := by
  unfold rowPairs at hr
  rw [interp2_eq_clamp, interp2_eq_clamp, hx, hr]

/-- **2.** Two tables over the same io axis whose (|vi_r|, |row_r|) pairs are permutations of each other
    (distinct |vi|) evaluate identically: every query, every diagonal choice. -/
theorem interp2_rows_order_free (xs ys1 ys2 : List α) (f1 f2 : List (List α)) (diag : List (List Bool))
    (hp : (rowPairs ys1 f1).Perm (rowPairs ys2 f2)) (hd : (ys1.map nabs).Nodup) (x y : α) :
    interp2 xs ys1 f1 diag x y = interp2 xs ys2 f2 diag x y :=
  interp2_congr rfl (sortRows_eq_of_perm hp (rowPairs_keys_nodup f1 hd)) diag x y

/-! ### the normal form of a table: axes in magnitude, rows sorted by |vi| -/

/-- vi axis of the normal form -/
def sortedYs (ys : List α) (f : List (List α)) : List α := (sortRows (rowPairs ys f)).map (·.1)
/-- values of the normal form -/
def sortedF (ys : List α) (f : List (List α)) : List (List α) := (sortRows (rowPairs ys f)).map (·.2)

/-- what the constructors guarantee for a 2-D table (`accepted_of_mkTable`): io axis strictly increasing in
    magnitude, at least one cell, one row of values per vi entry.  Nothing about the order or the signs of the
    vi entries. -/
structure Accepted (xs ys : List α) (f : List (List α)) : Prop where
  xs_inc : (xs.map nabs).Pairwise (· < ·)
  nx : 2 ≤ xs.length
  ny : 2 ≤ ys.length
  rows : f.length = ys.length

theorem rowPairs_length {ys : List α} {f : List (List α)} (h : f.length = ys.length) :
    (rowPairs ys f).length = ys.length := by
  simp [rowPairs, h]

theorem rowPairs_getElem {ys : List α} {f : List (List α)} (h : f.length = ys.length) {r : Nat}
    (hr : r < ys.length) :
    (rowPairs ys f)[r]'(by rw [rowPairs_length h]; exact hr) = (|ys[r]|, (f[r]'(h ▸ hr)).map nabs) := by
  simp [rowPairs]

theorem rowPairs_normal {ys : List α} {f : List (List α)} {p : α × List α} (hp : p ∈ rowPairs ys f) :
    nabs p.1 = p.1 ∧ p.2.map nabs = p.2 := by
  obtain ⟨h1, h2⟩ := List.of_mem_zip (a := p.1) (b := p.2) hp
  obtain ⟨v, _, e1⟩ := List.mem_map.mp h1
  obtain ⟨row, _, e2⟩ := List.mem_map.mp h2
  rw [← e1, ← e2]
  constructor
  · simp
  · simp [Function.comp_def]

theorem zip_fst_snd_normal : ∀ (S : List (α × List α)), (∀ p ∈ S, nabs p.1 = p.1 ∧ p.2.map nabs = p.2) →
    rowPairs (S.map (·.1)) (S.map (·.2)) = S
  | [], _ => rfl
  | p :: S, h => by
    have ih := zip_fst_snd_normal S (fun q hq => h q (by simp [hq]))
    unfold rowPairs at ih ⊢
    simp only [List.map_cons, List.zip_cons_cons, ih, (h p (by simp)).1, (h p (by simp)).2]

theorem mem_sorted_iff {ys : List α} {f : List (List α)} {p : α × List α} :
    p ∈ sortRows (rowPairs ys f) ↔ p ∈ rowPairs ys f := mem_sortRows _

/-- the pairs of the normal form are the sorted pairs -/
theorem rowPairs_sorted (ys : List α) (f : List (List α)) :
    rowPairs (sortedYs ys f) (sortedF ys f) = sortRows (rowPairs ys f) :=
  zip_fst_snd_normal _ (fun _ hp => rowPairs_normal (mem_sorted_iff.mp hp))

/-- Every table with distinct |vi| evaluates as its normal form. -/
theorem interp2_eq_normal (xs ys : List α) (f : List (List α)) (diag : List (List Bool))
    (hd : (ys.map nabs).Nodup) (x y : α) :
    interp2 xs ys f diag x y = interp2 (xs.map nabs) (sortedYs ys f) (sortedF ys f) diag x y := by
  apply interp2_congr
  · simp [Function.comp_def]
  · rw [rowPairs_sorted, sortRows_of_inc _ (sortRows_sorted _ (rowPairs_keys_nodup f hd))]

theorem sortedYs_length {ys : List α} {f : List (List α)} (h : f.length = ys.length) :
    (sortedYs ys f).length = ys.length := by
  simp [sortedYs, length_sortRows, rowPairs_length h]

theorem mem_sortedYs {ys : List α} {f : List (List α)} (h : f.length = ys.length) {v : α} :
    v ∈ sortedYs ys f ↔ v ∈ ys.map nabs := by
  unfold sortedYs
  constructor
  · intro hv
    obtain ⟨p, hp, rfl⟩ := List.mem_map.mp hv
    exact (List.of_mem_zip (a := p.1) (b := p.2) (mem_sorted_iff.mp hp)).1
  · intro hv
    obtain ⟨r, hr, rfl⟩ := List.getElem_of_mem hv
    have hr' : r < ys.length := by simpa using hr
    refine List.mem_map.mpr ⟨(rowPairs ys f)[r]'(by rw [rowPairs_length h]; exact hr'),
      mem_sorted_iff.mpr (List.getElem_mem _), ?_⟩
    rw [rowPairs_getElem h hr']; simp

/-- The normal form of an accepted table with distinct |vi| is a well-conditioned grid in the sense of
    Props/C10: all its theorems apply to it. -/
theorem normal_grid {xs ys : List α} {f : List (List α)} (a : Accepted xs ys f) (hd : (ys.map nabs).Nodup) :
    Grid (xs.map nabs) (sortedYs ys f) (sortedF ys f) where
  xs_inc := a.xs_inc
  xs_nonneg := by
    intro x hx; obtain ⟨v, _, rfl⟩ := List.mem_map.mp hx; simp
  ys_inc := by
    unfold sortedYs; rw [List.pairwise_map]; exact sortRows_sorted _ (rowPairs_keys_nodup f hd)
  ys_nonneg := by
    intro y hy; obtain ⟨v, _, rfl⟩ := List.mem_map.mp ((mem_sortedYs a.rows).mp hy); simp
  nx := by simpa using a.nx
  ny := by rw [sortedYs_length a.rows]; exact a.ny
  rows := by simp [sortedYs, sortedF]

theorem map_nabs_getD (xs : List α) (k : Nat) : (xs.map nabs).getD k 0 = |xs.getD k 0| := by
  simp only [List.getD_eq_getElem?_getD, List.getElem?_map]
  cases xs[k]? <;> simp

/-- where a given row ends up: some position of the normal form carries its |vi| and its magnitudes -/
theorem row_pos {xs ys : List α} {f : List (List α)} (a : Accepted xs ys f) {r : Nat} (hr : r < ys.length) :
    ∃ r', r' < (sortedYs ys f).length ∧ (sortedYs ys f).getD r' 0 = |ys.getD r 0| ∧
      ∀ k, getD2 (sortedF ys f) r' k = |getD2 f r k| := by
  have hrf : r < f.length := a.rows ▸ hr
  have hm : (|ys[r]|, f[r].map nabs) ∈ sortRows (rowPairs ys f) := by
    rw [mem_sorted_iff, ← rowPairs_getElem a.rows hr]; exact List.getElem_mem _
  obtain ⟨r', hr', e⟩ := List.getElem_of_mem hm
  refine ⟨r', by simpa [sortedYs] using hr', ?_, ?_⟩
  · rw [getD_eq_getElem' _ _ (by simpa [sortedYs] using hr'), getD_eq_getElem' _ _ hr]
    simp [sortedYs, e]
  · intro k
    have h1 : (sortedF ys f).getD r' [] = f[r].map nabs := by
      rw [getD_eq_getElem' _ _ (by simpa [sortedF] using hr')]; simp [sortedF, e]
    have h2 : f.getD r [] = f[r] := getD_eq_getElem' _ _ hrf
    unfold getD2
    rw [h1, h2]
    exact map_nabs_getD _ k

/-! ### 3. exactness for rows in any order and sign -/

section lifted
variable {xs ys : List α} {f : List (List α)}

/-- **3 (knot).** For a table as the constructors accept it, vi rows in any order and sign with distinct
    magnitudes: at (|io_k|, |vi_r|) the value is |f[r][k]| — `r` is the index of the row AS GIVEN. -/
theorem interp2_knot_any_order (a : Accepted xs ys f) (hd : (ys.map nabs).Nodup) (diag : List (List Bool))
    {k r : Nat} (hk : k < xs.length) (hr : r < ys.length) :
    interp2 xs ys f diag |xs.getD k 0| |ys.getD r 0| = |getD2 f r k| := by
  obtain ⟨r', hr', e1, e2⟩ := row_pos a hr
  rw [interp2_eq_normal xs ys f diag hd, ← map_nabs_getD xs k, ← e1,
    interp2_knot (normal_grid a hd) diag (by simpa using hk) hr', e2, abs_abs]

/-- **3 (grid line vi = |vi_r|).** Along the grid line of a given row the value is the affine interpolant of
    the two adjacent knots of that row. -/
theorem interp2_edge_y_any_order (a : Accepted xs ys f) (hd : (ys.map nabs).Nodup) (diag : List (List Bool))
    {k r : Nat} (hk : k + 1 < xs.length) (hr : r < ys.length) {x : α}
    (hx0 : |xs.getD k 0| ≤ x) (hx1 : x ≤ |xs.getD (k + 1) 0|) :
    interp2 xs ys f diag x |ys.getD r 0| =
      |getD2 f r k| + (x - |xs.getD k 0|) / (|xs.getD (k + 1) 0| - |xs.getD k 0|)
        * (|getD2 f r (k + 1)| - |getD2 f r k|) := by
  obtain ⟨r', hr', e1, e2⟩ := row_pos a hr
  rw [interp2_eq_normal xs ys f diag hd, ← e1,
    interp2_edge_y (normal_grid a hd) diag (k := k) (by simpa using hk) hr'
      (by rw [map_nabs_getD]; exact hx0) (by rw [map_nabs_getD]; exact hx1),
    e2, e2, abs_abs, abs_abs, map_nabs_getD, map_nabs_getD]

/-- two given rows are neighbours in magnitude: |vi_r1| < |vi_r2| and no |vi| lies strictly between -/
def Neighbours (ys : List α) (r1 r2 : Nat) : Prop :=
  |ys.getD r1 0| < |ys.getD r2 0| ∧ ∀ v ∈ ys, ¬ (|ys.getD r1 0| < |v| ∧ |v| < |ys.getD r2 0|)

/-- neighbouring rows are consecutive rows of the normal form -/
theorem neighbours_pos (a : Accepted xs ys f) (hd : (ys.map nabs).Nodup) {r1 r2 : Nat}
    (hr1 : r1 < ys.length) (hr2 : r2 < ys.length) (hn : Neighbours ys r1 r2) :
    ∃ q, q + 1 < (sortedYs ys f).length ∧ (sortedYs ys f).getD q 0 = |ys.getD r1 0| ∧
      (sortedYs ys f).getD (q + 1) 0 = |ys.getD r2 0| ∧
      (∀ k, getD2 (sortedF ys f) q k = |getD2 f r1 k|) ∧
      (∀ k, getD2 (sortedF ys f) (q + 1) k = |getD2 f r2 k|) := by
  obtain ⟨q1, hq1, e1, v1⟩ := row_pos a hr1
  obtain ⟨q2, hq2, e2, v2⟩ := row_pos a hr2
  have inc := (normal_grid a hd).ys_inc
  have h12 : q1 < q2 := by
    by_contra hc
    have := getD_le_of_pairwise inc (not_lt.mp hc) hq1
    rw [e1, e2] at this
    exact absurd hn.1 (not_lt.mpr this)
  have h21 : q2 = q1 + 1 := by
    by_contra hc
    have hlt : q1 + 1 < q2 := by omega
    have hm : q1 + 1 < (sortedYs ys f).length := by omega
    have l1 := getD_lt_of_pairwise inc (Nat.lt_succ_self q1) hm
    have l2 := getD_lt_of_pairwise inc hlt hq2
    rw [e1] at l1
    rw [e2] at l2
    have hmem : (sortedYs ys f).getD (q1 + 1) 0 ∈ sortedYs ys f := by
      rw [getD_eq_getElem' _ _ hm]; exact List.getElem_mem _
    obtain ⟨v, hv, e⟩ := List.mem_map.mp ((mem_sortedYs a.rows).mp hmem)
    rw [← e, nabs_eq_abs] at l1 l2
    exact hn.2 v hv ⟨l1, l2⟩
  subst h21
  exact ⟨q1, hq2, e1, e2, v1, v2⟩

/-- **3 (grid line io = |io_k|).** Along a grid line of the io axis, between two rows that are neighbours in
    magnitude (wherever they stand in the table as given), the value is the affine interpolant of the two
    knots — for either diagonal of either adjacent cell. -/
theorem interp2_edge_x_any_order (a : Accepted xs ys f) (hd : (ys.map nabs).Nodup) (diag : List (List Bool))
    {k r1 r2 : Nat} (hk : k < xs.length) (hr1 : r1 < ys.length) (hr2 : r2 < ys.length)
    (hn : Neighbours ys r1 r2) {y : α} (hy0 : |ys.getD r1 0| ≤ y) (hy1 : y ≤ |ys.getD r2 0|) :
    interp2 xs ys f diag |xs.getD k 0| y =
      |getD2 f r1 k| + (y - |ys.getD r1 0|) / (|ys.getD r2 0| - |ys.getD r1 0|)
        * (|getD2 f r2 k| - |getD2 f r1 k|) := by
  obtain ⟨q, hq, e1, e2, v1, v2⟩ := neighbours_pos a hd hr1 hr2 hn
  rw [interp2_eq_normal xs ys f diag hd, ← map_nabs_getD xs k,
    interp2_edge_x (normal_grid a hd) diag (k := k) (r := q) (by simpa using hk) hq
      (by rw [e1]; exact hy0) (by rw [e2]; exact hy1),
    v1, v2, abs_abs, abs_abs, e1, e2]

/-- **3 (edge).** Both grid-line statements together: affine along the line of a given row between two io
    knots, and affine along the line of an io knot between two rows that are neighbours in magnitude. -/
theorem interp2_edge_any_order (a : Accepted xs ys f) (hd : (ys.map nabs).Nodup) (diag : List (List Bool)) :
    (∀ {k r : Nat}, k + 1 < xs.length → r < ys.length → ∀ {x : α}, |xs.getD k 0| ≤ x → x ≤ |xs.getD (k + 1) 0| →
      interp2 xs ys f diag x |ys.getD r 0| =
        |getD2 f r k| + (x - |xs.getD k 0|) / (|xs.getD (k + 1) 0| - |xs.getD k 0|)
          * (|getD2 f r (k + 1)| - |getD2 f r k|)) ∧
    (∀ {k r1 r2 : Nat}, k < xs.length → r1 < ys.length → r2 < ys.length → Neighbours ys r1 r2 →
      ∀ {y : α}, |ys.getD r1 0| ≤ y → y ≤ |ys.getD r2 0| →
      interp2 xs ys f diag |xs.getD k 0| y =
        |getD2 f r1 k| + (y - |ys.getD r1 0|) / (|ys.getD r2 0| - |ys.getD r1 0|)
          * (|getD2 f r2 k| - |getD2 f r1 k|)) :=
  ⟨fun hk hr _ h0 h1 => interp2_edge_y_any_order a hd diag hk hr h0 h1,
   fun hk h1 h2 hn _ y0 y1 => interp2_edge_x_any_order a hd diag hk h1 h2 hn y0 y1⟩

/-- **3 (cell).** In the cell spanned by two consecutive io knots and two rows that are neighbours in
    magnitude the value is the triangle interpolant of the four tabulated magnitudes AS GIVEN, for one of the
    two diagonals (the one `diag` assigns to the cell's position in the sorted table). -/
theorem interp2_cell_any_order (a : Accepted xs ys f) (hd : (ys.map nabs).Nodup) (diag : List (List Bool))
    {k r1 r2 : Nat} (hk : k + 1 < xs.length) (hr1 : r1 < ys.length) (hr2 : r2 < ys.length)
    (hn : Neighbours ys r1 r2) {x y : α} (hx0 : |xs.getD k 0| ≤ x) (hx1 : x ≤ |xs.getD (k + 1) 0|)
    (hy0 : |ys.getD r1 0| ≤ y) (hy1 : y ≤ |ys.getD r2 0|) :
    ∃ d, interp2 xs ys f diag x y =
      cellVal d |getD2 f r1 k| |getD2 f r1 (k + 1)| |getD2 f r2 k| |getD2 f r2 (k + 1)|
        ((x - |xs.getD k 0|) / (|xs.getD (k + 1) 0| - |xs.getD k 0|))
        ((y - |ys.getD r1 0|) / (|ys.getD r2 0| - |ys.getD r1 0|)) := by
  obtain ⟨q, hq, e1, e2, v1, v2⟩ := neighbours_pos a hd hr1 hr2 hn
  refine ⟨(diag.getD q []).getD k true, ?_⟩
  rw [interp2_eq_normal xs ys f diag hd,
    interp2_eq_cellAt (normal_grid a hd) diag (j := k) (q := q) (by simpa using hk) hq
      (by rw [map_nabs_getD]; exact hx0) (by rw [map_nabs_getD]; exact hx1)
      (by rw [e1]; exact hy0) (by rw [e2]; exact hy1)]
  unfold cellAt rel
  simp only [getD2_absF, v1, v2, abs_abs, e1, e2, map_nabs_getD]

theorem map_nabs_headD (xs : List α) : (xs.map nabs).headD 0 = |xs.headD 0| := by
  cases xs <;> simp

theorem map_nabs_getLastD (xs : List α) : (xs.map nabs).getLastD 0 = |xs.getLastD 0| := by
  by_cases h : xs = []
  · subst h; simp
  · rw [getLastD_eq_getD h, getLastD_eq_getD (by simpa using h), map_nabs_getD]; simp

/-- the ends of the sorted vi axis are the smallest and the largest |vi| of the table as given -/
theorem sortedYs_ends (a : Accepted xs ys f) (hd : (ys.map nabs).Nodup) {lo hi : α}
    (hlo : lo ∈ ys.map nabs) (hlo' : ∀ v ∈ ys.map nabs, lo ≤ v)
    (hhi : hi ∈ ys.map nabs) (hhi' : ∀ v ∈ ys.map nabs, v ≤ hi) :
    (sortedYs ys f).headD 0 = lo ∧ (sortedYs ys f).getLastD 0 = hi := by
  have g := normal_grid a hd
  have hne : sortedYs ys f ≠ [] := by intro e; have := g.ny; rw [e] at this; simp at this
  have hpos : 0 < (sortedYs ys f).length := List.length_pos_iff.mpr hne
  constructor
  · have hh : (sortedYs ys f).headD 0 = (sortedYs ys f).getD 0 0 := by cases sortedYs ys f <;> simp
    apply le_antisymm
    · obtain ⟨j, hj, e⟩ := List.getElem_of_mem ((mem_sortedYs a.rows).mpr hlo)
      rw [← e, ← getD_eq_getElem' _ 0 hj]
      exact head_le_getD g.ys_inc hj
    · apply hlo'
      rw [← mem_sortedYs a.rows, hh, getD_eq_getElem' _ _ hpos]; exact List.getElem_mem _
  · apply le_antisymm
    · apply hhi'
      rw [← mem_sortedYs a.rows, getLastD_eq_getD hne, getD_eq_getElem' _ _ (by omega)]
      exact List.getElem_mem _
    · obtain ⟨j, hj, e⟩ := List.getElem_of_mem ((mem_sortedYs a.rows).mpr hhi)
      rw [← e, ← getD_eq_getElem' _ 0 hj]
      exact getD_le_last g.ys_inc hj

/-- **3 (clamp).** For every query the value is the value at the nearest point of the rectangle
    [|io_0|, |io_last|] × [min |vi|, max |vi|] — min and max over the rows as given: never extrapolated. -/
theorem interp2_clamp_any_order (a : Accepted xs ys f) (hd : (ys.map nabs).Nodup) (diag : List (List Bool))
    {lo hi : α} (hlo : lo ∈ ys.map nabs) (hlo' : ∀ v ∈ ys.map nabs, lo ≤ v)
    (hhi : hi ∈ ys.map nabs) (hhi' : ∀ v ∈ ys.map nabs, v ≤ hi) (x y : α) :
    interp2 xs ys f diag x y =
      interp2 xs ys f diag (clamp |xs.headD 0| |xs.getLastD 0| x) (clamp lo hi y) := by
  obtain ⟨e1, e2⟩ := sortedYs_ends a hd hlo hlo' hhi hhi'
  rw [interp2_eq_normal xs ys f diag hd, interp2_eq_normal xs ys f diag hd,
    interp2_clamp (normal_grid a hd) diag x y, map_nabs_headD, map_nabs_getLastD, e1, e2]

end lifted

/-! ### the constructor model produces `Accepted` tables -/

/-- Every table that `mkTable` (the model of `_check_interp` + the choice of `_Interp2d`) turns into a 2-D
    parameter satisfies `Accepted`. -/
theorem accepted_of_mkTable {d : List (String × PV α)} {z : String} {chk : List α → Except Err Unit}
    {xs ys : List α} {f : List (List α)} {dg : List (List Bool)} {vals : List α}
    (h : mkTable d z chk = .ok (.tab2 xs ys f dg, vals)) : Accepted xs ys f := by
  obtain ⟨ios, rows, hinc, _, _, _, h1 | ⟨vis, hl, h2, h3, e⟩⟩ := mkTable_ok h
  · exact absurd h1.2 (by simp)
  · cases e
    exact ⟨hinc, h2, h3, hl⟩

/-- **3 (knot), constructor level.** The parameter built from an accepted table returns, at the magnitudes of
    a tabulated point, the magnitude of the tabulated value — whatever the order and the signs of the vi rows,
    provided their magnitudes are distinct. -/
theorem mkTable_knot_any_order {d : List (String × PV α)} {z : String} {chk : List α → Except Err Unit}
    {xs ys : List α} {f : List (List α)} {dg : List (List Bool)} {vals : List α}
    (h : mkTable d z chk = .ok (.tab2 xs ys f dg, vals)) (hd : (ys.map nabs).Nodup)
    {k r : Nat} (hk : k < xs.length) (hr : r < ys.length) :
    (Param.tab2 xs ys f dg).interp (nabs (xs.getD k 0)) (nabs (ys.getD r 0)) = |getD2 f r k| := by
  simp only [Param.interp, nabs_eq_abs]
  exact interp2_knot_any_order (accepted_of_mkTable h) hd dg hk hr

/-- **3 (clamp), constructor level.** -/
theorem mkTable_clamp_any_order {d : List (String × PV α)} {z : String} {chk : List α → Except Err Unit}
    {xs ys : List α} {f : List (List α)} {dg : List (List Bool)} {vals : List α}
    (h : mkTable d z chk = .ok (.tab2 xs ys f dg, vals)) (hd : (ys.map nabs).Nodup)
    {lo hi : α} (hlo : lo ∈ ys.map nabs) (hlo' : ∀ v ∈ ys.map nabs, lo ≤ v)
    (hhi : hi ∈ ys.map nabs) (hhi' : ∀ v ∈ ys.map nabs, v ≤ hi) (x y : α) :
    (Param.tab2 xs ys f dg).interp x y =
      (Param.tab2 xs ys f dg).interp (clamp |xs.headD 0| |xs.getLastD 0| x) (clamp lo hi y) := by
  simp only [Param.interp]
  exact interp2_clamp_any_order (accepted_of_mkTable h) hd dg hlo hlo' hhi hhi' x y

/-! ### 4. rows of equal magnitude (e.g. vi = [3, 5, -5]): accepted by the constructor, outside every theorem above

`mkTable` refuses a vi axis only if ALL magnitudes coincide (`allSame`, Qhull's "initial simplex is flat");
`vi = [3, -3]` is refused, `vi = [3, 5, -5]` is accepted — by the implementation as well.  `insRow` puts a row
BEHIND the rows of equal key that are already there, and `foldr` inserts from the right: rows of equal |vi| end
up in REVERSED order, the cell between them has zero height, and which of them is used depends on where the
duplicate sits.  The distinctness hypothesis of the theorems above cannot be dropped: -/

/-- `interp2_rows_order_free` without the distinctness hypothesis -/
def order_free_without_distinct : Prop :=
  ∀ (xs ys1 ys2 : List ℚ) (f1 f2 : List (List ℚ)) (diag : List (List Bool)) (x y : ℚ),
    (rowPairs ys1 f1).Perm (rowPairs ys2 f2) → interp2 xs ys1 f1 diag x y = interp2 xs ys2 f2 diag x y

def dupIo : List ℚ := [1/10, 1/2]
def dupVi : List ℚ := [3, 5, -5]
def dupEff : List (List ℚ) := [[1/2, 3/5], [7/10, 4/5], [9/10, 19/20]]

/-- the constructor model accepts the table with the duplicate |vi| = 5 -/
theorem dup_rows_accepted :
    ∃ vals : List ℚ,
      mkTable [("vi", .list [.int 3, .int 5, .int (-5)]), ("io", .list [.float (1/10), .float (1/2)]),
        ("eff", .list [.list [.float (1/2), .float (3/5)], .list [.float (7/10), .float (4/5)],
                       .list [.float (9/10), .float (19/20)]])] "eff" chkEff
        = .ok (.tab2 dupIo dupVi dupEff [], vals) := ⟨_, by with_unfolding_all rfl⟩

/-- What the model returns there: at (io, |vi|) = (0.1, 5) the value of the row given LAST (0.9), at
    (0.3, 4) the interpolant between the row for 3 and the row given last.  (The implementation — Qhull drops
    the later of two coinciding points — returns 0.7 resp. 0.65: model and code disagree on such tables.) -/
theorem dup_rows_model_value (diag : List (List Bool)) :
    interp2 dupIo dupVi dupEff diag (1/10) 5 = 9/10 ∧
      interp2 dupIo dupVi dupEff [[true]] (3/10) 4 = 29/40 ∧
      interp2 dupIo dupVi dupEff [[false]] (3/10) 4 = 3/4 := by
  refine ⟨?_, ?_, ?_⟩ <;>
    norm_num [interp2, interp2In, findCell, cellVal, getD2, sortRows, insRow, nabs, dupIo, dupVi, dupEff,
      List.getLastD]

/-- The same three (|vi|, row) pairs, the two rows of magnitude 5 exchanged: the model's value changes. -/
theorem dup_rows_not_order_free : ¬ order_free_without_distinct := by
  intro h
  have := h dupIo dupVi [3, -5, 5] dupEff [[1/2, 3/5], [9/10, 19/20], [7/10, 4/5]] [] (1/10) 5
    (by
      have e : ∀ a b c : ℚ × List ℚ, [a, b, c].Perm [a, c, b] := fun a b c => (List.Perm.swap c b []).cons a
      simp only [rowPairs, dupVi, dupEff, List.map_cons, List.map_nil, List.zip_cons_cons, List.zip_nil_right]
      exact e _ _ _)
  norm_num [interp2, interp2In, findCell, cellVal, getD2, sortRows, insRow, nabs, dupIo, dupVi, dupEff,
    List.getLastD] at this

/-! ### non-vacuity: the `Converter` docstring table with its rows given in the order vi = [5, -2, 3.3]
    (and a negative entry in the table) -/

section examples

def exViS : List ℚ := [5, -2, 33/10]
def exEffS : List (List ℚ) := [[1/2, 37/50, 83/100], [-11/20, 39/50, 23/25], [2/5, 3/5, 383/500]]

theorem exAccepted : Accepted exIo exViS exEffS where
  xs_inc := by norm_num [exIo, nabs]
  nx := by simp [exIo]
  ny := by simp [exViS]
  rows := rfl

theorem exNodup : (exViS.map nabs).Nodup := by
  norm_num [exViS, nabs]

theorem exNeighbours : Neighbours exViS 1 2 := by
  refine ⟨by norm_num [exViS], ?_⟩
  intro v hv
  simp only [exViS, List.mem_cons, List.not_mem_nil, or_false] at hv
  rcases hv with rfl | rfl | rfl <;> norm_num [exViS]

/-- the constructor model accepts it (and builds exactly this `tab2`) -/
theorem exMk : ∃ vals : List ℚ,
    mkTable [("vi", .list [.int 5, .int (-2), .float (33/10)]),
      ("io", .list [.float (1/10), .float (1/2), .float (9/10)]),
      ("eff", .list [.list [.float (1/2), .float (37/50), .float (83/100)],
                     .list [.float (-11/20), .float (39/50), .float (23/25)],
                     .list [.float (2/5), .float (3/5), .float (383/500)]])] "eff"
      = .ok (.tab2 exIo exViS exEffS [], vals) := ⟨_, by with_unfolding_all rfl⟩

example : Accepted exIo exViS exEffS := by
  obtain ⟨_, h⟩ := exMk
  exact accepted_of_mkTable h

example : (Param.tab2 exIo exViS exEffS []).interp (nabs (1/2)) (nabs (-2)) = 39/50 := by
  obtain ⟨_, h⟩ := exMk
  have := mkTable_knot_any_order h exNodup (k := 1) (r := 1) (by simp [exIo]) (by simp [exViS])
  norm_num [exIo, exViS, exEffS, getD2] at this ⊢
  exact this

/-- 1: the sort really moves the rows -/
example : sortRows (rowPairs exViS exEffS) =
    [(2, [11/20, 39/50, 23/25]), (33/10, [2/5, 3/5, 383/500]), (5, [1/2, 37/50, 83/100])] := by
  norm_num [sortRows, insRow, rowPairs, nabs, exViS, exEffS]

example : (sortRows (rowPairs exViS exEffS)).Perm (rowPairs exViS exEffS) := sortRows_perm _

example : (sortRows (rowPairs exViS exEffS)).Pairwise (fun a b => a.1 < b.1) :=
  sortRows_sorted _ (rowPairs_keys_nodup _ exNodup)

/-- 2: the shuffled table and the table in increasing order are the same parameter -/
example (diag : List (List Bool)) (x y : ℚ) :
    interp2 exIo exViS exEffS diag x y =
      interp2 exIo [2, 33/10, 5] [[11/20, 39/50, 23/25], [2/5, 3/5, 383/500], [1/2, 37/50, 83/100]] diag x y := by
  apply interp2_rows_order_free _ _ _ _ _ _ _ exNodup
  have e : ∀ a b c : ℚ × List ℚ, [a, b, c].Perm [b, c, a] := fun a b c =>
    (List.perm_append_comm (l₁ := [a]) (l₂ := [b, c]))
  have := e (5, [1/2, 37/50, 83/100]) (2, [11/20, 39/50, 23/25]) (33/10, [2/5, 3/5, 383/500])
  norm_num [rowPairs, exViS, exEffS, nabs]
  exact this

/-- 3 (knot): row 1 as given (vi = -2), column 1 -/
example (diag : List (List Bool)) : interp2 exIo exViS exEffS diag (1/2) 2 = 39/50 := by
  have := interp2_knot_any_order exAccepted exNodup diag (k := 1) (r := 1) (by simp [exIo]) (by simp [exViS])
  norm_num [exIo, exViS, exEffS, getD2] at this ⊢
  exact this

/-- 3 (knot): row 1, column 0 — the negative table entry is taken in magnitude -/
example (diag : List (List Bool)) : interp2 exIo exViS exEffS diag (1/10) 2 = 11/20 := by
  have := interp2_knot_any_order exAccepted exNodup diag (k := 0) (r := 1) (by simp [exIo]) (by simp [exViS])
  norm_num [exIo, exViS, exEffS, getD2] at this ⊢
  exact this

/-- 3 (grid line vi = 2) -/
example (diag : List (List Bool)) : interp2 exIo exViS exEffS diag (7/10) 2 = 17/20 := by
  have := interp2_edge_y_any_order exAccepted exNodup diag (k := 1) (r := 1) (x := 7/10) (by simp [exIo])
    (by simp [exViS]) (by norm_num [exIo]) (by norm_num [exIo])
  norm_num [exIo, exViS, exEffS, getD2] at this ⊢
  exact this

/-- 3 (grid line io = 0.5 between the rows for 2 and 3.3, given as rows 1 and 2) -/
example (diag : List (List Bool)) : interp2 exIo exViS exEffS diag (1/2) 3 = 417/650 := by
  have := interp2_edge_x_any_order exAccepted exNodup diag (k := 1) (r1 := 1) (r2 := 2) (y := 3)
    (by simp [exIo]) (by simp [exViS]) (by simp [exViS]) exNeighbours (by norm_num [exViS]) (by norm_num [exViS])
  norm_num [exIo, exViS, exEffS, getD2] at this ⊢
  exact this

/-- 3 (cell) -/
example (diag : List (List Bool)) : ∃ d, interp2 exIo exViS exEffS diag (7/10) 3 =
    cellVal d (39/50) (23/25) (3/5) (383/500) (1/2) (10/13) := by
  obtain ⟨d, h⟩ := interp2_cell_any_order exAccepted exNodup diag (k := 1) (r1 := 1) (r2 := 2) (x := 7/10) (y := 3)
    (by simp [exIo]) (by simp [exViS]) (by simp [exViS]) exNeighbours (by norm_num [exIo]) (by norm_num [exIo])
    (by norm_num [exViS]) (by norm_num [exViS])
  refine ⟨d, ?_⟩
  norm_num [exIo, exViS, exEffS, getD2] at h ⊢
  exact h

/-- 3 (clamp): beyond the last io knot and below the smallest |vi| -/
example (diag : List (List Bool)) :
    interp2 exIo exViS exEffS diag 5 1 = interp2 exIo exViS exEffS diag (9/10) 2 := by
  have := interp2_clamp_any_order exAccepted exNodup diag (lo := 2) (hi := 5) (by norm_num [exViS, nabs])
    (by intro v hv; simp [exViS, nabs] at hv; rcases hv with rfl | rfl | rfl <;> norm_num)
    (by norm_num [exViS, nabs])
    (by intro v hv; simp [exViS, nabs] at hv; rcases hv with rfl | rfl | rfl <;> norm_num) 5 1
  rw [this]; norm_num [exIo, clamp, List.getLastD]

end examples

end C10
end SysLoss
