/-
  Props/C14 — the tree stays well-formed under any sequence of edits.

  Model: `Model/Graph` (`Sys`, `step`: System.__init__, add_source, add_comp, change_comp, del_comp, set_sys_phases,
  set_comp_phases mirrored statement by statement), abstraction and well-formedness: `Spec/Structure` (`abs`, `WF`).

    legal_init, legal_step   the model state stays one the Python data structures can be in (rustworkx PyDAG state with
                             unique `nodes` keys, a `pnames` entry per live node) — for every call, whatever its outcome
    wf_init                  a freshly constructed system is well-formed
    wf_step                  EVERY call — accepted or rejected — preserves well-formedness
    wf_reachable             hence every state reached by any history is well-formed (induction over the history)
    wf_nonvacuous            a non-trivial history (mux, parents by rail, renames of mux inputs, both del_childs,
                             re-use of a freed name / rail / node index, rejected calls) evaluated in the kernel
    regression_*             the minimal histories of the former findings F16–F21, F32–F34 (fixed in /repo):
                             what they do now

  Full strength: no hypothesis on the call or its arguments.  (Before the fixes 41d27b8 … 8226650 in /repo these
  statements were false; the witnesses are kept below as kernel-evaluated regressions.)
-/
import SysLoss.Proofs.Reject

set_option linter.unusedSectionVars false
set_option linter.unusedVariables false
set_option linter.unusedSimpArgs false

namespace SysLoss
namespace C14
section
variable {π ν : Type} [CompLike π]

/-- the constructor leaves a legal state -/
theorem legal_init {name : String} {src : π} {g r : String} {s : Sys π ν}
    (h : Sys.init name src g r = some s) : Legal s := legal_init_all h

/-- every call keeps the state legal, whatever its arguments and outcome -/
theorem legal_step {s : Sys π ν} (hl : Legal s) (op : Op π ν) : Legal (s.step op).1 := legal_step_all hl op

theorem legal_run {s : Sys π ν} (hl : Legal s) (ops : List (Op π ν)) : Legal (s.run ops) := by
  induction ops generalizing s with
  | nil => exact hl
  | cons op ops ih => exact ih (legal_step hl op)

/-- C14 (1): `System(name, source, group, rail)` is well-formed -/
theorem wf_init {name : String} {src : π} {g r : String} {s : Sys π ν}
    (h : Sys.init name src g r = some s) : s.abs.WF := by
  have hs := (legal_init h).sane
  apply wf_abs_of_wfr hs
  unfold Sys.init at h
  split at h
  · simp at h
  · next hk =>
    split at h
    · simp at h
    · next hrail =>
      simp only [Option.some.injEq] at h
      subst h
      have hk' : kindOfC src = .source := by simpa using hk
      constructor
      · simp [Sys.names]
      · unfold Sys.railNames; simp only [dvals_cons, dvals_nil]
        by_cases h0 : r = "" <;> simp [List.filter_cons, h0]
      · intro x hx
        simp only [Sys.names, List.map_cons, List.map_nil, List.mem_singleton] at hx
        subst hx
        unfold Sys.railNames
        simp only [dvals_cons, dvals_nil, List.mem_filter, List.mem_singleton, decide_eq_true_eq, not_and]
        intro e hne
        exact hrail ⟨e ▸ hne, e.symm⟩
      · intro p hp
        simp only [List.mem_singleton] at hp; subst hp
        simp [Sys.preds, hk']
      · intro p hp hm
        simp only [List.mem_singleton] at hp; subst hp
        simp [Sys.preds] at hm
      · simp only [List.filter_cons, List.filter_nil]; split <;> simp
      · intro e he; simp at he
      · intro x hx; simpa [Sys.names] using hx
      · intro p hp
        simp only [List.mem_singleton] at hp; subst hp
        simp [dget]
      · intro x; simp [Sys.names]
      · intro x; simp [Sys.names]
      · intro x; simp [Sys.names]
      · intro p hp hm
        simp only [List.mem_singleton] at hp; subst hp
        simp [Sys.preds] at hm

/-- C14 (2): every call — accepted or rejected, whatever its arguments — preserves well-formedness -/
theorem wf_step {s : Sys π ν} (hl : Legal s) (hw : s.abs.WF) (op : Op π ν) : (s.step op).1.abs.WF := by
  have hs := hl.sane
  have hr := wfr_of_wf_abs hs hw
  apply wf_abs_of_wfr (legal_step hl op).sane
  cases op with
  | addSource c g r => exact wfr_addSource hs hr c g r
  | addComp p c g r => exact wfr_addComp hs hr p c g r
  | changeComp x c g r => exact wfr_changeComp hs hr x c g r
  | delComp x d =>
    show WFr (s.delComp x d).1
    rcases delComp_spec hs hr hl.pnames_total x d with h | ⟨_, h⟩
    · rw [h]; exact hr
    · exact h
  | setSysPhases ph => exact wfr_setSysPhases hr ph
  | setCompPhases x pc => exact wfr_setCompPhases hr x pc

/-- C14 (3): every state reached by a history of calls is well-formed -/
theorem wf_reachable {s : Sys π ν} (hl : Legal s) (hw : s.abs.WF) (ops : List (Op π ν)) : (s.run ops).abs.WF := by
  induction ops generalizing s with
  | nil => exact hw
  | cons op ops ih => exact ih (legal_step hl op) (wf_step hl hw op)

/-- … from construction on: whatever is done to a `System`, it is well-formed -/
theorem wf_always {name : String} {src : π} {g r : String} {s : Sys π ν}
    (h : Sys.init name src g r = some s) (ops : List (Op π ν)) : (s.run ops).abs.WF :=
  wf_reachable (legal_init h) (wf_init h) ops

end

/-! ### kernel-evaluated instances -/

abbrev S := Sys PComp String

def src (n : String) : PComp := { name := n, kind := .source }
def conv (n : String) : PComp := { name := n, kind := .converter }
def pload (n : String) : PComp := { name := n, kind := .pload }
def mux (n : String) : PComp := { name := n, kind := .pmux }

/-- `System("s", Source("S"))` -/
def s0 : S := { name := "s", comps := [(0, src "S")], edges := [], free := [], next := 1, nodes := [("S", 0)],
                phaseConf := [("S", .table [])], groups := [("S", "")], rails := [("S", "")], pnames := [(0, [])],
                phases := [] }

theorem s0_init : Sys.init "s" (src "S") "" "" = some s0 := rfl

theorem s0_legal : Legal s0 := legal_init s0_init

def demo : List (Op PComp String) :=
  [ .addSource (src "T") "g" "rT",                         -- second source, with a rail
    .addComp (.one "S") (conv "B") "" "rB",                -- S → B
    .addComp (.one "rB") (pload "L") "" "",                -- parent addressed by rail
    .addComp (.many ["rT", "B"]) (mux "M") "" "rM",        -- mux on [T (by rail), B]
    .addComp (.one "M") (pload "K") "g" "",
    .addComp (.one "nosuch") (conv "X") "" "",             -- rejected: unknown parent
    .addComp (.one "S") (mux "M2") "" "",                  -- rejected: second PMux
    .addComp (.many ["T", "rT"]) (mux "M3") "" "",         -- rejected: the same parent by name and by rail
    .changeComp "L" (pload "L2") "" "",                    -- rename a leaf
    .changeComp "T" (src "T2") "" "",                      -- rename a mux input that was recorded by its rail, dropping the rail
    .changeComp "B" (conv "B2") "" "rB",                   -- rejected: the rail is in use (its own — pinned by test_case18)
    .changeComp "B" (conv "B2") "" "rB2",                  -- rename a mux input recorded by name
    .changeComp "M" (mux "M") "g2" "rM2",                  -- same name, new (free) rail
    .changeComp "B2" (pload "B2") "" "",                   -- rejected: a load cannot carry B2's children
    .changeComp "S" (conv "S") "" "",                      -- rejected: source to other type
    .setSysPhases [("p1", "1.0"), ("p2", "2.0")],
    .setCompPhases "L2" (.conf (.table [("p1", "0.5")])),
    .setCompPhases "rM2" (.conf (.names ["p1"])),          -- rejected: a rail is not a component
    .delComp "K" false,                                    -- delete a leaf
    .delComp "rM2" true,                                   -- rejected: a rail is not a component
    .delComp "S" false,                                    -- rejected: source without its children
    .delComp "B2" false,                                   -- mux input deleted: the mux is re-pointed to S
    .delComp "S" true,                                     -- S, L2?, M go
    .addComp (.one "T2") (conv "B") "" "rB",               -- name, rail and node index re-used
    .addSource (src "S") "" "" ]

set_option maxRecDepth 8000 in
/-- the general theorem, instantiated, and the same fact evaluated by the kernel together with the outcomes -/
theorem wf_nonvacuous :
    (s0.run demo).abs.WF ∧ (s0.run demo).comps.length = 3 ∧
    s0.outcomes demo = [.ok, .ok, .ok, .ok, .ok, .raised "ValueError", .raised "ValueError", .raised "ValueError",
                        .ok, .ok, .raised "ValueError", .ok, .ok, .raised "ValueError", .raised "ValueError", .ok, .ok,
                        .raised "ValueError", .ok, .raised "ValueError", .raised "ValueError", .ok, .ok, .ok, .ok] := by
  decide

example : (s0.run demo).abs.WF := wf_always s0_init demo

/-! ### the former findings, now regressions -/

/-- F16: change_comp to a load of a component with children is rejected -/
theorem regression_F16 :
    s0.outcomes [.addComp (.one "S") (conv "B") "" "", .addComp (.one "B") (pload "L") "" "",
                 .changeComp "B" (pload "B") "" ""] = [.ok, .ok, .raised "ValueError"] := by decide

/-- F17 / F17b: an unchanged name no longer skips the rail check -/
theorem regression_F17 :
    s0.outcomes [.addComp (.one "S") (conv "B") "" "R", .addComp (.one "S") (conv "C") "" "",
                 .changeComp "C" (conv "C") "" "R", .changeComp "C" (conv "C") "" "S",
                 .changeComp "C" (conv "C") "" "C", .changeComp "B" (conv "B") "" "R"] =
      [.ok, .ok, .raised "ValueError", .raised "ValueError", .raised "ValueError", .ok] := by decide

/-- F18: renaming a mux input re-points the recorded input -/
theorem regression_F18 :
    let s := s0.run [.addSource (src "T") "" "", .addComp (.many ["S", "T"]) (mux "M") "" "",
                     .changeComp "T" (src "T2") "" ""]
    s.abs.WF ∧ dget s.pnames 2 = some ["S", "T2"] := by decide

/-- F19: deleting a mux input without its children re-points the recorded input to the deleted component's parent -/
theorem regression_F19 :
    let s := s0.run [.addSource (src "T") "" "", .addComp (.one "T") (conv "C") "" "",
                     .addComp (.many ["S", "C"]) (mux "M") "" "", .delComp "C" false]
    s.abs.WF ∧ dget s.pnames 3 = some ["S", "T"] := by decide

/-- F19, the duplicate case: the deleted input's parent already is an input -/
theorem regression_F19_dup :
    let s := s0.run [.addComp (.one "S") (conv "C") "" "", .addComp (.many ["S", "C"]) (mux "M") "" "",
                     .delComp "C" false]
    s.abs.WF ∧ dget s.pnames 2 = some ["S"] ∧ s.preds 2 = [0] := by decide

/-- F20 / F21: rail names do not address components in del_comp / set_comp_phases -/
theorem regression_F20_F21 :
    s0.outcomes [.addComp (.one "S") (conv "B") "" "R", .delComp "R" true,
                 .setCompPhases "R" (.conf (.names ["a"]))] = [.ok, .raised "ValueError", .raised "ValueError"] := by
  decide

/-- F32: change_comp cannot create a second PMux -/
theorem regression_F32 :
    s0.outcomes [.addComp (.one "S") (mux "M") "" "", .addComp (.one "S") (conv "B") "" "",
                 .changeComp "B" (mux "M2") "" ""] = [.ok, .ok, .raised "ValueError"] := by decide

/-- F33: the constructor rejects a rail equal to the source's name; F34: an empty parent list is a ValueError -/
theorem regression_F33_F34 :
    (Sys.init "s" (src "S") "" "S" : Option S) = none ∧
    s0.outcomes [.addComp (.many []) (mux "M") "" ""] = [.raised "ValueError"] := by
  constructor
  · rfl
  · decide

end C14
end SysLoss
