/-
  Props/C14 — the tree stays well-formed under any sequence of edits.

  Model: `Model/Graph` (`Sys`, `step`), abstraction and well-formedness: `Spec/Structure` (`abs`, `WF`),
  excluded call patterns: `Spec/Safe` (`Safe`, `SafeInit`).

    sane_init, sane_step      the graph of the model stays a legal rustworkx PyDAG state — unconditionally
    wf_init_partial           a freshly constructed system is well-formed              (unless rail = source name: F33)
    wf_step_partial           every call, accepted or rejected, preserves WF           (for `Safe` calls)
    wf_reachable_partial      every state reached by a history of `Safe` calls is WF   (induction over the history)
    wf_init_full_fails, wf_step_full_fails and `fNN_breaks_wf`
                              the statements without the `Safe` hypotheses are FALSE for system.py as it stands:
                              one reachable witness per finding F16, F17, F17b, F18, F19, F20, F21, F32, F33
    safe_nonvacuous           `SafeHist` holds on a non-trivial history (mux, parents by rail, rename, both del_childs,
                              re-use of a freed name and index, rejected calls)
-/
import SysLoss.Proofs.WfAbs

set_option linter.unusedSectionVars false
set_option linter.unusedVariables false

namespace SysLoss
namespace C14
section
variable {π ν : Type} [CompLike π]

/-- the constructor leaves a legal graph state -/
theorem sane_init {name : String} {src : π} {g r : String} {s : Sys π ν}
    (h : Sys.init name src g r = some s) : Sane s := sane_init_all h

/-- every call keeps the graph a legal rustworkx state, whatever its arguments and outcome -/
theorem sane_step {s : Sys π ν} (hs : Sane s) (op : Op π ν) : Sane (s.step op).1 := sane_step_all hs op

theorem sane_run {s : Sys π ν} (hs : Sane s) (ops : List (Op π ν)) : Sane (s.run ops) := by
  induction ops generalizing s with
  | nil => exact hs
  | cons op ops ih => exact ih (sane_step hs op)

/-- C14 (1): `System(name, source, group, rail)` is well-formed — unless `rail` is the source's own name (F33) -/
theorem wf_init_partial {name : String} {src : π} {g r : String} {s : Sys π ν}
    (h : Sys.init name src g r = some s) (hsafe : Sys.SafeInit src r) : s.abs.WF := by
  have hs := sane_init h
  apply wf_abs_of_wfr hs
  unfold Sys.init at h
  split at h
  · simp at h
  · next hk =>
    simp only [Option.some.injEq] at h
    subst h
    have hk' : kindOfC src = .source := by simpa using hk
    constructor
    · simp [Sys.names]
    · unfold Sys.railNames; simp only [dvals_cons, dvals_nil]
      by_cases h0 : r = "" <;> simp [List.filter_cons, h0]
    · intro x hx
      simp only [Sys.names, List.map_cons, List.map_nil, List.mem_singleton] at hx
      subst hx
      unfold Sys.railNames
      simp only [dvals_cons, dvals_nil, List.mem_filter, List.mem_singleton, decide_eq_true_eq, not_and]
      intro e hne
      rcases hsafe with h0 | h0
      · rw [h0] at e; exact hne e
      · exact h0 e.symm
    · intro p hp
      simp only [List.mem_singleton] at hp; subst hp
      simp [Sys.preds, hk']
    · intro p hp hm
      simp only [List.mem_singleton] at hp; subst hp
      simp [Sys.preds] at hm
    · simp only [List.filter_cons, List.filter_nil]; split <;> simp
    · intro e he; simp at he
    · intro x hx; simpa [Sys.names] using hx
    · intro p hp
      simp only [List.mem_singleton] at hp; subst hp
      simp [dget]
    · intro x; simp [Sys.names]
    · intro x; simp [Sys.names]
    · intro x; simp [Sys.names]
    · intro p hp hm
      simp only [List.mem_singleton] at hp; subst hp
      simp [Sys.preds] at hm

/-- C14 (2): every `Safe` call — accepted or rejected — preserves well-formedness -/
theorem wf_step_partial {s : Sys π ν} (hs : Sane s) (hw : s.abs.WF) (op : Op π ν) (hsafe : s.Safe op) :
    (s.step op).1.abs.WF := by
  have hr := wfr_of_wf_abs hs hw
  apply wf_abs_of_wfr (sane_step hs op)
  cases op with
  | addSource c g r => exact wfr_addSource hs hr c g r
  | addComp p c g r => exact wfr_addComp hs hr p c g r
  | changeComp x c g r => exact wfr_changeComp hs hr x c g r hsafe
  | delComp x d => exact wfr_delComp hs hr x d hsafe
  | setSysPhases ph => exact wfr_setSysPhases hr ph
  | setCompPhases x pc => exact wfr_setCompPhases hr x pc hsafe

/-- C14 (3): every state reached by a history of `Safe` calls is well-formed -/
theorem wf_reachable_partial {s : Sys π ν} (hs : Sane s) (hw : s.abs.WF) (ops : List (Op π ν))
    (hsafe : s.SafeHist ops) : (s.run ops).abs.WF := by
  induction ops generalizing s with
  | nil => exact hw
  | cons op ops ih =>
    obtain ⟨h1, h2⟩ := hsafe
    exact ih (sane_step hs op) (wf_step_partial hs hw op h1) h2

/-- … and so is every intermediate state -/
theorem wf_prefix_partial {s : Sys π ν} (hs : Sane s) (hw : s.abs.WF) (ops : List (Op π ν))
    (hsafe : s.SafeHist ops) (k : Nat) : (s.run (ops.take k)).abs.WF := by
  apply wf_reachable_partial hs hw
  induction ops generalizing s k with
  | nil => simp [Sys.SafeHist]
  | cons op ops ih =>
    cases k with
    | zero => simp [Sys.SafeHist]
    | succ k =>
      obtain ⟨h1, h2⟩ := hsafe
      exact ⟨h1, ih (sane_step hs op) (wf_step_partial hs hw op h1) h2 k⟩

end

/-! ### the full statements, and why they fail for the code as it stands -/

abbrev S := Sys PComp String

/-- C14 (1) at full strength -/
def wf_init_full : Prop :=
  ∀ (name : String) (src : PComp) (g r : String) (s : S), Sys.init name src g r = some s → s.abs.WF

/-- C14 (2) at full strength -/
def wf_step_full : Prop := ∀ (s : S) (op : Op PComp String), Sane s → s.abs.WF → (s.step op).1.abs.WF

def src (n : String) : PComp := { name := n, kind := .source }
def conv (n : String) : PComp := { name := n, kind := .converter }
def pload (n : String) : PComp := { name := n, kind := .pload }
def mux (n : String) : PComp := { name := n, kind := .pmux }

/-- `System("s", Source("S"))` -/
def s0 : S := { name := "s", comps := [(0, src "S")], edges := [], free := [], next := 1, nodes := [("S", 0)],
                phaseConf := [("S", .table [])], groups := [("S", "")], rails := [("S", "")], pnames := [(0, [])],
                phases := [] }

theorem s0_init : Sys.init "s" (src "S") "" "" = some s0 := rfl

theorem s0_sane : Sane s0 := sane_init s0_init

/-- F33: `System("s", Source("S"), rail="S")` -/
theorem wf_init_full_fails : ¬ wf_init_full := by
  intro h
  have := h "s" (src "S") "" "S" _ rfl
  revert this
  decide

/-- a reachable, well-formed state and a call that breaks well-formedness -/
def Breaks (pre : List (Op PComp String)) (op : Op PComp String) : Prop :=
  (s0.run pre).abs.WF ∧ ¬ ((s0.run pre).step op).1.abs.WF

instance (pre : List (Op PComp String)) (op : Op PComp String) : Decidable (Breaks pre op) := by
  unfold Breaks; infer_instance

theorem breaks_refutes {pre : List (Op PComp String)} {op : Op PComp String} (h : Breaks pre op) : ¬ wf_step_full :=
  fun hf => h.2 (hf _ op (sane_run s0_sane pre) h.1)

/-- F16: add_comp("S", Converter("B")); add_comp("B", PLoad("L")); change_comp("B", PLoad("B")) -/
theorem f16_breaks_wf : Breaks [.addComp (.one "S") (conv "B") "" "", .addComp (.one "B") (pload "L") "" ""]
    (.changeComp "B" (pload "B") "" "") := by decide

/-- F17: add_comp("S", Converter("B"), rail="R"); add_comp("S", Converter("C")); change_comp("C", Converter("C"), rail="R") -/
theorem f17_breaks_wf : Breaks [.addComp (.one "S") (conv "B") "" "R", .addComp (.one "S") (conv "C") "" ""]
    (.changeComp "C" (conv "C") "" "R") := by decide

/-- F17b: add_comp("S", Converter("B")); change_comp("B", Converter("B"), rail="S") -/
theorem f17b_breaks_wf : Breaks [.addComp (.one "S") (conv "B") "" ""] (.changeComp "B" (conv "B") "" "S") := by
  decide

/-- F18: add_source(Source("T")); add_comp(["S","T"], PMux("M")); change_comp("T", Source("T2")) -/
theorem f18_breaks_wf : Breaks [.addSource (src "T") "" "", .addComp (.many ["S", "T"]) (mux "M") "" ""]
    (.changeComp "T" (src "T2") "" "") := by decide

/-- F19: add_source(Source("T")); add_comp("T", Converter("C")); add_comp(["S","C"], PMux("M")); del_comp("C", del_childs=False) -/
theorem f19_breaks_wf : Breaks [.addSource (src "T") "" "", .addComp (.one "T") (conv "C") "" "",
    .addComp (.many ["S", "C"]) (mux "M") "" ""] (.delComp "C" false) := by decide

/-- F20: add_comp("S", Converter("B"), rail="R"); del_comp("R") -/
theorem f20_breaks_wf : Breaks [.addComp (.one "S") (conv "B") "" "R"] (.delComp "R" true) := by decide

/-- F21: add_comp("S", Converter("B"), rail="R"); set_comp_phases("R", ["a"]) -/
theorem f21_breaks_wf : Breaks [.addComp (.one "S") (conv "B") "" "R"] (.setCompPhases "R" (.conf (.names ["a"]))) := by
  decide

/-- F32: add_comp("S", PMux("M")); add_comp("S", Converter("B")); change_comp("B", PMux("M2")) -/
theorem f32_breaks_wf : Breaks [.addComp (.one "S") (mux "M") "" "", .addComp (.one "S") (conv "B") "" ""]
    (.changeComp "B" (mux "M2") "" "") := by decide

theorem wf_step_full_fails : ¬ wf_step_full := breaks_refutes f16_breaks_wf

/-- each of the witnesses is excluded by `Safe`, i.e. `Safe` is not stronger than needed there -/
theorem witnesses_unsafe :
    ¬ (s0.run [.addComp (.one "S") (conv "B") "" "", .addComp (.one "B") (pload "L") "" ""]).Safe
        (.changeComp "B" (pload "B") "" "") ∧
    ¬ (s0.run [.addSource (src "T") "" "", .addComp (.many ["S", "T"]) (mux "M") "" ""]).Safe
        (.changeComp "T" (src "T2") "" "") ∧
    ¬ (s0.run [.addComp (.one "S") (conv "B") "" "R"]).Safe (.delComp "R" true) := by decide

/-! ### non-vacuity: `Safe` holds along non-trivial histories -/

def demo : List (Op PComp String) :=
  [ .addSource (src "T") "g" "rT",                         -- second source, with a rail
    .addComp (.one "S") (conv "B") "" "rB",                -- S → B
    .addComp (.one "rB") (pload "L") "" "",                -- parent addressed by rail
    .addComp (.many ["rT", "B"]) (mux "M") "" "rM",        -- mux on [T (by rail), B]
    .addComp (.one "M") (pload "K") "g" "",
    .addComp (.one "nosuch") (conv "X") "" "",             -- rejected: unknown parent
    .addComp (.one "S") (mux "M2") "" "",                  -- rejected: second PMux
    .changeComp "L" (pload "L2") "" "",                    -- rename a leaf
    .changeComp "M" (mux "M") "g2" "rM2",                  -- same name, new (free) rail
    .changeComp "S" (conv "S") "" "",                      -- rejected: source to other type
    .setSysPhases [("p1", "1.0"), ("p2", "2.0")],
    .setCompPhases "L2" (.conf (.table [("p1", "0.5")])),
    .delComp "K" false,                                    -- delete a leaf
    .delComp "S" false,                                    -- rejected: source without its children
    .delComp "B" true,                                     -- B, L2, M go
    .addComp (.one "S") (conv "B") "" "rB",                -- name, rail and node index re-used
    .delComp "T" true ]                                    -- one of two sources

theorem safe_nonvacuous :
    s0.SafeHist demo ∧ (s0.run demo).abs.WF ∧ (s0.run demo).comps.length = 2 ∧
    s0.outcomes demo = [.ok, .ok, .ok, .ok, .ok, .raised "ValueError", .raised "ValueError", .ok, .ok,
                        .raised "ValueError", .ok, .ok, .ok, .raised "ValueError", .ok, .ok, .ok] := by
  decide

/-- the theorem applies to it -/
example : (s0.run demo).abs.WF :=
  wf_reachable_partial s0_sane (wf_init_partial s0_init (by decide)) demo safe_nonvacuous.1

end C14
end SysLoss
