/-
  Props/C16 — results depend on the final structure only: the bookkeeping part.

  Every analysis of system.py starts with `_rel_update()` (`_parents`, `_childs`), `_set_phase_lkup()` and the
  component list.  For a well-formed state — and every reachable state is well-formed (C14) — these are functions of
  the abstract, name-keyed structure `abs s` alone:

    names_factor        the components listed are the entries of `abs s`
    rel_factors         `_parents[n]` (by name, in order) is the entry's `parents`, all resolved and among its feeders;
                        `_childs[n]` (by name) are exactly the entries that list `n` among their feeders
    phase_lkup_factors  `_phase_lkup[n]` is the configuration stored under the component's name
    noops_invisible     a rejected call leaves no trace in `abs` of any later state
    factors_nonvacuous  two different histories (different node indices, insertion orders, a deletion and a rename) with
                        the same final structure: same names, same relationships

  Node indices, freed indices, dict insertion order and the `pnames` bookkeeping therefore cannot influence what the
  solver is given — up to the numbering of the nodes.  That the solver and the table assembly commute with such a
  renumbering is NOT proved here; the C16 check tests it (edited system vs systems built from scratch).
-/
import SysLoss.Props.C15
import SysLoss.Props.C16Sweep

set_option linter.unusedSectionVars false
set_option linter.unusedVariables false
set_option linter.unusedSimpArgs false

namespace SysLoss

section
variable {π ν : Type} [CompLike π]

namespace Sys

/-- `_parents[n]` by name (`none`: the `-1` of an unresolvable recorded input, or `_get_parents` raising) -/
def parentNames (s : Sys π ν) (n : Nat) : List (Option String) :=
  match s.parentsOf n with
  | .ok l => l.map fun o => o.bind s.nameOf
  | .error _ => [none]

/-- `_childs[n]` by name -/
def childNames (s : Sys π ν) (n : Nat) : List String := (s.succs n).filterMap s.nameOf

/-- `_phase_lkup[n]` after `_set_phase_lkup()`: the last `phase_conf` entry whose key resolves to `n` -/
def phaseLkup (s : Sys π ν) (n : Nat) : Option (PhaseConf ν) :=
  ((s.phaseConf.filter fun kv => decide (s.getIndex kv.1 = .ok (some n))).getLast?).map (·.2)

end Sys

namespace AStruct

/-- the children of the component named `x`: the entries that list it among their feeders -/
def childrenOf (a : AStruct π ν) (x : String) : List String :=
  (a.comps.filter fun c => decide (x ∈ c.preds.map (·.1))).map (·.name)

/-- the phase configuration stored under the name `x` -/
def confOf (a : AStruct π ν) (x : String) : Option (PhaseConf ν) :=
  ((a.phaseConf.filter fun kv => decide (kv.1 = x)).getLast?).map (·.2)

end AStruct

namespace C16

/-- the components every report walks over are the entries of the abstract structure -/
theorem names_factor (s : Sys π ν) : s.comps.map (fun p => nameOfC p.2) = s.abs.comps.map (·.name) := by
  simp [Sys.abs, Sys.absEntry, List.map_map, Function.comp]

/-- `_rel_update()` factors through the abstract structure -/
theorem rel_factors {s : Sys π ν} (hl : Legal s) (hw : s.abs.WF) {p : Nat × π} (hp : p ∈ s.comps) :
    s.parentNames p.1 = (s.absEntry p).parents ∧
    (∀ x ∈ s.parentNames p.1, ∃ q, x = some q ∧ q ∈ (s.absEntry p).preds.map (·.1)) ∧
    (∀ x, x ∈ s.childNames p.1 ↔ x ∈ s.abs.childrenOf (nameOfC p.2)) := by
  have hs := hl.sane
  have hr := wfr_of_wf_abs hs hw
  refine ⟨rfl, ?_, ?_⟩
  · intro x hx
    obtain ⟨l, hl', hsub, _⟩ := parentsOf_ok hr hp
    unfold Sys.parentNames at hx
    rw [hl'] at hx
    obtain ⟨o, ho, rfl⟩ := List.mem_map.mp hx
    obtain ⟨q, hq, rfl⟩ := hsub o ho
    obtain ⟨c, hc⟩ := payload?_of_mem_ids (preds_live hs hq).1
    refine ⟨nameOfC c, by simp [Sys.nameOf, hc], ?_⟩
    exact List.mem_map.mpr ⟨(nameOfC c, kindOfC c), mem_predInfo.mpr ⟨q, hq, c, hc, rfl⟩, rfl⟩
  · intro x
    unfold Sys.childNames AStruct.childrenOf
    simp only [List.mem_filterMap, List.mem_map, List.mem_filter, decide_eq_true_eq]
    constructor
    · rintro ⟨k, hk, hx⟩
      obtain ⟨kc, hkc⟩ := payload?_of_mem_ids (hs.edges_live _ (mem_succs.mp hk)).2
      have hx' : nameOfC kc = x := by simpa [Sys.nameOf, hkc] using hx
      refine ⟨s.absEntry (k, kc), ⟨mem_abs_comps.mpr ⟨(k, kc), mem_of_payload? hkc, rfl⟩, ?_⟩, hx'⟩
      refine ⟨(nameOfC p.2, kindOfC p.2), ?_, rfl⟩
      exact mem_predInfo.mpr ⟨p.1, mem_preds.mpr (mem_succs.mp hk), p.2, payload?_of_mem hs hp, rfl⟩
    · rintro ⟨e, ⟨he, ⟨pi, hpi, hpn⟩⟩, rfl⟩
      obtain ⟨c, hc, rfl⟩ := mem_abs_comps.mp he
      obtain ⟨q, hq, qc, hqc, rfl⟩ := mem_predInfo.mp hpi
      have : (q, qc) = p := name_inj hr.names_nodup (mem_of_payload? hqc) hp hpn
      have hq' : q = p.1 := by rw [← this]
      refine ⟨c.1, mem_succs.mpr (by rw [← hq']; exact mem_preds.mp hq), ?_⟩
      simp [Sys.nameOf, payload?_of_mem hs hc, Sys.absEntry]

/-- `_set_phase_lkup()` factors through the abstract structure -/
theorem phase_lkup_factors {s : Sys π ν} (hl : Legal s) (hw : s.abs.WF) {p : Nat × π} (hp : p ∈ s.comps) :
    s.phaseLkup p.1 = s.abs.confOf (nameOfC p.2) := by
  have hs := hl.sane
  have hr := wfr_of_wf_abs hs hw
  unfold Sys.phaseLkup AStruct.confOf
  have : (s.phaseConf.filter fun kv => decide (s.getIndex kv.1 = .ok (some p.1))) =
      (s.abs.phaseConf.filter fun kv => decide (kv.1 = nameOfC p.2)) := by
    show _ = s.phaseConf.filter _
    apply List.filter_congr
    intro kv hkv
    have hk : kv.1 ∈ s.names := (hr.pconf_keys kv.1).mp (mem_dkeys.mpr ⟨kv.2, hkv⟩)
    obtain ⟨q, hq, hqn⟩ := mem_names.mp hk
    have hgi := getIndex_name hr hq
    rw [hqn] at hgi
    by_cases h : kv.1 = nameOfC p.2
    · have hgp := getIndex_name hr hp
      simp [h, hgp]
    · have : q.1 ≠ p.1 := fun e => h (by rw [← hqn, eq_of_mem_same_id hs hq hp e])
      simp [h, hgi, this]
  rw [this]

/-- a rejected call leaves no trace: the abstract structure after the rest of the history is the same -/
theorem noops_invisible {s : Sys π ν} (hl : Legal s) (hw : s.abs.WF) (h₁ h₂ : List (Op π ν)) (op : Op π ν) {e : String}
    (h : ((s.run h₁).step op).2 = .raised e) : (s.run (h₁ ++ op :: h₂)).abs = (s.run (h₁ ++ h₂)).abs := by
  rw [(C15.reject_then_continue hl hw h₁ h₂ op h).1]

end C16
end

/-! ### the solver's view of an edited system -/

section
variable {α : Type} [OfNat α 0]

/-- what `_rel_update()` / `_set_phase_lkup()` / `_sys_vars()` hand to the solver of Model/Solver: node payloads
    indexed by node index with `_parents[n]` (`-1` entries dropped), `_childs[n]`, the phase configuration found by
    `_phase_lkup[n]`, group and rail; `topo` is rustworkx's topological order (a parameter) -/
def Sys.toSSys (s : Sys (Comp α) α) (topo : List Nat) : SSys α :=
  let hidx := s.ids.foldl max 0 + 1
  { nodes := (List.range hidx).toArray.map fun n =>
      (s.payload? n).map fun c =>
        { comp := c
          parents := ((s.parentsOf n).toOption.getD []).filterMap id
          childs := s.succs n
          pconf := (s.phaseLkup n).getD (.table [])
          group := (dget s.groups c.name).getD ""
          rail := (dget s.rails c.name).getD "" }
    topo := topo
    phases := s.phases }

namespace C16

/-- the solver sees, for every live component, exactly the relationships and the phase configuration that factor
    through the abstract structure (`rel_factors`, `phase_lkup_factors`) -/
theorem toSSys_node {s : Sys (Comp α) α} (topo : List Nat) {n : Nat} (hn : n ∈ s.ids)
    (hlt : n < s.ids.foldl max 0 + 1) :
    ∃ c, s.payload? n = some c ∧
      (s.toSSys topo).node? n = some
        { comp := c, parents := ((s.parentsOf n).toOption.getD []).filterMap id, childs := s.succs n,
          pconf := (s.phaseLkup n).getD (.table []), group := (dget s.groups c.name).getD "",
          rail := (dget s.rails c.name).getD "" } := by
  obtain ⟨c, hc⟩ := payload?_of_mem_ids hn
  refine ⟨c, hc, ?_⟩
  unfold Sys.toSSys SSys.node?
  simp [Array.getD, hlt, hc]

end C16
end

/-! ### two histories, one structure -/

namespace C16
open C14 (S s0 src conv pload mux)

/-- S → B → {L, K}, built directly … -/
def histA : List (Op PComp String) :=
  [.addComp (.one "S") (conv "B") "" "", .addComp (.one "B") (pload "L") "" "", .addComp (.one "B") (pload "K") "" ""]

/-- … and by a detour: other insertion order, a deleted subtree whose node indices are re-used, a rename -/
def histB : List (Op PComp String) :=
  [.addComp (.one "S") (conv "X") "" "", .addComp (.one "X") (pload "Y") "" "", .addComp (.one "S") (pload "Q") "" "",
   .delComp "X" true, .addComp (.one "S") (conv "B0") "" "", .addComp (.one "B0") (pload "K") "" "",
   .addComp (.one "B0") (pload "L") "" "", .changeComp "B0" (conv "B") "" "", .delComp "Q" true]

def relOf (s : S) : List (String × List (Option String) × List String) :=
  s.comps.map fun p => (p.2.name, s.parentNames p.1, s.childNames p.1)

theorem factors_nonvacuous :
    (s0.run histA).ids ≠ (s0.run histB).ids ∧
    (∀ r ∈ relOf (s0.run histA), ∃ r' ∈ relOf (s0.run histB), r.1 = r'.1 ∧ r.2.1 = r'.2.1 ∧
        (∀ c ∈ r.2.2, c ∈ r'.2.2) ∧ (∀ c ∈ r'.2.2, c ∈ r.2.2)) ∧
    (relOf (s0.run histA)).length = (relOf (s0.run histB)).length ∧
    (s0.run histA).childNames 1 = ["L", "K"] ∧ (s0.run histB).childNames 1 = ["K", "L"] := by
  decide

end C16
end SysLoss
