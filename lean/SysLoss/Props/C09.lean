/-
  Props/C09 — warnings appear exactly when an applicable limit is exceeded.

   * `warn_iff`            : a token is in the Warnings cell iff it is one of the limits applicable to
                             the kind and the row's quantity for it lies outside the configured
                             (or default) `[min, max]` — by magnitude, the peak temperature by signed value.
   * `applicable_*`        : the applicability table of the docstrings.
   * `inactive_no_warn`    : converter / regulator / switch / mux / load with a phase configuration that
                             does not list the phase: empty cell; sources and series losses are always evaluated.
   * `boundary_no_warn`    : a quantity exactly on a limit does not warn (strict comparisons).
   * `default_limits`      : limits not supplied take the documented defaults.
-/
import SysLoss.Proofs.Basic
import SysLoss.Model.Warn

set_option linter.unusedSectionVars false
set_option linter.unusedVariables false

namespace SysLoss
namespace C09
variable {α : Type} [Field α] [LinearOrder α] [IsStrictOrderedRing α]

/-- the ten reported quantities of a row, as documented -/
def quantity (c : Comp α) (vi vo ii io ta : α) (ph : PhaseCtx α) (key : String) : Option α :=
  let r := c.solvPwrLoss vi vo ii io ta ph
  match key with
  | "vi" => some vi | "vo" => some vo | "vd" => some (|vi| - |vo|) | "ii" => some ii | "io" => some io
  | "pi" => some r.pwr | "po" => some (r.pwr - r.loss) | "pl" => some r.loss
  | "tr" => some r.tr | "tp" => some r.tp
  | _ => none

/-- "outside [min, max]": by magnitude, the peak temperature by signed value -/
def Outside (key : String) (lim : α × α) (x : α) : Prop :=
  if key = "tp" then lim.2 < x ∨ x < lim.1 else |lim.2| < |x| ∨ |x| < |lim.1|

theorem outOfRange_iff (key : String) (lim : α × α) (x : α) :
    outOfRange key lim x = true ↔ Outside key lim x := by
  unfold outOfRange Outside
  by_cases hk : key = "tp"
  · simp [hk]
  · have : (key == "tp") = false := by simpa using hk
    simp [hk, this]

theorem getWarns_mem (limits : List (String × (α × α))) (checks : List (String × α)) (k : String) :
    k ∈ getWarns limits checks ↔ ∃ x, (k, x) ∈ checks ∧ Outside k (lookupLimit limits k) x := by
  unfold getWarns
  simp only [List.mem_map, List.mem_filter, Prod.exists]
  constructor
  · rintro ⟨a, x, ⟨hm, ho⟩, rfl⟩
    exact ⟨x, hm, (outOfRange_iff _ _ _).mp ho⟩
  · rintro ⟨x, hm, ho⟩
    exact ⟨k, x, ⟨hm, (outOfRange_iff _ _ _).mpr ho⟩, rfl⟩

theorem lookup_eq_some_iff_mem (l : List (String × α)) (hn : (l.map (·.1)).Nodup) (k : String) (x : α) :
    l.lookup k = some x ↔ (k, x) ∈ l := by
  induction l with
  | nil => simp
  | cons p rest ih =>
    obtain ⟨a, b⟩ := p
    simp only [List.map_cons, List.nodup_cons, List.mem_map, Prod.exists, exists_and_right, exists_eq_right,
      not_exists] at hn
    simp only [List.lookup_cons, List.mem_cons, Prod.mk.injEq]
    by_cases hka : k = a
    · subst hka
      simp only [beq_self_eq_true, Option.some.injEq, true_and]
      constructor
      · intro h; exact Or.inl h.symm
      · rintro (h | h)
        · exact h.symm
        · exact absurd h (hn.1 x)
    · have : (k == a) = false := by simpa using hka
      simp only [this, hka, false_and, false_or]
      exact ih hn.2

/-- the keys of `all` restricted to the applicable ones, in order -/
theorem checks_mem (keys : List String) (all : List (String × α)) (k : String) (x : α)
    (hnodup : (all.map (·.1)).Nodup) :
    (k, x) ∈ (keys.filterMap fun k' => (all.lookup k').map fun y => (k', y)) ↔ k ∈ keys ∧ (k, x) ∈ all := by
  simp only [List.mem_filterMap, Option.map_eq_some_iff, Prod.mk.injEq]
  constructor
  · rintro ⟨k', hk', y, hy, rfl, rfl⟩
    exact ⟨hk', (lookup_eq_some_iff_mem all hnodup _ _).mp hy⟩
  · rintro ⟨hk, hm⟩
    exact ⟨k, hk, x, (lookup_eq_some_iff_mem all hnodup _ _).mpr hm, rfl, rfl⟩

/-- **Warnings, exactly.**  For a component evaluated in a phase in which it is not silenced, token `k`
    is reported iff `k` is applicable to the kind and the documented quantity lies outside the limit. -/
theorem warn_iff (c : Comp α) (vi vo ii io ta : α) (ph : PhaseCtx α) (k : String)
    (hloud : ¬ ((c.kind.ctype ≠ .SOURCE ∧ c.kind.ctype ≠ .SLOSS) ∧ ph.inactive = true)) :
    k ∈ c.solvGetWarns vi vo ii io ta ph ↔
      k ∈ c.kind.limitKeys ∧ ∃ x, quantity c vi vo ii io ta ph k = some x ∧ Outside k (lookupLimit c.limits k) x := by
  unfold Comp.solvGetWarns
  have hcond : ((c.kind.ctype != .SOURCE && c.kind.ctype != .SLOSS) && ph.inactive) = false := by
    by_contra hh
    apply hloud
    simp only [Bool.not_eq_false, Bool.and_eq_true, bne_iff_ne, ne_eq] at hh
    exact hh
  simp only [hcond, Bool.false_eq_true, if_false]
  rw [getWarns_mem]
  constructor
  · rintro ⟨x, hm, ho⟩
    rw [checks_mem _ _ _ _ (by simp)] at hm
    refine ⟨hm.1, x, ?_, ho⟩
    have := hm.2
    simp only [List.mem_cons, Prod.mk.injEq, List.not_mem_nil, or_false, nabs_eq_abs] at this
    rcases this with ⟨rfl, rfl⟩ | ⟨rfl, rfl⟩ | ⟨rfl, rfl⟩ | ⟨rfl, rfl⟩ | ⟨rfl, rfl⟩ | ⟨rfl, rfl⟩ | ⟨rfl, rfl⟩ |
      ⟨rfl, rfl⟩ | ⟨rfl, rfl⟩ | ⟨rfl, rfl⟩ <;> rfl
  · rintro ⟨hk, x, hq, ho⟩
    refine ⟨x, ?_, ho⟩
    rw [checks_mem _ _ _ _ (by simp)]
    refine ⟨hk, ?_⟩
    unfold quantity at hq
    simp only [List.mem_cons, Prod.mk.injEq, List.not_mem_nil, or_false, nabs_eq_abs]
    split at hq <;> simp_all

/-- **Silenced phases.**  A converter, regulator, switch, mux, rectifier or load whose phase
    configuration does not list the phase reports no warnings. -/
theorem inactive_no_warn (c : Comp α) (vi vo ii io ta : α) (ph : PhaseCtx α)
    (hk : c.kind.ctype ≠ .SOURCE ∧ c.kind.ctype ≠ .SLOSS) (hina : ph.inactive = true) :
    c.solvGetWarns vi vo ii io ta ph = [] := by
  unfold Comp.solvGetWarns
  simp [hk.1, hk.2, hina]

/-- every reported token is applicable to the kind -/
theorem warn_applicable (c : Comp α) (vi vo ii io ta : α) (ph : PhaseCtx α) (k : String)
    (h : k ∈ c.solvGetWarns vi vo ii io ta ph) : k ∈ c.kind.limitKeys := by
  by_cases hl : (c.kind.ctype ≠ .SOURCE ∧ c.kind.ctype ≠ .SLOSS) ∧ ph.inactive = true
  · rw [inactive_no_warn c vi vo ii io ta ph hl.1 hl.2] at h; cases h
  · exact ((warn_iff c vi vo ii io ta ph k hl).mp h).1

/-- the applicability table of the docstrings -/
theorem applicable_table :
    Kind.source.limitKeys = ["io", "po", "pl"] ∧
    Kind.pload.limitKeys = ["vi", "ii", "tr", "tp"] ∧
    Kind.iload.limitKeys = ["vi", "pi", "tr", "tp"] ∧
    Kind.rload.limitKeys = ["vi", "ii", "pi", "tr", "tp"] ∧
    Kind.converter.limitKeys = ["vi", "vo", "ii", "io", "pi", "po", "pl", "tr", "tp"] ∧
    (∀ k ∈ [Kind.rloss, .vloss, .linreg, .pswitch, .pmux, .rectifier],
        k.limitKeys = ["vi", "vo", "vd", "ii", "io", "pi", "po", "pl", "tr", "tp"]) := by
  refine ⟨rfl, rfl, rfl, rfl, rfl, ?_⟩
  intro k hk
  simp only [List.mem_cons, List.not_mem_nil, or_false] at hk
  rcases hk with rfl | rfl | rfl | rfl | rfl | rfl <;> rfl

/-- limits not supplied take the documented defaults: `[0, 1e6]`, peak temperature `[-1e6, 1e6]` -/
theorem default_limits (limits : List (String × (α × α))) (k : String) (h : limits.lookup k = none) :
    lookupLimit limits k = if k = "tp" then (-1000000, 1000000) else (0, 1000000) := by
  unfold lookupLimit limitsDefault
  rw [h]
  by_cases hk : k = "tp" <;> simp [hk]

/-- **Strict comparisons.** A quantity whose magnitude equals a limit's magnitude (and lies within the
    other limit) does not warn. -/
theorem boundary_no_warn (key : String) (lo hi x : α) (hkey : key ≠ "tp")
    (h : (|x| = |hi| ∧ |lo| ≤ |x|) ∨ (|x| = |lo| ∧ |x| ≤ |hi|)) :
    outOfRange key (lo, hi) x = false := by
  rw [← Bool.not_eq_true, outOfRange_iff]
  unfold Outside
  simp only [hkey, if_false]
  rcases h with ⟨h1, h2⟩ | ⟨h1, h2⟩
  · rintro (h | h)
    · rw [h1] at h; exact lt_irrefl _ h
    · exact absurd h (not_lt.mpr h2)
  · rintro (h | h)
    · exact absurd h (not_lt.mpr h2)
    · rw [h1] at h; exact lt_irrefl _ h

theorem boundary_no_warn_tp (lo hi x : α) (h : (x = hi ∧ lo ≤ x) ∨ (x = lo ∧ x ≤ hi)) :
    outOfRange "tp" (lo, hi) x = false := by
  rw [← Bool.not_eq_true, outOfRange_iff]
  unfold Outside
  simp only [if_true]
  rcases h with ⟨h1, h2⟩ | ⟨h1, h2⟩
  · rintro (h | h)
    · rw [h1] at h; exact lt_irrefl _ h
    · exact absurd h (not_lt.mpr h2)
  · rintro (h | h)
    · exact absurd h (not_lt.mpr h2)
    · rw [h1] at h; exact lt_irrefl _ h

/-- non-vacuity: a 12 V load limited to `vi ≤ 10` warns `vi` and nothing else -/
def exLoad : Comp ℚ := { name := "L", kind := .iload, par := .const 0, ii := 1, limits := [("vi", (0, 10))] }

example : exLoad.solvGetWarns 12 0 1 0 25 PhaseCtx.none = ["vi"] := by decide +kernel

end C09
end SysLoss
