/-
  Props/C11System — property C11, consequence clause: "a system built from accepted components never shows
  negative loss, efficiency above 100 % or a passive element raising its voltage".

  `Props/C11` proves `accepted_normalised : mkComp kind name a = .ok c → c.Phys`; Props/C02Table, C03, C05,
  C07Total prove facts about rows ASSUMING `Comp.Phys` for every node.  This file composes the two, starting
  from CONSTRUCTOR CALLS: `BuiltFrom s` says that the component of every live node of the solver view is the
  result of some `mkComp kind name args` (raw, un-normalised arguments).

  Setting of every theorem: `BuiltFrom s`, a well-formed solver view (`C02.TreeWF`), non-negative phase values
  of loads (`C02.PhaseValOK`; they are not constructor arguments), an EXACT steady state of the model's own
  sweeps (`C02.Steady`: `fwdProp v i st = ok (v, _)`, `backProp v i st = i`, a flag only on a 0 V output), and
  the rows `SSys.compRows` / the total row of `SSys.phaseTable` (Model/Table.lean) built from that state.

   1. `built_rows_nonneg` (FULL strength) : every component row has numeric Power, Loss cells, both ≥ 0.
   2. `built_rows_physical_partial` : every component row is `RowPhysical` — `0 ≤ Power`, `0 ≤ Loss`,
      `Loss ≤ Power` whenever `Power > 0`, efficiency cell within [0, 100] and equal to `100·(P − L)/P` for
      `P > 0` (all kinds: `pl_eff_spec` shows the cell is `_get_eff(P, P − L, 0 | 100)` for every kind).
      Excluded: finding F01 only (`NoNegSourceWithRs`: no Source with `vo < 0` and `rs ≠ 0`).
      `built_rows_physical_full_fails`: without the exclusion the statement is false on a system built by
      constructor calls (`Source(vo=-1, rs=1) → ILoad(ii=3)`: Power 3 W, Loss 9 W, efficiency 200 %).
      The Converter with `vo = 0` (F35) is NOT excluded here: its row shows Power > 0 only asleep, where
      Loss = Power (`converter_vo0_curr`, `converter_idle_loss_le`).
   3. `built_rows_loss_le_power_partial` : `Loss ≤ Power` outright for every row that is not a load's
      (a load with `loss=True` books its consumption as Loss, Power 0).  Excluded: F01 and F35
      (`NoZeroConverter`).  `built_rows_loss_le_power_full_fails`: with only F01 excluded it is false
      (`Source(5 V) → Converter(vo=0, eff=0.9, iq=-0.1)`: Power 0 W, Loss 0.5 W).
   4. `built_passive_no_amplify` (FULL strength) : every RLoss / VLoss ("SLOSS"), PSwitch, PMux, Rectifier row
      has `|Vout| ≤ |Vin|`, and Vout is 0 or has the polarity of Vin (Rectifier: Vout > 0).  For a PMux, Vin
      is what the row shows: the voltage of the selected input (`mux_ok_physical`).
   5. `built_total_eff_le_100_partial`, `built_total_loss_le_power_partial` : the "System total" row has
      `0 ≤ Loss ≤ Power` and an efficiency within [0, 100] — `C07.total_*_partial` with `Phys` discharged by
      `accepted_normalised`; hypotheses that remain: F01, F35, `C07.SrcNamesDistinct`.

  NOT covered: tolerance-converged (non-exact) states; the "Subsystem" rows (Props/C07Total §4 has them under
  `CompsOK`, `BuiltFrom.compsOK` supplies that); LinReg / Converter outputs (not passive elements); phase
  values of loads are assumed ≥ 0.
  Non-vacuity: `exSys` = Source(10 V, rs=-1), Source(5 V) → PMux(rs=-1) → RLoss(rs=-1, rt=-20) → ILoad(ii=-2),
  every component obtained by evaluating `mkComp` on the raw (negative) arguments.
-/
import SysLoss.Props.C03
import SysLoss.Props.C07Total
import SysLoss.Props.C11

set_option linter.unusedSectionVars false
set_option linter.unusedVariables false
set_option linter.unusedSimpArgs false
set_option linter.unnecessarySeqFocus false
set_option linter.unusedTactic false
set_option linter.unreachableTactic false

namespace SysLoss
namespace C11
open C02
variable {α : Type} [Field α] [LinearOrder α] [IsStrictOrderedRing α]

/-! ### 0. systems built from constructor calls -/

/-- every live component of the solver view is what some constructor call `Kind(name, **args)` returned -/
def BuiltFrom (s : SSys α) : Prop :=
  ∀ n nd, s.node? n = some nd → ∃ (kind : Kind) (name : String) (a : Args α), mkComp kind name a = .ok nd.comp

/-- finding F01 excluded: no Source with a negative EMF *and* a series resistance -/
def NoNegSourceWithRs (s : SSys α) : Prop :=
  ∀ n nd, s.node? n = some nd → nd.comp.kind = .source → 0 ≤ nd.comp.vo ∨ nd.comp.rs = 0

/-- finding F35 excluded: no Converter with `vo = 0` -/
def NoZeroConverter (s : SSys α) : Prop :=
  ∀ n nd, s.node? n = some nd → nd.comp.kind = .converter → nd.comp.vo ≠ 0

/-- **constructor calls ⇒ accepted parameters** for every live component (`accepted_normalised`) -/
theorem BuiltFrom.phys {s : SSys α} (h : BuiltFrom s) : ∀ n nd, s.node? n = some nd → nd.comp.Phys := by
  intro n nd hnd
  obtain ⟨kind, name, a, hc⟩ := h n nd hnd
  exact accepted_normalised kind name a nd.comp hc

theorem BuiltFrom.compsOK {s : SSys α} (h : BuiltFrom s) (hf : NoNegSourceWithRs s) (hc : NoZeroConverter s) :
    CompsOK s := ⟨h.phys, hf, hc⟩

/-! ### A. one component: shape and range of the efficiency cell -/

/-- the efficiency cell of every kind is `_get_eff(Power, Power − Loss, default)` with default 0 or 100
    (constant cells 0 / 100 included: they go with Power = 0, or with Loss = 0) -/
theorem pl_eff_spec (c : Comp α) (vi vo ii io ta : α) (ph : PhaseCtx α) :
    ∃ d, (d = 0 ∨ d = 100) ∧
      (c.solvPwrLoss vi vo ii io ta ph).eff
        = getEff (c.solvPwrLoss vi vo ii io ta ph).pwr
            ((c.solvPwrLoss vi vo ii io ta ph).pwr - (c.solvPwrLoss vi vo ii io ta ph).loss) d := by
  have z0 : ∀ x e : α, getEff (0 : α) x e = e := by intro x e; unfold getEff; simp
  have z1 : ∀ p : α, getEff p (p - 0) 100 = 100 := by
    intro p; unfold getEff
    split_ifs with h
    · rw [sub_zero, div_self (ne_of_gt h)]; simp
    · rfl
  unfold Comp.solvPwrLoss finishPL PL.zeros
  cases hk : c.kind <;> simp only <;> split_ifs <;>
    first
    | exact ⟨_, Or.inl rfl, rfl⟩
    | exact ⟨_, Or.inr rfl, rfl⟩
    | exact ⟨0, Or.inl rfl, (z0 _ 0).symm⟩
    | exact ⟨100, Or.inr rfl, (z0 _ 100).symm⟩
    | exact ⟨100, Or.inr rfl, (z1 _).symm⟩

/-- `_get_eff(P, P − L, d)` with `0 ≤ L`, `L ≤ P` whenever `P > 0`, and a default of 0 or 100 lies in
    [0, 100]; for `P > 0` it is the documented `100·(P − L)/P`. -/
theorem getEff_range (p l d : α) (hd : d = 0 ∨ d = 100) (hl0 : 0 ≤ l) (hl : 0 < p → l ≤ p) :
    0 ≤ getEff p (p - l) d ∧ getEff p (p - l) d ≤ 100 ∧ (0 < p → getEff p (p - l) d = 100 * (p - l) / p) := by
  by_cases hp : 0 < p
  · obtain ⟨h1, h2, h3⟩ := eff_formula p l d hp hl0 (hl hp)
    exact ⟨h2, h3, fun _ => h1⟩
  · unfold getEff
    rw [if_neg hp]
    refine ⟨?_, ?_, fun h => absurd h hp⟩ <;> rcases hd with rfl | rfl <;> norm_num

/-- a load that shows Power > 0 is not a loss-load: it books no Loss -/
theorem load_loss_le (c : Comp α) (hk : c.kind.ctype = .LOAD) (vi vo ii io ta : α) (ph : PhaseCtx α) :
    0 < (c.solvPwrLoss vi vo ii io ta ph).pwr →
      (c.solvPwrLoss vi vo ii io ta ph).loss ≤ (c.solvPwrLoss vi vo ii io ta ph).pwr := by
  unfold Comp.solvPwrLoss PL.zeros
  cases hkk : c.kind <;> simp only [hkk, Kind.ctype, reduceCtorEq, nabs_eq_abs] at hk ⊢ <;> split_ifs <;>
    first
    | (intro h; exact absurd h (lt_irrefl _))
    | (intro _; exact abs_nonneg _)

/-- a Converter with `vo = 0` never draws current (F35) … -/
theorem converter_vo0_curr (c : Comp α) (hk : c.kind = .converter) (hvo : c.vo = 0) (vi : List α) (io : α)
    (ph : PhaseCtx α) (off : List Bool) : c.solvInpCurr vi io ph off = 0 := by
  have hz : isZ c.vo = true := (isZ_iff _).mpr hvo
  unfold Comp.solvInpCurr; simp [hk, hz]

/-- … so its row shows Power > 0 only asleep, where Loss = Power -/
theorem converter_idle_loss_le (c : Comp α) (hk : c.kind = .converter) (vi vo io ta : α) (ph : PhaseCtx α) :
    0 < (c.solvPwrLoss vi vo 0 io ta ph).pwr →
      (c.solvPwrLoss vi vo 0 io ta ph).loss ≤ (c.solvPwrLoss vi vo 0 io ta ph).pwr := by
  unfold Comp.solvPwrLoss finishPL PL.zeros
  simp only [hk, mul_zero, nabs_eq_abs, abs_zero]
  split_ifs <;> intro h <;> first | exact absurd h (lt_irrefl _) | exact le_refl _

/-! ### B. the row of one live node of an exact steady state -/

/-- **Loss ≤ Power, one node.**  Row of a live node of an exact steady state, accepted parameters, a
    Source not of the F01 kind: whenever the row shows Power > 0 its Loss does not exceed it; for every
    row but a load's, and a Converter not of the F35 kind, `Loss ≤ Power` outright. -/
theorem rowOf_loss_le (s : SSys α) (hwf : TreeWF s) (hphys : ∀ n nd, s.node? n = some nd → nd.comp.Phys)
    (phase : String) (ta : α) (v i : Vec α) (st : St) (hst : Steady s phase v i st) (hi : ∀ m, 0 ≤ vget i m)
    (n : Nat) (nd : SNode α) (hnode : s.node? n = some nd)
    (hf01 : nd.comp.kind = .source → 0 ≤ nd.comp.vo ∨ nd.comp.rs = 0) :
    (0 < (rowOf s phase ta v i st n).pwr → (rowOf s phase ta v i st n).loss ≤ (rowOf s phase ta v i st n).pwr) ∧
    ((nd.comp.kind = .converter → nd.comp.vo ≠ 0) → nd.comp.kind.ctype ≠ .LOAD →
      (rowOf s phase ta v i st n).loss ≤ (rowOf s phase ta v i st n).pwr) := by
  have hn : n ∈ s.topo := mem_of_node s hwf n nd hnode
  have hc := hphys n nd hnode
  have hio := ioOf_nonneg s nd n hnode v i st hi
  have fed : ∀ (r : PL α) (vi vo ii io : α), 0 ≤ io → FedOK r vi vo ii io → r.loss ≤ r.pwr := by
    intro r vi vo ii io h0 hf
    have := mul_nonneg (abs_nonneg vo) h0
    have := hf.1
    linarith
  by_cases hk : nd.comp.kind = .pmux
  · have hpne := mux_parents_ne s hwf n nd hnode hk
    obtain ⟨hfed, _⟩ := mux_node_ok s phase ta v i st hwf.bound hst hi n nd hn hnode hk hpne hc
    rw [rowOf_mux s phase ta v i st n nd hnode hk hpne]
    have := fed _ _ _ _ _ hio hfed
    exact ⟨fun _ => this, fun _ _ => this⟩
  · rcases parents_cases' s hwf n nd hnode hk with h0 | ⟨p, h1⟩
    · have hsrc := (hwf.rootSrc n nd hnode).mp h0
      obtain ⟨g1, _⟩ := root_node_ok s phase ta v i st hwf.bound hst hi n nd hn hnode h0 hsrc hc (hf01 hsrc)
        (vget v n + nd.comp.rs * vget i n) (vget v n)
      rw [rowOf_root s phase ta v i st n nd hnode h0]
      have h2 := mul_nonneg (abs_nonneg (vget v n)) (hi n)
      refine ⟨fun _ => ?_, fun _ _ => ?_⟩ <;> simp only <;> linarith
    · have hns : nd.comp.kind ≠ .source := by
        intro e
        have := (hwf.rootSrc n nd hnode).mpr e
        rw [h1] at this; cases this
      rw [rowOf_fed s phase ta v i st n p nd hnode h1]
      by_cases hld : nd.comp.kind.ctype = .LOAD
      · exact ⟨load_loss_le nd.comp hld _ _ _ _ _ _, fun _ h => absurd hld h⟩
      · by_cases hcv : nd.comp.kind = .converter → nd.comp.vo ≠ 0
        · have hfed := fed_node_ok s phase ta v i st hwf.bound hst hi n p nd hn hnode h1 hns hk hld hc hcv
          have := fed _ _ _ _ _ hio hfed
          exact ⟨fun _ => this, fun _ _ => this⟩
        · obtain ⟨hkc, hv0'⟩ := Classical.not_imp.mp hcv
          have hv0 : nd.comp.vo = 0 := not_not.mp hv0'
          refine ⟨?_, fun h => absurd hv0 (h hkc)⟩
          obtain ⟨_, hbk⟩ := steady_cell s phase v i st hwf.bound hst n hn
          rw [(C01.sweep_args_are_row s phase ta v i st n p nd hnode h1 "").2,
            converter_vo0_curr nd.comp hkc hv0] at hbk
          rw [← hbk]
          exact converter_idle_loss_le nd.comp hkc _ _ _ _ _

/-- the numeric cells of any row, the efficiency cell included, are the loss law applied to the row's own
    Vin, Vout, Iin, Iout -/
theorem compRow_cells (s : SSys α) (phase : String) (ta : α) (v i : Vec α) (st : St)
    (n : Nat) (nd : SNode α) (hnode : s.node? n = some nd) (d : String) :
    let r := (s.compRow phase ta v i st n d).1
    ∃ VI IO, r.vin = some VI ∧ r.vout = some (vget v n) ∧ r.iin = some (vget i n) ∧ r.iout = some IO ∧
      r.pwr = some (nd.comp.solvPwrLoss VI (vget v n) (vget i n) IO ta (nd.pconf.ctx phase)).pwr ∧
      r.loss = some (nd.comp.solvPwrLoss VI (vget v n) (vget i n) IO ta (nd.pconf.ctx phase)).loss ∧
      r.eff = some (nd.comp.solvPwrLoss VI (vget v n) (vget i n) IO ta (nd.pconf.ctx phase)).eff ∧
      r.typ = nd.comp.kind.ctype.name ∧ r.name = nd.comp.name := by
  intro r
  have hr : r = (s.compRow phase ta v i st n d).1 := rfl
  unfold SSys.compRow at hr
  simp only [hnode] at hr
  rw [hr]
  exact ⟨_, _, rfl, rfl, rfl, rfl, rfl, rfl, rfl, rfl, rfl⟩

/-- what "physical" means for one table row: numeric Power, Loss and Efficiency cells with
    `0 ≤ Power`, `0 ≤ Loss`, `Loss ≤ Power` whenever any Power is shown, and an efficiency within
    [0, 100] which for `Power > 0` is the documented `100·(Power − Loss)/Power` -/
def RowPhysical (r : Row α) : Prop :=
  ∃ P L E, r.pwr = some P ∧ r.loss = some L ∧ r.eff = some E ∧ 0 ≤ P ∧ 0 ≤ L ∧ (0 < P → L ≤ P) ∧
    0 ≤ E ∧ E ≤ 100 ∧ (0 < P → E = 100 * (P - L) / P)

/-- `Loss ≤ Power` for a row that is not a load's (a load configured as loss books its consumption as Loss) -/
def RowLossLePower (r : Row α) : Prop :=
  r.typ ≠ "LOAD" → ∃ P L, r.pwr = some P ∧ r.loss = some L ∧ L ≤ P

theorem ctype_name_ne_load (k : Kind) : k.ctype.name ≠ "LOAD" ↔ k.ctype ≠ .LOAD := by
  cases k <;> simp [Kind.ctype, CType.name]

/-- the row of one live node is physical (any inherited domain name `d`) -/
theorem node_row_physical (s : SSys α) (hwf : TreeWF s) (hphys : ∀ n nd, s.node? n = some nd → nd.comp.Phys)
    (phase : String) (ta : α) (v i : Vec α) (st : St) (hst : Steady s phase v i st) (hi : ∀ m, 0 ≤ vget i m)
    (n : Nat) (nd : SNode α) (hnode : s.node? n = some nd)
    (hf01 : nd.comp.kind = .source → 0 ≤ nd.comp.vo ∨ nd.comp.rs = 0) (d : String) :
    RowPhysical (s.compRow phase ta v i st n d).1 ∧
    ((nd.comp.kind = .converter → nd.comp.vo ≠ 0) → RowLossLePower (s.compRow phase ta v i st n d).1) := by
  have e1 := domainFree_compRow (fun r : Row α => RowPhysical r) (fun _ _ => rfl) s phase ta v i st n d ""
  have e2 := domainFree_compRow (fun r : Row α => RowLossLePower r) (fun _ _ => rfl) s phase ta v i st n d ""
  rw [e1, e2]
  obtain ⟨VI, IO, _, _, _, _, c5, c6, c7, c8, _⟩ := compRow_cells s phase ta v i st n nd hnode ""
  obtain ⟨n1, n2⟩ := C07.rowOf_nonneg s hwf hphys phase ta v i st hst hi n nd hnode
  obtain ⟨l1, l2⟩ := rowOf_loss_le s hwf hphys phase ta v i st hst hi n nd hnode hf01
  unfold rowOf cellsOf rP rL at n1 n2 l1 l2
  rw [c5] at n1 l1 l2
  rw [c6] at n2 l1 l2
  simp only [Option.getD_some] at n1 n2 l1 l2
  obtain ⟨d0, hd0, he⟩ := pl_eff_spec nd.comp VI (vget v n) (vget i n) IO ta (nd.pconf.ctx phase)
  obtain ⟨r1, r2, r3⟩ := getEff_range _ _ d0 hd0 n2 l1
  rw [← he] at r1 r2 r3
  refine ⟨⟨_, _, _, c5, c6, c7, n1, n2, l1, r1, r2, r3⟩, fun hcv hne => ⟨_, _, c5, c6, l2 hcv ?_⟩⟩
  rw [c8] at hne
  exact (ctype_name_ne_load _).mp hne

/-! ### C. passive elements: no amplification, no inversion -/

/-- a PMux whose voltage law returns neither amplifies nor inverts the input it selected; without a live
    input it outputs 0 V -/
theorem mux_ok_physical (c : Comp α) (hk : c.kind = .pmux) (hc : c.Phys) (vi : List α) (io : α) (hio : 0 ≤ io)
    (ph : PhaseCtx α) (off : List Bool) {v : α} {b : Bool} (h : c.solvOutpVolt vi io ph off = .ok (v, b)) :
    (∀ k, priInpAux off vi 0 = some k → |v| ≤ |vi.getD k 0| ∧ (v = 0 ∨ (0 < v ↔ 0 < vi.getD k 0))) ∧
    (priInpAux off vi 0 = none → v = 0) := by
  constructor
  · intro k hsel
    cases hina : ph.inactive with
    | true =>
      have hvo : v = 0 := by
        unfold Comp.solvOutpVolt at h
        simp only [hk, hsel, hina, if_true] at h
        cases hl : c.rsList with
        | some l =>
          simp only [hl] at h
          by_cases hlen : l.length < vi.length
          · simp [hlen] at h
          · simp only [hlen, if_false, Except.ok.injEq, Prod.mk.injEq] at h
            exact h.1.symm
        | none =>
          simp only [hl, Except.ok.injEq, Prod.mk.injEq] at h
          exact h.1.symm
      subst hvo
      exact ⟨by simp, Or.inl rfl⟩
    | false =>
      obtain ⟨_, h2, h3, _⟩ := C05.mux_volt c hk hc.rs vi io hio ph hina off k hsel h
      exact ⟨h2, Or.inr h3⟩
  · intro hnone
    unfold Comp.solvOutpVolt at h
    simp only [hk, hnone, Except.ok.injEq, Prod.mk.injEq] at h
    exact h.1.symm

/-- **Passive row, one node.**  In an exact steady state the row of a live RLoss / VLoss / PSwitch / PMux /
    Rectifier with accepted parameters shows `|Vout| ≤ |Vin|`, and Vout is 0 or has the polarity of Vin
    (Rectifier: is positive).  For a PMux "Vin" is what the row shows: the voltage of the selected input. -/
theorem rowOf_passive (s : SSys α) (hwf : TreeWF s) (hphys : ∀ n nd, s.node? n = some nd → nd.comp.Phys)
    (phase : String) (ta : α) (v i : Vec α) (st : St) (hst : Steady s phase v i st) (hi : ∀ m, 0 ≤ vget i m)
    (n : Nat) (nd : SNode α) (hnode : s.node? n = some nd)
    (hkind : nd.comp.kind = .rloss ∨ nd.comp.kind = .vloss ∨ nd.comp.kind = .pswitch ∨ nd.comp.kind = .pmux ∨
      nd.comp.kind = .rectifier) :
    |(rowOf s phase ta v i st n).vout| ≤ |(rowOf s phase ta v i st n).vin| ∧
      ((rowOf s phase ta v i st n).vout = 0 ∨
        (nd.comp.kind ≠ .rectifier → (0 < (rowOf s phase ta v i st n).vout ↔ 0 < (rowOf s phase ta v i st n).vin)) ∧
        (nd.comp.kind = .rectifier → 0 < (rowOf s phase ta v i st n).vout)) := by
  have hn : n ∈ s.topo := mem_of_node s hwf n nd hnode
  have hc := hphys n nd hnode
  have hio := ioOf_nonneg s nd n hnode v i st hi
  obtain ⟨⟨b, hf⟩, _⟩ := steady_cell s phase v i st hwf.bound hst n hn
  by_cases hk : nd.comp.kind = .pmux
  · have hpne := mux_parents_ne s hwf n nd hnode hk
    rw [rowOf_mux s phase ta v i st n nd hnode hk hpne]
    show |vget v n| ≤ |muxVin v st nd| ∧ (vget v n = 0 ∨
      (nd.comp.kind ≠ .rectifier → (0 < vget v n ↔ 0 < muxVin v st nd)) ∧ (nd.comp.kind = .rectifier → 0 < vget v n))
    have hne : nd.parents.isEmpty = false := by
      cases hp : nd.parents with
      | nil => exact absurd hp hpne
      | cons a l => rfl
    unfold SSys.fwdAt SSys.lawArgs at hf
    simp only [hnode, hne, Bool.false_eq_true, if_false] at hf
    obtain ⟨m1, m2⟩ := mux_ok_physical nd.comp hk hc _ _ hio _ _ hf
    cases hsel : priInpAux (nd.parents.map (sget st)) (nd.parents.map (vget v)) 0 with
    | none => rw [m2 hsel]; exact ⟨by simp, Or.inl rfl⟩
    | some k =>
      obtain ⟨h1, _, _, _⟩ := pri_some_spec _ _ k hsel
      rw [List.length_map] at h1
      have e : muxVin v st nd = vget v (nd.parents.getD k 0) := by unfold muxVin; rw [hsel]
      obtain ⟨a1, a2⟩ := m1 k hsel
      rw [getD_map_vget v nd.parents k h1, ← e] at a1 a2
      refine ⟨a1, ?_⟩
      rcases a2 with a2 | a2
      · exact Or.inl a2
      · exact Or.inr ⟨fun _ => a2, fun h => by rw [hk] at h; cases h⟩
  · rcases parents_cases' s hwf n nd hnode hk with h0 | ⟨p, h1⟩
    · have hsrc := (hwf.rootSrc n nd hnode).mp h0
      rw [hsrc] at hkind
      simp at hkind
    · rw [rowOf_fed s phase ta v i st n p nd hnode h1]
      rw [(C01.sweep_args_are_row s phase ta v i st n p nd hnode h1 "").1] at hf
      have hk' : nd.comp.kind = .rloss ∨ nd.comp.kind = .vloss ∨ nd.comp.kind = .pswitch ∨
          nd.comp.kind = .rectifier := by
        rcases hkind with h | h | h | h | h
        · exact Or.inl h
        · exact Or.inr (Or.inl h)
        · exact Or.inr (Or.inr (Or.inl h))
        · exact absurd h hk
        · exact Or.inr (Or.inr (Or.inr h))
      have := C03.passive_ok_physical nd.comp hc hk' [vget v p] _ hio _ _ hf
      simpa using this

/-- what the property asks of the row of a passive element: `|Vout| ≤ |Vin|`, and Vout is 0 or has the
    polarity of Vin (a Rectifier's output is positive) -/
def RowPassive (r : Row α) : Prop :=
  r.typ = "SLOSS" ∨ r.typ = "PSWITCH" ∨ r.typ = "PMUX" ∨ r.typ = "RECTIFIER" →
    ∃ Vi Vo, r.vin = some Vi ∧ r.vout = some Vo ∧ |Vo| ≤ |Vi| ∧
      (Vo = 0 ∨ (r.typ ≠ "RECTIFIER" → (0 < Vo ↔ 0 < Vi)) ∧ (r.typ = "RECTIFIER" → 0 < Vo))

theorem passive_typ (k : Kind) :
    (k.ctype.name = "SLOSS" ∨ k.ctype.name = "PSWITCH" ∨ k.ctype.name = "PMUX" ∨ k.ctype.name = "RECTIFIER" ↔
      k = .rloss ∨ k = .vloss ∨ k = .pswitch ∨ k = .pmux ∨ k = .rectifier) ∧
    (k.ctype.name = "RECTIFIER" ↔ k = .rectifier) := by
  cases k <;> simp [Kind.ctype, CType.name]

theorem node_row_passive (s : SSys α) (hwf : TreeWF s) (hphys : ∀ n nd, s.node? n = some nd → nd.comp.Phys)
    (phase : String) (ta : α) (v i : Vec α) (st : St) (hst : Steady s phase v i st) (hi : ∀ m, 0 ≤ vget i m)
    (n : Nat) (nd : SNode α) (hnode : s.node? n = some nd) (d : String) :
    RowPassive (s.compRow phase ta v i st n d).1 := by
  have e1 := domainFree_compRow (fun r : Row α => RowPassive r) (fun _ _ => rfl) s phase ta v i st n d ""
  rw [e1]
  obtain ⟨VI, IO, c1, c2, _, _, _, _, _, c8, _⟩ := compRow_cells s phase ta v i st n nd hnode ""
  intro htyp
  rw [c8] at htyp ⊢
  obtain ⟨p1, p2⟩ := passive_typ nd.comp.kind
  obtain ⟨q1, q2⟩ := rowOf_passive s hwf hphys phase ta v i st hst hi n nd hnode (p1.mp htyp)
  unfold rowOf cellsOf at q1 q2
  simp only [c1, c2, Option.getD_some] at q1 q2
  refine ⟨VI, vget v n, c1, c2, q1, ?_⟩
  rcases q2 with q2 | ⟨q2, q3⟩
  · exact Or.inl q2
  · exact Or.inr ⟨fun h => q2 fun e => h (p2.mpr e), fun h => q3 (p2.mp h)⟩

/-! ### D. the table of a system built from constructor calls -/

/-- **No negative Power or Loss** (full strength: neither exclusion is needed). -/
theorem built_rows_nonneg (s : SSys α) (hb : BuiltFrom s) (hwf : TreeWF s)
    (phase : String) (hpv : ∀ n nd, s.node? n = some nd → PhaseValOK (nd.pconf.ctx phase))
    (ta : α) (v i : Vec α) (st : St) (hst : Steady s phase v i st) :
    ∀ r ∈ s.compRows phase ta v i st, ∃ P L, r.pwr = some P ∧ r.loss = some L ∧ 0 ≤ P ∧ 0 ≤ L :=
  C07.rows_loss_nonneg s hwf hb.phys phase hpv ta v i st hst

/-- **Component rows of a built system are physical** — no negative Power / Loss, `Loss ≤ Power` whenever a
    Power is shown, efficiency within [0, 100] and equal to `100·(P − L)/P` for `P > 0`.
    Partial: finding F01 (Source with `vo < 0` and `rs ≠ 0`) is excluded; the Converter with `vo = 0`
    (F35) is NOT excluded here. -/
theorem built_rows_physical_partial (s : SSys α) (hb : BuiltFrom s) (hwf : TreeWF s) (hf01 : NoNegSourceWithRs s)
    (phase : String) (hpv : ∀ n nd, s.node? n = some nd → PhaseValOK (nd.pconf.ctx phase))
    (ta : α) (v i : Vec α) (st : St) (hst : Steady s phase v i st) :
    ∀ r ∈ s.compRows phase ta v i st, RowPhysical r := by
  intro r hr
  have hi := steady_currents_nonneg s hwf hb.phys phase hpv v i st hst.back
  obtain ⟨n, hn, d, rfl⟩ := C07.compRows_mem s phase ta v i st r hr
  obtain ⟨nd, hnd⟩ := node_of_mem s hwf n hn
  exact (node_row_physical s hwf hb.phys phase ta v i st hst hi n nd hnd (hf01 n nd hnd) d).1

/-- **Loss ≤ Power for every row that is not a load's.**  Partial: F01 and F35 (Converter with `vo = 0`,
    which books its idle loss against a Power of 0 W) are excluded. -/
theorem built_rows_loss_le_power_partial (s : SSys α) (hb : BuiltFrom s) (hwf : TreeWF s)
    (hf01 : NoNegSourceWithRs s) (hconv : NoZeroConverter s)
    (phase : String) (hpv : ∀ n nd, s.node? n = some nd → PhaseValOK (nd.pconf.ctx phase))
    (ta : α) (v i : Vec α) (st : St) (hst : Steady s phase v i st) :
    ∀ r ∈ s.compRows phase ta v i st, RowLossLePower r := by
  intro r hr
  have hi := steady_currents_nonneg s hwf hb.phys phase hpv v i st hst.back
  obtain ⟨n, hn, d, rfl⟩ := C07.compRows_mem s phase ta v i st r hr
  obtain ⟨nd, hnd⟩ := node_of_mem s hwf n hn
  exact (node_row_physical s hwf hb.phys phase ta v i st hst hi n nd hnd (hf01 n nd hnd) d).2 (hconv n nd hnd)

/-- **A passive element never raises or inverts its voltage** (full strength: no exclusion). -/
theorem built_passive_no_amplify (s : SSys α) (hb : BuiltFrom s) (hwf : TreeWF s)
    (phase : String) (hpv : ∀ n nd, s.node? n = some nd → PhaseValOK (nd.pconf.ctx phase))
    (ta : α) (v i : Vec α) (st : St) (hst : Steady s phase v i st) :
    ∀ r ∈ s.compRows phase ta v i st, RowPassive r := by
  intro r hr
  have hi := steady_currents_nonneg s hwf hb.phys phase hpv v i st hst.back
  obtain ⟨n, hn, d, rfl⟩ := C07.compRows_mem s phase ta v i st r hr
  obtain ⟨nd, hnd⟩ := node_of_mem s hwf n hn
  exact node_row_passive s hwf hb.phys phase ta v i st hst hi n nd hnd d

/-- **System total: efficiency within [0, 100]** (`C07.total_eff_le_100_table_partial` with `Phys`
    discharged by `accepted_normalised`).  Partial: F01, F35; sources have distinct names. -/
theorem built_total_eff_le_100_partial (s : SSys α) (hb : BuiltFrom s) (hwf : TreeWF s)
    (hnames : C07.SrcNamesDistinct s) (hf01 : NoNegSourceWithRs s) (hconv : NoZeroConverter s)
    (phase : String) (hpv : ∀ n nd, s.node? n = some nd → PhaseValOK (nd.pconf.ctx phase))
    (ta : α) (v i : Vec α) (st : St) (hst : Steady s phase v i st) :
    ∃ e, (s.phaseTable phase ta v i st).total.eff = some e ∧ 0 ≤ e ∧ e ≤ 100 :=
  C07.total_eff_le_100_table_partial s hwf hnames (hb.compsOK hf01 hconv) phase hpv ta v i st hst

/-- the System total row also has `0 ≤ Loss ≤ Power` -/
theorem built_total_loss_le_power_partial (s : SSys α) (hb : BuiltFrom s) (hwf : TreeWF s)
    (hnames : C07.SrcNamesDistinct s) (hf01 : NoNegSourceWithRs s) (hconv : NoZeroConverter s)
    (phase : String) (hpv : ∀ n nd, s.node? n = some nd → PhaseValOK (nd.pconf.ctx phase))
    (ta : α) (v i : Vec α) (st : St) (hst : Steady s phase v i st) :
    ∃ P L, (s.phaseTable phase ta v i st).total.pwr = some P ∧
      (s.phaseTable phase ta v i st).total.loss = some L ∧ 0 ≤ L ∧ L ≤ P :=
  C07.total_loss_le_power_partial s hwf hnames (hb.compsOK hf01 hconv) phase hpv ta v i st hst

/-! ### non-vacuity: Source(10 V, rs = −1 Ω), Source(5 V) → PMux(rs = −1 Ω) → RLoss(rs = −1 Ω) → ILoad(ii = −2 A),
    every component obtained by running the constructor model `mkComp` on the raw arguments (negative
    `rs` / `ii` are stored as magnitudes).  Steady state: 8 V / 5 V / 6 V / 4 V, 2 A through the chain. -/

/-- the component a constructor call returned (a dummy when it raised) -/
def okOr (r : Except Err (Comp ℚ)) : Comp ℚ :=
  match r with
  | .ok c => c
  | .error _ => { name := "", kind := .pload, par := .const 0 }

def isOkB (r : Except Err (Comp ℚ)) : Bool :=
  match r with
  | .ok _ => true
  | .error _ => false

theorem okOr_spec (r : Except Err (Comp ℚ)) (h : isOkB r = true) : r = .ok (okOr r) := by
  cases r with
  | ok c => rfl
  | error e => simp [isOkB] at h

def exS1Args : Args ℚ := [("vo", .int 10), ("rs", .int (-1))]
def exS2Args : Args ℚ := [("vo", .int 5)]
def exMxArgs : Args ℚ := [("rs", .int (-1))]
def exRsArgs : Args ℚ := [("rs", .int (-1)), ("rt", .int (-20))]
def exLdArgs : Args ℚ := [("ii", .int (-2))]
def exS1 : Comp ℚ := okOr (mkComp .source "S1" exS1Args)
def exS2 : Comp ℚ := okOr (mkComp .source "S2" exS2Args)
def exMx : Comp ℚ := okOr (mkComp .pmux "M" exMxArgs)
def exRs : Comp ℚ := okOr (mkComp .rloss "R" exRsArgs)
def exLd : Comp ℚ := okOr (mkComp .iload "L" exLdArgs)
def exN0 : SNode ℚ := { comp := exS1, parents := [], childs := [2], pconf := .names [] }
def exN1 : SNode ℚ := { comp := exS2, parents := [], childs := [2], pconf := .names [] }
def exN2 : SNode ℚ := { comp := exMx, parents := [0, 1], childs := [3], pconf := .names [] }
def exN3 : SNode ℚ := { comp := exRs, parents := [2], childs := [4] }
def exN4 : SNode ℚ := { comp := exLd, parents := [3], childs := [] }
def exSys : SSys ℚ :=
  { nodes := #[some exN0, some exN1, some exN2, some exN3, some exN4], topo := [0, 1, 2, 3, 4] }
def exV : Vec ℚ := #[8, 5, 6, 4, 0]
def exI : Vec ℚ := #[2, 0, 2, 2, 2]
def exSt : St := #[[false], [false], [false], [false], [false]]

/-- normalisation matters: the stored resistances / current are the magnitudes of the negative arguments -/
example : exS1.rs = 1 ∧ exMx.rs = 1 ∧ exRs.rs = 1 ∧ exRs.rt = 20 ∧ exLd.ii = 2 := by decide +kernel

theorem exNodes (n : Nat) (nd : SNode ℚ) (h : exSys.node? n = some nd) :
    (n = 0 ∧ nd = exN0) ∨ (n = 1 ∧ nd = exN1) ∨ (n = 2 ∧ nd = exN2) ∨ (n = 3 ∧ nd = exN3) ∨ (n = 4 ∧ nd = exN4) := by
  rcases n with _ | _ | _ | _ | _ | n
  · have h2 : exSys.node? 0 = some exN0 := rfl
    rw [h2] at h; exact Or.inl ⟨rfl, (Option.some.inj h).symm⟩
  · have h2 : exSys.node? 1 = some exN1 := rfl
    rw [h2] at h; exact Or.inr (Or.inl ⟨rfl, (Option.some.inj h).symm⟩)
  · have h2 : exSys.node? 2 = some exN2 := rfl
    rw [h2] at h; exact Or.inr (Or.inr (Or.inl ⟨rfl, (Option.some.inj h).symm⟩))
  · have h2 : exSys.node? 3 = some exN3 := rfl
    rw [h2] at h; exact Or.inr (Or.inr (Or.inr (Or.inl ⟨rfl, (Option.some.inj h).symm⟩)))
  · have h2 : exSys.node? 4 = some exN4 := rfl
    rw [h2] at h; exact Or.inr (Or.inr (Or.inr (Or.inr ⟨rfl, (Option.some.inj h).symm⟩)))
  · have h2 : exSys.node? (n + 5) = none := by simp [SSys.node?, exSys]
    rw [h2] at h; cases h

/-- the example system IS built from constructor calls -/
theorem exBuilt : BuiltFrom exSys := by
  intro n nd h
  rcases exNodes n nd h with ⟨rfl, rfl⟩ | ⟨rfl, rfl⟩ | ⟨rfl, rfl⟩ | ⟨rfl, rfl⟩ | ⟨rfl, rfl⟩
  · exact ⟨.source, "S1", exS1Args, okOr_spec _ (by decide +kernel)⟩
  · exact ⟨.source, "S2", exS2Args, okOr_spec _ (by decide +kernel)⟩
  · exact ⟨.pmux, "M", exMxArgs, okOr_spec _ (by decide +kernel)⟩
  · exact ⟨.rloss, "R", exRsArgs, okOr_spec _ (by decide +kernel)⟩
  · exact ⟨.iload, "L", exLdArgs, okOr_spec _ (by decide +kernel)⟩

theorem exWF : TreeWF exSys where
  nodup := by decide
  live := by
    intro n
    rcases n with _ | _ | _ | _ | _ | n
    · decide
    · decide
    · decide
    · decide
    · decide
    · have h2 : exSys.node? (n + 5) = none := by simp [SSys.node?, exSys]
      rw [h2]; simp [exSys]
  bound := by decide
  order := by
    intro p c pd h hc
    rcases exNodes p pd h with ⟨rfl, rfl⟩ | ⟨rfl, rfl⟩ | ⟨rfl, rfl⟩ | ⟨rfl, rfl⟩ | ⟨rfl, rfl⟩ <;>
      (revert c; decide +kernel)
  parLive := by
    intro n nd h p hp
    rcases exNodes n nd h with ⟨rfl, rfl⟩ | ⟨rfl, rfl⟩ | ⟨rfl, rfl⟩ | ⟨rfl, rfl⟩ | ⟨rfl, rfl⟩ <;>
      (revert p; decide +kernel)
  chLive := by
    intro n nd h c hc
    rcases exNodes n nd h with ⟨rfl, rfl⟩ | ⟨rfl, rfl⟩ | ⟨rfl, rfl⟩ | ⟨rfl, rfl⟩ | ⟨rfl, rfl⟩ <;>
      (revert c; decide +kernel)
  link := by
    intro p c pd cd hp hc
    rcases exNodes p pd hp with ⟨rfl, rfl⟩ | ⟨rfl, rfl⟩ | ⟨rfl, rfl⟩ | ⟨rfl, rfl⟩ | ⟨rfl, rfl⟩ <;>
      rcases exNodes c cd hc with ⟨rfl, rfl⟩ | ⟨rfl, rfl⟩ | ⟨rfl, rfl⟩ | ⟨rfl, rfl⟩ | ⟨rfl, rfl⟩ <;>
      decide +kernel
  chNodup := by
    intro n nd h
    rcases exNodes n nd h with ⟨rfl, rfl⟩ | ⟨rfl, rfl⟩ | ⟨rfl, rfl⟩ | ⟨rfl, rfl⟩ | ⟨rfl, rfl⟩ <;> decide +kernel
  parNodup := by
    intro n nd h
    rcases exNodes n nd h with ⟨rfl, rfl⟩ | ⟨rfl, rfl⟩ | ⟨rfl, rfl⟩ | ⟨rfl, rfl⟩ | ⟨rfl, rfl⟩ <;> decide +kernel
  rootSrc := by
    intro n nd h
    rcases exNodes n nd h with ⟨rfl, rfl⟩ | ⟨rfl, rfl⟩ | ⟨rfl, rfl⟩ | ⟨rfl, rfl⟩ | ⟨rfl, rfl⟩ <;> decide +kernel
  muxOnly := by
    intro n nd h
    rcases exNodes n nd h with ⟨rfl, rfl⟩ | ⟨rfl, rfl⟩ | ⟨rfl, rfl⟩ | ⟨rfl, rfl⟩ | ⟨rfl, rfl⟩ <;> decide +kernel
  loadLeaf := by
    intro n nd h
    rcases exNodes n nd h with ⟨rfl, rfl⟩ | ⟨rfl, rfl⟩ | ⟨rfl, rfl⟩ | ⟨rfl, rfl⟩ | ⟨rfl, rfl⟩ <;> decide +kernel

theorem exNoF01 : NoNegSourceWithRs exSys := by
  intro n nd h
  rcases exNodes n nd h with ⟨rfl, rfl⟩ | ⟨rfl, rfl⟩ | ⟨rfl, rfl⟩ | ⟨rfl, rfl⟩ | ⟨rfl, rfl⟩ <;> decide +kernel

theorem exNoF35 : NoZeroConverter exSys := by
  intro n nd h
  rcases exNodes n nd h with ⟨rfl, rfl⟩ | ⟨rfl, rfl⟩ | ⟨rfl, rfl⟩ | ⟨rfl, rfl⟩ | ⟨rfl, rfl⟩ <;> decide +kernel

theorem exNames : C07.SrcNamesDistinct exSys := by
  intro n m nd md hn hm
  rcases exNodes n nd hn with ⟨rfl, rfl⟩ | ⟨rfl, rfl⟩ | ⟨rfl, rfl⟩ | ⟨rfl, rfl⟩ | ⟨rfl, rfl⟩ <;>
    rcases exNodes m md hm with ⟨rfl, rfl⟩ | ⟨rfl, rfl⟩ | ⟨rfl, rfl⟩ | ⟨rfl, rfl⟩ | ⟨rfl, rfl⟩ <;>
    decide +kernel

theorem exSteady : Steady exSys "" exV exI exSt where
  fwd := ⟨exSt, by decide +kernel⟩
  back := by decide +kernel
  flag := by
    intro n h
    rcases n with _ | _ | _ | _ | _ | n
    · revert h; decide
    · revert h; decide
    · revert h; decide
    · revert h; decide
    · revert h; decide
    · simp [sget, exSt] at h

theorem exPV : ∀ n nd, exSys.node? n = some nd → PhaseValOK (nd.pconf.ctx "") := by
  intro n nd h
  rcases exNodes n nd h with ⟨rfl, rfl⟩ | ⟨rfl, rfl⟩ | ⟨rfl, rfl⟩ | ⟨rfl, rfl⟩ | ⟨rfl, rfl⟩ <;>
    simp [PhaseValOK, PhaseConf.ctx, exN0, exN1, exN2, exN3, exN4]

/-- every hypothesis of the five theorems holds for the example … -/
example : ∀ r ∈ exSys.compRows "" 25 exV exI exSt, ∃ P L, r.pwr = some P ∧ r.loss = some L ∧ 0 ≤ P ∧ 0 ≤ L :=
  built_rows_nonneg exSys exBuilt exWF "" exPV 25 exV exI exSt exSteady

example : ∀ r ∈ exSys.compRows "" 25 exV exI exSt, RowPhysical r :=
  built_rows_physical_partial exSys exBuilt exWF exNoF01 "" exPV 25 exV exI exSt exSteady

example : ∀ r ∈ exSys.compRows "" 25 exV exI exSt, RowLossLePower r :=
  built_rows_loss_le_power_partial exSys exBuilt exWF exNoF01 exNoF35 "" exPV 25 exV exI exSt exSteady

example : ∀ r ∈ exSys.compRows "" 25 exV exI exSt, RowPassive r :=
  built_passive_no_amplify exSys exBuilt exWF "" exPV 25 exV exI exSt exSteady

example : ∃ e, (exSys.phaseTable "" 25 exV exI exSt).total.eff = some e ∧ 0 ≤ e ∧ e ≤ 100 :=
  built_total_eff_le_100_partial exSys exBuilt exWF exNames exNoF01 exNoF35 "" exPV 25 exV exI exSt exSteady

/-- … and the rows read (name, type, Vin, Vout, Power, Loss, Efficiency):
    S1 10 V → 8 V, 20 W, 4 W, 80 %;  S2 idle;  M 8 V → 6 V, 16 W, 4 W, 75 %;  R 6 V → 4 V, 12 W, 4 W, 66.7 %;
    L 4 V, 8 W, 0 W, 100 %;  the total row: 20 W, 12 W, 40 % -/
example : (exSys.compRows "" 25 exV exI exSt).map (fun r => (r.name, r.typ, r.vin, r.vout))
    = [("S1", "SOURCE", some 10, some 8), ("S2", "SOURCE", some 5, some 5), ("M", "PMUX", some 8, some 6),
       ("R", "SLOSS", some 6, some 4), ("L", "LOAD", some 4, some 0)] := by decide +kernel

example : (exSys.compRows "" 25 exV exI exSt).map (fun r => (r.name, r.pwr, r.loss, r.eff))
    = [("S1", some 20, some 4, some 80), ("S2", some 0, some 0, some 100), ("M", some 16, some 4, some 75),
       ("R", some 12, some 4, some (200/3)), ("L", some 8, some 0, some 100)] := by decide +kernel

example : (exSys.phaseTable "" 25 exV exI exSt).total.pwr = some 20 ∧
    (exSys.phaseTable "" 25 exV exI exSt).total.loss = some 12 ∧
    (exSys.phaseTable "" 25 exV exI exSt).total.eff = some 40 := by decide +kernel

/-! ### the two exclusions are needed: the full statements fail on systems built from constructor calls -/

/-- root `a` feeding `b` -/
def two (a b : Comp ℚ) : SSys ℚ :=
  { nodes := #[some { comp := a, parents := [], childs := [1], pconf := .names [] },
               some { comp := b, parents := [0], childs := [], pconf := .names [] }],
    topo := [0, 1] }

theorem twoNodes (a b : Comp ℚ) (n : Nat) (nd : SNode ℚ) (h : (two a b).node? n = some nd) :
    (n = 0 ∧ nd = { comp := a, parents := [], childs := [1], pconf := .names [] }) ∨
    (n = 1 ∧ nd = { comp := b, parents := [0], childs := [], pconf := .names [] }) := by
  rcases n with _ | _ | n
  · have h2 : (two a b).node? 0 = some { comp := a, parents := [], childs := [1], pconf := .names [] } := rfl
    rw [h2] at h; exact Or.inl ⟨rfl, (Option.some.inj h).symm⟩
  · have h2 : (two a b).node? 1 = some { comp := b, parents := [0], childs := [], pconf := .names [] } := rfl
    rw [h2] at h; exact Or.inr ⟨rfl, (Option.some.inj h).symm⟩
  · have h2 : (two a b).node? (n + 2) = none := by simp [SSys.node?, two]
    rw [h2] at h; cases h

theorem twoWF (a b : Comp ℚ) (ha : a.kind = .source) (hb : b.kind ≠ .source) : TreeWF (two a b) where
  nodup := by show [0, 1].Nodup; decide
  live := by
    intro n
    rcases n with _ | _ | n
    · simp [two, SSys.node?]
    · simp [two, SSys.node?]
    · have h2 : (two a b).node? (n + 2) = none := by simp [SSys.node?, two]
      rw [h2]; simp [two]
  bound := by show ∀ n ∈ [0, 1], n < 2; decide
  order := by
    intro p c pd h hc
    rcases twoNodes a b p pd h with ⟨rfl, rfl⟩ | ⟨rfl, rfl⟩ <;> simp at hc
    subst hc
    show List.idxOf 0 [0, 1] < List.idxOf 1 [0, 1]
    decide
  parLive := by
    intro n nd h p hp
    rcases twoNodes a b n nd h with ⟨rfl, rfl⟩ | ⟨rfl, rfl⟩ <;> simp at hp
    subst hp; rfl
  chLive := by
    intro n nd h c hc
    rcases twoNodes a b n nd h with ⟨rfl, rfl⟩ | ⟨rfl, rfl⟩ <;> simp at hc
    subst hc; rfl
  link := by
    intro p c pd cd hp hc
    rcases twoNodes a b p pd hp with ⟨rfl, rfl⟩ | ⟨rfl, rfl⟩ <;>
      rcases twoNodes a b c cd hc with ⟨rfl, rfl⟩ | ⟨rfl, rfl⟩ <;> simp
  chNodup := by
    intro n nd h
    rcases twoNodes a b n nd h with ⟨rfl, rfl⟩ | ⟨rfl, rfl⟩ <;> simp
  parNodup := by
    intro n nd h
    rcases twoNodes a b n nd h with ⟨rfl, rfl⟩ | ⟨rfl, rfl⟩ <;> simp
  rootSrc := by
    intro n nd h
    rcases twoNodes a b n nd h with ⟨rfl, rfl⟩ | ⟨rfl, rfl⟩ <;> simp [ha, hb]
  muxOnly := by
    intro n nd h hl
    rcases twoNodes a b n nd h with ⟨rfl, rfl⟩ | ⟨rfl, rfl⟩ <;> simp at hl
  loadLeaf := by
    intro n nd h hl
    rcases twoNodes a b n nd h with ⟨rfl, rfl⟩ | ⟨rfl, rfl⟩
    · simp [ha, Kind.ctype] at hl
    · rfl

theorem twoPV (a b : Comp ℚ) : ∀ n nd, (two a b).node? n = some nd → PhaseValOK (nd.pconf.ctx "") := by
  intro n nd h
  rcases twoNodes a b n nd h with ⟨rfl, rfl⟩ | ⟨rfl, rfl⟩ <;> simp [PhaseValOK, PhaseConf.ctx]

theorem twoFlag (a b : Comp ℚ) (v : Vec ℚ) : ∀ n, sget #[[false], [false]] n = true → vget v n = 0 := by
  intro n h
  rcases n with _ | _ | n
  · simp [sget] at h
  · simp [sget] at h
  · simp [sget] at h

/-- the statement of `built_rows_physical_partial` WITHOUT the F01 exclusion -/
def built_rows_physical_full : Prop :=
  ∀ (s : SSys ℚ), BuiltFrom s → TreeWF s →
    ∀ (phase : String), (∀ n nd, s.node? n = some nd → PhaseValOK (nd.pconf.ctx phase)) →
    ∀ (ta : ℚ) (v i : Vec ℚ) (st : St), Steady s phase v i st →
      ∀ r ∈ s.compRows phase ta v i st, RowPhysical r

def f01Src : Comp ℚ := okOr (mkComp .source "S" [("vo", .int (-1)), ("rs", .int 1)])
def f01Ld : Comp ℚ := okOr (mkComp .iload "L" [("ii", .int 3)])

theorem f01Built : BuiltFrom (two f01Src f01Ld) := by
  intro n nd h
  rcases twoNodes _ _ n nd h with ⟨rfl, rfl⟩ | ⟨rfl, rfl⟩
  · exact ⟨.source, "S", [("vo", .int (-1)), ("rs", .int 1)], okOr_spec _ (by decide +kernel)⟩
  · exact ⟨.iload, "L", [("ii", .int 3)], okOr_spec _ (by decide +kernel)⟩

theorem f01Steady : Steady (two f01Src f01Ld) "" #[-4, 0] #[3, 3] #[[false], [false]] where
  fwd := ⟨#[[false], [false]], by decide +kernel⟩
  back := by decide +kernel
  flag := twoFlag f01Src f01Ld _

/-- **F01 is a genuine exclusion.**  `Source("S", vo=-1, rs=1)` feeding `ILoad("L", ii=3)` — both accepted by
    the constructors — has the exact steady state −4 V / 3 A, and its Source row shows Power 3 W, Loss 9 W,
    efficiency 200 %. -/
theorem built_rows_physical_full_fails : ¬ built_rows_physical_full := by
  intro h
  have hm : some (200 : ℚ) ∈ ((two f01Src f01Ld).compRows "" 25 #[-4, 0] #[3, 3] #[[false], [false]]).map (·.eff) := by
    decide +kernel
  obtain ⟨r, hr, he⟩ := List.mem_map.mp hm
  obtain ⟨P, L, E, hP, hL, hE, _, _, hle, _, hE100, _⟩ :=
    h (two f01Src f01Ld) f01Built (twoWF _ _ (by decide +kernel) (by decide +kernel)) "" (twoPV _ _) 25
      #[-4, 0] #[3, 3] #[[false], [false]] f01Steady r hr
  rw [he] at hE
  simp only [Option.some.injEq] at hE
  rw [← hE] at hE100
  norm_num at hE100

/-- the statement of `built_rows_loss_le_power_partial` WITHOUT the F35 exclusion (F01 still excluded) -/
def built_rows_loss_le_power_full : Prop :=
  ∀ (s : SSys ℚ), BuiltFrom s → TreeWF s → NoNegSourceWithRs s →
    ∀ (phase : String), (∀ n nd, s.node? n = some nd → PhaseValOK (nd.pconf.ctx phase)) →
    ∀ (ta : ℚ) (v i : Vec ℚ) (st : St), Steady s phase v i st →
      ∀ r ∈ s.compRows phase ta v i st, RowLossLePower r

def f35Src : Comp ℚ := okOr (mkComp .source "S" [("vo", .int 5)])
def f35Cv : Comp ℚ := okOr (mkComp .converter "C" [("vo", .int 0), ("eff", .float (9/10)), ("iq", .float (-1/10))])

theorem f35Built : BuiltFrom (two f35Src f35Cv) := by
  intro n nd h
  rcases twoNodes _ _ n nd h with ⟨rfl, rfl⟩ | ⟨rfl, rfl⟩
  · exact ⟨.source, "S", [("vo", .int 5)], okOr_spec _ (by decide +kernel)⟩
  · exact ⟨.converter, "C", [("vo", .int 0), ("eff", .float (9/10)), ("iq", .float (-1/10))],
      okOr_spec _ (by decide +kernel)⟩

theorem f35Steady : Steady (two f35Src f35Cv) "" #[5, 0] #[0, 0] #[[false], [false]] where
  fwd := ⟨#[[false], [false]], by decide +kernel⟩
  back := by decide +kernel
  flag := twoFlag f35Src f35Cv _

theorem f35NoF01 : NoNegSourceWithRs (two f35Src f35Cv) := by
  intro n nd h
  rcases twoNodes _ _ n nd h with ⟨rfl, rfl⟩ | ⟨rfl, rfl⟩ <;> decide +kernel

/-- **F35 is a genuine exclusion for `Loss ≤ Power`.**  `Source("S", vo=5)` feeding
    `Converter("C", vo=0, eff=0.9, iq=-0.1)` — accepted — idles at 5 V / 0 A, and the Converter row shows
    Power 0 W, Loss 0.5 W.  (Its efficiency cell is 0 %, so `built_rows_physical_partial` still holds.) -/
theorem built_rows_loss_le_power_full_fails : ¬ built_rows_loss_le_power_full := by
  intro h
  have hm : ("CONVERTER", some (0 : ℚ), some (1/2 : ℚ)) ∈
      ((two f35Src f35Cv).compRows "" 25 #[5, 0] #[0, 0] #[[false], [false]]).map
        (fun r => (r.typ, r.pwr, r.loss)) := by
    decide +kernel
  obtain ⟨r, hr, he⟩ := List.mem_map.mp hm
  simp only [Prod.mk.injEq] at he
  obtain ⟨e0, e1, e2⟩ := he
  have hrow := h (two f35Src f35Cv) f35Built (twoWF _ _ (by decide +kernel) (by decide +kernel)) f35NoF01 ""
    (twoPV _ _) 25 #[5, 0] #[0, 0] #[[false], [false]] f35Steady r hr
  obtain ⟨P, L, hP, hL, hle⟩ := hrow (by rw [e0]; decide)
  rw [e1] at hP
  rw [e2] at hL
  simp only [Option.some.injEq] at hP hL
  rw [← hP, ← hL] at hle
  norm_num at hle

/-- and the F35 system does satisfy `built_rows_physical_partial` (which only excludes F01) -/
example : ∀ r ∈ (two f35Src f35Cv).compRows "" 25 #[5, 0] #[0, 0] #[[false], [false]], RowPhysical r :=
  built_rows_physical_partial _ f35Built (twoWF _ _ (by decide +kernel) (by decide +kernel)) f35NoF01 ""
    (twoPV _ _) 25 _ _ _ f35Steady

end C11
end SysLoss
