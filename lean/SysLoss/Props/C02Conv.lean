/-
  Props/C02Conv — C02 / C07 for what `solve()` REALLY returns: a tolerance-converged state, not an exact steady
  state.  `Props/C02Table` proves the per-row power identity and the whole-table balance for EXACT steady states
  (`Steady`); `Props/C01Conv` proves that every returned row is within `atol + vtol·|·|` / `atol + itol·|·|` of its
  laws.  This file bounds the DEFECT of the power identity and of the balance on any state on which the exit test
  of `_solve` fired, by an explicit expression in `atol, vtol, itol` and the magnitudes in the table.

  Setting.  `ConvAt s cfg ph v i st v' st'`: `v' = fwdProp v i st` (one more forward sweep), the exit test
  `converged cfg v v' i (backProp v' i st)` fired, and three invariants every iterate of the solver has: currents
  ≥ 0, a flag is only set on a 0 V output, a Source is only flagged when 0 V / inactive.  `solvePhase_convAt`:
  every `s.solvePhase cfg ph = .ok r` IS such a state (well-formed tree, `Phys`, non-negative phase values; if
  the exit test fired on the very first sweep — `r.iters = 1`, the INITIAL state is returned — the flag condition
  must hold for the initial state, where it can fail: a Converter directly under a switched-off Source).

  Tolerances, in terms of the RETURNED cell (`close_ref_bound`; needs `0 ≤ vtol, itol < 1`: `TolOK`):
      tolI(a) = (atol + itol·|a|)/(1 − itol)        tolV(y) = (atol + vtol·|y|)/(1 − vtol)
      rowTol cfg W Vout Iin Iout = W·tolI(Iin) + |Iout|·tolV(Vout)                 (`def`, to be mirrored by the harness)
      rowTolRow cfg r  = 0 for a LOAD row, else rowTol with W = |Vin| (SOURCE row: W = |Vin − Vout|) from the row's cells.
  So the CURRENT tolerance multiplies `|Vin|` (a SOURCE: the internal drop `Vin − Vout = rs·Iout`), the VOLTAGE
  tolerance multiplies `Iout`.

  1. Per row (`pl_delta`, `local_defect*`, then the rows of `compRow`):
       `row_power_defect_bound`                 fed single-supply non-load rows — RLoss, VLoss, Converter, LinReg, PSwitch,
                                                Rectifier (diode and MOSFET), awake or asleep, live or dead supply:
            |Power − Loss − |Vout|·Iout| ≤ rowTol cfg |Vin| Vout Iin Iout + |Vin|·lawShift
         and the same bound for the "through" defect |Vin|·Iin − Loss − |Vout|·Iout (what the balance needs);
       `row_power_defect_bound_source_partial`  SOURCE rows (F01 excluded), W = Vin − Vout = rs·Iout;
       `row_power_defect_bound_mux`             PMux rows, Vin = the selected input (0 V when none is live).
     `lawShift n = |backAt v' n − backAt v n|` is how far the component's CURRENT LAW moves when the voltages are
     swept once more: the exit test compares `Iin` with the law at the once-more-swept supply `Vin'`, the row books
     power with its own `Vin`.  It is 0 when the law does not read the supply voltage (`CurrVinFree`:
     RLoss, VLoss, diode Rectifier always; LinReg / PSwitch / PMux / MOSFET Rectifier with a constant or 1-D `ig` —
     `currVinFree_of_par`, `lawShift_eq_zero`); for a Converter with constant / 1-D efficiency
     `|Vin|·lawShift ≤ Iin'·|Vin − Vin'|` (`converter_shift`, `shiftW_converter_bound`).  For 2-D tables it is
     NOT bounded by the tolerances alone (that needs a Lipschitz constant of the table): it stays in the bound.
  2. Whole table (`system_balance_resid`: the balance defect of ANY voltage-linked table is Σ through-defects +
     Σ link defects; `node_through_bound`; `table_sums_eq`):
       `table_balance_defect_bound_mux_partial`  (PMux included),  `table_balance_defect_bound_partial` (no PMux),
       `solve_table_balance_defect_bound_partial` (stated on `s.solvePhase cfg ph = .ok r`):
            |Σ_SOURCE Power − Σ_LOAD (Power+Loss) − Σ_other Loss| ≤ Σ_rows rowTolRow + Σ_nodes shiftW + Σ_nodes link
     Link terms.  `Vin(child) = Vout(parent)` is exact (same vector): no voltage link term.  `Iout(parent) =
     Σ Iin(children)` is exact by row assembly for every fed row (`linkM_eq_zero`) EXCEPT
       * a SOURCE row: its `Iout` cell is the source's own current cell `i[n]`, not the children's sum; the link
         term `|Vout|·|Iout − Σ Iin(children)|` (`srcLink`) is ≤ `|Vout|·tolI(Iout)` for a live source
         (`srcLink_bound`) — so the answer to "are there link terms?" is: yes, exactly one per source;
       * a row feeding a PMux WITHOUT live input: `_child_curr` counts that mux's current cell towards EVERY input
         (`share_split`, `linkM_fed`); the cell is ≤ `tolI + lawShift` (`dead_mux_current_bound`), 0 when exact.
  3. `balance_defect_small` (`atol = 0`, `vtol = itol = ε`, no PMux, all current laws `CurrVinFree`):
            |defect| ≤ ε/(1 − ε) · Σ_rows rowScale,   rowScale = |Vin·Iin| + |Vout·Iout| for a fed non-load row,
            |Vin − Vout|·|Iout| + 2·|Vout·Iout| for a SOURCE row, 0 for a LOAD row;
     `balance_defect_small_conv` allows Converters with constant / 1-D efficiency: ε/(1 − ε)² · Σ rowScaleC.
  4. `rowTol`, `rowTolRow`, `rowScale`, `rowScaleC`, `srcLink`: the executable formulas (over a field).

  `_partial`: the hypothesis `CompsOK` (finding F01: negative Source with series resistance; Converter with
  `vo = 0`) is inherited from Props/C02Table; without it the bound fails already on an exact steady state with all
  tolerances 0 (`table_balance_defect_bound_full_fails`).  NOT covered: the Subsystem / System-total rows (C07's
  grouping by Domain — they are sums of these rows), a tolerance-only bound for 2-D-table kinds (see lawShift),
  and liveness (C03).
-/
import SysLoss.Props.C02Table
import SysLoss.Props.C01Conv
import Mathlib.Tactic.NormNum
import Mathlib.Tactic.Positivity
import Mathlib.Tactic.LinearCombination

set_option linter.unusedSectionVars false
set_option linter.unusedVariables false
set_option linter.unnecessarySeqFocus false
set_option linter.unusedTactic false

namespace SysLoss
namespace C02
variable {α : Type} [Field α] [LinearOrder α] [IsStrictOrderedRing α]

/-! ### 0. tolerances -/

/-- the exit test bounds the distance by the REFERENCE (new) value; in terms of the returned value:
    `|a − a'| ≤ atol + rtol·|a'|`, `0 ≤ rtol < 1`  ⟹  `|a − a'| ≤ (atol + rtol·|a|)/(1 − rtol)` -/
theorem close_ref_bound (atol rtol a a' : α) (h0 : 0 ≤ rtol) (h1 : rtol < 1)
    (h : |a - a'| ≤ atol + rtol * |a'|) : |a - a'| ≤ (atol + rtol * |a|) / (1 - rtol) := by
  have hpos : 0 < 1 - rtol := by linarith
  rw [le_div_iff₀ hpos]
  have h2 : |a'| ≤ |a| + |a - a'| := by
    have := abs_sub_abs_le_abs_sub a' a
    rw [abs_sub_comm a' a] at this
    linarith
  nlinarith [abs_nonneg (a - a'), abs_nonneg a', abs_nonneg a]

/-- candidate witnesses `(κ, μ, ν)` for `pl_delta` -/
local macro "delta_pick" : tactic => `(tactic| first
  | (refine ⟨0, 0, 0, le_refl _, zero_le_one, le_refl _, zero_le_one, le_refl _, zero_le_one, ?_, ?_⟩ <;>
      (try simp only [PL.zeros]) <;> ring1)
  | (refine ⟨0, 0, 1, le_refl _, zero_le_one, le_refl _, zero_le_one, zero_le_one, le_refl _, ?_, ?_⟩ <;>
      (try simp only [PL.zeros]) <;> ring1)
  | (refine ⟨0, 1, 1, le_refl _, zero_le_one, zero_le_one, le_refl _, zero_le_one, le_refl _, ?_, ?_⟩ <;>
      (try simp only [PL.zeros]) <;> ring1))

/-- how the Power and Loss cells of a non-load, non-source row move when its `Vout` / `Iin` cells move
    (same `Vin`, same `Iout`): the loss moves by a fraction `κ` of `|Vin|·ΔIin` (Converter: `1 − eff`) and a
    fraction `μ` of `Δ|Vout|·Iout` (switch / mux: all of it), the power by `ν·|Vin|·ΔIin` (`ν = 1` when awake). -/
theorem pl_delta (c : Comp α) (hc : c.Phys) (hs : c.kind ≠ .source) (hld : c.kind.ctype ≠ .LOAD)
    (x y y' a a' b ta : α) (ph : PhaseCtx α) (ha : 0 ≤ a) (ha' : 0 ≤ a') (hb : 0 ≤ b) :
    ∃ κ μ ν : α, 0 ≤ κ ∧ κ ≤ 1 ∧ 0 ≤ μ ∧ μ ≤ 1 ∧ 0 ≤ ν ∧ ν ≤ 1 ∧
      (c.solvPwrLoss x y a b ta ph).loss - (c.solvPwrLoss x y' a' b ta ph).loss
        = κ * (|x| * (a - a')) + μ * ((|y'| - |y|) * b) ∧
      (c.solvPwrLoss x y a b ta ph).pwr - (c.solvPwrLoss x y' a' b ta ph).pwr = ν * (|x| * (a - a')) := by
  unfold Comp.solvPwrLoss finishPL
  cases hk : c.kind
  case source => exact absurd hk hs
  case pload => simp [hk, Kind.ctype] at hld
  case iload => simp [hk, Kind.ctype] at hld
  case rload => simp [hk, Kind.ctype] at hld
  case converter =>
    obtain ⟨he0, he1⟩ := hc.eff hk |b| |x|
    have h1 : ∀ t : α, 0 ≤ t → |t * x * (1 - c.par.interp |b| |x|)| = t * |x| * (1 - c.par.interp |b| |x|) := by
      intro t ht
      rw [abs_mul, abs_mul, abs_of_nonneg ht, abs_of_nonneg (by linarith : 0 ≤ 1 - c.par.interp |b| |x|)]
    simp only [nabs_eq_abs, abs_mul_of_nonneg_right _ _ ha, abs_mul_of_nonneg_right _ _ ha', h1 a ha, h1 a' ha']
    split_ifs <;> first
      | delta_pick
      | (refine ⟨1 - c.par.interp |b| |x|, 0, 1, by linarith, by linarith, le_refl _, zero_le_one, zero_le_one,
          le_refl _, ?_, ?_⟩ <;> ring1)
  all_goals
    simp only [nabs_eq_abs, abs_mul_of_nonneg_right _ _ ha, abs_mul_of_nonneg_right _ _ ha']
    split_ifs <;> delta_pick

/-- `|p·X + q·Y| ≤ BX + BY` for weights of magnitude ≤ 1 -/
theorem combo_bound (p q X Y BX BY : α) (hp : |p| ≤ 1) (hq : |q| ≤ 1) (hX : |X| ≤ BX) (hY : |Y| ≤ BY) :
    |p * X + q * Y| ≤ BX + BY := by
  have h1 : |p * X| ≤ BX := by
    rw [abs_mul]; nlinarith [abs_nonneg p, abs_nonneg X]
  have h2 : |q * Y| ≤ BY := by
    rw [abs_mul]; nlinarith [abs_nonneg q, abs_nonneg Y]
  exact (abs_add_le _ _).trans (add_le_add h1 h2)

theorem abs_le_one_of_unit {p : α} (h0 : 0 ≤ p) (h1 : p ≤ 1) : |p| ≤ 1 := by
  rw [abs_of_nonneg h0]; exact h1

theorem abs_sub_le_one_of_unit {p q : α} (hp0 : 0 ≤ p) (hp1 : p ≤ 1) (hq0 : 0 ≤ q) (hq1 : q ≤ 1) :
    |p - q| ≤ 1 := by
  rw [abs_le]; constructor <;> linarith

/-- `|(|y'| − |y|)·b| ≤ b·|y − y'|` -/
theorem volt_term_bound (y y' b : α) (hb : 0 ≤ b) : |(|y'| - |y|) * b| ≤ b * |y - y'| := by
  rw [abs_mul, abs_of_nonneg hb, mul_comm]
  have := abs_abs_sub_abs_le_abs_sub y' y
  rw [abs_sub_comm y' y] at this
  exact mul_le_mul_of_nonneg_left this hb

/-- the current law of a non-load kind never returns a negative current (no condition on phase values) -/
theorem curr_nonneg_nonload (c : Comp α) (hc : c.Phys) (hld : c.kind.ctype ≠ .LOAD) (vi : List α) (io : α)
    (hio : 0 ≤ io) (ph : PhaseCtx α) (off : List Bool) : 0 ≤ c.solvInpCurr vi io ph off := by
  have hig : ∀ x y, 0 ≤ io + c.par.interp x y := fun x y => by have := hc.par x y; linarith
  unfold Comp.solvInpCurr calcInpCurrent
  cases hk : c.kind <;> simp only
  case pload => simp [hk, Kind.ctype] at hld
  case iload => simp [hk, Kind.ctype] at hld
  case rload => simp [hk, Kind.ctype] at hld
  case source => split_ifs <;> first | exact le_refl _ | exact hio
  case rloss => split_ifs <;> first | exact le_refl _ | exact hio
  case vloss => split_ifs <;> first | exact le_refl _ | exact hio
  case converter =>
    split_ifs <;> first | exact le_refl _ | exact hc.iis | exact hc.iq | (rw [nabs_eq_abs]; exact abs_nonneg _)
  case linreg => split_ifs <;> first | exact le_refl _ | exact hc.iis | exact hig _ _
  case pswitch => split_ifs <;> first | exact le_refl _ | exact hc.iis | exact hig _ _
  case pmux =>
    cases priInpAux off vi 0 with
    | none => exact le_refl _
    | some k => simp only; split_ifs <;> first | exact hc.iis | exact hig _ _
  case rectifier =>
    split_ifs <;> first | exact le_refl _ | exact hio | exact hc.iq | exact hig _ _

/-! ### 1. one component off its laws: the defect of the row identity is bounded by the law residuals -/

/-- from a balanced reference point `(y°, a°)` (`FedOK`) to arbitrary cells `(y, a)`, same `(x, b)` -/
theorem defect_of_fedok (c : Comp α) (hc : c.Phys) (hs : c.kind ≠ .source) (hld : c.kind.ctype ≠ .LOAD)
    (x b ta : α) (ph : PhaseCtx α) (y0 a0 y a : α) (hb : 0 ≤ b) (ha0 : 0 ≤ a0) (ha : 0 ≤ a)
    (hfed : FedOK (c.solvPwrLoss x y0 a0 b ta ph) x y0 a0 b) :
    |(c.solvPwrLoss x y a b ta ph).pwr - (c.solvPwrLoss x y a b ta ph).loss - |y| * b|
        ≤ |x| * |a - a0| + b * |y - y0| ∧
    |(|x| * a - (c.solvPwrLoss x y a b ta ph).loss - |y| * b)| ≤ |x| * |a - a0| + b * |y - y0| := by
  obtain ⟨κ, μ, ν, k0, k1, m0, m1, n0, n1, hL, hP⟩ := pl_delta c hc hs hld x y y0 a a0 b ta ph ha ha0 hb
  obtain ⟨f1, f2⟩ := hfed
  have hX : |(|x| * (a - a0))| ≤ |x| * |a - a0| := by rw [abs_mul, abs_abs]
  have hY := volt_term_bound y y0 b hb
  constructor
  · have e : (c.solvPwrLoss x y a b ta ph).pwr - (c.solvPwrLoss x y a b ta ph).loss - |y| * b
        = (ν - κ) * (|x| * (a - a0)) + (1 - μ) * ((|y0| - |y|) * b) := by
      linear_combination hP - hL + f1
    rw [e]
    exact combo_bound _ _ _ _ _ _ (abs_sub_le_one_of_unit n0 n1 k0 k1)
      (abs_sub_le_one_of_unit zero_le_one (le_refl _) m0 m1) hX hY
  · have e : |x| * a - (c.solvPwrLoss x y a b ta ph).loss - |y| * b
        = (1 - κ) * (|x| * (a - a0)) + (1 - μ) * ((|y0| - |y|) * b) := by
      linear_combination - hL + f1 - f2
    rw [e]
    exact combo_bound _ _ _ _ _ _ (abs_sub_le_one_of_unit zero_le_one (le_refl _) k0 k1)
      (abs_sub_le_one_of_unit zero_le_one (le_refl _) m0 m1) hX hY

/-- **One fed component off its laws** (any kind but Source, PMux, loads).  `y°, a°` are what its voltage /
    current law return for the row's own `(Vin, Iout) = (x, b)`; the row shows `(y, a)` instead.  Then both
    `Power − Loss − |Vout|·Iout` and `|Vin|·Iin − Loss − |Vout|·Iout` are bounded by
    `|Vin|·|Iin − a°| + Iout·|Vout − y°|`. -/
theorem local_defect (c : Comp α) (hc : c.Phys) (hs : c.kind ≠ .source) (hm : c.kind ≠ .pmux)
    (hld : c.kind.ctype ≠ .LOAD) (hcv : c.kind = .converter → c.vo ≠ 0)
    (x b ta : α) (ph : PhaseCtx α) (fl : Bool) (hfl : fl = true → x = 0)
    (y0 a0 : α) (b' : Bool) (hb : 0 ≤ b)
    (hfwd : c.solvOutpVolt [x] b ph [fl] = .ok (y0, b'))
    (hback : c.solvInpCurr [x] b ph [fl] = a0) (y a : α) (ha : 0 ≤ a) :
    |(c.solvPwrLoss x y a b ta ph).pwr - (c.solvPwrLoss x y a b ta ph).loss - |y| * b|
        ≤ |x| * |a - a0| + b * |y - y0| ∧
    |(|x| * a - (c.solvPwrLoss x y a b ta ph).loss - |y| * b)| ≤ |x| * |a - a0| + b * |y - y0| := by
  have hfed := local_fed c hc hs hm hld hcv x b ta ph fl hfl y0 a0 b' hb hfwd hback
  have ha0 : 0 ≤ a0 := by rw [← hback]; exact curr_nonneg_nonload c hc hld _ _ hb _ _
  exact defect_of_fedok c hc hs hld x b ta ph y0 a0 y a hb ha0 ha hfed

/-- **A PMux off its laws**, input `k` selected: as `local_defect` with `Vin = V_k`. -/
theorem local_defect_mux (c : Comp α) (hk : c.kind = .pmux) (hc : c.Phys) (vi : List α) (off : List Bool)
    (b ta : α) (ph : PhaseCtx α) (y0 a0 : α) (b' : Bool) (hb : 0 ≤ b)
    (hfwd : c.solvOutpVolt vi b ph off = .ok (y0, b'))
    (hback : c.solvInpCurr vi b ph off = a0) (k : Nat) (hsel : priInpAux off vi 0 = some k)
    (y a : α) (ha : 0 ≤ a) :
    |(c.solvPwrLoss (vi.getD k 0) y a b ta ph).pwr - (c.solvPwrLoss (vi.getD k 0) y a b ta ph).loss - |y| * b|
        ≤ |vi.getD k 0| * |a - a0| + b * |y - y0| ∧
    |(|vi.getD k 0| * a - (c.solvPwrLoss (vi.getD k 0) y a b ta ph).loss - |y| * b)|
        ≤ |vi.getD k 0| * |a - a0| + b * |y - y0| := by
  have hfed := (local_mux c hk hc vi off b ta ph y0 a0 b' hb hfwd hback).1 k hsel
  have hld : c.kind.ctype ≠ .LOAD := by rw [hk]; decide
  have ha0 : 0 ≤ a0 := by rw [← hback]; exact curr_nonneg_nonload c hc hld _ _ hb _ _
  exact defect_of_fedok c hc (by rw [hk]; decide) hld _ b ta ph y0 a0 y a hb ha0 ha hfed

/-- a non-source row on a 0 V input books nothing -/
theorem pl_dead (c : Comp α) (hs : c.kind ≠ .source) (y a b ta : α) (ph : PhaseCtx α) :
    (c.solvPwrLoss 0 y a b ta ph).pwr = 0 ∧ (c.solvPwrLoss 0 y a b ta ph).loss = 0 := by
  have hz : isZ (0 : α) = true := (isZ_iff _).mpr rfl
  unfold Comp.solvPwrLoss
  cases hk : c.kind <;> simp [hk, hz, PL.zeros] at hs ⊢ <;> (try split_ifs) <;> simp_all

/-- **A Source off its laws.**  `y°, a°` are what its laws return for the current `b` its children draw; its
    row shows `Vout = y`, `Iin = Iout = a`.  A flag on a source that is neither 0 V nor inactive is excluded
    (`hflag`: no iterate of the solver has one).  Finding F01 excluded.  The tolerance on the current
    multiplies the INTERNAL drop `rs·a` (the row's `Vin − Vout`), not `|Vin|`. -/
theorem local_defect_source_partial (c : Comp α) (hk : c.kind = .source) (hc : c.Phys)
    (hF01 : 0 ≤ c.vo ∨ c.rs = 0)
    (vold b ta : α) (ph : PhaseCtx α) (off : List Bool) (y0 a0 : α) (b' : Bool) (hb : 0 ≤ b)
    (hflag : off0 off = true → (isZ c.vo || ph.inactive) = true)
    (hfwd : c.solvOutpVolt [vold] b ph off = .ok (y0, b'))
    (hback : c.solvInpCurr [vold] b ph off = a0) (x y a : α) (ha : 0 ≤ a) :
    |(c.solvPwrLoss x y a a ta ph).pwr - (c.solvPwrLoss x y a a ta ph).loss - |y| * a|
        ≤ c.rs * a * |a - a0| + a * |y - y0| ∧
    (a0 = b ∨ (a0 = 0 ∧ y0 = 0)) := by
  unfold Comp.solvOutpVolt at hfwd
  unfold Comp.solvInpCurr calcInpCurrent at hback
  simp only [hk] at hfwd hback
  have hdead : ∀ (h0 : (c.solvPwrLoss x y a a ta ph).pwr = 0) (h1 : (c.solvPwrLoss x y a a ta ph).loss = 0)
      (hy : y0 = 0),
      |(c.solvPwrLoss x y a a ta ph).pwr - (c.solvPwrLoss x y a a ta ph).loss - |y| * a|
        ≤ c.rs * a * |a - a0| + a * |y - y0| := by
    intro h0 h1 hy
    rw [h0, h1, hy, sub_zero, sub_zero, zero_sub, abs_neg, abs_mul, abs_abs, abs_of_nonneg ha, mul_comm]
    have := mul_nonneg (mul_nonneg hc.rs ha) (abs_nonneg (a - a0))
    linarith
  cases hina : ph.inactive with
  | true =>
    simp only [hina, if_true, Except.ok.injEq, Prod.mk.injEq] at hfwd hback
    refine ⟨hdead ?_ ?_ hfwd.1.symm, Or.inr ⟨hback.symm, hfwd.1.symm⟩⟩ <;>
      (unfold Comp.solvPwrLoss; simp [hk, hina, PL.zeros])
  | false =>
    simp only [hina, Bool.false_eq_true, if_false] at hfwd hback
    by_cases hz : isZ c.vo = true
    · simp only [hz, Bool.true_or, if_true, Except.ok.injEq, Prod.mk.injEq] at hfwd hback
      refine ⟨hdead ?_ ?_ hfwd.1.symm, Or.inr ⟨hback.symm, hfwd.1.symm⟩⟩ <;>
        (unfold Comp.solvPwrLoss; simp [hk, hina, hz, PL.zeros])
    · have hz' : isZ c.vo = false := by
        cases h : isZ c.vo with
        | false => rfl
        | true => exact absurd h hz
      have hoff : off0 off = false := by
        cases ho : off0 off with
        | false => rfl
        | true => have := hflag ho; simp [hz', hina] at this
      simp only [hz', hoff, Bool.or_false, Bool.false_eq_true, if_false] at hfwd hback
      have hne : c.vo ≠ 0 := (isZ_false_iff _).mp hz'
      by_cases he : eqB (nsign (c.vo - c.rs * b)) (nsign c.vo) = true
      swap
      · simp [he] at hfwd
      simp only [he, if_true, Except.ok.injEq, Prod.mk.injEq] at hfwd
      obtain ⟨hv, _⟩ := hfwd
      have he' := (eqB_iff _ _).mp he
      refine ⟨?_, Or.inl hback.symm⟩
      have h := pml_source c hk x y a a ta ph hina hne ha
      have habs : |y0| = |c.vo| - c.rs * a0 := by
        rw [← hv, ← hback]
        rcases hF01 with h0 | h0
        · have hp : 0 < c.vo := lt_of_le_of_ne h0 (Ne.symm hne)
          rw [nsign_eq_iff_pos hp] at he'
          rw [abs_of_pos hp, abs_of_pos he']
        · rw [h0]; simp
      have e : (c.solvPwrLoss x y a a ta ph).pwr - (c.solvPwrLoss x y a a ta ph).loss - |y| * a
          = (-1) * (c.rs * a * (a - a0)) + 1 * ((|y0| - |y|) * a) := by
        rw [h, habs]; ring
      rw [e]
      refine combo_bound _ _ _ _ _ _ (by simp) (by simp) ?_ (volt_term_bound y y0 a ha)
      rw [abs_mul, abs_of_nonneg (mul_nonneg hc.rs ha)]

/-! ### 2. converged states and the cells of their rows -/

/-- **A converged state**: the exit test of `_solve` fired on `(v, i, st)` against the once-more-swept
    `v' = fwdProp v i st`, `i' = backProp v' i st` — plus three invariants every iterate of the solver has
    (`solvePhase_convAt`): currents are not negative, a flag is only set on a 0 V output, and a Source is only
    flagged when it is 0 V or inactive in the phase. -/
structure ConvAt (s : SSys α) (cfg : Cfg α) (ph : String) (v i : Vec α) (st : St) (v' : Vec α) (st' : St) :
    Prop where
  fwd     : s.fwdProp ph v i st = .ok (v', st')
  vsize   : v.size = s.hidx
  isize   : i.size = s.hidx
  exit    : converged cfg v v' i (s.backProp ph v' i st) = true
  inn     : ∀ m, 0 ≤ vget i m
  flag    : ∀ n, sget st n = true → vget v n = 0
  srcFlag : ∀ n nd, s.node? n = some nd → nd.parents = [] → sget st n = true →
              nd.comp.initOff (nd.pconf.ctx ph) = true

/-- what the exit test says about the cells of a listed node -/
theorem conv_cell (s : SSys α) (cfg : Cfg α) (ph : String) (v i : Vec α) (st : St) (v' : Vec α) (st' : St)
    (hcv : ConvAt s cfg ph v i st v' st') (n : Nat) (hn : n ∈ s.topo) (hlt : n < s.hidx) :
    (∃ b, s.fwdAt ph v i st n = .ok (vget v' n, b)) ∧
    |vget v n - vget v' n| ≤ cfg.atol + cfg.vtol * |vget v' n| ∧
    |vget i n - s.backAt ph v' i st n| ≤ cfg.atol + cfg.itol * |s.backAt ph v' i st n| := by
  obtain ⟨hs', _, hpt, _⟩ := C16.fwdProp_pointwise s ph v i st v' st' hcv.fwd
  obtain ⟨hbs, hbp, _⟩ := C16.backProp_pointwise s ph v' i st
  obtain ⟨x, b, e1, e2, _⟩ := hpt n hn hlt
  have hc := (C01.converged_iff cfg v v' i _ (by rw [hcv.vsize, hs']) (by rw [hcv.isize, hbs])).mp hcv.exit
  refine ⟨⟨b, by rw [e1, e2]⟩, hc.1 n (by rw [hcv.vsize]; exact hlt), ?_⟩
  have := hc.2 n (by rw [hcv.isize]; exact hlt)
  rwa [hbp n hn hlt] at this

/-- how far the current law of node `n` moves when the voltages are swept once more (same currents, same
    flags).  0 for every kind whose current law does not read the supply voltage (see `lawShift_eq_zero…`). -/
def lawShift (s : SSys α) (ph : String) (v v' i : Vec α) (st : St) (n : Nat) : α :=
  |s.backAt ph v' i st n - s.backAt ph v i st n|

/-- tolerance of a current cell in terms of the RETURNED value -/
def tolI (cfg : Cfg α) (a : α) : α := (cfg.atol + cfg.itol * |a|) / (1 - cfg.itol)
/-- tolerance of a voltage cell in terms of the RETURNED value -/
def tolV (cfg : Cfg α) (y : α) : α := (cfg.atol + cfg.vtol * |y|) / (1 - cfg.vtol)

/-- **The per-row tolerance of the power identity** (to be mirrored by the harness): `W` is the magnitude the
    current tolerance multiplies — `|Vin|` for a fed row, `|Vin − Vout|` (the internal drop) for a SOURCE row;
    the voltage tolerance multiplies `|Iout|`. -/
def rowTol (cfg : Cfg α) (W Vout Iin Iout : α) : α := W * tolI cfg Iin + |Iout| * tolV cfg Vout

/-- solver tolerances in the range the bounds need -/
structure TolOK (cfg : Cfg α) : Prop where
  v0 : 0 ≤ cfg.vtol
  v1 : cfg.vtol < 1
  i0 : 0 ≤ cfg.itol
  i1 : cfg.itol < 1

/-- fed single-supply node, explicit form: both defects against the law residuals -/
theorem fed_node_defect (s : SSys α) (cfg : Cfg α) (ph : String) (v i : Vec α) (st : St) (v' : Vec α) (st' : St)
    (hcv : ConvAt s cfg ph v i st v' st') (ta : α)
    (n p : Nat) (nd : SNode α) (hn : n ∈ s.topo) (hnode : s.node? n = some nd) (hpar : nd.parents = [p])
    (hs : nd.comp.kind ≠ .source) (hm : nd.comp.kind ≠ .pmux) (hld : nd.comp.kind.ctype ≠ .LOAD)
    (hc : nd.comp.Phys) (hcvo : nd.comp.kind = .converter → nd.comp.vo ≠ 0) :
    let pl := nd.comp.solvPwrLoss (vget v p) (vget v n) (vget i n) (ioOf s nd n v i st) ta (nd.pconf.ctx ph)
    let B := |vget v p| * |vget i n - s.backAt ph v i st n| + ioOf s nd n v i st * |vget v n - vget v' n|
    |pl.pwr - pl.loss - |vget v n| * ioOf s nd n v i st| ≤ B ∧
    |(|vget v p| * vget i n - pl.loss - |vget v n| * ioOf s nd n v i st)| ≤ B := by
  intro pl B
  have hlt := C01.node?_some_lt s n nd hnode
  obtain ⟨⟨b, hf⟩, _, _⟩ := conv_cell s cfg ph v i st v' st' hcv n hn hlt
  obtain ⟨a1, a2⟩ := C01.sweep_args_are_row s ph ta v i st n p nd hnode hpar ""
  rw [a1] at hf
  exact local_defect nd.comp hc hs hm hld hcvo (vget v p) (ioOf s nd n v i st) ta (nd.pconf.ctx ph)
    (sget st p) (hcv.flag p) (vget v' n) (s.backAt ph v i st n) b (ioOf_nonneg s nd n hnode v i st hcv.inn) hf
    a2.symm (vget v n) (vget i n) (hcv.inn n)

/-- the two cell residuals of a listed node in terms of the tolerances and the law shift -/
theorem cell_residuals (s : SSys α) (cfg : Cfg α) (htol : TolOK cfg) (ph : String) (v i : Vec α) (st : St)
    (v' : Vec α) (st' : St) (hcv : ConvAt s cfg ph v i st v' st') (n : Nat) (hn : n ∈ s.topo) (hlt : n < s.hidx) :
    |vget i n - s.backAt ph v i st n| ≤ tolI cfg (vget i n) + lawShift s ph v v' i st n ∧
    |vget v n - vget v' n| ≤ tolV cfg (vget v n) ∧
    |vget i n - s.backAt ph v' i st n| ≤ tolI cfg (vget i n) := by
  obtain ⟨_, hv, hi⟩ := conv_cell s cfg ph v i st v' st' hcv n hn hlt
  have h1 := close_ref_bound _ _ _ _ htol.i0 htol.i1 hi
  have h2 := close_ref_bound _ _ _ _ htol.v0 htol.v1 hv
  refine ⟨?_, h2, h1⟩
  unfold lawShift tolI
  have := abs_sub_le (vget i n) (s.backAt ph v' i st n) (s.backAt ph v i st n)
  unfold tolI at h1
  linarith

/-- `x·r1 + b·r2 ≤ x·(t1 + sh) + b·t2` -/
theorem bound_mono (x b r1 r2 t1 sh t2 : α) (hx : 0 ≤ x) (hb : 0 ≤ b) (h1 : r1 ≤ t1 + sh) (h2 : r2 ≤ t2) :
    x * r1 + b * r2 ≤ x * t1 + x * sh + b * t2 := by
  have := mul_le_mul_of_nonneg_left h1 hx
  have := mul_le_mul_of_nonneg_left h2 hb
  linarith

/-- **Row power defect bound** — fed rows (single supply; RLoss, VLoss, Converter, LinReg, PSwitch, Rectifier of
    either type; awake or asleep; live or dead supply).  In a converged state the assembled row satisfies
      `|Power − Loss − |Vout|·Iout| ≤ |Vin|·tolI(Iin) + Iout·tolV(Vout) + |Vin|·lawShift`
    where `tolI(a) = (atol + itol·|a|)/(1 − itol)`, `tolV(y) = (atol + vtol·|y|)/(1 − vtol)`: the CURRENT
    tolerance multiplies `|Vin|`, the VOLTAGE tolerance multiplies `Iout`.  `lawShift` is the change of the
    component's current law under one more voltage sweep.  The same bound holds for the "through" defect
    `|Vin|·Iin − Loss − |Vout|·Iout` (what the table balance needs). -/
theorem row_power_defect_bound (s : SSys α) (cfg : Cfg α) (htol : TolOK cfg) (ph : String) (v i : Vec α) (st : St)
    (v' : Vec α) (st' : St) (hcv : ConvAt s cfg ph v i st v' st') (ta : α)
    (n p : Nat) (nd : SNode α) (hn : n ∈ s.topo) (hnode : s.node? n = some nd) (hpar : nd.parents = [p])
    (hs : nd.comp.kind ≠ .source) (hm : nd.comp.kind ≠ .pmux) (hld : nd.comp.kind.ctype ≠ .LOAD)
    (hc : nd.comp.Phys) (hcvo : nd.comp.kind = .converter → nd.comp.vo ≠ 0) (d : String) :
    let r := (s.compRow ph ta v i st n d).1
    ∃ P L Vi Vo Ii Io, r.pwr = some P ∧ r.loss = some L ∧ r.vin = some Vi ∧ r.vout = some Vo ∧
      r.iin = some Ii ∧ r.iout = some Io ∧ 0 ≤ Ii ∧ 0 ≤ Io ∧
      |P - L - |Vo| * Io| ≤ rowTol cfg |Vi| Vo Ii Io + |Vi| * lawShift s ph v v' i st n ∧
      |(|Vi| * Ii - L - |Vo| * Io)| ≤ rowTol cfg |Vi| Vo Ii Io + |Vi| * lawShift s ph v v' i st n := by
  intro r
  have hlt := C01.node?_some_lt s n nd hnode
  obtain ⟨_, c2, c3, c4, c5, c6, c7⟩ := compRow_single s ph ta v i st n p nd hnode hpar d
  obtain ⟨f1, f2⟩ := fed_node_defect s cfg ph v i st v' st' hcv ta n p nd hn hnode hpar hs hm hld hc hcvo
  obtain ⟨r1, r2, _⟩ := cell_residuals s cfg htol ph v i st v' st' hcv n hn hlt
  have hio := ioOf_nonneg s nd n hnode v i st hcv.inn
  have hB := bound_mono |vget v p| (ioOf s nd n v i st) _ _ _ _ _ (abs_nonneg _) hio r1 r2
  refine ⟨_, _, _, _, _, _, c6, c7, c2, c3, c4, c5, hcv.inn n, hio, ?_, ?_⟩
  · unfold rowTol; rw [abs_of_nonneg hio]; linarith
  · unfold rowTol; rw [abs_of_nonneg hio]; linarith

/-- root (Source) node, explicit form.  `b = ioOf` is what the children draw; the row shows `Iout = i n`. -/
theorem root_node_defect (s : SSys α) (cfg : Cfg α) (ph : String) (v i : Vec α) (st : St) (v' : Vec α) (st' : St)
    (hcv : ConvAt s cfg ph v i st v' st') (ta : α)
    (n : Nat) (nd : SNode α) (hn : n ∈ s.topo) (hnode : s.node? n = some nd) (hpar : nd.parents = [])
    (hs : nd.comp.kind = .source) (hc : nd.comp.Phys) (hF01 : 0 ≤ nd.comp.vo ∨ nd.comp.rs = 0) (x : α) :
    let pl := nd.comp.solvPwrLoss x (vget v n) (vget i n) (vget i n) ta (nd.pconf.ctx ph)
    |pl.pwr - pl.loss - |vget v n| * vget i n|
      ≤ nd.comp.rs * vget i n * |vget i n - s.backAt ph v i st n| + vget i n * |vget v n - vget v' n| ∧
    (s.backAt ph v i st n = ioOf s nd n v i st ∨ (s.backAt ph v i st n = 0 ∧ vget v' n = 0)) := by
  intro pl
  have hlt := C01.node?_some_lt s n nd hnode
  obtain ⟨⟨b, hf⟩, _, _⟩ := conv_cell s cfg ph v i st v' st' hcv n hn hlt
  have hbk : s.backAt ph v i st n = s.backAt ph v i st n := rfl
  unfold SSys.fwdAt SSys.lawArgs at hf
  conv at hbk => lhs; unfold SSys.backAt SSys.lawArgs
  simp only [hnode, hpar, List.isEmpty_nil, if_true] at hf hbk
  have hflag : off0 (st.getD n []) = true → (isZ nd.comp.vo || (nd.pconf.ctx ph).inactive) = true := by
    intro h
    have := hcv.srcFlag n nd hnode hpar h
    unfold Comp.initOff at this
    simpa [hs] using this
  exact local_defect_source_partial nd.comp hs hc hF01 (vget v n) (ioOf s nd n v i st) ta (nd.pconf.ctx ph)
    (st.getD n []) (vget v' n) (s.backAt ph v i st n) b (ioOf_nonneg s nd n hnode v i st hcv.inn) hflag hf hbk
    x (vget v n) (vget i n) (hcv.inn n)

/-- **Row power defect bound — SOURCE rows** (finding F01 excluded).  The row shows `Vin = Vout + rs·Iout`, so
    `Vin − Vout = rs·Iout ≥ 0` is the internal drop, and
      `|Power − Loss − |Vout|·Iout| ≤ (Vin − Vout)·tolI(Iout) + Iout·tolV(Vout) + (Vin − Vout)·lawShift`:
    for a Source the current tolerance multiplies the INTERNAL DROP, not `|Vin|`. -/
theorem row_power_defect_bound_source_partial (s : SSys α) (cfg : Cfg α) (htol : TolOK cfg) (ph : String)
    (v i : Vec α) (st : St) (v' : Vec α) (st' : St) (hcv : ConvAt s cfg ph v i st v' st') (ta : α)
    (n : Nat) (nd : SNode α) (hn : n ∈ s.topo) (hnode : s.node? n = some nd) (hpar : nd.parents = [])
    (hs : nd.comp.kind = .source) (hc : nd.comp.Phys) (hF01 : 0 ≤ nd.comp.vo ∨ nd.comp.rs = 0) (d : String) :
    let r := (s.compRow ph ta v i st n d).1
    ∃ P L Vi Vo Io, r.pwr = some P ∧ r.loss = some L ∧ r.vin = some Vi ∧ r.vout = some Vo ∧
      r.iin = some Io ∧ r.iout = some Io ∧ 0 ≤ Io ∧ Vi - Vo = nd.comp.rs * Io ∧ 0 ≤ Vi - Vo ∧
      |P - L - |Vo| * Io| ≤ rowTol cfg (Vi - Vo) Vo Io Io + (Vi - Vo) * lawShift s ph v v' i st n := by
  intro r
  have hlt := C01.node?_some_lt s n nd hnode
  obtain ⟨_, c2, c3, c4, c5, c6, c7⟩ := compRow_root s ph ta v i st n nd hnode hpar d
  obtain ⟨f1, _⟩ := root_node_defect s cfg ph v i st v' st' hcv ta n nd hn hnode hpar hs hc hF01
    (vget v n + nd.comp.rs * vget i n)
  obtain ⟨r1, r2, _⟩ := cell_residuals s cfg htol ph v i st v' st' hcv n hn hlt
  have hi := hcv.inn n
  have hW : 0 ≤ nd.comp.rs * vget i n := mul_nonneg hc.rs hi
  have hB := bound_mono (nd.comp.rs * vget i n) (vget i n) _ _ _ _ _ hW hi r1 r2
  have e : vget v n + nd.comp.rs * vget i n - vget v n = nd.comp.rs * vget i n := by ring
  refine ⟨_, _, _, _, _, c6, c7, c2, c3, c4, c5, hi, e, by rw [e]; exact hW, ?_⟩
  unfold rowTol; rw [e, abs_of_nonneg hi]; linarith

/-- PMux node, explicit form (`Vin` = the selected input's voltage, 0 V without a live input) -/
theorem mux_node_defect (s : SSys α) (cfg : Cfg α) (ph : String) (v i : Vec α) (st : St) (v' : Vec α) (st' : St)
    (hcv : ConvAt s cfg ph v i st v' st') (ta : α)
    (n : Nat) (nd : SNode α) (hn : n ∈ s.topo) (hnode : s.node? n = some nd)
    (hk : nd.comp.kind = .pmux) (hpar : nd.parents ≠ []) (hc : nd.comp.Phys) :
    let pl := nd.comp.solvPwrLoss (muxVin v st nd) (vget v n) (vget i n) (ioOf s nd n v i st) ta (nd.pconf.ctx ph)
    let B := |muxVin v st nd| * |vget i n - s.backAt ph v i st n| + ioOf s nd n v i st * |vget v n - vget v' n|
    |pl.pwr - pl.loss - |vget v n| * ioOf s nd n v i st| ≤ B ∧
    |(|muxVin v st nd| * vget i n - pl.loss - |vget v n| * ioOf s nd n v i st)| ≤ B := by
  intro pl B
  simp only [pl, B]
  have hlt := C01.node?_some_lt s n nd hnode
  obtain ⟨⟨b, hf⟩, _, _⟩ := conv_cell s cfg ph v i st v' st' hcv n hn hlt
  have hne : nd.parents.isEmpty = false := by
    cases hp : nd.parents with
    | nil => exact absurd hp hpar
    | cons a l => rfl
  have hbk : s.backAt ph v i st n = s.backAt ph v i st n := rfl
  unfold SSys.fwdAt SSys.lawArgs at hf
  conv at hbk => lhs; unfold SSys.backAt SSys.lawArgs
  simp only [hnode, hne, Bool.false_eq_true, if_false] at hf hbk
  have hio := ioOf_nonneg s nd n hnode v i st hcv.inn
  cases hsel : priInpAux (nd.parents.map (sget st)) (nd.parents.map (vget v)) 0 with
  | some k =>
    have hm := local_defect_mux nd.comp hk hc _ _ (ioOf s nd n v i st) ta (nd.pconf.ctx ph) (vget v' n)
      (s.backAt ph v i st n) b hio hf hbk k hsel (vget v n) (vget i n) (hcv.inn n)
    obtain ⟨h1, _, _, _⟩ := pri_some_spec _ _ k hsel
    rw [List.length_map] at h1
    rw [getD_map_vget v nd.parents k h1] at hm
    have e : muxVin v st nd = vget v (nd.parents.getD k 0) := by unfold muxVin; rw [hsel]
    rw [e]
    exact hm
  | none =>
    have e : muxVin v st nd = 0 := by
      unfold muxVin; rw [hsel]
      cases hp : nd.parents with
      | nil => exact absurd hp hpar
      | cons p0 rest =>
        rw [hp] at hsel
        simp only [List.map_cons] at hsel
        rcases pri_none_head _ _ _ _ hsel with h | h
        · exact hcv.flag p0 h
        · exact h
    have hv0 : vget v' n = 0 := by
      unfold Comp.solvOutpVolt at hf
      simp only [hk, hsel, Except.ok.injEq, Prod.mk.injEq] at hf
      exact hf.1.symm
    obtain ⟨p0, l0⟩ := pl_dead nd.comp (by rw [hk]; decide) (vget v n) (vget i n) (ioOf s nd n v i st) ta
      (nd.pconf.ctx ph)
    rw [e, p0, l0, hv0]
    simp only [abs_zero, zero_mul, sub_zero, zero_sub, abs_neg, zero_add, abs_mul, abs_abs, abs_of_nonneg hio]
    constructor <;> rw [mul_comm]

/-- **Row power defect bound — PMux rows.**  `Vin` is the selected input's voltage (0 V without a live input);
    same bound as for a fed row. -/
theorem row_power_defect_bound_mux (s : SSys α) (cfg : Cfg α) (htol : TolOK cfg) (ph : String) (v i : Vec α)
    (st : St) (v' : Vec α) (st' : St) (hcv : ConvAt s cfg ph v i st v' st') (ta : α)
    (n : Nat) (nd : SNode α) (hn : n ∈ s.topo) (hnode : s.node? n = some nd)
    (hk : nd.comp.kind = .pmux) (hpar : nd.parents ≠ []) (hc : nd.comp.Phys) (d : String) :
    let r := (s.compRow ph ta v i st n d).1
    ∃ P L Vi Vo Ii Io, r.pwr = some P ∧ r.loss = some L ∧ r.vin = some Vi ∧ r.vout = some Vo ∧
      r.iin = some Ii ∧ r.iout = some Io ∧ 0 ≤ Ii ∧ 0 ≤ Io ∧ Vi = muxVin v st nd ∧
      |P - L - |Vo| * Io| ≤ rowTol cfg |Vi| Vo Ii Io + |Vi| * lawShift s ph v v' i st n ∧
      |(|Vi| * Ii - L - |Vo| * Io)| ≤ rowTol cfg |Vi| Vo Ii Io + |Vi| * lawShift s ph v v' i st n := by
  intro r
  have hlt := C01.node?_some_lt s n nd hnode
  have hg := domainFree_compRow (fun r : Row α => (r.vin, r.vout, r.iin, r.iout, r.pwr, r.loss))
    (fun _ _ => rfl) s ph ta v i st n d ""
  simp only [Prod.mk.injEq] at hg
  obtain ⟨g1, g2, g3, g4, g5, g6⟩ := hg
  obtain ⟨VI, IO, c1, c2, c3, c4, c5, c6, _, _⟩ := compRow_consistent s ph ta v i st n nd hnode ""
  have hrow := rowOf_mux s ph ta v i st n nd hnode hk hpar
  unfold rowOf cellsOf rP rL at hrow
  rw [c1, c4] at hrow
  simp only [Option.getD_some, Cells.mk.injEq] at hrow
  obtain ⟨e1, _, _, e4, _, _⟩ := hrow
  subst e1; subst e4
  obtain ⟨f1, f2⟩ := mux_node_defect s cfg ph v i st v' st' hcv ta n nd hn hnode hk hpar hc
  obtain ⟨r1, r2, _⟩ := cell_residuals s cfg htol ph v i st v' st' hcv n hn hlt
  have hio := ioOf_nonneg s nd n hnode v i st hcv.inn
  have hB := bound_mono |muxVin v st nd| (ioOf s nd n v i st) _ _ _ _ _ (abs_nonneg _) hio r1 r2
  refine ⟨_, _, _, _, _, _, g5.trans c5, g6.trans c6, g1.trans c1, g2.trans c2, g3.trans c3, g4.trans c4,
    hcv.inn n, hio, rfl, ?_, ?_⟩
  · unfold rowTol; rw [abs_of_nonneg hio]; linarith
  · unfold rowTol; rw [abs_of_nonneg hio]; linarith

/-! ### 3. the balance of an abstract forest, residual form -/

/-- what row `n` keeps for itself: what it takes from its feeder (`|Vin|·Iin`; a root: its Power) minus what it
    books (Loss; a load: Power + Loss) minus what it passes on (`|Vout|·Iout`).  0 for a row on its laws. -/
def nodeThrough {ι : Type} (par : ι → Option ι) (isLoad : ι → Bool) (row : ι → Cells α) (n : ι) : α :=
  (if par n = none then (row n).pwr else 0)
    - (if isLoad n then (row n).pwr + (row n).loss else (row n).loss)
    - |(row n).vout| * (row n).iout
    + (match par n with | some _ => |(row n).vin| * (row n).iin | none => 0)

open Finset in
/-- **System balance, residual form.**  In ANY table whose rows are voltage-linked (`Vin` = `Vout` of the
    feeding row) the defect of the whole-table balance is the sum over the rows of their through-defects and
    their link defects `|Vout|·(Iout − Σ Iin of the rows fed)`.  No hypothesis on the rows themselves. -/
theorem system_balance_resid {ι : Type} [DecidableEq ι] (ns : Finset ι) (par : ι → Option ι)
    (hclosed : ∀ c ∈ ns, ∀ p, par c = some p → p ∈ ns)
    (isLoad : ι → Bool) (row : ι → Cells α)
    (hvin : ∀ c ∈ ns, ∀ p, par c = some p → (row c).vin = (row p).vout) :
    ∑ n ∈ ns, (if par n = none then (row n).pwr else 0)
      - ∑ n ∈ ns, (if isLoad n then (row n).pwr + (row n).loss else (row n).loss)
    = ∑ n ∈ ns, (nodeThrough par isLoad row n
        + |(row n).vout| * ((row n).iout - ∑ c ∈ kidsOf ns par n, (row c).iin)) := by
  have hF : ∑ n ∈ ns, ∑ c ∈ kidsOf ns par n, |(row n).vout| * (row c).iin
      = ∑ c ∈ ns, (match par c with | some _ => |(row c).vin| * (row c).iin | none => 0) := by
    rw [sum_kids_exchange ns par hclosed (fun p c => |(row p).vout| * (row c).iin)]
    apply Finset.sum_congr rfl
    intro c hc
    cases hp : par c with
    | none => rfl
    | some p => simp only; rw [hvin c hc p hp]
  have hA : ∑ n ∈ ns, |(row n).vout| * ∑ c ∈ kidsOf ns par n, (row c).iin
      = ∑ n ∈ ns, ∑ c ∈ kidsOf ns par n, |(row n).vout| * (row c).iin := by
    apply Finset.sum_congr rfl
    intro n _
    rw [Finset.mul_sum]
  unfold nodeThrough
  simp only [mul_sub, Finset.sum_add_distrib, Finset.sum_sub_distrib]
  rw [hA, hF]
  ring

/-! ### 4. the rows of a converged state in the forest -/

/-- the magnitude the current tolerance of row `r` multiplies, from the row's own cells -/
def rowW (r : Row α) : α :=
  if r.typ == "SOURCE" then |r.vin.getD 0 - r.vout.getD 0| else |r.vin.getD 0|

/-- **`rowTol` of a table row**, from its own cells (LOAD rows need no tolerance: they book `|Vin·Iin|` exactly) -/
def rowTolRow (cfg : Cfg α) (r : Row α) : α :=
  if r.typ == "LOAD" then 0
  else rowTol cfg (rowW r) (r.vout.getD 0) (r.iin.getD 0) (r.iout.getD 0)

/-- the input voltage a non-root row reports -/
def vinOf (v : Vec α) (st : St) (nd : SNode α) : α :=
  if nd.comp.kind = .pmux then muxVin v st nd else vget v (nd.parents.headD 0)

/-- law shift of node `n`, weighted like its current tolerance (0 for loads) -/
def shiftW (s : SSys α) (ph : String) (v v' i : Vec α) (st : St) (n : Nat) : α :=
  match s.node? n with
  | some nd =>
    if nd.comp.kind.ctype = .LOAD then 0
    else if nd.parents.isEmpty then nd.comp.rs * vget i n * lawShift s ph v v' i st n
    else |vinOf v st nd| * lawShift s ph v v' i st n
  | none => 0

/-- the `Iout` cell of node `n`'s row -/
def ioutOf (s : SSys α) (v i : Vec α) (st : St) (n : Nat) (nd : SNode α) : α :=
  if nd.parents.isEmpty then vget i n else ioOf s nd n v i st

/-- **link defect** of node `n`: `|Vout|` times the visible mismatch between the row's `Iout` cell and the `Iin`
    cells of the rows it feeds.  Non-zero only for a SOURCE row (its `Iout` is its own current cell, not the
    children's sum) and for a row that feeds a PMux without live input (`linkM_eq_zero`). -/
def linkM (s : SSys α) (v i : Vec α) (st : St) (n : Nat) : α :=
  match s.node? n with
  | some nd => |vget v n| *
      |ioutOf s v i st n nd - (nd.childs.map fun c => if feederM s v st c = some n then vget i c else 0).sum|
  | none => 0

theorem rowOf_typ (s : SSys α) (ph : String) (ta : α) (v i : Vec α) (st : St) (n : Nat) (nd : SNode α)
    (hnode : s.node? n = some nd) : (s.compRow ph ta v i st n "").1.typ = nd.comp.kind.ctype.name := by
  unfold SSys.compRow; simp only [hnode]

/-- a non-mux, non-source node of a well-formed tree has exactly one supply -/
theorem single_parent (s : SSys α) (hwf : TreeWF s) (n : Nat) (nd : SNode α) (h : s.node? n = some nd)
    (hm : nd.comp.kind ≠ .pmux) (hs : nd.comp.kind ≠ .source) : ∃ p, nd.parents = [p] := by
  rcases parents_cases' s hwf n nd h hm with h0 | h1
  · exact absurd ((hwf.rootSrc n nd h).mp h0) hs
  · exact h1

theorem ctype_ne_load_name (k : Kind) (h : k.ctype ≠ .LOAD) : (k.ctype.name == "LOAD") = false := by
  rw [ctype_name_load]; simpa using h

theorem ctype_name_source' (k : Kind) (h : k ≠ .source) : (k.ctype.name == "SOURCE") = false := by
  rw [kind_name_source]; simpa using h

/-- **Per-node through-defect bound** in a converged state (every kind, PMux included). -/
theorem node_through_bound (s : SSys α) (hwf : TreeWF s) (hok : CompsOK s) (cfg : Cfg α) (htol : TolOK cfg)
    (ph : String) (v i : Vec α) (st : St) (v' : Vec α) (st' : St) (hcv : ConvAt s cfg ph v i st v' st') (ta : α)
    (n : Nat) (nd : SNode α) (hnode : s.node? n = some nd) :
    |nodeThrough (feederM s v st) (isLoadB s) (rowOf s ph ta v i st) n|
      ≤ rowTolRow cfg (s.compRow ph ta v i st n "").1 + shiftW s ph v v' i st n := by
  have hn : n ∈ s.topo := mem_of_node s hwf n nd hnode
  have hlt := C01.node?_some_lt s n nd hnode
  have hphys := hok.phys n nd hnode
  have htyp := rowOf_typ s ph ta v i st n nd hnode
  have hlb : isLoadB s n = decide (nd.comp.kind.ctype = .LOAD) := by unfold isLoadB; rw [hnode]
  obtain ⟨r1, r2, _⟩ := cell_residuals s cfg htol ph v i st v' st' hcv n hn hlt
  by_cases hk : nd.comp.kind = .pmux
  · -- PMux
    have hpne := mux_parents_ne s hwf n nd hnode hk
    have hne : nd.parents.isEmpty = false := by
      cases hp : nd.parents with
      | nil => exact absurd hp hpne
      | cons a l => rfl
    have hnl : nd.comp.kind.ctype ≠ .LOAD := by rw [hk]; decide
    obtain ⟨f1, f2⟩ := mux_node_defect s cfg ph v i st v' st' hcv ta n nd hn hnode hk hpne hphys
    have hio := ioOf_nonneg s nd n hnode v i st hcv.inn
    have hB := bound_mono |muxVin v st nd| (ioOf s nd n v i st) _ _ _ _ _ (abs_nonneg _) hio r1 r2
    have hrow := rowOf_mux s ph ta v i st n nd hnode hk hpne
    have hT : rowTolRow cfg (s.compRow ph ta v i st n "").1 + shiftW s ph v v' i st n
        = |muxVin v st nd| * tolI cfg (vget i n) + |muxVin v st nd| * lawShift s ph v v' i st n
          + ioOf s nd n v i st * tolV cfg (vget v n) := by
      have hc := congrArg Cells.vin hrow
      have hc2 := congrArg Cells.vout hrow
      have hc3 := congrArg Cells.iin hrow
      have hc4 := congrArg Cells.iout hrow
      simp only [rowOf, cellsOf] at hc hc2 hc3 hc4
      unfold rowTolRow rowW shiftW vinOf rowTol
      rw [htyp, ctype_ne_load_name _ hnl, ctype_name_source' _ (by rw [hk]; decide), hc, hc2, hc3, hc4]
      simp only [hnode, hk, hne, if_true, if_false, Bool.false_eq_true, Kind.ctype, reduceCtorEq,
        abs_of_nonneg hio]
      ring
    rw [hT]
    unfold nodeThrough
    rw [hrow, hlb, feederM_mux s v st n nd hnode hk]
    simp only [decide_eq_true_eq, if_neg hnl]
    cases hsel : priInpAux (nd.parents.map (sget st)) (nd.parents.map (vget v)) 0 with
    | some k =>
      simp only [Option.map_some, reduceCtorEq, if_false]
      have e : ∀ L Y X : α, 0 - L - Y + X = X - L - Y := by intro L Y X; ring
      rw [e]
      linarith
    | none =>
      simp only [Option.map_none, if_true, add_zero]
      linarith
  · rcases parents_cases' s hwf n nd hnode hk with h0 | ⟨p, h1⟩
    · -- root
      have hsrc := (hwf.rootSrc n nd hnode).mp h0
      have hnl : nd.comp.kind.ctype ≠ .LOAD := by rw [hsrc]; decide
      obtain ⟨f1, _⟩ := root_node_defect s cfg ph v i st v' st' hcv ta n nd hn hnode h0 hsrc hphys
        (hok.f01 n nd hnode hsrc) (vget v n + nd.comp.rs * vget i n)
      have hi := hcv.inn n
      have hW : 0 ≤ nd.comp.rs * vget i n := mul_nonneg hphys.rs hi
      have hB := bound_mono (nd.comp.rs * vget i n) (vget i n) _ _ _ _ _ hW hi r1 r2
      have hrow := rowOf_root s ph ta v i st n nd hnode h0
      have hT : rowTolRow cfg (s.compRow ph ta v i st n "").1 + shiftW s ph v v' i st n
          = nd.comp.rs * vget i n * tolI cfg (vget i n) + nd.comp.rs * vget i n * lawShift s ph v v' i st n
            + vget i n * tolV cfg (vget v n) := by
        have hc := congrArg Cells.vin hrow
        have hc2 := congrArg Cells.vout hrow
        have hc3 := congrArg Cells.iin hrow
        have hc4 := congrArg Cells.iout hrow
        simp only [rowOf, cellsOf] at hc hc2 hc3 hc4
        unfold rowTolRow rowW shiftW rowTol
        rw [htyp, ctype_ne_load_name _ hnl, hsrc, hc, hc2, hc3, hc4]
        have e : vget v n + nd.comp.rs * vget i n - vget v n = nd.comp.rs * vget i n := by ring
        simp only [hnode, h0, hsrc, Kind.ctype, CType.name, List.isEmpty_nil, if_true, if_false,
          Bool.false_eq_true, beq_self_eq_true, reduceCtorEq, e, abs_of_nonneg hW, abs_of_nonneg hi]
        ring
      rw [hT]
      unfold nodeThrough
      rw [hrow, hlb, feederM_nonmux s v st n nd hnode hk, h0]
      simp only [decide_eq_true_eq, if_neg hnl, List.head?_nil, if_true, add_zero]
      linarith
    · -- single supply
      have hns : nd.comp.kind ≠ .source := by
        intro e
        have := (hwf.rootSrc n nd hnode).mpr e
        rw [h1] at this; cases this
      have hrow := rowOf_fed s ph ta v i st n p nd hnode h1
      have hio := ioOf_nonneg s nd n hnode v i st hcv.inn
      unfold nodeThrough
      rw [hrow, hlb, feederM_nonmux s v st n nd hnode hk, h1]
      simp only [List.head?_cons, reduceCtorEq, if_false, decide_eq_true_eq]
      by_cases hl : nd.comp.kind.ctype = .LOAD
      · -- load: books exactly what it draws
        have hleaf : ioOf s nd n v i st = 0 := by unfold ioOf; rw [hwf.loadLeaf n nd hnode hl]; rfl
        have hll := live_load nd.comp hl (vget v p) (vget v n) (vget i n) (ioOf s nd n v i st) ta
          (nd.pconf.ctx ph) (hcv.inn n)
        have hT : rowTolRow cfg (s.compRow ph ta v i st n "").1 + shiftW s ph v v' i st n = 0 := by
          unfold rowTolRow shiftW
          rw [htyp, ctype_name_load]
          simp [hnode, hl]
        rw [hT, if_pos hl, hleaf] at *
        have e : (0 : α) - ((nd.comp.solvPwrLoss (vget v p) (vget v n) (vget i n) 0 ta (nd.pconf.ctx ph)).pwr
            + (nd.comp.solvPwrLoss (vget v p) (vget v n) (vget i n) 0 ta (nd.pconf.ctx ph)).loss)
            - |vget v n| * 0 + |vget v p| * vget i n = 0 := by
          rw [hll]; ring
        rw [e, abs_zero]
      · obtain ⟨_, f2⟩ := fed_node_defect s cfg ph v i st v' st' hcv ta n p nd hn hnode h1 hns hk hl hphys
          (hok.conv n nd hnode)
        have hB := bound_mono |vget v p| (ioOf s nd n v i st) _ _ _ _ _ (abs_nonneg _) hio r1 r2
        have hT : rowTolRow cfg (s.compRow ph ta v i st n "").1 + shiftW s ph v v' i st n
            = |vget v p| * tolI cfg (vget i n) + |vget v p| * lawShift s ph v v' i st n
              + ioOf s nd n v i st * tolV cfg (vget v n) := by
          have hc := congrArg Cells.vin hrow
          have hc2 := congrArg Cells.vout hrow
          have hc3 := congrArg Cells.iin hrow
          have hc4 := congrArg Cells.iout hrow
          simp only [rowOf, cellsOf] at hc hc2 hc3 hc4
          unfold rowTolRow rowW shiftW vinOf rowTol
          rw [htyp, ctype_ne_load_name _ hl, ctype_name_source' _ hns, hc, hc2, hc3, hc4]
          simp only [hnode, hk, h1, List.isEmpty_cons, List.headD_cons, if_false, Bool.false_eq_true,
            if_neg hl, abs_of_nonneg hio]
          ring
        rw [hT, if_neg hl]
        have e : ∀ L Y X : α, 0 - L - Y + X = X - L - Y := by intro L Y X; ring
        rw [e]
        linarith

/-- the cells every live row shows, whatever the state -/
theorem rowOf_basic (s : SSys α) (ph : String) (ta : α) (v i : Vec α) (st : St) (n : Nat) (nd : SNode α)
    (hnode : s.node? n = some nd) :
    (rowOf s ph ta v i st n).vout = vget v n ∧ (rowOf s ph ta v i st n).iin = vget i n ∧
    (rowOf s ph ta v i st n).iout = ioutOf s v i st n nd := by
  obtain ⟨VI, IO, c1, c2, c3, c4, _, _, _, c8⟩ := compRow_consistent s ph ta v i st n nd hnode ""
  unfold rowOf cellsOf
  rw [c2, c3, c4]
  refine ⟨rfl, rfl, ?_⟩
  unfold ioutOf
  cases hp : nd.parents with
  | nil =>
    obtain ⟨_, _, _, _, r5, _⟩ := compRow_root s ph ta v i st n nd hnode hp ""
    rw [c4] at r5
    simp only [List.isEmpty_nil, if_true, Option.getD_some]
    exact Option.some.inj r5
  | cons a l =>
    simp only [List.isEmpty_cons, Bool.false_eq_true, if_false, Option.getD_some]
    exact c8 (by rw [hp]; simp)

/-- `Vin` of a fed row is `Vout` of its feeder's row — whatever the state -/
theorem rowOf_vin_link (s : SSys α) (hwf : TreeWF s) (ph : String) (ta : α) (v i : Vec α) (st : St)
    (c p : Nat) (cd : SNode α) (hcd : s.node? c = some cd) (hp : feederM s v st c = some p) :
    (rowOf s ph ta v i st c).vin = vget v p := by
  by_cases hk : cd.comp.kind = .pmux
  · have hpne := mux_parents_ne s hwf c cd hcd hk
    rw [rowOf_mux s ph ta v i st c cd hcd hk hpne]
    rw [feederM_mux s v st c cd hcd hk] at hp
    show muxVin v st cd = vget v p
    unfold muxVin
    cases hsel : priInpAux (cd.parents.map (sget st)) (cd.parents.map (vget v)) 0 with
    | none => rw [hsel] at hp; cases hp
    | some k =>
      rw [hsel] at hp
      simp only [Option.map_some, Option.some.injEq] at hp
      rw [← hp]
  · rw [feederM_nonmux s v st c cd hcd hk] at hp
    rcases parents_cases' s hwf c cd hcd hk with h0 | ⟨q, h1⟩
    · rw [h0] at hp; cases hp
    · rw [h1] at hp
      simp only [List.head?_cons, Option.some.injEq] at hp
      subst hp
      rw [rowOf_fed s ph ta v i st c q cd hcd h1]

/-- the link defect of a listed node, as `system_balance_resid` states it, is `linkM` -/
theorem link_eq (s : SSys α) (hwf : TreeWF s) (ph : String) (ta : α) (v i : Vec α) (st : St)
    (n : Nat) (nd : SNode α) (hnode : s.node? n = some nd) :
    |(|(rowOf s ph ta v i st n).vout| * ((rowOf s ph ta v i st n).iout
        - ∑ c ∈ kidsOf s.topo.toFinset (feederM s v st) n, (rowOf s ph ta v i st c).iin))|
      = linkM s v i st n := by
  obtain ⟨b1, _, b3⟩ := rowOf_basic s ph ta v i st n nd hnode
  have hk : ∑ c ∈ kidsOf s.topo.toFinset (feederM s v st) n, (rowOf s ph ta v i st c).iin
      = (nd.childs.map fun c => if feederM s v st c = some n then vget i c else 0).sum := by
    rw [kidsM_eq s hwf v st n nd hnode, Finset.sum_filter, List.sum_toFinset _ (hwf.chNodup n nd hnode)]
    congr 1
    apply List.map_congr_left
    intro c hc
    obtain ⟨cd, hcd⟩ := Option.isSome_iff_exists.mp (hwf.chLive n nd hnode c hc)
    rw [(rowOf_basic s ph ta v i st c cd hcd).2.1]
  rw [hk, b1, b3, abs_mul, abs_abs]
  unfold linkM
  rw [hnode]

open Finset in
/-- **Balance defect over the listed nodes** of a converged state: at most the sum of the per-row tolerances,
    the weighted law shifts and the link defects. -/
theorem node_balance_defect_bound (s : SSys α) (hwf : TreeWF s) (hok : CompsOK s) (cfg : Cfg α) (htol : TolOK cfg)
    (ph : String) (v i : Vec α) (st : St) (v' : Vec α) (st' : St) (hcv : ConvAt s cfg ph v i st v' st') (ta : α) :
    |∑ n ∈ s.topo.toFinset, (if feederM s v st n = none then (rowOf s ph ta v i st n).pwr else 0)
      - ∑ n ∈ s.topo.toFinset,
          (if isLoadB s n then (rowOf s ph ta v i st n).pwr + (rowOf s ph ta v i st n).loss
           else (rowOf s ph ta v i st n).loss)|
    ≤ ∑ n ∈ s.topo.toFinset, (rowTolRow cfg (s.compRow ph ta v i st n "").1 + shiftW s ph v v' i st n
        + linkM s v i st n) := by
  have hmem : ∀ n, n ∈ s.topo.toFinset → ∃ nd, s.node? n = some nd := fun n hn =>
    node_of_mem s hwf n (List.mem_toFinset.mp hn)
  rw [system_balance_resid s.topo.toFinset (feederM s v st) ?_ (isLoadB s) (rowOf s ph ta v i st) ?_]
  · refine (Finset.abs_sum_le_sum_abs _ _).trans (Finset.sum_le_sum ?_)
    intro n hn
    obtain ⟨nd, hnd⟩ := hmem n hn
    refine (abs_add_le _ _).trans ?_
    rw [link_eq s hwf ph ta v i st n nd hnd]
    have := node_through_bound s hwf hok cfg htol ph v i st v' st' hcv ta n nd hnd
    linarith
  · intro c hc p hp
    obtain ⟨cd, hcd⟩ := hmem c hc
    obtain ⟨pd, hpd⟩ := Option.isSome_iff_exists.mp (hwf.parLive c cd hcd p (feederM_mem s v st c p cd hcd hp))
    exact List.mem_toFinset.mpr (mem_of_node s hwf p pd hpd)
  · intro c hc p hp
    obtain ⟨cd, hcd⟩ := hmem c hc
    obtain ⟨pd, hpd⟩ := Option.isSome_iff_exists.mp (hwf.parLive c cd hcd p (feederM_mem s v st c p cd hcd hp))
    rw [rowOf_vin_link s hwf ph ta v i st c p cd hcd hp, (rowOf_basic s ph ta v i st p pd hpd).1]

/-- the three sums of the table balance over the rows of `compRows` are the sums over the listed nodes
    (a PMux without live input reports 0 V in and books no power, so it does not count as a source) -/
theorem table_sums_eq (s : SSys α) (hwf : TreeWF s) (ph : String) (ta : α) (v i : Vec α) (st : St)
    (hflag : ∀ n, sget st n = true → vget v n = 0) :
    let rows := s.compRows ph ta v i st
    ((rows.filter (·.typ == "SOURCE")).map rP).sum
        = ∑ n ∈ s.topo.toFinset, (if feederM s v st n = none then (rowOf s ph ta v i st n).pwr else 0) ∧
    ((rows.filter (·.typ == "LOAD")).map fun r => rP r + rL r).sum + ((rows.filter (·.typ != "LOAD")).map rL).sum
        = ∑ n ∈ s.topo.toFinset,
          (if isLoadB s n then (rowOf s ph ta v i st n).pwr + (rowOf s ph ta v i st n).loss
           else (rowOf s ph ta v i st n).loss) := by
  intro rows
  rw [List.sum_toFinset _ hwf.nodup, List.sum_toFinset _ hwf.nodup]
  rw [sum_filter_map, sum_filter_map, sum_filter_map, ← List.sum_map_add]
  rw [compRows_numeric (fun r : Row α => if (r.typ == "SOURCE") = true then rP r else 0) (fun _ _ => rfl)]
  constructor
  · congr 1
    apply List.map_congr_left
    intro n hn
    obtain ⟨nd, hnd⟩ := node_of_mem s hwf n hn
    have htyp := rowOf_typ s ph ta v i st n nd hnd
    rw [htyp, kind_name_source]
    by_cases hk : nd.comp.kind = .source
    · have hf : feederM s v st n = none := by
        rw [feederM_nonmux s v st n nd hnd (by rw [hk]; decide), (hwf.rootSrc n nd hnd).mpr hk]; rfl
      simp [hk, hf, rowOf, cellsOf]
    · simp only [hk, decide_false, Bool.false_eq_true, if_false]
      by_cases hf : feederM s v st n = none
      · rw [if_pos hf]
        by_cases hm : nd.comp.kind = .pmux
        · have hpne := mux_parents_ne s hwf n nd hnd hm
          rw [rowOf_mux s ph ta v i st n nd hnd hm hpne]
          rw [feederM_mux s v st n nd hnd hm] at hf
          have hsel : priInpAux (nd.parents.map (sget st)) (nd.parents.map (vget v)) 0 = none := by
            cases hh : priInpAux (nd.parents.map (sget st)) (nd.parents.map (vget v)) 0 with
            | none => rfl
            | some k => rw [hh] at hf; cases hf
          have e : muxVin v st nd = 0 := by
            unfold muxVin; rw [hsel]
            cases hp : nd.parents with
            | nil => exact absurd hp hpne
            | cons p0 rest =>
              rw [hp] at hsel
              simp only [List.map_cons] at hsel
              rcases pri_none_head _ _ _ _ hsel with h | h
              · exact hflag p0 h
              · exact h
          show 0 = (nd.comp.solvPwrLoss (muxVin v st nd) _ _ _ ta _).pwr
          rw [e]
          exact (pl_dead nd.comp hk _ _ _ ta _).1.symm
        · exfalso
          obtain ⟨q, h1⟩ := single_parent s hwf n nd hnd hm hk
          rw [feederM_nonmux s v st n nd hnd hm, h1] at hf
          cases hf
      · rw [if_neg hf]
  · show (List.map _ (s.compRows ph ta v i st)).sum = _
    rw [compRows_numeric (fun r : Row α => (if (r.typ == "LOAD") = true then rP r + rL r else 0)
      + if (r.typ != "LOAD") = true then rL r else 0) (fun _ _ => rfl)]
    congr 1
    apply List.map_congr_left
    intro n hn
    obtain ⟨nd, hnd⟩ := node_of_mem s hwf n hn
    have htyp := rowOf_typ s ph ta v i st n nd hnd
    have hl : isLoadB s n = decide (nd.comp.kind.ctype = .LOAD) := by unfold isLoadB; rw [hnd]
    rw [htyp, hl, bne, ctype_name_load]
    by_cases hk : nd.comp.kind.ctype = .LOAD <;> simp [hk, rowOf, cellsOf]

/-- **Whole-table balance defect bound** (PMux included) for a converged state.  For a well-formed tree with
    accepted parameters (F01 and the 0 V Converter excluded: `CompsOK`) the defect of
      `Σ_SOURCE Power = Σ_LOAD (Power + Loss) + Σ_other Loss`
    over the component rows of `solve()` is at most
      `Σ_rows rowTolRow  +  Σ_nodes shiftW  +  Σ_nodes linkM`.
    `Vin(child) = Vout(parent)` holds exactly (same vector), so there is no voltage link term; the current
    link `Iout(parent) = Σ Iin(children)` holds exactly by row assembly for every fed row that feeds no PMux
    without live input (`linkM_eq_zero`), but NOT for a SOURCE row: its `Iout` cell is the source's own current
    cell, which the exit test only ties to the children's sum within `itol` (`srcLink_bound`). -/
theorem table_balance_defect_bound_mux_partial (s : SSys α) (hwf : TreeWF s) (hok : CompsOK s) (cfg : Cfg α)
    (htol : TolOK cfg) (ph : String) (v i : Vec α) (st : St) (v' : Vec α) (st' : St)
    (hcv : ConvAt s cfg ph v i st v' st') (ta : α) :
    let rows := s.compRows ph ta v i st
    |((rows.filter (·.typ == "SOURCE")).map rP).sum
      - (((rows.filter (·.typ == "LOAD")).map fun r => rP r + rL r).sum
          + ((rows.filter (·.typ != "LOAD")).map rL).sum)|
    ≤ (rows.map (rowTolRow cfg)).sum + (s.topo.map (shiftW s ph v v' i st)).sum
        + (s.topo.map (linkM s v i st)).sum := by
  intro rows
  obtain ⟨e1, e2⟩ := table_sums_eq s hwf ph ta v i st hcv.flag
  rw [e1, e2]
  have hR : (rows.map (rowTolRow cfg)).sum
      = (s.topo.map fun n => rowTolRow cfg (s.compRow ph ta v i st n "").1).sum := by
    show (List.map _ (s.compRows ph ta v i st)).sum = _
    rw [compRows_numeric (rowTolRow cfg) (fun _ _ => rfl)]
  rw [hR, ← List.sum_map_add, ← List.sum_map_add, ← List.sum_toFinset _ hwf.nodup]
  exact node_balance_defect_bound s hwf hok cfg htol ph v i st v' st' hcv ta

/-! ### 5. the link defects -/

/-- a PMux none of whose inputs is live (under the returned flags and voltages) -/
def isDeadMux (s : SSys α) (v : Vec α) (st : St) (c : Nat) : Bool :=
  match s.node? c with
  | some cd => decide (cd.comp.kind = .pmux) &&
      (priInpAux (cd.parents.map (sget st)) (cd.parents.map (vget v)) 0).isNone
  | none => false

/-- **Current attribution, any state**: child `c` of `n` contributes its current cell to `n`'s output current
    iff `n` is its feeder — or `c` is a PMux without live input, which `_child_curr` counts towards EVERY
    input (its current is 0 in an exact steady state, but only ≤ tolerance in a converged one). -/
theorem share_split (s : SSys α) (hwf : TreeWF s) (v i : Vec α) (st : St)
    (n c : Nat) (nd : SNode α) (h : s.node? n = some nd) (hc : c ∈ nd.childs) :
    s.childShare n i v st c = (if feederM s v st c = some n then vget i c else 0)
      + (if isDeadMux s v st c then vget i c else 0) := by
  obtain ⟨cd, hcd⟩ := Option.isSome_iff_exists.mp (hwf.chLive n nd h c hc)
  have hin : n ∈ cd.parents := (hwf.link n c nd cd h hcd).mp hc
  by_cases hk : cd.comp.kind = .pmux
  · have hpne := mux_parents_ne s hwf c cd hcd hk
    rw [feederM_mux s v st c cd hcd hk]
    unfold isDeadMux
    rw [hcd]
    cases hsel : priInpAux (cd.parents.map (sget st)) (cd.parents.map (vget v)) 0 with
    | none =>
      have hshare : s.childShare n i v st c = vget i c := by
        unfold SSys.childShare Comp.priInp
        simp only [hcd, hk, hsel]
      rw [hshare]; simp [hk, hsel]
    | some k =>
      obtain ⟨h1, _, _, _⟩ := pri_some_spec _ _ k hsel
      rw [List.length_map] at h1
      by_cases hlen : cd.parents.length > 1
      · rw [C05.mux_current_attribution s i v st c cd hcd hk hlen k hsel n]
        simp [hk, hsel]
      · have hp : cd.parents = [n] := by
          cases hpp : cd.parents with
          | nil => rw [hpp] at hin; cases hin
          | cons a l =>
            cases l with
            | nil => rw [hpp] at hin; simp only [List.mem_singleton] at hin; rw [hin]
            | cons b l' => rw [hpp] at hlen; simp at hlen
        rw [C05.single_parent_share s i v st c cd hcd n hp n]
        have hk0 : k = 0 := by rw [hp] at h1; simp at h1; exact h1
        subst hk0
        have hsel' := hsel
        rw [hp] at hsel'
        simp only [List.map_cons, List.map_nil] at hsel'
        simp [hp, hk, hsel']
  · rw [feederM_nonmux s v st c cd hcd hk]
    have hdm : isDeadMux s v st c = false := by unfold isDeadMux; rw [hcd]; simp [hk]
    rcases parents_cases' s hwf c cd hcd hk with h0 | ⟨p, h1⟩
    · rw [h0] at hin; cases hin
    · rw [h1] at hin; simp only [List.mem_singleton] at hin; subst hin
      rw [C05.single_parent_share s i v st c cd hcd n h1 n, h1, hdm]; simp

/-- the output current of a node: the currents of the rows it feeds plus those of its dead-mux children -/
theorem ioOf_split (s : SSys α) (hwf : TreeWF s) (v i : Vec α) (st : St)
    (n : Nat) (nd : SNode α) (h : s.node? n = some nd) :
    ioOf s nd n v i st = (nd.childs.map fun c => if feederM s v st c = some n then vget i c else 0).sum
      + (nd.childs.map fun c => if isDeadMux s v st c then vget i c else 0).sum := by
  rw [ioOf_eq_sum s nd n h, ← List.sum_map_add]
  congr 1
  apply List.map_congr_left
  intro c hc
  exact share_split s hwf v i st n c nd h hc

/-- the link defect of a fed row is `|Vout|` times the current cells of its children that are PMuxes without
    live input … -/
theorem linkM_fed (s : SSys α) (hwf : TreeWF s) (v i : Vec α) (st : St) (hi : ∀ m, 0 ≤ vget i m)
    (n : Nat) (nd : SNode α) (h : s.node? n = some nd) (hpar : nd.parents ≠ []) :
    linkM s v i st n = |vget v n| * (nd.childs.map fun c => if isDeadMux s v st c then vget i c else 0).sum := by
  have hne : nd.parents.isEmpty = false := by
    cases hp : nd.parents with
    | nil => exact absurd hp hpar
    | cons a l => rfl
  unfold linkM ioutOf
  rw [h]
  simp only [hne, Bool.false_eq_true, if_false]
  rw [ioOf_split s hwf v i st n nd h, add_sub_cancel_left]
  congr 1
  apply abs_of_nonneg
  apply List.sum_nonneg
  intro x hx
  obtain ⟨c, _, rfl⟩ := List.mem_map.mp hx
  split_ifs
  · exact hi c
  · exact le_refl _

/-- … hence 0 when it feeds none: for such rows `Iout = Σ Iin of the rows fed` holds EXACTLY, by assembly. -/
theorem linkM_eq_zero (s : SSys α) (hwf : TreeWF s) (v i : Vec α) (st : St) (hi : ∀ m, 0 ≤ vget i m)
    (n : Nat) (nd : SNode α) (h : s.node? n = some nd) (hpar : nd.parents ≠ [])
    (hnd : ∀ c ∈ nd.childs, isDeadMux s v st c = false) : linkM s v i st n = 0 := by
  rw [linkM_fed s hwf v i st hi n nd h hpar]
  have : (nd.childs.map fun c => if isDeadMux s v st c then vget i c else 0).sum = 0 := by
    apply List.sum_eq_zero
    intro x hx
    obtain ⟨c, hc, rfl⟩ := List.mem_map.mp hx
    rw [hnd c hc]; simp
  rw [this, mul_zero]

/-- the current cell of a PMux without live input is within the exit tolerance (plus law shift) of 0 -/
theorem dead_mux_current_bound (s : SSys α) (hwf : TreeWF s) (cfg : Cfg α) (htol : TolOK cfg) (ph : String)
    (v i : Vec α) (st : St) (v' : Vec α) (st' : St) (hcv : ConvAt s cfg ph v i st v' st')
    (c : Nat) (hd : isDeadMux s v st c = true) :
    vget i c ≤ tolI cfg (vget i c) + lawShift s ph v v' i st c := by
  unfold isDeadMux at hd
  cases hcd : s.node? c with
  | none => rw [hcd] at hd; cases hd
  | some cd =>
    rw [hcd] at hd
    simp only [Bool.and_eq_true, decide_eq_true_eq, Option.isNone_iff_eq_none] at hd
    obtain ⟨hk, hsel⟩ := hd
    have hn := mem_of_node s hwf c cd hcd
    obtain ⟨r1, _, _⟩ := cell_residuals s cfg htol ph v i st v' st' hcv c hn (hwf.bound c hn)
    have hpne := mux_parents_ne s hwf c cd hcd hk
    have hne : cd.parents.isEmpty = false := by
      cases hp : cd.parents with
      | nil => exact absurd hp hpne
      | cons a l => rfl
    have hb0 : s.backAt ph v i st c = 0 := by
      unfold SSys.backAt SSys.lawArgs Comp.solvInpCurr
      simp only [hcd, hne, Bool.false_eq_true, if_false, hk, hsel]
    rw [hb0, sub_zero, abs_of_nonneg (hcv.inn c)] at r1
    exact r1

/-- the link defect of a SOURCE row without mux: `|Vout|·|Iout − Σ Iin of its children|` -/
def srcLink (s : SSys α) (v i : Vec α) (n : Nat) : α :=
  match s.node? n with
  | some nd => if nd.parents.isEmpty then |vget v n| * |vget i n - (nd.childs.map (vget i)).sum| else 0
  | none => 0

theorem nomux_not_dead (s : SSys α) (hnm : NoMux s) (v : Vec α) (st : St) (c : Nat) :
    isDeadMux s v st c = false := by
  unfold isDeadMux
  cases hcd : s.node? c with
  | none => rfl
  | some cd => simp [hnm c cd hcd]

/-- without PMux the only link defects are those of the SOURCE rows -/
theorem linkM_nomux (s : SSys α) (hwf : TreeWF s) (hnm : NoMux s) (v i : Vec α) (st : St)
    (hi : ∀ m, 0 ≤ vget i m) (n : Nat) (hn : n ∈ s.topo) : linkM s v i st n = srcLink s v i n := by
  obtain ⟨nd, hnd⟩ := node_of_mem s hwf n hn
  cases hp : nd.parents with
  | nil =>
    unfold linkM srcLink ioutOf
    rw [hnd]
    simp only [hp, List.isEmpty_nil, if_true]
    have e : (nd.childs.map fun c => if feederM s v st c = some n then vget i c else 0)
        = nd.childs.map (vget i) := by
      apply List.map_congr_left
      intro c hc
      obtain ⟨cd, hcd, hpc⟩ := child_parents s hwf hnm n c nd hnd hc
      rw [feederM_nonmux s v st c cd hcd (hnm c cd hcd), hpc]; simp
    rw [e]
  | cons a l =>
    rw [linkM_eq_zero s hwf v i st hi n nd hnd (by rw [hp]; simp)
      (fun c _ => nomux_not_dead s hnm v st c)]
    unfold srcLink; rw [hnd]; simp [hp]

/-- **Whole-table balance defect bound, systems without a PMux.**  The only link terms are those of the SOURCE
    rows: `|Vout|·|Iout − Σ Iin(children)|`. -/
theorem table_balance_defect_bound_partial (s : SSys α) (hwf : TreeWF s) (hnm : NoMux s) (hok : CompsOK s)
    (cfg : Cfg α) (htol : TolOK cfg) (ph : String) (v i : Vec α) (st : St) (v' : Vec α) (st' : St)
    (hcv : ConvAt s cfg ph v i st v' st') (ta : α) :
    let rows := s.compRows ph ta v i st
    |((rows.filter (·.typ == "SOURCE")).map rP).sum
      - (((rows.filter (·.typ == "LOAD")).map fun r => rP r + rL r).sum
          + ((rows.filter (·.typ != "LOAD")).map rL).sum)|
    ≤ (rows.map (rowTolRow cfg)).sum + (s.topo.map (shiftW s ph v v' i st)).sum
        + (s.topo.map (srcLink s v i)).sum := by
  intro rows
  have h := table_balance_defect_bound_mux_partial s hwf hok cfg htol ph v i st v' st' hcv ta
  have e : s.topo.map (linkM s v i st) = s.topo.map (srcLink s v i) :=
    List.map_congr_left fun n hn => linkM_nomux s hwf hnm v i st hcv.inn n hn
  rw [e] at h
  exact h

/-! ### 6. what `solve()` returns IS such a converged state -/

/-- closes `x = 0` from `h : (nest of ifs) = .ok (x, true)` whose `ok` leaves are `(0, _)` or `(_, false)` -/
local macro "fin" h:ident : tactic => `(tactic|
  ((try split_ifs at $h:ident) <;> (try simp at $h:ident) <;> (try split_ifs at $h:ident) <;>
    (try simp at $h:ident) <;> first | exact Eq.symm $h | exact Eq.symm (And.left $h)))

/-- a voltage law only raises its flag together with a 0 V output -/
theorem volt_flag_zero (c : Comp α) (vi : List α) (io : α) (ph : PhaseCtx α) (off : List Bool) (x : α)
    (h : c.solvOutpVolt vi io ph off = .ok (x, true)) : x = 0 := by
  unfold Comp.solvOutpVolt at h
  cases hk : c.kind <;> simp only [hk] at h
  case pmux =>
    cases hsel : priInpAux off vi 0 with
    | none => simp [hsel] at h; exact h.symm
    | some k =>
      simp only [hsel] at h
      cases hl : c.rsList with
      | none => simp only [hl] at h; fin h
      | some l => simp only [hl] at h; fin h
  case rectifier =>
    cases hl : c.rsList with
    | none => simp only [hl] at h; fin h
    | some l => simp only [hl] at h; fin h
  all_goals fin h

/-- a Source only raises its flag when it is inactive, 0 V, or was flagged before -/
theorem source_flag_spec (c : Comp α) (hk : c.kind = .source) (vi : List α) (io : α) (ph : PhaseCtx α)
    (off : List Bool) (x : α) (h : c.solvOutpVolt vi io ph off = .ok (x, true)) :
    ph.inactive = true ∨ isZ c.vo = true ∨ off0 off = true := by
  unfold Comp.solvOutpVolt at h
  simp only [hk] at h
  split_ifs at h with h1 h2 h3
  · exact Or.inl h1
  · simp only [Bool.or_eq_true] at h2
    exact Or.inr h2
  · simp at h

/-- the invariants of every iterate of `_solve` -/
structure IterInv (s : SSys α) (ph : String) (v i : Vec α) (st : St) : Prop where
  inn     : ∀ m, 0 ≤ vget i m
  flag    : ∀ n, sget st n = true → vget v n = 0
  srcFlag : ∀ n nd, s.node? n = some nd → nd.parents = [] → sget st n = true →
              nd.comp.initOff (nd.pconf.ctx ph) = true

theorem initCurr_nonneg (c : Comp α) (hc : c.Phys) (ph : PhaseCtx α) : 0 ≤ c.initCurr ph := by
  unfold Comp.initCurr
  cases hk : c.kind <;> simp only <;> (try split_ifs) <;>
    first | exact le_refl _ | exact hc.ii | exact hc.iis | exact hc.iq | exact hc.par 0 0

theorem vget_ofList_map (f : Nat → α) (k m : Nat) :
    vget ((List.range k).map f).toArray m = if m < k then f m else 0 := by
  unfold vget
  by_cases h : m < k
  · simp [Array.getD_eq_getD_getElem?, h]
  · simp [Array.getD_eq_getD_getElem?, h]

theorem sget_ofList_map (f : Nat → List Bool) (k m : Nat) :
    sget ((List.range k).map f).toArray m = if m < k then (f m).headD false else false := by
  unfold sget
  by_cases h : m < k
  · simp [Array.getD_eq_getD_getElem?, h]
  · simp [Array.getD_eq_getD_getElem?, h]

/-- the initial state has non-negative currents and only flags sources that are off … -/
theorem init_inn (s : SSys α) (hphys : ∀ n nd, s.node? n = some nd → nd.comp.Phys) (ph : String) :
    ∀ m, 0 ≤ vget (s.init ph).2.1 m := by
  intro m
  unfold SSys.init
  simp only
  rw [vget_ofList_map]
  split_ifs
  · cases hnd : s.node? m with
    | none => exact le_refl _
    | some nd => exact initCurr_nonneg nd.comp (hphys m nd hnd) _
  · exact le_refl _

theorem init_srcFlag (s : SSys α) (ph : String) :
    ∀ n nd, s.node? n = some nd → nd.parents = [] → sget (s.init ph).2.2 n = true →
      nd.comp.initOff (nd.pconf.ctx ph) = true := by
  intro n nd hnd hpar h
  unfold SSys.init at h
  simp only at h
  rw [sget_ofList_map] at h
  split_ifs at h with hlt
  simp only [hnd, hpar, List.isEmpty_nil, if_true, List.headD_cons] at h
  exact h

/-- … but the initial flag of a non-root is its first PARENT's flag, so "a flag is only set on a 0 V output" can
    fail there (a Converter / LinReg directly under a Source that is 0 V or inactive in the phase starts at its
    `vo` with the flag set).  It holds from the first sweep on (`step_inv`). -/
theorem init_inv (s : SSys α) (hphys : ∀ n nd, s.node? n = some nd → nd.comp.Phys) (ph : String)
    (hinit : ∀ n, sget (s.init ph).2.2 n = true → vget (s.init ph).1 n = 0) :
    IterInv s ph (s.init ph).1 (s.init ph).2.1 (s.init ph).2.2 :=
  ⟨init_inn s hphys ph, hinit, init_srcFlag s ph⟩

/-- one sweep keeps the invariants — and ESTABLISHES "a flag is only set on a 0 V output", whatever the flags
    were before -/
theorem step_inv (s : SSys α) (hwf : TreeWF s) (hphys : ∀ n nd, s.node? n = some nd → nd.comp.Phys)
    (ph : String) (hpv : ∀ n nd, s.node? n = some nd → PhaseValOK (nd.pconf.ctx ph))
    (v i : Vec α) (st : St) (v' : Vec α) (st' : St) (hinn : ∀ m, 0 ≤ vget i m)
    (hsf : ∀ n nd, s.node? n = some nd → nd.parents = [] → sget st n = true →
      nd.comp.initOff (nd.pconf.ctx ph) = true)
    (hf : s.fwdProp ph v i st = .ok (v', st')) :
    IterInv s ph v' (s.backProp ph v' i st) st' := by
  obtain ⟨_, _, hpt, hout⟩ := C16.fwdProp_pointwise s ph v i st v' st' hf
  obtain ⟨_, k2, k3⟩ := C16.backProp_pointwise s ph v' i st
  have hfl : ∀ n, sget st' n = true → n ∈ s.topo ∧ ∃ x, s.fwdAt ph v i st n = .ok (x, true) ∧ vget v' n = x := by
    intro n h
    by_cases hn : n ∈ s.topo
    · obtain ⟨x, b, e1, e2, e3⟩ := hpt n hn (hwf.bound n hn)
      unfold sget at h
      rw [e3] at h
      simp only [List.headD_cons] at h
      subst h
      exact ⟨hn, x, e1, e2⟩
    · unfold sget at h
      rw [(hout n hn).2] at h
      simp at h
  refine ⟨?_, ?_, ?_⟩
  · intro m
    by_cases hm : m ∈ s.topo
    · obtain ⟨nd, hnd⟩ := node_of_mem s hwf m hm
      rw [k2 m hm (hwf.bound m hm)]
      unfold SSys.backAt SSys.lawArgs
      simp only [hnd]
      apply curr_nonneg nd.comp (hphys m nd hnd) _ _ _ _ (hpv m nd hnd)
      exact ioOf_nonneg s nd m hnd v' i st hinn
    · rw [k3 m hm]
  · intro n h
    obtain ⟨hn, x, e1, e2⟩ := hfl n h
    rw [e2]
    obtain ⟨nd, hnd⟩ := node_of_mem s hwf n hn
    unfold SSys.fwdAt at e1
    simp only [hnd] at e1
    exact volt_flag_zero _ _ _ _ _ _ e1
  · intro n nd hnd hpar h
    obtain ⟨hn, x, e1, e2⟩ := hfl n h
    have hsrc := (hwf.rootSrc n nd hnd).mp hpar
    unfold SSys.fwdAt SSys.lawArgs at e1
    simp only [hnd, hpar, List.isEmpty_nil, if_true] at e1
    unfold Comp.initOff
    simp only [hsrc]
    rcases source_flag_spec nd.comp hsrc _ _ _ _ _ e1 with h1 | h1 | h1
    · simp [h1]
    · simp [h1]
    · have := hsf n nd hnd hpar h1
      unfold Comp.initOff at this
      simpa [hsrc] using this

theorem loop_inv (s : SSys α) (hwf : TreeWF s) (hphys : ∀ n nd, s.node? n = some nd → nd.comp.Phys)
    (cfg : Cfg α) (ph : String) (hpv : ∀ n nd, s.node? n = some nd → PhaseValOK (nd.pconf.ctx ph)) :
    ∀ (fuel : Nat) (v i : Vec α) (st : St) (it : Nat) (r : SolveOut α),
      IterInv s ph v i st → s.loop cfg ph fuel v i st it = .ok r → IterInv s ph r.v r.i r.st := by
  intro fuel
  induction fuel with
  | zero =>
    intro v i st it r hinv h
    simp only [SSys.loop, Except.ok.injEq] at h
    subst h; exact hinv
  | succ n ih =>
    intro v i st it r hinv h
    unfold SSys.loop at h
    cases hf : s.fwdProp ph v i st with
    | error e => rw [hf] at h; simp [bind, Except.bind] at h
    | ok p =>
      obtain ⟨v', st'⟩ := p
      rw [hf] at h
      simp only [bind, Except.bind] at h
      by_cases hc : converged cfg v v' i (s.backProp ph v' i st) = true
      · rw [if_pos hc] at h
        simp only [Except.ok.injEq] at h
        subst h; exact hinv
      · rw [if_neg hc] at h
        exact ih _ _ _ _ _ (step_inv s hwf hphys ph hpv v i st v' st' hinv.inn hinv.srcFlag hf) h

/-- **What `solve()` returns for a phase is a converged state in the sense of `ConvAt`.**
    Hypotheses: well-formed tree, accepted parameters, non-negative phase values, and — only if the exit test
    fired on the very first sweep (`iters = 1`: the INITIAL state is returned) — the flag condition on the
    initial state (see `init_inv`). -/
theorem solvePhase_convAt (s : SSys α) (hwf : TreeWF s) (hphys : ∀ n nd, s.node? n = some nd → nd.comp.Phys)
    (cfg : Cfg α) (ph : String) (hpv : ∀ n nd, s.node? n = some nd → PhaseValOK (nd.pconf.ctx ph))
    (r : SolveOut α) (h : s.solvePhase cfg ph = .ok r)
    (hinit : r.iters ≠ 1 ∨ ∀ n, sget (s.init ph).2.2 n = true → vget (s.init ph).1 n = 0) :
    ∃ v' st', ConvAt s cfg ph r.v r.i r.st v' st' := by
  obtain ⟨v', st', hf, hc⟩ := C03.solvePhase_sound s cfg ph r h
  obtain ⟨hs1, hs2⟩ := C01.solvePhase_sizes s cfg ph r h
  have hinv : IterInv s ph r.v r.i r.st := by
    unfold SSys.solvePhase at h
    cases hr : s.solveRaw cfg ph with
    | error e => rw [hr] at h; simp [bind, Except.bind] at h
    | ok r0 =>
      rw [hr] at h
      simp only [bind, Except.bind] at h
      split_ifs at h with hgt
      simp only [pure, Except.pure, Except.ok.injEq] at h
      subst h
      unfold SSys.solveRaw at hr
      rcases hinit with hit | hinit
      · -- not the initial state: it went through at least one sweep
        simp only at hr
        unfold SSys.loop at hr
        cases hf0 : s.fwdProp ph (s.init ph).1 (s.init ph).2.1 (s.init ph).2.2 with
        | error e => rw [hf0] at hr; simp [bind, Except.bind] at hr
        | ok p =>
          obtain ⟨v1, st1⟩ := p
          rw [hf0] at hr
          simp only [bind, Except.bind] at hr
          split_ifs at hr with hc0
          · simp only [Except.ok.injEq] at hr
            subst hr
            exact absurd rfl hit
          · exact loop_inv s hwf hphys cfg ph hpv _ _ _ _ _ _
              (step_inv s hwf hphys ph hpv _ _ _ v1 st1 (init_inn s hphys ph) (init_srcFlag s ph) hf0) hr
      · exact loop_inv s hwf hphys cfg ph hpv _ _ _ _ _ _ (init_inv s hphys ph hinit) hr
  exact ⟨v', st', hf, hs1, hs2, hc, hinv.inn, hinv.flag, hinv.srcFlag⟩

/-- **`solve()`, whole-table form**: the component rows of any phase table `solve()` returns are off balance by
    at most `Σ rowTolRow + Σ shiftW + Σ linkM` (with `v'` the once-more-swept voltages). -/
theorem solve_table_balance_defect_bound_partial (s : SSys α) (hwf : TreeWF s) (hok : CompsOK s) (cfg : Cfg α)
    (htol : TolOK cfg) (ph : String) (hpv : ∀ n nd, s.node? n = some nd → PhaseValOK (nd.pconf.ctx ph))
    (r : SolveOut α) (h : s.solvePhase cfg ph = .ok r)
    (hinit : r.iters ≠ 1 ∨ ∀ n, sget (s.init ph).2.2 n = true → vget (s.init ph).1 n = 0) (ta : α) :
    ∃ v' st', s.fwdProp ph r.v r.i r.st = .ok (v', st') ∧
      let rows := s.compRows ph ta r.v r.i r.st
      |((rows.filter (·.typ == "SOURCE")).map rP).sum
        - (((rows.filter (·.typ == "LOAD")).map fun r => rP r + rL r).sum
            + ((rows.filter (·.typ != "LOAD")).map rL).sum)|
      ≤ (rows.map (rowTolRow cfg)).sum + (s.topo.map (shiftW s ph r.v v' r.i r.st)).sum
          + (s.topo.map (linkM s r.v r.i r.st)).sum := by
  obtain ⟨v', st', hcv⟩ := solvePhase_convAt s hwf hok.phys cfg ph hpv r h hinit
  exact ⟨v', st', hcv.fwd,
    table_balance_defect_bound_mux_partial s hwf hok cfg htol ph r.v r.i r.st v' st' hcv ta⟩

/-! ### 7. when the law shift vanishes; the relative defect for `atol = 0` -/

/-- the current law does not read the magnitude of a live supply voltage -/
def CurrVinFree (c : Comp α) : Prop :=
  ∀ (x x' b : α) (ph : PhaseCtx α) (fl : List Bool), x ≠ 0 → x' ≠ 0 →
    c.solvInpCurr [x] b ph fl = c.solvInpCurr [x'] b ph fl

/-- a parameter table without a `vi` axis (`_Interp0d`, `_Interp1d`) -/
def ParVinFree (p : Param α) : Prop := ∀ x y y', p.interp x y = p.interp x y'

theorem parVinFree_const (k : α) : ParVinFree (Param.const k) := fun _ _ _ => rfl
theorem parVinFree_tab1 (xs fs : List α) : ParVinFree (Param.tab1 xs fs) := fun _ _ _ => rfl

/-- RLoss, VLoss, diode Rectifier, ILoad, Source always; LinReg, PSwitch, PMux, MOSFET Rectifier when their `ig`
    has no `vi` axis.  (Not: Converter — its input current is `|vo·io/(eff·vi)|` — nor PLoad / RLoad.) -/
theorem currVinFree_of_par (c : Comp α)
    (hk : c.kind ≠ .converter ∧ c.kind ≠ .pload ∧ c.kind ≠ .rload)
    (hp : c.kind = .linreg ∨ c.kind = .pswitch ∨ c.kind = .pmux ∨ (c.kind = .rectifier ∧ c.diode = false) →
      ParVinFree c.par) : CurrVinFree c := by
  intro x x' b ph fl hx hx'
  have hz : isZ x = false := (isZ_false_iff _).mpr hx
  have hz' : isZ x' = false := (isZ_false_iff _).mpr hx'
  obtain ⟨h1, h2, h3⟩ := hk
  unfold Comp.solvInpCurr calcInpCurrent
  cases hkk : c.kind
  case converter => exact absurd hkk h1
  case pload => exact absurd hkk h2
  case rload => exact absurd hkk h3
  case linreg =>
    simp only [List.headD_cons, hz, hz', Bool.false_or, nabs_eq_abs]
    rw [hp (Or.inl hkk) |b| |x| |x'|]
  case pswitch =>
    simp only [List.headD_cons, hz, hz', Bool.false_or, nabs_eq_abs]
    rw [hp (Or.inr (Or.inl hkk)) |b| |x| |x'|]
  case pmux =>
    cases fl with
    | nil => simp [priInpAux]
    | cons o os =>
      unfold priInpAux
      cases o with
      | true => simp [priInpAux]
      | false =>
        simp only [hz, hz', Bool.not_false, Bool.and_self, if_true, List.getD_cons_zero, nabs_eq_abs]
        rw [hp (Or.inr (Or.inr (Or.inl hkk))) |b| |x| |x'|]
  case rectifier =>
    cases hd : c.diode with
    | true => simp [hz, hz']
    | false =>
      simp only [List.headD_cons, hz, hz', Bool.false_or, nabs_eq_abs, Bool.false_eq_true, if_false]
      rw [(hp (Or.inr (Or.inr (Or.inr ⟨hkk, hd⟩)))) |b| |x| |x'|]
  all_goals simp [hz, hz']

/-- without PMux the current law of a root does not see the voltages at all -/
theorem backAt_root_nomux (s : SSys α) (hwf : TreeWF s) (hnm : NoMux s) (ph : String) (w w' i : Vec α) (st : St)
    (n : Nat) (nd : SNode α) (hnode : s.node? n = some nd) (hpar : nd.parents = []) :
    s.backAt ph w i st n = s.backAt ph w' i st n := by
  have hsrc := (hwf.rootSrc n nd hnode).mp hpar
  have e := ioOf_children s hwf hnm n nd hnode
  unfold ioOf at e
  unfold SSys.backAt SSys.lawArgs Comp.solvInpCurr
  simp only [hnode, hpar, List.isEmpty_nil, if_true, hsrc]
  rw [e w i st, e w' i st]

/-- **The link defect of a live SOURCE row is within the current tolerance** (no PMux): either
    `|Vout|·|Iout − Σ Iin(children)| ≤ |Vout|·tolI(Iout)`, or the source is off under the once-more-swept state
    (`v' n = 0`, so `|Vout| ≤ atol`). -/
theorem srcLink_bound (s : SSys α) (hwf : TreeWF s) (hnm : NoMux s) (hok : CompsOK s) (cfg : Cfg α)
    (htol : TolOK cfg) (ph : String) (v i : Vec α) (st : St) (v' : Vec α) (st' : St)
    (hcv : ConvAt s cfg ph v i st v' st') (n : Nat) (hn : n ∈ s.topo) :
    srcLink s v i n ≤ |vget v n| * tolI cfg (vget i n) ∨ vget v' n = 0 := by
  obtain ⟨nd, hnd⟩ := node_of_mem s hwf n hn
  obtain ⟨_, _, r3⟩ := cell_residuals s cfg htol ph v i st v' st' hcv n hn (hwf.bound n hn)
  have htn : 0 ≤ tolI cfg (vget i n) := (abs_nonneg _).trans r3
  unfold srcLink
  rw [hnd]
  simp only
  by_cases hroot : nd.parents.isEmpty = true
  · have hp : nd.parents = [] := List.isEmpty_iff.mp hroot
    have hsrc := (hwf.rootSrc n nd hnd).mp hp
    simp only [hroot, if_true]
    obtain ⟨_, hdead⟩ := root_node_defect s cfg ph v i st v' st' hcv 0 n nd hn hnd hp hsrc (hok.phys n nd hnd)
      (hok.f01 n nd hnd hsrc) 0
    rw [backAt_root_nomux s hwf hnm ph v' v i st n nd hnd hp] at r3
    rcases hdead with hl | ⟨_, hv0⟩
    · left
      rw [hl, ioOf_children s hwf hnm n nd hnd] at r3
      exact mul_le_mul_of_nonneg_left r3 (abs_nonneg _)
    · exact Or.inr hv0
  · left
    simp only [hroot, Bool.false_eq_true, if_false]
    exact mul_nonneg (abs_nonneg _) htn

/-- **No law shift** for a single-supply node without mux children whose current law is `CurrVinFree`, when the
    once-more-swept supply is dead iff the returned one is (always so for `atol = 0`: `zero_iff_of_atol0`). -/
theorem lawShift_eq_zero (s : SSys α) (hwf : TreeWF s) (hnm : NoMux s) (ph : String) (v v' i : Vec α) (st : St)
    (n p : Nat) (nd : SNode α) (hnode : s.node? n = some nd) (hpar : nd.parents = [p])
    (hfree : CurrVinFree nd.comp) (hz : vget v p = 0 ↔ vget v' p = 0) :
    lawShift s ph v v' i st n = 0 := by
  unfold lawShift
  rw [(C01.sweep_args_are_row s ph 0 v' i st n p nd hnode hpar "").2,
    (C01.sweep_args_are_row s ph 0 v i st n p nd hnode hpar "").2]
  have e := ioOf_children s hwf hnm n nd hnode
  unfold ioOf at e
  rw [e v' i st, e v i st]
  by_cases h0 : vget v p = 0
  · rw [h0, hz.mp h0, sub_self, abs_zero]
  · rw [hfree (vget v' p) (vget v p) _ _ _ (fun e' => h0 (hz.mpr e')) h0, sub_self, abs_zero]

/-- with `atol = 0` and `rtol < 1` the exit test preserves zero cells both ways -/
theorem zero_iff_of_atol0 (rtol a a' : α) (h0 : 0 ≤ rtol) (h1 : rtol < 1) (h : |a - a'| ≤ 0 + rtol * |a'|) :
    a = 0 ↔ a' = 0 := by
  constructor
  · intro e
    rw [e, zero_sub, abs_neg] at h
    have : (1 - rtol) * |a'| ≤ 0 := by linarith
    have hp : 0 < 1 - rtol := by linarith
    have : |a'| ≤ 0 := by
      by_contra hh
      have := mul_pos hp (not_le.mp hh)
      linarith
    exact abs_eq_zero.mp (le_antisymm this (abs_nonneg _))
  · intro e
    rw [e, sub_zero, abs_zero, mul_zero, add_zero] at h
    exact abs_eq_zero.mp (le_antisymm h (abs_nonneg _))

theorem tolI_atol0 (cfg : Cfg α) (h : cfg.atol = 0) (a : α) : tolI cfg a = cfg.itol / (1 - cfg.itol) * |a| := by
  unfold tolI; rw [h]; ring
theorem tolV_atol0 (cfg : Cfg α) (h : cfg.atol = 0) (y : α) : tolV cfg y = cfg.vtol / (1 - cfg.vtol) * |y| := by
  unfold tolV; rw [h]; ring

/-- the power scale of a row: what the relative tolerance multiplies when `atol = 0` -/
def rowScale (r : Row α) : α :=
  (if r.typ == "LOAD" then 0 else rowW r * |r.iin.getD 0| + |r.iout.getD 0| * |r.vout.getD 0|)
    + (if r.typ == "SOURCE" then |r.vout.getD 0| * |r.iout.getD 0| else 0)

theorem rowScale_nonneg (r : Row α) : 0 ≤ rowScale r := by
  unfold rowScale rowW
  split_ifs <;> positivity

/-- **Relative balance defect.**  Solver run with `atol = 0`, `vtol = itol = ε < 1`, on a well-formed tree
    without PMux all of whose non-load, non-source components have a `CurrVinFree` current law:
      `|Σ_SOURCE Power − Σ_LOAD (Power + Loss) − Σ_other Loss| ≤ ε/(1 − ε) · Σ_rows rowScale`
    with `rowScale = |Vin·Iin| + |Vout·Iout|` for a fed non-load row (`W = |Vin|`),
    `|Vin − Vout|·|Iout| + 2·|Vout·Iout|` for a SOURCE row, 0 for a LOAD row. -/
theorem balance_defect_small (s : SSys α) (hwf : TreeWF s) (hnm : NoMux s) (hok : CompsOK s)
    (hfree : ∀ n nd, s.node? n = some nd → nd.comp.kind.ctype ≠ .LOAD → nd.comp.kind ≠ .source →
      CurrVinFree nd.comp)
    (cfg : Cfg α) (ε : α) (hε0 : 0 ≤ ε) (hε1 : ε < 1) (ha : cfg.atol = 0) (hv : cfg.vtol = ε) (hi : cfg.itol = ε)
    (ph : String) (v i : Vec α) (st : St) (v' : Vec α) (st' : St)
    (hcv : ConvAt s cfg ph v i st v' st') (ta : α) :
    let rows := s.compRows ph ta v i st
    |((rows.filter (·.typ == "SOURCE")).map rP).sum
      - (((rows.filter (·.typ == "LOAD")).map fun r => rP r + rL r).sum
          + ((rows.filter (·.typ != "LOAD")).map rL).sum)|
    ≤ ε / (1 - ε) * (rows.map rowScale).sum := by
  intro rows
  have htol : TolOK cfg := ⟨by rw [hv]; exact hε0, by rw [hv]; exact hε1, by rw [hi]; exact hε0, by rw [hi]; exact hε1⟩
  have h := table_balance_defect_bound_partial s hwf hnm hok cfg htol ph v i st v' st' hcv ta
  refine h.trans ?_
  have hR : ∀ g : Row α → α, DomainFree g →
      ((s.compRows ph ta v i st).map g).sum = (s.topo.map fun n => g (s.compRow ph ta v i st n "").1).sum := by
    intro g hg; rw [compRows_numeric g hg]
  show ((s.compRows ph ta v i st).map (rowTolRow cfg)).sum + _ + _ ≤ _ * ((s.compRows ph ta v i st).map rowScale).sum
  rw [hR _ (fun _ _ => rfl), hR rowScale (fun _ _ => rfl), ← List.sum_map_add, ← List.sum_map_add,
    ← List.sum_map_mul_left]
  apply List.sum_le_sum
  intro n hn
  obtain ⟨nd, hnd⟩ := node_of_mem s hwf n hn
  have hlt := hwf.bound n hn
  have hq : 0 ≤ ε / (1 - ε) := div_nonneg hε0 (by linarith)
  have htyp := rowOf_typ s ph ta v i st n nd hnd
  obtain ⟨b1, b2, b3⟩ := rowOf_basic s ph ta v i st n nd hnd
  simp only [rowOf, cellsOf] at b1 b2 b3
  -- the exit test with atol = 0 keeps zero voltages
  have hzero : ∀ m, m ∈ s.topo → (vget v m = 0 ↔ vget v' m = 0) := by
    intro m hm
    obtain ⟨_, hvm, _⟩ := conv_cell s cfg ph v i st v' st' hcv m hm (hwf.bound m hm)
    rw [ha, hv] at hvm
    exact zero_iff_of_atol0 ε _ _ hε0 hε1 hvm
  -- (1) no law shift
  have hshift : shiftW s ph v v' i st n = 0 := by
    unfold shiftW
    rw [hnd]
    simp only
    split_ifs with hl hroot
    · rfl
    · have hp : nd.parents = [] := List.isEmpty_iff.mp hroot
      unfold lawShift
      rw [backAt_root_nomux s hwf hnm ph v' v i st n nd hnd hp, sub_self, abs_zero, mul_zero]
    · have hns : nd.comp.kind ≠ .source := by
        intro e; exact hroot (by rw [(hwf.rootSrc n nd hnd).mpr e]; rfl)
      obtain ⟨p, hp⟩ := single_parent s hwf n nd hnd (hnm n nd hnd) hns
      have hpl : p ∈ s.topo := (hwf.live p).mpr (hwf.parLive n nd hnd p (by rw [hp]; simp))
      rw [lawShift_eq_zero s hwf hnm ph v v' i st n p nd hnd hp (hfree n nd hnd hl hns) (hzero p hpl), mul_zero]
  -- (2) the source link
  have hlink : srcLink s v i n
      ≤ ε / (1 - ε) * (if ((s.compRow ph ta v i st n "").1.typ == "SOURCE") = true
          then |(s.compRow ph ta v i st n "").1.vout.getD 0| * |(s.compRow ph ta v i st n "").1.iout.getD 0| else 0) := by
    unfold srcLink
    rw [hnd, htyp, kind_name_source, b1, b3]
    simp only
    by_cases hroot : nd.parents.isEmpty = true
    · have hp : nd.parents = [] := List.isEmpty_iff.mp hroot
      have hsrc := (hwf.rootSrc n nd hnd).mp hp
      simp only [hroot, if_true, hsrc, decide_true, ioutOf]
      obtain ⟨_, _, r3⟩ := cell_residuals s cfg htol ph v i st v' st' hcv n hn hlt
      rw [tolI_atol0 cfg ha, hi] at r3
      obtain ⟨_, hdead⟩ := root_node_defect s cfg ph v i st v' st' hcv ta n nd hn hnd hp hsrc (hok.phys n nd hnd)
        (hok.f01 n nd hnd hsrc) 0
      rw [backAt_root_nomux s hwf hnm ph v' v i st n nd hnd hp] at r3
      rcases hdead with hl | ⟨_, hv0⟩
      · rw [hl, ioOf_children s hwf hnm n nd hnd] at r3
        have := mul_le_mul_of_nonneg_left r3 (abs_nonneg (vget v n))
        calc |vget v n| * |vget i n - (List.map (vget i) nd.childs).sum|
            ≤ |vget v n| * (ε / (1 - ε) * |vget i n|) := this
          _ = ε / (1 - ε) * (|vget v n| * |vget i n|) := by ring
      · have : vget v n = 0 := (hzero n hn).mpr hv0
        rw [this, abs_zero, zero_mul, zero_mul, mul_zero]
    · simp only [hroot, Bool.false_eq_true, if_false]
      have hns : nd.comp.kind ≠ .source := by
        intro e; exact hroot (by rw [(hwf.rootSrc n nd hnd).mpr e]; rfl)
      simp [hns]
  -- (3) the row tolerance
  have hrow : rowTolRow cfg (s.compRow ph ta v i st n "").1
      = ε / (1 - ε) * (if ((s.compRow ph ta v i st n "").1.typ == "LOAD") = true then 0
          else rowW (s.compRow ph ta v i st n "").1 * |(s.compRow ph ta v i st n "").1.iin.getD 0|
            + |(s.compRow ph ta v i st n "").1.iout.getD 0| * |(s.compRow ph ta v i st n "").1.vout.getD 0|) := by
    unfold rowTolRow rowTol
    rw [tolI_atol0 cfg ha, tolV_atol0 cfg ha, hi, hv]
    split_ifs
    · rw [mul_zero]
    · ring
  rw [hshift, hrow, add_zero]
  unfold rowScale
  rw [mul_add]
  exact add_le_add (le_refl _) hlink

/-! ### 7b. the law shift of a Converter with a `vi`-free efficiency; the relative defect with Converters -/

/-- **Converter**: its current law `|vo·io/(eff·vi)|` does read the supply voltage, but when `eff` has no `vi`
    axis the shift, weighted by `|Vin|`, is at most `Iin'·|Vin − Vin'|` (`Iin'` = the law at the once-more-swept
    supply `Vin' ≠ 0`): the VOLTAGE tolerance of the supply multiplies the converter's input current. -/
theorem converter_shift (c : Comp α) (hk : c.kind = .converter) (hc : c.Phys) (hpf : ParVinFree c.par)
    (x x' b : α) (ph : PhaseCtx α) (fl : List Bool) (hb : 0 ≤ b) (hx' : x' ≠ 0 ∨ x = 0) :
    |x| * |c.solvInpCurr [x'] b ph fl - c.solvInpCurr [x] b ph fl| ≤ c.solvInpCurr [x'] b ph fl * |x - x'| := by
  have hld : c.kind.ctype ≠ .LOAD := by rw [hk]; decide
  have hnn : 0 ≤ c.solvInpCurr [x'] b ph fl := curr_nonneg_nonload c hc hld _ _ hb _ _
  by_cases hx : x = 0
  · rw [hx, abs_zero, zero_mul]; exact mul_nonneg hnn (abs_nonneg _)
  · have hx'' : x' ≠ 0 := by
      rcases hx' with h | h
      · exact h
      · exact absurd h hx
    have hz : isZ x = false := (isZ_false_iff _).mpr hx
    have hz' : isZ x' = false := (isZ_false_iff _).mpr hx''
    obtain ⟨he0, he1⟩ := hc.eff hk |b| |x|
    have hee : c.par.interp |b| |x'| = c.par.interp |b| |x| := hpf _ _ _
    unfold Comp.solvInpCurr at hnn ⊢
    simp only [hk, List.headD_cons, hz, hz', Bool.false_or, nabs_eq_abs, hee] at hnn ⊢
    generalize c.par.interp |b| |x| = e at *
    split_ifs with h1 h2 h3
    · simp
    · simp only [sub_self, abs_zero, mul_zero]; exact mul_nonneg hc.iis (abs_nonneg _)
    · simp only [sub_self, abs_zero, mul_zero]; exact mul_nonneg hc.iq (abs_nonneg _)
    · have hxp : 0 < |x| := abs_pos.mpr hx
      have hxp' : 0 < |x'| := abs_pos.mpr hx''
      have f : ∀ t : α, t ≠ 0 → |c.vo * b / (t * e)| = |c.vo| * b / e / |t| := by
        intro t ht
        rw [abs_div, abs_mul, abs_mul, abs_of_nonneg hb, abs_of_pos he0]
        field_simp
      rw [f x' hx'', f x hx]
      have hK : 0 ≤ |c.vo| * b / e := div_nonneg (mul_nonneg (abs_nonneg _) hb) he0.le
      generalize |c.vo| * b / e = K at *
      have e1 : K / |x'| - K / |x| = K / |x'| * ((|x| - |x'|) / |x|) := by field_simp
      rw [e1, abs_mul, abs_of_nonneg (div_nonneg hK hxp'.le), abs_div, abs_abs]
      have e2 : |x| * (K / |x'| * (|(|x| - |x'|)| / |x|)) = K / |x'| * |(|x| - |x'|)| := by field_simp
      rw [e2]
      exact mul_le_mul_of_nonneg_left (abs_abs_sub_abs_le_abs_sub x x') (div_nonneg hK hxp'.le)

/-- … at node level (no PMux) -/
theorem shiftW_converter_bound (s : SSys α) (hwf : TreeWF s) (hnm : NoMux s) (ph : String) (v v' i : Vec α) (st : St)
    (hi : ∀ m, 0 ≤ vget i m)
    (n p : Nat) (nd : SNode α) (hnode : s.node? n = some nd) (hpar : nd.parents = [p])
    (hk : nd.comp.kind = .converter) (hc : nd.comp.Phys) (hpf : ParVinFree nd.comp.par)
    (hz : vget v' p ≠ 0 ∨ vget v p = 0) :
    |vget v p| * lawShift s ph v v' i st n ≤ s.backAt ph v' i st n * |vget v p - vget v' p| := by
  unfold lawShift
  rw [(C01.sweep_args_are_row s ph 0 v' i st n p nd hnode hpar "").2,
    (C01.sweep_args_are_row s ph 0 v i st n p nd hnode hpar "").2]
  have e := ioOf_children s hwf hnm n nd hnode
  have hio := ioOf_nonneg s nd n hnode v i st hi
  unfold ioOf at e hio
  rw [e v' i st, ← e v i st]
  exact converter_shift nd.comp hk hc hpf _ _ _ _ _ hio hz

/-- the power scale of a row when Converters are allowed: a CONVERTER row adds `|Vin·Iin|` -/
def rowScaleC (r : Row α) : α :=
  rowScale r + (if r.typ == "CONVERTER" then |r.vin.getD 0| * |r.iin.getD 0| else 0)

theorem kind_name_converter (k : Kind) : (k.ctype.name == "CONVERTER") = decide (k = .converter) := by
  cases k <;> decide

/-- **Relative balance defect, Converters allowed.**  As `balance_defect_small`, every non-load, non-source
    component being `CurrVinFree` OR a Converter whose efficiency has no `vi` axis:
      `|defect| ≤ ε/(1 − ε)² · Σ_rows rowScaleC`. -/
theorem balance_defect_small_conv (s : SSys α) (hwf : TreeWF s) (hnm : NoMux s) (hok : CompsOK s)
    (hfree : ∀ n nd, s.node? n = some nd → nd.comp.kind.ctype ≠ .LOAD → nd.comp.kind ≠ .source →
      CurrVinFree nd.comp ∨ (nd.comp.kind = .converter ∧ ParVinFree nd.comp.par))
    (cfg : Cfg α) (ε : α) (hε0 : 0 ≤ ε) (hε1 : ε < 1) (ha : cfg.atol = 0) (hv : cfg.vtol = ε) (hi : cfg.itol = ε)
    (ph : String) (v i : Vec α) (st : St) (v' : Vec α) (st' : St)
    (hcv : ConvAt s cfg ph v i st v' st') (ta : α) :
    let rows := s.compRows ph ta v i st
    |((rows.filter (·.typ == "SOURCE")).map rP).sum
      - (((rows.filter (·.typ == "LOAD")).map fun r => rP r + rL r).sum
          + ((rows.filter (·.typ != "LOAD")).map rL).sum)|
    ≤ ε / (1 - ε) ^ 2 * (rows.map rowScaleC).sum := by
  intro rows
  have htol : TolOK cfg := ⟨by rw [hv]; exact hε0, by rw [hv]; exact hε1, by rw [hi]; exact hε0, by rw [hi]; exact hε1⟩
  have h := table_balance_defect_bound_partial s hwf hnm hok cfg htol ph v i st v' st' hcv ta
  refine h.trans ?_
  have hR : ∀ g : Row α → α, DomainFree g →
      ((s.compRows ph ta v i st).map g).sum = (s.topo.map fun n => g (s.compRow ph ta v i st n "").1).sum := by
    intro g hg; rw [compRows_numeric g hg]
  show ((s.compRows ph ta v i st).map (rowTolRow cfg)).sum + _ + _ ≤ _ * ((s.compRows ph ta v i st).map rowScaleC).sum
  rw [hR _ (fun _ _ => rfl), hR rowScaleC (fun _ _ => rfl), ← List.sum_map_add, ← List.sum_map_add,
    ← List.sum_map_mul_left]
  apply List.sum_le_sum
  intro n hn
  obtain ⟨nd, hnd⟩ := node_of_mem s hwf n hn
  have hlt := hwf.bound n hn
  have h1e : 0 < 1 - ε := by linarith
  have hq : 0 ≤ ε / (1 - ε) := div_nonneg hε0 h1e.le
  have hq2 : ε / (1 - ε) ≤ ε / (1 - ε) ^ 2 := by
    rw [div_le_div_iff₀ h1e (by positivity)]
    nlinarith [mul_nonneg (mul_nonneg hε0 h1e.le) hε0]
  have htyp := rowOf_typ s ph ta v i st n nd hnd
  obtain ⟨b1, b2, b3⟩ := rowOf_basic s ph ta v i st n nd hnd
  simp only [rowOf, cellsOf] at b1 b2 b3
  have hzero : ∀ m, m ∈ s.topo → (vget v m = 0 ↔ vget v' m = 0) := by
    intro m hm
    obtain ⟨_, hvm, _⟩ := conv_cell s cfg ph v i st v' st' hcv m hm (hwf.bound m hm)
    rw [ha, hv] at hvm
    exact zero_iff_of_atol0 ε _ _ hε0 hε1 hvm
  -- (1) the law shift: 0, or the Converter bound
  have hshift : shiftW s ph v v' i st n
      ≤ ε / (1 - ε) ^ 2 * (if ((s.compRow ph ta v i st n "").1.typ == "CONVERTER") = true
          then |(s.compRow ph ta v i st n "").1.vin.getD 0| * |(s.compRow ph ta v i st n "").1.iin.getD 0| else 0) := by
    have hnn : 0 ≤ ε / (1 - ε) ^ 2 * (if ((s.compRow ph ta v i st n "").1.typ == "CONVERTER") = true
          then |(s.compRow ph ta v i st n "").1.vin.getD 0| * |(s.compRow ph ta v i st n "").1.iin.getD 0| else 0) := by
      apply mul_nonneg (hq.trans hq2)
      split_ifs <;> positivity
    obtain ⟨T, hT⟩ : ∃ T, T = ε / (1 - ε) ^ 2 * (if ((s.compRow ph ta v i st n "").1.typ == "CONVERTER") = true
          then |(s.compRow ph ta v i st n "").1.vin.getD 0| * |(s.compRow ph ta v i st n "").1.iin.getD 0| else 0) :=
      ⟨_, rfl⟩
    rw [← hT] at hnn ⊢
    unfold shiftW
    rw [hnd]
    simp only
    split_ifs with hl hroot
    · exact hnn
    · have hp : nd.parents = [] := List.isEmpty_iff.mp hroot
      unfold lawShift
      rw [backAt_root_nomux s hwf hnm ph v' v i st n nd hnd hp, sub_self, abs_zero, mul_zero]
      exact hnn
    · have hns : nd.comp.kind ≠ .source := by
        intro e; exact hroot (by rw [(hwf.rootSrc n nd hnd).mpr e]; rfl)
      obtain ⟨p, hp⟩ := single_parent s hwf n nd hnd (hnm n nd hnd) hns
      have hpl : p ∈ s.topo := (hwf.live p).mpr (hwf.parLive n nd hnd p (by rw [hp]; simp))
      have hvin : vinOf v st nd = vget v p := by unfold vinOf; simp [hnm n nd hnd, hp]
      rw [hvin]
      rcases hfree n nd hnd hl hns with hf | ⟨hk, hpf⟩
      · rw [lawShift_eq_zero s hwf hnm ph v v' i st n p nd hnd hp hf (hzero p hpl), mul_zero]
        exact hnn
      · have hz : vget v' p ≠ 0 ∨ vget v p = 0 := by
          by_cases h0 : vget v p = 0
          · exact Or.inr h0
          · exact Or.inl (fun e => h0 ((hzero p hpl).mpr e))
        refine (shiftW_converter_bound s hwf hnm ph v v' i st hcv.inn n p nd hnd hp hk (hok.phys n nd hnd) hpf hz).trans ?_
        obtain ⟨_, hvp, _⟩ := conv_cell s cfg ph v i st v' st' hcv p hpl (hwf.bound p hpl)
        obtain ⟨_, _, hin⟩ := conv_cell s cfg ph v i st v' st' hcv n hn hlt
        rw [ha, hv, zero_add] at hvp
        rw [ha, hi, zero_add] at hin
        have hld : nd.comp.kind.ctype ≠ .LOAD := hl
        have ha' : 0 ≤ s.backAt ph v' i st n := by
          rw [(C01.sweep_args_are_row s ph 0 v' i st n p nd hnd hp "").2]
          apply curr_nonneg_nonload nd.comp (hok.phys n nd hnd) hld
          have := ioOf_nonneg s nd n hnd v' i st hcv.inn
          unfold ioOf at this
          exact this
        rw [abs_of_nonneg ha'] at hin
        have hi0 := hcv.inn n
        -- a' ≤ i n / (1 − ε), |v' p| ≤ |v p| / (1 − ε)
        have ha1 : s.backAt ph v' i st n * (1 - ε) ≤ vget i n := by
          have := neg_abs_le (vget i n - s.backAt ph v' i st n)
          nlinarith
        have hv1 : |vget v' p| * (1 - ε) ≤ |vget v p| := by
          have h1 := abs_sub_abs_le_abs_sub (vget v' p) (vget v p)
          rw [abs_sub_comm (vget v' p) (vget v p)] at h1
          nlinarith
        have hcell : (s.compRow ph ta v i st n "").1.vin.getD 0 = vget v p := by
          have := congrArg Cells.vin (rowOf_fed s ph ta v i st n p nd hnd hp)
          simpa [rowOf, cellsOf] using this
        rw [hT, htyp, kind_name_converter, hk, hcell, b2]
        simp only [decide_true, if_true]
        rw [abs_of_nonneg hi0]
        -- a'·|v p − v' p| ≤ a'·ε·|v' p| ≤ ε/(1−ε)²·|v p|·i n
        have step1 : s.backAt ph v' i st n * |vget v p - vget v' p|
            ≤ s.backAt ph v' i st n * (ε * |vget v' p|) := mul_le_mul_of_nonneg_left hvp ha'
        refine step1.trans ?_
        rw [div_mul_eq_mul_div, le_div_iff₀ (by positivity)]
        have hvn := abs_nonneg (vget v' p)
        have hprod : (s.backAt ph v' i st n * (1 - ε)) * (|vget v' p| * (1 - ε)) ≤ vget i n * |vget v p| :=
          mul_le_mul ha1 hv1 (mul_nonneg hvn h1e.le) hi0
        nlinarith
  -- (2) the source link
  have hlink : srcLink s v i n
      ≤ ε / (1 - ε) * (if ((s.compRow ph ta v i st n "").1.typ == "SOURCE") = true
          then |(s.compRow ph ta v i st n "").1.vout.getD 0| * |(s.compRow ph ta v i st n "").1.iout.getD 0| else 0) := by
    unfold srcLink
    rw [hnd, htyp, kind_name_source, b1, b3]
    simp only
    by_cases hroot : nd.parents.isEmpty = true
    · have hp : nd.parents = [] := List.isEmpty_iff.mp hroot
      have hsrc := (hwf.rootSrc n nd hnd).mp hp
      simp only [hroot, if_true, hsrc, decide_true, ioutOf]
      obtain ⟨_, _, r3⟩ := cell_residuals s cfg htol ph v i st v' st' hcv n hn hlt
      rw [tolI_atol0 cfg ha, hi] at r3
      obtain ⟨_, hdead⟩ := root_node_defect s cfg ph v i st v' st' hcv ta n nd hn hnd hp hsrc (hok.phys n nd hnd)
        (hok.f01 n nd hnd hsrc) 0
      rw [backAt_root_nomux s hwf hnm ph v' v i st n nd hnd hp] at r3
      rcases hdead with hl | ⟨_, hv0⟩
      · rw [hl, ioOf_children s hwf hnm n nd hnd] at r3
        have := mul_le_mul_of_nonneg_left r3 (abs_nonneg (vget v n))
        calc |vget v n| * |vget i n - (List.map (vget i) nd.childs).sum|
            ≤ |vget v n| * (ε / (1 - ε) * |vget i n|) := this
          _ = ε / (1 - ε) * (|vget v n| * |vget i n|) := by ring
      · have : vget v n = 0 := (hzero n hn).mpr hv0
        rw [this, abs_zero, zero_mul, zero_mul, mul_zero]
    · simp only [hroot, Bool.false_eq_true, if_false]
      have hns : nd.comp.kind ≠ .source := by
        intro e; exact hroot (by rw [(hwf.rootSrc n nd hnd).mpr e]; rfl)
      simp [hns]
  -- (3) the row tolerance
  have hrow : rowTolRow cfg (s.compRow ph ta v i st n "").1
      = ε / (1 - ε) * (if ((s.compRow ph ta v i st n "").1.typ == "LOAD") = true then 0
          else rowW (s.compRow ph ta v i st n "").1 * |(s.compRow ph ta v i st n "").1.iin.getD 0|
            + |(s.compRow ph ta v i st n "").1.iout.getD 0| * |(s.compRow ph ta v i st n "").1.vout.getD 0|) := by
    unfold rowTolRow rowTol
    rw [tolI_atol0 cfg ha, tolV_atol0 cfg ha, hi, hv]
    split_ifs
    · rw [mul_zero]
    · ring
  rw [hrow]
  unfold rowScaleC rowScale
  rw [mul_add, mul_add]
  have hA : 0 ≤ (if ((s.compRow ph ta v i st n "").1.typ == "LOAD") = true then (0 : α)
          else rowW (s.compRow ph ta v i st n "").1 * |(s.compRow ph ta v i st n "").1.iin.getD 0|
            + |(s.compRow ph ta v i st n "").1.iout.getD 0| * |(s.compRow ph ta v i st n "").1.vout.getD 0|) := by
    unfold rowW; split_ifs <;> positivity
  have hB : 0 ≤ (if ((s.compRow ph ta v i st n "").1.typ == "SOURCE") = true
          then |(s.compRow ph ta v i st n "").1.vout.getD 0| * |(s.compRow ph ta v i st n "").1.iout.getD 0|
          else (0 : α)) := by
    split_ifs <;> positivity
  have t1 := mul_le_mul_of_nonneg_right hq2 hA
  have t2 := hlink.trans (mul_le_mul_of_nonneg_right hq2 hB)
  linarith

/-! ### 8. non-vacuity: Source(10 V, 1 Ω) → RLoss(1 Ω) → ILoad(1 A) over ℚ, `vtol = itol = 1/100`
    exact steady state: 9 V / 8 V / 0 V, 1 A everywhere.  The state below is deliberately off — the RLoss
    output reads 8.05 V, the source current 1.005 A — and still passes the exit test. -/

section Examples

def czSrc : Comp ℚ := { name := "S", kind := .source, par := .const 0, vo := 10, rs := 1 }
def czRes : Comp ℚ := { name := "R", kind := .rloss, par := .const 0, rs := 1 }
def czLd : Comp ℚ := { name := "L", kind := .iload, par := .const 0, ii := 1 }
def czN0 : SNode ℚ := { comp := czSrc, parents := [], childs := [1], pconf := .names [] }
def czN1 : SNode ℚ := { comp := czRes, parents := [0], childs := [2] }
def czN2 : SNode ℚ := { comp := czLd, parents := [1], childs := [] }
def czSys : SSys ℚ := { nodes := #[some czN0, some czN1, some czN2], topo := [0, 1, 2] }
/-- numpy's `atol = 1e-8`, `vtol = itol = 1/100` -/
def czCfg : Cfg ℚ := ⟨1/100000000, 1/100, 1/100, 100⟩
/-- the same with `atol = 0` (for `balance_defect_small`) -/
def czCfg0 : Cfg ℚ := ⟨0, 1/100, 1/100, 100⟩
def czV : Vec ℚ := #[9, 161/20, 0]
def czI : Vec ℚ := #[201/200, 1, 1]
def czSt : St := #[[false], [false], [false]]
/-- one more forward sweep gives the exact voltages -/
def czV' : Vec ℚ := #[9, 8, 0]

theorem czNodes (n : Nat) (nd : SNode ℚ) (h : czSys.node? n = some nd) :
    (n = 0 ∧ nd = czN0) ∨ (n = 1 ∧ nd = czN1) ∨ (n = 2 ∧ nd = czN2) := by
  rcases n with _ | _ | _ | n
  · have h2 : czSys.node? 0 = some czN0 := rfl
    rw [h2] at h; exact Or.inl ⟨rfl, (Option.some.inj h).symm⟩
  · have h2 : czSys.node? 1 = some czN1 := rfl
    rw [h2] at h; exact Or.inr (Or.inl ⟨rfl, (Option.some.inj h).symm⟩)
  · have h2 : czSys.node? 2 = some czN2 := rfl
    rw [h2] at h; exact Or.inr (Or.inr ⟨rfl, (Option.some.inj h).symm⟩)
  · have h2 : czSys.node? (n + 3) = none := by simp [SSys.node?, czSys]
    rw [h2] at h; cases h

theorem czWF : TreeWF czSys where
  nodup := by decide
  live := by
    intro n
    rcases n with _ | _ | _ | n
    · decide
    · decide
    · decide
    · have h2 : czSys.node? (n + 3) = none := by simp [SSys.node?, czSys]
      rw [h2]; simp [czSys]
  bound := by decide
  order := by
    intro p c pd h hc
    rcases czNodes p pd h with ⟨rfl, rfl⟩ | ⟨rfl, rfl⟩ | ⟨rfl, rfl⟩ <;>
      simp [czN0, czN1, czN2] at hc <;> (try subst hc) <;> decide
  parLive := by
    intro n nd h p hp
    rcases czNodes n nd h with ⟨rfl, rfl⟩ | ⟨rfl, rfl⟩ | ⟨rfl, rfl⟩ <;>
      simp [czN0, czN1, czN2] at hp <;> subst hp <;> rfl
  chLive := by
    intro n nd h c hc
    rcases czNodes n nd h with ⟨rfl, rfl⟩ | ⟨rfl, rfl⟩ | ⟨rfl, rfl⟩ <;>
      simp [czN0, czN1, czN2] at hc <;> (try subst hc) <;> rfl
  link := by
    intro p c pd cd hp hc
    rcases czNodes p pd hp with ⟨rfl, rfl⟩ | ⟨rfl, rfl⟩ | ⟨rfl, rfl⟩ <;>
      rcases czNodes c cd hc with ⟨rfl, rfl⟩ | ⟨rfl, rfl⟩ | ⟨rfl, rfl⟩ <;>
      simp [czN0, czN1, czN2]
  chNodup := by
    intro n nd h
    rcases czNodes n nd h with ⟨rfl, rfl⟩ | ⟨rfl, rfl⟩ | ⟨rfl, rfl⟩ <;> simp [czN0, czN1, czN2]
  parNodup := by
    intro n nd h
    rcases czNodes n nd h with ⟨rfl, rfl⟩ | ⟨rfl, rfl⟩ | ⟨rfl, rfl⟩ <;> simp [czN0, czN1, czN2]
  rootSrc := by
    intro n nd h
    rcases czNodes n nd h with ⟨rfl, rfl⟩ | ⟨rfl, rfl⟩ | ⟨rfl, rfl⟩ <;>
      simp [czN0, czN1, czN2, czSrc, czRes, czLd]
  muxOnly := by
    intro n nd h hl
    rcases czNodes n nd h with ⟨rfl, rfl⟩ | ⟨rfl, rfl⟩ | ⟨rfl, rfl⟩ <;> simp [czN0, czN1, czN2] at hl
  loadLeaf := by
    intro n nd h hl
    rcases czNodes n nd h with ⟨rfl, rfl⟩ | ⟨rfl, rfl⟩ | ⟨rfl, rfl⟩ <;>
      simp [czN0, czN1, czN2, czSrc, czRes, czLd, Kind.ctype] at hl ⊢

theorem czNoMux : NoMux czSys := by
  intro n nd h
  rcases czNodes n nd h with ⟨rfl, rfl⟩ | ⟨rfl, rfl⟩ | ⟨rfl, rfl⟩ <;>
    simp [czN0, czN1, czN2, czSrc, czRes, czLd]

theorem czOK : CompsOK czSys where
  phys := by
    intro n nd h
    rcases czNodes n nd h with ⟨rfl, rfl⟩ | ⟨rfl, rfl⟩ | ⟨rfl, rfl⟩ <;>
      constructor <;>
      simp [czN0, czN1, czN2, czSrc, czRes, czLd, Comp.muxRs, Param.Nonneg, Param.interp]
  f01 := by
    intro n nd h hk
    rcases czNodes n nd h with ⟨rfl, rfl⟩ | ⟨rfl, rfl⟩ | ⟨rfl, rfl⟩ <;>
      simp [czN0, czN1, czN2, czSrc, czRes, czLd] at hk ⊢
  conv := by
    intro n nd h hk
    rcases czNodes n nd h with ⟨rfl, rfl⟩ | ⟨rfl, rfl⟩ | ⟨rfl, rfl⟩ <;>
      simp [czN0, czN1, czN2, czSrc, czRes, czLd] at hk

theorem czPV : ∀ n nd, czSys.node? n = some nd → PhaseValOK (nd.pconf.ctx "") := by
  intro n nd h
  rcases czNodes n nd h with ⟨rfl, rfl⟩ | ⟨rfl, rfl⟩ | ⟨rfl, rfl⟩ <;>
    simp [PhaseValOK, PhaseConf.ctx, czN0, czN1, czN2]

theorem czTol : TolOK czCfg := ⟨by norm_num [czCfg], by norm_num [czCfg], by norm_num [czCfg], by norm_num [czCfg]⟩

theorem czNoFlag (n : Nat) : sget czSt n = false := by
  rcases n with _ | _ | _ | n
  · rfl
  · rfl
  · rfl
  · simp [sget, czSt]

theorem czInn (m : Nat) : 0 ≤ vget czI m := by
  rcases m with _ | _ | _ | m
  · decide +kernel
  · decide +kernel
  · decide +kernel
  · simp [vget, czI]

/-- the off state passes the exit test (`|8.05 − 8| ≤ atol + 8/100`, `|1.005 − 1| ≤ atol + 1/100`) and has the
    invariants: it is a converged state -/
theorem czConv : ConvAt czSys czCfg "" czV czI czSt czV' czSt where
  fwd := by decide +kernel
  vsize := rfl
  isize := rfl
  exit := by decide +kernel
  inn := czInn
  flag := by intro n h; rw [czNoFlag n] at h; cases h
  srcFlag := by intro n nd _ _ h; rw [czNoFlag n] at h; cases h

theorem czConv0 : ConvAt czSys czCfg0 "" czV czI czSt czV' czSt where
  fwd := by decide +kernel
  vsize := rfl
  isize := rfl
  exit := by decide +kernel
  inn := czInn
  flag := by intro n h; rw [czNoFlag n] at h; cases h
  srcFlag := by intro n nd _ _ h; rw [czNoFlag n] at h; cases h

/-- it is NOT an exact steady state: the RLoss row shows 9 W − 1 W ≠ 8.05 V · 1 A -/
example : czSys.fwdProp "" czV czI czSt ≠ .ok (czV, czSt) := by decide +kernel

/-- `row_power_defect_bound` applies to the RLoss row … -/
example := row_power_defect_bound czSys czCfg czTol "" czV czI czSt czV' czSt czConv 25 1 0 czN1 (by decide) rfl rfl
  (by simp [czN1, czRes]) (by simp [czN1, czRes]) (by simp [czN1, czRes, Kind.ctype]) (czOK.phys 1 czN1 rfl)
  (by simp [czN1, czRes]) ""
/-- … whose cells are (Vin, Vout, Iin, Iout, Power, Loss) = (9, 8.05, 1, 1, 9, 1): defect −1/20, and the
    tolerance `rowTol` is about 0.17 (no law shift for an RLoss) -/
example : let r := (czSys.compRow "" 25 czV czI czSt 1 "").1
    r.vin = some 9 ∧ r.vout = some (161/20) ∧ r.iin = some 1 ∧ r.iout = some 1 ∧ r.pwr = some 9 ∧
    r.loss = some 1 ∧ lawShift czSys "" czV czV' czI czSt 1 = 0 := by
  refine ⟨by decide +kernel, by decide +kernel, by decide +kernel, by decide +kernel, by decide +kernel,
    by decide +kernel, ?_⟩
  have e : czSys.backAt "" czV' czI czSt 1 = czSys.backAt "" czV czI czSt 1 := by decide +kernel
  unfold lawShift; rw [e]; simp
example : |(9 : ℚ) - 1 - |(161/20 : ℚ)| * 1| = 1/20 ∧
    rowTol czCfg |(9 : ℚ)| (161/20) 1 1 = 1705001/9900000 := by
  constructor
  · norm_num [abs_of_nonneg, abs_of_neg]
  · norm_num [rowTol, tolI, tolV, czCfg, abs_of_nonneg]

/-- `row_power_defect_bound_source_partial` applies to the Source row -/
example := row_power_defect_bound_source_partial czSys czCfg czTol "" czV czI czSt czV' czSt czConv 25 0 czN0
  (by decide) rfl rfl rfl (czOK.phys 0 czN0 rfl) (Or.inl (by simp [czN0, czSrc])) ""

/-- `table_balance_defect_bound_partial` applies to the off state … -/
example := table_balance_defect_bound_partial czSys czWF czNoMux czOK czCfg czTol "" czV czI czSt czV' czSt czConv 25
/-- … whose table is off balance by 401/40000 W: 10.05 W ≠ 8.05 W + (1.010025 W + 1 W) -/
example :
    let rows := czSys.compRows "" 25 czV czI czSt
    ((rows.filter (·.typ == "SOURCE")).map rP).sum = 201/20 ∧
    ((rows.filter (·.typ == "LOAD")).map fun r => rP r + rL r).sum = 161/20 ∧
    ((rows.filter (·.typ != "LOAD")).map rL).sum = 80401/40000 := by
  decide +kernel

theorem czFree : ∀ n nd, czSys.node? n = some nd → nd.comp.kind.ctype ≠ .LOAD → nd.comp.kind ≠ .source →
    CurrVinFree nd.comp := by
  intro n nd h hl hs
  rcases czNodes n nd h with ⟨rfl, rfl⟩ | ⟨rfl, rfl⟩ | ⟨rfl, rfl⟩
  · simp [czN0, czSrc] at hs
  · exact currVinFree_of_par _ (by simp [czN1, czRes]) (by simp [czN1, czRes])
  · simp [czN2, czLd, Kind.ctype] at hl

/-- `balance_defect_small` applies (`atol = 0`, `ε = 1/100`) -/
example := balance_defect_small czSys czWF czNoMux czOK czFree czCfg0 (1/100) (by norm_num) (by norm_num) rfl rfl rfl
  "" czV czI czSt czV' czSt czConv0 25

/-- what the model's `solvePhase` itself returns for the system (after 4 sweeps: the exact steady state) is a
    converged state: `solvePhase_convAt` applies -/
def czOut : SolveOut ℚ := ⟨#[9, 8, 0], #[1, 1, 1], 4, #[[false], [false], [false]]⟩
theorem czSolve : czSys.solvePhase czCfg "" = .ok czOut := by decide +kernel
example := solvePhase_convAt czSys czWF czOK.phys czCfg "" czPV czOut czSolve (Or.inl (by decide))
example := solve_table_balance_defect_bound_partial czSys czWF czOK czCfg czTol "" czPV czOut czSolve
  (Or.inl (by decide)) 25
/-- the flag condition on the initial state holds here too (no source is off) -/
example : ∀ n, sget (czSys.init "").2.2 n = true → vget (czSys.init "").1 n = 0 := by
  intro n h
  rcases n with _ | _ | _ | n
  · revert h; decide +kernel
  · revert h; decide +kernel
  · revert h; decide +kernel
  · simp [vget, SSys.init, czSys, SSys.hidx]

/-! with a PMux: Source(10 V), Source(5 V) → PMux(rs 1 Ω) → ILoad(2 A) (`mxSys` of Props/C02Table), the mux
    output reading 8.05 V instead of 8 V -/

def mzV : Vec ℚ := #[10, 5, 161/20, 0]
theorem mzNoFlag (n : Nat) : sget mxSt n = false := by
  rcases n with _ | _ | _ | _ | n
  · rfl
  · rfl
  · rfl
  · rfl
  · simp [sget, mxSt]
theorem mzInn (m : Nat) : 0 ≤ vget mxI m := by
  rcases m with _ | _ | _ | _ | m
  · decide +kernel
  · decide +kernel
  · decide +kernel
  · decide +kernel
  · simp [vget, mxI]
theorem mzConv : ConvAt mxSys czCfg "" mzV mxI mxSt mxV mxSt where
  fwd := by decide +kernel
  vsize := rfl
  isize := rfl
  exit := by decide +kernel
  inn := mzInn
  flag := by intro n h; rw [mzNoFlag n] at h; cases h
  srcFlag := by intro n nd _ _ h; rw [mzNoFlag n] at h; cases h

example := table_balance_defect_bound_mux_partial mxSys mxWF mxOK czCfg czTol "" mzV mxI mxSt mxV mxSt mzConv 25
example := row_power_defect_bound_mux mxSys czCfg czTol "" mzV mxI mxSt mxV mxSt mzConv 25 2 mxN2 (by decide) rfl rfl
  (by simp [mxN2]) (mxOK.phys 2 mxN2 rfl) ""

/-! with a Converter: Source(10 V, 1 Ω) → Converter(5 V, eff 4/5) → ILoad(1 A), `atol = 0`, `ε = 1/100`.
    Off state: the source reads 9.4 V (law: 10 − 2/3), the currents 0.67 A / 0.6667 A / 1 A; the Converter's
    current law moves from 5/(9.4·0.8) to 5/(9.333·0.8) under one more sweep: a non-zero law shift. -/

def cvSrc : Comp ℚ := { name := "S", kind := .source, par := .const 0, vo := 10, rs := 1 }
def cvCv : Comp ℚ := { name := "C", kind := .converter, par := .const (4/5), vo := 5 }
def cvN0 : SNode ℚ := { comp := cvSrc, parents := [], childs := [1], pconf := .names [] }
def cvN1 : SNode ℚ := { comp := cvCv, parents := [0], childs := [2], pconf := .names [] }
def cvN2 : SNode ℚ := { comp := czLd, parents := [1], childs := [] }
def cvSys : SSys ℚ := { nodes := #[some cvN0, some cvN1, some cvN2], topo := [0, 1, 2] }
def cvV : Vec ℚ := #[47/5, 5, 0]
def cvI : Vec ℚ := #[67/100, 2/3, 1]
def cvV' : Vec ℚ := #[28/3, 5, 0]

theorem cvNodes (n : Nat) (nd : SNode ℚ) (h : cvSys.node? n = some nd) :
    (n = 0 ∧ nd = cvN0) ∨ (n = 1 ∧ nd = cvN1) ∨ (n = 2 ∧ nd = cvN2) := by
  rcases n with _ | _ | _ | n
  · have h2 : cvSys.node? 0 = some cvN0 := rfl
    rw [h2] at h; exact Or.inl ⟨rfl, (Option.some.inj h).symm⟩
  · have h2 : cvSys.node? 1 = some cvN1 := rfl
    rw [h2] at h; exact Or.inr (Or.inl ⟨rfl, (Option.some.inj h).symm⟩)
  · have h2 : cvSys.node? 2 = some cvN2 := rfl
    rw [h2] at h; exact Or.inr (Or.inr ⟨rfl, (Option.some.inj h).symm⟩)
  · have h2 : cvSys.node? (n + 3) = none := by simp [SSys.node?, cvSys]
    rw [h2] at h; cases h

theorem cvWF : TreeWF cvSys where
  nodup := by decide
  live := by
    intro n
    rcases n with _ | _ | _ | n
    · decide
    · decide
    · decide
    · have h2 : cvSys.node? (n + 3) = none := by simp [SSys.node?, cvSys]
      rw [h2]; simp [cvSys]
  bound := by decide
  order := by
    intro p c pd h hc
    rcases cvNodes p pd h with ⟨rfl, rfl⟩ | ⟨rfl, rfl⟩ | ⟨rfl, rfl⟩ <;>
      simp [cvN0, cvN1, cvN2] at hc <;> (try subst hc) <;> decide
  parLive := by
    intro n nd h p hp
    rcases cvNodes n nd h with ⟨rfl, rfl⟩ | ⟨rfl, rfl⟩ | ⟨rfl, rfl⟩ <;>
      simp [cvN0, cvN1, cvN2] at hp <;> subst hp <;> rfl
  chLive := by
    intro n nd h c hc
    rcases cvNodes n nd h with ⟨rfl, rfl⟩ | ⟨rfl, rfl⟩ | ⟨rfl, rfl⟩ <;>
      simp [cvN0, cvN1, cvN2] at hc <;> (try subst hc) <;> rfl
  link := by
    intro p c pd cd hp hc
    rcases cvNodes p pd hp with ⟨rfl, rfl⟩ | ⟨rfl, rfl⟩ | ⟨rfl, rfl⟩ <;>
      rcases cvNodes c cd hc with ⟨rfl, rfl⟩ | ⟨rfl, rfl⟩ | ⟨rfl, rfl⟩ <;>
      simp [cvN0, cvN1, cvN2]
  chNodup := by
    intro n nd h
    rcases cvNodes n nd h with ⟨rfl, rfl⟩ | ⟨rfl, rfl⟩ | ⟨rfl, rfl⟩ <;> simp [cvN0, cvN1, cvN2]
  parNodup := by
    intro n nd h
    rcases cvNodes n nd h with ⟨rfl, rfl⟩ | ⟨rfl, rfl⟩ | ⟨rfl, rfl⟩ <;> simp [cvN0, cvN1, cvN2]
  rootSrc := by
    intro n nd h
    rcases cvNodes n nd h with ⟨rfl, rfl⟩ | ⟨rfl, rfl⟩ | ⟨rfl, rfl⟩ <;>
      simp [cvN0, cvN1, cvN2, cvSrc, cvCv, czLd]
  muxOnly := by
    intro n nd h hl
    rcases cvNodes n nd h with ⟨rfl, rfl⟩ | ⟨rfl, rfl⟩ | ⟨rfl, rfl⟩ <;> simp [cvN0, cvN1, cvN2] at hl
  loadLeaf := by
    intro n nd h hl
    rcases cvNodes n nd h with ⟨rfl, rfl⟩ | ⟨rfl, rfl⟩ | ⟨rfl, rfl⟩ <;>
      simp [cvN0, cvN1, cvN2, cvSrc, cvCv, czLd, Kind.ctype] at hl ⊢

theorem cvNoMux : NoMux cvSys := by
  intro n nd h
  rcases cvNodes n nd h with ⟨rfl, rfl⟩ | ⟨rfl, rfl⟩ | ⟨rfl, rfl⟩ <;>
    simp [cvN0, cvN1, cvN2, cvSrc, cvCv, czLd]

theorem cvOK : CompsOK cvSys where
  phys := by
    intro n nd h
    rcases cvNodes n nd h with ⟨rfl, rfl⟩ | ⟨rfl, rfl⟩ | ⟨rfl, rfl⟩ <;>
      constructor <;>
      simp [cvN0, cvN1, cvN2, cvSrc, cvCv, czLd, Comp.muxRs, Param.Nonneg, Param.interp] <;> norm_num
  f01 := by
    intro n nd h hk
    rcases cvNodes n nd h with ⟨rfl, rfl⟩ | ⟨rfl, rfl⟩ | ⟨rfl, rfl⟩ <;>
      simp [cvN0, cvN1, cvN2, cvSrc, cvCv, czLd] at hk ⊢
  conv := by
    intro n nd h hk
    rcases cvNodes n nd h with ⟨rfl, rfl⟩ | ⟨rfl, rfl⟩ | ⟨rfl, rfl⟩ <;>
      simp [cvN0, cvN1, cvN2, cvSrc, cvCv, czLd] at hk ⊢

theorem cvInn (m : Nat) : 0 ≤ vget cvI m := by
  rcases m with _ | _ | _ | m
  · decide +kernel
  · decide +kernel
  · decide +kernel
  · simp [vget, cvI]

theorem cvConv : ConvAt cvSys czCfg0 "" cvV cvI czSt cvV' czSt where
  fwd := by decide +kernel
  vsize := rfl
  isize := rfl
  exit := by decide +kernel
  inn := cvInn
  flag := by intro n h; rw [czNoFlag n] at h; cases h
  srcFlag := by intro n nd _ _ h; rw [czNoFlag n] at h; cases h

theorem cvFree : ∀ n nd, cvSys.node? n = some nd → nd.comp.kind.ctype ≠ .LOAD → nd.comp.kind ≠ .source →
    CurrVinFree nd.comp ∨ (nd.comp.kind = .converter ∧ ParVinFree nd.comp.par) := by
  intro n nd h hl hs
  rcases cvNodes n nd h with ⟨rfl, rfl⟩ | ⟨rfl, rfl⟩ | ⟨rfl, rfl⟩
  · simp [cvN0, cvSrc] at hs
  · exact Or.inr ⟨rfl, parVinFree_const _⟩
  · simp [cvN2, czLd, Kind.ctype] at hl

/-- `balance_defect_small_conv` applies; the Converter's law shift is not 0 here -/
example := balance_defect_small_conv cvSys cvWF cvNoMux cvOK cvFree czCfg0 (1/100) (by norm_num) (by norm_num)
  rfl rfl rfl "" cvV cvI czSt cvV' czSt cvConv 25
example : cvSys.backAt "" cvV' cvI czSt 1 = 75/112 ∧ cvSys.backAt "" cvV cvI czSt 1 = 125/188 := by
  decide +kernel
example := shiftW_converter_bound cvSys cvWF cvNoMux "" cvV cvV' cvI czSt cvInn 1 0 cvN1 rfl rfl rfl
  (cvOK.phys 1 cvN1 rfl) (parVinFree_const _) (Or.inl (by decide +kernel))

/-! the exclusions of `CompsOK` are needed here too: without them the bound fails already on an exact steady
    state with all tolerances 0 (finding F01: Source(−12 V, 1 Ω) → ILoad(1 A); `f1Sys` of Props/C02Table) -/

/-- `table_balance_defect_bound_mux_partial` claimed for every well-formed tree with accepted parameters -/
def table_balance_defect_bound_full : Prop :=
  ∀ (s : SSys ℚ), TreeWF s → (∀ n nd, s.node? n = some nd → nd.comp.Phys) →
    ∀ (cfg : Cfg ℚ), TolOK cfg → ∀ (ph : String) (v i : Vec ℚ) (st : St) (v' : Vec ℚ) (st' : St),
      ConvAt s cfg ph v i st v' st' → ∀ ta : ℚ,
      |(((s.compRows ph ta v i st).filter (·.typ == "SOURCE")).map rP).sum
        - ((((s.compRows ph ta v i st).filter (·.typ == "LOAD")).map fun r => rP r + rL r).sum
            + (((s.compRows ph ta v i st).filter (·.typ != "LOAD")).map rL).sum)|
      ≤ ((s.compRows ph ta v i st).map (rowTolRow cfg)).sum + (s.topo.map (shiftW s ph v v' i st)).sum
          + (s.topo.map (linkM s v i st)).sum

def f1Cfg : Cfg ℚ := ⟨0, 0, 0, 100⟩
theorem f1Conv : ConvAt f1Sys f1Cfg "" #[-13, 0] #[1, 1] #[[false], [false]] #[-13, 0] #[[false], [false]] where
  fwd := by decide +kernel
  vsize := rfl
  isize := rfl
  exit := by decide +kernel
  inn := by
    intro m
    rcases m with _ | _ | m
    · decide +kernel
    · decide +kernel
    · simp [vget]
  flag := by
    intro n h
    rcases n with _ | _ | n
    · revert h; decide
    · revert h; decide
    · simp [sget] at h
  srcFlag := by
    intro n nd _ _ h
    rcases n with _ | _ | n
    · exact absurd h (by decide)
    · exact absurd h (by decide)
    · simp [sget] at h

theorem table_balance_defect_bound_full_fails : ¬ table_balance_defect_bound_full := by
  intro h
  have := h f1Sys f1WF f1Phys f1Cfg ⟨by decide +kernel, by decide +kernel, by decide +kernel, by decide +kernel⟩
    "" #[-13, 0] #[1, 1] #[[false], [false]] #[-13, 0] #[[false], [false]] f1Conv 25
  revert this
  decide +kernel

end Examples

end C02
end SysLoss
