/-
  Props/C16Save — C16 for `save()`: the bridge from the edit-history model to the persistence model.

  `Props/C12Same` proves "two DESCRIPTIONS (`SysDesc`, Model/Persist) with the same final structure write documents
  that reload to equivalent systems"; `Props/C16Final` proves "two edit HISTORIES (`Sys`, Model/Graph) that end in the
  same abstract structure (`AStruct.Same`) give the same `solve()` table".  This file connects the two:

    Sys.toDesc s              the description `save()` works from: `attrs["name"]`; one node per entry of `attrs["nodes"]`
                              (in that order) = the component object + its ordered parent NAMES (`_get_parents`, the
                              accessor `Sys.absEntry` / `Sys.toSSys` use: `toNode_parents_eq_toSSys`); the registries
                              `phase_conf`, `groups`, `rails`, `phases` as they stand, as ordered dicts of raw values
                              (`encConfReg`, `encStrReg`, `encPhases`; the decoders of Props/C12Solve invert them:
                              `pvPhaseConf_enc`, `pvPhases_enc`, `regStr_enc`, `toDesc_pconfOf`).
    Sys.topoNames s topo      rustworkx's topological order (node indices, a parameter) by component name.

   0. two invariants of Model/Graph that were not available (`Legal` = `Sane` + a `pnames` entry per live node):
        `RegN`   the keys of `phase_conf` / `groups` / `rails` are unique (they are Python dicts)   `regN_init/_step/_run`
        `HasSrc` some live component is a Source ("a system has its first Source")                 `hasSrc_init/_step/_run`
      both hold in every state reached by any history (accepted and rejected calls, half-executed calls included);
      `HasSrc` uses `Legal ∧ WF` of the state before the call (a descendant is never a Source; `del_comp` refuses to
      delete the last Source).
   1. `toDesc_same`           Legal ∧ WF ∧ RegN (both), `Same`, equal system names (`Same` does not compare them)
                              ⇒ `C12.SysEquivR (toDesc s₂) (toDesc s₁)`;  `toDesc_nodes_perm`: the node lists are even
                              permutations of each other (EQUAL nodes: same component object, same ordered parents).
   2. `toDesc_descWF_partial` Legal ∧ WF ∧ non-empty ⇒ `DescWF (topoNames s topo) (toDesc s)` for every `ValidTopo s topo`.
   3. `same_structure_same_save_partial`, `histories_same_save_partial` (main)
                              `from_file(save(·))` of the two final states are `ResEquivR`: the SAME exception (version
                              gate on a version string that does not parse; the reserved name "system" of finding F15)
                              or `SysEquivR` results.  FULL strength in the version string, the registries (no
                              non-emptiness hypothesis: a reachable state has a component, so no back-fill happens) and
                              the reserved name; for histories no `Legal` / `WF` / `RegN` / non-emptiness hypothesis is
                              left.
      `same_structure_same_save_same_table_partial`, `histories_same_save_same_table_partial`
                              in the success case the two reloaded systems solve to the same table up to row order
                              (`C12.sysEquivR_same_table_partial`); extra hypotheses `0 ≤ cfg.atol` and `TopoOK` of the
                              two processing orders (rustworkx's, parameters).
      `reachable_descWF_partial`, `histories_same_desc`   2 and 1 for histories.

  What makes the `_partial` theorems partial (explicit hypotheses, on the FIRST final state only — they travel along
  `Same`, `transfer_of_same`):
   * `hb : ∀ p ∈ s.comps, Built p.2` — the components are outputs of the constructor model (`DescWF.built`; the
     hypothesis `Built` of Props/C12Same);
   * `hnamed : ∀ p ∈ s.comps, p.2.name ≠ ""` — `DescWF.named`.  NOT implied by reachability: `System(n, Source(""))` is a
     legal state of Model/Graph (and a component named `""` can be added when every rail is non-empty), but the
     round-trip theorems of Props/C12Layout exclude the empty name (the loader's `_chk_name` counts `""` as taken
     once a component exists).  `toDesc_same` (item 1) does not need it.
  `s.comps ≠ []` in the state-level theorems is not a restriction of strength: the empty state is `Legal ∧ WF` but has
  no description `save()` could write; for histories it is proved (`hasSrc_run`).

  Nothing `save()` writes is missing from `Sys`: the system name is `Sys.name`; the library version is a parameter of
  `save` / `fromFile` (`ver`).  Modelling choices of `toDesc` that the statements are insensitive to (they are up to
  node order): the node ORDER of the description (it fixes the sibling order inside the document; the implementation's
  is rustworkx's edge order); numbers in `phases` / `phase_conf` are written as floats (`ν = α` does not distinguish
  `1` from `1.0`); a recorded input that no longer resolves (`-1`, impossible in a well-formed state) is dropped.

  Non-vacuity: `C16.histA` / `C16.histB` with constructor-built components at ℚ (`liftB`: `wSrc`, `eLoss`, `eLoad` of
  Props/C12, C12Layout), system phases and a per-phase load configuration set at different points: the two final
  states have different node numberings, `toDesc` gives the nodes in the orders S,B,L,K / S,K,L,B with the registries in
  those key orders (so the descriptions differ and are not `SysEquiv`), `Same` holds (kernel-decided through the sound
  test `subB`), both descriptions are `DescWF`, the main theorem applies for every version string, both branches of
  `ResEquivR` are inhabited, the two layouts differ (children of `B` in the other order), the reload of the first
  solves (kernel-evaluated) and the table theorem yields the table of the second.
-/
import SysLoss.Props.C16Final
import SysLoss.Props.C12Same

set_option linter.unusedSectionVars false
set_option linter.unusedVariables false
set_option linter.unusedSimpArgs false

namespace SysLoss
namespace C16S

/-! ### 0. two invariants of the edit model that `save()` relies on -/

section inv
variable {π ν : Type} [CompLike π]

theorem andThen_ind {P : Sys π ν → Prop} {r : Sys.Res π ν} {f : Sys π ν → Sys.Res π ν} (hr : P r.1)
    (hf : ∀ s, P s → P (f s).1) : P (Sys.andThen r f).1 := by
  unfold Sys.andThen
  split
  · exact hf _ hr
  · exact hr

/-- Python dicts: the keys of `attrs["phase_conf"]`, `attrs["groups"]`, `attrs["rails"]` are unique -/
structure RegN (s : Sys π ν) : Prop where
  pconf : (dkeys s.phaseConf).Nodup
  groups : (dkeys s.groups).Nodup
  rails : (dkeys s.rails).Nodup

theorem RegN.of_eq {s s' : Sys π ν} (h : RegN s) (h1 : s'.phaseConf = s.phaseConf) (h2 : s'.groups = s.groups)
    (h3 : s'.rails = s.rails) : RegN s' := ⟨h1 ▸ h.pconf, h2 ▸ h.groups, h3 ▸ h.rails⟩

theorem addNode_regs (s : Sys π ν) (c : π) :
    (s.addNode c).1.phaseConf = s.phaseConf ∧ (s.addNode c).1.groups = s.groups ∧ (s.addNode c).1.rails = s.rails := by
  unfold Sys.addNode
  split <;> exact ⟨rfl, rfl, rfl⟩

theorem addEdges_regs (s : Sys π ν) (i : Nat) (l : List Nat) :
    (s.addEdges i l).phaseConf = s.phaseConf ∧ (s.addEdges i l).groups = s.groups ∧
    (s.addEdges i l).rails = s.rails ∧ (s.addEdges i l).comps = s.comps := by
  induction l generalizing s with
  | nil => exact ⟨rfl, rfl, rfl, rfl⟩
  | cons p t ih =>
    unfold Sys.addEdges
    obtain ⟨h1, h2, h3, h4⟩ := ih (s.addEdge p i)
    have : (s.addEdge p i).phaseConf = s.phaseConf ∧ (s.addEdge p i).groups = s.groups ∧
        (s.addEdge p i).rails = s.rails ∧ (s.addEdge p i).comps = s.comps := by
      unfold Sys.addEdge; split <;> exact ⟨rfl, rfl, rfl, rfl⟩
    exact ⟨h1.trans this.1, h2.trans this.2.1, h3.trans this.2.2.1, h4.trans this.2.2.2⟩

theorem regN_addSource {s : Sys π ν} (h : RegN s) (c : π) (g r : String) : RegN (s.addSource c g r).1 := by
  unfold Sys.addSource Sys.fail
  split
  · exact h
  · split
    · exact h
    · obtain ⟨e1, e2, e3⟩ := addNode_regs s c
      generalize s.addNode c = q at e1 e2 e3
      obtain ⟨s1, i⟩ := q
      simp only at e1 e2 e3 ⊢
      exact ⟨nodup_dkeys_dset (e1 ▸ h.pconf), nodup_dkeys_dset (e2 ▸ h.groups), nodup_dkeys_dset (e3 ▸ h.rails)⟩

theorem regN_addComp {s : Sys π ν} (h : RegN s) (par : ParentArg) (c : π) (g r : String) :
    RegN (s.addComp par c g r).1 := by
  unfold Sys.addComp Sys.fail
  simp only
  split
  · exact h
  · split
    · exact h
    · split
      · exact h
      · split
        · exact h
        · split
          · exact h
          · next p0 prest =>
            obtain ⟨e1, e2, e3⟩ := addNode_regs s c
            generalize s.addNode c = q at e1 e2 e3
            obtain ⟨s1, i⟩ := q
            simp only at e1 e2 e3 ⊢
            refine ⟨?_, ?_, ?_⟩
            · rw [(addEdges_regs _ _ _).1]; exact nodup_dkeys_dset (e1 ▸ h.pconf)
            · rw [(addEdges_regs _ _ _).2.1]; exact nodup_dkeys_dset (e2 ▸ h.groups)
            · rw [(addEdges_regs _ _ _).2.2.1]; exact nodup_dkeys_dset (e3 ▸ h.rails)

theorem regN_changeComp {s : Sys π ν} (h : RegN s) (x : String) (c : π) (g r : String) :
    RegN (s.changeComp x c g r).1 := by
  unfold Sys.changeComp Sys.fail
  simp only
  repeat' split
  all_goals first
    | exact h
    | exact ⟨by first | exact h.pconf | exact nodup_dkeys_dset (nodup_dkeys_ddel h.pconf),
             by first | exact h.groups | exact nodup_dkeys_dset (nodup_dkeys_ddel h.groups),
             by first | exact h.rails | exact nodup_dkeys_dset (nodup_dkeys_ddel h.rails)⟩

theorem regN_delRegs {s : Sys π ν} (h : RegN s) (x : String) : RegN (s.delRegs x).1 := by
  unfold Sys.delRegs Sys.fail
  simp only
  repeat' split
  all_goals
    exact ⟨by first | exact h.pconf | exact nodup_dkeys_ddel h.pconf,
           by first | exact h.groups | exact nodup_dkeys_ddel h.groups,
           by first | exact h.rails | exact nodup_dkeys_ddel h.rails⟩

theorem regN_removeNode {s : Sys π ν} (h : RegN s) (n : Nat) : RegN (s.removeNode n) := by
  unfold Sys.removeNode
  split
  · exact h.of_eq rfl rfl rfl
  · exact h

theorem regN_delDescendants {s : Sys π ν} (h : RegN s) (l : List Nat) : RegN (s.delDescendants l).1 := by
  induction l generalizing s with
  | nil => exact h
  | cons c cs ih =>
    unfold Sys.delDescendants Sys.fail
    split
    · exact h
    · exact andThen_ind (P := RegN) (regN_delRegs h _) fun s1 h1 => ih (regN_removeNode h1 c)

theorem relink_regs (s : Sys π ν) (p0 : Nat) (l : List Nat) :
    (s.relink p0 l).1.phaseConf = s.phaseConf ∧ (s.relink p0 l).1.groups = s.groups ∧
    (s.relink p0 l).1.rails = s.rails ∧ (s.relink p0 l).1.comps = s.comps := by
  induction l generalizing s with
  | nil => exact ⟨rfl, rfl, rfl, rfl⟩
  | cons c cs ih =>
    unfold Sys.relink Sys.fail
    split
    · exact ⟨rfl, rfl, rfl, rfl⟩
    · split
      · exact ⟨rfl, rfl, rfl, rfl⟩
      · obtain ⟨h1, h2, h3, h4⟩ := ih (s.addEdge p0 c)
        have : (s.addEdge p0 c).phaseConf = s.phaseConf ∧ (s.addEdge p0 c).groups = s.groups ∧
            (s.addEdge p0 c).rails = s.rails ∧ (s.addEdge p0 c).comps = s.comps := by
          unfold Sys.addEdge; split <;> exact ⟨rfl, rfl, rfl, rfl⟩
        exact ⟨h1.trans this.1, h2.trans this.2.1, h3.trans this.2.2.1, h4.trans this.2.2.2⟩

theorem dedupeChilds_regs (s : Sys π ν) (l : List Nat) :
    (s.dedupeChilds l).1.phaseConf = s.phaseConf ∧ (s.dedupeChilds l).1.groups = s.groups ∧
    (s.dedupeChilds l).1.rails = s.rails := by
  induction l generalizing s with
  | nil => exact ⟨rfl, rfl, rfl⟩
  | cons c cs ih =>
    unfold Sys.dedupeChilds Sys.fail
    split
    · exact ⟨rfl, rfl, rfl⟩
    · split
      · exact ⟨rfl, rfl, rfl⟩
      · next pl' _ => exact ih _

theorem regN_delComp {s : Sys π ν} (h : RegN s) (x : String) (d : Bool) : RegN (s.delComp x d).1 := by
  unfold Sys.delComp Sys.fail
  simp only
  split
  · exact h
  · split
    · exact h
    · split
      · exact h
      · split
        · exact h
        · split
          · exact h
          · split
            · exact h
            · split
              · exact h
              · apply andThen_ind (P := RegN)
                · split
                  · exact regN_delDescendants h _
                  · exact h
                · intro s1 h1
                  apply andThen_ind (P := RegN) (regN_delRegs (regN_removeNode h1 _) _)
                  intro s2 h2
                  split
                  · exact h2
                  · split
                    · exact h2
                    · exact h2
                    · exact h2
                    · apply andThen_ind (P := RegN)
                      · exact h2.of_eq (relink_regs _ _ _).1 (relink_regs _ _ _).2.1 (relink_regs _ _ _).2.2.1
                      · intro s3 h3
                        split
                        · exact h3
                        · exact h3.of_eq (dedupeChilds_regs _ _).1 (dedupeChilds_regs _ _).2.1
                            (dedupeChilds_regs _ _).2.2

theorem regN_step {s : Sys π ν} (h : RegN s) (op : Op π ν) : RegN (s.step op).1 := by
  cases op with
  | addSource c g r => exact regN_addSource h c g r
  | addComp p c g r => exact regN_addComp h p c g r
  | changeComp x c g r => exact regN_changeComp h x c g r
  | delComp x d => exact regN_delComp h x d
  | setSysPhases ph =>
    show RegN (s.setSysPhases ph).1
    unfold Sys.setSysPhases Sys.fail
    repeat' split
    all_goals first | exact h | exact h.of_eq rfl rfl rfl
  | setCompPhases x pc =>
    show RegN (s.setCompPhases x pc).1
    unfold Sys.setCompPhases Sys.fail
    repeat' split
    all_goals first | exact h | exact ⟨nodup_dkeys_dset h.pconf, h.groups, h.rails⟩

theorem regN_init {name : String} {src : π} {g r : String} {s : Sys π ν}
    (h : Sys.init name src g r = some s) : RegN s := by
  unfold Sys.init at h
  split at h
  · simp at h
  · split at h
    · simp at h
    · simp only [Option.some.injEq] at h
      subst h
      constructor <;> simp [dkeys]

theorem regN_run {s : Sys π ν} (h : RegN s) (ops : List (Op π ν)) : RegN (s.run ops) := by
  induction ops generalizing s with
  | nil => exact h
  | cons op ops ih => exact ih (regN_step h op)

/-! #### a system keeps a Source -/

/-- "a system has its first Source": some live component is a Source -/
def HasSrc (s : Sys π ν) : Prop := ∃ p ∈ s.comps, kindOfC p.2 = .source

theorem mem_addNode {s : Sys π ν} {q : Nat × π} (hq : q ∈ s.comps) (c : π) : q ∈ (s.addNode c).1.comps := by
  unfold Sys.addNode
  split <;> exact List.mem_append_left _ hq

theorem mem_removeNode {s : Sys π ν} {q : Nat × π} (hq : q ∈ s.comps) {n : Nat} (hne : q.1 ≠ n) :
    q ∈ (s.removeNode n).comps := by
  unfold Sys.removeNode
  split
  · exact List.mem_filter.mpr ⟨hq, by simpa using hne⟩
  · exact hq

theorem mem_delDescendants {q : Nat × π} (l : List Nat) (hnl : q.1 ∉ l) {s : Sys π ν} (hq : q ∈ s.comps) :
    q ∈ (s.delDescendants l).1.comps := by
  induction l generalizing s with
  | nil => exact hq
  | cons c cs ih =>
    simp only [List.mem_cons, not_or] at hnl
    unfold Sys.delDescendants Sys.fail
    split
    · exact hq
    · apply andThen_ind (P := fun t => q ∈ t.comps)
      · rw [(delRegs_graph s _).1]; exact hq
      · intro s1 h1
        exact ih hnl.2 (mem_removeNode h1 hnl.1)

theorem mem_delComp {s : Sys π ν} {q : Nat × π} (hq : q ∈ s.comps) (x : String) (d : Bool)
    (hne : ∀ e, dget s.nodes x = some e → q.1 ≠ e ∧ q.1 ∉ s.descendants e) : q ∈ (s.delComp x d).1.comps := by
  unfold Sys.delComp Sys.fail
  simp only
  split
  · exact hq
  · next eidx he =>
    obtain ⟨hne1, hne2⟩ := hne eidx he
    split
    · exact hq
    · split
      · exact hq
      · split
        · exact hq
        · split
          · exact hq
          · split
            · exact hq
            · split
              · exact hq
              · apply andThen_ind (P := fun t => q ∈ t.comps)
                · split
                  · exact mem_delDescendants _ hne2 hq
                  · exact hq
                · intro s1 h1
                  apply andThen_ind (P := fun t => q ∈ t.comps)
                  · rw [(delRegs_graph _ _).1]; exact mem_removeNode h1 hne1
                  · intro s2 h2
                    split
                    · exact h2
                    · split
                      · exact h2
                      · exact h2
                      · exact h2
                      · apply andThen_ind (P := fun t => q ∈ t.comps)
                        · rw [(relink_regs _ _ _).2.2.2]; exact h2
                        · intro s3 h3
                          split
                          · exact h3
                          · rw [(dedupeChilds_graph _ _).1]; exact h3

theorem length_le_one_of_all_eq {β : Type} {l : List β} (hn : l.Nodup) {x : β} (h : ∀ a ∈ l, a = x) :
    l.length ≤ 1 := by
  match l, hn, h with
  | [], _, _ => simp
  | [_], _, _ => simp
  | a :: b :: t, hn, h =>
    have ha := h a (by simp)
    have hb := h b (by simp)
    simp only [List.nodup_cons, List.mem_cons, not_or] at hn
    exact absurd (ha.trans hb.symm) hn.1.1

/-- a node with an incoming edge is not a Source, so no Source is a descendant of anything -/
theorem source_not_descendant {s : Sys π ν} (hw : WFr s) {q : Nat × π} (hq : q ∈ s.comps)
    (hk : kindOfC q.2 = .source) (e : Nat) : q.1 ∉ s.descendants e := by
  intro hd
  obtain ⟨c, hc⟩ := (mem_descendants.mp hd).2.last_mem
  have := (hw.roots q hq).mpr hk
  have hm : c ∈ s.preds q.1 := mem_preds.mpr hc
  rw [this] at hm
  simp at hm

theorem hasSrc_delComp {s : Sys π ν} (hs : Sane s) (hw : WFr s) (h : HasSrc s) (x : String) (d : Bool) :
    HasSrc (s.delComp x d).1 := by
  cases he : dget s.nodes x with
  | none =>
    have : (s.delComp x d).1 = s := by unfold Sys.delComp Sys.fail; simp only [he]
    rw [this]; exact h
  | some eidx =>
    by_cases hex : ∃ q ∈ s.comps, kindOfC q.2 = .source ∧ q.1 ≠ eidx
    · obtain ⟨q, hq, hk, hne⟩ := hex
      refine ⟨q, mem_delComp hq x d ?_, hk⟩
      intro e he'
      rw [he] at he'
      cases he'
      exact ⟨hne, source_not_descendant hw hq hk _⟩
    · -- the component to delete is the only Source: the call is rejected
      push Not at hex
      obtain ⟨p, hp, hk⟩ := h
      have hpe : p.1 = eidx := hex p hp hk
      have hroot : s.preds eidx = [] := by rw [← hpe]; exact (hw.roots p hp).mpr hk
      obtain ⟨l, hl, _, hnil⟩ := parentsOf_ok hw hp
      rw [hpe] at hl hnil
      have hl0 : l = [] := hnil.mpr hroot
      subst hl0
      have hns : s.numSources < 2 := by
        unfold Sys.numSources
        have hnd : (s.comps.filter fun p => decide (kindOfC p.2 = .source)).Nodup :=
          (nodup_of_nodup_map (fun p : Nat × π => p.1) hs.ids_nodup).filter _
        have := length_le_one_of_all_eq hnd (x := p) (by
          intro a ha
          simp only [List.mem_filter, decide_eq_true_eq] at ha
          exact eq_of_mem_same_id hs ha.1 hp ((hex a ha.1 ha.2).trans hpe.symm))
        omega
      have hid : eidx ∈ s.ids := hpe ▸ mem_ids_of_mem hp
      have : (s.delComp x d).1 = s := by
        unfold Sys.delComp Sys.fail
        simp only [he, parentsErr_none hw, hid, not_true_eq_false, if_false, hl, true_and, hns, if_true]
        split <;> rfl
      rw [this]; exact ⟨p, hp, hk⟩

theorem changeComp_comps (s : Sys π ν) (x : String) (c : π) (g r : String) :
    (s.changeComp x c g r).1.comps = s.comps ∨
    ∃ eidx old, s.payload? eidx = some old ∧ ¬ ((kindOfC old).ctype = .SOURCE ∧ kindOfC c ≠ .source) ∧
      (s.changeComp x c g r).1.comps = (s.setPayload eidx c).comps := by
  unfold Sys.changeComp Sys.fail
  simp only
  split
  · exact Or.inl rfl
  · split
    · exact Or.inl rfl
    · split
      · exact Or.inl rfl
      · exact Or.inl rfl
      · next eidx _ =>
        split
        · exact Or.inl rfl
        · next old hold =>
          split
          · exact Or.inl rfl
          · next hg =>
            repeat' split
            all_goals first
              | exact Or.inl rfl
              | exact Or.inr ⟨eidx, old, hold, hg, rfl⟩

theorem hasSrc_changeComp {s : Sys π ν} (hs : Sane s) (h : HasSrc s) (x : String) (c : π) (g r : String) :
    HasSrc (s.changeComp x c g r).1 := by
  obtain ⟨p, hp, hk⟩ := h
  rcases changeComp_comps s x c g r with e | ⟨eidx, old, hold, hg, e⟩
  · exact ⟨p, e ▸ hp, hk⟩
  · unfold HasSrc
    rw [e]
    by_cases hpe : p.1 = eidx
    · have : old = p.2 := by
        have := payload?_of_mem hs hp
        rw [hpe, hold] at this
        exact Option.some.inj this
      subst this
      have hc : kindOfC c = .source := by
        by_contra hc
        exact hg ⟨by rw [hk]; rfl, hc⟩
      refine ⟨(eidx, c), ?_, hc⟩
      unfold Sys.setPayload
      exact List.mem_map.mpr ⟨p, hp, by simp [hpe]⟩
    · refine ⟨p, ?_, hk⟩
      unfold Sys.setPayload
      exact List.mem_map.mpr ⟨p, hp, by simp [hpe]⟩

theorem hasSrc_step {s : Sys π ν} (hs : Sane s) (hw : WFr s) (h : HasSrc s) (op : Op π ν) : HasSrc (s.step op).1 := by
  obtain ⟨p, hp, hk⟩ := h
  cases op with
  | addSource c g r =>
    show HasSrc (s.addSource c g r).1
    unfold Sys.addSource Sys.fail
    split
    · exact ⟨p, hp, hk⟩
    · split
      · exact ⟨p, hp, hk⟩
      · have := mem_addNode hp c
        generalize s.addNode c = q at this
        obtain ⟨s1, i⟩ := q
        exact ⟨p, this, hk⟩
  | addComp par c g r =>
    show HasSrc (s.addComp par c g r).1
    unfold Sys.addComp Sys.fail
    simp only
    split
    · exact ⟨p, hp, hk⟩
    · split
      · exact ⟨p, hp, hk⟩
      · split
        · exact ⟨p, hp, hk⟩
        · split
          · exact ⟨p, hp, hk⟩
          · split
            · exact ⟨p, hp, hk⟩
            · have := mem_addNode hp c
              generalize s.addNode c = q at this
              obtain ⟨s1, i⟩ := q
              refine ⟨p, ?_, hk⟩
              rw [(addEdges_regs _ _ _).2.2.2]
              exact this
  | changeComp x c g r => exact hasSrc_changeComp hs ⟨p, hp, hk⟩ x c g r
  | delComp x d => exact hasSrc_delComp hs hw ⟨p, hp, hk⟩ x d
  | setSysPhases ph =>
    show HasSrc (s.setSysPhases ph).1
    unfold Sys.setSysPhases Sys.fail
    repeat' split
    all_goals exact ⟨p, hp, hk⟩
  | setCompPhases x pc =>
    show HasSrc (s.setCompPhases x pc).1
    unfold Sys.setCompPhases Sys.fail
    repeat' split
    all_goals exact ⟨p, hp, hk⟩

theorem hasSrc_init {name : String} {src : π} {g r : String} {s : Sys π ν}
    (h : Sys.init name src g r = some s) : HasSrc s := by
  unfold Sys.init at h
  split at h
  · simp at h
  · next hk =>
    split at h
    · simp at h
    · simp only [Option.some.injEq] at h
      subst h
      exact ⟨(0, src), by simp, by simpa using hk⟩

/-- every state reached by a history has a Source -/
theorem hasSrc_run {s : Sys π ν} (hl : Legal s) (hw : s.abs.WF) (h : HasSrc s) (ops : List (Op π ν)) :
    HasSrc (s.run ops) := by
  induction ops generalizing s with
  | nil => exact h
  | cons op ops ih =>
    exact ih (C14.legal_step hl op) (C14.wf_step hl hw op)
      (hasSrc_step hl.sane (wfr_of_wf_abs hl.sane hw) h op)

end inv

/-! ### 1. the description `save()` works from -/

section desc
variable {α : Type} [Field α] [LinearOrder α] [IsStrictOrderedRing α]
open C12

/-- one `phase_conf` entry as the raw value `save()` dumps: a list of phase names, or a dict phase ↦ number -/
def encPConf : PhaseConf α → PV α
  | .names l => .list (l.map PV.str)
  | .table t => .dict (t.map fun kv => (kv.1, PV.float kv.2))

/-- `attrs["phases"]` as a raw value -/
def encPhases (ph : List (String × α)) : PV α := .dict (ph.map fun kv => (kv.1, PV.float kv.2))

/-- `attrs["groups"]`, `attrs["rails"]` as raw values -/
def encStrReg (d : List (String × String)) : PV α := .dict (d.map fun kv => (kv.1, PV.str kv.2))

/-- `attrs["phase_conf"]` as a raw value -/
def encConfReg (d : List (String × PhaseConf α)) : PV α := .dict (d.map fun kv => (kv.1, encPConf kv.2))

/-- a live component with its ordered inputs by name (`[self._g[n]._params["name"] for n in self._parents[idx]]`);
    `-1` entries (recorded inputs that no longer resolve; none in a well-formed state) are dropped -/
def _root_.SysLoss.AEntry.toNode (e : AEntry (Comp α)) : Node α :=
  { comp := e.comp, parents := e.parents.filterMap id }

/-- the description node of the live node index `i` -/
def _root_.SysLoss.Sys.nodeAt (s : Sys (Comp α) α) (i : Nat) : Option (Node α) :=
  (s.payload? i).map fun c => (s.absEntry (i, c)).toNode

/-- **the description `save()` works from**: system name, one node per entry of `attrs["nodes"]` (in that order) with
    the component object and its ordered parent names (`_get_parents`, the accessor `Sys.toSSys` uses, by name), the
    registries `phase_conf`, `groups`, `rails` as they stand (ordered dicts), `phases` -/
def _root_.SysLoss.Sys.toDesc (s : Sys (Comp α) α) : SysDesc α :=
  { name := s.name
    nodes := s.nodes.filterMap fun kv => s.nodeAt kv.2
    phases := encPhases s.phases
    phaseConf := encConfReg s.phaseConf
    groups := encStrReg s.groups
    rails := encStrReg s.rails }

/-! #### the encodings are faithful: the solver-side decoders of Props/C12Solve give the registries back -/

theorem pvPhaseConf_enc (pc : PhaseConf α) : pvPhaseConf (encPConf pc) = pc := by
  cases pc with
  | names l =>
    simp only [encPConf, pvPhaseConf]
    congr 1
    induction l with
    | nil => rfl
    | cons a t ih => simp [List.filterMap_cons, ih]
  | table t =>
    simp only [encPConf, pvPhaseConf]
    congr 1
    induction t with
    | nil => rfl
    | cons a t ih => simp [List.filterMap_cons, PV.num?, ih]

theorem pvPhases_enc (ph : List (String × α)) : pvPhases (encPhases ph) = ph := by
  simp only [encPhases, pvPhases]
  induction ph with
  | nil => rfl
  | cons a t ih => simp [List.filterMap_cons, PV.num?, ih]

theorem lookup_map_eq_dget {β γ : Type} (f : β → γ) (d : List (String × β)) (k : String) :
    (d.map fun kv => (kv.1, f kv.2)).lookup k = (dget d k).map f := by
  induction d with
  | nil => rfl
  | cons p t ih =>
    obtain ⟨a, b⟩ := p
    by_cases h : a = k
    · subst h; simp [List.lookup, dget]
    · have : (k == a) = false := by simpa using (Ne.symm h)
      simp [List.lookup, dget, h, this, ih]

theorem regStr_enc (d : List (String × String)) (k : String) :
    regStr (encStrReg d : PV α) k = (dget d k).getD "" := by
  simp only [regStr, encStrReg, PV.get?, lookup_map_eq_dget]
  cases dget d k <;> rfl

theorem toDesc_pconfOf (s : Sys (Comp α) α) (k : String) :
    s.toDesc.pconfOf k = (dget s.phaseConf k).getD (.table []) := by
  simp only [SysDesc.pconfOf, Sys.toDesc, encConfReg, PV.get?, lookup_map_eq_dget]
  cases dget s.phaseConf k with
  | none => rfl
  | some pc => simp [pvPhaseConf_enc]

/-! #### the node list -/

theorem map_filterMap_of_some {β γ δ : Type} (f : β → Option γ) (g : γ → δ) (k : β → δ) (l : List β)
    (h : ∀ b ∈ l, ∃ c, f b = some c ∧ g c = k b) : (l.filterMap f).map g = l.map k := by
  induction l with
  | nil => rfl
  | cons x t ih =>
    obtain ⟨c, hc, hg⟩ := h x (by simp)
    rw [List.filterMap_cons, hc, List.map_cons, List.map_cons, hg, ih fun b hb => h b (List.mem_cons_of_mem _ hb)]

theorem toNode_name (s : Sys (Comp α) α) (p : Nat × Comp α) : (s.absEntry p).toNode.name = p.2.name := rfl

theorem mem_toDesc_nodes {s : Sys (Comp α) α} (hs : Sane s) (hr : WFr s) {n : Node α} :
    n ∈ s.toDesc.nodes ↔ ∃ p ∈ s.comps, n = (s.absEntry p).toNode := by
  simp only [Sys.toDesc, List.mem_filterMap, Sys.nodeAt, Option.map_eq_some_iff]
  constructor
  · rintro ⟨kv, _, c, hc, rfl⟩
    exact ⟨(kv.2, c), mem_of_payload? hc, rfl⟩
  · rintro ⟨p, hp, rfl⟩
    exact ⟨(nameOfC p.2, p.1), dget_some_mem (hr.nodes_get p hp), p.2, payload?_of_mem hs hp, rfl⟩

/-- the node list has one node per key of `attrs["nodes"]`, in that order -/
theorem toDesc_names {s : Sys (Comp α) α} (hs : Sane s) (hr : WFr s) : s.toDesc.names = dkeys s.nodes := by
  unfold SysDesc.names Sys.toDesc dkeys
  apply map_filterMap_of_some
  intro kv hkv
  obtain ⟨p, hp, hx⟩ := mem_names.mp (hr.nodes_keys kv.1 (mem_dkeys.mpr ⟨kv.2, hkv⟩))
  have h1 := hr.nodes_get p hp
  rw [hx] at h1
  have h2 := dget_of_mem_nodup hs.nodes_nodup hkv
  rw [h1] at h2
  have h3 : kv.2 = p.1 := (Option.some.inj h2).symm
  refine ⟨(s.absEntry p).toNode, ?_, hx⟩
  simp only [Sys.nodeAt, h3, payload?_of_mem hs hp, Option.map_some]

theorem toDesc_names_nodup {s : Sys (Comp α) α} (hs : Sane s) (hr : WFr s) : s.toDesc.names.Nodup := by
  rw [toDesc_names hs hr]; exact hs.nodes_nodup

theorem mem_toDesc_names {s : Sys (Comp α) α} (hs : Sane s) (hr : WFr s) {x : String} :
    x ∈ s.toDesc.names ↔ x ∈ s.names := by
  rw [toDesc_names hs hr]
  constructor
  · exact hr.nodes_keys x
  · intro hx
    obtain ⟨p, hp, rfl⟩ := mem_names.mp hx
    exact dget_some_key (hr.nodes_get p hp)

theorem toDesc_names_perm {s : Sys (Comp α) α} (hs : Sane s) (hr : WFr s) : s.toDesc.names.Perm s.names :=
  (List.perm_ext_iff_of_nodup (toDesc_names_nodup hs hr) hr.names_nodup).mpr fun _ => mem_toDesc_names hs hr

theorem all_some_eq {β : Type} (l : List (Option β)) (h : ∀ x ∈ l, ∃ q, x = some q) :
    l = (l.filterMap id).map some := by
  induction l with
  | nil => rfl
  | cons a t ih =>
    obtain ⟨q, rfl⟩ := h (a) (by simp)
    have := ih fun x hx => h x (List.mem_cons_of_mem _ hx)
    simp only [List.filterMap_cons, id, List.map_cons]
    exact congrArg _ this

/-- the ordered inputs of a live component in a well-formed state: the names of node indices `qs` that are
    predecessors, each once; none iff the node is a root; all the predecessors when there is at most one -/
theorem toNode_spec {s : Sys (Comp α) α} (hs : Sane s) (hr : WFr s) {p : Nat × Comp α} (hp : p ∈ s.comps) :
    ∃ qs : List Nat, s.parentsOf p.1 = .ok (qs.map some) ∧ (∀ q ∈ qs, q ∈ s.preds p.1) ∧
      (qs = [] ↔ s.preds p.1 = []) ∧ qs.Nodup ∧ ((s.preds p.1).length ≤ 1 → qs = s.preds p.1) ∧
      (s.absEntry p).toNode.parents = qs.filterMap s.nameOf := by
  obtain ⟨l, hl, hsub, hnil⟩ := parentsOf_ok hr hp
  have hall : ∀ x ∈ l, ∃ q, x = some q := fun x hx => by obtain ⟨q, _, e⟩ := hsub x hx; exact ⟨q, e⟩
  have hle := all_some_eq l hall
  refine ⟨l.filterMap id, by rw [← hle]; exact hl, ?_, ?_, ?_, ?_, ?_⟩
  · intro q hq
    obtain ⟨o, ho, hoq⟩ := List.mem_filterMap.mp hq
    obtain ⟨q', hq', rfl⟩ := hsub o ho
    simp only [id, Option.some.injEq] at hoq
    exact hoq ▸ hq'
  · rw [← hnil]
    constructor
    · intro e; rw [hle, e]; rfl
    · intro e; rw [e]; rfl
  · by_cases hm : 1 < (s.preds p.1).length
    · obtain ⟨l', hl', _, hnd⟩ := hr.inputs p hp hm
      rw [hl] at hl'
      cases hl'
      rw [hle] at hnd
      exact List.Nodup.of_map _ hnd
    · have h1 := parentsOf_single (s := s) (n := p.1) (by omega)
      rw [hl] at h1
      cases h1
      simp only [List.filterMap_map, Function.comp_def, id, List.filterMap_some]
      exact preds_nodup hs p.1
  · intro hm
    have h1 := parentsOf_single hm
    rw [hl] at h1
    cases h1
    simp [List.filterMap_map, Function.comp_def]
  · simp only [AEntry.toNode, Sys.absEntry, hl]
    rw [hle]
    simp [List.filterMap_map, Function.comp_def]

/-- … which is the parent list `Sys.toSSys` (Props/C16) hands to the solver, by name -/
theorem toNode_parents_eq_toSSys {s : Sys (Comp α) α} (hs : Sane s) (hr : WFr s) {p : Nat × Comp α}
    (hp : p ∈ s.comps) : (s.absEntry p).toNode.parents = (s.mkNode p.1 p.2).parents.filterMap s.nameOf := by
  obtain ⟨qs, hl, _, _, _, _, hpar⟩ := toNode_spec hs hr hp
  rw [hpar]
  simp [Sys.mkNode, hl, Except.toOption, List.filterMap_map, Function.comp_def]

theorem nameOf_inj {s : Sys (Comp α) α} (hr : WFr s) {q q' : Nat} {x : String} (h : s.nameOf q = some x)
    (h' : s.nameOf q' = some x) : q = q' := by
  simp only [Sys.nameOf, Option.map_eq_some_iff] at h h'
  obtain ⟨c, hc, hn⟩ := h
  obtain ⟨c', hc', hn'⟩ := h'
  have := name_inj hr.names_nodup (mem_of_payload? hc) (mem_of_payload? hc') (hn.trans hn'.symm)
  exact congrArg Prod.fst this

end desc

/-! ### 2. the same final structure gives the same description, up to order -/

section same
variable {α : Type} [Field α] [LinearOrder α] [IsStrictOrderedRing α]
open C12

/-- with unique keys, "the last entry under the key" (`AStruct.confOf`) is the dict lookup -/
theorem getLast_filter_eq_dget {β : Type} (d : List (String × β)) (hn : (dkeys d).Nodup) (x : String) :
    ((d.filter fun kv => decide (kv.1 = x)).getLast?).map (·.2) = dget d x := by
  induction d with
  | nil => rfl
  | cons p t ih =>
    obtain ⟨k, v⟩ := p
    simp only [dkeys_cons, List.nodup_cons] at hn
    by_cases h : k = x
    · subst h
      have : t.filter (fun kv => decide (kv.1 = k)) = [] := by
        rw [List.filter_eq_nil_iff]
        intro kv hkv
        simp only [decide_eq_true_eq]
        intro e
        exact hn.1 (mem_dkeys.mpr ⟨kv.2, by rw [← e]; exact hkv⟩)
      simp [List.filter_cons, this, dget]
    · simp only [List.filter_cons, h, decide_false, Bool.false_eq_true, if_false, dget]
      exact ih hn.2

/-- two dicts with unique keys, the same key set and the same lookups have the same entries -/
theorem perm_of_lookup {β : Type} {d₁ d₂ : List (String × β)} (h1 : (dkeys d₁).Nodup) (h2 : (dkeys d₂).Nodup)
    (hk : ∀ x, x ∈ dkeys d₁ ↔ x ∈ dkeys d₂) (hv : ∀ x ∈ dkeys d₁, dget d₁ x = dget d₂ x) : d₁.Perm d₂ := by
  rw [List.perm_ext_iff_of_nodup (nodup_of_nodup_map (fun p : String × β => p.1) h1)
    (nodup_of_nodup_map (fun p : String × β => p.1) h2)]
  rintro ⟨k, v⟩
  constructor
  · intro hm
    have hkm : k ∈ dkeys d₁ := mem_dkeys.mpr ⟨v, hm⟩
    have := dget_of_mem_nodup h1 hm
    rw [hv k hkm] at this
    exact dget_some_mem this
  · intro hm
    have hkm : k ∈ dkeys d₁ := (hk k).mpr (mem_dkeys.mpr ⟨v, hm⟩)
    have := dget_of_mem_nodup h2 hm
    rw [← hv k hkm] at this
    exact dget_some_mem this

theorem regEquiv_enc {β : Type} (f : β → PV α) {d₂ d₁ : List (String × β)} (h2 : (dkeys d₂).Nodup)
    (hp : d₂.Perm d₁) :
    RegEquiv (PV.dict (d₂.map fun kv => (kv.1, f kv.2))) (PV.dict (d₁.map fun kv => (kv.1, f kv.2))) := by
  refine .dict _ _ (hp.map _) ?_
  rw [List.map_map]
  exact h2

theorem toNode_of_match {e e' : AEntry (Comp α)} (h : e.Match e') : e'.toNode = e.toNode := by
  unfold AEntry.toNode
  rw [h.2.1, h.2.2.1]

theorem names_iff_of_same {s₁ s₂ : Sys (Comp α) α} (hsame : s₁.abs.Same s₂.abs) (x : String) :
    x ∈ s₂.names ↔ x ∈ s₁.names := by
  rw [← abs_names, ← abs_names]
  exact ⟨hsame.2.1.names x, hsame.1.names x⟩

/-- the node lists are the same up to order — node for node EQUAL (same component object, same ordered parents) -/
theorem toDesc_nodes_perm {s₁ s₂ : Sys (Comp α) α} (hl₁ : Legal s₁) (hw₁ : s₁.abs.WF) (hl₂ : Legal s₂)
    (hw₂ : s₂.abs.WF) (hsame : s₁.abs.Same s₂.abs) : s₂.toDesc.nodes.Perm s₁.toDesc.nodes := by
  have hs₁ := hl₁.sane
  have hs₂ := hl₂.sane
  have hr₁ := wfr_of_wf_abs hs₁ hw₁
  have hr₂ := wfr_of_wf_abs hs₂ hw₂
  rw [List.perm_ext_iff_of_nodup (nodup_of_nodup_map Node.name (toDesc_names_nodup hs₂ hr₂))
    (nodup_of_nodup_map Node.name (toDesc_names_nodup hs₁ hr₁))]
  intro n
  rw [mem_toDesc_nodes hs₂ hr₂, mem_toDesc_nodes hs₁ hr₁]
  constructor
  · rintro ⟨q, hq, rfl⟩
    obtain ⟨p, hp, hm⟩ := C16F.counterpart hsame.2.1 hq
    exact ⟨p, hp, (toNode_of_match hm).symm⟩
  · rintro ⟨p, hp, rfl⟩
    obtain ⟨q, hq, hm⟩ := C16F.counterpart hsame.1 hp
    exact ⟨q, hq, (toNode_of_match hm).symm⟩

/-- **`toDesc_same`**: two legal, well-formed states (registries with unique keys, as Python dicts have) with the
    same abstract structure and the same system name have the same description up to the order of the node list
    and the key order of the three registries -/
theorem toDesc_same {s₁ s₂ : Sys (Comp α) α} (hl₁ : Legal s₁) (hw₁ : s₁.abs.WF) (hn₁ : RegN s₁) (hl₂ : Legal s₂)
    (hw₂ : s₂.abs.WF) (hn₂ : RegN s₂) (hname : s₂.name = s₁.name) (hsame : s₁.abs.Same s₂.abs) :
    SysEquivR s₂.toDesc s₁.toDesc := by
  have hs₁ := hl₁.sane
  have hs₂ := hl₂.sane
  have hr₁ := wfr_of_wf_abs hs₁ hw₁
  have hr₂ := wfr_of_wf_abs hs₂ hw₂
  have hnm := names_iff_of_same hsame
  obtain ⟨_, _, hconf, hgrp, hrail, hph⟩ := hsame
  refine ⟨hname, ?_, ?_, ?_, ?_, ?_⟩
  · show encPhases s₂.phases = encPhases s₁.phases
    have : s₁.phases = s₂.phases := hph
    rw [this]
  · refine regEquiv_enc encPConf hn₂.pconf (perm_of_lookup hn₂.pconf hn₁.pconf ?_ ?_)
    · intro x; rw [hr₂.pconf_keys, hr₁.pconf_keys]; exact hnm x
    · intro x hx
      have hx1 : x ∈ s₁.abs.names := by rw [abs_names]; exact (hnm x).mp ((hr₂.pconf_keys x).mp hx)
      have := hconf x hx1
      unfold AStruct.confOf at this
      have e1 := getLast_filter_eq_dget s₁.phaseConf hn₁.pconf x
      have e2 := getLast_filter_eq_dget s₂.phaseConf hn₂.pconf x
      exact e2.symm.trans (this.symm.trans e1)
  · refine regEquiv_enc PV.str hn₂.groups (perm_of_lookup hn₂.groups hn₁.groups ?_ ?_)
    · intro x; rw [hr₂.groups_keys, hr₁.groups_keys]; exact hnm x
    · intro x hx
      have hx1 : x ∈ s₁.abs.names := by rw [abs_names]; exact (hnm x).mp ((hr₂.groups_keys x).mp hx)
      exact (hgrp x hx1).symm
  · refine regEquiv_enc PV.str hn₂.rails (perm_of_lookup hn₂.rails hn₁.rails ?_ ?_)
    · intro x; rw [hr₂.rails_keys, hr₁.rails_keys]; exact hnm x
    · intro x hx
      have hx1 : x ∈ s₁.abs.names := by rw [abs_names]; exact (hnm x).mp ((hr₂.rails_keys x).mp hx)
      exact (hrail x hx1).symm
  · exact ⟨s₂.toDesc.nodes, toDesc_nodes_perm hl₁ hw₁ hl₂ hw₂ ⟨‹_›, ‹_›, hconf, hgrp, hrail, hph⟩,
      List.forall₂_same.mpr fun n _ => NodeEquiv.refl n⟩

end same

/-! ### 3. the description of a legal, well-formed state is a well-formed description -/

section wf
variable {α : Type} [Field α] [LinearOrder α] [IsStrictOrderedRing α]
open C12

/-- rustworkx's topological order (node indices, a parameter) as `save()` uses it: by component name -/
def _root_.SysLoss.Sys.topoNames (s : Sys (Comp α) α) (topo : List Nat) : List String := topo.filterMap s.nameOf

theorem eq_of_filter_le_one {β : Type} {l : List β} (hn : l.Nodup) (P : β → Bool) (h : (l.filter P).length ≤ 1)
    {a b : β} (ha : a ∈ l) (hb : b ∈ l) (hpa : P a = true) (hpb : P b = true) : a = b := by
  have ha' : a ∈ l.filter P := List.mem_filter.mpr ⟨ha, hpa⟩
  have hb' : b ∈ l.filter P := List.mem_filter.mpr ⟨hb, hpb⟩
  match hf : l.filter P, h, ha', hb' with
  | [], _, ha', _ => simp [hf] at ha'
  | [x], _, ha', hb' =>
    simp only [List.mem_singleton] at ha' hb'
    rw [ha', hb']
  | x :: y :: t, h, _, _ => simp at h

theorem ids_filterMap_nameOf {s : Sys (Comp α) α} (hs : Sane s) : s.ids.filterMap s.nameOf = s.names := by
  unfold Sys.ids Sys.names
  rw [List.filterMap_map]
  exact filterMap_eq_map_of_some fun p hp => nameOf_of_mem hs hp

theorem topoNames_perm {s : Sys (Comp α) α} (hs : Sane s) {topo : List Nat} (ht : ValidTopo s topo) :
    (s.topoNames topo).Perm s.names := by
  have : topo.Perm s.ids := (List.perm_ext_iff_of_nodup ht.nodup hs.ids_nodup).mpr ht.live
  rw [← ids_filterMap_nameOf hs]
  exact this.filterMap _

/-- parents come before their children in the name order -/
theorem topoNames_order {s : Sys (Comp α) α} (hs : Sane s) (hr : WFr s) {topo : List Nat} (ht : ValidTopo s topo)
    {p : Nat × Comp α} (hp : p ∈ s.comps) {q : Nat} (hq : q ∈ s.preds p.1) {x : String}
    (hx : s.nameOf q = some x) : (s.topoNames topo).idxOf x < (s.topoNames topo).idxOf p.2.name := by
  have hpt : p.1 ∈ topo := (ht.live p.1).mpr (mem_ids_of_mem hp)
  obtain ⟨pre, post, e⟩ := List.append_of_mem hpt
  have hqpre : q ∈ pre := ht.order pre p.1 post e q hq
  have hnd := ht.nodup
  rw [e] at hnd
  have hppre : p.1 ∉ pre := by
    intro h
    have := (List.nodup_append.mp hnd).2.2 p.1 h p.1 (by simp)
    exact this rfl
  have hname : s.nameOf p.1 = some p.2.name := nameOf_of_mem hs hp
  have hsplit : s.topoNames topo = pre.filterMap s.nameOf ++ p.2.name :: post.filterMap s.nameOf := by
    unfold Sys.topoNames
    rw [e, List.filterMap_append, List.filterMap_cons, hname]
  have hxin : x ∈ pre.filterMap s.nameOf := List.mem_filterMap.mpr ⟨q, hqpre, hx⟩
  have hnin : p.2.name ∉ pre.filterMap s.nameOf := by
    intro h
    obtain ⟨q', hq', hn'⟩ := List.mem_filterMap.mp h
    have := nameOf_inj hr hn' hname
    exact hppre (this ▸ hq')
  rw [hsplit, List.idxOf_append_of_mem hxin, List.idxOf_append_of_notMem hnin, List.idxOf_cons_self]
  have := List.idxOf_lt_length_of_mem hxin
  omega

/-- **`toDesc_descWF_partial`**: the description of a legal, well-formed, non-empty state is `DescWF` for every valid
    topological order.  `hb` is the `Built` hypothesis (the components are outputs of the constructor model, as in
    Props/C12Same); `hnamed` — no component has the empty name — is what makes this `_partial`: `System(name,
    Source(""))` is a legal state, `DescWF.named` excludes it (the loader treats `""` as taken). -/
theorem toDesc_descWF_partial {s : Sys (Comp α) α} (hl : Legal s) (hw : s.abs.WF) (hne : s.comps ≠ [])
    (hb : ∀ p ∈ s.comps, Built p.2) (hnamed : ∀ p ∈ s.comps, p.2.name ≠ "") {topo : List Nat}
    (ht : ValidTopo s topo) : DescWF (s.topoNames topo) s.toDesc := by
  have hs := hl.sane
  have hr := wfr_of_wf_abs hs hw
  have hmem := @mem_toDesc_nodes α _ _ _ s hs hr
  -- the parents of a node, resolved
  have hpar : ∀ p ∈ s.comps, ∀ x ∈ (s.absEntry p).toNode.parents,
      ∃ q ∈ s.preds p.1, ∃ c, s.payload? q = some c ∧ c.name = x := by
    intro p hp x hx
    obtain ⟨qs, _, hsub, _, _, _, hpe⟩ := toNode_spec hs hr hp
    rw [hpe] at hx
    obtain ⟨q, hq, hqx⟩ := List.mem_filterMap.mp hx
    simp only [Sys.nameOf, Option.map_eq_some_iff] at hqx
    obtain ⟨c, hc, hcx⟩ := hqx
    exact ⟨q, hsub q hq, c, hc, hcx⟩
  have hlen : ∀ p ∈ s.comps, ∃ qs : List Nat, (qs = [] ↔ s.preds p.1 = []) ∧
      ((s.preds p.1).length ≤ 1 → qs = s.preds p.1) ∧ (s.absEntry p).toNode.parents.length = qs.length := by
    intro p hp
    obtain ⟨qs, _, hsub, hnil, _, hone, hpe⟩ := toNode_spec hs hr hp
    refine ⟨qs, hnil, hone, ?_⟩
    rw [hpe, filterMap_eq_map_of_some (g := fun q => (s.nameOf q).getD "") ?_, List.length_map]
    intro q hq
    obtain ⟨c, hc⟩ := payload?_of_mem_ids (preds_live hs (hsub q hq)).1
    simp [Sys.nameOf, hc]
  refine { built := ?_, named := ?_, nodup := toDesc_names_nodup hs hr, nonempty := ?_, topoPerm := ?_,
           topoOrder := ?_, parentsExist := ?_, parentsNodup := ?_, sourceIff := ?_, single := ?_, oneMux := ?_,
           loadsLeaf := ?_ }
  · intro n hn
    obtain ⟨p, hp, rfl⟩ := hmem.mp hn
    exact hb p hp
  · intro n hn
    obtain ⟨p, hp, rfl⟩ := hmem.mp hn
    exact hnamed p hp
  · obtain ⟨p, hp⟩ := List.exists_mem_of_ne_nil _ hne
    intro e
    have := hmem.mpr ⟨p, hp, rfl⟩
    rw [e] at this
    simp at this
  · exact (topoNames_perm hs ht).trans (toDesc_names_perm hs hr).symm
  · intro n hn x hx
    obtain ⟨p, hp, rfl⟩ := hmem.mp hn
    obtain ⟨q, hq, c, hc, rfl⟩ := hpar p hp x hx
    exact topoNames_order hs hr ht hp hq (by rw [Sys.nameOf, hc]; rfl)
  · intro n hn x hx
    obtain ⟨p, hp, rfl⟩ := hmem.mp hn
    obtain ⟨q, hq, c, hc, rfl⟩ := hpar p hp x hx
    exact (mem_toDesc_names hs hr).mpr (mem_names_of_mem (mem_of_payload? hc))
  · intro n hn
    obtain ⟨p, hp, rfl⟩ := hmem.mp hn
    obtain ⟨qs, _, _, _, hnd, _, hpe⟩ := toNode_spec hs hr hp
    rw [hpe]
    exact hnd.filterMap fun a a' b h h' => nameOf_inj hr h h'
  · intro n hn
    obtain ⟨p, hp, rfl⟩ := hmem.mp hn
    obtain ⟨qs, hnil, _, hlen'⟩ := hlen p hp
    show kindOfC p.2 = .source ↔ _
    rw [← hr.roots p hp, ← hnil, ← List.length_eq_zero_iff, ← hlen', List.length_eq_zero_iff]
  · intro n hn hk
    obtain ⟨p, hp, rfl⟩ := hmem.mp hn
    obtain ⟨qs, _, hone, hlen'⟩ := hlen p hp
    have hle : (s.preds p.1).length ≤ 1 := by
      by_contra hc
      exact hk (hr.multi p hp (by omega))
    rw [hlen', hone hle]
    exact hle
  · intro n hn m hm hkn hkm
    obtain ⟨p, hp, rfl⟩ := hmem.mp hn
    obtain ⟨p', hp', rfl⟩ := hmem.mp hm
    have := eq_of_filter_le_one (nodup_of_nodup_map (fun p : Nat × Comp α => p.1) hs.ids_nodup)
      (fun p => decide (kindOfC p.2 = .pmux)) hr.one_mux hp hp' (decide_eq_true (show kindOfC p.2 = .pmux from hkn))
      (decide_eq_true (show kindOfC p'.2 = .pmux from hkm))
    rw [this]
  · intro n hn x hx pn hpn hpx
    obtain ⟨p, hp, rfl⟩ := hmem.mp hn
    obtain ⟨p', hp', rfl⟩ := hmem.mp hpn
    obtain ⟨q, hq, c, hc, rfl⟩ := hpar p hp x hx
    have e : p' = (q, c) := name_inj hr.names_nodup hp' (mem_of_payload? hc) hpx
    subst e
    have hacc := hr.links (q, p.1) (mem_preds.mp hq) c p.2 hc (payload?_of_mem hs hp)
    intro hload
    have hload' : (kindOfC c).ctype = .LOAD := hload
    simp only [Kind.acceptsChild, hload'] at hacc
    exact Bool.false_ne_true hacc

end wf

/-! ### 4. `save()` depends on the final structure only -/

section main
variable {α : Type} [Field α] [LinearOrder α] [IsStrictOrderedRing α]
open C12 C16R

/-- the two outcomes of `from_file` carry the same information, registries compared as Python dicts: both raise the
    same exception, or both succeed with `SysEquivR` results (`C12.ResEquiv` with `SysEquivR` for `SysEquiv`) -/
def ResEquivR : Except Err (SysDesc α) → Except Err (SysDesc α) → Prop
  | .ok r₂, .ok r₁ => SysEquivR r₂ r₁
  | .error e₂, .error e₁ => e₂ = e₁
  | _, _ => False

theorem encStrReg_ne_empty {d : List (String × String)} (h : d ≠ []) : (encStrReg d : PV α) ≠ .dict [] := by
  intro e
  simp only [encStrReg, PV.dict.injEq, List.map_eq_nil_iff] at e
  exact h e

theorem reg_ne_nil {β : Type} {d : List (String × β)} {names : List String} (hk : ∀ x, x ∈ dkeys d ↔ x ∈ names)
    (hne : names ≠ []) : d ≠ [] := by
  intro e
  obtain ⟨x, hx⟩ := List.exists_mem_of_ne_nil _ hne
  have := (hk x).mpr hx
  rw [e] at this
  simp [dkeys] at this

/-- what `Same` carries from `s₁` to `s₂`: a live component, `Built`, non-empty names -/
theorem transfer_of_same {s₁ s₂ : Sys (Comp α) α} (hsame : s₁.abs.Same s₂.abs) (hne : s₁.comps ≠ [])
    (hb : ∀ p ∈ s₁.comps, Built p.2) (hnamed : ∀ p ∈ s₁.comps, p.2.name ≠ "") :
    s₂.comps ≠ [] ∧ (∀ q ∈ s₂.comps, Built q.2) ∧ (∀ q ∈ s₂.comps, q.2.name ≠ "") := by
  refine ⟨?_, ?_, ?_⟩
  · obtain ⟨p, hp⟩ := List.exists_mem_of_ne_nil _ hne
    obtain ⟨q, hq, _⟩ := C16F.counterpart hsame.1 hp
    exact List.ne_nil_of_mem hq
  · intro q hq
    obtain ⟨p, hp, hm⟩ := C16F.counterpart hsame.2.1 hq
    have : p.2 = q.2 := hm.2.1
    rw [← this]; exact hb p hp
  · intro q hq
    obtain ⟨p, hp, hm⟩ := C16F.counterpart hsame.2.1 hq
    have : p.2 = q.2 := hm.2.1
    rw [← this]; exact hnamed p hp

/-- the load of the saved document of a state's description, when no Source / PMux is called "system": the version
    gate on the library's own version string, then the description with the reloaded nodes (no back-fill: the
    registries of a non-empty state are not empty) -/
theorem fromFile_save_toDesc {s : Sys (Comp α) α} (hl : Legal s) (hw : s.abs.WF) (hne : s.comps ≠ [])
    {tn : List String} (h : DescWF tn s.toDesc) (ver : String)
    (hres : ∀ n ∈ s.toDesc.nodes, n.comp.kind = .source ∨ n.comp.kind = .pmux → n.name ≠ "system") :
    fromFile ver (save ver tn s.toDesc) =
      match versionGate ver (.str ver : PV α) with
      | .error e => .error e
      | .ok _ => .ok { name := s.name, nodes := (flatLayout (layoutOf tn s.toDesc)).map rl,
                       phases := s.toDesc.phases, phaseConf := s.toDesc.phaseConf, groups := s.toDesc.groups,
                       rails := s.toDesc.rails } := by
  have hr := wfr_of_wf_abs hl.sane hw
  have hnn : s.names ≠ [] := by
    obtain ⟨p, hp⟩ := List.exists_mem_of_ne_nil _ hne
    exact List.ne_nil_of_mem (mem_names_of_mem hp)
  have hg : s.toDesc.groups ≠ .dict [] := encStrReg_ne_empty (reg_ne_nil hr.groups_keys hnn)
  have hrl : s.toDesc.rails ≠ .dict [] := encStrReg_ne_empty (reg_ne_nil hr.rails_keys hnn)
  rw [fromFile_save_wf ver h hres]
  unfold reloadRes
  rw [backfill_nonempty _ _ hg, backfill_nonempty _ _ hrl]
  rfl

/-- **`save()` as a function of the final structure** (states).  Two legal, well-formed states with the same
    abstract structure and the same system name, each saved in whatever topological order rustworkx picks: loading
    the two documents raises the same exception in both cases (the version gate on a malformed version string, the
    reserved name "system" of finding F15) or gives `SysEquivR` systems.  No hypothesis on the version string, on
    the registries or on the names "system".  `_partial`: the `Built` hypothesis of Props/C12Same and "no component
    has the empty name" (both on `s₁` only; they travel along `Same`). -/
theorem same_structure_same_save_partial {s₁ s₂ : Sys (Comp α) α} (hl₁ : Legal s₁) (hw₁ : s₁.abs.WF)
    (hn₁ : RegN s₁) (hl₂ : Legal s₂) (hw₂ : s₂.abs.WF) (hn₂ : RegN s₂) (hne : s₁.comps ≠ [])
    (hb : ∀ p ∈ s₁.comps, Built p.2) (hnamed : ∀ p ∈ s₁.comps, p.2.name ≠ "")
    (hname : s₂.name = s₁.name) (hsame : s₁.abs.Same s₂.abs) {topo₁ topo₂ : List Nat}
    (ht₁ : ValidTopo s₁ topo₁) (ht₂ : ValidTopo s₂ topo₂) (ver : String) :
    ResEquivR (fromFile ver (save ver (s₂.topoNames topo₂) s₂.toDesc))
      (fromFile ver (save ver (s₁.topoNames topo₁) s₁.toDesc)) := by
  obtain ⟨hne₂, hb₂, hnamed₂⟩ := transfer_of_same hsame hne hb hnamed
  have h₁ := toDesc_descWF_partial hl₁ hw₁ hne hb hnamed ht₁
  have h₂ := toDesc_descWF_partial hl₂ hw₂ hne₂ hb₂ hnamed₂ ht₂
  have he := toDesc_same hl₁ hw₁ hn₁ hl₂ hw₂ hn₂ hname hsame
  by_cases hres : ∀ n ∈ s₁.toDesc.nodes, n.comp.kind = .source ∨ n.comp.kind = .pmux → n.name ≠ "system"
  · have hres₂ : ∀ n ∈ s₂.toDesc.nodes, n.comp.kind = .source ∨ n.comp.kind = .pmux → n.name ≠ "system" :=
      fun n hn hk => reserved_transfer he.normalize hres n hn hk
    rw [fromFile_save_toDesc hl₁ hw₁ hne h₁ ver hres, fromFile_save_toDesc hl₂ hw₂ hne₂ h₂ ver hres₂]
    cases versionGate ver (.str ver : PV α) with
    | error e => exact rfl
    | ok u =>
      refine ⟨hname, he.phases, he.phaseConf, he.groups, he.rails, ?_⟩
      exact (((reloadedDesc_equiv_wf h₂).toR.trans he).trans (reloadedDesc_equiv_wf h₁).toR.symm).nodes
  · push Not at hres
    obtain ⟨n, hn, hk, hnm⟩ := hres
    obtain ⟨n', hn', hr⟩ := he.symm.exists_node hn
    have e : n.name = n'.name := hr.1.name
    rw [fromFile_save_wf_reserved ver h₁ hn hk hnm,
      fromFile_save_wf_reserved ver h₂ hn' (by rw [← hr.1.kind]; exact hk) (by rw [← e]; exact hnm)]
    exact rfl

/-- … and in the success case the two reloaded systems solve to the same table up to row order (equal "System total"
    and "System average" rows).  `tp₁`, `tp₂`: the orders in which rustworkx processes the two reloaded systems
    (parameters).  Further hypothesis: `0 ≤ cfg.atol` (from `C16R.solve_renumber`). -/
theorem same_structure_same_save_same_table_partial {s₁ s₂ : Sys (Comp α) α} (hl₁ : Legal s₁) (hw₁ : s₁.abs.WF)
    (hn₁ : RegN s₁) (hl₂ : Legal s₂) (hw₂ : s₂.abs.WF) (hn₂ : RegN s₂) (hne : s₁.comps ≠ [])
    (hb : ∀ p ∈ s₁.comps, Built p.2) (hnamed : ∀ p ∈ s₁.comps, p.2.name ≠ "")
    (hname : s₂.name = s₁.name) (hsame : s₁.abs.Same s₂.abs) {topo₁ topo₂ : List Nat}
    (ht₁ : ValidTopo s₁ topo₁) (ht₂ : ValidTopo s₂ topo₂) (ver : String) {r₁ r₂ : SysDesc α}
    (hr₁ : fromFile ver (save ver (s₁.topoNames topo₁) s₁.toDesc) = .ok r₁)
    (hr₂ : fromFile ver (save ver (s₂.topoNames topo₂) s₂.toDesc) = .ok r₂)
    {tp₁ tp₂ : List String} (hp₁ : TopoOK tp₁ s₁.toDesc) (hp₂ : TopoOK tp₂ s₂.toDesc)
    (cfg : Cfg α) (hatol : 0 ≤ cfg.atol) (pa : String) (ta : α) (T : Table α)
    (hT : (r₁.toSSys tp₁).solve cfg pa ta = .ok T) :
    SysEquivR r₂ r₁ ∧
    ∃ T', (r₂.toSSys tp₂).solve cfg pa ta = .ok T' ∧
      List.Forall₂ (fun p p' => p'.1 = p.1 ∧ PTRel p.2 p'.2) T.phases T'.phases ∧ T'.avg = T.avg := by
  obtain ⟨hne₂, hb₂, hnamed₂⟩ := transfer_of_same hsame hne hb hnamed
  have h₁ := toDesc_descWF_partial hl₁ hw₁ hne hb hnamed ht₁
  have h₂ := toDesc_descWF_partial hl₂ hw₂ hne₂ hb₂ hnamed₂ ht₂
  have he := toDesc_same hl₁ hw₁ hn₁ hl₂ hw₂ hn₂ hname hsame
  have hE : SysEquivR r₂ r₁ := by
    have := same_structure_same_save_partial hl₁ hw₁ hn₁ hl₂ hw₂ hn₂ hne hb hnamed hname hsame ht₁ ht₂ ver
    rw [hr₁, hr₂] at this
    exact this
  obtain ⟨e₁, q₁⟩ := ok_shape ver h₁ hr₁
  obtain ⟨e₂, _⟩ := ok_shape ver h₂ hr₂
  have hw : SolveWF r₁ := q₁.solveWF (solveWF_regs h₁.solveWF _ _)
  have hia : InterpAgree r₂ r₁ := reloaded_interpAgree h₁ h₂ (fun _ h => he.exists_node h) e₁ e₂
  have t₁ : TopoOK tp₁ r₁ := q₁.topoOK (topoOK_regs hp₁ _ _)
  have t₂' := he.symm.normalize.topoOK hp₂
  have t₂ : TopoOK tp₂ r₁ := q₁.topoOK ⟨t₂'.nodup, t₂'.mem, t₂'.order⟩
  exact ⟨hE, sysEquivR_same_table_partial hE hw hia t₁ t₂ cfg hatol pa ta T hT⟩

/-- **`histories_same_save_partial`** (main).  Two systems, each constructed and then edited by any sequence of
    calls (accepted or rejected), that end in the same structure and carry the same system name: `save()` of the
    one and `save()` of the other, each in whatever topological order rustworkx picks, are documents that
    `from_file` treats alike — the same exception, or `SysEquivR` systems.  No `Legal` / `WF` / unique-keys /
    non-emptiness hypothesis is left (`C14.legal_run`, `C14.wf_always`, `regN_run`, `hasSrc_run`).  `_partial`
    through `hb` (`Built`) and `hnamed` (no empty component name), both on the first final state only. -/
theorem histories_same_save_partial {name₁ name₂ : String} {src₁ src₂ : Comp α} {g₁ r₁ g₂ r₂ : String}
    {a b : Sys (Comp α) α} (ha : Sys.init name₁ src₁ g₁ r₁ = some a) (hb' : Sys.init name₂ src₂ g₂ r₂ = some b)
    (h₁ h₂ : List (Op (Comp α) α)) (hname : (b.run h₂).name = (a.run h₁).name)
    (hsame : (a.run h₁).abs.Same (b.run h₂).abs)
    (hb : ∀ p ∈ (a.run h₁).comps, Built p.2) (hnamed : ∀ p ∈ (a.run h₁).comps, p.2.name ≠ "")
    {topo₁ topo₂ : List Nat} (ht₁ : ValidTopo (a.run h₁) topo₁) (ht₂ : ValidTopo (b.run h₂) topo₂) (ver : String) :
    ResEquivR (fromFile ver (save ver ((b.run h₂).topoNames topo₂) (b.run h₂).toDesc))
      (fromFile ver (save ver ((a.run h₁).topoNames topo₁) (a.run h₁).toDesc)) := by
  have hla := C14.legal_init ha
  obtain ⟨p, hp, _⟩ := hasSrc_run hla (C14.wf_init ha) (hasSrc_init ha) h₁
  exact same_structure_same_save_partial (C14.legal_run hla h₁) (C14.wf_always ha h₁) (regN_run (regN_init ha) h₁)
    (C14.legal_run (C14.legal_init hb') h₂) (C14.wf_always hb' h₂) (regN_run (regN_init hb') h₂)
    (List.ne_nil_of_mem hp) hb hnamed hname hsame ht₁ ht₂ ver

/-- **`histories_same_save_same_table_partial`**: in the success case the two reloads solve to the same table up to
    row order -/
theorem histories_same_save_same_table_partial {name₁ name₂ : String} {src₁ src₂ : Comp α} {g₁ r₁ g₂ r₂ : String}
    {a b : Sys (Comp α) α} (ha : Sys.init name₁ src₁ g₁ r₁ = some a) (hb' : Sys.init name₂ src₂ g₂ r₂ = some b)
    (h₁ h₂ : List (Op (Comp α) α)) (hname : (b.run h₂).name = (a.run h₁).name)
    (hsame : (a.run h₁).abs.Same (b.run h₂).abs)
    (hb : ∀ p ∈ (a.run h₁).comps, Built p.2) (hnamed : ∀ p ∈ (a.run h₁).comps, p.2.name ≠ "")
    {topo₁ topo₂ : List Nat} (ht₁ : ValidTopo (a.run h₁) topo₁) (ht₂ : ValidTopo (b.run h₂) topo₂) (ver : String)
    {d₁ d₂ : SysDesc α}
    (hd₁ : fromFile ver (save ver ((a.run h₁).topoNames topo₁) (a.run h₁).toDesc) = .ok d₁)
    (hd₂ : fromFile ver (save ver ((b.run h₂).topoNames topo₂) (b.run h₂).toDesc) = .ok d₂)
    {tp₁ tp₂ : List String} (hp₁ : TopoOK tp₁ (a.run h₁).toDesc) (hp₂ : TopoOK tp₂ (b.run h₂).toDesc)
    (cfg : Cfg α) (hatol : 0 ≤ cfg.atol) (pa : String) (ta : α) (T : Table α)
    (hT : (d₁.toSSys tp₁).solve cfg pa ta = .ok T) :
    SysEquivR d₂ d₁ ∧
    ∃ T', (d₂.toSSys tp₂).solve cfg pa ta = .ok T' ∧
      List.Forall₂ (fun p p' => p'.1 = p.1 ∧ PTRel p.2 p'.2) T.phases T'.phases ∧ T'.avg = T.avg := by
  have hla := C14.legal_init ha
  obtain ⟨p, hp, _⟩ := hasSrc_run hla (C14.wf_init ha) (hasSrc_init ha) h₁
  exact same_structure_same_save_same_table_partial (C14.legal_run hla h₁) (C14.wf_always ha h₁)
    (regN_run (regN_init ha) h₁) (C14.legal_run (C14.legal_init hb') h₂) (C14.wf_always hb' h₂)
    (regN_run (regN_init hb') h₂) (List.ne_nil_of_mem hp) hb hnamed hname hsame ht₁ ht₂ ver hd₁ hd₂ hp₁ hp₂ cfg
    hatol pa ta T hT

/-- for histories: the description of every reachable state is well-formed (`Built`, non-empty names assumed) -/
theorem reachable_descWF_partial {name : String} {src : Comp α} {g r : String} {a : Sys (Comp α) α}
    (ha : Sys.init name src g r = some a) (h : List (Op (Comp α) α))
    (hb : ∀ p ∈ (a.run h).comps, Built p.2) (hnamed : ∀ p ∈ (a.run h).comps, p.2.name ≠ "")
    {topo : List Nat} (ht : ValidTopo (a.run h) topo) : DescWF ((a.run h).topoNames topo) (a.run h).toDesc := by
  have hla := C14.legal_init ha
  obtain ⟨p, hp, _⟩ := hasSrc_run hla (C14.wf_init ha) (hasSrc_init ha) h
  exact toDesc_descWF_partial (C14.legal_run hla h) (C14.wf_always ha h) (List.ne_nil_of_mem hp) hb hnamed ht

/-- for histories: `toDesc_same` without `Legal` / `WF` / unique-keys hypotheses -/
theorem histories_same_desc {name₁ name₂ : String} {src₁ src₂ : Comp α} {g₁ r₁ g₂ r₂ : String}
    {a b : Sys (Comp α) α} (ha : Sys.init name₁ src₁ g₁ r₁ = some a) (hb' : Sys.init name₂ src₂ g₂ r₂ = some b)
    (h₁ h₂ : List (Op (Comp α) α)) (hname : (b.run h₂).name = (a.run h₁).name)
    (hsame : (a.run h₁).abs.Same (b.run h₂).abs) :
    SysEquivR (b.run h₂).toDesc (a.run h₁).toDesc ∧ (b.run h₂).toDesc.nodes.Perm (a.run h₁).toDesc.nodes :=
  ⟨toDesc_same (C14.legal_run (C14.legal_init ha) h₁) (C14.wf_always ha h₁) (regN_run (regN_init ha) h₁)
    (C14.legal_run (C14.legal_init hb') h₂) (C14.wf_always hb' h₂) (regN_run (regN_init hb') h₂) hname hsame,
   toDesc_nodes_perm (C14.legal_run (C14.legal_init ha) h₁) (C14.wf_always ha h₁)
    (C14.legal_run (C14.legal_init hb') h₂) (C14.wf_always hb' h₂) hsame⟩

end main

/-! ### 5. non-vacuity: `C16.histA` / `C16.histB` with constructor-built components at ℚ -/

section witness
open C12 C16R

/-- constructor-built (`Built`) solver payloads for the light components of `C16.histA` / `C16.histB` (the converters
    become series resistors: `Props/C12Layout` has their `Built` proofs) -/
def liftB (c : PComp) : Comp ℚ :=
  match c.kind with
  | .source => wSrc c.name
  | .converter => eLoss c.name
  | .pmux => eMux c.name
  | _ => eLoad c.name

theorem liftB_built (c : PComp) : Built (liftB c) := by
  unfold liftB
  split
  · exact wSrc_built _
  · exact eLoss_built _
  · exact eMux_built _
  · exact eLoad_built _

def liftOpB : Op PComp String → Op (Comp ℚ) ℚ
  | .addSource c g r => .addSource (liftB c) g r
  | .addComp p c g r => .addComp p (liftB c) g r
  | .changeComp x c g r => .changeComp x (liftB c) g r
  | .delComp x d => .delComp x d
  | .setSysPhases ph => .setSysPhases (ph.map fun p => (p.1, 0))
  | .setCompPhases x _ => .setCompPhases x .bad

/-- `System("s", Source("S", vo=5))` -/
def s0b : Sys (Comp ℚ) ℚ :=
  { name := "s", comps := [(0, wSrc "S")], edges := [], free := [], next := 1, nodes := [("S", 0)],
    phaseConf := [("S", .table [])], groups := [("S", "")], rails := [("S", "")], pnames := [(0, [])], phases := [] }

theorem s0b_init : Sys.init "s" (wSrc "S") "" "" = some s0b := rfl

/-- `C16.histA` (S → B → {L, K} built directly), then the phases and K's per-phase current -/
def hA : List (Op (Comp ℚ) ℚ) := C16.histA.map liftOpB ++ [C16F.exPhases, C16F.exKconf]

/-- `C16.histB` (other insertion order, a deleted subtree whose node indices are re-used, a rename), K configured
    before the rename and the deletion, the phases declared at the end -/
def hB : List (Op (Comp ℚ) ℚ) :=
  (C16.histB.take 7).map liftOpB ++ [C16F.exKconf] ++ (C16.histB.drop 7).map liftOpB ++ [C16F.exPhases]

def dictKeys (x : PV ℚ) : List String := match x with | .dict d => d.map (·.1) | _ => []

/-- `toDesc` of both final states: the same nodes under the same ordered parents, in ANOTHER node order and with the
    three registries in ANOTHER key order — the two descriptions differ (`SysEquiv` does not hold: its registry
    clauses are equalities of ordered dicts) -/
example :
    ((s0b.run hA).toDesc.nodes.map fun n => (n.name, n.parents)) = [("S", []), ("B", ["S"]), ("L", ["B"]), ("K", ["B"])] ∧
    ((s0b.run hB).toDesc.nodes.map fun n => (n.name, n.parents)) = [("S", []), ("K", ["B"]), ("L", ["B"]), ("B", ["S"])] ∧
    dictKeys (s0b.run hA).toDesc.groups = ["S", "B", "L", "K"] ∧
    dictKeys (s0b.run hB).toDesc.groups = ["S", "K", "L", "B"] ∧
    dictKeys (s0b.run hA).toDesc.phaseConf = ["S", "B", "L", "K"] ∧
    dictKeys (s0b.run hB).toDesc.phaseConf = ["S", "K", "L", "B"] ∧
    dictKeys (s0b.run hA).toDesc.phases = ["run", "sleep"] ∧
    (s0b.run hA).toDesc.names ≠ (s0b.run hB).toDesc.names ∧
    (s0b.run hA).ids = [0, 1, 2, 3] ∧ (s0b.run hB).ids = [0, 1, 2, 4] := by
  decide +kernel

/-- a sound (incomplete: flat values only) test for the equality of two raw values -/
def pvFlatEqB : PV ℚ → PV ℚ → Bool
  | .null, .null => true
  | .bool a, .bool b => decide (a = b)
  | .int a, .int b => decide (a = b)
  | .float a, .float b => decide (a = b)
  | .str a, .str b => decide (a = b)
  | _, _ => false

theorem pvFlatEqB_sound {a b : PV ℚ} (h : pvFlatEqB a b = true) : a = b := by
  cases a <;> cases b <;> simp only [pvFlatEqB, decide_eq_true_eq] at h <;> first | rfl | (rw [h]) | cases h

def paramsEqB : List (String × PV ℚ) → List (String × PV ℚ) → Bool
  | [], [] => true
  | (k, v) :: t, (k', v') :: t' => decide (k = k') && pvFlatEqB v v' && paramsEqB t t'
  | _, _ => false

theorem paramsEqB_sound : ∀ {a b : List (String × PV ℚ)}, paramsEqB a b = true → a = b
  | [], [], _ => rfl
  | [], _ :: _, h => by simp [paramsEqB] at h
  | _ :: _, [], h => by simp [paramsEqB] at h
  | (k, v) :: t, (k', v') :: t', h => by
    simp only [paramsEqB, Bool.and_eq_true, decide_eq_true_eq] at h
    rw [h.1.1, pvFlatEqB_sound h.1.2, paramsEqB_sound h.2]

/-- a sound test for the equality of two components (`Comp ℚ` has no `DecidableEq`: `PV` is a nested inductive) -/
def compEqB (a b : Comp ℚ) : Bool :=
  decide (a.name = b.name) && decide (a.kind = b.kind) && decide (a.vo = b.vo) && decide (a.rs = b.rs) &&
  decide (a.rsList = b.rsList) && decide (a.par = b.par) && decide (a.vdrop = b.vdrop) && decide (a.iq = b.iq) &&
  decide (a.iis = b.iis) && decide (a.rt = b.rt) && decide (a.pwr = b.pwr) && decide (a.pwrs = b.pwrs) &&
  decide (a.ii = b.ii) && decide (a.loss = b.loss) && decide (a.diode = b.diode) && decide (a.limits = b.limits) &&
  paramsEqB a.params b.params

theorem compEqB_sound {a b : Comp ℚ} (h : compEqB a b = true) : a = b := by
  cases a; cases b
  simp only [compEqB, Bool.and_eq_true, decide_eq_true_eq] at h
  obtain ⟨⟨⟨⟨⟨⟨⟨⟨⟨⟨⟨⟨⟨⟨⟨⟨h1, h2⟩, h3⟩, h4⟩, h5⟩, h6⟩, h7⟩, h8⟩, h9⟩, h10⟩, h11⟩, h12⟩, h13⟩, h14⟩, h15⟩, h16⟩, h17⟩ := h
  have h17' := paramsEqB_sound h17
  subst h1 h2 h3 h4 h5 h6 h7 h8 h9 h10 h11 h12 h13 h14 h15 h16 h17'
  rfl

def matchB (e e' : AEntry (Comp ℚ)) : Bool :=
  decide (e'.name = e.name) && compEqB e'.comp e.comp && decide (e'.parents = e.parents) &&
  decide (∀ x ∈ e.preds.map (·.1), x ∈ e'.preds.map (·.1)) && decide (∀ x ∈ e'.preds.map (·.1), x ∈ e.preds.map (·.1))

def subB (a b : AStruct (Comp ℚ) ℚ) : Bool := a.comps.all fun e => b.comps.any fun e' => matchB e e'

theorem sub_of_subB {a b : AStruct (Comp ℚ) ℚ} (h : subB a b = true) : a.Sub b := by
  intro e he
  simp only [subB, List.all_eq_true, List.any_eq_true] at h
  obtain ⟨e', he', hm⟩ := h e he
  simp only [matchB, Bool.and_eq_true, decide_eq_true_eq] at hm
  exact ⟨e', he', hm.1.1.1.1, compEqB_sound hm.1.1.1.2, hm.1.1.2, hm.1.2, hm.2⟩

/-- the two final states have the same structure … -/
theorem ex_same : (s0b.run hA).abs.Same (s0b.run hB).abs :=
  ⟨sub_of_subB (by decide +kernel), sub_of_subB (by decide +kernel), by decide +kernel, by decide +kernel,
   by decide +kernel, by decide +kernel⟩

theorem ex_name : (s0b.run hB).name = (s0b.run hA).name := by decide +kernel

theorem ex_topoA : ValidTopo (s0b.run hA) [0, 1, 2, 3] := C16F.validTopo_of_check (by decide +kernel)
theorem ex_topoB : ValidTopo (s0b.run hB) [0, 1, 4, 2] := C16F.validTopo_of_check (by decide +kernel)

/-- … their components are outputs of the constructor model, with non-empty names -/
theorem ex_built : ∀ p ∈ (s0b.run hA).comps, Built p.2 := by
  have h : ((s0b.run hA).comps.all fun p => compEqB p.2 (wSrc p.2.name) || compEqB p.2 (eLoss p.2.name) ||
      compEqB p.2 (eLoad p.2.name)) = true := by
    decide +kernel
  intro p hp
  have := List.all_eq_true.mp h p hp
  simp only [Bool.or_eq_true] at this
  rcases this with (h1 | h1) | h1 <;> rw [compEqB_sound h1]
  · exact wSrc_built _
  · exact eLoss_built _
  · exact eLoad_built _

theorem ex_ne : (s0b.run hA).comps ≠ [] := by
  intro e
  have : (s0b.run hA).comps.length = 4 := by decide +kernel
  rw [e] at this
  cases this

theorem ex_named : ∀ p ∈ (s0b.run hA).comps, p.2.name ≠ "" := by decide +kernel

/-- `toDesc_same` applies: the two descriptions are `SysEquivR`, their node lists permutations of each other -/
example : SysEquivR (s0b.run hB).toDesc (s0b.run hA).toDesc ∧
    (s0b.run hB).toDesc.nodes.Perm (s0b.run hA).toDesc.nodes :=
  histories_same_desc s0b_init s0b_init hA hB ex_name ex_same

/-- `toDesc_descWF_partial` applies, in the order by name that the valid index order `[0, 1, 4, 2]` gives -/
theorem ex_wfB : DescWF ["S", "B", "L", "K"] (s0b.run hB).toDesc := by
  have h := reachable_descWF_partial s0b_init hB
    (transfer_of_same ex_same ex_ne ex_built ex_named).2.1
    (transfer_of_same ex_same ex_ne ex_built ex_named).2.2
    ex_topoB
  have e : (s0b.run hB).topoNames [0, 1, 4, 2] = ["S", "B", "L", "K"] := by decide +kernel
  rwa [e] at h

theorem ex_wfA : DescWF ["S", "B", "L", "K"] (s0b.run hA).toDesc := by
  have h := reachable_descWF_partial s0b_init hA ex_built ex_named ex_topoA
  have e : (s0b.run hA).topoNames [0, 1, 2, 3] = ["S", "B", "L", "K"] := by decide +kernel
  rwa [e] at h

/-- **`histories_same_save_partial` applies**, for every library version string -/
theorem ex_save (ver : String) :
    ResEquivR (fromFile ver (save ver ((s0b.run hB).topoNames [0, 1, 4, 2]) (s0b.run hB).toDesc))
      (fromFile ver (save ver ((s0b.run hA).topoNames [0, 1, 2, 3]) (s0b.run hA).toDesc)) :=
  histories_same_save_partial s0b_init s0b_init hA hB ex_name ex_same ex_built ex_named ex_topoA ex_topoB ver

/-- the success branch is inhabited: for a version string that parses both documents load, to `SysEquivR` systems … -/
theorem ex_save_ok (ver : String) (hv : (parseVer ver).isSome = true) :
    ∃ d₁ d₂, fromFile ver (save ver ((s0b.run hA).topoNames [0, 1, 2, 3]) (s0b.run hA).toDesc) = .ok d₁ ∧
      fromFile ver (save ver ((s0b.run hB).topoNames [0, 1, 4, 2]) (s0b.run hB).toDesc) = .ok d₂ ∧
      SysEquivR d₂ d₁ ∧ d₁ = reloadedDesc ["S", "B", "L", "K"] (s0b.run hA).toDesc := by
  have e : (s0b.run hA).topoNames [0, 1, 2, 3] = ["S", "B", "L", "K"] := by decide +kernel
  have hg : (s0b.run hA).groups ≠ [] := by
    intro e
    have : (s0b.run hA).groups.length = 4 := by decide +kernel
    rw [e] at this; cases this
  have hr : (s0b.run hA).rails ≠ [] := by
    intro e
    have : (s0b.run hA).rails.length = 4 := by decide +kernel
    rw [e] at this; cases this
  have hsv := saveable_of_wf ver _ _ ex_wfA hv (encStrReg_ne_empty hg) (encStrReg_ne_empty hr)
  have h1 := roundtrip_explicit ver _ _ hsv (no_reserved_root ex_wfA (by decide +kernel))
  have := ex_save ver
  rw [e] at this
  rw [e]
  rw [h1] at this
  cases h2 : fromFile ver (save ver ((s0b.run hB).topoNames [0, 1, 4, 2]) (s0b.run hB).toDesc) with
  | error err => rw [h2] at this; exact absurd this id
  | ok d₂ =>
    rw [h2] at this
    exact ⟨_, d₂, h1, rfl, this, rfl⟩

/-- … and the error branch: a version string that does not parse stops both loads at the gate, with the same error -/
example (ver : String) (hv : parseVer ver = none) :
    fromFile ver (save ver ((s0b.run hA).topoNames [0, 1, 2, 3]) (s0b.run hA).toDesc) =
      .error (outside "version syntax") ∧
    fromFile ver (save ver ((s0b.run hB).topoNames [0, 1, 4, 2]) (s0b.run hB).toDesc) =
      .error (outside "version syntax") := by
  have := ex_save ver
  have e : (s0b.run hA).topoNames [0, 1, 2, 3] = ["S", "B", "L", "K"] := by decide +kernel
  have h1 := fromFile_save_toDesc (C14.legal_run (C14.legal_init s0b_init) hA) (C14.wf_always s0b_init hA)
    ex_ne ex_wfA ver (by decide +kernel)
  have hg : versionGate ver (.str ver : PV ℚ) = .error (outside "version syntax") := by
    simp only [versionGate, hv]
  rw [hg] at h1
  rw [e] at this ⊢
  rw [h1] at this ⊢
  cases h2 : fromFile ver (save ver ((s0b.run hB).topoNames [0, 1, 4, 2]) (s0b.run hB).toDesc) with
  | ok d => rw [h2] at this; exact absurd this id
  | error e₂ =>
    rw [h2] at this
    exact ⟨rfl, congrArg _ this⟩

/-- the two documents are not the same value: the children of `B` come in the other order, and so do the keys of
    the registries inside the `"system"` block -/
example :
    ((layoutOf ["S", "B", "L", "K"] (s0b.run hA).toDesc).map fun b =>
      (b.root.name, b.childs.map fun e => (e.1, e.2.map Node.name))) = [("S", [("S", ["B"]), ("B", ["K", "L"])])] ∧
    ((layoutOf ["S", "B", "L", "K"] (s0b.run hB).toDesc).map fun b =>
      (b.root.name, b.childs.map fun e => (e.1, e.2.map Node.name))) = [("S", [("S", ["B"]), ("B", ["L", "K"])])] := by
  refine ⟨by decide +kernel, by decide +kernel⟩

/-- the reload of the directly built system solves, in both phases … -/
theorem exA_reload_solves :
    ∃ T, ((reloadedDesc ["S", "B", "L", "K"] (s0b.run hA).toDesc).toSSys ["S", "B", "L", "K"]).solve exCfg "" 25 = .ok T := by
  cases hx : ((reloadedDesc ["S", "B", "L", "K"] (s0b.run hA).toDesc).toSSys ["S", "B", "L", "K"]).solve exCfg "" 25 with
  | ok T => exact ⟨T, rfl⟩
  | error e =>
    have : ((((reloadedDesc ["S", "B", "L", "K"] (s0b.run hA).toDesc).toSSys ["S", "B", "L", "K"]).solve exCfg "" 25).toOption.map
        (fun T => T.phases.length)).isSome = true := by decide +kernel
    rw [hx] at this; cases this

theorem ex_namesB : (s0b.run hB).toDesc.names = ["S", "K", "L", "B"] := by decide +kernel

theorem ex_tpB_order : ∀ n ∈ (s0b.run hB).toDesc.nodes, ∀ p ∈ n.parents,
    List.idxOf p ["S", "B", "K", "L"] < List.idxOf n.name ["S", "B", "K", "L"] := by decide +kernel

/-- another processing order for the reloaded second system -/
theorem ex_tpB : TopoOK ["S", "B", "K", "L"] (s0b.run hB).toDesc := by
  refine ⟨by decide, ?_, ex_tpB_order⟩
  intro x
  rw [ex_namesB]
  simp only [List.mem_cons, List.not_mem_nil, or_false]
  tauto

/-- … hence (`histories_same_save_same_table_partial`) the reload of the system built by the detour — saved from
    another node numbering, processed in another order — solves to the same table up to row order -/
example (ver : String) (hv : (parseVer ver).isSome = true) :
    ∃ d₁ d₂ T T', fromFile ver (save ver ((s0b.run hA).topoNames [0, 1, 2, 3]) (s0b.run hA).toDesc) = .ok d₁ ∧
      fromFile ver (save ver ((s0b.run hB).topoNames [0, 1, 4, 2]) (s0b.run hB).toDesc) = .ok d₂ ∧
      (d₁.toSSys ["S", "B", "L", "K"]).solve exCfg "" 25 = .ok T ∧
      (d₂.toSSys ["S", "B", "K", "L"]).solve exCfg "" 25 = .ok T' ∧
      List.Forall₂ (fun p p' => p'.1 = p.1 ∧ PTRel p.2 p'.2) T.phases T'.phases ∧ T'.avg = T.avg := by
  obtain ⟨d₁, d₂, hd₁, hd₂, _, rfl⟩ := ex_save_ok ver hv
  obtain ⟨T, hT⟩ := exA_reload_solves
  obtain ⟨_, T', hT', hrows, havg⟩ := histories_same_save_same_table_partial s0b_init s0b_init hA hB ex_name ex_same
    ex_built ex_named ex_topoA ex_topoB ver hd₁ hd₂ ex_wfA.topoOK ex_tpB exCfg (by norm_num [exCfg]) "" 25 T hT
  exact ⟨_, d₂, T, T', hd₁, hd₂, hT, hT', hrows, havg⟩

end witness

end C16S
end SysLoss
