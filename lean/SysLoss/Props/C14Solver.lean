/-
  Props/C14Solver — composition C14 → C02 / C04 / C07: the structural side conditions of the solver-level
  theorems hold for the solver's view of EVERY reachable `System`.

  `Props/C14` proves that every state reached by any edit history satisfies `abs.WF` (and `Legal`);
  `Props/C02Table`, `Props/C07Total`, `Props/C04Tree`, … prove their statements about the model's own solver
  and table assembler ASSUMING a well-formed solver view (`C02.TreeWF`, `C07.SrcNamesDistinct`, `C07.NamesDistinct`,
  `C07.OneMux`, `C04.ChildsOK`, `C16R.RailsUnique`).  This file derives the second from the first for
  `Sys.toSSys s topo` (Props/C16: what `_rel_update()` / `_set_phase_lkup()` hand to the solver).

   1. `mkNode_parents_perm`      under `Sane ∧ WFr` the `_parents[n]` list the solver gets is a PERMUTATION of the
                                 graph's predecessor list (for a multi-input node: the recorded names resolve, each
                                 once, to ALL the predecessors — `WFr.inputs` plus `parentsOf_length`).
      `toSSys_treeWF`            `Legal s → s.abs.WF → ValidTopo s topo → C02.TreeWF (s.toSSys topo)`, all 12 fields.
   2. `toSSys_namesDistinct`, `toSSys_srcNamesDistinct`, `toSSys_oneMux`, `toSSys_muxInputsPlain`,
      `toSSys_childsOK` (every index, live or not), `toSSys_railsUnique` (re-export of `C16R.toSSys_railsUnique`),
      `toSSys_tableWF` (re-export) — each from `Legal ∧ WF (∧ ValidTopo)`.
   3. For REACHABLE states (`(s0.run h)` for any `Sys.init … = some s0` and ANY history `h`; `C14.legal_run`,
      `C14.wf_always`): `reachable_treeWF`, `reachable_structure` (all side conditions at once, for SOME / for
      every valid order), and the instantiations
        `reachable_table_balance_partial`      (`C02.table_balance_mux_partial`)
        `reachable_total_eff_le_100_partial`   (`C07.total_eff_le_100_table_partial`)
        `reachable_total_loss_le_power_partial`, `reachable_subsystem_loss_le_power_partial`,
        `reachable_subsystem_eff_le_100_partial` (`C07.*`, the one-PMux hypothesis discharged by C14's `oneMux`)
        `reachable_dead_rows`                  (`C04.dead_rows`; FULL: no `_partial` hypothesis is needed)
      with only the NON-structural hypotheses left.

  What is still assumed (made explicit as hypotheses), and why the `_partial` names stay:
   * `ValidTopo (s0.run h) topo` — `topo` is rustworkx's `topological_sort`, a parameter of the model, not
     verified.  It is satisfiable for every reachable state (`C16F.exists_validTopo`, used in `reachable_structure`).
   * `C02.CompsOK` of the view: accepted parameters (`Comp.Phys`) plus the exclusions of finding F01 (Source with
     `vo < 0` and `rs ≠ 0`) and F35 (Converter with `vo = 0`).  `compsOK_of_payloads` reduces it to the payloads
     of the live components (`s.comps`); an edit history may put any `Comp α` into the system, so this cannot be
     derived from reachability.
   * `C02.PhaseValOK` (phase values of loads ≥ 0) and `C02.Steady` (EXACT steady state of the sweeps).
   * `PayloadsOK s`, `ConfNonneg s` restate `CompsOK` / `PhaseValOK` on the `System` itself (live payloads, stored
     `phase_conf` values); `reachable_table_balance_of_payloads_partial` is the balance with these.
  Not covered: tolerance-converged states (Props/C02Conv), Props/C11System's `BuiltFrom` (a statement about
  constructor arguments, not about structure).


  A remark on `abs.WF`: its clause `inputsResolve` says that the recorded inputs of a multi-input node resolve,
  each once, to components that feed it — not that they cover ALL feeders.  Coverage (needed for `TreeWF.link`)
  holds because `_get_parents` reads exactly `len(predecessors)` recorded names (`parentsOf_length`): distinct,
  among the predecessors, as many as there are — hence a permutation (`parents_perm_preds`).

  Non-vacuity (kernel-evaluated, `decide +kernel`):
   (a) `hBq` = `C16.histB` lifted to `Comp ℚ` exactly as `C16F.hB` (other insertion order, a deleted subtree whose
       node indices are re-used, a rename, a per-phase load configured before the rename, phases declared last),
       the Source without series resistance so that the steady state is rational: `TreeWF`, the balance
       (5/6 W = 3/4 W + 1/12 W), total efficiency 90 %, subsystem rows.  The structural theorems are also
       instantiated on `C16F.s0q.run C16F.hB` as it stands.
   (b) `hM`: two sources, a PMux on [T (by rail), B], a rejected call, a rename of a mux input, a node index
       re-used, phases, S listed for "day" only; solved for "night": `TreeWF` with a two-input node, the balance
       with a PMux, `reachable_dead_rows` for B and L below the dead source S while T2 → M → K lives.
-/
import SysLoss.Props.C16Final
import SysLoss.Props.C16Rail
import SysLoss.Props.C02Table
import SysLoss.Props.C07Total
import SysLoss.Props.C04Tree

set_option linter.unusedSectionVars false
set_option linter.unusedVariables false
set_option linter.unusedSimpArgs false

namespace SysLoss
namespace C14S
open C16F C02

/-! ### 0. `_get_parents()[n]` lists ALL predecessors -/

section
variable {π ν : Type} [CompLike π]

/-- `_get_parents()[n]`, when it does not raise, has as many entries as `n` has predecessors -/
theorem parentsOf_length {s : Sys π ν} {n : Nat} {l : List (Option Nat)} (h : s.parentsOf n = .ok l) :
    l.length = (s.preds n).length := by
  unfold Sys.parentsOf at h
  by_cases hle : (s.preds n).length ≤ 1
  · simp only [hle, if_true, Except.ok.injEq] at h
    subst h; simp
  · simp only [hle, if_false] at h
    cases hp : dget s.pnames n with
    | none => simp [hp] at h
    | some pl =>
      simp only [hp] at h
      split at h
      · simp at h
      · next hlt =>
        rw [resolveAll_eq] at h
        rw [resolveList_length h, List.length_take]
        omega

/-- a list of `some`s is the image of its `filterMap id` -/
theorem eq_map_some_of_all_some {β : Type} : ∀ (l : List (Option β)), (∀ x ∈ l, ∃ q, x = some q) →
    l = (l.filterMap id).map some := by
  intro l
  induction l with
  | nil => intro _; rfl
  | cons a t ih =>
    intro h
    obtain ⟨q, rfl⟩ := h a (by simp)
    have := ih (fun x hx => h x (List.mem_cons_of_mem _ hx))
    show some q :: t = some q :: (t.filterMap id).map some
    rw [← this]

/-- the resolved inputs of a live node, `-1` entries dropped, are a permutation of its predecessors -/
theorem parents_perm_preds {s : Sys π ν} (hs : Sane s) (hr : WFr s) {p : Nat × π} (hp : p ∈ s.comps) :
    ∃ l, s.parentsOf p.1 = .ok l ∧ (l.filterMap id).Perm (s.preds p.1) := by
  by_cases hm : 1 < (s.preds p.1).length
  · obtain ⟨l, hl, hsub, hnd⟩ := hr.inputs p hp hm
    refine ⟨l, hl, ?_⟩
    have hlm : l = (l.filterMap id).map some :=
      eq_map_some_of_all_some l (fun x hx => by obtain ⟨q, _, rfl⟩ := hsub x hx; exact ⟨q, rfl⟩)
    have hnd' : (l.filterMap id).Nodup := by
      rw [hlm] at hnd
      exact List.Nodup.of_map _ hnd
    have hlen : (l.filterMap id).length = (s.preds p.1).length := by
      have := parentsOf_length hl
      rw [hlm, List.length_map] at this
      exact this
    have hsubset : l.filterMap id ⊆ s.preds p.1 := by
      intro x hx
      obtain ⟨o, ho, hox⟩ := List.mem_filterMap.mp hx
      obtain ⟨q, hq, rfl⟩ := hsub o ho
      simp only [id, Option.some.injEq] at hox
      exact hox ▸ hq
    exact (List.subperm_of_subset hnd' hsubset).perm_of_length_le (le_of_eq hlen.symm)
  · have hle : (s.preds p.1).length ≤ 1 := by omega
    refine ⟨_, parentsOf_single hle, ?_⟩
    rw [List.filterMap_map]
    simp
end

variable {α : Type} [Field α] [LinearOrder α] [IsStrictOrderedRing α]

/-- `_parents[n]` as the solver gets it is a permutation of the predecessor list of `n` -/
theorem mkNode_parents_perm {s : Sys (Comp α) α} (hs : Sane s) (hr : WFr s) {p : Nat × Comp α} (hp : p ∈ s.comps) :
    (s.mkNode p.1 p.2).parents.Perm (s.preds p.1) := by
  obtain ⟨l, hl, hperm⟩ := parents_perm_preds hs hr hp
  have : (s.mkNode p.1 p.2).parents = l.filterMap id := by simp [Sys.mkNode, hl, Except.toOption]
  rw [this]; exact hperm

/-- a live cell of the solver's view is `mkNode` of a live component -/
theorem node_inv {s : Sys (Comp α) α} {topo : List Nat} {n : Nat} {nd : SNode α}
    (h : (s.toSSys topo).node? n = some nd) : ∃ c, s.payload? n = some c ∧ (n, c) ∈ s.comps ∧ nd = s.mkNode n c := by
  rw [toSSys_node?] at h
  obtain ⟨c, hc, rfl⟩ := Option.map_eq_some_iff.mp h
  exact ⟨c, hc, mem_of_payload? hc, rfl⟩

theorem node_isSome {s : Sys (Comp α) α} {topo : List Nat} {n : Nat} :
    ((s.toSSys topo).node? n).isSome ↔ n ∈ s.ids := by
  rw [Option.isSome_iff_exists]; exact toSSys_live

/-! ### 1. `TreeWF` of the solver's view -/

/-- **C14 → C02**: the solver's view of a legal, well-formed state, swept in a valid topological order, is a
    well-formed tree in the sense of Props/C02Table -/
theorem toSSys_treeWF {s : Sys (Comp α) α} (hl : Legal s) (hw : s.abs.WF) {topo : List Nat} (ht : ValidTopo s topo) :
    TreeWF (s.toSSys topo) := by
  have hs := hl.sane
  have hr := wfr_of_wf_abs hs hw
  refine ⟨ht.nodup, ?_, ?_, ?_, ?_, ?_, ?_, ?_, ?_, ?_, ?_, ?_⟩
  · -- live
    intro n; rw [node_isSome]; exact ht.live n
  · -- bound
    intro n hn
    obtain ⟨nd, hnd⟩ := toSSys_live.mpr ((ht.live n).mp hn)
    exact C04.lt_hidx_of_node _ n nd hnd
  · -- order
    intro p c pd hpd hc
    obtain ⟨pc, _, _, rfl⟩ := node_inv hpd
    have hedge : (p, c) ∈ s.edges := mem_succs.mp hc
    have hct : c ∈ topo := (ht.live c).mpr (hs.edges_live _ hedge).2
    obtain ⟨pre, post, htopo⟩ := List.append_of_mem hct
    have hp : p ∈ pre := ht.order pre c post htopo p (mem_preds.mpr hedge)
    have hnd := ht.nodup
    rw [htopo] at hnd
    have hcn : c ∉ pre := by
      intro hc'
      have := (List.nodup_append.mp hnd).2.2 c hc' c (by simp)
      exact this rfl
    show (s.toSSys topo).topo.idxOf p < (s.toSSys topo).topo.idxOf c
    have e : (s.toSSys topo).topo = pre ++ c :: post := htopo
    rw [e, List.idxOf_append_of_mem hp, List.idxOf_append_of_notMem hcn, List.idxOf_cons_self]
    exact List.idxOf_lt_length_of_mem hp
  · -- parLive
    intro n nd hnd p hp
    obtain ⟨c, _, hc, rfl⟩ := node_inv hnd
    rw [node_isSome]
    exact (preds_live hs (((mkNode_parents_perm hs hr hc).mem_iff).mp hp)).1
  · -- chLive
    intro n nd hnd c hc
    obtain ⟨nc, _, _, rfl⟩ := node_inv hnd
    rw [node_isSome]
    exact (hs.edges_live _ (mem_succs.mp hc)).2
  · -- link
    intro p c pd cd hpd hcd
    obtain ⟨pc, _, _, rfl⟩ := node_inv hpd
    obtain ⟨cc, _, hcc, rfl⟩ := node_inv hcd
    rw [(mkNode_parents_perm hs hr hcc).mem_iff]
    show c ∈ s.succs p ↔ p ∈ s.preds c
    rw [mem_succs, mem_preds]
  · -- chNodup
    intro n nd hnd
    obtain ⟨c, _, _, rfl⟩ := node_inv hnd
    exact succs_nodup hs n
  · -- parNodup
    intro n nd hnd
    obtain ⟨c, _, hc, rfl⟩ := node_inv hnd
    exact (mkNode_parents_perm hs hr hc).nodup_iff.mpr (preds_nodup hs n)
  · -- rootSrc
    intro n nd hnd
    obtain ⟨c, _, hc, rfl⟩ := node_inv hnd
    have hperm := mkNode_parents_perm hs hr hc
    refine Iff.trans ?_ (hr.roots _ hc)
    constructor
    · intro h; rw [h] at hperm; exact List.perm_nil.mp hperm.symm
    · intro h; rw [h] at hperm; exact List.perm_nil.mp hperm
  · -- muxOnly
    intro n nd hnd hlen
    obtain ⟨c, _, hc, rfl⟩ := node_inv hnd
    rw [(mkNode_parents_perm hs hr hc).length_eq] at hlen
    exact hr.multi _ hc hlen
  · -- loadLeaf
    intro n nd hnd hload
    obtain ⟨c, hpc, hc, rfl⟩ := node_inv hnd
    show s.succs n = []
    apply List.eq_nil_iff_forall_not_mem.mpr
    intro k hk
    have hedge := mem_succs.mp hk
    obtain ⟨kc, hkc⟩ := payload?_of_mem_ids (hs.edges_live _ hedge).2
    exact accepts_not_load (hr.links (n, k) hedge c kc hpc hkc) hload

/-! ### 2. the other structural side conditions -/

/-- all component names of the view are distinct (C14 `namesDistinct`) -/
theorem toSSys_namesDistinct {s : Sys (Comp α) α} (hl : Legal s) (hw : s.abs.WF) (topo : List Nat) :
    C07.NamesDistinct (s.toSSys topo) := by
  have hs := hl.sane
  have hr := wfr_of_wf_abs hs hw
  intro n m nd md hn hm he
  obtain ⟨c, _, hc, rfl⟩ := node_inv hn
  obtain ⟨d, _, hd, rfl⟩ := node_inv hm
  exact congrArg Prod.fst (name_inj hr.names_nodup hc hd he)

theorem toSSys_srcNamesDistinct {s : Sys (Comp α) α} (hl : Legal s) (hw : s.abs.WF) (topo : List Nat) :
    C07.SrcNamesDistinct (s.toSSys topo) := (toSSys_namesDistinct hl hw topo).src

theorem eq_of_filter_length_le_one {β : Type} {l : List β} {q : β → Bool} (h : (l.filter q).length ≤ 1) {a b : β}
    (ha : a ∈ l) (hb : b ∈ l) (hqa : q a = true) (hqb : q b = true) : a = b := by
  have ha' : a ∈ l.filter q := List.mem_filter.mpr ⟨ha, hqa⟩
  have hb' : b ∈ l.filter q := List.mem_filter.mpr ⟨hb, hqb⟩
  cases hf : l.filter q with
  | nil => rw [hf] at ha'; cases ha'
  | cons x t =>
    cases t with
    | nil =>
      rw [hf] at ha' hb'
      simp only [List.mem_singleton] at ha' hb'
      rw [ha', hb']
    | cons y t' => rw [hf] at h; simp at h

/-- at most one PMux (C14 `oneMux`) -/
theorem toSSys_oneMux {s : Sys (Comp α) α} (hl : Legal s) (hw : s.abs.WF) (topo : List Nat) :
    C07.OneMux (s.toSSys topo) := by
  have hs := hl.sane
  have hr := wfr_of_wf_abs hs hw
  intro n m nd md hn hm hkn hkm
  obtain ⟨c, _, hc, rfl⟩ := node_inv hn
  obtain ⟨d, _, hd, rfl⟩ := node_inv hm
  have hkc : kindOfC c = .pmux := hkn
  have hkd : kindOfC d = .pmux := hkm
  have := eq_of_filter_length_le_one hr.one_mux hc hd (by simp [hkc]) (by simp [hkd])
  exact congrArg Prod.fst this

/-- no PMux above a PMux -/
theorem toSSys_muxInputsPlain {s : Sys (Comp α) α} (hl : Legal s) (hw : s.abs.WF) {topo : List Nat}
    (ht : ValidTopo s topo) : C07.MuxInputsPlain (s.toSSys topo) :=
  C07.muxInputsPlain_of_oneMux _ (toSSys_treeWF hl hw ht) (toSSys_oneMux hl hw topo)

/-- `ChildsOK` is a consequence of `TreeWF` (any solver view) -/
theorem childsOK_of_treeWF {s : SSys α} (hwf : TreeWF s) (n : Nat) : C04.ChildsOK s n := by
  intro nd hnd c hc cd hcd
  have hmem : n ∈ cd.parents := (hwf.link n c nd cd hnd hcd).mp hc
  refine ⟨hmem, (hwf.live c).mpr (by rw [hcd]; rfl), ?_⟩
  intro hk
  rw [(hwf.rootSrc c cd hcd).mpr hk] at hmem
  cases hmem

/-- the child lists are consistent with the parent lists at every index (live or not) -/
theorem toSSys_childsOK {s : Sys (Comp α) α} (hl : Legal s) (hw : s.abs.WF) {topo : List Nat}
    (ht : ValidTopo s topo) (n : Nat) : C04.ChildsOK (s.toSSys topo) n :=
  childsOK_of_treeWF (toSSys_treeWF hl hw ht) n

/-- re-exports, so that every structural side condition is found in one place -/
theorem toSSys_railsUnique {s : Sys (Comp α) α} (hl : Legal s) (hw : s.abs.WF) (topo : List Nat) :
    C16R.RailsUnique (s.toSSys topo) := C16R.toSSys_railsUnique hl hw topo

theorem toSSys_tableWF {s : Sys (Comp α) α} (hl : Legal s) (hw : s.abs.WF) {topo : List Nat}
    (ht : ValidTopo s topo) : C16R.TableWF (s.toSSys topo) := C16F.toSSys_tableWF hl hw ht

/-! ### 2′. the non-structural hypotheses, stated on the `System` instead of on the view -/

/-- accepted parameters for every live component, with the exclusions of findings F01 and F35 -/
structure PayloadsOK (s : Sys (Comp α) α) : Prop where
  phys : ∀ p ∈ s.comps, p.2.Phys
  f01  : ∀ p ∈ s.comps, p.2.kind = .source → 0 ≤ p.2.vo ∨ p.2.rs = 0
  conv : ∀ p ∈ s.comps, p.2.kind = .converter → p.2.vo ≠ 0

/-- `CompsOK` of the view is a statement about the live components only -/
theorem compsOK_of_payloads {s : Sys (Comp α) α} (h : PayloadsOK s) (topo : List Nat) : CompsOK (s.toSSys topo) where
  phys := by intro n nd hn; obtain ⟨c, _, hc, rfl⟩ := node_inv hn; exact h.phys _ hc
  f01 := by intro n nd hn; obtain ⟨c, _, hc, rfl⟩ := node_inv hn; exact h.f01 _ hc
  conv := by intro n nd hn; obtain ⟨c, _, hc, rfl⟩ := node_inv hn; exact h.conv _ hc

theorem payloads_of_compsOK {s : Sys (Comp α) α} (hs : Sane s) {topo : List Nat} (h : CompsOK (s.toSSys topo)) :
    PayloadsOK s := by
  have key : ∀ p ∈ s.comps, (s.toSSys topo).node? p.1 = some (s.mkNode p.1 p.2) := by
    intro p hp
    rw [toSSys_node?, payload?_of_mem hs hp]; rfl
  exact ⟨fun p hp => h.phys _ _ (key p hp), fun p hp => h.f01 _ _ (key p hp), fun p hp => h.conv _ _ (key p hp)⟩

/-- every value stored in a dict-form `phase_conf` entry is non-negative -/
def ConfNonneg (s : Sys (Comp α) α) : Prop :=
  ∀ kv ∈ s.phaseConf, ∀ t, kv.2 = PhaseConf.table t → ∀ e ∈ t, 0 ≤ e.2

theorem lookup_mem {β : Type} : ∀ (t : List (String × β)) (k : String) (x : β), t.lookup k = some x → (k, x) ∈ t := by
  intro t
  induction t with
  | nil => intro k x h; simp at h
  | cons a t ih =>
    intro k x h
    obtain ⟨k', y⟩ := a
    rw [List.lookup_cons] at h
    by_cases hk : k = k'
    · subst hk
      simp only [beq_self_eq_true, Option.some.injEq] at h
      subst h; simp
    · have : (k == k') = false := by simpa using hk
      rw [this] at h
      exact List.mem_cons_of_mem _ (ih k x h)

/-- `PhaseValOK` for every node and EVERY phase from the stored configurations -/
theorem phaseValOK_of_confNonneg {s : Sys (Comp α) α} (h : ConfNonneg s) (topo : List Nat) (phase : String) :
    ∀ n nd, (s.toSSys topo).node? n = some nd → PhaseValOK (nd.pconf.ctx phase) := by
  intro n nd hn
  obtain ⟨c, _, hc, rfl⟩ := node_inv hn
  show PhaseValOK (((s.phaseLkup n).getD (.table [])).ctx phase)
  intro _ hlisted
  cases hlk : s.phaseLkup n with
  | none =>
    rw [hlk] at hlisted
    simp [PhaseConf.ctx] at hlisted
  | some pc =>
    simp only [Option.getD_some]
    cases pc with
    | names l => simp [PhaseConf.ctx]
    | table t =>
      unfold Sys.phaseLkup at hlk
      obtain ⟨kv, hkv, hkv2⟩ := Option.map_eq_some_iff.mp hlk
      have hmem : kv ∈ s.phaseConf := (List.mem_filter.mp (List.mem_of_getLast? hkv)).1
      simp only [PhaseConf.ctx]
      cases hlook : t.lookup phase with
      | none => simp
      | some x =>
        simp only [Option.getD_some]
        exact h kv hmem t hkv2 (phase, x) (lookup_mem t phase x hlook)

/-! ### 3. reachable states -/

section
variable {name : String} {src : Comp α} {g r : String} {s0 : Sys (Comp α) α}

/-- **every reachable system is a well-formed tree for the solver**: whatever calls (accepted or rejected) are
    made on a constructed `System`, the view handed to the solver satisfies `C02.TreeWF` -/
theorem reachable_treeWF (h0 : Sys.init name src g r = some s0) (h : List (Op (Comp α) α)) {topo : List Nat}
    (ht : ValidTopo (s0.run h) topo) : TreeWF ((s0.run h).toSSys topo) :=
  toSSys_treeWF (C14.legal_run (C14.legal_init h0) h) (C14.wf_always h0 h) ht

/-- all structural side conditions of the solver-level theorems, for every valid order of every reachable state -/
theorem reachable_structure (h0 : Sys.init name src g r = some s0) (h : List (Op (Comp α) α)) {topo : List Nat}
    (ht : ValidTopo (s0.run h) topo) :
    let v := (s0.run h).toSSys topo
    TreeWF v ∧ C16R.TableWF v ∧ C07.NamesDistinct v ∧ C07.SrcNamesDistinct v ∧ C07.OneMux v ∧
      C07.MuxInputsPlain v ∧ C16R.RailsUnique v ∧ ∀ n, C04.ChildsOK v n := by
  have hl := C14.legal_run (C14.legal_init h0) h
  have hw := C14.wf_always h0 h
  exact ⟨toSSys_treeWF hl hw ht, toSSys_tableWF hl hw ht, toSSys_namesDistinct hl hw topo,
    toSSys_srcNamesDistinct hl hw topo, toSSys_oneMux hl hw topo, toSSys_muxInputsPlain hl hw ht,
    toSSys_railsUnique hl hw topo, toSSys_childsOK hl hw ht⟩

/-- … and a valid order exists for every reachable state, so the statement is never vacuous -/
theorem reachable_structure_exists (h0 : Sys.init name src g r = some s0) (h : List (Op (Comp α) α)) :
    ∃ topo, ValidTopo (s0.run h) topo ∧ TreeWF ((s0.run h).toSSys topo) ∧
      C07.NamesDistinct ((s0.run h).toSSys topo) ∧ C07.OneMux ((s0.run h).toSSys topo) ∧
      ∀ n, C04.ChildsOK ((s0.run h).toSSys topo) n := by
  obtain ⟨topo, ht⟩ := exists_validTopo (C14.legal_run (C14.legal_init h0) h).sane
  obtain ⟨a, _, b, _, c, _, _, d⟩ := reachable_structure h0 h ht
  exact ⟨topo, ht, a, b, c, d⟩

/-- **C14 → C02, whole-table energy balance of any reachable system.**  In an exact steady state of the sweeps of
    ANY system reached by any edit history — PMux included —
        Σ_{SOURCE rows} Power = Σ_{LOAD rows} (Power + Loss) + Σ_{other rows} Loss.
    Hypotheses left: `topo` is a valid order (rustworkx, parameter); accepted parameters with the exclusions of
    F01 / F35 (`CompsOK`, see `compsOK_of_payloads`); phase values ≥ 0; exact steady state. -/
theorem reachable_table_balance_partial (h0 : Sys.init name src g r = some s0) (h : List (Op (Comp α) α))
    {topo : List Nat} (ht : ValidTopo (s0.run h) topo) (hok : CompsOK ((s0.run h).toSSys topo))
    (phase : String) (hpv : ∀ n nd, ((s0.run h).toSSys topo).node? n = some nd → PhaseValOK (nd.pconf.ctx phase))
    (ta : α) (v i : Vec α) (st : St) (hst : Steady ((s0.run h).toSSys topo) phase v i st) :
    let rows := ((s0.run h).toSSys topo).compRows phase ta v i st
    ((rows.filter (·.typ == "SOURCE")).map rP).sum
      = ((rows.filter (·.typ == "LOAD")).map fun r => rP r + rL r).sum
        + ((rows.filter (·.typ != "LOAD")).map rL).sum :=
  table_balance_mux_partial _ (reachable_treeWF h0 h ht) hok phase hpv ta v i st hst

/-- the same with the hypotheses stated on the `System` (live payloads, stored phase configurations) -/
theorem reachable_table_balance_of_payloads_partial (h0 : Sys.init name src g r = some s0)
    (h : List (Op (Comp α) α)) {topo : List Nat} (ht : ValidTopo (s0.run h) topo) (hok : PayloadsOK (s0.run h))
    (hpv : ConfNonneg (s0.run h)) (phase : String)
    (ta : α) (v i : Vec α) (st : St) (hst : Steady ((s0.run h).toSSys topo) phase v i st) :
    let rows := ((s0.run h).toSSys topo).compRows phase ta v i st
    ((rows.filter (·.typ == "SOURCE")).map rP).sum
      = ((rows.filter (·.typ == "LOAD")).map fun r => rP r + rL r).sum
        + ((rows.filter (·.typ != "LOAD")).map rL).sum :=
  reachable_table_balance_partial h0 h ht (compsOK_of_payloads hok topo) phase
    (phaseValOK_of_confNonneg hpv topo phase) ta v i st hst

/-- **C14 → C07, "System total" of any reachable system**: `0 ≤ Loss ≤ Power` -/
theorem reachable_total_loss_le_power_partial (h0 : Sys.init name src g r = some s0) (h : List (Op (Comp α) α))
    {topo : List Nat} (ht : ValidTopo (s0.run h) topo) (hok : CompsOK ((s0.run h).toSSys topo))
    (phase : String) (hpv : ∀ n nd, ((s0.run h).toSSys topo).node? n = some nd → PhaseValOK (nd.pconf.ctx phase))
    (ta : α) (v i : Vec α) (st : St) (hst : Steady ((s0.run h).toSSys topo) phase v i st) :
    ∃ P L, (((s0.run h).toSSys topo).phaseTable phase ta v i st).total.pwr = some P ∧
      (((s0.run h).toSSys topo).phaseTable phase ta v i st).total.loss = some L ∧ 0 ≤ L ∧ L ≤ P :=
  C07.total_loss_le_power_partial _ (reachable_treeWF h0 h ht)
    (toSSys_srcNamesDistinct (C14.legal_run (C14.legal_init h0) h) (C14.wf_always h0 h) topo) hok phase hpv ta v i st hst

/-- **C14 → C07, "System total" of any reachable system**: the efficiency cell is a number in [0, 100].
    Hypotheses left: valid `topo`, `CompsOK` (F01 / F35 excluded), phase values ≥ 0, exact steady state.
    `SrcNamesDistinct` — a hypothesis of `C07.total_eff_le_100_table_partial` — is discharged by C14. -/
theorem reachable_total_eff_le_100_partial (h0 : Sys.init name src g r = some s0) (h : List (Op (Comp α) α))
    {topo : List Nat} (ht : ValidTopo (s0.run h) topo) (hok : CompsOK ((s0.run h).toSSys topo))
    (phase : String) (hpv : ∀ n nd, ((s0.run h).toSSys topo).node? n = some nd → PhaseValOK (nd.pconf.ctx phase))
    (ta : α) (v i : Vec α) (st : St) (hst : Steady ((s0.run h).toSSys topo) phase v i st) :
    ∃ e, (((s0.run h).toSSys topo).phaseTable phase ta v i st).total.eff = some e ∧ 0 ≤ e ∧ e ≤ 100 :=
  C07.total_eff_le_100_table_partial _ (reachable_treeWF h0 h ht)
    (toSSys_srcNamesDistinct (C14.legal_run (C14.legal_init h0) h) (C14.wf_always h0 h) topo) hok phase hpv ta v i st hst

/-- **every "Subsystem" row of any reachable system**: `0 ≤ Loss ≤ Power`.  `NamesDistinct` and the one-PMux
    condition of `C07.subsystem_loss_le_power_oneMux_partial` are discharged by C14. -/
theorem reachable_subsystem_loss_le_power_partial (h0 : Sys.init name src g r = some s0)
    (h : List (Op (Comp α) α)) {topo : List Nat} (ht : ValidTopo (s0.run h) topo)
    (hok : CompsOK ((s0.run h).toSSys topo)) (phase : String)
    (hpv : ∀ n nd, ((s0.run h).toSSys topo).node? n = some nd → PhaseValOK (nd.pconf.ctx phase))
    (ta : α) (v i : Vec α) (st : St) (hst : Steady ((s0.run h).toSSys topo) phase v i st) :
    ∀ sub ∈ (((s0.run h).toSSys topo).phaseTable phase ta v i st).subs,
      ∃ P L, sub.pwr = some P ∧ sub.loss = some L ∧ 0 ≤ L ∧ L ≤ P :=
  C07.subsystem_loss_le_power_oneMux_partial _ (reachable_treeWF h0 h ht)
    (toSSys_namesDistinct (C14.legal_run (C14.legal_init h0) h) (C14.wf_always h0 h) topo)
    (toSSys_oneMux (C14.legal_run (C14.legal_init h0) h) (C14.wf_always h0 h) topo) hok phase hpv ta v i st hst

/-- … and its efficiency cell is in [0, 100] -/
theorem reachable_subsystem_eff_le_100_partial (h0 : Sys.init name src g r = some s0)
    (h : List (Op (Comp α) α)) {topo : List Nat} (ht : ValidTopo (s0.run h) topo)
    (hok : CompsOK ((s0.run h).toSSys topo)) (phase : String)
    (hpv : ∀ n nd, ((s0.run h).toSSys topo).node? n = some nd → PhaseValOK (nd.pconf.ctx phase))
    (ta : α) (v i : Vec α) (st : St) (hst : Steady ((s0.run h).toSSys topo) phase v i st) :
    ∀ sub ∈ (((s0.run h).toSSys topo).phaseTable phase ta v i st).subs, ∃ e, sub.eff = some e ∧ 0 ≤ e ∧ e ≤ 100 :=
  C07.subsystem_eff_le_100_partial _ (reachable_treeWF h0 h ht)
    (toSSys_namesDistinct (C14.legal_run (C14.legal_init h0) h) (C14.wf_always h0 h) topo)
    (toSSys_muxInputsPlain (C14.legal_run (C14.legal_init h0) h) (C14.wf_always h0 h) ht) hok phase hpv ta v i st hst

/-- **C14 → C04, dead rows of any reachable system.**  In a steady state (pointwise form `C04.Steady`) of any
    reachable system, the table row of every node below an element at 0 V shows
    `Vin = Vout = Iin = Iout = Power = Loss = 0`.  FULL: the structural hypothesis `ChildsOK` of `C04.dead_rows` is
    discharged; no hypothesis on the component parameters is needed.  (`Below` is the statement's own notion of
    "below `d`", not a side condition.) -/
theorem reachable_dead_rows (h0 : Sys.init name src g r = some s0) (h : List (Op (Comp α) α))
    {topo : List Nat} (ht : ValidTopo (s0.run h) topo) (phase : String) (ta : α) (v i : Vec α) (st : St)
    (hst : C04.Steady ((s0.run h).toSSys topo) phase v i st) (d : Nat) (hdead : vget v d = 0)
    (n : Nat) (hb : C04.Below ((s0.run h).toSSys topo) v d n) (dom : String) :
    let row := (((s0.run h).toSSys topo).compRow phase ta v i st n dom).1
    row.vin = some 0 ∧ row.vout = some 0 ∧ row.iin = some 0 ∧ row.iout = some 0 ∧
      row.pwr = some 0 ∧ row.loss = some 0 :=
  C04.dead_rows _ phase ta v i st hst d hdead n hb
    (toSSys_childsOK (C14.legal_run (C14.legal_init h0) h) (C14.wf_always h0 h) ht n) dom

/-- `reachable_dead_rows` for a fixed point of the solver's two sweeps -/
theorem reachable_dead_rows_of_sweeps (h0 : Sys.init name src g r = some s0) (h : List (Op (Comp α) α))
    {topo : List Nat} (ht : ValidTopo (s0.run h) topo) (phase : String) (ta : α) (v i : Vec α) (st st' : St)
    (hf : ((s0.run h).toSSys topo).fwdProp phase v i st = .ok (v, st'))
    (hbk : ((s0.run h).toSSys topo).backProp phase v i st = i) (d : Nat) (hdead : vget v d = 0)
    (n : Nat) (hb : C04.Below ((s0.run h).toSSys topo) v d n) (dom : String) :
    let row := (((s0.run h).toSSys topo).compRow phase ta v i st n dom).1
    row.vin = some 0 ∧ row.vout = some 0 ∧ row.iin = some 0 ∧ row.iout = some 0 ∧
      row.pwr = some 0 ∧ row.loss = some 0 :=
  reachable_dead_rows h0 h ht phase ta v i st (C04.steady_of_sweeps _ phase v i st st' hf hbk) d hdead n hb dom

end

/-! ### non-vacuity

  (a) `C16.histB` of Props/C16 / C16Final — S → B → {K, L} built by a detour (other insertion order, a deleted
      subtree whose node indices are re-used, a rename, a deletion), K's per-phase power set before the rename,
      the phases declared at the end — with `Comp ℚ` payloads (Source 5 V, Converter 3 V / 90 %, PLoad 0.5 W).
  (b) `hM`: two sources, a PMux on [T (addressed by its rail), B], a rejected call, a rename of a mux input, a
      node index re-used, phases, S active by day only.  Solved at night: S, B, L are dead, T → M → K lives. -/

/-- solver payload for a light component (the source without series resistance: the steady state is rational) -/
def liftQ (c : PComp) : Comp ℚ :=
  match c.kind with
  | .source => { name := c.name, kind := .source, vo := 5, par := .const 0 }
  | .converter => { name := c.name, kind := .converter, vo := 3, par := .const (9/10), iq := 1/1000 }
  | k => { name := c.name, kind := k, pwr := 1/2, par := .const 0 }

def liftOpQ : Op PComp String → Op (Comp ℚ) ℚ
  | .addSource c g r => .addSource (liftQ c) g r
  | .addComp p c g r => .addComp p (liftQ c) g r
  | .changeComp x c g r => .changeComp x (liftQ c) g r
  | .delComp x d => .delComp x d
  | .setSysPhases ph => .setSysPhases (ph.map fun p => (p.1, 0))
  | .setCompPhases x _ => .setCompPhases x .bad

/-- `System("s", Source("S", vo=5))` -/
def sq : Sys (Comp ℚ) ℚ :=
  { name := "s", comps := [(0, liftQ (C14.src "S"))], edges := [], free := [], next := 1, nodes := [("S", 0)],
    phaseConf := [("S", .table [])], groups := [("S", "")], rails := [("S", "")], pnames := [(0, [])], phases := [] }

theorem sq_init : Sys.init "s" (liftQ (C14.src "S")) "" "" = some sq := rfl

/-- the payloads `liftQ` makes of the kinds used below are accepted, and outside F01 / F35 -/
theorem liftQ_ok (c : PComp) (hk : c.kind = .source ∨ c.kind = .converter ∨ c.kind = .pload ∨ c.kind = .pmux) :
    (liftQ c).Phys ∧ ((liftQ c).kind = .source → 0 ≤ (liftQ c).vo ∨ (liftQ c).rs = 0) ∧
      ((liftQ c).kind = .converter → (liftQ c).vo ≠ 0) := by
  rcases hk with hk | hk | hk | hk <;>
  · refine ⟨?_, ?_, ?_⟩
    · constructor <;> simp [liftQ, hk, Comp.muxRs, Param.Nonneg, Param.interp] <;> norm_num
    · simp [liftQ, hk]
    · simp [liftQ, hk]

/-- executable test: every live payload is `liftQ` of a source / converter / pload / pmux -/
def liftedB (s : Sys (Comp ℚ) ℚ) : Bool :=
  s.comps.all fun p => compEqB p.2 (liftQ { name := p.2.name, kind := p.2.kind }) &&
    (decide (p.2.kind = .source) || decide (p.2.kind = .converter) || decide (p.2.kind = .pload) ||
      decide (p.2.kind = .pmux))

theorem payloadsOK_of_liftedB {s : Sys (Comp ℚ) ℚ} (h : liftedB s = true) : PayloadsOK s := by
  have key : ∀ p ∈ s.comps, p.2.Phys ∧ (p.2.kind = .source → 0 ≤ p.2.vo ∨ p.2.rs = 0) ∧
      (p.2.kind = .converter → p.2.vo ≠ 0) := by
    intro p hp
    simp only [liftedB, List.all_eq_true, Bool.and_eq_true, Bool.or_eq_true, decide_eq_true_eq] at h
    obtain ⟨he, hk⟩ := h p hp
    rw [compEqB_sound he]
    apply liftQ_ok
    rcases hk with ((hk | hk) | hk) | hk
    · exact Or.inl hk
    · exact Or.inr (Or.inl hk)
    · exact Or.inr (Or.inr (Or.inl hk))
    · exact Or.inr (Or.inr (Or.inr hk))
  exact ⟨fun p hp => (key p hp).1, fun p hp => (key p hp).2.1, fun p hp => (key p hp).2.2⟩

/-- executable form of `ConfNonneg` -/
def confNonnegB (s : Sys (Comp ℚ) ℚ) : Bool :=
  s.phaseConf.all fun kv => match kv.2 with
    | .table t => t.all fun e => decide (0 ≤ e.2)
    | .names _ => true

theorem confNonneg_of_b {s : Sys (Comp ℚ) ℚ} (h : confNonnegB s = true) : ConfNonneg s := by
  intro kv hkv t ht e he
  simp only [confNonnegB, List.all_eq_true] at h
  have := h kv hkv
  rw [ht] at this
  simp only [List.all_eq_true, decide_eq_true_eq] at this
  exact this e he

/-! #### (a) the detour history of Props/C16Final -/

/-- `C16.histB` lifted, K configured before the rename and the deletion, the phases declared at the end
    (`C16F.hB` with the payloads of `liftQ`) -/
def hBq : List (Op (Comp ℚ) ℚ) :=
  (C16.histB.take 7).map liftOpQ ++ [exKconf] ++ (C16.histB.drop 7).map liftOpQ ++ [exPhases]

/-- node 3 is a freed index, the rows come in an order that is not the index order -/
theorem aTopo : ValidTopo (sq.run hBq) [0, 1, 4, 2] := validTopo_of_check (by decide +kernel)

def aV : Vec ℚ := #[5, 3, 0, 0, 0]
def aI : Vec ℚ := #[1/6, 1/6, 1/12, 0, 1/6]
def aSt : St := #[[false], [false], [false], [], [false]]

example : (sq.run hBq).ids = [0, 1, 2, 4] ∧ (sq.run hBq).nameOf 2 = some "K" ∧ (sq.run hBq).nameOf 4 = some "L" ∧
    (sq.run hBq).succs 1 = [2, 4] := by decide +kernel

/-- `toSSys_treeWF` / `reachable_treeWF` apply: no hypothesis about the state is left -/
example : TreeWF ((sq.run hBq).toSSys [0, 1, 4, 2]) := reachable_treeWF sq_init hBq aTopo

example : ∃ topo, ValidTopo (sq.run hBq) topo ∧ TreeWF ((sq.run hBq).toSSys topo) ∧
    C07.NamesDistinct ((sq.run hBq).toSSys topo) ∧ C07.OneMux ((sq.run hBq).toSSys topo) ∧
    ∀ n, C04.ChildsOK ((sq.run hBq).toSSys topo) n := reachable_structure_exists sq_init hBq

/-- the structural theorems also apply to the payloads of Props/C16Final as they stand (`C16F.s0q`, `C16F.hB`) -/
example : TreeWF ((s0q.run hB).toSSys [0, 1, 4, 2]) ∧ C07.NamesDistinct ((s0q.run hB).toSSys [0, 1, 4, 2]) ∧
    C07.OneMux ((s0q.run hB).toSSys [0, 1, 4, 2]) :=
  ⟨(reachable_structure s0q_init hB ex_topoB).1, (reachable_structure s0q_init hB ex_topoB).2.2.1,
   (reachable_structure s0q_init hB ex_topoB).2.2.2.2.1⟩

theorem aPayloads : PayloadsOK (sq.run hBq) := payloadsOK_of_liftedB (by decide +kernel)
theorem aConf : ConfNonneg (sq.run hBq) := confNonneg_of_b (by decide +kernel)

/-- phase "run": 5 V / 3 V, K draws 0.25 W (its per-phase value), L 0.5 W, the converter 1/6 A -/
theorem aSteady : Steady ((sq.run hBq).toSSys [0, 1, 4, 2]) "run" aV aI aSt where
  fwd := ⟨aSt, by decide +kernel⟩
  back := by decide +kernel
  flag := by
    intro n h
    rcases n with _ | _ | _ | _ | _ | n
    · revert h; decide
    · revert h; decide
    · revert h; decide
    · revert h; decide
    · revert h; decide
    · simp [sget, aSt] at h

/-- non-vacuity of `reachable_table_balance_partial` (through its `System`-level form) … -/
example :
    let rows := ((sq.run hBq).toSSys [0, 1, 4, 2]).compRows "run" 25 aV aI aSt
    ((rows.filter (·.typ == "SOURCE")).map rP).sum
      = ((rows.filter (·.typ == "LOAD")).map fun r => rP r + rL r).sum
        + ((rows.filter (·.typ != "LOAD")).map rL).sum :=
  reachable_table_balance_of_payloads_partial sq_init hBq aTopo aPayloads aConf "run" 25 aV aI aSt aSteady

example :
    let rows := ((sq.run hBq).toSSys [0, 1, 4, 2]).compRows "run" 25 aV aI aSt
    ((rows.filter (·.typ == "SOURCE")).map rP).sum
      = ((rows.filter (·.typ == "LOAD")).map fun r => rP r + rL r).sum
        + ((rows.filter (·.typ != "LOAD")).map rL).sum :=
  reachable_table_balance_partial sq_init hBq aTopo (compsOK_of_payloads aPayloads _) "run"
    (phaseValOK_of_confNonneg aConf _ "run") 25 aV aI aSt aSteady

/-- … and the three sums are 5/6 W = 3/4 W + 1/12 W, the rows in the order S, B, L, K -/
example :
    let rows := ((sq.run hBq).toSSys [0, 1, 4, 2]).compRows "run" 25 aV aI aSt
    rows.map (·.name) = ["S", "B", "L", "K"] ∧
    ((rows.filter (·.typ == "SOURCE")).map rP).sum = 5/6 ∧
    ((rows.filter (·.typ == "LOAD")).map fun r => rP r + rL r).sum = 3/4 ∧
    ((rows.filter (·.typ != "LOAD")).map rL).sum = 1/12 := by
  decide +kernel

/-- non-vacuity of `reachable_total_eff_le_100_partial` / `reachable_total_loss_le_power_partial` … -/
example : ∃ e, (((sq.run hBq).toSSys [0, 1, 4, 2]).phaseTable "run" 25 aV aI aSt).total.eff = some e ∧
    0 ≤ e ∧ e ≤ 100 :=
  reachable_total_eff_le_100_partial sq_init hBq aTopo (compsOK_of_payloads aPayloads _) "run"
    (phaseValOK_of_confNonneg aConf _ "run") 25 aV aI aSt aSteady

/-- … the cell is 90 % -/
example : (((sq.run hBq).toSSys [0, 1, 4, 2]).phaseTable "run" 25 aV aI aSt).total.eff = some 90 ∧
    (((sq.run hBq).toSSys [0, 1, 4, 2]).phaseTable "run" 25 aV aI aSt).total.pwr = some (5/6) ∧
    (((sq.run hBq).toSSys [0, 1, 4, 2]).phaseTable "run" 25 aV aI aSt).total.loss = some (1/12) := by
  decide +kernel

example : ∀ sub ∈ (((sq.run hBq).toSSys [0, 1, 4, 2]).phaseTable "run" 25 aV aI aSt).subs,
    ∃ e, sub.eff = some e ∧ 0 ≤ e ∧ e ≤ 100 :=
  reachable_subsystem_eff_le_100_partial sq_init hBq aTopo (compsOK_of_payloads aPayloads _) "run"
    (phaseValOK_of_confNonneg aConf _ "run") 25 aV aI aSt aSteady

/-! #### (b) two sources and a PMux, one source off at night -/

def hM : List (Op (Comp ℚ) ℚ) :=
  [ .addSource (liftQ (C14.src "T")) "g" "rT",                       -- node 1
    .addComp (.one "S") (liftQ (C14.conv "B")) "" "rB",              -- node 2
    .addComp (.many ["rT", "B"]) (liftQ (C14.mux "M")) "" "rM",      -- node 3, inputs [T (by rail), B]
    .addComp (.one "M") (liftQ (C14.pload "K")) "g" "",              -- node 4
    .addComp (.one "nosuch") (liftQ (C14.conv "X")) "" "",           -- rejected
    .changeComp "T" (liftQ (C14.src "T2")) "" "",                    -- rename a mux input recorded by its rail
    .addComp (.one "S") (liftQ (C14.pload "Q")) "" "",               -- node 5 …
    .delComp "Q" true,                                               -- … freed …
    .addComp (.one "rB") (liftQ (C14.pload "L")) "" "",              -- … and re-used: B → L
    .setSysPhases [("day", 1), ("night", 1)],
    .setCompPhases "S" (.conf (.names ["day"])) ]                    -- S is off at night

example : sq.outcomes hM = [.ok, .ok, .ok, .ok, .raised "ValueError", .ok, .ok, .ok, .ok, .ok, .ok] ∧
    (sq.run hM).edges = [(0, 2), (1, 3), (2, 3), (3, 4), (2, 5)] ∧ (sq.run hM).nameOf 1 = some "T2" ∧
    dget (sq.run hM).pnames 3 = some ["T2", "B"] := by decide +kernel

/-- the second source first: not the index order -/
theorem bTopo : ValidTopo (sq.run hM) [1, 0, 2, 3, 4, 5] := validTopo_of_check (by decide +kernel)

/-- `TreeWF` with a two-input node (`muxOnly`, `parNodup`, `link` through `mkNode_parents_perm`'s multi branch) -/
theorem bWF : TreeWF ((sq.run hM).toSSys [1, 0, 2, 3, 4, 5]) := reachable_treeWF sq_init hM bTopo

/-- the PMux's inputs in the recorded order -/
example : (((sq.run hM).toSSys [1, 0, 2, 3, 4, 5]).node? 3).map (·.parents) = some [1, 2] := by decide +kernel

def bV : Vec ℚ := #[0, 5, 0, 5, 0, 0]
def bI : Vec ℚ := #[0, 1/10, 0, 1/10, 1/10, 0]
def bSt : St := #[[true], [false], [true], [false], [false], [true]]

theorem bPayloads : PayloadsOK (sq.run hM) := payloadsOK_of_liftedB (by decide +kernel)
theorem bConf : ConfNonneg (sq.run hM) := confNonneg_of_b (by decide +kernel)

theorem bSteady : Steady ((sq.run hM).toSSys [1, 0, 2, 3, 4, 5]) "night" bV bI bSt where
  fwd := ⟨bSt, by decide +kernel⟩
  back := by decide +kernel
  flag := by
    intro n h
    rcases n with _ | _ | _ | _ | _ | _ | n
    · decide +kernel
    · revert h; decide
    · decide +kernel
    · revert h; decide
    · revert h; decide
    · decide +kernel
    · simp [sget, bSt] at h

/-- the balance with a PMux in a reachable system: 1/2 W from T2 = 1/2 W into K, everything else 0 -/
example :
    let rows := ((sq.run hM).toSSys [1, 0, 2, 3, 4, 5]).compRows "night" 25 bV bI bSt
    ((rows.filter (·.typ == "SOURCE")).map rP).sum
      = ((rows.filter (·.typ == "LOAD")).map fun r => rP r + rL r).sum
        + ((rows.filter (·.typ != "LOAD")).map rL).sum :=
  reachable_table_balance_of_payloads_partial sq_init hM bTopo bPayloads bConf "night" 25 bV bI bSt bSteady

example :
    let rows := ((sq.run hM).toSSys [1, 0, 2, 3, 4, 5]).compRows "night" 25 bV bI bSt
    rows.map (·.name) = ["T2", "S", "B", "M", "K", "L"] ∧
    ((rows.filter (·.typ == "SOURCE")).map rP).sum = 1/2 ∧
    ((rows.filter (·.typ == "LOAD")).map fun r => rP r + rL r).sum = 1/2 := by
  decide +kernel

example : ∃ e, (((sq.run hM).toSSys [1, 0, 2, 3, 4, 5]).phaseTable "night" 25 bV bI bSt).total.eff = some e ∧
    0 ≤ e ∧ e ≤ 100 :=
  reachable_total_eff_le_100_partial sq_init hM bTopo (compsOK_of_payloads bPayloads _) "night"
    (phaseValOK_of_confNonneg bConf _ "night") 25 bV bI bSt bSteady

example : ∀ sub ∈ (((sq.run hM).toSSys [1, 0, 2, 3, 4, 5]).phaseTable "night" 25 bV bI bSt).subs,
    ∃ P L, sub.pwr = some P ∧ sub.loss = some L ∧ 0 ≤ L ∧ L ≤ P :=
  reachable_subsystem_loss_le_power_partial sq_init hM bTopo (compsOK_of_payloads bPayloads _) "night"
    (phaseValOK_of_confNonneg bConf _ "night") 25 bV bI bSt bSteady

/-- executable form of `C04.Single` -/
def singleB {β : Type} (s : SSys β) (n p : Nat) : Bool :=
  match s.node? n with
  | some nd => s.topo.contains n && decide (nd.parents = [p]) && decide (nd.comp.kind ≠ .source) &&
      decide (nd.comp.kind ≠ .pmux)
  | none => false

theorem single_of_b (s : SSys α) (n p : Nat) (h : singleB s n p = true) : C04.Single s n p := by
  unfold singleB at h
  cases hnd : s.node? n with
  | none => rw [hnd] at h; cases h
  | some nd =>
    rw [hnd] at h
    simp only [Bool.and_eq_true, List.contains_iff_mem, decide_eq_true_eq] at h
    exact ⟨nd, h.1.1.1, hnd, h.1.1.2, h.1.2, h.2⟩

/-- B (node 2) hangs on the dead source S (node 0), L (node 5) on B -/
theorem bBelow : C04.Below ((sq.run hM).toSSys [1, 0, 2, 3, 4, 5]) bV 0 2 ∧
    C04.Below ((sq.run hM).toSSys [1, 0, 2, 3, 4, 5]) bV 0 5 := by
  have h2 : C04.Single ((sq.run hM).toSSys [1, 0, 2, 3, 4, 5]) 2 0 := single_of_b _ 2 0 (by decide +kernel)
  have h5 : C04.Single ((sq.run hM).toSSys [1, 0, 2, 3, 4, 5]) 5 2 := single_of_b _ 5 2 (by decide +kernel)
  exact ⟨.child h2, .step h5 (.child h2)⟩

/-- non-vacuity of `reachable_dead_rows`: the rows of B and L at night -/
example :
    let row := (((sq.run hM).toSSys [1, 0, 2, 3, 4, 5]).compRow "night" 25 bV bI bSt 5 "S").1
    row.vin = some 0 ∧ row.vout = some 0 ∧ row.iin = some 0 ∧ row.iout = some 0 ∧
      row.pwr = some 0 ∧ row.loss = some 0 :=
  reachable_dead_rows_of_sweeps sq_init hM bTopo "night" 25 bV bI bSt bSt (by decide +kernel) (by decide +kernel)
    0 (by decide +kernel) 5 bBelow.2 "S"

example :
    let row := (((sq.run hM).toSSys [1, 0, 2, 3, 4, 5]).compRow "night" 25 bV bI bSt 2 "S").1
    row.vin = some 0 ∧ row.vout = some 0 ∧ row.iin = some 0 ∧ row.iout = some 0 ∧
      row.pwr = some 0 ∧ row.loss = some 0 :=
  reachable_dead_rows sq_init hM bTopo "night" 25 bV bI bSt
    (C04.steady_of_sweeps _ "night" bV bI bSt bSt (by decide +kernel) (by decide +kernel))
    0 (by decide +kernel) 2 bBelow.1 "S"

end C14S
end SysLoss
