/-
  Props/C19Order — the diagram does not depend on the ORDER in which the components were inserted (C19 / C16:
  `make_diag` / `make_hdiag` are among the reports that must depend on the final structure only).

  Subject: `Diagram.diag` (Model/Diagram.lean).  Its inputs `comps` (`attrs["nodes"]`, insertion order), `edges`
  (`edge_indices()` order) and, in heat mode, the rows of `solve()` are all history dependent lists.  Here: re-ordering
  them changes the resulting `DotGraph` only by the order of its clusters, of the members of each cluster, of the
  top-level nodes and of the edges.

  Vocabulary (namespace `SysLoss.Diagram`):
    `AttrsEq a b`         two attribute lists are the same final key → value map (`aget`, last binding wins)
    `DNode.Equiv`         same identifier (hence the same `renderedId`, `DNode.Equiv.rendered`) and `AttrsEq` attributes
    `PermRel R l₁ l₂`     `l₁`, `l₂` are the same up to order, elements compared with `R`
    `DCluster.Equiv`      same identifier, label, attributes (`AttrsEq`), member nodes `PermRel DNode.Equiv`
    `DotGraph.Equiv`      same name, graph attributes, clusters / top-level nodes / edges up to order, same legend
    `DotGraph.equivB`     a Boolean checker, `DotGraph.equivB_sound : equivB d₁ d₂ = true → d₁.Equiv d₂`
  and (namespace `SysLoss.C19`):
    `ResEquiv r₁ r₂`      both calls raise, or both return and the graphs are `Equiv`
    `HeatSame h₁ h₂`      the two loss tables give every name the same `_prep_loss` row and have the same largest loss
                          (all `_diag` reads of them)

  Fully proved (no hypothesis beyond the permutations; unique names are NOT needed for a common loss table):
    diag_order_free          comps₁ ~ comps₂, edges₁ ~ edges₂ ⊢ ResEquiv (diag … comps₁ edges₁ cfg group heat)
                             (diag … comps₂ edges₂ cfg group heat) for every cfg / group / heat
    diag_order_free_heat     the same with two loss tables related by `HeatSame`
    heatSame_of_perm         loss tables whose (name, loss) rows are a permutation of each other, row names unique,
                             are `HeatSame`: the maximum, hence the mix `loss / max` and the colour of every node, and
                             the legend's label are order-free
    diag_order_free_rows     composition of the two: comps, edges and `solve()` rows all re-ordered
    diag_order_free_ok       the `.ok` form: a successful call stays successful, `Equiv` graph
    diag_nodes_perm, diag_edges_perm   node names / edges of the diagram of ANY re-ordering are a permutation of the
                             original component names (+ the same legend name) / of the original parent → child links
    legend_order_free        `freshScale` (`Scale`, `Scale_`, …) depends on the name list through membership only
                             (`freshScale_congr`), so the legend's name is the same for both orders
    maxOf_congr              `Series.max()` depends on the list through membership only
    DotGraph.Equiv.nodeNames_perm, .edges_perm, .clusters_perm, .node_attrs, .refl, .symm   what `Equiv` entails
    diag_node_attrs_order_free   every node of the one diagram is in the other, in the cluster of the same name or at
                             top level, with the same value of every attribute (fill colour and loss label included)
  Not equal across orders, and not claimed: WHICH exception is raised when several things are wrong at once
    (`error_order_dependent`: a cluster whose configuration carries a `label` and a node section without `default`:
    TypeError or KeyError depending on which group was seen first).  That a failure stays a failure is part of
    `ResEquiv`.
  Not covered: Graphviz' layout (node positions do depend on declaration order); that `attrs["nodes"]` / `edge_indices()`
    of two histories with the same final structure are permutations of each other is C16 (`Props/C16*.lean`).
-/
import SysLoss.Props.C19

set_option linter.unusedSectionVars false
set_option linter.unusedVariables false

namespace SysLoss
namespace Diagram

/-! ### the same diagram up to order -/

/-- the same final key → value map (what Graphviz sees of an attribute list: the last binding of a key) -/
def AttrsEq (a b : Attrs) : Prop := ∀ k, aget a k = aget b k

theorem AttrsEq.refl (a : Attrs) : AttrsEq a a := fun _ => rfl
theorem AttrsEq.symm {a b : Attrs} (h : AttrsEq a b) : AttrsEq b a := fun k => (h k).symm
theorem AttrsEq.trans {a b c : Attrs} (h : AttrsEq a b) (h' : AttrsEq b c) : AttrsEq a c :=
  fun k => (h k).trans (h' k)

def attrsEqB (a b : Attrs) : Bool := (a.map (·.1) ++ b.map (·.1)).all (fun k => aget a k == aget b k)

theorem aget_of_not_key (a : Attrs) (k : String) (h : k ∉ a.map (·.1)) : aget a k = none := by
  apply ahas_false_aget
  unfold ahas
  rw [List.any_eq_false]
  intro kv hkv hk
  exact h (List.mem_map.mpr ⟨kv, hkv, by simpa using hk⟩)

theorem attrsEqB_iff {a b : Attrs} : attrsEqB a b = true ↔ AttrsEq a b := by
  unfold attrsEqB AttrsEq
  simp only [List.all_eq_true, beq_iff_eq]
  constructor
  · intro h k
    by_cases hk : k ∈ a.map (·.1) ++ b.map (·.1)
    · exact h k hk
    · rw [List.mem_append, not_or] at hk
      rw [aget_of_not_key a k hk.1, aget_of_not_key b k hk.2]
  · intro h k _
    exact h k

instance (a b : Attrs) : Decidable (AttrsEq a b) := decidable_of_iff _ attrsEqB_iff

/-- `l₁` and `l₂` are the same up to order, elements compared with `R` -/
def PermRel {β γ : Type} (R : β → γ → Prop) (l₁ : List β) (l₂ : List γ) : Prop :=
  ∃ l₁' l₂', l₁.Perm l₁' ∧ l₂.Perm l₂' ∧ List.Forall₂ R l₁' l₂'

section PermRel
variable {β γ κ : Type}

theorem PermRel.of_perm {R : β → β → Prop} (hR : ∀ a, R a a) {l₁ l₂ : List β} (h : l₁.Perm l₂) :
    PermRel R l₁ l₂ :=
  ⟨l₂, l₂, h, .refl _, List.forall₂_same.mpr (fun a _ => hR a)⟩

theorem PermRel.of_map {R : β → γ → Prop} {f : κ → β} {g : κ → γ} {l₁ l₂ : List κ} (h : l₁.Perm l₂)
    (hR : ∀ a ∈ l₂, R (f a) (g a)) : PermRel R (l₁.map f) (l₂.map g) := by
  refine ⟨l₂.map f, l₂.map g, h.map f, .refl _, ?_⟩
  rw [List.forall₂_map_left_iff, List.forall₂_map_right_iff, List.forall₂_same]
  exact hR

theorem PermRel.mono {R R' : β → γ → Prop} (h : ∀ a b, R a b → R' a b) {l₁ : List β} {l₂ : List γ}
    (hp : PermRel R l₁ l₂) : PermRel R' l₁ l₂ := by
  obtain ⟨a, b, p1, p2, hf⟩ := hp
  exact ⟨a, b, p1, p2, hf.imp h⟩

theorem PermRel.symm {R : β → γ → Prop} {R' : γ → β → Prop} (h : ∀ a b, R a b → R' b a) {l₁ : List β}
    {l₂ : List γ} (hp : PermRel R l₁ l₂) : PermRel R' l₂ l₁ := by
  obtain ⟨a, b, p1, p2, hf⟩ := hp
  exact ⟨b, a, p2, p1, (hf.imp h).flip⟩

/-- with `=` as the element relation this is `List.Perm` -/
theorem permRel_eq_iff {l₁ l₂ : List β} : PermRel Eq l₁ l₂ ↔ l₁.Perm l₂ := by
  constructor
  · rintro ⟨a, b, p1, p2, hf⟩
    rw [List.forall₂_eq_eq_eq] at hf
    subst hf
    exact p1.trans p2.symm
  · exact PermRel.of_perm (fun _ => rfl)

/-- images under maps that agree on related elements are permutations of each other -/
theorem PermRel.map_perm {R : β → γ → Prop} {f : β → κ} {g : γ → κ} (h : ∀ a b, R a b → f a = g b)
    {l₁ : List β} {l₂ : List γ} (hp : PermRel R l₁ l₂) : (l₁.map f).Perm (l₂.map g) := by
  obtain ⟨a, b, p1, p2, hf⟩ := hp
  have e : a.map f = b.map g := by
    clear p1 p2
    induction hf with
    | nil => rfl
    | cons hab _ ih => simp [h _ _ hab, ih]
  exact (p1.map f).trans ((List.Perm.of_eq e).trans (p2.map g).symm)

theorem PermRel.flatMap_perm {R : β → γ → Prop} {f : β → List κ} {g : γ → List κ}
    (h : ∀ a b, R a b → (f a).Perm (g b)) {l₁ : List β} {l₂ : List γ} (hp : PermRel R l₁ l₂) :
    (l₁.flatMap f).Perm (l₂.flatMap g) := by
  obtain ⟨a, b, p1, p2, hf⟩ := hp
  have e : (a.flatMap f).Perm (b.flatMap g) := by
    clear p1 p2
    induction hf with
    | nil => exact .refl _
    | cons hab _ ih =>
      simp only [List.flatMap_cons]
      exact (h _ _ hab).append ih
  exact (p1.flatMap_right f).trans (e.trans (p2.flatMap_right g).symm)

/-- every element of the left list has a related element in the right list -/
theorem PermRel.exists_right {R : β → γ → Prop} {l₁ : List β} {l₂ : List γ} (hp : PermRel R l₁ l₂) :
    ∀ a ∈ l₁, ∃ b ∈ l₂, R a b := by
  obtain ⟨l₁', l₂', p1, p2, hf⟩ := hp
  intro a ha
  obtain ⟨b, hb, hab⟩ := forall₂_mem_right hf.flip a (p1.mem_iff.mp ha)
  exact ⟨b, p2.mem_iff.mpr hb, hab⟩

/-- a matcher: pick for the head of `l₁` some related element of `l₂`, remove it, go on -/
def permRelB [DecidableEq γ] (R : β → γ → Bool) : List β → List γ → Bool
  | [], l₂ => l₂.isEmpty
  | a :: t, l₂ => l₂.any (fun b => R a b && permRelB R t (l₂.erase b))

theorem permRelB_sound [DecidableEq γ] {R : β → γ → Bool} {R' : β → γ → Prop}
    (hR : ∀ a b, R a b = true → R' a b) :
    ∀ (l₁ : List β) (l₂ : List γ), permRelB R l₁ l₂ = true → PermRel R' l₁ l₂
  | [], l₂, h => by
    simp only [permRelB, List.isEmpty_iff] at h
    subst h
    exact ⟨[], [], .refl _, .refl _, .nil⟩
  | a :: t, l₂, h => by
    simp only [permRelB, List.any_eq_true, Bool.and_eq_true] at h
    obtain ⟨b, hb, hab, hrec⟩ := h
    obtain ⟨t', r', p1, p2, hf⟩ := permRelB_sound hR t (l₂.erase b) hrec
    exact ⟨a :: t', b :: r', p1.cons a, (List.perm_cons_erase hb).trans (p2.cons b), .cons (hR _ _ hab) hf⟩

end PermRel

/-- the same node: identifier and final attribute map -/
def DNode.Equiv (m n : DNode) : Prop := m.name = n.name ∧ AttrsEq m.attrs n.attrs

/-- the same edge: end points and final attribute map -/
def DEdge.Equiv (e f : DEdge) : Prop := e.src = f.src ∧ e.dst = f.dst ∧ AttrsEq e.attrs f.attrs

/-- the same cluster: identifier, label, final attribute map, the same member nodes up to order -/
def DCluster.Equiv (c d : DCluster) : Prop :=
  c.name = d.name ∧ c.label = d.label ∧ AttrsEq c.attrs d.attrs ∧ PermRel DNode.Equiv c.nodes d.nodes

def OptRel {β γ : Type} (R : β → γ → Prop) : Option β → Option γ → Prop
  | none, none => True
  | some a, some b => R a b
  | _, _ => False

/-- **the same diagram up to order**: name and graph attributes, the clusters up to order (each with the same
    members up to order), the top-level nodes up to order, the same legend, the edges up to order -/
structure DotGraph.Equiv (d₁ d₂ : DotGraph) : Prop where
  name : d₁.name = d₂.name
  attrs : AttrsEq d₁.attrs d₂.attrs
  clusters : PermRel DCluster.Equiv d₁.clusters d₂.clusters
  nodes : PermRel DNode.Equiv d₁.nodes d₂.nodes
  scale : OptRel DNode.Equiv d₁.scale d₂.scale
  edges : PermRel DEdge.Equiv d₁.edges d₂.edges

theorem DNode.Equiv.refl (n : DNode) : DNode.Equiv n n := ⟨rfl, AttrsEq.refl _⟩
theorem DNode.Equiv.symm {m n : DNode} (h : DNode.Equiv m n) : DNode.Equiv n m := ⟨h.1.symm, h.2.symm⟩
theorem DEdge.Equiv.refl (e : DEdge) : DEdge.Equiv e e := ⟨rfl, rfl, AttrsEq.refl _⟩
theorem DEdge.Equiv.symm {e f : DEdge} (h : DEdge.Equiv e f) : DEdge.Equiv f e :=
  ⟨h.1.symm, h.2.1.symm, h.2.2.symm⟩
theorem DCluster.Equiv.refl (c : DCluster) : DCluster.Equiv c c :=
  ⟨rfl, rfl, AttrsEq.refl _, PermRel.of_perm DNode.Equiv.refl (.refl _)⟩
theorem DCluster.Equiv.symm {c d : DCluster} (h : DCluster.Equiv c d) : DCluster.Equiv d c :=
  ⟨h.1.symm, h.2.1.symm, h.2.2.1.symm, h.2.2.2.symm (fun _ _ => DNode.Equiv.symm)⟩

theorem OptRel.refl {β : Type} {R : β → β → Prop} (hR : ∀ a, R a a) : ∀ o : Option β, OptRel R o o
  | none => trivial
  | some a => hR a

theorem DotGraph.Equiv.refl (d : DotGraph) : d.Equiv d :=
  ⟨rfl, AttrsEq.refl _, PermRel.of_perm DCluster.Equiv.refl (.refl _), PermRel.of_perm DNode.Equiv.refl (.refl _),
    OptRel.refl DNode.Equiv.refl _, PermRel.of_perm DEdge.Equiv.refl (.refl _)⟩

theorem DotGraph.Equiv.symm {d₁ d₂ : DotGraph} (h : d₁.Equiv d₂) : d₂.Equiv d₁ := by
  refine ⟨h.name.symm, h.attrs.symm, h.clusters.symm (fun _ _ => DCluster.Equiv.symm),
    h.nodes.symm (fun _ _ => DNode.Equiv.symm), ?_, h.edges.symm (fun _ _ => DEdge.Equiv.symm)⟩
  have := h.scale
  cases h1 : d₁.scale <;> cases h2 : d₂.scale <;> simp only [h1, h2, OptRel] at this ⊢
  exact this.symm

/-- equivalent nodes have the identifier Graphviz reads -/
theorem DNode.Equiv.rendered {m n : DNode} (h : DNode.Equiv m n) : renderedId m.name = renderedId n.name := by
  rw [h.1]

/-- the declared node names of equivalent diagrams are permutations of each other -/
theorem DotGraph.Equiv.nodeNames_perm {d₁ d₂ : DotGraph} (h : d₁.Equiv d₂) : d₁.nodeNames.Perm d₂.nodeNames := by
  unfold DotGraph.nodeNames
  refine ((h.clusters.flatMap_perm ?_).append (h.nodes.map_perm (fun _ _ hn => hn.1))).append ?_
  · intro c d hcd
    exact hcd.2.2.2.map_perm (fun _ _ hn => hn.1)
  · have := h.scale
    cases h1 : d₁.scale <;> cases h2 : d₂.scale <;> simp only [h1, h2, OptRel] at this
    · exact .refl _
    · simp [this.1]

/-- every component node of one diagram is a node of the other — inside the cluster with the same identifier, or at
    top level in both — with the same final attributes (colour, label, …) -/
theorem DotGraph.Equiv.node_attrs {d₁ d₂ : DotGraph} (h : d₁.Equiv d₂) :
    (∀ c ∈ d₁.clusters, ∀ n ∈ c.nodes, ∃ c' ∈ d₂.clusters, c'.name = c.name ∧ ∃ m ∈ c'.nodes, DNode.Equiv n m) ∧
    (∀ n ∈ d₁.nodes, ∃ m ∈ d₂.nodes, DNode.Equiv n m) := by
  refine ⟨?_, h.nodes.exists_right⟩
  intro c hc n hn
  obtain ⟨c', hc', hcc⟩ := h.clusters.exists_right c hc
  obtain ⟨m, hm, hnm⟩ := hcc.2.2.2.exists_right n hn
  exact ⟨c', hc', hcc.1.symm, m, hm, hnm⟩

/-- the edges of equivalent diagrams join the same pairs, up to order -/
theorem DotGraph.Equiv.edges_perm {d₁ d₂ : DotGraph} (h : d₁.Equiv d₂) :
    (d₁.edges.map (fun e => (e.src, e.dst))).Perm (d₂.edges.map (fun e => (e.src, e.dst))) :=
  h.edges.map_perm (fun _ _ he => by rw [he.1, he.2.1])

/-- the cluster identifiers and labels of equivalent diagrams agree, up to order -/
theorem DotGraph.Equiv.clusters_perm {d₁ d₂ : DotGraph} (h : d₁.Equiv d₂) :
    (d₁.clusters.map (fun c => (c.name, c.label))).Perm (d₂.clusters.map (fun c => (c.name, c.label))) :=
  h.clusters.map_perm (fun _ _ hc => by rw [hc.1, hc.2.1])

/-! ### a Boolean checker (sound) -/

def DNode.equivB (m n : DNode) : Bool := decide (m.name = n.name) && attrsEqB m.attrs n.attrs
def DEdge.equivB (e f : DEdge) : Bool :=
  decide (e.src = f.src) && (decide (e.dst = f.dst) && attrsEqB e.attrs f.attrs)
def DCluster.equivB (c d : DCluster) : Bool :=
  decide (c.name = d.name) && (decide (c.label = d.label) && (attrsEqB c.attrs d.attrs &&
    permRelB DNode.equivB c.nodes d.nodes))
def optRelB {β γ : Type} (R : β → γ → Bool) : Option β → Option γ → Bool
  | none, none => true
  | some a, some b => R a b
  | _, _ => false
def DotGraph.equivB (d₁ d₂ : DotGraph) : Bool :=
  decide (d₁.name = d₂.name) && (attrsEqB d₁.attrs d₂.attrs && (permRelB DCluster.equivB d₁.clusters d₂.clusters &&
    (permRelB DNode.equivB d₁.nodes d₂.nodes && (optRelB DNode.equivB d₁.scale d₂.scale &&
      permRelB DEdge.equivB d₁.edges d₂.edges))))

theorem DNode.equivB_sound (m n : DNode) (h : DNode.equivB m n = true) : DNode.Equiv m n := by
  simp only [DNode.equivB, Bool.and_eq_true, decide_eq_true_eq, attrsEqB_iff] at h
  exact h

theorem DEdge.equivB_sound (e f : DEdge) (h : DEdge.equivB e f = true) : DEdge.Equiv e f := by
  simp only [DEdge.equivB, Bool.and_eq_true, decide_eq_true_eq, attrsEqB_iff] at h
  exact h

theorem DCluster.equivB_sound (c d : DCluster) (h : DCluster.equivB c d = true) : DCluster.Equiv c d := by
  simp only [DCluster.equivB, Bool.and_eq_true, decide_eq_true_eq, attrsEqB_iff] at h
  exact ⟨h.1, h.2.1, h.2.2.1, permRelB_sound DNode.equivB_sound _ _ h.2.2.2⟩

theorem DotGraph.equivB_sound {d₁ d₂ : DotGraph} (h : DotGraph.equivB d₁ d₂ = true) : d₁.Equiv d₂ := by
  simp only [DotGraph.equivB, Bool.and_eq_true, decide_eq_true_eq, attrsEqB_iff] at h
  obtain ⟨h1, h2, h3, h4, h5, h6⟩ := h
  refine ⟨h1, h2, permRelB_sound DCluster.equivB_sound _ _ h3, permRelB_sound DNode.equivB_sound _ _ h4, ?_,
    permRelB_sound DEdge.equivB_sound _ _ h6⟩
  cases hs1 : d₁.scale <;> cases hs2 : d₂.scale <;> simp only [hs1, hs2, optRelB, OptRel] at h5 ⊢
  · cases h5
  · cases h5
  · exact DNode.equivB_sound _ _ h5

end Diagram

namespace C19
open Diagram

/-! ### results of two calls -/

def ExRel {ε β γ : Type} (R : β → γ → Prop) : Except ε β → Except ε γ → Prop
  | .ok a, .ok b => R a b
  | .error _, .error _ => True
  | _, _ => False

/-- both calls raise, or both return and the diagrams are the same up to order -/
def ResEquiv (r₁ r₂ : Except Err DotGraph) : Prop := ExRel DotGraph.Equiv r₁ r₂

def resEquivB : Except Err DotGraph → Except Err DotGraph → Bool
  | .ok a, .ok b => a.equivB b
  | .error _, .error _ => true
  | _, _ => false

theorem resEquivB_sound {r₁ r₂ : Except Err DotGraph} (h : resEquivB r₁ r₂ = true) : ResEquiv r₁ r₂ := by
  cases r₁ <;> cases r₂ <;> simp only [resEquivB, ResEquiv, ExRel] at h ⊢
  · cases h
  · cases h
  · exact DotGraph.equivB_sound h

theorem ExRel.refl {ε β : Type} {R : β → β → Prop} (hR : ∀ a, R a a) : ∀ x : Except ε β, ExRel R x x
  | .ok a => hR a
  | .error _ => trivial

/-! ### `mapE` over re-ordered lists -/

section MapE
variable {ε β β' γ δ : Type}

theorem mapE_perm (f : β → Except ε γ) {l₁ l₂ : List β} (h : l₁.Perm l₂) :
    ExRel List.Perm (mapE f l₁) (mapE f l₂) := by
  induction h with
  | nil => exact List.Perm.nil
  | @cons a t₁ t₂ _ ih =>
    unfold mapE
    cases f a with
    | error e => trivial
    | ok b =>
      cases h1 : mapE f t₁ <;> cases h2 : mapE f t₂ <;> simp only [h1, h2, ExRel] at ih ⊢
      exact ih.cons b
  | swap a b t =>
    simp only [mapE]
    cases f a <;> cases f b <;> cases mapE f t <;> simp only [ExRel]
    exact List.Perm.swap _ _ _
  | @trans l₁ l₂ l₃ _ _ ih₁ ih₂ =>
    cases h1 : mapE f l₁ <;> cases h2 : mapE f l₂ <;> cases h3 : mapE f l₃ <;>
      simp only [h1, h2, h3, ExRel] at ih₁ ih₂ ⊢
    exact ih₁.trans ih₂

theorem mapE_forall₂_rel {f : β → Except ε γ} {g : β' → Except ε δ} {S : β → β' → Prop} {R : γ → δ → Prop}
    (hS : ∀ a b, S a b → ExRel R (f a) (g b)) {l₁ : List β} {l₂ : List β'} (h : List.Forall₂ S l₁ l₂) :
    ExRel (List.Forall₂ R) (mapE f l₁) (mapE g l₂) := by
  induction h with
  | nil => exact List.Forall₂.nil
  | @cons a b t₁ t₂ hab _ ih =>
    have hh := hS a b hab
    unfold mapE
    cases h1 : f a <;> cases h2 : g b <;> simp only [h1, h2, ExRel] at hh ⊢
    cases h3 : mapE f t₁ <;> cases h4 : mapE g t₂ <;> simp only [h3, h4, ExRel] at ih ⊢
    exact List.Forall₂.cons hh ih

/-- element-wise related functions over lists that are related up to order: both fail, or both succeed with
    results related up to order -/
theorem mapE_rel {f : β → Except ε γ} {g : β' → Except ε δ} {S : β → β' → Prop} {R : γ → δ → Prop}
    (hS : ∀ a b, S a b → ExRel R (f a) (g b)) {l₁ : List β} {l₂ : List β'} (h : PermRel S l₁ l₂) :
    ExRel (PermRel R) (mapE f l₁) (mapE g l₂) := by
  obtain ⟨l₁', l₂', p1, p2, hf⟩ := h
  have a1 := mapE_perm f p1
  have a2 := mapE_forall₂_rel hS hf
  have a3 := mapE_perm g p2
  cases h1 : mapE f l₁ <;> cases h2 : mapE f l₁' <;> cases h3 : mapE g l₂' <;> cases h4 : mapE g l₂ <;>
    simp only [h1, h2, h3, h4, ExRel] at a1 a2 a3 ⊢
  exact ⟨_, _, a1, a3, a2⟩

end MapE

/-! ### the layout of re-ordered components -/

theorem groupsOf_perm {c₁ c₂ : List CompIn} (h : c₁.Perm c₂) : (groupsOf c₁).Perm (groupsOf c₂) := by
  rw [List.perm_ext_iff_of_nodup (groupsOf_nodup _) (groupsOf_nodup _)]
  intro g
  rw [mem_groupsOf, mem_groupsOf]
  constructor
  · rintro ⟨hg, c, hc, e⟩; exact ⟨hg, c, h.mem_iff.mp hc, e⟩
  · rintro ⟨hg, c, hc, e⟩; exact ⟨hg, c, h.mem_iff.mpr hc, e⟩

/-- the same groups with the same members up to order; the same top-level components up to order -/
theorem layout_rel {c₁ c₂ : List CompIn} (h : c₁.Perm c₂) (group : Bool) :
    PermRel (fun gm₁ gm₂ : String × List CompIn => gm₁.1 = gm₂.1 ∧ gm₁.2.Perm gm₂.2)
      (layout c₁ group).1 (layout c₂ group).1 ∧
    (layout c₁ group).2.Perm (layout c₂ group).2 := by
  unfold layout
  refine ⟨?_, h.filter _⟩
  have hg := groupsOf_perm h
  have he : (groupsOf c₁).isEmpty = (groupsOf c₂).isEmpty := by
    rw [Bool.eq_iff_iff, List.isEmpty_iff, List.isEmpty_iff]
    exact ⟨fun e => List.Perm.eq_nil (e ▸ hg.symm), fun e => List.Perm.eq_nil (e ▸ hg)⟩
  simp only [he]
  split_ifs
  · exact PermRel.of_map hg (fun g _ => ⟨rfl, h.filter _⟩)
  · exact ⟨[], [], .refl _, .refl _, .nil⟩

/-! ### what `_diag` reads of the solved losses -/

/-- the two loss tables give every name the same `_prep_loss` row and have the same largest loss -/
def HeatSame : Option (HeatIn Rat) → Option (HeatIn Rat) → Prop
  | none, none => True
  | some a, some b =>
    (∀ n : String, (prepLoss a).find? (fun r => r.name = n) = (prepLoss b).find? (fun r => r.name = n)) ∧
    maxOf (heatLosses a) = maxOf (heatLosses b)
  | _, _ => False

theorem HeatSame.refl : ∀ h : Option (HeatIn Rat), HeatSame h h
  | none => trivial
  | some _ => ⟨fun _ => rfl, rfl⟩

theorem HeatSame.isSome {h₁ h₂ : Option (HeatIn Rat)} (h : HeatSame h₁ h₂) : h₁.isSome = h₂.isSome := by
  cases h₁ <;> cases h₂ <;> simp only [HeatSame] at h <;> rfl

theorem mkNode_heatSame {h₁ h₂ : Option (HeatIn Rat)} (hs : HeatSame h₁ h₂) (node : Option Sect) :
    mkNode node (h₁.map prepLoss) = mkNode node (h₂.map prepLoss) := by
  funext c
  cases h₁ <;> cases h₂ <;> simp only [HeatSame] at hs
  · rfl
  · unfold mkNode heatNode
    simp only [Option.map_some, hs.1]

theorem mkCluster_heatSame {h₁ h₂ : Option (HeatIn Rat)} (hs : HeatSame h₁ h₂) (bd : Config) :
    mkCluster bd (h₁.map prepLoss) = mkCluster bd (h₂.map prepLoss) := by
  funext gm
  unfold mkCluster
  rw [mkNode_heatSame hs]

section
variable {α : Type} [Field α] [LinearOrder α] [IsStrictOrderedRing α]

/-- **`Series.max()` is order-free**: it depends on the list through membership only -/
theorem maxOf_congr {l₁ l₂ : List α} (h : ∀ x, x ∈ l₁ ↔ x ∈ l₂) : maxOf l₁ = maxOf l₂ := by
  by_cases h1 : l₁ = []
  · have h2 : l₂ = [] := by
      apply List.eq_nil_iff_forall_not_mem.mpr
      intro x hx
      rw [← h x, h1] at hx
      cases hx
    rw [h1, h2]
  · have h2 : l₂ ≠ [] := by
      intro e
      obtain ⟨x, hx⟩ := List.exists_mem_of_ne_nil _ h1
      rw [h x, e] at hx
      cases hx
    exact le_antisymm (le_maxOf ((h _).mp (maxOf_mem h1))) (le_maxOf ((h _).mpr (maxOf_mem h2)))

theorem maxOf_perm {l₁ l₂ : List α} (h : l₁.Perm l₂) : maxOf l₁ = maxOf l₂ :=
  maxOf_congr (fun _ => h.mem_iff)

/-- the (name, loss) rows of `_prep_loss` -/
def lossRows (h : HeatIn α) : List (String × α) := h.rows.zipIdx.map (fun ni => (ni.1, wloss h ni.2))

theorem heatLosses_eq (h : HeatIn α) : heatLosses h = (lossRows h).map (·.2) := by
  unfold heatLosses lossRows
  apply List.ext_getElem
  · simp
  · intro i h1 h2
    simp

theorem prepLoss_eq (h : HeatIn α) :
    prepLoss h = (lossRows h).map (fun p => { name := p.1, loss := p.2, mix := p.2 / mixDen (heatLosses h) }) := by
  unfold prepLoss lossRows
  simp [List.map_map, Function.comp_def]

theorem lossRows_names (h : HeatIn α) : (lossRows h).map (·.1) = h.rows := by
  unfold lossRows
  apply List.ext_getElem
  · simp
  · intro i h1 h2
    simp

end

/-- in a list without two entries of the same key, looking a key up does not depend on the order -/
theorem find?_perm_of_nodup {β κ : Type} [DecidableEq κ] (key : β → κ) {l₁ l₂ : List β} (h : l₁.Perm l₂)
    (hn : (l₁.map key).Nodup) (n : κ) :
    l₁.find? (fun r => key r = n) = l₂.find? (fun r => key r = n) := by
  cases h1 : l₁.find? (fun r => key r = n) with
  | none =>
    rw [List.find?_eq_none] at h1
    symm
    rw [List.find?_eq_none]
    intro x hx
    exact h1 x (h.mem_iff.mpr hx)
  | some r =>
    have hr1 : r ∈ l₁ := List.mem_of_find?_eq_some h1
    have hk1 : key r = n := by simpa using List.find?_some h1
    cases h2 : l₂.find? (fun r => key r = n) with
    | none =>
      rw [List.find?_eq_none] at h2
      exact absurd (by simpa using hk1) (h2 r (h.mem_iff.mp hr1))
    | some r' =>
      have hr2 : r' ∈ l₁ := h.mem_iff.mpr (List.mem_of_find?_eq_some h2)
      have hk2 : key r' = n := by simpa using List.find?_some h2
      rw [List.inj_on_of_nodup_map hn hr1 hr2 (hk1.trans hk2.symm)]

/-- **the heat map is order-free.**  Two loss tables whose (name, loss) rows are a permutation of each other (row
    names unique) have the same largest loss — hence the same legend label and the same `Mix = loss / max` in every
    row — and give every name the same row. -/
theorem heatSame_of_perm {a b : HeatIn Rat} (hn : a.rows.Nodup) (hp : (lossRows a).Perm (lossRows b)) :
    HeatSame (some a) (some b) := by
  have hl : (heatLosses a).Perm (heatLosses b) := by
    rw [heatLosses_eq, heatLosses_eq]; exact hp.map _
  have hm : maxOf (heatLosses a) = maxOf (heatLosses b) := maxOf_perm hl
  have hd : mixDen (heatLosses a) = mixDen (heatLosses b) := by unfold mixDen; rw [hm]
  have hpl : (prepLoss a).Perm (prepLoss b) := by
    rw [prepLoss_eq, prepLoss_eq, hd]; exact hp.map _
  refine ⟨fun n => find?_perm_of_nodup (fun r : HeatRow Rat => r.name) hpl ?_ n, hm⟩
  have : (prepLoss a).map (fun r => r.name) = a.rows := by
    rw [prepLoss_eq, List.map_map, ← lossRows_names a]
    rfl
  rw [this]
  exact hn

/-! ### the legend's name -/

/-- once the search has ended on a free name, more fuel does not change it -/
theorem freshFrom_stable (names : List String) :
    ∀ (fuel : ℕ) (s : String), freshFrom names fuel s ∉ names → ∀ fuel', fuel ≤ fuel' →
      freshFrom names fuel' s = freshFrom names fuel s
  | 0, s, h, fuel', _ => by
    unfold freshFrom at h
    cases fuel' with
    | zero => rfl
    | succ k => simp only [freshFrom, if_neg h]
  | fuel + 1, s, h, fuel', hle => by
    obtain ⟨k, rfl⟩ : ∃ k, fuel' = k + 1 := ⟨fuel' - 1, by omega⟩
    unfold freshFrom at h ⊢
    split_ifs at h ⊢ with hm
    · exact freshFrom_stable names fuel (s ++ "_") h k (by omega)
    · rfl

theorem freshFrom_congr {n₁ n₂ : List String} (h : ∀ s, s ∈ n₁ ↔ s ∈ n₂) :
    ∀ (fuel : ℕ) (s : String), freshFrom n₁ fuel s = freshFrom n₂ fuel s
  | 0, _ => rfl
  | fuel + 1, s => by
    unfold freshFrom
    simp only [h s, freshFrom_congr h fuel]

/-- **the legend's name depends on the component names through membership only** (not on their order, not on
    repetitions) -/
theorem freshScale_congr {n₁ n₂ : List String} (h : ∀ s, s ∈ n₁ ↔ s ∈ n₂) : freshScale n₁ = freshScale n₂ := by
  have f1 := freshScale_not_mem n₁
  have f2 := freshScale_not_mem n₂
  unfold freshScale at f1 f2 ⊢
  rw [← freshFrom_stable n₁ _ _ f1 (max n₁.length n₂.length) (le_max_left _ _),
    ← freshFrom_stable n₂ _ _ f2 (max n₁.length n₂.length) (le_max_right _ _)]
  exact freshFrom_congr h _ _

/-- **legend_order_free.** Re-ordering the components does not change the legend's name. -/
theorem legend_order_free {c₁ c₂ : List CompIn} (h : c₁.Perm c₂) : legendName c₁ = legendName c₂ :=
  freshScale_congr (fun _ => (h.map _).mem_iff)

/-! ### `diag`, stage by stage -/

def assemble (gname : String) (gconf : Attrs) (cls : Except Err (List DCluster)) (top : Except Err (List DNode))
    (sc : Except Err (Option DNode)) (es : Except Err (List DEdge)) : Except Err DotGraph :=
  match cls with
  | .error e => .error e
  | .ok cls =>
    match top with
    | .error e => .error e
    | .ok top =>
      match sc with
      | .error e => .error e
      | .ok sc =>
        match es with
        | .error e => .error e
        | .ok es =>
          .ok { name := "sysLoss", attrs := ("label", gname) :: gconf, clusters := cls, nodes := top,
                scale := sc, edges := es }

def scalePart (names : List String) (gconf : Attrs) : Option (HeatIn Rat) → Except Err (Option DNode)
  | none => .ok none
  | some h => (mkScale names gconf (heatLosses h)).map some

def edgePart (edge : Option Attrs) (edges : List (String × String)) : Except Err (List DEdge) :=
  if edges.isEmpty then .ok []
  else match edge with
    | none => .error (.key "edge")
    | some ec => .ok (edges.map fun e => { src := e.1, dst := e.2, attrs := ec })

theorem diag_eq (sn : String) (comps : List CompIn) (edges : List (String × String)) (cfg : Config)
    (group : Bool) (heat : Option (HeatIn Rat)) :
    diag sn comps edges cfg group heat =
      match (effConf cfg).graph with
      | none => .error (.key "graph")
      | some gconf =>
        if ahas gconf "label" then .error (.type "Dot() got multiple values for keyword argument 'label'")
        else
          assemble (sn ++ (if heat.isSome then " - Loss heat map" else "")) gconf
            (mapE (mkCluster (effConf cfg) (heat.map prepLoss)) (layout comps group).1)
            (mapE (mkNode (effConf cfg).node (heat.map prepLoss)) (layout comps group).2)
            (scalePart (comps.map CompIn.name) gconf heat)
            (edgePart (effConf cfg).edge edges) := by
  unfold diag assemble scalePart edgePart
  cases heat <;> rfl

theorem assemble_rel (gname : String) (gconf : Attrs) {cls₁ cls₂ : Except Err (List DCluster)}
    {top₁ top₂ : Except Err (List DNode)} {sc₁ sc₂ : Except Err (Option DNode)}
    {es₁ es₂ : Except Err (List DEdge)}
    (h1 : ExRel (PermRel DCluster.Equiv) cls₁ cls₂) (h2 : ExRel (PermRel DNode.Equiv) top₁ top₂)
    (h3 : ExRel (OptRel DNode.Equiv) sc₁ sc₂) (h4 : ExRel (PermRel DEdge.Equiv) es₁ es₂) :
    ResEquiv (assemble gname gconf cls₁ top₁ sc₁ es₁) (assemble gname gconf cls₂ top₂ sc₂ es₂) := by
  unfold assemble ResEquiv
  cases cls₁ <;> cases cls₂ <;> simp only [ExRel] at h1 ⊢
  cases top₁ <;> cases top₂ <;> simp only [ExRel] at h2 ⊢
  cases sc₁ <;> cases sc₂ <;> simp only [ExRel] at h3 ⊢
  cases es₁ <;> cases es₂ <;> simp only [ExRel] at h4 ⊢
  exact ⟨rfl, AttrsEq.refl _, h1, h2, h3, h4⟩

/-- member nodes of re-ordered component lists -/
theorem nodes_rel (node : Option Sect) (ldf : Option (List (HeatRow Rat))) {l₁ l₂ : List CompIn}
    (h : l₁.Perm l₂) : ExRel (PermRel DNode.Equiv) (mapE (mkNode node ldf) l₁) (mapE (mkNode node ldf) l₂) :=
  mapE_rel (S := Eq) (fun a b e => by subst e; exact ExRel.refl DNode.Equiv.refl _) (permRel_eq_iff.mpr h)

/-- the cluster of a group whose members were re-ordered -/
theorem mkCluster_rel (bd : Config) (ldf : Option (List (HeatRow Rat))) {gm₁ gm₂ : String × List CompIn}
    (h : gm₁.1 = gm₂.1 ∧ gm₁.2.Perm gm₂.2) :
    ExRel DCluster.Equiv (mkCluster bd ldf gm₁) (mkCluster bd ldf gm₂) := by
  obtain ⟨g₁, m₁⟩ := gm₁
  obtain ⟨g₂, m₂⟩ := gm₂
  obtain ⟨e, hp⟩ := h
  simp only at e hp
  subst e
  have hn := nodes_rel bd.node ldf hp
  unfold mkCluster
  cases bd.cluster with
  | none => trivial
  | some cs =>
    simp only
    cases clusterConf cs g₁ with
    | error e => trivial
    | ok cconf =>
      simp only
      split_ifs
      · trivial
      · cases h1 : mapE (mkNode bd.node ldf) m₁ <;> cases h2 : mapE (mkNode bd.node ldf) m₂ <;>
          simp only [h1, h2, ExRel] at hn ⊢
        exact ⟨rfl, rfl, AttrsEq.refl _, hn⟩

theorem edgePart_rel (edge : Option Attrs) {e₁ e₂ : List (String × String)} (h : e₁.Perm e₂) :
    ExRel (PermRel DEdge.Equiv) (edgePart edge e₁) (edgePart edge e₂) := by
  unfold edgePart
  have he : e₁.isEmpty = e₂.isEmpty := by
    rw [Bool.eq_iff_iff, List.isEmpty_iff, List.isEmpty_iff]
    exact ⟨fun e => List.Perm.eq_nil (e ▸ h.symm), fun e => List.Perm.eq_nil (e ▸ h)⟩
  rw [he]
  split_ifs
  · exact ⟨[], [], .refl _, .refl _, .nil⟩
  · cases edge with
    | none => trivial
    | some ec => exact PermRel.of_map h (fun _ _ => DEdge.Equiv.refl _)

theorem scalePart_eq {n₁ n₂ : List String} (hn : ∀ s, s ∈ n₁ ↔ s ∈ n₂) (gconf : Attrs)
    {h₁ h₂ : Option (HeatIn Rat)} (hs : HeatSame h₁ h₂) : scalePart n₁ gconf h₁ = scalePart n₂ gconf h₂ := by
  cases h₁ <;> cases h₂ <;> simp only [HeatSame] at hs
  · rfl
  · simp only [scalePart, mkScale, freshScale_congr hn, hs.2]

/-! ### the theorems -/

variable {sn : String} {comps₁ comps₂ : List CompIn} {edges₁ edges₂ : List (String × String)}

/-- **diag_order_free, with re-ordered loss tables.**  Components, links and the rows of the loss table listed in
    another order: both calls raise, or both return and the diagrams are the same up to the order of clusters, of
    the members of each cluster, of the top-level nodes and of the edges — same attributes of every node (heat
    colours and loss labels included), same legend. -/
theorem diag_order_free_heat (hc : comps₁.Perm comps₂) (he : edges₁.Perm edges₂) (cfg : Config) (group : Bool)
    {heat₁ heat₂ : Option (HeatIn Rat)} (hh : HeatSame heat₁ heat₂) :
    ResEquiv (diag sn comps₁ edges₁ cfg group heat₁) (diag sn comps₂ edges₂ cfg group heat₂) := by
  rw [diag_eq, diag_eq, mkCluster_heatSame hh, mkNode_heatSame hh, hh.isSome]
  cases (effConf cfg).graph with
  | none => trivial
  | some gconf =>
    simp only
    by_cases hl : ahas gconf "label" = true
    · rw [if_pos hl, if_pos hl]; trivial
    · rw [if_neg hl, if_neg hl]
      obtain ⟨l1, l2⟩ := layout_rel hc group
      rw [scalePart_eq (fun _ => (hc.map CompIn.name).mem_iff) gconf hh]
      exact assemble_rel _ _ (mapE_rel (fun a b hab => mkCluster_rel _ _ hab) l1) (nodes_rel _ _ l2)
        (ExRel.refl (OptRel.refl DNode.Equiv.refl) _) (edgePart_rel _ he)

/-- **diag_order_free.**  Two descriptions with the same components up to order and the same links up to order
    give, for every configuration, group flag and loss table, the same diagram up to order (or both raise). -/
theorem diag_order_free (hc : comps₁.Perm comps₂) (he : edges₁.Perm edges₂) (cfg : Config) (group : Bool)
    (heat : Option (HeatIn Rat)) :
    ResEquiv (diag sn comps₁ edges₁ cfg group heat) (diag sn comps₂ edges₂ cfg group heat) :=
  diag_order_free_heat hc he cfg group (HeatSame.refl heat)

/-- components, links and `solve()` rows all re-ordered (row names unique) -/
theorem diag_order_free_rows (hc : comps₁.Perm comps₂) (he : edges₁.Perm edges₂) (cfg : Config) (group : Bool)
    {h₁ h₂ : HeatIn Rat} (hn : h₁.rows.Nodup) (hp : (lossRows h₁).Perm (lossRows h₂)) :
    ResEquiv (diag sn comps₁ edges₁ cfg group (some h₁)) (diag sn comps₂ edges₂ cfg group (some h₂)) :=
  diag_order_free_heat hc he cfg group (heatSame_of_perm hn hp)

/-- a call that returns still returns after re-ordering, with an equivalent diagram -/
theorem diag_order_free_ok (hc : comps₁.Perm comps₂) (he : edges₁.Perm edges₂) {cfg : Config} {group : Bool}
    {heat₁ heat₂ : Option (HeatIn Rat)} (hh : HeatSame heat₁ heat₂) {d₁ : DotGraph}
    (h : diag sn comps₁ edges₁ cfg group heat₁ = .ok d₁) :
    ∃ d₂, diag sn comps₂ edges₂ cfg group heat₂ = .ok d₂ ∧ d₁.Equiv d₂ := by
  have := diag_order_free_heat (sn := sn) hc he cfg group hh
  rw [h] at this
  cases h2 : diag sn comps₂ edges₂ cfg group heat₂ <;> simp only [h2, ResEquiv, ExRel] at this
  exact ⟨_, rfl, this⟩

/-- **every node looks the same.**  A node of the first diagram is a node of the second — in the cluster with the
    same identifier, or at top level in both — and every attribute (heat colour, loss label, shape, …) has the
    same value. -/
theorem diag_node_attrs_order_free (hc : comps₁.Perm comps₂) (he : edges₁.Perm edges₂) {cfg : Config} {group : Bool}
    {heat₁ heat₂ : Option (HeatIn Rat)} (hh : HeatSame heat₁ heat₂) {d₁ d₂ : DotGraph}
    (h₁ : diag sn comps₁ edges₁ cfg group heat₁ = .ok d₁) (h₂ : diag sn comps₂ edges₂ cfg group heat₂ = .ok d₂) :
    (∀ c ∈ d₁.clusters, ∀ n ∈ c.nodes, ∃ c' ∈ d₂.clusters, c'.name = c.name ∧
        ∃ m ∈ c'.nodes, m.name = n.name ∧ ∀ k, aget m.attrs k = aget n.attrs k) ∧
    (∀ n ∈ d₁.nodes, ∃ m ∈ d₂.nodes, m.name = n.name ∧ ∀ k, aget m.attrs k = aget n.attrs k) := by
  obtain ⟨d, hd, heq⟩ := diag_order_free_ok hc he hh h₁
  rw [h₂] at hd
  cases hd
  obtain ⟨a, b⟩ := heq.node_attrs
  constructor
  · intro c hc n hn
    obtain ⟨c', hc', e, m, hm, hnm⟩ := a c hc n hn
    exact ⟨c', hc', e, m, hm, hnm.1.symm, fun k => (hnm.2 k).symm⟩
  · intro n hn
    obtain ⟨m, hm, hnm⟩ := b n hn
    exact ⟨m, hm, hnm.1.symm, fun k => (hnm.2 k).symm⟩

/-- **diag_nodes_perm.** The node names declared by the diagram of any re-ordering are a permutation of the
    original component names, plus the original legend name in heat mode. -/
theorem diag_nodes_perm (hc : comps₁.Perm comps₂) {edges : List (String × String)} {cfg : Config} {group : Bool}
    {heat : Option (HeatIn Rat)} {d : DotGraph} (h : diag sn comps₂ edges cfg group heat = .ok d) :
    d.nodeNames.Perm (comps₁.map (·.name) ++ (if heat.isSome then [legendName comps₁] else [])) := by
  rw [legend_order_free hc]
  exact (nodes_exact h).trans ((hc.map _).symm.append_right _)

/-- **diag_edges_perm.** The edges of the diagram of any re-ordering are a permutation of the original
    parent → child links. -/
theorem diag_edges_perm (he : edges₁.Perm edges₂) {comps : List CompIn} {cfg : Config} {group : Bool}
    {heat : Option (HeatIn Rat)} {d : DotGraph} (h : diag sn comps edges₂ cfg group heat = .ok d) :
    (d.edges.map (fun e => (e.src, e.dst))).Perm edges₁ := by
  rw [(edges_exact h).1]
  exact he.symm

/-! ### non-vacuity: a 5-component system with two groups, listed in two orders -/

def oComps₁ : List CompIn :=
  [⟨"S", .source, ""⟩, ⟨"C", .converter, "g1"⟩, ⟨"L 1", .iload, "g1"⟩, ⟨"R", .rloss, "g2"⟩, ⟨"P", .pload, "g2"⟩]
def oComps₂ : List CompIn :=
  [⟨"P", .pload, "g2"⟩, ⟨"L 1", .iload, "g1"⟩, ⟨"S", .source, ""⟩, ⟨"R", .rloss, "g2"⟩, ⟨"C", .converter, "g1"⟩]
def oEdges₁ : List (String × String) := [("S", "C"), ("C", "L 1"), ("S", "R"), ("R", "P")]
def oEdges₂ : List (String × String) := [("R", "P"), ("S", "R"), ("S", "C"), ("C", "L 1")]
def oHeat₁ : HeatIn Rat :=
  { rows := ["S", "C", "L 1", "R", "P"], phases := [("a", 1), ("b", 3)],
    loss := [[0, 1/4, 1/2, 1/10, 0], [0, 1/8, 1, 1/10, 1/5]] }
def oHeat₂ : HeatIn Rat :=
  { rows := ["S", "R", "P", "C", "L 1"], phases := [("a", 1), ("b", 3)],
    loss := [[0, 1/10, 0, 1/4, 1/2], [0, 1/10, 1/5, 1/8, 1]] }

-- the hypotheses are satisfiable …
example : oComps₁.Perm oComps₂ ∧ oEdges₁.Perm oEdges₂ := by decide
example : oHeat₁.rows.Nodup ∧ (lossRows oHeat₁).Perm (lossRows oHeat₂) := by decide +kernel
-- … both calls return, the two graphs differ (first cluster `g1` vs `g2`, …) and are equivalent
example : (diag "x" oComps₁ oEdges₁ exCfg true (some oHeat₁)).toOption.map (fun d => d.clusters.map (·.name))
    = some ["cluster_g1", "cluster_g2"] := by decide +kernel
example : (diag "x" oComps₂ oEdges₂ exCfg true (some oHeat₂)).toOption.map (fun d => d.clusters.map (·.name))
    = some ["cluster_g2", "cluster_g1"] := by decide +kernel
example : namesOf (diag "x" oComps₁ oEdges₁ exCfg true (some oHeat₁)) = some ["C", "L 1", "R", "P", "S", "Scale"] := by
  decide +kernel
example : namesOf (diag "x" oComps₂ oEdges₂ exCfg true (some oHeat₂)) = some ["P", "R", "L 1", "C", "S", "Scale"] := by
  decide +kernel
example : diag "x" oComps₁ oEdges₁ exCfg true (some oHeat₁) ≠ diag "x" oComps₂ oEdges₂ exCfg true (some oHeat₂) := by
  decide +kernel
/-- the `Equiv` of the two diagrams, decided on the two graphs themselves -/
example : ResEquiv (diag "x" oComps₁ oEdges₁ exCfg true (some oHeat₁))
    (diag "x" oComps₂ oEdges₂ exCfg true (some oHeat₂)) := resEquivB_sound (by decide +kernel)
/-- … and by the theorem -/
example : ResEquiv (diag "x" oComps₁ oEdges₁ exCfg true (some oHeat₁))
    (diag "x" oComps₂ oEdges₂ exCfg true (some oHeat₂)) :=
  diag_order_free_rows (by decide) (by decide) exCfg true (by decide) (by decide +kernel)
example : ResEquiv (diag "x" oComps₁ oEdges₁ exCfg true (some oHeat₁))
    (diag "x" oComps₂ oEdges₂ exCfg true (some oHeat₁)) := diag_order_free (by decide) (by decide) _ _ _
def oGraph₁ : DotGraph :=
  match diag "x" oComps₁ oEdges₁ exCfg true (some oHeat₁) with | .ok d => d | .error _ => default
def oGraph₂ : DotGraph :=
  match diag "x" oComps₂ oEdges₂ exCfg true (some oHeat₂) with | .ok d => d | .error _ => default
theorem oGraph₁_eq : diag "x" oComps₁ oEdges₁ exCfg true (some oHeat₁) = .ok oGraph₁ := by decide +kernel
theorem oGraph₂_eq : diag "x" oComps₂ oEdges₂ exCfg true (some oHeat₂) = .ok oGraph₂ := by decide +kernel
example : ∃ d₂, diag "x" oComps₂ oEdges₂ exCfg true (some oHeat₂) = .ok d₂ ∧ oGraph₁.Equiv d₂ :=
  diag_order_free_ok (by decide) (by decide) (heatSame_of_perm (by decide) (by decide +kernel)) oGraph₁_eq
example : oGraph₂.nodeNames.Perm (oComps₁.map (·.name) ++ [legendName oComps₁]) :=
  diag_nodes_perm (heat := some oHeat₂) (by decide) oGraph₂_eq
example : (oGraph₂.edges.map (fun e => (e.src, e.dst))).Perm oEdges₁ := diag_edges_perm (by decide) oGraph₂_eq
-- `L 1` is in cluster `g1` of both graphs, fully warm, with the same label
example : ∀ n ∈ oGraph₁.nodes, ∃ m ∈ oGraph₂.nodes, m.name = n.name ∧ ∀ k, aget m.attrs k = aget n.attrs k :=
  (diag_node_attrs_order_free (by decide) (by decide) (heatSame_of_perm (by decide) (by decide +kernel))
    oGraph₁_eq oGraph₂_eq).2
example : (oGraph₁.findNode "L 1").bind (fun n => aget n.attrs "fillcolor") = some "#ff1210" ∧
    (oGraph₂.findNode "L 1").bind (fun n => aget n.attrs "fillcolor") = some "#ff1210" ∧
    (oGraph₂.findNode "C").bind (fun n => aget n.attrs "label") = some "C\n0.156W" := by decide +kernel
-- the checker is not trivially true: another loss table is told apart
example : resEquivB (diag "x" oComps₁ oEdges₁ exCfg true (some oHeat₁))
    (diag "x" oComps₂ oEdges₂ exCfg true (some { oHeat₂ with loss := [[0, 1/10, 0, 1/4, 1/2], [0, 1/10, 1/5, 1/8, 2]] }))
    = false := by decide +kernel
example : legendName oComps₁ = legendName oComps₂ := legend_order_free (by decide)
example : freshScale ["Scale", "a", "Scale_"] = freshScale ["Scale_", "Scale", "Scale", "a", "a"] :=
  freshScale_congr (by intro s; simp only [List.mem_cons, List.not_mem_nil, or_false]; tauto)
example : maxOf [1, 3, (2 : ℚ)] = maxOf [3, 2, 1, 1] :=
  maxOf_congr (by intro s; simp only [List.mem_cons, List.not_mem_nil, or_false]; tauto)

/-! ### which exception wins is NOT order-free -/

def eCfg : Config :=
  { defConf with cluster := some [("default", []), ("A", [("label", "x")])], node := some [] }

/-- Two things wrong at once (the configuration of cluster `A` carries a `label`, `config["node"]` has no
    `default`): the group seen first decides which exception the caller gets.  `ResEquiv` therefore only says that
    both calls raise. -/
theorem error_order_dependent :
    ∃ (c₁ c₂ : List CompIn) (e₁ e₂ : Err), c₁.Perm c₂ ∧ diag "x" c₁ [] eCfg true none = .error e₁ ∧
      diag "x" c₂ [] eCfg true none = .error e₂ ∧ e₁ ≠ e₂ :=
  ⟨[⟨"a", .source, "A"⟩, ⟨"b", .source, "B"⟩], [⟨"b", .source, "B"⟩, ⟨"a", .source, "A"⟩],
    .type "Subgraph() got multiple values for keyword argument 'label'", .key "default",
    by decide, by decide +kernel, by decide +kernel, by decide⟩

end C19
end SysLoss
