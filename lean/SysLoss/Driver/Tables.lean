/-
  Driver/Tables — the constant tables of the model (`"cmd": "tables"`): per kind its Python class name, component
  type, applicable limit keys (`_get_limits`), which child types it accepts (`_child_types`), and the default limits.
  The harness compares them with the live objects of /repo on every run of C09 / C14 (harness/tables.py).
-/
import SysLoss.Driver.Wire
import SysLoss.Model.Warn

open Lean

namespace SysLoss

def tblKinds : List Kind :=
  [.source, .pload, .iload, .rload, .rloss, .vloss, .converter, .linreg, .pswitch, .pmux, .rectifier]

def tblCTypes : List CType :=
  [.SOURCE, .LOAD, .SLOSS, .CONVERTER, .LINREG, .PSWITCH, .PMUX, .RECTIFIER]

def ratStr' (q : Rat) : String := toString q.num ++ "/" ++ toString q.den

def cmdTables (_ : Json) : Json :=
  Json.mkObj
    [("ok", true),
     ("kinds", Json.arr (tblKinds.map fun k =>
        Json.mkObj [("class", k.className), ("ctype", k.ctype.name),
                    ("limit_keys", Json.arr (k.limitKeys.map Json.str).toArray),
                    ("accepts", Json.arr ((tblCTypes.filter fun c => k.acceptsChild c).map fun c => Json.str c.name).toArray)]).toArray),
     ("limits_default", Json.arr (allLimitKeys.map fun key =>
        let l : Rat × Rat := limitsDefault key
        Json.mkObj [("key", key), ("min", ratStr' l.1), ("max", ratStr' l.2)]).toArray)]

end SysLoss
