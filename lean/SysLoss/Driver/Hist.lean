/-
  Driver/Hist — `hist`: run an edit / configuration history through `Model/Graph` and report, after the
  constructor and after every call, the outcome (ok | exception class), the abstract structure
  (`Spec/Structure.abs`), the raw registries (so that stale entries are visible) and the `WF` verdict with the
  failing clause names.

  in : {"cmd":"hist","init":{"name":s,"comp":C,"group":s,"rail":s},"ops":[O…]}
       C = {"name":s,"kind":k,"tag":s}
       O = {"op":"add_source","comp":C,"group":s,"rail":s}
         | {"op":"add_comp","parent":s | [s…],"comp":C,"group":s,"rail":s}
         | {"op":"change_comp","name":s,"comp":C,"group":s,"rail":s}
         | {"op":"del_comp","name":s,"del_childs":b}
         | {"op":"set_sys_phases","phases":[[s,v]…]}
         | {"op":"set_comp_phases","name":s,"conf":{"names":[s…]} | {"table":[[s,v]…]} | "bad"}
       (phase values `v` are opaque strings)
  out: {"init":"ok"|cls,"state":S,"steps":[{"outcome":"ok"|cls,"state":S}…]}
-/
import SysLoss.Driver.Wire
import SysLoss.Spec.Structure

open Lean

namespace SysLoss
namespace Hist

abbrev S := Sys PComp String

def kindName : Kind → String
  | .source => "source" | .pload => "pload" | .iload => "iload" | .rload => "rload" | .rloss => "rloss"
  | .vloss => "vloss" | .converter => "converter" | .linreg => "linreg" | .pswitch => "pswitch"
  | .pmux => "pmux" | .rectifier => "rectifier"

def compOf (j : Json) : Option PComp :=
  match kindOf (jStr j "kind"), j.getObjValAs? String "name" with
  | some k, .ok n => some { name := n, kind := k, tag := jStr j "tag" }
  | _, _ => none

def strList (j : Json) : Option (List String) :=
  match j with
  | .arr a => a.toList.mapM fun x => match x with | .str s => some s | _ => none
  | _ => none

def pairList (j : Json) : Option (List (String × String)) :=
  match j with
  | .arr a => a.toList.mapM fun x =>
      match x with
      | .arr #[.str k, .str v] => some (k, v)
      | _ => none
  | _ => none

def str? (j : Json) (k : String) : Option String :=
  match j.getObjValAs? String k with | .ok s => some s | .error _ => none

def bool? (j : Json) (k : String) : Option Bool :=
  match j.getObjValAs? Bool k with | .ok s => some s | .error _ => none

def opOf (j : Json) : Option (Op PComp String) := do
  match jStr j "op" with
  | "add_source" =>
    let c ← compOf (← jObj? j "comp")
    pure (.addSource c (← str? j "group") (← str? j "rail"))
  | "add_comp" =>
    let c ← compOf (← jObj? j "comp")
    let p ← match ← jObj? j "parent" with
      | .str s => some (ParentArg.one s)
      | a => (strList a).map ParentArg.many
    pure (.addComp p c (← str? j "group") (← str? j "rail"))
  | "change_comp" =>
    let c ← compOf (← jObj? j "comp")
    pure (.changeComp (← str? j "name") c (← str? j "group") (← str? j "rail"))
  | "del_comp" => pure (.delComp (← str? j "name") (← bool? j "del_childs"))
  | "set_sys_phases" => pure (.setSysPhases (← pairList (← jObj? j "phases")))
  | "set_comp_phases" =>
    let cj ← jObj? j "conf"
    let pc ← match cj with
      | .str "bad" => some PConfArg.bad
      | _ =>
        match jObj? cj "names", jObj? cj "table" with
        | some n, _ => (strList n).map fun l => PConfArg.conf (.names l)
        | none, some t => (pairList t).map fun l => PConfArg.conf (.table l)
        | none, none => none
    pure (.setCompPhases (← str? j "name") pc)
  | _ => none

def jPairs (l : List (String × String)) : Json :=
  .arr (l.map fun (k, v) => Json.arr #[.str k, .str v]).toArray

def jStrs (l : List String) : Json := .arr (l.map Json.str).toArray

def pconfOut : PhaseConf String → Json
  | .names l => Json.mkObj [("names", jStrs l)]
  | .table t => Json.mkObj [("table", jPairs t)]

def optStr : Option String → Json
  | some s => .str s
  | none => .null

/-- exceptions `save()` raises before it reaches the PMux block (`_rel_update`, `_get_childs_tree`) -/
def savePre (s : S) : Option String :=
  match s.parentsErr with
  | some e => some e
  | none =>
    if s.edges.any fun (p, c) =>
        [p, c].any fun n => match s.nameOf n with
          | some x => decide (x ∉ dkeys s.nodes)
          | none => false
    then some "KeyError" else none

/-- exception of `[self._g[n]._params["name"] for n in self._parents[pidx]]` for the mux at node `m` -/
def saveMux (s : S) (m : Nat) : Option String :=
  match s.parentsOf m with
  | .error e => some e
  | .ok l => if l.any Option.isNone then some "OverflowError" else none

def stateOut (s : S) : Json :=
  let a := s.abs
  let comps := (s.comps.zip a.comps).map fun ((n, c), e) =>
    Json.mkObj [("id", n), ("name", e.name), ("kind", kindName c.kind), ("ctype", c.kind.ctype.name),
      ("tag", c.tag), ("preds", jStrs (e.preds.map (·.1))),
      ("parents", .arr (e.parents.map optStr).toArray), ("addressable", e.addressable),
      ("group", optStr (dget s.groups e.name)), ("rail", optStr (dget s.rails e.name)),
      ("pconf", match dget s.phaseConf e.name with | some pc => pconfOut pc | none => .null)]
  let muxes := s.comps.filter fun p => decide (p.2.kind = .pmux)
  Json.mkObj [
    ("name", s.name),
    ("comps", .arr comps.toArray),
    ("nodes", .arr (s.nodes.map fun (k, v) => Json.arr #[.str k, (v : Json)]).toArray),
    ("groups", jPairs s.groups), ("rails", jPairs s.rails),
    ("phase_conf", .arr (s.phaseConf.map fun (k, v) => Json.arr #[.str k, pconfOut v]).toArray),
    ("pnames", .arr (s.pnames.map fun (k, v) => Json.arr #[(k : Json), jStrs v]).toArray),
    ("phases", jPairs s.phases),
    ("free", .arr (s.free.map fun (n : Nat) => (n : Json)).toArray), ("next", s.next),
    ("save_pre", optStr (savePre s)),
    ("save_mux", .arr (muxes.map fun (n, c) => Json.arr #[.str c.name, optStr (saveMux s n)]).toArray),
    ("wf", jStrs a.failing)]

def outcomeOut : Outcome → Json
  | .ok => "ok"
  | .raised c => .str c

def runSteps (s : S) : List (Op PComp String) → List Json
  | [] => []
  | op :: ops =>
    let r := s.step op
    Json.mkObj [("outcome", outcomeOut r.2), ("state", stateOut r.1)] :: runSteps r.1 ops

end Hist

open Hist in
def cmdHist (j : Json) : Json :=
  match jObj? j "init" with
  | none => Json.mkObj [("bad-op", "hist: no init")]
  | some ij =>
    match (jObj? ij "comp").bind compOf, str? ij "name", str? ij "group", str? ij "rail" with
    | some c, some name, some g, some r =>
      match (jArr j "ops").toList.mapM opOf with
      | none => Json.mkObj [("bad-op", "hist: malformed op")]
      | some ops =>
        match (Sys.init name c g r : Option S) with
        | none => Json.mkObj [("init", "ValueError"), ("steps", Json.arr #[])]
        | some s =>
          Json.mkObj [("init", "ok"), ("state", stateOut s), ("steps", .arr (runSteps s ops).toArray)]
    | _, _, _, _ => Json.mkObj [("bad-op", "hist: malformed init")]

end SysLoss
