/-
  Driver/Hist — command(s) of the `hist` family (stub: filled in by the owner of the corresponding properties).
-/
import SysLoss.Driver.Wire

open Lean

namespace SysLoss

def cmdHist (j : Json) : Json :=
  Json.mkObj [("bad-op", "unimplemented: " ++ jStr j "cmd")]

end SysLoss
