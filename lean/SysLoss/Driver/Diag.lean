/-
  Driver/Diag — command(s) of the `diag` family (stub: filled in by the owner of the corresponding properties).
-/
import SysLoss.Driver.Wire

open Lean

namespace SysLoss

def cmdDiag (j : Json) : Json :=
  Json.mkObj [("bad-op", "unimplemented: " ++ jStr j "cmd")]

end SysLoss
