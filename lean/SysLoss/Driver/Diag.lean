/-
  Driver/Diag — command `diag` (property C19): evaluate `Model/Diagram.diagRun` on a JSON description.

  in : {"cmd":"diag", "name": str, "group": bool,
        "comps": [{"name","kind","group"}…]            -- attrs["nodes"] insertion order
        "edges": [[parent, child]…],
        "config": {"graph": [[k,v]…]|null, "cluster": [[name,[[k,v]…]]…]|null, "node": …|null,
                   "edge": [[k,v]…]|null, "other": [str…]},        -- `{}` = all null, no other keys
        "heat": null | {"rows":[str…], "phases":[[name,num]…], "loss":[[num…]…]}}
  out: {"ok":true, "graph":{…}, "heat":[{"name","loss","mix"}…]|null, "maxloss": "n/d"|null, "config_after":{…}}
     | {"ok":false, "err":{"cls","detail"}, "config_after":{…}}
  Every node and edge endpoint also carries `rid`, the identifier Graphviz reads back from `_q(name)`
  (`renderedId`; null when DOT cannot express the name, finding F23f).
  Anything malformed answers `bad-op`.
-/
import SysLoss.Driver.Wire
import SysLoss.Model.Diagram

open Lean

namespace SysLoss
open Diagram

namespace DiagWire

def strArr? (j : Json) : Except String (List String) :=
  match j with
  | .arr a => a.toList.mapM fun x => match x with | .str s => .ok s | _ => .error "string expected"
  | _ => .error "array of strings expected"

def attrs? (j : Json) : Except String Attrs :=
  match j with
  | .arr a => a.toList.mapM fun p =>
      match p with
      | .arr #[.str k, .str v] => .ok (k, v)
      | _ => .error "attribute pair [str, str] expected"
  | _ => .error "attribute list expected"

def sect? (j : Json) : Except String Sect :=
  match j with
  | .arr a => a.toList.mapM fun p =>
      match p with
      | .arr #[.str k, v] => (attrs? v).map fun d => (k, d)
      | _ => .error "section entry [str, attrs] expected"
  | _ => .error "section expected"

def optField (j : Json) (k : String) (f : Json → Except String β) : Except String (Option β) :=
  match j.getObjVal? k with
  | .ok .null => .ok none
  | .ok v => (f v).map some
  | .error _ => .error ("missing field " ++ k)

def config? (j : Json) : Except String Config := do
  let g ← optField j "graph" attrs?
  let c ← optField j "cluster" sect?
  let n ← optField j "node" sect?
  let e ← optField j "edge" attrs?
  let o ← match j.getObjVal? "other" with
    | .ok v => strArr? v
    | .error _ => .error "missing field other"
  pure { graph := g, cluster := c, node := n, edge := e, other := o }

def comp? (j : Json) : Except String CompIn :=
  match j.getObjValAs? String "name", j.getObjValAs? String "kind", j.getObjValAs? String "group" with
  | .ok n, .ok k, .ok g =>
    match kindOf k with
    | some kd => .ok { name := n, kind := kd, group := g }
    | none => .error ("bad kind " ++ k)
  | _, _, _ => .error "component {name, kind, group} expected"

def edge? (j : Json) : Except String (String × String) :=
  match j with
  | .arr #[.str a, .str b] => .ok (a, b)
  | _ => .error "edge [str, str] expected"

def rat? (j : Json) : Except String Rat :=
  match (numOf j : Option Rat) with
  | some x => .ok x
  | none => .error "number expected"

def heat? (j : Json) : Except String (HeatIn Rat) := do
  let rows ← match j.getObjVal? "rows" with | .ok v => strArr? v | .error _ => .error "missing rows"
  let phases ← match j.getObjVal? "phases" with
    | .ok (.arr a) => a.toList.mapM fun p =>
        match p with
        | .arr #[.str k, v] => (rat? v).map fun x => (k, x)
        | _ => .error "phase [str, num] expected"
    | _ => .error "missing phases"
  let loss ← match j.getObjVal? "loss" with
    | .ok (.arr a) => a.toList.mapM fun l =>
        match l with
        | .arr b => b.toList.mapM rat?
        | _ => .error "loss list expected"
    | _ => .error "missing loss"
  pure { rows := rows, phases := phases, loss := loss }

def attrsOut (d : Attrs) : Json := .arr (d.map fun kv => .arr #[.str kv.1, .str kv.2]).toArray
def sectOut (s : Sect) : Json := .arr (s.map fun kv => .arr #[.str kv.1, attrsOut kv.2]).toArray
def optOutJ (f : β → Json) : Option β → Json | some x => f x | none => .null

def configOut (c : Config) : Json :=
  Json.mkObj [("graph", optOutJ attrsOut c.graph), ("cluster", optOutJ sectOut c.cluster),
              ("node", optOutJ sectOut c.node), ("edge", optOutJ attrsOut c.edge),
              ("other", .arr (c.other.map Json.str).toArray)]

def ridOut (n : String) : Json := match renderedId n with | some r => Json.str r | none => .null

def nodeOut (n : DNode) : Json :=
  Json.mkObj [("name", n.name), ("rid", ridOut n.name), ("attrs", attrsOut n.attrs)]

def graphOut (d : DotGraph) : Json :=
  Json.mkObj [
    ("name", d.name), ("attrs", attrsOut d.attrs),
    ("clusters", .arr (d.clusters.map fun c =>
        Json.mkObj [("name", c.name), ("label", c.label), ("attrs", attrsOut c.attrs),
                    ("nodes", .arr (c.nodes.map nodeOut).toArray)]).toArray),
    ("nodes", .arr (d.nodes.map nodeOut).toArray),
    ("scale", optOutJ nodeOut d.scale),
    ("edges", .arr (d.edges.map fun e =>
        Json.mkObj [("src", e.src), ("dst", e.dst), ("rsrc", ridOut e.src), ("rdst", ridOut e.dst),
                    ("attrs", attrsOut e.attrs)]).toArray)]

def ratOut (q : Rat) : Json := Json.str (toString q.num ++ "/" ++ toString q.den)

def run (j : Json) : Except String Json := do
  let name ← match j.getObjValAs? String "name" with | .ok s => pure s | .error _ => throw "missing name"
  let group ← match j.getObjValAs? Bool "group" with | .ok b => pure b | .error _ => throw "missing group"
  let comps ← match j.getObjVal? "comps" with
    | .ok (.arr a) => a.toList.mapM comp?
    | _ => throw "missing comps"
  let edges ← match j.getObjVal? "edges" with
    | .ok (.arr a) => a.toList.mapM edge?
    | _ => throw "missing edges"
  let cfg ← match j.getObjVal? "config" with
    | .ok v => config? v
    | .error _ => throw "missing config"
  let heat ← optField j "heat" heat?
  let (res, after) := diagRun name comps edges cfg group heat
  match res with
  | .error e => pure (Json.mkObj [("ok", false), ("err", errOut e), ("config_after", configOut after)])
  | .ok d =>
    let hrows : Json := match heat with
      | none => .null
      | some h => .arr ((prepLoss h).map fun r =>
          Json.mkObj [("name", r.name), ("loss", ratOut r.loss), ("mix", ratOut r.mix),
                      ("nice", niceFloat r.loss)]).toArray
    let mx : Json := match heat with
      | none => .null
      | some h => ratOut (maxOf (heatLosses h))
    pure (Json.mkObj [("ok", true), ("graph", graphOut d), ("heat", hrows), ("maxloss", mx),
                      ("config_after", configOut after)])

end DiagWire

def cmdDiag (j : Json) : Json :=
  match jStr j "cmd" with
  | "diag" =>
    (match DiagWire.run j with
     | .ok r => r
     | .error m => Json.mkObj [("bad-op", "diag: " ++ m)])
  | c => Json.mkObj [("bad-op", "unknown diag command: " ++ c)]

end SysLoss
