/-
  Driver/Sys — commands `cert` (certificate mode: assemble the table and the sweep residuals from the
  implementation's own `(v, i)`) and `run` (replay mode: run the model's solver).
-/
import SysLoss.Driver.Wire
import SysLoss.Spec.Laws

open Lean

namespace SysLoss
section
variable {α : Type} [Add α] [Sub α] [Mul α] [Div α] [Neg α] [LT α] [DecidableLT α]
  [OfNat α 0] [OfNat α 1] [OfNat α 2] [OfNat α 24] [OfNat α 100] [OfNat α 3600] [OfNat α 1000000]
  [Wire α]

def natList (a : Array Json) : List Nat :=
  a.toList.filterMap fun j => match j.getNat? with | .ok n => some n | .error _ => none

def pconfOf (j : Option Json) : PhaseConf α :=
  match j with
  | none => .table []
  | some o =>
    match o.getObjVal? "names" with
    | .ok (.arr a) => .names (a.toList.filterMap fun x => match x with | .str s => some s | _ => none)
    | _ =>
      match o.getObjVal? "table" with
      | .ok (.arr a) => .table (a.toList.filterMap fun p =>
          match p with
          | .arr #[.str k, v] => (numOf v).map fun x => (k, x)
          | _ => none)
      | _ => .table []

def phasesOf (j : Json) : List (String × α) :=
  (jArr j "phases").toList.filterMap fun p =>
    match p with
    | .arr #[.str k, v] => (numOf v).map fun x => (k, x)
    | _ => none

/-- parse a system description; a constructor error is reported with the component's name -/
def ssysOf (j : Json) : Except (String × Err) (SSys α) := do
  let nodes := jArr j "nodes"
  let hidx := jNat j "hidx"
  let mut arr : Array (Option (SNode α)) := Array.replicate hidx none
  for nj in nodes do
    let name := jStr nj "name"
    match kindOf (jStr nj "kind") with
    | none => throw (name, .other "bad-kind")
    | some k =>
      match mkComp k name (argsOf (α := α) ((nj.getObjVal? "args").toOption.getD .null)) with
      | .error e => throw (name, e)
      | .ok c =>
        let nd : SNode α := {
          comp := c
          parents := natList (jArr nj "parents")
          childs := natList (jArr nj "childs")
          pconf := pconfOf (jObj? nj "pconf")
          group := jStr nj "group"
          rail := jStr nj "rail" }
        arr := arr.setIfInBounds (jNat nj "id") (some nd)
  pure { nodes := arr, topo := natList (jArr j "topo"), phases := phasesOf j }

def rowOut (r : Row α) : Json :=
  Json.mkObj [("name", r.name), ("typ", r.typ), ("parent", r.parent), ("railIn", r.railIn),
    ("domain", r.domain), ("group", r.group), ("railOut", r.railOut), ("phase", r.phase),
    ("vin", optOut r.vin), ("vout", optOut r.vout), ("iin", optOut r.iin), ("iout", optOut r.iout),
    ("pwr", optOut r.pwr), ("loss", optOut r.loss), ("eff", optOut r.eff), ("tr", optOut r.tr),
    ("tp", optOut r.tp), ("ener", optOut r.ener), ("warn", r.warn)]

def railOut (r : RailRow α) : Json :=
  Json.mkObj [("phase", r.phase), ("rail", r.rail), ("volt", Wire.out r.volt), ("curr", Wire.out r.curr),
    ("pwr", Wire.out r.pwr), ("loss", Wire.out r.loss), ("eff", Wire.out r.eff),
    ("warn", .arr (r.warn.map Json.str).toArray)]

def vecOf (j : Json) (k : String) (n : Nat) : Vec α :=
  let a := (jArr j k).toList.map fun x => (numOf x).getD (0 : α)
  (a ++ List.replicate (n - a.length) 0).toArray

def cfgOf (j : Json) : Cfg α :=
  let c := (j.getObjVal? "cfg").toOption.getD .null
  { atol := jNum c "atol" 0, vtol := jNum c "vtol" 0, itol := jNum c "itol" 0, maxiter := jNat c "maxiter" }

def tableOut (t : Table α) : List (String × Json) :=
  [("phases", .arr (t.phases.map fun (ph, pt) =>
      Json.mkObj [("phase", ph), ("rows", .arr (pt.comps.map rowOut).toArray),
        ("subs", .arr (pt.subs.map rowOut).toArray), ("total", rowOut pt.total),
        ("nsrc", pt.nsrc)]).toArray),
   ("avg", match t.avg with | some r => rowOut r | none => .null),
   ("rails", .arr ((railRep t).map railOut).toArray)]

/-- `cert`: table assembled from the implementation's `(v, i)`; one-more-sweep values `F`, `G`. -/
def cmdCert (j : Json) : Json :=
  match ssysOf (α := α) ((j.getObjVal? "sys").toOption.getD .null) with
  | .error (n, e) => Json.mkObj [("ok", false), ("ctor_error", errOut e), ("comp", n)]
  | .ok s =>
    let ta : α := jNum j "ta" 0
    let obs := (jArr j "obs").toList
    let outs := obs.map fun o =>
      let ph := jStr o "phase"
      let v : Vec α := vecOf o "v" s.hidx
      let i : Vec α := vecOf o "i" s.hidx
      (ph, v, i, s.flagsOf ph v)
    let t := s.assemble ta outs
    let sweeps := outs.map fun (ph, v, i, st) =>
      let fs := s.topo.map fun n => (n, s.fwdAt ph v i st n)
      let ferr := fs.findSome? fun (_, r) => match r with | .error e => some e | .ok _ => none
      let v' : Vec α := fs.foldl (init := Array.replicate s.hidx (0 : α)) fun acc (n, r) =>
        match r with | .ok (x, _) => acc.setIfInBounds n x | .error _ => acc
      let g := s.backProp ph v' i st
      -- the documented laws evaluated on the implementation's own row values (Vin, Iout)
      let rows := (jArr ((obs.find? fun o => jStr o "phase" == ph).getD .null) "rows").toList
      let spec := rows.filterMap fun rj =>
        match rj with
        | .arr #[idj, vinj, ioj] =>
          let n := (idj.getNat?).toOption.getD 0
          (s.node? n).map fun nd =>
            let vin : α := (numOf vinj).getD 0
            let io : α := (numOf ioj).getD 0
            let k := (nd.parents.map (vget v)).findIdx? (fun x => !isZ x)
            let rsel := nd.comp.muxRs (k.getD 0)
            let phc := nd.pconf.ctx ph
            Json.mkObj [("id", n), ("vo", Wire.out (specVo nd.comp rsel vin io phc)),
              ("ii", Wire.out (specIi nd.comp vin io phc)),
              ("sel", match k with | some k => Json.num (Int.ofNat k) | none => Json.num (-1))]
        | _ => none
      Json.mkObj [("phase", ph), ("F", .arr (v'.map Wire.out)), ("G", .arr (g.map Wire.out)),
        ("Ferr", match ferr with | some e => errOut e | none => .null), ("spec", .arr spec.toArray)]
    Json.mkObj ([("ok", Json.bool true), ("sweeps", .arr sweeps.toArray)] ++ tableOut t)

/-- `run`: the model's own solver -/
def cmdRun (j : Json) : Json :=
  match ssysOf (α := α) ((j.getObjVal? "sys").toOption.getD .null) with
  | .error (n, e) => Json.mkObj [("ok", false), ("ctor_error", errOut e), ("comp", n)]
  | .ok s =>
    let ta : α := jNum j "ta" 0
    let cfg : Cfg α := cfgOf j
    let pl := phaseList s.phases (jStr j "phase")
    match pl with
    | .error e => Json.mkObj [("ok", false), ("error", errOut e)]
    | .ok pl =>
      let rec go (phs : List String) (acc : List (String × Vec α × Vec α × St)) (its : List Nat) :
          Except Err (List (String × Vec α × Vec α × St) × List Nat) :=
        match phs with
        | [] => .ok (acc, its)
        | ph :: rest =>
          match s.solveRaw cfg ph with
          | .error e => .error e
          | .ok r =>
            if r.iters > cfg.maxiter then .error (.runtime "Steady-state not achieved")
            else go rest (acc ++ [(ph, r.v, r.i, r.st)]) (its ++ [r.iters])
      match go pl [] [] with
      | .error e => Json.mkObj [("ok", false), ("error", errOut e)]
      | .ok (outs, its) =>
        let t := s.assemble ta outs
        Json.mkObj ([("ok", Json.bool true), ("iters", .arr (its.map fun (n : Nat) => (n : Json)).toArray),
          ("vecs", .arr (outs.map fun (ph, v, i, _) =>
            Json.mkObj [("phase", ph), ("v", .arr (v.map Wire.out)), ("i", .arr (i.map Wire.out))]).toArray)]
          ++ tableOut t)

/-- damped iteration `x ← x + λ (Φ(x) − x)` of the model's sweep map `Φ`, `k` times -/
def relaxLoop (s : SSys α) (ph : String) (lam : α) : Nat → Vec α → Vec α → St → Except Err (Vec α × Vec α × St)
  | 0, v, i, st => .ok (v, i, st)
  | k + 1, v, i, st => do
    let (v', st') ← s.fwdProp ph v i st
    let i' := s.backProp ph v' i st
    let mix := fun (a b : Vec α) => Array.zipWith (fun x y => x + lam * (y - x)) a b
    relaxLoop s ph lam k (mix v v') (mix i i') st'

/-- `relax`: an independent route to a steady state (used only to decide whether a modest-drop steady state EXISTS when
    `solve()` raised: the liveness clause of C03 is conditional on that).  Returns the table assembled from the relaxed
    vectors and the one-more-sweep vectors, so that the caller can judge convergence and the size of the drops. -/
def cmdRelax (j : Json) : Json :=
  match ssysOf (α := α) ((j.getObjVal? "sys").toOption.getD .null) with
  | .error (n, e) => Json.mkObj [("ok", false), ("ctor_error", errOut e), ("comp", n)]
  | .ok s =>
    let ta : α := jNum j "ta" 0
    let lam : α := jNum j "lambda" 1
    let ph := jStr j "phase"
    let (v0, i0, st0) := s.init ph
    match relaxLoop s ph lam (jNat j "steps") v0 i0 st0 with
    | .error e => Json.mkObj [("ok", false), ("error", errOut e)]
    | .ok (v, i, st) =>
      match s.fwdProp ph v i st with
      | .error e => Json.mkObj [("ok", false), ("error", errOut e)]
      | .ok (v', _) =>
        let i' := s.backProp ph v' i st
        let t := s.assemble ta [(ph, v, i, st)]
        Json.mkObj ([("ok", Json.bool true), ("v", .arr (v.map Wire.out)), ("i", .arr (i.map Wire.out)),
          ("F", .arr (v'.map Wire.out)), ("G", .arr (i'.map Wire.out))] ++ tableOut t)

end
end SysLoss
