/-
  Driver/Probe — command(s) of the `probe` family (stub: filled in by the owner of the corresponding properties).
-/
import SysLoss.Driver.Wire

open Lean

namespace SysLoss

def cmdProbe (j : Json) : Json :=
  Json.mkObj [("bad-op", "unimplemented: " ++ jStr j "cmd")]

end SysLoss
