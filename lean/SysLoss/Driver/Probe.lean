/-
  Driver/Probe — commands `interp` (table evaluation, C10) and `ctor` (constructor call, C11).

  interp : {"cmd":"interp","carrier":…,"table":<PV dict, optional "__diag">,"z":"eff"|"vdrop"|"ig",
            "queries":[[x,y],…]}
           → {"ok":true,"dim":1|2,"values":[…],"values_t":[…],"values_f":[…]}
             (`values` under the transmitted diagonal choice, `values_t` / `values_f` with every cell cut
              by the low-low/high-high resp. the other diagonal; equal to `values` for 1-D tables)
           | {"ok":false,"error":{cls,detail}}         (`mkTable` rejected the table)
  ctor   : {"cmd":"ctor","carrier":…,"kind":…,"name":…,"args":<PV dict>}
           → {"ok":true,"params":<PV of Comp.params>,"fields":{…normalised numeric fields…},
              "par":{"dim":0|1|2,"const":…},"limits":[[key,[lo,hi]],…]}
           | {"ok":false,"error":{cls,detail}}
-/
import SysLoss.Driver.Wire

open Lean

namespace SysLoss
section
variable {α : Type} [Add α] [Sub α] [Mul α] [Div α] [Neg α] [LT α] [DecidableLT α]
  [OfNat α 0] [OfNat α 1] [OfNat α 2] [OfNat α 100] [OfNat α 1000000] [Wire α]

/-- the same table with every cell cut by the same diagonal -/
def Param.withDiag (p : Param α) (d : Bool) : Param α :=
  match p with
  | .tab2 xs ys f _ => .tab2 xs ys f (List.replicate ys.length (List.replicate xs.length d))
  | q => q

def Param.dim : Param α → Nat
  | .const _ => 0 | .tab1 _ _ => 1 | .tab2 _ _ _ _ => 2

def cmdInterp (j : Json) : Json :=
  match (pvOf (α := α) ((j.getObjVal? "table").toOption.getD .null)) with
  | .dict d =>
    match mkTable d (jStr j "z") with
    | .error e => Json.mkObj [("ok", false), ("error", errOut e)]
    | .ok (p, _) =>
      let qs : List (Option (α × α)) := (jArr j "queries").toList.map fun q =>
        match q with
        | .arr #[a, b] => (match numOf a, numOf b with | some x, some y => some (x, y) | _, _ => none)
        | _ => none
      if qs.any Option.isNone then Json.mkObj [("bad-op", "interp: malformed query")]
      else
        let ev (p : Param α) : Json :=
          .arr (qs.filterMap fun q => q.map fun (x, y) => Wire.out (p.interp x y)).toArray
        Json.mkObj [("ok", true), ("dim", p.dim), ("values", ev p),
          ("values_t", ev (p.withDiag true)), ("values_f", ev (p.withDiag false))]
  | _ => Json.mkObj [("bad-op", "interp: table is not a dict")]

def cmdCtor (j : Json) : Json :=
  match kindOf (jStr j "kind") with
  | none => Json.mkObj [("bad-op", "ctor: unknown kind " ++ jStr j "kind")]
  | some k =>
    match j.getObjVal? "args" with
    | .error _ => Json.mkObj [("bad-op", "ctor: no args")]
    | .ok aj =>
      match mkComp k (jStr j "name") (argsOf (α := α) aj) with
      | .error e => Json.mkObj [("ok", false), ("error", errOut e)]
      | .ok c =>
        Json.mkObj [("ok", true),
          ("params", pvOut (PV.dict c.params)),
          ("fields", Json.mkObj [("vo", Wire.out c.vo), ("rs", Wire.out c.rs),
            ("rsList", match c.rsList with
              | some l => .arr (l.map Wire.out).toArray | none => .null),
            ("vdrop", Wire.out c.vdrop), ("iq", Wire.out c.iq), ("iis", Wire.out c.iis),
            ("rt", Wire.out c.rt), ("pwr", Wire.out c.pwr), ("pwrs", Wire.out c.pwrs),
            ("ii", Wire.out c.ii), ("loss", c.loss), ("diode", c.diode)]),
          ("par", Json.mkObj [("dim", c.par.dim),
            ("const", match c.par with | .const v => Wire.out v | _ => .null)]),
          ("limits", .arr (c.limits.map fun (key, (lo, hi)) =>
            Json.arr #[.str key, .arr #[Wire.out lo, Wire.out hi]]).toArray)]

end

def cmdProbe (j : Json) : Json :=
  let fl := jStr j "carrier" == "float"
  match jStr j "cmd" with
  | "interp" => if fl then cmdInterp (α := Float) j else cmdInterp (α := Rat) j
  | "ctor" => if fl then cmdCtor (α := Float) j else cmdCtor (α := Rat) j
  | c => Json.mkObj [("bad-op", "probe: " ++ c)]

end SysLoss
