/-
  Driver/Batt — command `batt`: `Model/Batt.battLife` on a scripted callback stream (C18, C17 clause 3).

  Certificate style: the solver parameter `solveI` is replayed from what the implementation's solver produced — a
  table `(vo, rs, phase) ↦ current | did-not-converge | exception class`, looked up with exact equality.  A solve the table has no
  entry for answers the exception `no-certificate`, so a run that asks the solver anything the implementation did not
  (another phase order, other source parameters) cannot agree with it.

  in : {"cmd":"batt", "carrier":"rat"|"float",
        "nodes":[[name, kind]…], "rails":[[component, rail]…], "battery": name,
        "params":[[source name, vo, rs]…]       (`params()` rows of the Sources before the call)
        "cutoff": num, "phases":[[name, num]…],
        "probe": cb, "deplete":[cb…]            cb = {"ret":[cap, volt, rs]} | {"raise": class}
        "solve":[[vo, rs, phase, {"i": num} | {"nonconv": true} | {"err": class}]…]}
           ({"i"} = converged with that current; {"nonconv"} = `_solve` came back with iters = maxiter + 1)
  out: {"outcome": "ok" | "exhausted" | {"raised": {"cls", "detail"}},
        "log":[[t, cap, volt, rs]…], "calls":[[dt, i]…],
        "resolved": component the name resolves to | null, "vo": num, "rs": num   (of that component, afterwards)}
-/
import SysLoss.Driver.Wire
import SysLoss.Model.Batt

open Lean

namespace SysLoss
namespace Batt
section
variable {α : Type} [Add α] [Sub α] [Mul α] [Div α] [Neg α] [LT α] [DecidableLT α]
  [OfNat α 0] [OfNat α 1] [OfNat α 10] [OfNat α 36] [Wire α]

def errOfClass (cls : String) : Err :=
  match cls with
  | "ValueError(unstable)" => .unstable ""
  | "ValueError" => .value ""
  | "KeyError" => .key ""
  | "TypeError" => .type ""
  | "RuntimeError" => .runtime ""
  | c => .other c

def cbOf (j : Json) : Option (Cb α) :=
  match j.getObjVal? "ret" with
  | .ok (.arr #[c, v, r]) => do
    let c ← numOf c
    let v ← numOf v
    let r ← numOf r
    pure (.ret ⟨c, v, r⟩)
  | _ =>
    match j.getObjValAs? String "raise" with
    | .ok cls => some (.raise (errOfClass cls))
    | .error _ => none

/-- all-or-nothing list parse -/
def allSome {β γ : Type} (f : β → Option γ) (l : List β) : Option (List γ) :=
  l.foldr (fun x acc => do let y ← f x; let ys ← acc; pure (y :: ys)) (some [])

def pairOf (j : Json) : Option (String × String) :=
  match j with
  | .arr #[.str a, .str b] => some (a, b)
  | _ => none

def nodeOf (j : Json) : Option (String × Kind) :=
  match j with
  | .arr #[.str a, .str k] => (kindOf k).map fun k => (a, k)
  | _ => none

def phaseOf (j : Json) : Option (String × α) :=
  match j with
  | .arr #[.str k, v] => (numOf v).map fun x => (k, x)
  | _ => none

/-- one line of the solver certificate -/
def solveEntryOf (j : Json) : Option (α × α × String × Except Err (α × Nat)) :=
  match j with
  | .arr #[vo, rs, .str ph, res] => do
    let vo ← numOf vo
    let rs ← numOf rs
    match res.getObjVal? "i" with
    | .ok x => do let i ← numOf x; pure (vo, rs, ph, .ok (i, 0))
    | .error _ =>
      match res.getObjValAs? String "err" with
      | .ok cls => pure (vo, rs, ph, .error (errOfClass cls))
      | .error _ =>
        match res.getObjValAs? Bool "nonconv" with
        | .ok true => pure (vo, rs, ph, .ok (0, 10001))
        | _ => none
  | _ => none

/-- the solver replayed from the certificate -/
def solveOfTable (tab : List (α × α × String × Except Err (α × Nat))) (vo rs : α) (phase : String) :
    Except Err (α × Nat) :=
  match tab.find? (fun e => eqB e.1 vo && eqB e.2.1 rs && e.2.2.1 == phase) with
  | some e => e.2.2.2
  | none => .error (.other "no-certificate")

def paramOf (j : Json) : Option (String × α × α) :=
  match j with
  | .arr #[.str n, vo, rs] => do
    let vo ← numOf vo
    let rs ← numOf rs
    pure (n, vo, rs)
  | _ => none

def outcomeOut (o : Outcome) : Json :=
  match o with
  | .ok => "ok"
  | .exhausted => "exhausted"
  | .raised e => Json.mkObj [("raised", errOut e)]

def run (j : Json) : Json :=
  let parsed : Option (Input α × List (α × α × String × Except Err (α × Nat))) := do
    let nodes ← allSome nodeOf (jArr j "nodes").toList
    let rails ← allSome pairOf (jArr j "rails").toList
    let battery ← (j.getObjValAs? String "battery").toOption
    let params ← allSome (paramOf (α := α)) (jArr j "params").toList
    let reg : Reg := ⟨nodes, rails⟩
    -- `_params` of the node the name resolves to (0, 0 for a node without a Source row: never read then)
    let (vo, rs) := match reg.getIndex battery with
      | some (c, _) => (params.lookup c).getD (0, 0)
      | none => (0, 0)
    let cutoff ← (j.getObjVal? "cutoff").toOption >>= numOf
    let phases ← allSome phaseOf (jArr j "phases").toList
    let probe ← (j.getObjVal? "probe").toOption >>= cbOf
    let deplete ← allSome cbOf (jArr j "deplete").toList
    let tab ← allSome solveEntryOf (jArr j "solve").toList
    pure ({ reg, battery, vo, rs, cutoff, phases, probe, deplete }, tab)
  match parsed with
  | none => Json.mkObj [("bad-op", "batt: malformed input")]
  | some (inp, tab) =>
    let out := battLife inp (solveOfTable tab)
    Json.mkObj [
      ("outcome", outcomeOut out.outcome),
      ("log", .arr (out.log.map fun r => .arr #[Wire.out r.t, Wire.out r.cap, Wire.out r.volt, Wire.out r.rs]).toArray),
      ("calls", .arr (out.calls.map fun c => .arr #[Wire.out c.1, Wire.out c.2]).toArray),
      ("resolved", match inp.reg.getIndex inp.battery with | some (c, _) => Json.str c | none => Json.null),
      ("vo", Wire.out out.vo),
      ("rs", Wire.out out.rs)]

end
end Batt

def cmdBatt (j : Json) : Json :=
  match jStr j "carrier" with
  | "float" => Batt.run (α := Float) j
  | "rat" => Batt.run (α := Rat) j
  | c => Json.mkObj [("bad-op", "batt: carrier " ++ c)]

end SysLoss
