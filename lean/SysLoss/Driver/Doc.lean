/-
  Driver/Doc — commands of the `doc` family (save / from_file documents, C12) and the `toml` family
  (component files, C13).

    {"cmd":"doc","op":"save","ver":V,"topo":[names],"sys":DESC}                → {"doc": PV}
    {"cmd":"doc","op":"load","lib":V,"doc":PV,"topo2":[names]?}                 → {"ok": SYS, "doc2": PV?} | {"err": …}
    {"cmd":"doc","op":"roundtrip","ver":V,"topo":[…],"topo2":[…]?,"sys":DESC}   → {"doc": PV, "load": {"ok"|"err"}, "doc2": PV?}
    {"cmd":"toml","op":"load","kind":K,"name":N,"config":PV}                    → {"ok": COMP} | {"err": …}
    {"cmd":"toml","op":"ctor","kind":K,"name":N,"args":PV}                      → {"ok": COMP} | {"err": …}
    {"cmd":"toml","op":"schema"}                                                → the `_cparams` tables of the model

  DESC = {"name", "comps":[{"kind","name","args":PV,"parents":[names],"group","rail","pconf":PV|null}], "phases":PV}
-/
import SysLoss.Driver.Wire
import SysLoss.Model.Persist

open Lean

namespace SysLoss
section
variable {α : Type} [Add α] [Sub α] [Mul α] [Div α] [Neg α] [LT α] [DecidableLT α]
  [OfNat α 0] [OfNat α 1] [OfNat α 2] [OfNat α 100] [OfNat α 1000000] [Wire α]

def strList (a : Array Json) : List String :=
  a.toList.filterMap fun j => match j with | .str s => some s | _ => none

def compOut (c : Comp α) : Json :=
  Json.mkObj [("kind", c.kind.tomlName), ("type", c.kind.ctype.name), ("name", c.name),
    ("params", pvOut (.dict c.params)), ("applims", pvOut (applims c)), ("diode", c.diode),
    ("limits", .arr (c.limits.map fun (k, l) => Json.arr #[.str k, Wire.out l.1, Wire.out l.2]).toArray)]

def nodeOut (n : Node α) : Json :=
  (compOut n.comp).setObjVal! "parents" (.arr (n.parents.map Json.str).toArray)

def sysOut (s : SysDesc α) : Json :=
  Json.mkObj [("name", s.name), ("nodes", .arr (s.nodes.map nodeOut).toArray), ("phases", pvOut s.phases),
    ("phase_conf", pvOut s.phaseConf), ("groups", pvOut s.groups), ("rails", pvOut s.rails)]

/-- parse a description; a constructor error is reported with the component's name -/
def descOf (j : Json) : Except (String × Err) (SysDesc α) := do
  let mut parts : List (Node α × String × String × PV α) := []
  for cj in jArr j "comps" do
    let name := jStr cj "name"
    match kindOf (jStr cj "kind") with
    | none => throw (name, .other "bad-kind")
    | some k =>
      match mkComp k name (argsOf (α := α) ((cj.getObjVal? "args").toOption.getD .null)) with
      | .error e => throw (name, e)
      | .ok c =>
        let pconf : PV α := match jObj? cj "pconf" with | some p => pvOf p | none => .dict []
        parts := parts ++ [({ comp := c, parents := strList (jArr cj "parents") },
                            jStr cj "group", jStr cj "rail", pconf)]
  let phases : PV α := match jObj? j "phases" with | some p => pvOf p | none => .dict []
  pure (SysDesc.ofParts (jStr j "name") parts phases)

def resOut (r : Except Err (SysDesc α)) (topo2 : Option (List String)) (ver : String) : List (String × Json) :=
  match r with
  | .error e => [("load", Json.mkObj [("err", errOut e)])]
  | .ok s =>
    [("load", Json.mkObj [("ok", sysOut s)])] ++
    (match topo2 with
     | some t => [("doc2", pvOut (save ver t s))]
     | none => [])

def topo2Of (j : Json) : Option (List String) :=
  match j.getObjVal? "topo2" with
  | .ok (.arr a) => some (strList a)
  | _ => none

def cmdDocAt (j : Json) : Json :=
  let op := jStr j "op"
  match jStr j "cmd", op with
  | "doc", "save" | "doc", "roundtrip" =>
    (match descOf (α := α) ((j.getObjVal? "sys").toOption.getD .null) with
     | .error (n, e) => Json.mkObj [("bad-desc", n), ("err", errOut e)]
     | .ok s =>
       let ver := jStr j "ver"
       let doc := save ver (strList (jArr j "topo")) s
       if op == "save" then Json.mkObj [("doc", pvOut doc)]
       else Json.mkObj ([("doc", pvOut doc), ("saveable", saveableb (strList (jArr j "topo")) s)] ++
              resOut (fromFile ver doc) (topo2Of j) ver))
  | "doc", "load" =>
    let lib := jStr j "lib"
    let doc : PV α := pvOf ((j.getObjVal? "doc").toOption.getD .null)
    Json.mkObj (resOut (fromFile lib doc) (topo2Of j) lib)
  | "toml", "load" | "toml", "ctor" =>
    (match kindOf (jStr j "kind") with
     | none => Json.mkObj [("bad-op", "kind")]
     | some k =>
       let r : Except Err (Comp α) :=
         if op == "load" then fromToml k (jStr j "name") (pvOf ((j.getObjVal? "config").toOption.getD .null))
         else mkComp k (jStr j "name") (argsOf ((j.getObjVal? "args").toOption.getD .null))
       match r with
       | .ok c => Json.mkObj [("ok", compOut c)]
       | .error e => Json.mkObj [("err", errOut e)])
  | "toml", "schema" =>
    Json.mkObj (allKinds.map fun k => (k.tomlName, Json.mkObj [
      ("generic", k.genericLoader),
      ("schema", .arr (k.schema.map fun sk => Json.mkObj [("key", sk.key), ("opt", sk.opt),
          ("typ", .arr (sk.typ.map fun t => Json.str t.name).toArray),
          ("def", match sk.dflt with | some .zero => Json.str "0.0" | some .no => Json.str "False" | none => .null)]).toArray),
      ("ctor", .arr (k.ctorKeys.map fun (key, d) => Json.arr #[.str key,
          match d with | some .zero => Json.str "0.0" | some .no => Json.str "False" | none => .null]).toArray),
      ("limits", .arr (k.limitKeys.map Json.str).toArray)]))
  | c, o => Json.mkObj [("bad-op", c ++ "/" ++ o)]

end

def cmdDoc (j : Json) : Json :=
  if jStr j "carrier" == "float" then cmdDocAt (α := Float) j else cmdDocAt (α := Rat) j

end SysLoss
