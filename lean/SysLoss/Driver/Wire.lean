/-
  Driver/Wire — JSON wire format shared by all driver commands.

  Numbers cross the boundary exactly: a Python float is `{"$f": "<decimal of its 64 IEEE bits>"}`,
  a Python int `{"$i": "<decimal>"}`; the driver answers rationals as `"n/d"` strings and floats as
  `"b<bits>"`.  Dicts are plain JSON objects (keys never start with `$`), lists are arrays.
-/
import Lean.Data.Json
import SysLoss.Model.Ctor
import SysLoss.Model.Table

open Lean

namespace SysLoss

class Wire (α : Type) where
  ofBits : UInt64 → α
  ofInt  : Int → α
  out    : α → Json

def bitsToRat (b : UInt64) : Rat :=
  let n : Nat := b.toNat
  let neg : Bool := (n >>> 63) == 1
  let e : Nat := (n >>> 52) % 2048
  let m : Nat := n % (2^52)
  let full : Nat := 2^52 + m
  let mag : Rat :=
    if e == 0 then mkRat (Int.ofNat m) (2^1074)
    else if e == 2047 then 0
    else if e ≥ 1075 then ((Int.ofNat (full * 2^(e - 1075)) : Int) : Rat)
    else mkRat (Int.ofNat full) (2^(1075 - e))
  if neg then -mag else mag

instance : Wire Rat where
  ofBits := bitsToRat
  ofInt z := (z : Rat)
  out q := Json.str (toString q.num ++ "/" ++ toString q.den)

instance : Wire Float where
  ofBits := Float.ofBits
  ofInt := Float.ofInt
  out f := Json.str ("b" ++ toString f.toBits.toNat)

section
variable {α : Type} [Wire α]

def jStr (j : Json) (k : String) : String :=
  match j.getObjValAs? String k with | .ok s => s | .error _ => ""
def jNat (j : Json) (k : String) : Nat :=
  match j.getObjValAs? Nat k with | .ok s => s | .error _ => 0
def jArr (j : Json) (k : String) : Array Json :=
  match j.getObjVal? k with | .ok (.arr a) => a | _ => #[]
def jObj? (j : Json) (k : String) : Option Json :=
  match j.getObjVal? k with | .ok v => (if v.isNull then none else some v) | _ => none
def jBool (j : Json) (k : String) : Bool :=
  match j.getObjValAs? Bool k with | .ok b => b | .error _ => false

def objPairs (j : Json) : List (String × Json) :=
  match j with
  | .obj kvs => kvs.toList   -- NB: sorted by key; ordered dicts are sent as arrays of pairs
  | _ => []

/-- a number: `{"$f": bits}`, `{"$i": int}`, or a plain JSON integer -/
def numOf (j : Json) : Option α :=
  match j with
  | .obj _ =>
    (match j.getObjValAs? String "$f" with
     | .ok s => s.toNat?.map fun n => Wire.ofBits (UInt64.ofNat n)
     | .error _ =>
       match j.getObjValAs? String "$i" with
       | .ok s => s.toInt?.map Wire.ofInt
       | .error _ => none)
  | .num n => if n.exponent == 0 then some (Wire.ofInt n.mantissa) else none
  | _ => none

def jNum (j : Json) (k : String) (d : α) : α :=
  match j.getObjVal? k with | .ok v => (numOf v).getD d | _ => d

/-- ordered dict on the wire: `{"$d": [[k, v], …]}` (insertion order matters) or a plain object -/
partial def pvOf (j : Json) : PV α :=
  match j with
  | .null => .null
  | .bool b => .bool b
  | .str s => .str s
  | .arr a => .list (a.toList.map pvOf)
  | .num n => if n.exponent == 0 then .int (Wire.ofInt n.mantissa) else .null
  | .obj _ =>
    match j.getObjValAs? String "$f" with
    | .ok s => (match s.toNat? with | some n => .float (Wire.ofBits (UInt64.ofNat n)) | none => .null)
    | .error _ =>
      match j.getObjValAs? String "$i" with
      | .ok s => (match s.toInt? with | some z => .int (Wire.ofInt z) | none => .null)
      | .error _ =>
        match j.getObjVal? "$d" with
        | .ok (.arr ps) => .dict (ps.toList.filterMap fun p =>
            match p with
            | .arr #[.str k, v] => some (k, pvOf v)
            | _ => none)
        | _ => .dict ((objPairs j).map fun (k, v) => (k, pvOf v))

partial def pvOut : PV α → Json
  | .null => .null
  | .bool b => .bool b
  | .int x => Json.mkObj [("$i", Wire.out x)]
  | .float x => Json.mkObj [("$f", Wire.out x)]
  | .str s => .str s
  | .list l => .arr (l.map pvOut).toArray
  | .dict d => Json.mkObj [("$d", .arr (d.map fun (k, v) => .arr #[.str k, pvOut v]).toArray)]

def kindOf (s : String) : Option Kind :=
  match s with
  | "source" => some .source | "pload" => some .pload | "iload" => some .iload
  | "rload" => some .rload | "rloss" => some .rloss | "vloss" => some .vloss
  | "converter" => some .converter | "linreg" => some .linreg | "pswitch" => some .pswitch
  | "pmux" => some .pmux | "rectifier" => some .rectifier | _ => none

def argsOf (j : Json) : Args α :=
  match (pvOf j : PV α) with
  | .dict d => d
  | _ => []

def errOut (e : Err) : Json :=
  Json.mkObj [("cls", e.cls), ("detail", match e with
    | .unstable c => "unstable:" ++ c | .value m => m | .key m => m | .type m => m
    | .runtime m => m | .other m => m)]

def optOut (x : Option α) : Json := match x with | some v => Wire.out v | none => .null

end
end SysLoss
