/-
  Driver/Reports — command `reports`: the model's `params(limits)`, `limits()`, `phases()` and `tree()` of a system
  description (same `sys` object as the `cert` / `run` commands, parsed by `ssysOf`).

  Request : {"cmd": "reports", "carrier": "rat" | "float", "sys": {…}, "limits": bool (default true), "name": str (tree start, default "")}
  Answer  : {"ok": true,
             "columns": {"params": [...], "limits": [...]},
             "params":  [{"name", "typ", "pars": {key: PV}, "lims": {key: [lo, hi] | null}}, …],     rows in `_topo_nodes` order
             "limits":  [ same shape, "pars" empty ],
             "phases":  null | {"rows": [{"name","typ","domain","phase","rs","ii","pwr"}, …], "showDomain": bool} | {"error": {cls, detail}},
             "tree":    {"roots": [...], "lines": [[depth, label], …], "edges": [[parent, child], …]} | {"error": …}}
-/
import SysLoss.Driver.Sys
import SysLoss.Model.Reports

open Lean

namespace SysLoss
section
variable {α : Type} [Add α] [Sub α] [Mul α] [Div α] [Neg α] [LT α] [DecidableLT α]
  [OfNat α 0] [OfNat α 1] [OfNat α 2] [OfNat α 24] [OfNat α 100] [OfNat α 3600] [OfNat α 1000000]
  [Wire α]

def limOut (x : Option (α × α)) : Json :=
  match x with
  | some (a, b) => .arr #[Wire.out a, Wire.out b]
  | none => .null

def paramRowOut (r : ParamRow α) : Json :=
  Json.mkObj [("name", r.name), ("typ", r.typ),
    ("pars", Json.mkObj (r.pars.map fun (k, v) => (k, pvOut v))),
    ("lims", Json.mkObj (r.lims.map fun (k, v) => (k, limOut v)))]

def phaseRowOut (r : PhaseRow α) : Json :=
  Json.mkObj [("name", r.name), ("typ", r.typ), ("domain", r.domain), ("phase", r.phase),
    ("rs", optOut r.rs), ("ii", optOut r.ii), ("pwr", optOut r.pwr)]

def strArr (l : List String) : Json := .arr (l.map Json.str).toArray

def cmdReports (j : Json) : Json :=
  match ssysOf (α := α) ((j.getObjVal? "sys").toOption.getD .null) with
  | .error (n, e) => Json.mkObj [("ok", false), ("ctor_error", errOut e), ("comp", n)]
  | .ok s =>
    let lim : Bool := match j.getObjValAs? Bool "limits" with | .ok b => b | .error _ => true
    let ph : Json := match phasesRows s with
      | .error e => Json.mkObj [("error", errOut e)]
      | .ok none => .null
      | .ok (some rep) => Json.mkObj [("rows", .arr (rep.rows.map phaseRowOut).toArray),
                                      ("showDomain", rep.showDomain)]
    let start := jStr j "name"
    let tree : Json := match treeEdgesFrom s start with
      | .error e => Json.mkObj [("error", errOut e)]
      | .ok edges =>
        Json.mkObj [("roots", strArr (if start == "" then s.sources.map s.nameOf else [start])),
          ("lines", if start == "" then
              .arr ((treeLinesAll s).map fun (d, l) => Json.arr #[(d : Json), Json.str l]).toArray
            else .null),
          ("edges", .arr (edges.map fun (p, c) => Json.arr #[Json.str p, Json.str c]).toArray)]
    Json.mkObj [("ok", true),
      ("columns", Json.mkObj [("params", strArr (reportColumns true lim)),
                              ("limits", strArr (reportColumns false true))]),
      ("params", .arr ((paramsRows s lim).map paramRowOut).toArray),
      ("limits", .arr ((limitsRows s).map paramRowOut).toArray),
      ("phases", ph), ("tree", tree)]

end
end SysLoss
