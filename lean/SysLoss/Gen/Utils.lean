/-
  GENERATED FILE — do not edit.  Written by tools/gen_utils.py from src/sysloss/utils.py on every
  run of `./check C20` (Python `ast` -> Lean).  Decimal literals are the exact rationals of their
  source text; float arithmetic is read as field arithmetic.  Theorems: SysLoss/Props/C20.lean.
-/
namespace SysLoss
namespace Gen

/-- `RHO = 1.724e-08` -/
def RHO {α : Type} [Div α] [OfNat α 431] [OfNat α 25000000000] : α := (431 / 25000000000)

/-- `TCR = 0.00386` -/
def TCR {α : Type} [Div α] [OfNat α 193] [OfNat α 50000] : α := (193 / 50000)

/-- `MILS2MM = 0.0254` -/
def MILS2MM {α : Type} [Div α] [OfNat α 127] [OfNat α 5000] : α := (127 / 5000)

/-- `OZ2MM = 0.034798` -/
def OZ2MM {α : Type} [Div α] [OfNat α 17399] [OfNat α 500000] : α := (17399 / 500000)

/-- `sysloss.utils.trace_res(*, w1_mm, w2_mm, l_mm, t_mm, rho, temp, tcr)`; parameters in the documented order -/
def traceRes {α : Type} [Add α] [Sub α] [Mul α] [Div α] [OfNat α 1] [OfNat α 2] [OfNat α 20] [OfNat α 1000] (w1_mm w2_mm l_mm t_mm rho temp tcr : α) : α :=
  let a : α := (((1 / 2) * (w1_mm + w2_mm)) * t_mm) / 1000   -- a = 0.5 * (w1_mm + w2_mm) * t_mm / 1000.0
  ((rho * l_mm) / a) * (1 + (tcr * (temp - 20)))   -- return rho * l_mm / a * (1 + tcr * (temp - 20.0))

/-- default of `trace_res(rho=RHO)` -/
def traceRes.default_rho {α : Type} [Div α] [OfNat α 431] [OfNat α 25000000000] : α := RHO

/-- default of `trace_res(temp=20.0)` -/
def traceRes.default_temp {α : Type} [OfNat α 20] : α := 20

/-- default of `trace_res(tcr=TCR)` -/
def traceRes.default_tcr {α : Type} [Div α] [OfNat α 193] [OfNat α 50000] : α := TCR

/-- `sysloss.utils.plane_res(*, w, l, t_mm, rho, temp, tcr)`; parameters in the documented order -/
def planeRes {α : Type} [Add α] [Sub α] [Mul α] [Div α] [OfNat α 1] [OfNat α 20] [OfNat α 1000] (w l t_mm rho temp tcr : α) : α :=
  let rs : α := rho / (t_mm / 1000)   -- rs = rho / (t_mm / 1000.0)
  ((rs * l) / w) * (1 + (tcr * (temp - 20)))   -- return rs * l / w * (1 + tcr * (temp - 20.0))

/-- default of `plane_res(rho=RHO)` -/
def planeRes.default_rho {α : Type} [Div α] [OfNat α 431] [OfNat α 25000000000] : α := RHO

/-- default of `plane_res(temp=20.0)` -/
def planeRes.default_temp {α : Type} [OfNat α 20] : α := 20

/-- default of `plane_res(tcr=TCR)` -/
def planeRes.default_tcr {α : Type} [Div α] [OfNat α 193] [OfNat α 50000] : α := TCR

end Gen
end SysLoss
