/-
  drv — line-protocol driver: one JSON object per line in, one per line out.
  `{"cmd": …, "carrier": "rat" | "float", …}`; unknown or malformed lines answer `{"bad-op": …}`.
-/
import SysLoss.Driver.Sys
import SysLoss.Driver.Hist
import SysLoss.Driver.Doc
import SysLoss.Driver.Diag
import SysLoss.Driver.Batt
import SysLoss.Driver.Probe
import SysLoss.Driver.Reports
import SysLoss.Driver.Tables

open Lean SysLoss

def dispatch (j : Json) : Json :=
  let cmd := jStr j "cmd"
  let fl := jStr j "carrier" == "float"
  match cmd with
  | "cert" => if fl then cmdCert (α := Float) j else cmdCert (α := Rat) j
  | "run" => if fl then cmdRun (α := Float) j else cmdRun (α := Rat) j
  | "relax" => if fl then cmdRelax (α := Float) j else cmdRelax (α := Rat) j   -- damped iteration: does a steady state exist? (C03)
  | "hist" => cmdHist j            -- edit / configuration / analysis histories (C14–C17)
  | "doc" | "toml" => cmdDoc j     -- save / from_file documents, TOML component files (C12, C13)
  | "diag" => cmdDiag j            -- diagram structure (C19)
  | "batt" => cmdBatt j            -- battery-life loop (C18)
  | "interp" | "ctor" => cmdProbe j  -- interpolators and constructors (C10, C11)
  | "reports" => if fl then cmdReports (α := Float) j else cmdReports (α := Rat) j   -- params / limits / phases / tree (C16)
  | "tables" => cmdTables j        -- constant tables: limit keys, child types, default limits (C09, C14)
  | "ping" => Json.mkObj [("ok", true)]
  | _ => Json.mkObj [("bad-op", cmd)]

partial def loop (h : IO.FS.Stream) (out : IO.FS.Stream) : IO Unit := do
  let line ← h.getLine
  if line.isEmpty then return ()
  let res := match Json.parse line with
    | .ok j => dispatch j
    | .error e => Json.mkObj [("bad-op", "parse: " ++ e)]
  out.putStrLn res.compress
  out.flush
  loop h out

def main : IO Unit := do
  loop (← IO.getStdin) (← IO.getStdout)
