#!/bin/bash
# Offline build of the Lean library (model + proofs) and the Mathlib-free driver executable.
set -e
cd "$(dirname "$0")/lean"
mkdir -p .lake
flock .lake/verif-build.lock lake build drv SysLoss
# property theorems (each check re-builds / re-audits its own module; pre-building keeps the checks fast)
mods=""
for f in SysLoss/Props/*.lean; do
  m=$(basename "$f" .lean)
  mods="$mods SysLoss.Props.$m"
done
flock .lake/verif-build.lock lake build $mods || echo "setup: some property modules did not build (their checks will report it)"
