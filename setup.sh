#!/bin/bash
# Offline build of the Lean library (model + proofs) and the Mathlib-free driver executable.
set -e
cd "$(dirname "$0")/lean"
mkdir -p .lake
flock .lake/verif-build.lock lake build drv SysLoss
