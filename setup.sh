#!/bin/bash
# Offline build of the Lean library (model + proofs) and the Mathlib-free driver executable.
set -e
cd "$(dirname "$0")/lean"
lake build drv SysLoss
