"""Factory for the check modules of the solved-table properties (C02–C09)."""
from . import gen, solved, sysdesc


def make(ns, *, cols, textcols, oracle, gen_fn, solve_kw=None, counts=(250, 5000), search_gen=None,
         nontrivial=None, extra_case=None, sweeps=True, mismatch_filter=None):
    def per_case(ctx, desc, obs, model, sys_, df, kw):
        nt = nontrivial(desc, obs) if nontrivial else len(desc["comps"]) >= 3
        ctx.case(key=solved.desc_key(desc) + [repr(sorted(kw.items()))], nontrivial=nt,
                 sample={"components": [(c["kind"], c["name"], c["parents"]) for c in desc["comps"]],
                         "phases": list((desc.get("phases") or {}).keys()), "solve_kw": kw})
        for m in solved.compare_tables(obs, model, cols=cols, textcols=textcols):
            if mismatch_filter is not None and mismatch_filter(ctx, desc, obs, m):
                continue
            ctx.corr(desc, "table-assembly: %s" % m["col"], m)
        sm = solved.shape_mismatch(desc, obs, model, kw)
        if sm is not None:
            ctx.corr(desc, "table-shape: columns shown", sm)
        if sweeps:
            solved.sweep_residuals(ctx, desc, obs, model, kw.get("vtol", 1e-6), kw.get("itol", 1e-6))
        oracle(ctx, desc, obs, model, kw)
        if extra_case:
            extra_case(ctx, desc, obs, model, sys_, df, kw)

    def run(ctx):
        solved.run_witnesses(ctx, per_case)
        solved.run_cases(ctx, ctx.n(*counts), gen_fn, per_case, solve_kw)

    def search(ctx):
        solved.run_cases(ctx, ctx.n(counts[0] * 2, counts[1]), search_gen or gen_fn, per_case, solve_kw)

    def replay(ctx, data):
        desc = data["case"]
        kw = (data.get("detail") or {}).get("solve_kw") or {"vtol": 1e-10, "itol": 1e-10}
        if "_solve_kw" in desc:
            kw = dict(desc["_solve_kw"])
        sys_, df, err = solved.solve_case(desc, kw)
        if err is not None:
            ctx.notes.append("replay: %s %r" % err)
            return
        obs = sysdesc.observe(df)
        if not solved.rows_ok(ctx, desc, obs):
            return
        model = solved.cert(ctx.drv, desc, obs, ta=kw.get("ta", 25.0))
        per_case(ctx, desc, obs, model, sys_, df, kw)

    ns.update(run=run, search=search, replay=replay, per_case=per_case)
