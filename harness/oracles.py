"""Oracles of the solved-table properties C02–C09: the property's own statement evaluated on the
implementation's observables (rows of solve()/rail_rep()), independent of the model's table assembler."""
import math
from . import solved, sysdesc, wire

PASSIVE = ("source", "rloss", "vloss", "pswitch", "pmux", "rectifier")
LOADS = ("pload", "iload", "rload")


def feeders(desc, rows):
    """name -> feeding component name (None for roots / a mux without live input); mux = first live declared input"""
    comps = {c["name"]: c for c in desc["comps"]}
    owner = {c["rail"]: c["name"] for c in desc["comps"] if c.get("rail") and c["kind"] not in LOADS}
    out = {}
    for c in desc["comps"]:
        pars = [owner.get(q, q) for q in c["parents"]]
        if not pars:
            out[c["name"]] = None
        elif c["kind"] == "pmux":
            live = [q for q in pars if rows[q]["vout"] != 0.0]
            out[c["name"]] = live[0] if live else None
        else:
            out[c["name"]] = pars[0]
    return out


def root_of(feed, declared_first, name):
    """the source that actually powers `name` (following feeders; a dead mux falls back to its first declared input)"""
    seen = set()
    while True:
        if name in seen:
            return None
        seen.add(name)
        f = feed.get(name)
        if f is None:
            f = declared_first.get(name)
            if f is None:
                return name
        name = f


def ptol(r, kw, extra=0.0):
    """power-level tolerance of a row: solver residuals (atol on V and I, rtol) turned into watts"""
    vtol, itol = kw.get("vtol", 1e-6), kw.get("itol", 1e-6)
    v = max(abs(r.get("vin") or 0.0), abs(r.get("vout") or 0.0))
    i = max(abs(r.get("iin") or 0.0), abs(r.get("iout") or 0.0))
    return 8 * (solved.ATOL * (v + i + 1) + (vtol + itol) * v * i) + 1e-12 + extra


# --------------------------------------------------------------------------------------------------- C02

def o_c02(ctx, desc, obs, model, kw):
    comps = {c["name"]: c for c in desc["comps"]}
    ta = kw.get("ta", 25.0)
    for p in obs["phases"]:
        src_p = load_p = loss_nl = 0.0
        scale = 0.0
        for r in p["rows"]:
            c = comps[r["name"]]
            k = c["kind"]
            P, L, E = r["pwr"], r["loss"], r["eff"]
            t = ptol(r, kw)
            scale += t
            trig = {}
            if k == "source":
                trig = {"vo_neg": c["args"]["vo"] < 0, "rs_pos": abs(c["args"].get("rs", 0.0)) > 0}
            if k == "converter":
                trig = {"vo_zero": c["args"]["vo"] == 0}
            base = {"phase": p["phase"], "row": r["name"], "Power": P, "Loss": L, "Vin": r["vin"], "Vout": r["vout"],
                    "Iin": r["iin"], "Iout": r["iout"]}
            if k in LOADS:
                cons = abs(r["vin"] * r["iin"])
                isloss = bool(c["args"].get("loss", False))
                want = (0.0, cons) if isloss else (cons, 0.0)
                if abs(P - want[0]) > t or abs(L - want[1]) > t:
                    ctx.oracle(desc, "load_power_xor_loss", k, {"loss": isloss}, dict(base, consumption=cons))
                load_p += P + L
            else:
                hand = abs(r["vout"]) * r["iout"]
                if abs((P - L) - hand) > t:
                    ctx.oracle(desc, "power_minus_loss", k, trig, dict(base, handed_on=hand))
                if L < -t or L > P + t:
                    ctx.oracle(desc, "loss_range", k, trig, base)
                if P > t:
                    want = 100.0 * (P - L) / P
                    if abs(E - want) > 1e-6 + 100 * t / P or E < -1e-9 or E > 100 + 1e-6 + 100 * t / P:
                        ctx.oracle(desc, "efficiency", k, trig, dict(base, Efficiency=E, expected=want))
                if k == "source":
                    src_p += P
                loss_nl += L
            if k != "source" and r.get("tr") is not None:
                rt = abs(c["args"].get("rt", 0.0))
                # property: rise = rt x Loss
                if abs(r["tr"] - rt * L) > 1e-9 * max(1.0, abs(r["tr"])) + rt * t:
                    ctx.oracle(desc, "temp_rise", k, {"loss_flag": bool(c["args"].get("loss", False)) if k in LOADS else None,
                                                       "load": k in LOADS}, dict(base, rise=r["tr"], rt=rt))
                elif abs(r["tp"] - (ta + r["tr"])) > 1e-9 * max(1.0, abs(r["tp"])) and not (r["tr"] == 0 and r["tp"] == 0):
                    ctx.oracle(desc, "peak_temp", k, {}, dict(base, rise=r["tr"], peak=r["tp"], ta=ta))
        if abs(src_p - (load_p + loss_nl)) > scale + 1e-9 * src_p:
            neg = any(c["kind"] == "source" and c["args"]["vo"] < 0 and abs(c["args"].get("rs", 0)) > 0 for c in desc["comps"])
            cz = any(c["kind"] == "converter" and c["args"]["vo"] == 0 for c in desc["comps"])
            ctx.oracle(desc, "system_balance", "system", {"neg_source_rs": neg, "conv_vo_zero": cz},
                       {"phase": p["phase"], "sources": src_p, "loads": load_p, "losses": loss_nl})


# --------------------------------------------------------------------------------------------------- C03

def o_c03_table(ctx, desc, obs, model, kw):
    """a returned table: finite, and no passive series element inverted or amplified its input"""
    comps = {c["name"]: c for c in desc["comps"]}
    for p in obs["phases"]:
        for r in p["rows"]:
            k = comps[r["name"]]["kind"]
            for col in sysdesc.NUMCOLS:
                x = r.get(col)
                if x is not None and not math.isfinite(x):
                    ctx.oracle(desc, "finite", k, {}, {"phase": p["phase"], "row": r["name"], "col": col, "value": repr(x)})
            if k in PASSIVE and r["vin"] != 0.0 and r["vout"] != 0.0:
                vin, vout = r["vin"], r["vout"]
                slack = 4 * (solved.ATOL + kw.get("vtol", 1e-6) * abs(vin)) + 1e-12
                if k == "rectifier":
                    bad = vout < -slack or abs(vout) > abs(vin) + slack
                else:
                    bad = ((vin > 0) != (vout > 0) and abs(vout) > slack) or abs(vout) > abs(vin) + slack
                if bad:
                    c = comps[r["name"]]
                    trig = {}
                    if k == "source":
                        trig = {"vo_neg": c["args"]["vo"] < 0, "rs_pos": abs(c["args"].get("rs", 0.0)) > 0}
                    if k == "rectifier":
                        trig = {"diode": c["args"].get("vdrop", 0.0) != 0.0}
                    ctx.oracle(desc, "passive_polarity", k, trig,
                               {"phase": p["phase"], "row": r["name"], "Vin": vin, "Vout": vout, "Iout": r["iout"]})


# --------------------------------------------------------------------------------------------------- shared structure helpers

SLEEPERS = ("converter", "linreg", "pswitch", "pmux")


def declared_parents(desc):
    owner = {c["rail"]: c["name"] for c in desc["comps"] if c.get("rail") and c["kind"] not in LOADS}
    return {c["name"]: [owner.get(q, q) for q in c["parents"]] for c in desc["comps"]}


def inactive_in(c, phase):
    """phase configuration (a list) present and the phase not listed"""
    pc = c.get("pconf")
    if c["kind"] in LOADS or c["kind"] in ("rloss", "vloss", "rectifier"):
        return False
    return bool(pc) and phase not in pc


def structural_dead(desc, phase):
    """name -> True iff the component's OUTPUT is dead for a structural reason (decided from the inputs only)"""
    comps = {c["name"]: c for c in desc["comps"]}
    pars = declared_parents(desc)
    dead = {}

    def d(n):
        if n in dead:
            return dead[n]
        c = comps[n]
        if c["kind"] == "source":
            r = c["args"]["vo"] == 0 or inactive_in(c, phase)
        elif c["kind"] == "pmux":
            r = all(d(p) for p in pars[n]) or inactive_in(c, phase)
        else:
            r = d(pars[n][0]) or inactive_in(c, phase)
        dead[n] = r
        return r
    for n in comps:
        d(n)
    return dead


def supply_dead(desc, phase):
    """name -> True iff every supply of the component is structurally dead"""
    dead = structural_dead(desc, phase)
    pars = declared_parents(desc)
    return {c["name"]: (bool(pars[c["name"]]) and all(dead[p] for p in pars[c["name"]])) for c in desc["comps"]}


# --------------------------------------------------------------------------------------------------- C04

def o_c04(ctx, desc, obs, model, kw):
    comps = {c["name"]: c for c in desc["comps"]}
    for p in obs["phases"]:
        ph = p["phase"]
        sdead = supply_dead(desc, ph)
        odead = structural_dead(desc, ph)
        rows = {r["name"]: r for r in p["rows"]}
        feed = feeders(desc, rows)
        hit = False
        for r in p["rows"]:
            c = comps[r["name"]]
            k = c["kind"]
            if sdead[r["name"]]:
                hit = True
                bad = {col: r[col] for col in ("vin", "vout", "iin", "iout", "pwr", "loss") if r[col] != 0.0}
                if bad:
                    # numpy's allclose has a fixed absolute tolerance of 1e-8: a quantity below it never makes the solver iterate
                    lim = 1e-8 * len(desc["comps"])

                    def tiny_stage_above(n, depth=0):
                        # a regulated stage whose NOMINAL output is itself below the tolerance: its first-sweep change (nominal -> 0) passes
                        # the exit test, so whatever hangs below it keeps its initial guess at full size (F38, third face)
                        if n is None or depth > len(comps):
                            return False
                        c_ = comps[n]
                        if c_["kind"] in ("converter", "linreg") and abs(c_["args"].get("vo", 1.0)) < lim:
                            return True
                        ps = declared_parents(desc)[n]
                        return bool(ps) and c_["kind"] != "pmux" and tiny_stage_above(ps[0], depth + 1)
                    ctx.oracle(desc, "dead_supply_all_zero", k, {"below_numpy_atol": all(abs(x) < lim for x in bad.values()),   # a row's Iout sums its children
                                                                 "sub_atol_stage_above": tiny_stage_above(r["name"])},
                               {"phase": ph, "row": r["name"], "nonzero": bad})
            elif odead[r["name"]]:
                hit = True
                if r["vout"] != 0.0:
                    ctx.oracle(desc, "dead_element_outputs_zero", k, {}, {"phase": ph, "row": r["name"], "vout": r["vout"]})
                if k in SLEEPERS and inactive_in(c, ph):
                    # the live supply, taken from the supplying row itself (mux: first live declared input)
                    f = feed.get(r["name"])
                    vs = rows[f]["vout"] if f is not None else 0.0
                    if vs != 0.0:
                        iis = abs(c["args"].get("iis", 0.0))
                        want = iis * abs(vs)
                        if r["iin"] != iis or not solved.close(r["pwr"], want) or not solved.close(r["loss"], want) \
                                or not solved.close(r["vin"], vs):
                            # numpy's allclose has a fixed absolute tolerance of 1e-8: when EVERY current of the phase is below it the
                            # exit test passes on the first sweep and the initial guess (0 A for a sleeping stage) is returned (F38)
                            # exit test passes as soon as a sweep changes every quantity by less than that: the sleep current of a stage
                            # whose supply came alive in the last sweep is still the previous iterate's (0 A).  Nothing below 1e-8 A is
                            # exact in what solve() returns (F38); everything else about the row must still be right
                            lim = 1e-8 * len(desc["comps"])
                            trig = {"below_numpy_atol": bool(abs(r["iin"] - iis) < lim and solved.close(r["pwr"], want) and
                                                             solved.close(r["loss"], want) and solved.close(r["vin"], vs))}
                            ctx.oracle(desc, "sleep_current", k, trig, {"phase": ph, "row": r["name"], "iis": iis, "Iin": r["iin"],
                                       "Power": r["pwr"], "Loss": r["loss"], "Vin": r["vin"], "supply": f, "supply_vout": vs})
                if k == "source" and (r["iin"] != 0.0 or r["pwr"] != 0.0 or r["loss"] != 0.0):
                    ctx.oracle(desc, "dead_source_zero", k, {}, {"phase": ph, "row": r["name"], "Iin": r["iin"], "Power": r["pwr"]})
        if hit:
            ctx.stats["phases_with_dead_element"] += 1


# --------------------------------------------------------------------------------------------------- C05

def o_c05(ctx, desc, obs, model, kw):
    comps = {c["name"]: c for c in desc["comps"]}
    pars = declared_parents(desc)
    rails = {c["name"]: (c.get("rail", "") if c["kind"] not in LOADS else "") for c in desc["comps"]}
    vtol, itol = kw.get("vtol", 1e-6), kw.get("itol", 1e-6)
    for p in obs["phases"]:
        ph = p["phase"]
        rows = {r["name"]: r for r in p["rows"]}
        feed = feeders(desc, rows)
        first = {n: (q[0] if q else None) for n, q in pars.items()}
        for c in desc["comps"]:
            if c["kind"] != "pmux":
                continue
            r = rows[c["name"]]
            ins = pars[c["name"]]
            live = [q for q in ins if rows[q]["vout"] != 0.0]
            # liveness decided from the INPUTS of the case only (0 V / phase-inactive elements above), not from the reported rows:
            # an input that is structurally live but reported at 0 V is the fault, not an excuse
            sdead = structural_dead(desc, ph)
            def brownout_at_or_above(n, depth=0):
                # a regulator whose drop-out is at least its supply voltage outputs 0 V although nothing is switched off
                if n is None or depth > len(comps):
                    return False
                if comps[n]["kind"] == "linreg" and abs(comps[n]["args"].get("vdrop", 0.0)) >= abs(rows[n]["vin"] or 0.0):
                    return True
                if comps[n]["kind"] == "pmux" or not pars[n]:
                    return False
                return brownout_at_or_above(pars[n][0], depth + 1)
            for q in ins:
                brownout = brownout_at_or_above(q)
                if not sdead[q] and rows[q]["vout"] == 0.0 and comps[q]["kind"] not in LOADS and not brownout:
                    ctx.oracle(desc, "live_input_reported_dead", "pmux", {"inputs": len(ins)},
                               {"phase": ph, "mux": c["name"], "input": q, "inputs": ins, "input_vout": [rows[x]["vout"] for x in ins],
                                "why_live": "no 0 V source and no phase-inactive element between this input and its source"})
            pattern = "".join("L" if rows[q]["vout"] != 0.0 else "d" for q in ins)
            ctx.stats["mux_pattern:" + pattern] += 1
            trig = {"inputs": len(ins), "selected_index": ins.index(live[0]) if live else -1}
            base = {"phase": ph, "mux": c["name"], "inputs": ins, "input_vout": [rows[q]["vout"] for q in ins]}
            if not live:
                bad = {col: r[col] for col in ("vout", "iin", "iout", "pwr", "loss") if r[col] != 0.0}
                if bad:
                    ctx.oracle(desc, "mux_dead", "pmux", trig, dict(base, nonzero=bad))
                continue
            sel = live[0]
            k = ins.index(sel)
            # reported parent / rail-in / input voltage / domain
            if "parent" in r and r["parent"] != sel:
                ctx.oracle(desc, "mux_reports_selected_parent", "pmux", trig, dict(base, reported=r["parent"], selected=sel))
            if "railIn" in r and r["railIn"] != rails[sel]:
                ctx.oracle(desc, "mux_reports_selected_rail", "pmux", trig, dict(base, reported=r["railIn"], selected_rail=rails[sel]))
            if not solved.close(r["vin"], rows[sel]["vout"]):
                ctx.oracle(desc, "mux_vin_is_selected", "pmux", trig, dict(base, vin=r["vin"], selected=sel))
            if "domain" in r:
                want = root_of(feed, first, sel)
                if r["domain"] != want:
                    ctx.oracle(desc, "mux_domain", "pmux", trig, dict(base, reported=r["domain"], expected=want))
            # current is drawn from the selected input only
            for q in ins:
                others = sum(rows[x]["iin"] for x in rows if x != c["name"] and feed.get(x) == q)
                want = others + (r["iin"] if q == sel else 0.0)
                if abs(rows[q]["iout"] - want) > 8 * (solved.ATOL + itol * abs(want)) + 1e-12:
                    ctx.oracle(desc, "mux_current_attribution", "pmux", trig,
                               dict(base, input=q, input_iout=rows[q]["iout"], expected=want, mux_iin=r["iin"]))
            # output = selected input minus the on-resistance configured for that input times Iout
            if not inactive_in(c, ph):
                rs = c["args"].get("rs", 0.0)
                rk = abs(rs[k]) if isinstance(rs, list) else abs(rs)
                vs = rows[sel]["vout"]
                want = math.copysign(abs(vs) - rk * r["iout"], vs)
                if abs(r["vout"] - want) > 8 * (solved.ATOL + vtol * abs(want)) + 1e-12:
                    ctx.oracle(desc, "mux_vout", "pmux", dict(trig, rs_list=isinstance(rs, list), rs_negative=(not isinstance(rs, list) and rs < 0)),
                               dict(base, vout=r["vout"], expected=want, rs_k=rk, iout=r["iout"]))


# --------------------------------------------------------------------------------------------------- C07

def o_c07(ctx, desc, obs, model, kw):
    comps = {c["name"]: c for c in desc["comps"]}
    pars = declared_parents(desc)
    first = {n: (q[0] if q else None) for n, q in pars.items()}
    srcs = [c["name"] for c in desc["comps"] if c["kind"] == "source"]
    multi = len(srcs) > 1
    phs = desc.get("phases") or {}
    tot_t = sum(phs.values()) if phs else 0.0
    per_phase_tot = []
    for p in obs["phases"]:
        ph = p["phase"]
        rows = {r["name"]: r for r in p["rows"]}
        feed = feeders(desc, rows)
        dom = {n: root_of(feed, first, n) for n in rows}
        has_mux = any(c["kind"] == "pmux" for c in desc["comps"])
        if multi:
            for r in p["rows"]:
                # components below a mux without a live input are powered by nobody: not judged
                if any(comps[x]["kind"] == "pmux" and feed.get(x) is None for x in chain(feed, first, r["name"])):
                    continue
                if r.get("domain") != dom[r["name"]]:
                    ctx.oracle(desc, "domain_is_powering_source", comps[r["name"]]["kind"], {"has_mux": has_mux},
                               {"phase": ph, "row": r["name"], "reported": r.get("domain"), "expected": dom[r["name"]]})
            subs = {s["name"]: s for s in p["subs"]}
            for s in srcs:
                sub = subs.get("Subsystem " + s)
                if sub is None:
                    ctx.oracle(desc, "subsystem_row_present", "system", {}, {"phase": ph, "source": s})
                    continue
                sr = rows[s]
                members = [r for r in p["rows"] if dom[r["name"]] == s]
                loss = sum(r["loss"] for r in members)
                t = sum(ptol(r, kw) for r in members) + 1e-9 * abs(loss)
                det = {"phase": ph, "subsystem": s, "row": sub, "members": [r["name"] for r in members]}
                if not solved.close(sub["vin"], sr["vin"]) or not solved.close(sub["iout"], sr["iout"]) or not solved.close(sub["pwr"], sr["pwr"]):
                    ctx.oracle(desc, "subsystem_source_cells", "system", {"has_mux": has_mux}, det)
                if abs(sub["loss"] - loss) > t:
                    ctx.oracle(desc, "subsystem_loss_sum", "system", {"has_mux": has_mux}, dict(det, expected_loss=loss))
                if sr["pwr"] > t:
                    want = 100.0 * abs((sr["pwr"] - sub["loss"]) / sr["pwr"])
                    if abs(sub["eff"] - want) > 1e-6:
                        ctx.oracle(desc, "subsystem_eff", "system", {}, dict(det, expected_eff=want))
                if "ener" in sub and sub["ener"] is not None:
                    want = energy(phs, ph, sub["pwr"])
                    if not solved.close(sub["ener"], want, rel=1e-9):
                        ctx.oracle(desc, "subsystem_energy", "system", {}, dict(det, expected=want))
        tot = p["total"]
        P = sum(rows[s]["pwr"] for s in srcs)
        L = sum(r["loss"] for r in p["rows"])
        t = sum(ptol(r, kw) for r in p["rows"]) + 1e-9 * (abs(P) + abs(L))
        det = {"phase": ph, "total": tot}
        if abs(tot["pwr"] - P) > t or abs(tot["loss"] - L) > t:
            ctx.oracle(desc, "total_sums", "system", {"multi_source": multi, "has_mux": has_mux}, dict(det, sources_power=P, all_losses=L))
        if tot["pwr"] > t:
            want = 100.0 * abs((tot["pwr"] - tot["loss"]) / tot["pwr"])
            if abs(tot["eff"] - want) > 1e-6:
                ctx.oracle(desc, "total_eff", "system", {}, dict(det, expected=want))
            neg = any(c["kind"] == "source" and c["args"]["vo"] < 0 and abs(c["args"].get("rs", 0)) > 0 for c in desc["comps"])
            if tot["eff"] > 100.0 + 1e-6 + 100 * t / tot["pwr"]:
                ctx.oracle(desc, "total_eff_le_100", "system", {"neg_source_rs": neg}, det)
        if "ener" in tot and tot["ener"] is not None:
            want = energy(phs, ph, tot["pwr"])
            if not solved.close(tot["ener"], want, rel=1e-9):
                ctx.oracle(desc, "total_energy", "system", {}, dict(det, expected=want))
            for r in p["rows"]:
                if not solved.close(r["ener"], energy(phs, ph, r["pwr"]), rel=1e-9):
                    ctx.oracle(desc, "row_energy", comps[r["name"]]["kind"], {}, {"phase": ph, "row": r["name"], "ener": r["ener"],
                                                                                    "expected": energy(phs, ph, r["pwr"])})
        per_phase_tot.append((ph, tot))
    if len(obs["phases"]) > 1:
        avg = obs["avg"]
        if avg is None:
            ctx.oracle(desc, "average_row_present", "system", {}, {})
            return
        for col in ("pwr", "loss", "eff"):
            want = sum(phs[ph] * t[col] for ph, t in per_phase_tot) / tot_t
            if not solved.close(avg[col], want, rel=1e-9):
                ctx.oracle(desc, "average_" + col, "system", {}, {"avg": avg, "expected": want})
        if avg.get("ener") is not None:
            if not solved.close(avg["ener"], 24.0 * avg["pwr"], rel=1e-9):
                ctx.oracle(desc, "average_energy", "system", {}, {"avg": avg})
            s = sum(t["ener"] for _, t in per_phase_tot)
            if not solved.close(s, avg["ener"], rel=1e-9):
                ctx.oracle(desc, "phase_energies_add_up", "system", {}, {"sum_of_phase_energies": s, "average_energy": avg["ener"]})


def chain(feed, first, n):
    out, seen = [], set()
    while n is not None and n not in seen:
        seen.add(n)
        out.append(n)
        f = feed.get(n)
        n = f if f is not None else None
    return out


def energy(phs, ph, pwr):
    if ph == "" or not phs:
        return 24.0 * pwr
    return pwr * 24.0 * phs[ph] / sum(phs.values())


# --------------------------------------------------------------------------------------------------- C08

RAILCOLS = {"Phase": "phase", "Rail": "rail", "Voltage (V)": "volt", "Current (A)": "curr", "Power (W)": "pwr",
            "Loss (W)": "loss", "Efficiency (%)": "eff", "Warnings": "warn"}


def observe_rails(df):
    if df is None:
        return []
    out = []
    for _, r in df.iterrows():
        d = {RAILCOLS[c]: r[c] for c in df.columns if c in RAILCOLS}
        d.setdefault("phase", "")
        for k in ("volt", "curr", "pwr", "loss", "eff"):
            try:
                d[k] = float(d[k])
            except (TypeError, ValueError):
                d.setdefault("_not_numeric", {})[k] = repr(d[k])      # a computed cell that is not a number: reported by the caller
                d[k] = float("nan")
        out.append(d)
    return out


def warn_tokens(s):
    """the set of limit tokens in a warning text ('vi ii, tp' -> {vi, ii, tp})"""
    return set(s.replace(",", " ").split())


def o_c08(ctx, desc, obs, rails, kw):
    """rails: observed rail_rep() rows (list of dicts); obs: solve() table of the same call arguments"""
    got = {(r["phase"], r["rail"]): r for r in rails}
    if len(got) != len(rails):
        ctx.oracle(desc, "rail_rows_unique", "rail_rep", {}, {"rows": [(r["phase"], r["rail"]) for r in rails]})
    want_keys = set()
    for p in obs["phases"]:
        ph = p["phase"]
        rows = {r["name"]: r for r in p["rows"]}
        by = {}
        for r in p["rows"]:
            if r.get("railIn"):
                by.setdefault(r["railIn"], []).append(r)
        owner = {c["rail"]: c["name"] for c in desc["comps"] if c.get("rail") and c["kind"] not in LOADS}
        for rail, members in by.items():
            want_keys.add((ph, rail))
            g = got.get((ph, rail))
            det = {"phase": ph, "rail": rail, "members": [m["name"] for m in members], "row": g}
            if g is None:
                ctx.oracle(desc, "rail_row_present", "rail_rep", {}, det)
                continue
            # rail_rep() re-runs the very same deterministic solve: the rail cells are sums of the SAME numbers the solve() table
            # shows, so only float summation order separates them - no solver tolerance enters
            t = 1e-15
            if not solved.close(g["volt"], rows[owner[rail]]["vout"]):
                ctx.oracle(desc, "rail_voltage", "rail_rep", {}, dict(det, owner_vout=rows[owner[rail]]["vout"]))
            for col, src in (("curr", "iin"), ("pwr", "pwr"), ("loss", "loss")):
                s = sum(m[src] for m in members)
                if abs(g[col] - s) > t + 1e-9 * sum(abs(m[src]) for m in members):
                    ctx.oracle(desc, "rail_sum_" + col, "rail_rep", {}, dict(det, expected=s))
            wu = set()
            for m in members:
                wu |= warn_tokens(m["warn"])
            if warn_tokens(g["warn"]) != wu:
                nd = len(set(m["warn"] for m in members))
                ctx.oracle(desc, "rail_warnings_union", "rail_rep", {"distinct_member_texts": min(nd, 2)},
                           dict(det, expected=sorted(wu), member_warnings=[m["warn"] for m in members]))
    extra = set(got) - want_keys
    if extra:
        ctx.oracle(desc, "rail_rows_exact", "rail_rep", {}, {"unexpected_rows": sorted(extra)})


# --------------------------------------------------------------------------------------------------- C09

LIMIT_KEYS = ["vi", "vo", "vd", "ii", "io", "pi", "po", "pl", "tr", "tp"]
APPLICABLE = {"source": ["io", "po", "pl"], "pload": ["vi", "ii", "tr", "tp"], "iload": ["vi", "pi", "tr", "tp"],
              "rload": ["vi", "ii", "pi", "tr", "tp"],
              "converter": ["vi", "vo", "ii", "io", "pi", "po", "pl", "tr", "tp"]}
DEFAULT_LIM = {k: [0.0, 1.0e6] for k in LIMIT_KEYS}
DEFAULT_LIM["tp"] = [-1.0e6, 1.0e6]


def row_quantities(r):
    q = {"vi": r["vin"], "vo": r["vout"], "vd": abs(r["vin"]) - abs(r["vout"]), "ii": r["iin"], "io": r["iout"],
         "pi": r["pwr"], "po": r["pwr"] - r["loss"], "pl": r["loss"]}
    if r.get("tr") is not None:
        q["tr"], q["tp"] = r["tr"], r["tp"]
    return q


def o_c09(ctx, desc, obs, model, kw):
    comps = {c["name"]: c for c in desc["comps"]}
    pars = declared_parents(desc)
    first = {n: (q[0] if q else None) for n, q in pars.items()}
    srcs = [c["name"] for c in desc["comps"] if c["kind"] == "source"]
    for p in obs["phases"]:
        ph = p["phase"]
        rows = {r["name"]: r for r in p["rows"]}
        feed = feeders(desc, rows)
        anyw = False
        by_dom = {}
        for r in p["rows"]:
            c = comps[r["name"]]
            k = c["kind"]
            q = row_quantities(r)
            lim = c["args"].get("limits") or {}
            want = set()
            pc = c.get("pconf")
            silent = k not in ("source", "rloss", "vloss") and bool(pc) and ph not in pc
            if not silent:
                for key in APPLICABLE.get(k, LIMIT_KEYS):
                    if key not in q:
                        continue
                    lo, hi = lim.get(key, DEFAULT_LIM[key])
                    x = q[key]
                    if key == "tp":
                        out = x > hi or x < lo
                    else:
                        out = abs(x) > abs(hi) or abs(x) < abs(lo)
                    if out:
                        want.add(key)
            got = set(r["warn"].split())
            hidden = {"tr", "tp"} if "tr" not in q else set()
            if (got - hidden) != (want - hidden):
                ctx.oracle(desc, "warn_iff_out_of_range", k, {"silent_phase": silent},
                           {"phase": ph, "row": r["name"], "warnings": r["warn"], "expected": sorted(want),
                            "quantities": q, "limits": lim})
            if r["warn"]:
                anyw = True
                by_dom.setdefault(root_of(feed, first, r["name"]), []).append(r["name"])
        for s in p["subs"]:
            src = s["name"][len("Subsystem "):]
            want = "Yes" if by_dom.get(src) else ""
            if s["warn"] != want:
                ctx.oracle(desc, "subsystem_rollup", "system", {}, {"phase": ph, "subsystem": src, "cell": s["warn"],
                                                                      "warning_components": by_dom.get(src, [])})
        if p["total"] is not None and p["total"]["warn"] != ("Yes" if anyw else ""):
            ctx.oracle(desc, "total_rollup", "system", {}, {"phase": ph, "cell": p["total"]["warn"], "any_component_warning": anyw})
