"""Oracles of the solved-table properties C02–C09: the property's own statement evaluated on the
implementation's observables (rows of solve()/rail_rep()), independent of the model's table assembler."""
import math
from . import solved, sysdesc, wire

PASSIVE = ("source", "rloss", "vloss", "pswitch", "pmux", "rectifier")
LOADS = ("pload", "iload", "rload")


def feeders(desc, rows):
    """name -> feeding component name (None for roots / a mux without live input); mux = first live declared input"""
    comps = {c["name"]: c for c in desc["comps"]}
    owner = {c["rail"]: c["name"] for c in desc["comps"] if c.get("rail") and c["kind"] not in LOADS}
    out = {}
    for c in desc["comps"]:
        pars = [owner.get(q, q) for q in c["parents"]]
        if not pars:
            out[c["name"]] = None
        elif c["kind"] == "pmux":
            live = [q for q in pars if rows[q]["vout"] != 0.0]
            out[c["name"]] = live[0] if live else None
        else:
            out[c["name"]] = pars[0]
    return out


def root_of(feed, declared_first, name):
    """the source that actually powers `name` (following feeders; a dead mux falls back to its first declared input)"""
    seen = set()
    while True:
        if name in seen:
            return None
        seen.add(name)
        f = feed.get(name)
        if f is None:
            f = declared_first.get(name)
            if f is None:
                return name
        name = f


def ptol(r, kw, extra=0.0):
    """power-level tolerance of a row: solver residuals (atol on V and I, rtol) turned into watts"""
    vtol, itol = kw.get("vtol", 1e-6), kw.get("itol", 1e-6)
    v = max(abs(r.get("vin") or 0.0), abs(r.get("vout") or 0.0))
    i = max(abs(r.get("iin") or 0.0), abs(r.get("iout") or 0.0))
    return 8 * (solved.ATOL * (v + i + 1) + (vtol + itol) * v * i) + 1e-12 + extra


# --------------------------------------------------------------------------------------------------- C02

def o_c02(ctx, desc, obs, model, kw):
    comps = {c["name"]: c for c in desc["comps"]}
    ta = kw.get("ta", 25.0)
    for p in obs["phases"]:
        src_p = load_p = loss_nl = 0.0
        scale = 0.0
        for r in p["rows"]:
            c = comps[r["name"]]
            k = c["kind"]
            P, L, E = r["pwr"], r["loss"], r["eff"]
            t = ptol(r, kw)
            scale += t
            trig = {}
            if k == "source":
                trig = {"vo_neg": c["args"]["vo"] < 0, "rs_pos": abs(c["args"].get("rs", 0.0)) > 0}
            base = {"phase": p["phase"], "row": r["name"], "Power": P, "Loss": L, "Vin": r["vin"], "Vout": r["vout"],
                    "Iin": r["iin"], "Iout": r["iout"]}
            if k in LOADS:
                cons = abs(r["vin"] * r["iin"])
                isloss = bool(c["args"].get("loss", False))
                want = (0.0, cons) if isloss else (cons, 0.0)
                if abs(P - want[0]) > t or abs(L - want[1]) > t:
                    ctx.oracle(desc, "load_power_xor_loss", k, {"loss": isloss}, dict(base, consumption=cons))
                load_p += P + L
            else:
                hand = abs(r["vout"]) * r["iout"]
                if abs((P - L) - hand) > t:
                    ctx.oracle(desc, "power_minus_loss", k, trig, dict(base, handed_on=hand))
                if L < -t or L > P + t:
                    ctx.oracle(desc, "loss_range", k, trig, base)
                if P > t:
                    want = 100.0 * (P - L) / P
                    if abs(E - want) > 1e-6 + 100 * t / P or E < -1e-9 or E > 100 + 1e-6 + 100 * t / P:
                        ctx.oracle(desc, "efficiency", k, trig, dict(base, Efficiency=E, expected=want))
                if k == "source":
                    src_p += P
                loss_nl += L
            if k != "source" and r.get("tr") is not None:
                rt = abs(c["args"].get("rt", 0.0))
                # property: rise = rt x Loss
                if abs(r["tr"] - rt * L) > 1e-9 * max(1.0, abs(r["tr"])) + rt * t:
                    ctx.oracle(desc, "temp_rise", k, {"loss_flag": bool(c["args"].get("loss", False)) if k in LOADS else None,
                                                       "load": k in LOADS}, dict(base, rise=r["tr"], rt=rt))
                elif abs(r["tp"] - (ta + r["tr"])) > 1e-9 * max(1.0, abs(r["tp"])) and not (r["tr"] == 0 and r["tp"] == 0):
                    ctx.oracle(desc, "peak_temp", k, {}, dict(base, rise=r["tr"], peak=r["tp"], ta=ta))
        if abs(src_p - (load_p + loss_nl)) > scale + 1e-9 * src_p:
            neg = any(c["kind"] == "source" and c["args"]["vo"] < 0 and abs(c["args"].get("rs", 0)) > 0 for c in desc["comps"])
            ctx.oracle(desc, "system_balance", "system", {"neg_source_rs": neg},
                       {"phase": p["phase"], "sources": src_p, "loads": load_p, "losses": loss_nl})


# --------------------------------------------------------------------------------------------------- C03

def o_c03_table(ctx, desc, obs, model, kw):
    """a returned table: finite, and no passive series element inverted or amplified its input"""
    comps = {c["name"]: c for c in desc["comps"]}
    for p in obs["phases"]:
        for r in p["rows"]:
            k = comps[r["name"]]["kind"]
            for col in sysdesc.NUMCOLS:
                x = r.get(col)
                if x is not None and not math.isfinite(x):
                    ctx.oracle(desc, "finite", k, {}, {"phase": p["phase"], "row": r["name"], "col": col, "value": repr(x)})
            if k in PASSIVE and r["vin"] != 0.0 and r["vout"] != 0.0:
                vin, vout = r["vin"], r["vout"]
                slack = 4 * (solved.ATOL + kw.get("vtol", 1e-6) * abs(vin)) + 1e-12
                if k == "rectifier":
                    bad = vout < -slack or abs(vout) > abs(vin) + slack
                else:
                    bad = ((vin > 0) != (vout > 0) and abs(vout) > slack) or abs(vout) > abs(vin) + slack
                if bad:
                    c = comps[r["name"]]
                    trig = {}
                    if k == "source":
                        trig = {"vo_neg": c["args"]["vo"] < 0, "rs_pos": abs(c["args"].get("rs", 0.0)) > 0}
                    if k == "rectifier":
                        trig = {"diode": c["args"].get("vdrop", 0.0) != 0.0}
                    ctx.oracle(desc, "passive_polarity", k, trig,
                               {"phase": p["phase"], "row": r["name"], "Vin": vin, "Vout": vout, "Iout": r["iout"]})
