"""Constant tables of the Lean model vs the live objects of /repo (driver command `tables`): applicable limit keys per class
(`_get_limits()`), accepted child types (`_child_types`), component type, LIMITS_DEFAULT.  A correspondence check (C09: limits,
C14: child types): the theorems `C09.applicable_table`, `C09.default_limits`, `C14.*linksAccepted*` talk about these tables."""
from fractions import Fraction

MINIMAL = {"Source": dict(vo=1.0), "PLoad": dict(pwr=1.0), "ILoad": dict(ii=1.0), "RLoad": dict(rs=1.0), "RLoss": dict(rs=1.0),
           "VLoss": dict(vdrop=0.1), "Converter": dict(vo=1.0, eff=0.9), "LinReg": dict(vo=1.0), "PSwitch": dict(), "PMux": dict(),
           "Rectifier": dict()}


def compare(ctx, what=("limits", "childs")):
    import sysloss.components as C
    m = ctx.drv.ask({"cmd": "tables"})
    if not m.get("ok"):
        ctx.corr({"cmd": "tables"}, "tables: driver", m)
        return
    n = 0
    for k in m["kinds"]:
        cls = getattr(C, k["class"])
        obj = cls("x", **MINIMAL[k["class"]])
        if obj._component_type.name != k["ctype"]:
            ctx.corr({"class": k["class"]}, "tables: component type", {"impl": obj._component_type.name, "model": k["ctype"]})
        if "limits" in what:
            impl = list(obj._get_limits())
            if sorted(impl) != sorted(k["limit_keys"]):
                ctx.corr({"class": k["class"]}, "tables: applicable limit keys", {"impl": impl, "model": k["limit_keys"]})
        if "childs" in what:
            impl = sorted(t.name for t in obj._child_types if t is not None)
            if impl != sorted(k["accepts"]):
                ctx.corr({"class": k["class"]}, "tables: accepted child types", {"impl": impl, "model": sorted(k["accepts"])})
        n += 1
    if "limits" in what:
        impl = {key: [Fraction(v[0]), Fraction(v[1])] for key, v in C.LIMITS_DEFAULT.items()}
        mod = {e["key"]: [Fraction(e["min"]), Fraction(e["max"])] for e in m["limits_default"]}
        if impl != mod:
            ctx.corr({"table": "LIMITS_DEFAULT"}, "tables: default limits", {"impl": {k: [float(a), float(b)] for k, (a, b) in impl.items()},
                                                                             "model": {k: [float(a), float(b)] for k, (a, b) in mod.items()}})
    ctx.stats["tables_compared"] += n
