"""Wire format and driver process for the Lean model (see lean/SysLoss/Driver/Wire.lean)."""
import json, os, struct, subprocess, math
from fractions import Fraction

VERIF = os.path.dirname(os.path.dirname(os.path.abspath(__file__)))
DRV = os.path.join(VERIF, "lean", ".lake", "build", "bin", "drv")


def fbits(x: float) -> int:
    return struct.unpack("<Q", struct.pack("<d", float(x)))[0]


def bits2f(n: int) -> float:
    return struct.unpack("<d", struct.pack("<Q", n))[0]


def num(x):
    """exact wire form of a Python number"""
    if isinstance(x, bool):
        return x
    if isinstance(x, int):
        return {"$i": str(x)}
    x = float(x)
    if not math.isfinite(x):
        raise ValueError("non-finite")
    return {"$f": str(fbits(x))}


def pv(x):
    """Python value -> wire PV"""
    import numpy as np
    if x is None or isinstance(x, (bool, str)):
        return x
    if isinstance(x, (np.bool_,)):
        return bool(x)
    if isinstance(x, (int, np.integer)):
        return {"$i": str(int(x))}
    if isinstance(x, (float, np.floating)):
        return num(float(x))
    if isinstance(x, (list, tuple)):
        return [pv(e) for e in x]
    if isinstance(x, dict):
        return {"$d": [[str(k), pv(v)] for k, v in x.items()]}
    raise TypeError("cannot encode %r" % (x,))


def unnum(s):
    """driver number -> Fraction (rat) or float (float carrier) or None"""
    if s is None:
        return None
    if isinstance(s, str):
        if s.startswith("b"):
            return bits2f(int(s[1:]))
        n, d = s.split("/")
        return Fraction(int(n), int(d))
    raise TypeError(s)


def unpv(j):
    if j is None or isinstance(j, (bool, str)):
        return j
    if isinstance(j, list):
        return [unpv(e) for e in j]
    if isinstance(j, dict):
        if "$i" in j:
            return int(unnum(j["$i"]))
        if "$f" in j:
            return float(unnum(j["$f"]))
        if "$d" in j:
            return {k: unpv(v) for k, v in j["$d"]}
    raise TypeError(j)


class Driver:
    """persistent line-protocol connection to lean/.lake/build/bin/drv"""

    def __init__(self):
        if not os.path.exists(DRV):
            raise RuntimeError("driver not built: run ./setup.sh (%s missing)" % DRV)
        self.p = subprocess.Popen([DRV], stdin=subprocess.PIPE, stdout=subprocess.PIPE,
                                  text=True, bufsize=1)
        self.n = 0

    def ask(self, obj):
        self.p.stdin.write(json.dumps(obj) + "\n")
        self.p.stdin.flush()
        line = self.p.stdout.readline()
        if not line:
            raise RuntimeError("driver died")
        self.n += 1
        return json.loads(line)

    def close(self):
        try:
            self.p.stdin.close()
            self.p.wait(timeout=5)
        except Exception:
            self.p.kill()
