"""./check <Cxx> [--tier quick|thorough] [--replay file]

Pipeline (DESIGN.md section 3): proof step (lake build + axiom audit) → correspondence step (model vs
implementation) → oracle / search step (property statement evaluated on the implementation's observables by
the executable Spec) → verdict, evidence file."""
import argparse, importlib, json, os, random, re, subprocess, sys, time, traceback, hashlib, collections

VERIF = os.path.dirname(os.path.dirname(os.path.abspath(__file__)))
LEAN = os.path.join(VERIF, "lean")
ALLOWED_AXIOMS = {"propext", "Classical.choice", "Quot.sound"}
FORBIDDEN = re.compile(r"\b(sorry|admit|native_decide|bv_decide|implemented_by)\b|^\s*axiom\s|\bunsafe\s|maxHeartbeats\s+0\b")

os.environ.setdefault("PYTHONHASHSEED", "0")
os.environ.setdefault("MPLBACKEND", "Agg")


def sh(cmd, cwd=LEAN, timeout=3000):
    p = subprocess.run(cmd, cwd=cwd, stdout=subprocess.PIPE, stderr=subprocess.STDOUT, text=True, timeout=timeout)
    return p.returncode, p.stdout


def strip_comments(src):
    src = re.sub(r"/-.*?-/", "", src, flags=re.S)
    return re.sub(r"--.*", "", src)


def lean_sources(module=None):
    """the project's .lean files; with `module`: only those in its import closure (plus the driver's), so that a
    half-finished file of an unrelated property cannot fail this property's token audit"""
    if module is None:
        out = []
        for root, _, files in os.walk(LEAN):
            if ".lake" in root or "Audit" in root:
                continue
            for f in files:
                if f.endswith(".lean"):
                    out.append(os.path.join(root, f))
        return out
    seen, todo = set(), [module, "Main"]
    while todo:
        m = todo.pop()
        f = os.path.join(LEAN, *m.split(".")) + ".lean"
        if m in seen or not os.path.exists(f):
            continue
        seen.add(m)
        for mm in re.findall(r"^\s*(?:public\s+)?import\s+([A-Za-z0-9_.]+)", strip_comments(open(f).read()), flags=re.M):
            todo.append(mm)
    return [os.path.join(LEAN, *m.split(".")) + ".lean" for m in sorted(seen)]


def proof_step(prop, theorems, module, thorough=False, pre=None):
    """returns dict(obligations, discharged, failed:[names], log)"""
    res = {"obligations": len(theorems), "discharged": 0, "failed": [], "axioms": {}, "log": ""}
    if pre is not None:
        ok, msg = pre()
        if not ok:
            res["failed"] = ["<generation> " + msg]
            return res
    os.makedirs(os.path.join(LEAN, ".lake"), exist_ok=True)
    lock = ["flock", os.path.join(LEAN, ".lake", "verif-build.lock")]
    modules = [module] if isinstance(module, str) else list(module)
    rc, out = sh(lock + ["lake", "build"] + modules)
    if rc != 0:
        res["log"] = out[-4000:]
        res["failed"] = ["<build> " + " ".join(modules)]
        return res
    rc, out = sh(lock + ["lake", "build", "drv"])
    if rc != 0:      # the shared driver does not build: infrastructure, not a verdict about this property
        raise RuntimeError("driver build failed:\n" + out[-3000:])
    bad = []
    srcs = sorted(set(f for m in modules for f in lean_sources(m)))
    for f in srcs:
        for ln, line in enumerate(strip_comments(open(f).read()).splitlines(), 1):
            if FORBIDDEN.search(line):
                bad.append("%s:%d: %s" % (os.path.relpath(f, LEAN), ln, line.strip()))
    if bad:
        res["failed"] = ["<forbidden-token> " + b for b in bad[:5]]
        return res
    audit = os.path.join(LEAN, "Audit", "%s%s.lean" % (prop, ("_" + str(os.getpid())) if os.environ.get("VERIF_SCRATCH_DIR") else ""))
    os.makedirs(os.path.dirname(audit), exist_ok=True)
    with open(audit, "w") as f:
        for m in modules:
            f.write("import %s\n" % m)
        for t in theorems:
            f.write("#print axioms %s\n" % t)
    rc, out = sh(["lake", "env", "lean", audit])
    res["log"] = out[-4000:]
    cur = None
    axioms = {}
    for m in re.finditer(r"'([^']+)' depends on axioms: \[([^\]]*)\]|'([^']+)' does not depend on any axioms", out):
        if m.group(1):
            axioms[m.group(1)] = [a.strip() for a in m.group(2).replace("\n", " ").split(",") if a.strip()]
        else:
            axioms[m.group(3)] = []
    for t in theorems:
        short = t
        ax = axioms.get(short)
        if ax is None:
            res["failed"].append(t + " (not found / did not check)")
        elif not set(ax) <= ALLOWED_AXIOMS:
            res["failed"].append(t + " (axioms: %s)" % ax)
        else:
            res["discharged"] += 1
            res["axioms"][t] = ax
    if thorough and not res["failed"]:
        rc, out = sh(["lake", "env", "leanchecker"] + modules, timeout=3000)
        res["leanchecker"] = "ok" if rc == 0 else out[-1500:]
        if rc != 0:
            res["failed"].append("<leanchecker> " + " ".join(modules))
    return res


class Ctx:
    def __init__(self, prop, tier, seed):
        self.prop, self.tier, self.seed = prop, tier, seed
        self.rng = random.Random(seed * 1000003 + int(prop[1:]))
        self.stats = collections.Counter()
        self.samples = []
        self.corr_fail, self.oracle_fail = [], []
        self.evaluations = 0
        self.nontrivial = set()
        self.traces = 0
        self._drv = None
        self.notes = []
        self.t0 = time.time()

    @property
    def drv(self):
        if self._drv is None:
            from . import wire
            self._drv = wire.Driver()
        return self._drv

    def thorough(self):
        return self.tier == "thorough"

    def n(self, quick, thorough):
        return thorough if self.thorough() else quick

    def case(self, key=None, nontrivial=True, sample=None):
        self.evaluations += 1
        if nontrivial and key is not None:
            self.nontrivial.add(hashlib.sha1(json.dumps(key, sort_keys=True, default=str).encode()).hexdigest())
        if sample is not None and len(self.samples) < 3:
            self.samples.append(sample)

    def corr(self, case, relation, detail):
        """the model and the implementation disagree on `relation`"""
        self.corr_fail.append({"relation": relation, "detail": detail, "case": case})

    def oracle(self, case, clause, kind, trigger, detail):
        """the property's own statement fails on the implementation's observables"""
        self.oracle_fail.append({"clause": clause, "kind": kind, "trigger": trigger, "detail": detail, "case": case})


def load_known():
    p = os.path.join(VERIF, "known_findings.json")
    if not os.path.exists(p):
        return []
    return json.load(open(p)).get("findings", [])


def match_known(prop, f, known):
    for k in known:
        if k.get("status") != "open" or k["property"] != prop:
            continue
        if k["clause"] != f["clause"] or k.get("kind", f["kind"]) != f["kind"]:
            continue
        trig = k.get("trigger", {})
        if all(f["trigger"].get(a) == b for a, b in trig.items()):
            return k
    return None


def write_replay(prop, seed, n, payload):
    d = os.environ.get("VERIF_SCRATCH_DIR") or os.path.join(VERIF, "replays")   # scratch dir: testing the checks themselves
    os.makedirs(d, exist_ok=True)
    path = os.path.join(d, "%s-%d-%d.json" % (prop, seed, n))
    payload = dict(payload)
    payload["property"] = prop
    payload["rerun"] = "./check %s --replay replays/%s" % (prop, os.path.basename(path))
    with open(path, "w") as f:
        json.dump(payload, f, indent=1, default=str)
    return os.path.relpath(path, VERIF) if path.startswith(VERIF) else path


def main():
    ap = argparse.ArgumentParser()
    ap.add_argument("prop")
    ap.add_argument("--tier", default=os.environ.get("VERIF_TIER", "quick"))
    ap.add_argument("--replay")
    a = ap.parse_args()
    prop = a.prop.upper()
    seed = int(os.environ.get("VERIF_SEED", "0") or 0)
    tier = a.tier if a.tier in ("quick", "thorough") else "quick"
    os.chdir(VERIF)
    t0 = time.time()
    from . import cov
    cov.maybe_start()          # VERIF_COVERAGE=<file>: line coverage of sysloss during this run (tools/covreport.py)
    try:
        mod = importlib.import_module("harness.props.%s" % prop.lower())
    except ImportError:
        print("no such property check: %s" % prop)
        traceback.print_exc()
        sys.exit(2)
    ctx = Ctx(prop, tier, seed)
    known = load_known()
    violations = []
    # global watchdog: a run that does not come to an end is an infrastructure failure (exit 2), never a hang and never a verdict
    budget = int(os.environ.get("VERIF_BUDGET_S", "0") or 0) or (2400 if tier == "quick" else 7200)

    from . import sysdesc as _sd

    def _expired(signum, frame):
        raise _sd.CheckBudgetExceeded("check %s (%s tier): %d s" % (prop, tier, budget))
    try:
        import signal
        _sd.GLOBAL_DEADLINE[0] = time.time() + budget
        signal.signal(signal.SIGALRM, _expired)
        signal.alarm(budget)
    except (ValueError, AttributeError):
        pass
    try:
        pr = proof_step(prop, mod.THEOREMS, getattr(mod, "MODULES", None) or mod.MODULE, thorough=(tier == "thorough"),
                        pre=getattr(mod, "pre_build", None))
        if a.replay:
            data = json.load(open(a.replay))
            mod.replay(ctx, data)
        else:
            if not pr["failed"] or not any(x.startswith("<build>") for x in pr["failed"]):
                mod.run(ctx)
            if (pr["failed"] or ctx.corr_fail) and not ctx.oracle_fail and hasattr(mod, "search"):
                mod.search(ctx)          # widened, targeted stream for a failing input
    except (subprocess.TimeoutExpired, _sd.CheckBudgetExceeded):
        print("timeout in infrastructure")
        sys.exit(2)
    except Exception:
        traceback.print_exc()
        print("infrastructure failure")
        sys.exit(2)
    finally:
        if ctx._drv is not None:
            ctx._drv.close()

    nrep = 0
    seen_known = {}
    for f in ctx.oracle_fail:
        k = match_known(prop, f, known)
        if k is not None:
            seen_known.setdefault(k["id"], (k, f))
            continue
        nrep += 1
        if nrep <= 5:
            path = write_replay(prop, seed, nrep, {"kind": "oracle", **f})
            violations.append("VIOLATION property=%s replay=%s" % (prop, path))
    if not violations:
        if pr["failed"]:
            nrep += 1
            path = write_replay(prop, seed, nrep, {"kind": "proof", "no_longer_checks": pr["failed"],
                                                   "log": pr.get("log", "")})
            violations.append("VIOLATION property=%s replay=%s no-failing-input-found" % (prop, path))
        elif ctx.corr_fail:
            # group by relation; one replay per relation
            rels = {}
            for c in ctx.corr_fail:
                rels.setdefault(c["relation"], c)
            for rel, c in list(rels.items())[:5]:
                nrep += 1
                path = write_replay(prop, seed, nrep, {"kind": "correspondence", "no_longer_checks": rel, **c})
                violations.append("VIOLATION property=%s replay=%s no-failing-input-found" % (prop, path))
    for kid, (k, f) in seen_known.items():
        print("KNOWN-FINDING: property=%s %s [%s]" % (prop, k["what"], kid))
    for v in violations:
        print(v)

    ev = {
        "property_id": prop, "tier": tier, "seed": seed, "level": "proof",
        "coverage": {
            "obligations": pr["obligations"], "discharged": pr["discharged"],
            "checker_cmd": "cd lean && lake build %s && lake env lean Audit/%s.lean   (#print axioms on every listed theorem)" % (" ".join(getattr(mod, "MODULES", None) or [mod.MODULE]), prop),
            "trusted_base": ["Lean 4.33 kernel", "Mathlib v4.33", "axioms: propext, Classical.choice, Quot.sound only (audited per theorem)",
                             "hand-written Lean model tied to /repo by the correspondence run below (differential testing, not proof)",
                             "harness/ (generators, canonicalisation, comparison)"] + list(getattr(mod, "TRUSTED", [])),
            "theorems": pr["axioms"], "proof_failed": pr["failed"],
            "evaluations": ctx.evaluations, "distinct_nontrivial": len(ctx.nontrivial),
            "rule": getattr(mod, "RULE", ""),
            "samples": ctx.samples or [{"note": "no generated cases in this run"}],
            "traces_validated_against_impl": ctx.traces,
            "disagreements_checked": len(ctx.corr_fail),
            "distribution": dict(ctx.stats),
            "known_findings_seen": sorted(seen_known),
            "notes": ctx.notes,
            "explanation": getattr(mod, "EXPLANATION", ""),
        },
        "assumptions": list(getattr(mod, "ASSUMPTIONS", [])),
        "wall_s": round(time.time() - t0, 2),
        "violations": len(violations),
    }
    if "leanchecker" in pr:
        ev["coverage"]["leanchecker"] = pr["leanchecker"]
    if not a.replay and not os.environ.get("VERIF_SCRATCH_DIR"):
        os.makedirs(os.path.join(VERIF, "evidence"), exist_ok=True)
        with open(os.path.join(VERIF, "evidence", "%s.json" % prop), "w") as f:
            json.dump(ev, f, indent=1, default=str)
    sys.exit(1 if violations else 0)


if __name__ == "__main__":
    main()
