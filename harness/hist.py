"""Edit / configuration histories (C14, C15; reusable by C16, C17).

A history is {"init": {...}, "ops": [op, ...]} with raw arguments.  `Run` drives the real `System` through its
public API only and, after every call, reconstructs the structure a user can see:
  params()  -> live component names, types, the distinguishing parameter (the component's "tag")
  tree()    -> every parent -> child link (text captured from stdout)
  save()    -> the groups / rails / phase_conf / phases dictionaries in insertion order, the PMux's ordered inputs
               (or the exception save() raises, which is itself an observable)
`model(drv, hist)` runs the same history through the Lean model (`hist` command); `compare` checks them step by
step.  `wf_oracle` evaluates C14's clauses on the reconstruction, independently of the model.
"""
import io, json, os, re, tempfile, contextlib, warnings, copy

os.environ.setdefault("MPLBACKEND", "Agg")
warnings.filterwarnings("ignore")

from sysloss.components import (Source, PLoad, ILoad, RLoad, RLoss, VLoss, Converter, LinReg,  # noqa: E402
                                PSwitch, PMux, Rectifier)
from sysloss.system import System  # noqa: E402

NAMES = ["A", "B", "C", "D", "E", "F", "G", "H", "J", "K", "L", "M"]
RAILS = ["r1", "r2", "r3", "r4", "r5", "r6"]
GROUPS = ["", "", "g1", "g2"]
PHASES = ["p1", "p2", "p3", "p4"]
LOADS = ("pload", "iload", "rload")
NONLOAD = ("converter", "linreg", "rloss", "vloss", "pswitch", "rectifier")
CTYPE = {"source": "SOURCE", "pload": "LOAD", "iload": "LOAD", "rload": "LOAD", "rloss": "SLOSS", "vloss": "SLOSS",
         "converter": "CONVERTER", "linreg": "LINREG", "pswitch": "PSWITCH", "pmux": "PMUX", "rectifier": "RECTIFIER"}
BASE = {"source": 12.0, "pload": 0.02, "iload": 0.004, "rload": 2000.0, "rloss": 0.02, "vloss": 0.02,
        "converter": 3.0, "linreg": 2.0, "pswitch": 0.02, "pmux": 0.02, "rectifier": 0.02}
_TMP = tempfile.mkdtemp(prefix="verif-hist-")


def value(kind, serial):
    """the distinguishing parameter of the serial-th component object of a history"""
    return BASE[kind] * (1.0 + serial / 256.0)


def tag(kind, v):
    if isinstance(v, (list, tuple)) and v:
        v = v[0]               # a per-input list (PMux rs): identified by its first entry
    return "%s:%r" % (kind, float(v))


TABLE_KEY = {"converter": "eff", "linreg": "ig", "pswitch": "ig", "pmux": "ig", "rectifier": "ig"}


def mk(c):
    """component object of a description {"name", "kind", "val"[, "limits": {...}][, "table": True]}
    (`table`: the secondary parameter eff / ig is an interpolation table instead of a constant)"""
    k, n, v = c["kind"], c["name"], c["val"]
    kw = {}
    if c.get("limits"):
        kw["limits"] = copy.deepcopy(c["limits"])
    if c.get("table") and k in TABLE_KEY:
        z = TABLE_KEY[k]
        vals = [[0.55, 0.78, 0.92]] if z == "eff" else [[1e-5, 2e-5, 5e-5]]
        kw[z] = {"vi": [3.3], "io": [0.1, 0.5, 0.9], z: vals}
    if k == "source":
        return Source(n, vo=v, **kw)
    if k == "pload":
        return PLoad(n, pwr=v, **kw)
    if k == "iload":
        return ILoad(n, ii=v, **kw)
    if k == "rload":
        return RLoad(n, rs=v, **kw)
    if k == "rloss":
        return RLoss(n, rs=v, **kw)
    if k == "vloss":
        return VLoss(n, vdrop=v, **kw)
    if k == "converter":
        kw.setdefault("eff", 0.9)
        return Converter(n, vo=v, **kw)
    if k == "linreg":
        return LinReg(n, vo=v, **kw)
    if k == "pswitch":
        return PSwitch(n, rs=v, **kw)
    if k == "pmux":
        return PMux(n, rs=([v] * int(c["rs_list"]) if c.get("rs_list") else v), **kw)
    if k == "rectifier":
        return Rectifier(n, rs=v, **kw)
    raise ValueError(k)


def exc_name(e):
    return "ok" if e is None else type(e).__name__


def quiet(f, *a, **k):
    buf = io.StringIO()
    with warnings.catch_warnings():
        warnings.simplefilter("ignore")
        with contextlib.redirect_stdout(buf), contextlib.redirect_stderr(buf):
            try:
                return f(*a, **k), None, buf.getvalue()
            except Exception as e:  # noqa
                return None, e, buf.getvalue()


# ---------------------------------------------------------------------------------------------------
# calling the public API

def dc_value(op):
    """the del_childs argument as passed: the bool itself, or (dc_form) another object of the same truth value - a flag that comes out
    of a numpy reduction/comparison or an int; the documented meaning is the truth value, and that is all the model sees"""
    b = bool(op["del_childs"])
    f = op.get("dc_form")
    if f == "int":
        return 1 if b else 0
    if f == "numpy":
        import numpy
        return numpy.bool_(b)
    return b


def call(sys_, op):
    """apply one op; returns the exception (or None)"""
    o = op["op"]
    if o == "add_source":
        _, e, _ = quiet(lambda: sys_.add_source(mk(op["comp"]), group=op["group"], rail=op["rail"]))
    elif o == "add_comp":
        par = op["parent"]
        par = list(par) if isinstance(par, list) else par
        if op.get("parent_form") == "tuple" and isinstance(par, list):
            par = tuple(par)              # an argument FORM the documented API does not list (parent: str | list)
        _, e, _ = quiet(lambda: sys_.add_comp(par, comp=mk(op["comp"]), group=op["group"], rail=op["rail"]))
    elif o == "change_comp":
        _, e, _ = quiet(lambda: sys_.change_comp(op["name"], comp=mk(op["comp"]), group=op["group"], rail=op["rail"]))
    elif o == "del_comp":
        _, e, _ = quiet(lambda: sys_.del_comp(op["name"], del_childs=dc_value(op)))
    elif o == "set_sys_phases":
        _, e, _ = quiet(lambda: sys_.set_sys_phases(dict(op["phases"])))
    elif o == "set_comp_phases":
        conf = op["conf"]
        if conf == "bad":
            arg = "p1"
        elif "names" in conf:
            arg = list(conf["names"])
        else:
            arg = dict(conf["table"])
        _, e, _ = quiet(lambda: sys_.set_comp_phases(op["name"], arg))
    else:
        raise ValueError(o)
    return e


# ---------------------------------------------------------------------------------------------------
# observation through public reports

def _df_records(df):
    if df is None:
        return None
    return json.loads(json.dumps({"cols": [str(c) for c in df.columns],
                                  "rows": [[_cell(x) for x in r] for r in df.itertuples(index=False)]}))


def _cell(x):
    if isinstance(x, (list, tuple)):
        return [_cell(y) for y in x]
    if isinstance(x, dict):
        return {str(k): _cell(v) for k, v in x.items()}
    if isinstance(x, str):
        return x
    try:
        return repr(float(x)) if not isinstance(x, bool) else x
    except Exception:
        return str(x)


def _kind_tag(row):
    t = row["Type"]
    g = lambda c: row.get(c, "")  # noqa: E731
    if t == "SOURCE":
        return tag("source", g("vo (V)"))
    if t == "CONVERTER":
        return tag("converter", g("vo (V)"))
    if t == "LINREG":
        return tag("linreg", g("vo (V)"))
    if t == "PSWITCH":
        return tag("pswitch", g("rs (Ohm)"))
    if t == "PMUX":
        return tag("pmux", g("rs (Ohm)"))
    if t == "RECTIFIER":
        return tag("rectifier", g("rs (Ohm)"))
    if t == "SLOSS":
        return tag("rloss", g("rs (Ohm)")) if g("rs (Ohm)") != "" else tag("vloss", g("vdrop (V)"))
    if t == "LOAD":
        if g("pwr (W)") != "":
            return tag("pload", g("pwr (W)"))
        if g("ii (A)") != "":
            return tag("iload", g("ii (A)"))
        return tag("rload", g("rs (Ohm)"))
    return "?:" + str(t)


_TREE_LINE = re.compile(r"^((?:[│ ]   )*)(?:[├└]── )?(.*)$")


def parse_tree(text):
    """rich tree text -> set of (parent, child) links (the root line is the system name)"""
    edges, stack = set(), []
    lines = [ln for ln in text.splitlines() if ln.strip() != ""]
    for ln in lines[1:]:
        m = re.match(r"^((?:[│ ] {3})*)([├└]── )(.*)$", ln)
        if not m:
            continue
        depth = len(m.group(1)) // 4
        name = m.group(3).rstrip()
        stack = stack[:depth]
        if stack:
            edges.add((stack[-1], name))
        stack.append(name)
    return edges


def observe(sys_, full=False):
    """everything C14 needs (and, with full=True, everything C15 compares)"""
    o = {}
    df, e, _ = quiet(sys_.params, limits=full)
    o["params_exc"] = exc_name(e) if e else None
    o["comps"] = []
    if df is not None:
        for _, r in df.iterrows():
            row = {c: r[c] for c in df.columns}
            o["comps"].append([str(row["Component"]), str(row["Type"]), _kind_tag(row)])
        if full:
            o["params"] = _df_records(df)
    _, e, text = quiet(sys_.tree)
    o["tree_exc"] = exc_name(e) if e else None
    o["links"] = sorted(parse_tree(text)) if e is None else None
    path = os.path.join(_TMP, "s.json")
    _, e, _ = quiet(sys_.save, path)
    o["save_exc"] = exc_name(e) if e else None
    o["doc"] = None
    if e is None:
        with open(path) as f:
            o["doc"] = json.load(f, object_pairs_hook=lambda ps: {"$o": [[k, v] for k, v in ps]})
    if full:
        df, e, _ = quiet(sys_.phases)
        o["phases_rep"] = exc_name(e) if e else _df_records(df)
        df, e, _ = quiet(sys_.solve)
        o["solve"] = exc_name(e) if e else _df_records(df)
    return o


def _od(x):
    """ordered-dict marker -> list of pairs"""
    return x["$o"] if isinstance(x, dict) and "$o" in x else x


def _plain(x):
    if isinstance(x, dict) and "$o" in x:
        return {k: _plain(v) for k, v in x["$o"]}
    if isinstance(x, list):
        return [_plain(v) for v in x]
    return x


def structure(o):
    """the reconstruction: what a user can tell about the structure from one observation"""
    st = {"comps": [list(c) for c in o["comps"]], "links": o["links"], "save_exc": o["save_exc"],
          "params_exc": o["params_exc"], "tree_exc": o["tree_exc"],
          "groups": None, "rails": None, "phase_conf": None, "phases": None, "mux": None, "mux_parents": None,
          "doc_links": None}
    d = o["doc"]
    if d is not None:
        top = dict(_od(d))
        sysb = dict(_od(top["system"]))
        st["groups"] = [[k, v] for k, v in _od(sysb["groups"])]
        st["rails"] = [[k, v] for k, v in _od(sysb["rails"])]
        pc = _od(sysb["phase_conf"])
        st["phase_conf"] = []
        for k, v in pc:
            if isinstance(v, dict) and "$o" in v:
                st["phase_conf"].append([k, {"table": [[a, repr(float(b))] for a, b in v["$o"]]}])
            else:
                st["phase_conf"].append([k, {"names": list(v)}])
        st["phases"] = [[k, repr(float(v))] for k, v in _od(sysb["phases"])]
        links = set()
        for key, blk in _od(d):
            if key == "system":
                continue
            b = dict(_od(blk))
            for par, kids in _od(b["childs"]):
                for kid in kids:
                    links.add((par, dict(_od(dict(_od(kid))["params"]))["name"]))
            if "parents" in b:
                st["mux"] = key
                st["mux_parents"] = list(b["parents"])
        st["doc_links"] = sorted(links)
    return st


# ---------------------------------------------------------------------------------------------------
# C14's clauses on the reconstruction (written from the property statement, not from the model)

def wf_oracle(st):
    """list of (clause, detail) that fail on the reconstruction"""
    bad = []
    if st["params_exc"] or st["tree_exc"]:
        bad.append(("reports_raise", {"params": st["params_exc"], "tree": st["tree_exc"]}))
    names = [c[0] for c in st["comps"]]
    ctype = {c[0]: c[1] for c in st["comps"]}
    if len(set(names)) != len(names):
        bad.append(("names_distinct", {"names": names}))
    if st["save_exc"] is not None:
        # the structure cannot even be saved: the PMux's recorded inputs no longer resolve (OverflowError),
        # or a registry lost a live name (KeyError)
        bad.append(("inputs_resolve" if st["save_exc"] == "OverflowError" else "reports_raise",
                    {"save": st["save_exc"]}))
    else:
        rails = [r for _, r in st["rails"] if r != ""]
        if len(set(rails)) != len(rails):
            bad.append(("rails_distinct", {"rails": st["rails"]}))
        both = sorted(set(names) & set(rails))
        if both:
            bad.append(("names_rails_disjoint", {"both": both}))
        for reg in ("groups", "rails", "phase_conf"):
            keys = [k for k, _ in st[reg]]
            if sorted(keys) != sorted(set(names)):
                bad.append(("registries_exact", {"registry": reg, "keys": keys, "live": names}))
    links = st["links"] if st["links"] is not None else (st["doc_links"] or [])
    preds = {}
    for p, c in links:
        preds.setdefault(c, set()).add(p)
    for n in names:
        if (len(preds.get(n, ())) == 0) != (ctype[n] == "SOURCE"):
            bad.append(("roots_are_sources", {"name": n, "type": ctype[n], "parents": sorted(preds.get(n, ()))}))
        if len(preds.get(n, ())) > 1 and ctype[n] != "PMUX":
            bad.append(("only_mux_multi_parent", {"name": n, "type": ctype[n], "parents": sorted(preds[n])}))
    for p, c in links:
        if ctype.get(p) == "LOAD":
            bad.append(("loads_childless", {"load": p, "child": c}))
        if ctype.get(p) is None or ctype.get(c) is None:
            bad.append(("links_accepted", {"link": [p, c], "why": "endpoint is not a live component"}))
        elif ctype[p] == "LOAD" or ctype[c] == "SOURCE":
            bad.append(("links_accepted", {"link": [p, c], "types": [ctype[p], ctype[c]]}))
    if sum(1 for c in st["comps"] if c[1] == "PMUX") > 1:
        bad.append(("one_mux", {"muxes": [c[0] for c in st["comps"] if c[1] == "PMUX"]}))
    if st["mux_parents"] is not None and st["links"] is not None:
        m = st["mux"]
        for q in st["mux_parents"]:
            if q not in preds.get(m, ()):
                bad.append(("inputs_resolve", {"mux": m, "recorded_input_resolves_to": q,
                                               "feeding": sorted(preds.get(m, ()))}))
        if len(preds.get(m, ())) > 1 and len(set(st["mux_parents"])) != len(st["mux_parents"]):
            # "... resolve to exactly its feeding components": each of them once (Lean: `e.parents.Nodup`)
            bad.append(("inputs_resolve", {"mux": m, "recorded_inputs": list(st["mux_parents"]), "why": "an input is recorded twice",
                                           "feeding": sorted(preds.get(m, ()))}))
    # one entry per clause
    seen, out = set(), []
    for c, d in bad:
        if c not in seen:
            seen.add(c)
            out.append((c, d))
    return out


# ---------------------------------------------------------------------------------------------------
# trigger facts of a call in its pre-state (for matching known findings), from public knowledge only:
# the reconstruction before the call, the call's arguments, and the parent lists this harness itself passed

def eff_rail(comp, rail):
    return "" if (comp["kind"] in LOADS and rail != "") else rail


def facts(st, recorded, op):
    names = [c[0] for c in st["comps"]]
    ctype = {c[0]: c[1] for c in st["comps"]}
    rails = dict(st["rails"] or [])
    railvals = [r for r in rails.values()]
    links = st["links"] or []
    preds, kids = {}, {}
    for p, c in links:
        preds.setdefault(c, set()).add(p)
        kids.setdefault(p, set()).add(c)

    def resolve(x):
        if x in names:
            return x
        if x == "":
            return None
        for k, r in (st["rails"] or []):
            if r == x:
                return k
        return None

    f = {}
    o = op["op"]
    if o == "add_comp":
        f["empty_parent_list"] = op["parent"] == []
    if o == "change_comp" and op["name"] in names:
        t, c = op["name"], op["comp"]
        er = eff_rail(c, op["rail"])
        f["to_kind_rejecting_children"] = bool(kids.get(t)) and c["kind"] in LOADS
        f["same_name_rail_in_use"] = (c["name"] == t and er != "" and
                                      (er == t or er in names or er in [r for k, r in rails.items() if k != t]))
        stale = False
        for m, plist in recorded.items():
            if m in names and len(preds.get(m, ())) > 1:
                for e in plist[:len(preds[m])]:
                    if resolve(e) == t:
                        if e == t and c["name"] != t:
                            stale = True
                        if e != t and er != e:
                            stale = True
        f["recorded_input_renamed"] = stale
        f["second_mux"] = (c["kind"] == "pmux" and ctype[t] != "PMUX" and
                           any(ctype[n] == "PMUX" for n in names if n != t))
    if o == "del_comp":
        x = op["name"]
        f["target_is_rail"] = x not in names and x != "" and x in railvals
        t = resolve(x)
        keeps = False
        if t is not None and not op["del_childs"] and x in names:
            par = None
            if len(preds.get(t, ())) == 1:
                par = list(preds[t])[0]
            elif len(preds.get(t, ())) > 1 and t in recorded:
                par = resolve(recorded[t][0])
            for k in kids.get(t, ()):
                if len(preds.get(k, ())) > 1 and len((preds[k] - {t}) | {par}) > 1:
                    keeps = True
        f["child_keeps_several_inputs"] = keeps
    if o == "set_comp_phases":
        x = op["name"]
        f["target_is_rail"] = x not in names and x != "" and x in railvals
    return f


UNSAFE_OF = {  # trigger fact -> the pattern id the Lean `Safe` predicate reports
    ("change_comp", "to_kind_rejecting_children"): "F16", ("change_comp", "same_name_rail_in_use"): "F17",
    ("change_comp", "recorded_input_renamed"): "F18", ("change_comp", "second_mux"): "F32",
    ("del_comp", "child_keeps_several_inputs"): "F19", ("del_comp", "target_is_rail"): "F20",
    ("set_comp_phases", "target_is_rail"): "F21"}


def unsafe_ids(op, f):
    return sorted(UNSAFE_OF[(op["op"], k)] for k, v in f.items() if v and (op["op"], k) in UNSAFE_OF)


# ---------------------------------------------------------------------------------------------------
# running a history on the implementation

class Run:
    def __init__(self, init, full=False):
        self.full = full
        self.init = init
        self.ops, self.steps = [], []
        self.recorded = {}             # component name -> parent list this harness passed to add_comp
        self.mux_expect = None         # (mux name, ordered input names) the CALLS SO FAR entitle a user to expect (see _track_mux)
        kw = {"group": init["group"], "rail": init["rail"]}
        self.sys, e, _ = quiet(lambda: System(init["name"], mk(init["comp"]), **kw))
        self.init_outcome = exc_name(e)
        self.obs0 = observe(self.sys, full) if e is None else None
        self.st0 = structure(self.obs0) if e is None else None
        if e is None:
            self.recorded[init["comp"]["name"]] = []

    def cur_obs(self):
        return self.steps[-1]["obs"] if self.steps else self.obs0

    def cur(self):
        return self.steps[-1]["st"] if self.steps else self.st0

    def apply(self, op):
        st = self.cur()
        f = facts(st, self.recorded, op)
        e = call(self.sys, op)
        out = exc_name(e)
        obs = observe(self.sys, self.full)
        st2 = structure(obs)
        if out == "ok":
            o = op["op"]
            if o == "add_source":
                self.recorded[op["comp"]["name"]] = []
            elif o == "add_comp":
                self.recorded[op["comp"]["name"]] = list(op["parent"]) if isinstance(op["parent"], list) else [op["parent"]]
            elif o == "change_comp":
                self.recorded[op["comp"]["name"]] = self.recorded.pop(op["name"], [])
            elif o == "del_comp":
                live = set(c[0] for c in st2["comps"])
                for k in list(self.recorded):
                    if k not in live:
                        del self.recorded[k]
        if out == "ok":
            self._track_mux(op, st)
        step = {"op": op, "outcome": out, "facts": f, "obs": obs, "st": st2, "wf": wf_oracle(st2),
                "msg": str(e) if e is not None else ""}
        self.ops.append(op)
        self.steps.append(step)
        return step

    def _track_mux(self, op, st):
        """The ordered inputs of the PMux as the documented meaning of the accepted calls gives them, independent of what
        the implementation reports afterwards: the list passed to add_comp (a rail name stands for its owner at that time);
        change_comp renames in place; del_comp(x, del_childs=False) replaces input x by x's own parent (an input that is then
        listed twice is kept once); deleting the mux, or anything above it together with its children, removes it."""
        o = op["op"]
        rails = {r: n for n, r in (st["rails"] or []) if r != ""}
        preds = {}
        for p_, c_ in (st["links"] or []):
            preds.setdefault(c_, []).append(p_)
        if o == "add_comp" and op["comp"]["kind"] == "pmux":
            par = op["parent"] if isinstance(op["parent"], list) else [op["parent"]]
            self.mux_expect = (op["comp"]["name"], [rails.get(x, x) for x in par])
        elif self.mux_expect is None:
            return
        elif o == "change_comp":
            m, ins = self.mux_expect
            old, new = op["name"], op["comp"]["name"]
            self.mux_expect = (new if m == old else m, [new if x == old else x for x in ins])
        elif o == "del_comp":
            m, ins = self.mux_expect
            x = op["name"]
            if x == m:
                self.mux_expect = None
            elif op["del_childs"]:
                # the mux goes with it iff it is below x
                below, todo = set(), [x]
                kids = {}
                for p_, c_ in (st["links"] or []):
                    kids.setdefault(p_, []).append(c_)
                while todo:
                    y = todo.pop()
                    for k in kids.get(y, []):
                        if k not in below:
                            below.add(k)
                            todo.append(k)
                if m in below:
                    self.mux_expect = None
            elif x in ins:
                up = preds.get(x, [])
                if len(up) == 1:
                    new = [up[0] if y == x else y for y in ins]
                    self.mux_expect = (m, list(dict.fromkeys(new)))
                else:
                    self.mux_expect = None       # outside the documented cases: no expectation

    def history(self):
        return {"init": self.init, "ops": list(self.ops)}


def replay(hist, full=False, stop_on_wf=False):
    r = Run(hist["init"], full)
    if r.init_outcome != "ok":
        return r
    for op in hist["ops"]:
        s = r.apply(op)
        if stop_on_wf and s["wf"]:
            break
    return r


# ---------------------------------------------------------------------------------------------------
# the model side

def wire_comp(c):
    return {"name": c["name"], "kind": c["kind"], "tag": tag(c["kind"], c["val"])}


def wire_op(op):
    o = dict(op)
    if "comp" in o:
        o["comp"] = wire_comp(o["comp"])
    if o.get("parent_form") == "tuple":
        # system.py takes anything that is not a list for ONE parent name: a tuple is the (unknown) name "('A', 'B')"
        o["parent"] = repr(tuple(o["parent"]))
        o.pop("parent_form", None)
    o.pop("dc_form", None)
    if o["op"] == "set_sys_phases":
        o["phases"] = [[k, repr(float(v))] for k, v in op["phases"]]
    if o["op"] == "set_comp_phases" and op["conf"] != "bad" and "table" in op["conf"]:
        o["conf"] = {"table": [[k, repr(float(v))] for k, v in op["conf"]["table"]]}
    return o


def model(drv, hist, nops=None):
    ops = hist["ops"] if nops is None else hist["ops"][:nops]
    req = {"cmd": "hist", "init": {"name": hist["init"]["name"], "comp": wire_comp(hist["init"]["comp"]),
                                   "group": hist["init"]["group"], "rail": hist["init"]["rail"]},
           "ops": [wire_op(o) for o in ops]}
    res = drv.ask(req)
    if "bad-op" in res:
        raise RuntimeError("driver: %r" % (res,))
    return res


def compare_state(ms, st):
    """model state vs reconstruction; returns list of (relation, detail)"""
    out = []
    mc = sorted([c["name"], c["ctype"], c["tag"]] for c in ms["comps"])
    ic = sorted(st["comps"])
    if mc != ic:
        out.append(("live components (name, type, parameter)", {"model": mc, "impl": ic}))
    if st["links"] is not None:
        ml = sorted(set((p, c["name"]) for c in ms["comps"] for p in c["preds"]))
        il = sorted(set(tuple(x) for x in st["links"]))
        if ml != [tuple(x) for x in il]:
            out.append(("parent -> child links (tree())", {"model": ml, "impl": il}))
    # the exception save() raises
    order = [c[0] for c in st["comps"] if c[1] == "PMUX"]
    msave = ms["save_pre"]
    if msave is None and order:
        mm = dict((k, v) for k, v in ms["save_mux"])
        msave = mm.get(order[0])
    if msave != st["save_exc"]:
        out.append(("exception raised by save()", {"model": msave, "impl": st["save_exc"]}))
    if st["save_exc"] is None and ms["save_pre"] is None:
        for reg in ("groups", "rails", "phase_conf", "phases"):
            if ms[reg] != st[reg]:
                out.append(("registry %s as saved (ordered)" % reg, {"model": ms[reg], "impl": st[reg]}))
        if st["mux"] is not None:
            mp = [c["parents"] for c in ms["comps"] if c["name"] == st["mux"]]
            if not mp or mp[0] != st["mux_parents"]:
                out.append(("ordered inputs of the PMux as saved", {"model": mp, "impl": st["mux_parents"], "mux": st["mux"]}))
    return out


def compare_run(run, res):
    """step-by-step correspondence; returns list of (step index (-1 = constructor), relation, detail)"""
    out = []
    if res["init"] != run.init_outcome:
        return [(-1, "constructor outcome", {"model": res["init"], "impl": run.init_outcome})]
    if run.init_outcome != "ok":
        return out
    for rel, d in compare_state(res["state"], run.st0):
        out.append((-1, rel, d))
    for k, (ms, s) in enumerate(zip(res["steps"], run.steps)):
        if ms["outcome"] != s["outcome"]:
            out.append((k, "outcome of %s" % s["op"]["op"], {"model": ms["outcome"], "impl": s["outcome"], "msg": s["msg"]}))
            break
        for rel, d in compare_state(ms["state"], s["st"]):
            out.append((k, rel, d))
        if out:
            break
    return out


# ---------------------------------------------------------------------------------------------------
# delta debugging of a failing history

def ddmin(hist, fails):
    """smallest sub-history (ops removed, order kept) for which `fails(hist)` still holds"""
    ops = list(hist["ops"])

    def mk_h(o):
        return {"init": hist["init"], "ops": o}

    n = 2
    budget = 400
    while len(ops) >= 2 and budget > 0:
        chunk = max(1, len(ops) // n)
        reduced = False
        for i in range(0, len(ops), chunk):
            cand = ops[:i] + ops[i + chunk:]
            budget -= 1
            if cand != ops and fails(mk_h(cand)):
                ops = cand
                n = max(n - 1, 2)
                reduced = True
                break
            if budget <= 0:
                break
        if not reduced:
            if chunk == 1:
                break
            n = min(len(ops), n * 2)
    # simplify arguments of the remaining ops: drop groups
    for i in range(len(ops)):
        if ops[i].get("group"):
            cand = copy.deepcopy(ops)
            cand[i]["group"] = ""
            if fails(mk_h(cand)):
                ops = cand
    return mk_h(ops)


def short(hist):
    """compact, readable form of a history (for replay files and reports)"""
    def c(x):
        return "%s(%r)" % ({"source": "Source", "pload": "PLoad", "iload": "ILoad", "rload": "RLoad", "rloss": "RLoss",
                            "vloss": "VLoss", "converter": "Converter", "linreg": "LinReg", "pswitch": "PSwitch",
                            "pmux": "PMux", "rectifier": "Rectifier"}[x["kind"]], x["name"])
    i = hist["init"]
    out = ["System(%r, %s%s%s)" % (i["name"], c(i["comp"]), ", group=%r" % i["group"] if i["group"] else "",
                                   ", rail=%r" % i["rail"] if i["rail"] else "")]
    for o in hist["ops"]:
        k = o["op"]
        extra = ""
        if o.get("group"):
            extra += ", group=%r" % o["group"]
        if o.get("rail"):
            extra += ", rail=%r" % o["rail"]
        if k == "add_source":
            out.append("add_source(%s%s)" % (c(o["comp"]), extra))
        elif k == "add_comp":
            out.append("add_comp(%r, comp=%s%s)" % (o["parent"], c(o["comp"]), extra))
        elif k == "change_comp":
            out.append("change_comp(%r, comp=%s%s)" % (o["name"], c(o["comp"]), extra))
        elif k == "del_comp":
            out.append("del_comp(%r, del_childs=%s)" % (o["name"], {"int": repr(int(o["del_childs"])), "numpy": "numpy.bool_(%r)" % o["del_childs"]}
                                                         .get(o.get("dc_form"), repr(o["del_childs"]))))
        elif k == "set_sys_phases":
            out.append("set_sys_phases(%r)" % (dict(o["phases"]),))
        elif k == "set_comp_phases":
            cf = o["conf"]
            out.append("set_comp_phases(%r, %r)" % (o["name"], "p1" if cf == "bad" else
                                                    (cf["names"] if "names" in cf else dict(cf["table"]))))
    return out
