"""Correspondence of the configuration reports params(limits=True) / limits() / phases() / tree() with the Lean model
(lean/SysLoss/Model/Reports.lean, driver command `reports`).

    compare_reports(ctx, sys_, desc)   sys_ = the built sysloss System, desc = its description (harness/sysdesc.py form);
                                       every disagreement is recorded with ctx.corr(desc, "report: <name>/<column>", detail)
                                       and the number of disagreements is returned.
    python -m harness.reportscheck [n] [seed]     self-test on n (200) generated systems; prints the number of disagreements.

Canonicalisation: rows keyed by component name (phases(): by name and active phase), "" / NaN -> None, numbers compared at
1e-9 relative, bool / str cells exactly, list cells (limit pairs, the list form of a PMux / Rectifier rs) element by element;
tree(): the printed lines (depth, label) and the parent -> child links as sorted multisets (sibling order is rustworkx's).
The row ORDER handed to the model is the implementation's own (`Component` column of params()); the model must then reproduce
the same order in all three tables.
"""
import io, math, os, re, sys, contextlib, warnings

os.environ.setdefault("COLUMNS", "4000")

from . import wire, sysdesc  # noqa: E402

PARAM_COLS = {"vo (V)": "vo", "vdrop (V)": "vdrop", "rs (Ohm)": "rs", "rt (°C/W)": "rt", "eff (%)": "eff",
              "ig (A)": "ig", "iq (A)": "iq", "ii (A)": "ii", "iis (A)": "iis", "pwr (W)": "pwr", "pwrs (W)": "pwrs",
              "loss": "loss"}
LIMIT_KEYS = ("vi", "vo", "vd", "ii", "io", "pi", "po", "pl", "tr", "tp")
LIMIT_UNIT = {"vi": "V", "vo": "V", "vd": "V", "ii": "A", "io": "A", "pi": "W", "po": "W", "pl": "W", "tr": "°C", "tp": "°C"}
PHASE_NUM = {"rs (Ohm)": "rs", "ii (A)": "ii", "pwr (W)": "pwr"}


# ---------------------------------------------------------------------------------------------------
# canonical cells

def canon(x):
    """a DataFrame / model cell -> None | bool | str | float | list"""
    import numpy as np
    if x is None:
        return None
    if isinstance(x, (bool, np.bool_)):
        return bool(x)
    if isinstance(x, str):
        return None if x == "" else x
    if isinstance(x, (list, tuple, np.ndarray)):
        return [canon(e) for e in x]
    if isinstance(x, (int, float, np.integer, np.floating)):
        x = float(x)
        return None if math.isnan(x) else x
    try:
        from fractions import Fraction
        if isinstance(x, Fraction):
            return float(x)
    except Exception:
        pass
    return repr(x)


def same(a, b, rel=1e-9):
    if a is None or b is None:
        return a is None and b is None
    if isinstance(a, bool) or isinstance(b, bool):
        return isinstance(a, bool) and isinstance(b, bool) and a == b
    if isinstance(a, str) or isinstance(b, str):
        return isinstance(a, str) and isinstance(b, str) and a == b
    if isinstance(a, list) or isinstance(b, list):
        return (isinstance(a, list) and isinstance(b, list) and len(a) == len(b)
                and all(same(x, y, rel) for x, y in zip(a, b)))
    return abs(a - b) <= rel * max(abs(a), abs(b)) + 1e-300


# ---------------------------------------------------------------------------------------------------
# observation of the implementation

def _quiet(f, *a, **k):
    """(result, exception, captured stdout)"""
    buf = io.StringIO()
    with warnings.catch_warnings():
        warnings.simplefilter("ignore")
        with contextlib.redirect_stdout(buf), contextlib.redirect_stderr(buf):
            try:
                return f(*a, **k), None, buf.getvalue()
            except Exception as e:  # noqa
                return None, e, buf.getvalue()


_GUIDE = re.compile(r"^((?:(?:│|\|| ) {3})*)((?:├|└|\+|`)── |(?:\+|`)-- )(.*)$")


def parse_tree_lines(text):
    """rich tree text -> ([(depth, label)] in print order below the system-name line, [(parent, child)] links)"""
    lines, edges, stack = [], [], []
    rows = [ln for ln in text.splitlines() if ln.strip() != ""]
    for ln in rows[1:]:
        m = _GUIDE.match(ln)
        if not m:
            lines.append((-1, ln))          # unparsable line: shows up as a disagreement
            continue
        depth = len(m.group(1)) // 4
        name = m.group(3).rstrip()
        stack = stack[:depth]
        if stack:
            edges.append((stack[-1], name))
        stack.append(name)
        lines.append((depth, name))
    return lines, edges


def _records(df):
    return [{c: r[c] for c in df.columns} for _, r in df.iterrows()]


def observe_reports(sys_):
    """everything the four reports show, in canonical form"""
    o = {}
    df, e, _ = _quiet(sys_.params, limits=True)
    o["params"] = {"exc": type(e).__name__} if e else {"cols": list(df.columns), "rows": _records(df)}
    df, e, _ = _quiet(sys_.limits)
    o["limits"] = {"exc": type(e).__name__} if e else {"cols": list(df.columns), "rows": _records(df)}
    df, e, _ = _quiet(sys_.phases)
    if e:
        o["phases"] = {"exc": type(e).__name__}
    elif df is None:
        o["phases"] = None
    else:
        o["phases"] = {"cols": list(df.columns), "rows": _records(df)}
    try:
        import rich
        rich.get_console().width = 4000          # no wrapping of deep trees
    except Exception:
        pass
    _, e, text = _quiet(sys_.tree)
    if e:
        o["tree"] = {"exc": type(e).__name__}
    else:
        lines, edges = parse_tree_lines(text)
        o["tree"] = {"lines": lines, "edges": edges}
    return o


def model_reports(drv, desc, topo_names, carrier="rat"):
    return drv.ask({"cmd": "reports", "carrier": carrier, "sys": sysdesc.to_wire(desc, topo_names), "limits": True})


# ---------------------------------------------------------------------------------------------------
# comparison

def _limit_header(with_params, k):
    return "%s %s (%s)" % (k, "limit" if with_params else "", LIMIT_UNIT[k])


def _cmp_param_table(out, name, impl, mrows, mcols, with_params):
    if "exc" in impl:
        out.append((name, "*", {"impl": impl["exc"], "model": "rows"}))
        return
    if impl["cols"] != mcols:
        out.append((name, "columns", {"impl": impl["cols"], "model": mcols}))
    inames = [str(r["Component"]) for r in impl["rows"]]
    mnames = [r["name"] for r in mrows]
    if inames != mnames:
        out.append((name, "Component", {"impl": inames, "model": mnames}))
        return
    for ir, mr in zip(impl["rows"], mrows):
        comp = mr["name"]
        if str(ir["Type"]) != mr["typ"]:
            out.append((name, "Type", {"row": comp, "impl": str(ir["Type"]), "model": mr["typ"]}))
        if with_params:
            for col, key in PARAM_COLS.items():
                if col not in ir:
                    continue                      # already reported as a column mismatch
                a = canon(ir[col])
                b = canon(wire.unpv(mr["pars"].get(key)))
                if not same(a, b):
                    out.append((name, col, {"row": comp, "impl": a, "model": b}))
        for k in LIMIT_KEYS:
            col = _limit_header(with_params, k)
            if col not in ir:
                continue
            a = canon(ir[col])
            mv = mr["lims"].get(k)
            b = None if mv is None else [float(wire.unnum(x)) for x in mv]
            if not same(a, b):
                out.append((name, col, {"row": comp, "impl": a, "model": b}))


def _cmp_phases(out, impl, m):
    name = "phases"
    if isinstance(m, dict) and "error" in m:
        mi = m["error"]["cls"]
        ii = impl.get("exc") if isinstance(impl, dict) else None
        if ii != mi:
            out.append((name, "*", {"impl": ii or "table", "model": mi}))
        return
    if isinstance(impl, dict) and "exc" in impl:
        out.append((name, "*", {"impl": impl["exc"], "model": "None" if m is None else "table"}))
        return
    if impl is None or m is None:
        if not (impl is None and m is None):
            out.append((name, "*", {"impl": "None" if impl is None else "table", "model": "None" if m is None else "table"}))
        return
    want = ["Component", "Type"] + (["Domain"] if m["showDomain"] else []) + ["Active phase", "rs (Ohm)", "ii (A)", "pwr (W)"]
    if impl["cols"] != want:
        out.append((name, "columns", {"impl": impl["cols"], "model": want}))
    ikeys = [(str(r["Component"]), str(r["Active phase"])) for r in impl["rows"]]
    mkeys = [(r["name"], r["phase"]) for r in m["rows"]]
    if ikeys != mkeys:
        out.append((name, "Component/Active phase", {"impl": ikeys, "model": mkeys}))
        return
    for ir, mr in zip(impl["rows"], m["rows"]):
        key = "%s@%s" % (mr["name"], mr["phase"])
        if str(ir["Type"]) != mr["typ"]:
            out.append((name, "Type", {"row": key, "impl": str(ir["Type"]), "model": mr["typ"]}))
        if "Domain" in ir and str(ir["Domain"]) != mr["domain"]:
            out.append((name, "Domain", {"row": key, "impl": str(ir["Domain"]), "model": mr["domain"]}))
        for col, k in PHASE_NUM.items():
            if col not in ir:
                continue
            a = canon(ir[col])
            b = canon(wire.unnum(mr[k]))
            if not same(a, b):
                out.append((name, col, {"row": key, "impl": a, "model": b}))


def _cmp_tree(out, impl, m):
    name = "tree"
    if "error" in m or "exc" in impl:
        a, b = impl.get("exc"), (m.get("error") or {}).get("cls")
        if a != b:
            out.append((name, "*", {"impl": a or "tree", "model": b or "tree"}))
        return
    il = sorted([d, n] for d, n in impl["lines"])
    ml = sorted([int(d), n] for d, n in m["lines"])
    if il != ml:
        out.append((name, "lines", {"impl": il, "model": ml}))
    ie = sorted([p, c] for p, c in impl["edges"])
    me = sorted([p, c] for p, c in m["edges"])
    if ie != me:
        out.append((name, "links", {"impl": ie, "model": me}))
    ir = [n for d, n in impl["lines"] if d == 0]
    if ir != list(m["roots"]):
        out.append((name, "roots", {"impl": ir, "model": list(m["roots"])}))


def diff_reports(drv, sys_, desc, carrier="rat"):
    """list of (report, column, detail) disagreements between the implementation and the model"""
    out = []
    o = observe_reports(sys_)
    if "exc" in o["params"]:
        # without params() there is no observed row order: use the description's order
        topo = [c["name"] for c in desc["comps"]]
    else:
        topo = [str(r["Component"]) for r in o["params"]["rows"]]
    known = {c["name"] for c in desc["comps"]}
    if sorted(topo) != sorted(known):
        out.append(("params", "Component", {"impl": topo, "model": sorted(known),
                                            "note": "the description and the report list different components"}))
        return out
    m = model_reports(drv, desc, topo, carrier)
    if not m.get("ok"):
        out.append(("*", "constructor", {"model": m}))
        return out
    _cmp_param_table(out, "params", o["params"], m["params"], m["columns"]["params"], True)
    _cmp_param_table(out, "limits", o["limits"], m["limits"], m["columns"]["limits"], False)
    _cmp_phases(out, o["phases"], m["phases"])
    _cmp_tree(out, o["tree"], m["tree"])
    return out


def compare_reports(ctx, sys_, desc, carrier="rat"):
    """compare the four reports of `sys_` with the model's reports of `desc`; returns the number of disagreements"""
    bad = diff_reports(ctx.drv, sys_, desc, carrier)
    for rep, col, detail in bad:
        ctx.corr(desc, "report: %s/%s" % (rep, col), detail)
    return len(bad)


# ---------------------------------------------------------------------------------------------------
# self-test

class _Ctx:
    def __init__(self):
        self._drv = None
        self.fails = []

    @property
    def drv(self):
        if self._drv is None:
            self._drv = wire.Driver()
        return self._drv

    def corr(self, case, relation, detail):
        self.fails.append((relation, detail, case))


def selftest(n=200, seed=0, verbose=True):
    import random
    from . import gen
    rng = random.Random(seed)
    ctx = _Ctx()
    built = skipped = with_phases = 0
    for _ in range(n):
        desc = gen.gen_system(rng, phases=0.5, p_limits=0.5, p_group=0.5, p_rail=0.5, p_rt=0.5)
        sys_, e = sysdesc.quiet_call(sysdesc.build, desc)
        if e is not None:
            skipped += 1
            continue
        built += 1
        with_phases += 1 if desc.get("phases") else 0
        compare_reports(ctx, sys_, desc)
    if verbose:
        for rel, detail, case in ctx.fails[:10]:
            print("DISAGREE", rel, detail)
            print("   case:", [(c["kind"], c["name"], c["parents"]) for c in case["comps"]])
        print("systems: %d built, %d skipped, %d with phases; disagreements: %d" % (built, skipped, with_phases, len(ctx.fails)))
    return len(ctx.fails)


if __name__ == "__main__":
    n = int(sys.argv[1]) if len(sys.argv) > 1 else 200
    seed = int(sys.argv[2]) if len(sys.argv) > 2 else 0
    sys.exit(1 if selftest(n, seed) else 0)
