"""The solved-case pipeline shared by C01–C11: build → solve → certificate from the model → compare."""
from fractions import Fraction
from . import wire, sysdesc

ATOL = 1e-8


def close(a, b, scale=0.0, rel=1e-9, absl=1e-12):
    """numeric cell comparison: implementation float `a` vs exact model value `b`"""
    if a is None or b is None:
        return a is None and b is None
    fa, fb = float(a), float(b)
    return abs(fa - fb) <= rel * max(abs(fa), abs(fb), scale) + absl


def solve_case(desc, solve_kw=None, rail_rep=False):
    """returns (sys, df, exc)"""
    solve_kw = dict(solve_kw or {})
    solve_kw.update(desc.get("_call") or {})       # call options chosen with the case (e.g. quiet=False: display only, same results)
    sys_, e = sysdesc.quiet_call(sysdesc.build, desc)
    if e is not None:
        return None, None, ("build", e)
    df, e = sysdesc.quiet_call(sys_.rail_rep if rail_rep else sys_.solve, **solve_kw)
    if e is not None:
        return sys_, None, ("solve", e)
    return sys_, df, None


def cert(drv, desc, obs, ta=25.0, carrier="rat"):
    topo = [r["name"] for r in obs["phases"][0]["rows"]]
    req = {"cmd": "cert", "carrier": carrier, "sys": sysdesc.to_wire(desc, topo), "ta": wire.num(ta),
           "obs": sysdesc.obs_vectors(desc, obs)}
    return drv.ask(req)


def row_scale(r):
    vals = [abs(r[k]) for k in ("vin", "vout") if r.get(k) is not None]
    cur = [abs(r[k]) for k in ("iin", "iout") if r.get(k) is not None]
    return (max(vals) if vals else 0.0) * (max(cur) if cur else 0.0)


def shape_mismatch(desc, obs, model, kw):
    """which columns solve() shows is part of the report: Parent XOR Rail in/out (any rail defined), Domain (two or more
    sources), Group (any non-empty group), Phase (phases solved), temperature columns (some rise > 0 somewhere), energy.
    Returns None or a detail dict."""
    comps = desc["comps"]
    exp = {"name", "typ", "vin", "vout", "iin", "iout", "pwr", "loss", "eff", "warn"}
    if any(c.get("rail", "") for c in comps if c["kind"] not in ("pload", "iload", "rload")):
        exp |= {"railIn", "railOut"}
    else:
        exp.add("parent")
    if sum(1 for c in comps if c["kind"] == "source") > 1:
        exp.add("domain")
    if any(c.get("group", "") for c in comps):
        exp.add("group")
    if desc.get("phases") or kw.get("phase"):
        exp.add("phase")
    if kw.get("energy"):
        exp.add("ener")
    rise = False
    for p in model.get("phases", []):
        for r in p.get("rows", []):
            t = wire.unnum(r.get("tr")) if r.get("tr") is not None else None
            if t is not None and t > 0:
                rise = True
    if rise:
        exp |= {"tr", "tp"}
    got = set(obs["cols"])
    if got != exp:
        return {"missing": sorted(exp - got), "unexpected": sorted(got - exp), "columns": sorted(got)}
    return None


def compare_tables(obs, model, cols=None, textcols=None):
    """cell-by-cell comparison of the implementation's table with the model's assembly.
    Returns a list of mismatch records."""
    out = []
    numcols = cols if cols is not None else list(sysdesc.NUMCOLS)
    txt = textcols if textcols is not None else ["typ", "parent", "railIn", "domain", "group", "railOut", "warn"]
    present = set(obs["cols"])

    def cmp_row(ph, orow, mrow, kind):
        sc = row_scale(orow) if kind == "comp" else max(abs(orow.get("pwr") or 0.0), abs(orow.get("loss") or 0.0))
        for c in numcols:
            if c not in present or c not in orow:
                continue
            a, b = orow[c], wire.unnum(mrow.get(c))
            if a is None and kind != "comp":
                continue
            if a is None and c in ("tr", "tp") and not shown.get(ph, True):
                continue      # Temp. columns are only emitted for phases in which some rise is > 0
            if c in ("tr", "tp", "ener"):
                s = sc * 1e3
            elif c == "eff":
                s = 1.0e3          # per cent, compared to 1e-9 absolute: when Loss = Power up to rounding the cell is 100*|Power - Loss|/Power,
                                   # pure cancellation noise of the table interpolation (1e-14 relative on each side)
            else:
                s = sc
            if not close(a, b, scale=s * 1e-3):
                out.append({"phase": ph, "row": orow["name"], "col": c, "impl": a,
                            "model": None if b is None else float(b)})
        for c in txt:
            if c not in present or c not in orow:
                continue
            if kind != "comp" and c != "warn":
                continue
            a, b = orow[c], mrow.get(c, "")
            if c == "warn":
                a, b = " ".join(sorted(a.split())), " ".join(sorted(b.split()))
            if a != b:
                out.append({"phase": ph, "row": orow["name"], "col": c, "impl": a, "model": b})

    mph = {p["phase"]: p for p in model["phases"]}
    shown = {}
    for p in model["phases"]:
        shown[p["phase"]] = any((wire.unnum(r.get("tr")) or 0) > 0 for r in p["rows"])
    for p in obs["phases"]:
        m = mph.get(p["phase"])
        if m is None:
            out.append({"phase": p["phase"], "row": "*", "col": "phase", "impl": "present", "model": "absent"})
            continue
        mrows = {r["name"]: r for r in m["rows"]}
        if [r["name"] for r in p["rows"]] != [r["name"] for r in m["rows"]]:
            out.append({"phase": p["phase"], "row": "*", "col": "rows", "impl": [r["name"] for r in p["rows"]],
                        "model": [r["name"] for r in m["rows"]]})
            continue
        for r in p["rows"]:
            cmp_row(p["phase"], r, mrows[r["name"]], "comp")
        msubs = {r["name"]: r for r in m["subs"]}
        if m["nsrc"] >= 2:
            if sorted(r["name"] for r in p["subs"]) != sorted(msubs):
                out.append({"phase": p["phase"], "row": "*", "col": "subsystems",
                            "impl": [r["name"] for r in p["subs"]], "model": list(msubs)})
            else:
                for r in p["subs"]:
                    cmp_row(p["phase"], r, msubs[r["name"]], "sub")
        elif p["subs"]:
            out.append({"phase": p["phase"], "row": "*", "col": "subsystems",
                        "impl": [r["name"] for r in p["subs"]], "model": []})
        if p["total"] is not None:
            cmp_row(p["phase"], p["total"], m["total"], "total")
    if (obs["avg"] is None) != (model["avg"] is None):
        out.append({"phase": "", "row": "System average", "col": "present", "impl": obs["avg"] is not None,
                    "model": model["avg"] is not None})
    elif obs["avg"] is not None:
        cmp_row("", obs["avg"], model["avg"], "avg")
    return out


# ---------------------------------------------------------------------------------------------------
# case loop shared by the solved-table properties

def desc_key(desc):
    return [(c["kind"], c["name"], c["parents"], repr(sorted(c["args"].items(), key=lambda kv: kv[0])),
             repr(c.get("pconf"))) for c in desc["comps"]] + [repr(desc.get("phases"))]


def shape_stats(ctx, desc):
    for c in desc["comps"]:
        ctx.stats["kind:" + c["kind"]] += 1
        for k, v in c["args"].items():
            if isinstance(v, dict) and k != "limits":
                ctx.stats["table:%dD" % (1 if len(v["vi"]) == 1 else 2)] += 1
    ctx.stats["nodes:%s" % ("<=4" if len(desc["comps"]) <= 4 else "<=12" if len(desc["comps"]) <= 12 else ">12")] += 1
    ctx.stats["sources:%d" % sum(1 for c in desc["comps"] if c["kind"] == "source")] += 1
    if any(c["kind"] == "pmux" for c in desc["comps"]):
        ctx.stats["has_mux"] += 1
    if desc.get("phases"):
        ctx.stats["has_phases"] += 1
    if any(c["kind"] in ("source", "converter", "linreg") and c["args"].get("vo", 1) < 0 for c in desc["comps"]):
        ctx.stats["negative_rail"] += 1


def sweep_residuals(ctx, desc, obs, model, vtol, itol, relprefix=""):
    """the model's laws, applied once more to the implementation's returned (v, i), reproduce them
    within the solver's own exit test (factor-2 slack): ties `_solv_outp_volt/_solv_inp_curr` to the model"""
    idx = {c["name"]: i for i, c in enumerate(desc["comps"])}
    for p, sw in zip(obs["phases"], model["sweeps"]):
        if sw.get("Ferr") is not None:
            ctx.corr(desc, relprefix + "sweep: model raises %s where the implementation returned a table" % sw["Ferr"]["cls"],
                     {"phase": p["phase"], "err": sw["Ferr"]})
            continue
        F = [wire.unnum(x) for x in sw["F"]]
        G = [wire.unnum(x) for x in sw["G"]]
        for r in p["rows"]:
            n = idx[r["name"]]
            fv, gv = float(F[n]), float(G[n])
            if abs(r["vout"] - fv) > 2 * (ATOL + vtol * abs(fv)) + 1e-12:
                ctx.corr(desc, relprefix + "sweep-voltage: v = F(v,i) within the exit test",
                         {"phase": p["phase"], "row": r["name"], "impl_v": r["vout"], "model_F": fv})
            if abs(r["iin"] - gv) > 2 * (ATOL + itol * abs(gv)) + 1e-12:
                ctx.corr(desc, relprefix + "sweep-current: i = G(F(v,i),i) within the exit test",
                         {"phase": p["phase"], "row": r["name"], "impl_i": r["iin"], "model_G": gv})


def rows_incomplete(desc, obs):
    """None, or what is wrong with the component rows of the observed table (per phase: exactly the description's components)"""
    want = sorted(c["name"] for c in desc["comps"])
    for p in obs["phases"]:
        got = sorted(r["name"] for r in p["rows"])
        if got != want:
            return {"phase": p["phase"], "missing_rows": [n for n in want if n not in got],
                    "unexpected_or_duplicate_rows": [n for n in got if n not in want or got.count(n) > 1]}
    return None


def rows_ok(ctx, desc, obs):
    """every statement about "the solve() table" presupposes one row per component and phase: a component without a row (or listed
    twice) is a failing input of the property at hand, not something to index into"""
    bad = rows_incomplete(desc, obs)
    if bad is not None:
        ctx.oracle(desc, "one_row_per_component", "table", {}, bad)
    return bad is None


def run_cases(ctx, n, gen_fn, per_case, solve_kw_fn=None, accept_errors=("ValueError(unstable)", "RuntimeError"),
              carrier="rat"):
    """generate → build → solve → certify → per_case.  Construction failures are skipped and counted."""
    skipped = 0
    for k in range(n):
        desc = gen_fn(ctx.rng)
        if solve_kw_fn is None:
            kw = {"vtol": 1e-10, "itol": 1e-10}
        elif solve_kw_fn.__code__.co_argcount >= 2:
            kw = solve_kw_fn(ctx.rng, desc)           # settings that depend on the system (e.g. phase=<one of its phases>)
        else:
            kw = solve_kw_fn(ctx.rng)
        if "_solve_kw" in desc:
            kw = dict(desc["_solve_kw"])              # call arguments chosen with the case (kept for the replay)
        sys_, df, err = solve_case(desc, kw)
        if err is not None:
            cls = sysdesc.exc_class(err[1])
            ctx.stats["outcome:%s:%s" % (err[0], cls)] += 1
            ctx.case(nontrivial=False)
            if err[0] == "build" or cls not in accept_errors:
                skipped += 1
                ctx.notes.append("skipped case %d: %s %r" % (k, err[0], err[1])) if len(ctx.notes) < 10 else None
            continue
        obs = sysdesc.observe(df)
        if not rows_ok(ctx, desc, obs):
            ctx.case(nontrivial=False)
            continue
        model = cert(ctx.drv, desc, obs, ta=kw.get("ta", 25.0), carrier=carrier)
        ctx.stats["outcome:ok"] += 1
        shape_stats(ctx, desc)
        if not model.get("ok"):
            ctx.corr(desc, "constructor: the model rejects a component the implementation accepted", model)
            ctx.case(nontrivial=False)
            continue
        ctx.traces += 1
        per_case(ctx, desc, obs, model, sys_, df, kw)
    if n and skipped > 0.2 * n:
        raise RuntimeError("more than 20%% of the generated cases could not be built/solved (%d/%d)" % (skipped, n))


def run_witnesses(ctx, per_case, prop=None, kw=None):
    """re-run the committed witness of every open known finding of this property (so a KNOWN-FINDING line is
    printed only while the witness still fails), and every committed corpus case"""
    import json, os, glob
    from .check import load_known, VERIF
    kw = kw or {"vtol": 1e-10, "itol": 1e-10}
    descs = [k["witness_desc"] for k in load_known()
             if k["property"] == (prop or ctx.prop) and k.get("status") == "open" and "witness_desc" in k]
    for f in sorted(glob.glob(os.path.join(VERIF, "corpus", ctx.prop, "*.json"))):
        descs.append(json.load(open(f))["case"])
    for desc in descs:
        sys_, df, err = solve_case(desc, kw)
        ctx.stats["witness_runs"] += 1
        if err is not None:
            continue
        obs = sysdesc.observe(df)
        if not rows_ok(ctx, desc, obs):
            continue
        model = cert(ctx.drv, desc, obs, ta=kw.get("ta", 25.0))
        if model.get("ok"):
            per_case(ctx, desc, obs, model, sys_, df, kw)
