"""The solved-case pipeline shared by C01–C11: build → solve → certificate from the model → compare."""
from fractions import Fraction
from . import wire, sysdesc

ATOL = 1e-8


def close(a, b, scale=0.0, rel=1e-9, absl=1e-12):
    """numeric cell comparison: implementation float `a` vs exact model value `b`"""
    if a is None or b is None:
        return a is None and b is None
    fa, fb = float(a), float(b)
    return abs(fa - fb) <= rel * max(abs(fa), abs(fb), scale) + absl


def solve_case(desc, solve_kw=None, rail_rep=False):
    """returns (sys, df, exc)"""
    solve_kw = dict(solve_kw or {})
    sys_, e = sysdesc.quiet_call(sysdesc.build, desc)
    if e is not None:
        return None, None, ("build", e)
    df, e = sysdesc.quiet_call(sys_.rail_rep if rail_rep else sys_.solve, **solve_kw)
    if e is not None:
        return sys_, None, ("solve", e)
    return sys_, df, None


def cert(drv, desc, obs, ta=25.0, carrier="rat"):
    topo = [r["name"] for r in obs["phases"][0]["rows"]]
    req = {"cmd": "cert", "carrier": carrier, "sys": sysdesc.to_wire(desc, topo), "ta": wire.num(ta),
           "obs": sysdesc.obs_vectors(desc, obs)}
    return drv.ask(req)


def row_scale(r):
    vals = [abs(r[k]) for k in ("vin", "vout") if r.get(k) is not None]
    cur = [abs(r[k]) for k in ("iin", "iout") if r.get(k) is not None]
    return (max(vals) if vals else 0.0) * (max(cur) if cur else 0.0)


def compare_tables(obs, model, cols=None, textcols=None):
    """cell-by-cell comparison of the implementation's table with the model's assembly.
    Returns a list of mismatch records."""
    out = []
    numcols = cols if cols is not None else list(sysdesc.NUMCOLS)
    txt = textcols if textcols is not None else ["typ", "parent", "railIn", "domain", "group", "railOut", "warn"]
    present = set(obs["cols"])

    def cmp_row(ph, orow, mrow, kind):
        sc = row_scale(orow) if kind == "comp" else max(abs(orow.get("pwr") or 0.0), abs(orow.get("loss") or 0.0))
        for c in numcols:
            if c not in present or c not in orow:
                continue
            a, b = orow[c], wire.unnum(mrow.get(c))
            if a is None and kind != "comp":
                continue
            if a is None and c in ("tr", "tp") and not shown.get(ph, True):
                continue      # Temp. columns are only emitted for phases in which some rise is > 0
            if c in ("tr", "tp", "ener"):
                s = sc * 1e3
            elif c == "eff":
                s = 1.0
            else:
                s = sc
            if not close(a, b, scale=s * 1e-3):
                out.append({"phase": ph, "row": orow["name"], "col": c, "impl": a,
                            "model": None if b is None else float(b)})
        for c in txt:
            if c not in present or c not in orow:
                continue
            if kind != "comp" and c != "warn":
                continue
            a, b = orow[c], mrow.get(c, "")
            if c == "warn":
                a, b = " ".join(sorted(a.split())), " ".join(sorted(b.split()))
            if a != b:
                out.append({"phase": ph, "row": orow["name"], "col": c, "impl": a, "model": b})

    mph = {p["phase"]: p for p in model["phases"]}
    shown = {}
    for p in model["phases"]:
        shown[p["phase"]] = any((wire.unnum(r.get("tr")) or 0) > 0 for r in p["rows"])
    for p in obs["phases"]:
        m = mph.get(p["phase"])
        if m is None:
            out.append({"phase": p["phase"], "row": "*", "col": "phase", "impl": "present", "model": "absent"})
            continue
        mrows = {r["name"]: r for r in m["rows"]}
        if [r["name"] for r in p["rows"]] != [r["name"] for r in m["rows"]]:
            out.append({"phase": p["phase"], "row": "*", "col": "rows", "impl": [r["name"] for r in p["rows"]],
                        "model": [r["name"] for r in m["rows"]]})
            continue
        for r in p["rows"]:
            cmp_row(p["phase"], r, mrows[r["name"]], "comp")
        msubs = {r["name"]: r for r in m["subs"]}
        if m["nsrc"] >= 2:
            if sorted(r["name"] for r in p["subs"]) != sorted(msubs):
                out.append({"phase": p["phase"], "row": "*", "col": "subsystems",
                            "impl": [r["name"] for r in p["subs"]], "model": list(msubs)})
            else:
                for r in p["subs"]:
                    cmp_row(p["phase"], r, msubs[r["name"]], "sub")
        elif p["subs"]:
            out.append({"phase": p["phase"], "row": "*", "col": "subsystems",
                        "impl": [r["name"] for r in p["subs"]], "model": []})
        if p["total"] is not None:
            cmp_row(p["phase"], p["total"], m["total"], "total")
    if (obs["avg"] is None) != (model["avg"] is None):
        out.append({"phase": "", "row": "System average", "col": "present", "impl": obs["avg"] is not None,
                    "model": model["avg"] is not None})
    elif obs["avg"] is not None:
        cmp_row("", obs["avg"], model["avg"], "avg")
    return out
