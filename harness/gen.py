"""Random power trees ("mostly valid, mostly solvable"), every choice from one random.Random."""
import math

NONLOAD = ("converter", "linreg", "rloss", "vloss", "pswitch", "rectifier")


def sd(rng, lo, hi, digits=3):
    """log-uniform short decimal in [lo, hi]"""
    x = math.exp(rng.uniform(math.log(lo), math.log(hi)))
    if rng.random() < 0.04:
        # "round" magnitudes (1, 2, 10, 100 ...): a comparison against a literal constant in the code only shows there
        r = [c for c in (1.0, 2.0, 0.5, 10.0, 100.0, 0.1, 1000.0) if lo <= c <= hi]
        if r:
            return rng.choice(r)
    return float("%.*g" % (digits, x))


def ud(rng, lo, hi, digits=3):
    return float("%.*g" % (digits, rng.uniform(lo, hi)))


def sgn(rng, x, p=0.15):
    """give a magnitude-type argument a negative sign now and then (constructors normalise it)"""
    return -x if rng.random() < p else x


def mk_table(rng, key, lo, hi, vref, iref, dims=None):
    """1-D or 2-D interpolation table for parameter `key` with values in [lo, hi]"""
    nio = rng.randint(2, 6)
    nvi = dims if dims is not None else rng.choice([1, 1, 2, 3, 4])
    io0 = sd(rng, iref * 0.01, iref * 0.2)
    ios = [io0]
    for _ in range(nio - 1):
        ios.append(float("%.4g" % (ios[-1] * rng.uniform(1.5, 4.0))))
    if rng.random() < 0.3:
        ios[0] = 0.0
    v0 = sd(rng, max(abs(vref) * 0.3, 0.1), max(abs(vref) * 0.8, 0.2))
    vis = [v0]
    for _ in range(nvi - 1):
        vis.append(float("%.4g" % (vis[-1] * rng.uniform(1.3, 2.5))))
    vals = [[ud(rng, lo, hi) for _ in ios] for _ in vis]
    if rng.random() < 0.15:
        vis = [-x if rng.random() < 0.6 else x for x in vis]          # tables are looked up by magnitude: a negative-rail datasheet
    if key == "vdrop" and rng.random() < 0.15:
        vals = [[-x if rng.random() < 0.6 else x for x in row] for row in vals]   # drops written with the rail's sign
    return {"vi": vis, "io": ios, key: vals}


def gen_limits(rng, kind):
    keys = ["vi", "vo", "vd", "ii", "io", "pi", "po", "pl", "tr", "tp"]
    lim = {}
    for k in rng.sample(keys, rng.randint(1, 4)):
        a = sd(rng, 1e-3, 10)
        b = float("%.3g" % (a * rng.uniform(1.5, 50)))
        if k == "tp":
            lim[k] = [ud(rng, -40, 20), ud(rng, 30, 150)]
        else:
            lim[k] = [a if rng.random() < 0.5 else 0.0, b]
            if rng.random() < 0.15:
                lim[k] = [-lim[k][0], -lim[k][1]]      # limits are compared by magnitude: negative entries are legal
    return lim


def gen_system(rng, *, max_nodes=24, p_table=0.25, p_mux=0.3, n_sources=None, polarity=True,
               p_rt=0.0, p_limits=0.0, p_group=0.0, p_rail=0.0, phases=0.0, p_neg_args=0.15,
               heavy=False, p_neg_src_rs=0.0, p_detour=0.25, p_bridge=0.15, p_dup=0.0, p_micro=0.06, p_rename=0.0, p_moved=0.1, p_zero_load=0.03, p_fallback=0.08, p_oddnames=0.06):
    """Returns a description dict.  `heavy` sizes series resistances / loads towards overload."""
    ns = n_sources if n_sources is not None else rng.choice([1, 1, 1, 2, 2, 3])
    n_total = rng.randint(ns + 1, max(ns + 1, int(rng.choice([4, 8, 12, max_nodes]))))
    comps, volt = [], {}          # volt: nominal output voltage per non-load node
    names = set()

    def fresh(prefix):
        k = 1
        while "%s%d" % (prefix, k) in names:
            k += 1
        n = "%s%d" % (prefix, k)
        names.add(n)
        return n

    used_rails = set()

    def deco(c):
        if rng.random() < p_group:
            c["group"] = rng.choice(["G1", "G2", "G3"])
        if rng.random() < p_rail and c["kind"] not in ("pload", "iload", "rload"):
            r = "R_" + c["name"]
            c["rail"] = r
            used_rails.add(r)
        if rng.random() < p_limits:
            c["args"]["limits"] = gen_limits(rng, c["kind"])
        return c

    for s in range(ns):
        vo = sd(rng, 1.0, 48)
        if polarity and rng.random() < 0.25:
            vo = -vo
        args = {"vo": vo}
        if rng.random() < 0.6:
            rs = sd(rng, 1e-3, 0.5 if not heavy else 20)
            if vo < 0 and rng.random() >= p_neg_src_rs:
                rs = 0.0            # negative source with rs: open finding F01, kept to a dedicated stream
            args["rs"] = sgn(rng, rs, p_neg_args)
        c = deco({"name": fresh("S"), "kind": "source", "args": args, "parents": []})
        comps.append(c)
        volt[c["name"]] = vo

    have_mux = False
    attach = [c["name"] for c in comps]
    iscale = 0.3 if not heavy else 3.0
    while len(comps) < n_total:
        par = rng.choice(attach[-6:] if rng.random() < 0.6 else attach)
        vin = volt[par]
        r = rng.random()
        kind = None
        if not have_mux and rng.random() < p_mux / max(1, n_total - ns) * 2:
            kind = "pmux"
        elif r < 0.45 or abs(vin) < 0.3:
            kind = rng.choice(["pload", "iload", "rload"])
        else:
            kind = rng.choice(["converter", "converter", "linreg", "linreg", "rloss", "vloss",
                               "pswitch", "pswitch", "rectifier"])
        args, parents, vout = {}, [par], None
        a = abs(vin)
        rt = (lambda: sgn(rng, sd(rng, 1, 200), p_neg_args)) if rng.random() < p_rt else None
        if kind == "pload":
            args = {"pwr": sgn(rng, sd(rng, 1e-3, 1.5 * a * iscale / 3 + 2e-3), p_neg_args)}
            if rng.random() < 0.3:
                args["pwrs"] = sd(rng, 1e-6, 1e-3)
            if p_zero_load and rng.random() < p_zero_load:
                args["pwr"] = rng.choice([0.0, 0])          # a load described only per phase / by its sleep value: nominal 0 W is a value
            if rng.random() < 0.2:
                args["loss"] = True
        elif kind == "iload":
            args = {"ii": sgn(rng, sd(rng, 1e-4, iscale), p_neg_args)}
            if rng.random() < 0.3:
                args["iis"] = sd(rng, 1e-7, 1e-4)
            if p_zero_load and rng.random() < p_zero_load:
                args["ii"] = rng.choice([0.0, 0])
            if rng.random() < 0.2:
                args["loss"] = True
        elif kind == "rload":
            args = {"rs": sgn(rng, sd(rng, max(a / iscale, 1.0), 1e5), p_neg_args)}
            if rng.random() < 0.2:
                args["loss"] = True
        elif kind == "rloss":
            args = {"rs": sgn(rng, sd(rng, 1e-3, 0.3 * a / iscale if not heavy else 30 * a), p_neg_args)}
            vout = vin
        elif kind == "vloss":
            if rng.random() < p_table:
                args = {"vdrop": mk_table(rng, "vdrop", 0.05 * a, 0.3 * a, vin, iscale)}
            else:
                args = {"vdrop": sgn(rng, sd(rng, 0.01 * a, (0.3 if not heavy else 1.2) * a), p_neg_args)}
            vout = vin
        elif kind == "converter":
            vo = sd(rng, 0.8, 24)
            if polarity and rng.random() < 0.15:
                vo = -vo
            if rng.random() < p_table:
                eff = mk_table(rng, "eff", 0.5, 0.98, vin, iscale)
            else:
                eff = ud(rng, 0.55, 0.99)
            args = {"vo": vo, "eff": eff}
            if rng.random() < 0.5:
                args["iq"] = sgn(rng, sd(rng, 1e-6, 1e-3), p_neg_args)
            if rng.random() < 0.3:
                args["iis"] = sgn(rng, sd(rng, 1e-7, 1e-5), p_neg_args)
            vout = vo
        elif kind == "linreg":
            hi = max(a * 0.9, 0.3)
            vo = sd(rng, min(0.25, hi), hi) if rng.random() < 0.8 else sd(rng, a, 2 * a)  # sometimes in dropout
            if polarity and (vin < 0) != (rng.random() < 0.1):
                vo = -vo
            args = {"vo": vo}
            if rng.random() < 0.04:
                # brown-out: a regulator whose dropout exceeds its whole supply (|vi| - vdrop < 0: the output is clamped to 0 V)
                vo = math.copysign(sd(rng, 2.5 * a, 6 * a), vo)
                args = {"vo": vo, "vdrop": sd(rng, 1.1 * a, 2 * a)}
            elif rng.random() < 0.6:
                args["vdrop"] = sgn(rng, sd(rng, 0.02, 0.8 * abs(vo)), p_neg_args)
            if rng.random() < p_table:
                args["ig"] = mk_table(rng, "ig", 1e-6, 1e-3, vin, iscale)
            elif rng.random() < 0.6:
                args["ig"] = sgn(rng, sd(rng, 1e-6, 1e-3), p_neg_args)
            if rng.random() < 0.3:
                args["iis"] = sd(rng, 1e-7, 1e-5)
            vout = math.copysign(min(abs(vo), max(a - abs(args.get("vdrop", 0.0)), 0.0)), vo)
        elif kind in ("pswitch", "pmux"):
            rs_hi = 0.2 * a / iscale if not heavy else 30 * a
            args = {}
            if rng.random() < 0.8:
                args["rs"] = sd(rng, 1e-3, max(rs_hi, 2e-3))
                if kind == "pswitch":
                    args["rs"] = sgn(rng, args["rs"], p_neg_args)
            if rng.random() < p_table:
                args["ig"] = mk_table(rng, "ig", 1e-6, 1e-3, vin, iscale)
            elif rng.random() < 0.6:
                args["ig"] = sgn(rng, sd(rng, 1e-6, 1e-3), p_neg_args)
            if rng.random() < 0.3:
                args["iis"] = sd(rng, 1e-7, 1e-5)
            vout = vin
            if kind == "pmux":
                have_mux = True
                cands = [n for n in attach if n != par]
                extra = rng.sample(cands, min(len(cands), rng.choice([0, 1, 1, 2, 3])))
                parents = [par] + extra
                rng.shuffle(parents)
                if "rs" in args and rng.random() < 0.5:
                    args["rs"] = [sgn(rng, sd(rng, 1e-3, max(rs_hi, 2e-3)), p_neg_args) for _ in parents]
                vout = volt[parents[0]]
        elif kind == "rectifier":
            if rng.random() < 0.5:
                if rng.random() < p_table:
                    args = {"vdrop": mk_table(rng, "vdrop", 0.02 * a, 0.15 * a, vin, iscale)}
                else:
                    args = {"vdrop": sgn(rng, sd(rng, 0.02 * a, (0.2 if not heavy else 0.7) * a), p_neg_args)}
            else:
                args = {}
                if rng.random() < 0.8:
                    args["rs"] = sd(rng, 1e-3, max(0.1 * a / iscale if not heavy else 20 * a, 2e-3))
                if rng.random() < p_table:
                    args["ig"] = mk_table(rng, "ig", 1e-6, 1e-3, vin, iscale)
                elif rng.random() < 0.5:
                    args["ig"] = sgn(rng, sd(rng, 1e-6, 1e-3), p_neg_args)
                if rng.random() < 0.4:
                    args["iq"] = sgn(rng, sd(rng, 1e-6, 1e-4), p_neg_args)
            vout = abs(vin)
        if rt is not None:
            args["rt"] = rt()
        prefix = {"pload": "P", "iload": "I", "rload": "R", "rloss": "RL", "vloss": "VL", "converter": "C",
                  "linreg": "L", "pswitch": "SW", "pmux": "MX", "rectifier": "RE"}[kind]
        c = deco({"name": fresh(prefix), "kind": kind, "args": args, "parents": parents})
        if kind == "pmux" and len(parents) == 1 and rng.random() < 0.5:
            c["plist"] = True
        comps.append(c)
        if vout is not None:
            volt[c["name"]] = vout
            attach.append(c["name"])

    # address some parents by rail name
    owner = {c["name"]: c for c in comps}
    for c in comps:
        c["parents"] = [owner[p]["rail"] if (owner[p].get("rail") and rng.random() < 0.4) else p
                        for p in c["parents"]]

    desc = {"name": "sys", "comps": comps, "phases": {}}
    if p_oddnames and rng.random() < p_oddnames:
        odd_names(rng, desc)
    if rng.random() < 0.12:
        add_decoy(rng, desc)
    if rng.random() < 0.07:
        desc["_call"] = {"quiet": False}           # progress display on: what is printed is no part of any result
    if p_fallback and rng.random() < p_fallback:
        add_fallback(rng, desc)
    if rng.random() < phases:
        add_phases(rng, desc)
    if rng.random() < p_micro:
        micro(rng, desc)
    if rng.random() < p_detour:
        add_detour(rng, desc)
    if rng.random() < p_bridge:
        add_bridge(rng, desc)
    elif rng.random() < p_dup:
        add_dupbridge(rng, desc)
    if rng.random() < p_rename:
        add_presolve_rename(rng, desc)
    if rng.random() < p_moved:
        add_moved(rng, desc)
    return desc


def add_moved(rng, desc):
    """a leaf is first attached somewhere else, the system is solved, the leaf is deleted and re-added UNDER THE SAME NAME at
    its real place (the freed node index is re-used: name -> index is unchanged although the wiring is not); see sysdesc.build"""
    plan = desc.get("_build") or {}
    if any(k in plan for k in ("detour", "bridge", "dupbridge", "retouch", "presolve_rename")):
        return
    comps = desc["comps"]
    used = set(q for c in comps for q in c["parents"])
    rails = {c.get("rail"): c["name"] for c in comps if c.get("rail")}
    used |= {rails[u] for u in list(used) if u in rails}
    leaves = [c for c in comps if c["kind"] not in ("source", "pmux") and c["name"] not in used and c.get("rail", "") not in used
              and len(c["parents"]) == 1]
    if not leaves:
        return
    x = rng.choice(leaves)
    real = rails.get(x["parents"][0], x["parents"][0])
    hosts = [c["name"] for c in comps if c["kind"] not in ("pload", "iload", "rload") and c["name"] not in (x["name"], real)]
    if not hosts:
        return
    desc.setdefault("_build", {})["moved"] = {"x": x["name"], "first_parent": rng.choice(hosts)}


def add_presolve_rename(rng, desc):
    """one component (sources preferred: they name the domains) is built under a temporary name, renamed after a first solve"""
    plan = desc.get("_build") or {}
    if any(k in plan for k in ("detour", "bridge", "dupbridge", "retouch")):
        return
    if any(c.get("rail") and c["rail"] in [q for d in desc["comps"] for q in d["parents"]] for c in desc["comps"]):
        pass        # parents addressed by rail are unaffected by the rename
    srcs = [c for c in desc["comps"] if c["kind"] == "source"]
    pool = srcs if (srcs and rng.random() < 0.7) else desc["comps"]
    x = rng.choice(pool)
    desc.setdefault("_build", {})["presolve_rename"] = {"x": x["name"]}


def add_dupbridge(rng, desc):
    """a PMux input that owns a rail is listed by rail, followed by a temporary child of it; see sysdesc.build"""
    rail_of = {c["name"]: c.get("rail", "") for c in desc["comps"]}
    owner = {r: n for n, r in rail_of.items() if r}
    for c in desc["comps"]:
        if c["kind"] != "pmux":
            continue
        slots = []
        for k, p in enumerate(c["parents"]):
            n = owner.get(p, p)
            if rail_of.get(n, ""):
                slots.append((k, rail_of[n]))
        if slots:
            k, r = rng.choice(slots)
            desc.setdefault("_build", {})["dupbridge"] = {"child": c["name"], "slot": k, "rail": r}
            return


def micro(rng, desc):
    """nano-power regime: every load (and its per-phase values) scaled down by 1e-4 ... 1e-7, so that currents lie around or
    below 1e-6 A - where a tolerance used as an absolute cut-off, a rounding to six decimals or an `== 0` test turned into
    `< eps` changes the answer"""
    f = 10.0 ** (-rng.uniform(4, 7))

    def sc(x, up=False):
        return float("%.3g" % ((x / f) if up else (x * f)))
    for c in desc["comps"]:
        k, a = c["kind"], c["args"]
        if k == "pload":
            a["pwr"] = sc(a["pwr"])
            if "pwrs" in a:
                a["pwrs"] = sc(a["pwrs"])
        elif k == "iload":
            a["ii"] = sc(a["ii"])
            if "iis" in a:
                a["iis"] = sc(a["iis"])
        elif k == "rload":
            a["rs"] = sc(a["rs"], up=True)
        else:
            if isinstance(a.get("iis"), float) and rng.random() < 0.7:
                a["iis"] = float("%.3g" % (a["iis"] * 10.0 ** (-rng.uniform(1.5, 4))))   # sleep currents of a few nA ... pA
            continue
        if isinstance(c.get("pconf"), dict):
            c["pconf"] = {p: sc(v, up=(k == "rload")) for p, v in c["pconf"].items()}
    desc["_micro"] = f


def add_bridge(rng, desc):
    """choose one parent link to be built through a temporary pass-through stage; see sysdesc.build"""
    cands = [c for c in desc["comps"] if c["kind"] != "source" and c["parents"]]
    if not cands:
        return
    c = rng.choice(cands)
    desc.setdefault("_build", {})["bridge"] = {"child": c["name"], "slot": rng.randrange(len(c["parents"]))}


def mux_failover(rng):
    """A PMux that has failed over: the preferred (first) input is dead for one of the reasons a supply can be dead - a 0 V source, a source
    switched off in a phase, a regulator / switch that SLEEPS in a phase on a live source, a regulator in brown-out, a passive chain below a
    dead source - and a lower-priority input is live.  Loads behind the mux; sometimes a second load on the dead branch."""
    why = rng.choice(["zero_source", "phased_source", "sleeping_stage", "sleeping_stage", "brownout", "chain_below_dead"])
    vb = sd(rng, 6.0, 14.0)
    names = ["a", "b"] if why in ("phased_source", "sleeping_stage") or rng.random() < 0.3 else []
    comps = [{"name": "MAIN", "kind": "source", "args": {"vo": (0.0 if why in ("zero_source", "chain_below_dead") else sd(rng, 4.5, 24.0))}, "parents": []},
             {"name": "BAT", "kind": "source", "args": {"vo": vb}, "parents": []}]
    if why == "phased_source":
        comps[0]["pconf"] = ["a"]
    first = "MAIN"
    if why in ("sleeping_stage", "brownout", "chain_below_dead"):
        k = rng.choice(["converter", "linreg", "pswitch"]) if why != "brownout" else "linreg"
        a = {"converter": {"vo": 3.3, "eff": ud(rng, 0.7, 0.95)}, "linreg": {"vo": 3.3}, "pswitch": {"rs": 0.05}}[k]
        if why == "brownout":
            a = {"vo": sd(rng, 31, 60), "vdrop": sd(rng, 25, 30)}
        st = {"name": "PRE", "kind": k, "args": dict(a, iis=sd(rng, 1e-6, 1e-4)) if why != "brownout" else a, "parents": ["MAIN"]}
        if why == "sleeping_stage":
            st["pconf"] = ["a"]
        comps.append(st)
        first = "PRE"
        if why == "chain_below_dead" and rng.random() < 0.6:
            comps.append({"name": "FUSE", "kind": rng.choice(["rloss", "vloss", "pswitch"]), "parents": ["PRE"],
                          "args": rng.choice([{"rs": 0.05}]) if True else {}})
            if comps[-1]["kind"] == "vloss":
                comps[-1]["args"] = {"vdrop": 0.2}
            first = "FUSE"
    ins = [first, "BAT"]
    if rng.random() < 0.3:
        comps.append({"name": "AUX", "kind": "rloss", "args": {"rs": 0.1}, "parents": ["BAT"]})
        ins = [first, "AUX"] if rng.random() < 0.5 else [first, "BAT", "AUX"]
    rs = [sd(rng, 0.01, 0.3) for _ in ins] if rng.random() < 0.5 else sd(rng, 0.01, 0.3)
    comps.append({"name": "MX", "kind": "pmux", "args": {"rs": rs, "ig": sd(rng, 1e-5, 1e-3)}, "parents": ins})
    for j in range(rng.randint(1, 3)):
        k = rng.choice(["pload", "iload", "rload"])
        a = {"pload": {"pwr": sd(rng, 0.05, 1.0)}, "iload": {"ii": sd(rng, 0.005, 0.2)}, "rload": {"rs": sd(rng, 20, 500)}}[k]
        comps.append({"name": "L%d" % j, "kind": k, "args": a, "parents": ["MX"]})
    if rng.random() < 0.4:
        comps.append({"name": "IND", "kind": "iload", "args": {"ii": 0.002}, "parents": [first]})
    desc = {"name": "sys", "comps": comps, "phases": {p: sd(rng, 1.0, 1e3) for p in names}}
    if names:
        desc["_build"] = {"phase_order": "normal"}
    desc["_failover"] = why
    return desc


def decoy_table(rng, t, z):
    """another table on the same axis VALUES as t (2-D), its vi rows listed in another order, other entries"""
    vi = list(t["vi"])
    for _ in range(4):
        rng.shuffle(vi)
        if vi != list(t["vi"]):
            break
    lo, hi = (0.3, 0.99) if z == "eff" else ((0.01, 0.3) if z == "vdrop" else (1e-6, 1e-3))
    return {"vi": vi, "io": list(t["io"]), z: [[ud(rng, lo, hi, 3) for _ in t["io"]] for _ in vi]}


def add_decoy(rng, desc):
    """see sysdesc.build (`_decoys`): for one component with a 2-D table a sibling part characterised on the same grid exists in the process"""
    cands = []
    for c in desc["comps"]:
        for k, v in c["args"].items():
            if isinstance(v, dict) and k != "limits" and isinstance(v.get("vi"), list) and len(v["vi"]) > 1:
                z = [q for q in v if q not in ("vi", "io")][0]
                cands.append((c, k, z))
    if not cands:
        return
    c, k, z = rng.choice(cands)
    args = {a: b for a, b in c["args"].items() if not isinstance(b, dict)}
    args[k] = decoy_table(rng, c["args"][k], z)
    args.pop("limits", None)
    desc["_decoys"] = [{"kind": c["kind"], "args": args}]


def zero_vs_omitted(rng):
    """A small phased system in which two phases differ ONLY in that a load with a non-zero sleep value is switched to an explicit 0 in the
    one and is left out of its table in the other (so it runs on its sleep value there): "0 in this phase" and "not listed" are different things.
    Every other component has the same configuration in both phases (none, or a list that names both / neither)."""
    v = sd(rng, 2.5, 24)
    comps = [{"name": "S1", "kind": "source", "args": {"vo": v, **({"rs": sd(rng, 1e-3, 0.2)} if rng.random() < 0.5 else {})}, "parents": []}]
    par = "S1"
    if rng.random() < 0.7:
        k = rng.choice(["linreg", "converter", "pswitch", "rloss"])
        a = {"linreg": {"vo": float("%.3g" % (0.6 * v))}, "converter": {"vo": float("%.3g" % (0.5 * v)), "eff": sd(rng, 0.6, 0.95)},
             "pswitch": {"rs": sd(rng, 1e-3, 0.1)}, "rloss": {"rs": sd(rng, 1e-3, 0.1)}}[k]
        comps.append({"name": "X1", "kind": k, "args": a, "parents": ["S1"]})
        par = "X1"
    names = rng.sample(["ship", "sleep", "run", "tx", "idle"], rng.randint(2, 4))
    pa, pb = rng.sample(names, 2)
    tiny = rng.random() < 0.5
    nl = rng.randint(1, 3)
    for j in range(nl):
        if rng.random() < 0.5:
            c = {"name": "L%d" % j, "kind": "iload", "args": {"ii": sd(rng, 1e-3, 0.2), "iis": sd(rng, 1e-6, 1e-3)}, "parents": [par]}
            val = lambda: sd(rng, 1e-3, 0.2)       # noqa
        else:
            c = {"name": "L%d" % j, "kind": "pload", "args": {"pwr": sd(rng, 1e-2, 1.0), "pwrs": sd(rng, 1e-6, 1e-3)}, "parents": [par]}
            val = lambda: sd(rng, 1e-2, 1.0)       # noqa
        pc = {p: val() for p in names if p not in (pa, pb) and rng.random() < 0.7}
        if tiny:
            # ... or two phases whose only difference is a load value far below a microampere / microwatt
            x = float("%.3g" % (10.0 ** -rng.uniform(6.5, 8.5)))
            pc[pa], pc[pb] = x, float("%.3g" % (x * rng.uniform(1.5, 4.0)))
        elif j == 0 or rng.random() < 0.5:
            pc[pa] = rng.choice([0.0, 0])          # explicit zero in pa, absent in pb
        c["pconf"] = pc
        comps.append(c)
    if len(comps) > 2 and rng.random() < 0.4 and comps[1]["kind"] != "rloss":
        comps[1]["pconf"] = [p for p in names if p in (pa, pb) or rng.random() < 0.5]       # active in both
    phases = {p: sd(rng, 1.0, 1e4) for p in names}
    return {"name": "sys", "comps": comps, "phases": phases, "_build": {"phase_order": "normal"}}


ODD_NAMES = ["Subsystem aux", "Subsystem 1", "Subsystem", "System totals", "System", "Average", "3V3 rail", "a.b", "x y", " lead", "1", "1.5",
             "1e3", "-5", "α", "ΩLoad", "Load (3.3V)", "ld#1", "a/b", "tx{burst}", "100%", "it's", "Source", "PMux", "Parent", "Component"]


def odd_names(rng, desc):
    """unusual but legal identifiers for one to three components (before any build plan refers to names): names that look like a
    summary row, a number, a type or a column; spaces, dots, unicode, punctuation.  A name is a name."""
    comps = desc["comps"]
    taken = {c["name"] for c in comps} | {c.get("rail") for c in comps if c.get("rail")}
    for c in rng.sample(comps, min(len(comps), rng.randint(1, 3))):
        new = rng.choice(ODD_NAMES[:5]) if rng.random() < 0.35 else rng.choice(ODD_NAMES)     # names that look like a summary row come first
        if new in taken:
            continue
        old = c["name"]
        taken.add(new)
        c["name"] = new
        for d in comps:
            d["parents"] = [new if q == old else q for q in d["parents"]]
    desc["_oddnames"] = True


ODD_PHASES = ["tx{burst}", "{}", "{0}", "a}", "%s", "100%", "on battery", "N/A ", "1", "α", "it's", "a.b", ""]


def odd_phase(rng, desc, pool=None, which=None):
    """rename one system phase (and every reference to it) to an unusual but legal name"""
    ph = desc.get("phases") or {}
    if not ph:
        return
    old = which if which in ph else rng.choice(list(ph))
    new = rng.choice([n for n in (pool or ODD_PHASES[:-1]) if n not in ph] or [old])
    desc["phases"] = {(new if k == old else k): v for k, v in ph.items()}
    for c in desc["comps"]:
        pc = c.get("pconf")
        if isinstance(pc, list):
            c["pconf"] = [new if k == old else k for k in pc]
        elif isinstance(pc, dict):
            c["pconf"] = {(new if k == old else k): v for k, v in pc.items()}


def add_fallback(rng, desc):
    """The textbook use of a PMux: the preferred supply (listed first) is unplugged (a 0 V source), the mux falls back to the supply
    the system was created with (the first source of the description, listed second).  Parents may be addressed by rail name."""
    comps = desc["comps"]
    srcs = [c for c in comps if c["kind"] == "source"]
    mux = next((c for c in comps if c["kind"] == "pmux"), None)
    if mux is None or len(srcs) < 2:
        return
    first, dead = srcs[0], rng.choice(srcs[1:])
    owner = {}
    for c in comps:
        owner[c["name"]] = c["name"]
        if c.get("rail"):
            owner[c["rail"]] = c["name"]
    n0 = len(mux["parents"])
    rest = [p for p in mux["parents"] if owner.get(p) not in (first["name"], dead["name"])]

    def ref(c):
        return c["rail"] if (c.get("rail") and rng.random() < 0.4) else c["name"]
    new = [ref(dead), ref(first)] + rest
    if isinstance(mux["args"].get("rs"), list):
        rs = list(mux["args"]["rs"])
        while len(rs) < len(new):
            rs.append(rs[-1])
        mux["args"]["rs"] = rs[:len(new)]
    mux["parents"] = new
    mux.pop("plist", None)
    if rng.random() < 0.4:
        # ground current tabulated over the input voltage: it must be looked up at the voltage of the input the mux runs FROM
        v1 = abs(first["args"]["vo"]) or 1.0
        vi = sorted({float("%.3g" % (v1 * f)) for f in (0.5, 0.9, 1.1, 2.0)})
        io = [0.0, 0.05, 0.3, 1.0]
        mux["args"]["ig"] = {"vi": vi, "io": io, "ig": [[ud(rng, 1e-5, 5e-3, 3) for _ in io] for _ in vi]}
    dead["args"]["vo"] = rng.choice([0.0, 0.0, 0])
    desc["_fallback"] = {"mux": mux["name"], "dead": dead["name"], "feeds": first["name"]}


def add_detour(rng, desc):
    """choose a leaf to be added late (after a first solve with a decoy in another place); see sysdesc.build"""
    comps = desc["comps"]
    used = set()
    for c in comps:
        for p in c["parents"]:
            used.add(p)
    rails = {c.get("rail"): c["name"] for c in comps if c.get("rail")}
    used |= {rails[u] for u in list(used) if u in rails}
    leaves = [c for c in comps if c["kind"] != "source" and c["name"] not in used and c.get("rail", "") not in used]
    hosts = [c["name"] for c in comps if c["kind"] not in ("pload", "iload", "rload")]
    if not leaves or not hosts:
        return
    x = rng.choice(leaves)
    hosts = [h for h in hosts if h != x["name"]]
    if not hosts:
        return
    desc.setdefault("_build", {})["detour"] = {"x": x["name"], "decoy_parent": rng.choice(hosts)}


def add_phases(rng, desc, unknown=0.1):
    n = rng.randint(2, 5)
    names = rng.sample(["sleep", "idle", "tx", "rx", "move", "boot", "burst"], n)
    if rng.random() < 0.1:
        names[rng.randrange(n)] = rng.choice(ODD_PHASES[:-1])     # a phase name is an arbitrary string (only "N/A" is reserved)
    desc["phases"] = {p: sd(rng, 1e-3, 1e5) for p in names}
    if rng.random() < 0.06:
        desc["phases"][rng.choice(names)] = 0.0          # a phase of zero duration is a defined phase like any other
    for c in desc["comps"]:
        if rng.random() < 0.5:
            continue
        k = c["kind"]
        if k in ("rloss", "vloss", "rectifier"):
            continue
        if k in ("pload", "iload", "rload"):
            sub = [p for p in names if rng.random() < 0.6]
            base = {"pload": ("pwr", 1e-3, 1.0), "iload": ("ii", 1e-4, 0.3), "rload": ("rs", 10, 1e5)}[k]
            c["pconf"] = {p: (0.0 if (k != "rload" and rng.random() < 0.15) else sd(rng, base[1], base[2])) for p in sub}
        else:
            sub = [p for p in names if rng.random() < 0.65]
            if rng.random() < unknown:
                sub.append("nosuch")
            if rng.random() < 0.08:
                sub = ["nosuch"]              # names only phases outside the system's set: inactive in every phase
            elif rng.random() < 0.08:
                sub = []                      # an explicitly EMPTY list: no configuration, always active
            c["pconf"] = sub
    desc.setdefault("_build", {})["phase_order"] = rng.choice(["normal", "normal", "comp_first", "redefine"])
    plain = [c for c in desc["comps"] if c.get("pconf") is None and c["kind"] not in ("rloss", "vloss", "rectifier")]
    if plain and rng.random() < 0.3:
        desc["_build"]["retouch"] = {"x": rng.choice(plain)["name"]}
    return desc
