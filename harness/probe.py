"""Probe systems for C10 / C11: `Source(V) -> component -> ILoad(I)` pins Vin = V and Iout = I of the component,
so a looked-up parameter can be recovered from the solved row through the public API only."""
import copy, json, os, tempfile

from . import sysdesc, solved

SOLVE_KW = {"vtol": 1e-12, "itol": 1e-12}
LOADS = ("pload", "iload", "rload")
PASSIVE = ("rloss", "vloss", "linreg", "pswitch", "pmux", "rectifier")


def exc_name(e):
    """exception -> name of the nearest builtin class (numpy / scipy subclasses are mapped to their builtin base)"""
    if e is None:
        return "ok"
    import builtins
    for c in type(e).__mro__:
        if getattr(builtins, c.__name__, None) is c:
            return c.__name__
    return type(e).__name__


def probe_desc(branches):
    """branches: list of dicts {v, i, kind, args}; one Source per distinct v, one component + ILoad per branch.
    Returns (desc, names) with names[k] = component name of branch k."""
    comps, src, names = [], {}, []
    for b in branches:
        if b["kind"] != "source" and b["v"] not in src:
            src[b["v"]] = "S%d" % len(src)
            comps.append({"name": src[b["v"]], "kind": "source", "args": {"vo": b["v"]}, "parents": []})
    for k, b in enumerate(branches):
        n = "X%d" % k
        names.append(n)
        if b["kind"] == "source":
            comps.append({"name": n, "kind": "source", "args": copy.deepcopy(b["args"]), "parents": []})
            comps.append({"name": "L%d" % k, "kind": "iload", "args": {"ii": b["i"]}, "parents": [n]})
            continue
        parents = [src[b["v"]]]
        if b["kind"] == "pmux" and b.get("dead_first"):
            # every second mux probe runs from its SECOND input (dead first input): the table must be looked up at
            # the selected input's voltage
            if "Z0" not in [c["name"] for c in comps]:
                comps.insert(0, {"name": "Z0", "kind": "source", "args": {"vo": 0.0}, "parents": []})
            parents = ["Z0", src[b["v"]]]
        comps.append({"name": n, "kind": b["kind"], "args": copy.deepcopy(b["args"]), "parents": parents})
        if b["kind"] not in LOADS:
            comps.append({"name": "L%d" % k, "kind": "iload", "args": {"ii": b["i"]}, "parents": [n]})
    return {"name": "probe", "comps": comps, "phases": {}}, names


def solve_probe(desc, kw=None):
    """-> (rows by name, obs, sys, df, err)"""
    sys_, df, err = solved.solve_case(desc, kw or SOLVE_KW)
    if err is not None:
        return None, None, sys_, None, err
    obs = sysdesc.observe(df)
    rows = {r["name"]: r for r in obs["phases"][0]["rows"]}
    return rows, obs, sys_, df, None


def recover(kind, z, row, args):
    """the parameter the component looked up, from its solved row (None when the row does not determine it)"""
    vin, vout, iin, iout = row["vin"], row["vout"], row["iin"], row["iout"]
    if z == "vdrop":
        d = abs(vin) - abs(vout)
        return d / 2.0 if kind == "rectifier" else d
    if z == "eff":
        if iin == 0.0 or vin == 0.0:
            return None
        return abs(args["vo"] * iout / (vin * iin))
    if z == "ig":
        return iin - iout
    raise ValueError(z)


def stored(kind, name, args, vsrc=5.0):
    """what the constructed component stores, seen through System.params() and save():
    -> (exc, params dict from save(), limits dict from save(), params() row)"""
    def mk():
        comp = sysdesc.KIND_CLASS[kind](name, **copy.deepcopy(args))
        return comp
    comp, e = sysdesc.quiet_call(mk)
    if e is not None:
        return e, None, None, None

    def build():
        if kind == "source":
            return sysdesc.System("one", comp)
        s = sysdesc.System("one", sysdesc.Source("S", vo=vsrc))
        s.add_comp("S", comp=comp)
        return s
    s, e = sysdesc.quiet_call(build)
    if e is not None:
        raise RuntimeError("cannot place an accepted component in a system: %r" % (e,))
    fd, path = tempfile.mkstemp(suffix=".json")
    os.close(fd)
    try:
        _, e = sysdesc.quiet_call(s.save, path)
        if e is not None:
            raise RuntimeError("save() failed on an accepted component: %r" % (e,))
        doc = json.load(open(path))
    finally:
        os.unlink(path)
    if name in doc:                      # sources and the mux are top-level entries of the document
        ent = doc[name]
    else:
        ent = [c for c in doc["S"]["childs"]["S"] if c["params"]["name"] == name][0]
    df, e = sysdesc.quiet_call(s.params)
    prow = None
    if e is None:
        r = df[df["Component"] == name].iloc[0]
        prow = {c: r[c] for c in df.columns}
    return None, ent["params"], ent["limits"], prow
