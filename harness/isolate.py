"""Fresh-interpreter runs.  State kept at class or module level (a cache filled by whatever was analysed first, a shared default) is
invisible to a check that lives in one long process and always does things in the same order.  `solve_sequence` builds and solves a
list of descriptions IN ORDER in a new interpreter (same sysloss as this process: PYTHONPATH is inherited) and returns, per
description, the component rows of the solved table as plain data."""
import json, os, subprocess, sys

VERIF = os.path.dirname(os.path.dirname(os.path.abspath(__file__)))

_CODE = r'''
import sys, json, warnings
sys.path.insert(0, %r)
warnings.simplefilter("ignore")
from harness import sysdesc
descs = json.load(sys.stdin)
out = []
for d in descs:
    s, e = sysdesc.quiet_call(sysdesc.build, d)
    if e is not None:
        out.append({"error": "build:" + type(e).__name__}); continue
    df, e = sysdesc.quiet_call(s.solve, **(d.get("_solve_kw") or {}))
    if e is not None:
        out.append({"error": "solve:" + type(e).__name__}); continue
    obs = sysdesc.observe(df)
    out.append({"rows": [[p["phase"], r["name"], r.get("warn", ""), r.get("iin"), r.get("vout"), r.get("pwr"), r.get("loss")]
                         for p in obs["phases"] for r in p["rows"]]})
print("RESULT" + json.dumps(out))
''' % VERIF


def solve_sequence(descs, timeout=300):
    p = subprocess.run([sys.executable, "-W", "ignore", "-c", _CODE], input=json.dumps(descs), stdout=subprocess.PIPE, stderr=subprocess.PIPE,
                       text=True, timeout=timeout, env=dict(os.environ, PYTHONHASHSEED="0", MPLBACKEND="Agg"))
    for line in p.stdout.splitlines():
        if line.startswith("RESULT"):
            return json.loads(line[6:])
    raise RuntimeError("isolated run failed: rc=%s %s" % (p.returncode, p.stderr[-400:]))
