"""Generator of edit / configuration histories for C14 / C15 (online: each call is drawn from the structure the
previous calls left behind, as reconstructed from public reports).  All randomness comes from the `rng` passed in.

`Cfg`: p_reject  target share of calls crafted to be rejected,
       p_unsafe  probability with which a call matching the trigger of an OPEN finding is let through
                 (the main streams keep those rare; `gen_trigger` builds them on purpose for the dedicated streams),
       phases    whether set_sys_phases / set_comp_phases calls are drawn (C15) or only a few valid ones (C14).
"""
from . import hist as H


class Cfg:
    def __init__(self, p_reject=0.35, p_unsafe=0.02, w_phase=0.06, phase_reject=False, p_mux=0.15, p_cross=0.12,
                 p_weird=0.01):
        self.p_reject, self.p_unsafe, self.w_phase = p_reject, p_unsafe, w_phase
        self.phase_reject, self.p_mux, self.p_cross, self.p_weird = phase_reject, p_mux, p_cross, p_weird
        self.prefer = []        # names that REJECTED calls mentioned: re-used for later components / rails with preference, so that
                                # anything a rejected call left behind under such a name (a cache entry, a half-made registry key) is met


class View:
    """the reconstruction, indexed"""

    def __init__(self, st):
        self.names = [c[0] for c in st["comps"]]
        self.ctype = {c[0]: c[1] for c in st["comps"]}
        self.kind = {c[0]: c[2].split(":")[0] for c in st["comps"]}
        self.rails = dict(st["rails"] or [])
        self.railvals = [r for r in self.rails.values() if r != ""]
        self.preds, self.kids = {}, {}
        for p, c in (st["links"] or []):
            self.preds.setdefault(c, set()).add(p)
            self.kids.setdefault(p, set()).add(c)
        self.muxes = [n for n in self.names if self.ctype[n] == "PMUX"]
        self.sources = [n for n in self.names if self.ctype[n] == "SOURCE"]
        self.used = set(self.names) | set(self.railvals)

    def fresh(self, rng, cfg, primary, secondary):
        pool = [x for x in primary if x not in self.used]
        alt = [x for x in secondary if x not in self.used]
        pref = [x for x in getattr(cfg, "prefer", []) if x not in self.used and (x in primary or x in secondary)]
        if pref and rng.random() < 0.5:
            return rng.choice(pref)
        if alt and (not pool or rng.random() < cfg.p_cross):
            return rng.choice(alt)
        return rng.choice(pool) if pool else None

    def addr(self, rng, n):
        """address a component by name or (sometimes) by its rail"""
        r = self.rails.get(n, "")
        return r if (r != "" and rng.random() < 0.4) else n


def new_comp(kind, name, serial):
    c = {"name": name, "kind": kind, "val": H.value(kind, serial)}
    if kind == "pmux" and serial % 3 == 0:
        # on-resistance per input, as a LIST of 1-3 entries whatever the number of inputs turns out to be: a list that is too short is
        # accepted by the editing calls (solve() complains later) - acceptance and rejection must both be all-or-nothing
        c["rs_list"] = 1 + (serial // 3) % 3
    return c


def _rail_choice(rng, cfg, v, kind, name):
    if kind in H.LOADS:
        return "" if rng.random() < 0.8 else (v.fresh(rng, cfg, H.RAILS, H.NAMES) or "")
    if rng.random() < 0.45:
        return ""
    r = v.fresh(rng, cfg, H.RAILS, H.NAMES)
    return r if (r is not None and r != name) else ""


def gen_valid(rng, v, cfg, serial, kinds_ops):
    o = rng.choices(kinds_ops[0], kinds_ops[1])[0]
    if o == "add_source":
        n = v.fresh(rng, cfg, H.NAMES, H.RAILS)
        if n is None:
            return None
        return {"op": o, "comp": new_comp("source", n, serial), "group": rng.choice(H.GROUPS),
                "rail": _rail_choice(rng, cfg, v, "source", n)}
    if o == "add_comp":
        n = v.fresh(rng, cfg, H.NAMES, H.RAILS)
        cands = [x for x in v.names if v.ctype[x] != "LOAD"]
        if n is None or not cands:
            return None
        if not v.muxes and rng.random() < cfg.p_mux:
            k = rng.choice([1, 2, 2, 2, 3])
            ps = rng.sample(cands, min(k, len(cands)))
            par = [v.addr(rng, p) for p in ps]
            if len(par) == 1 and rng.random() < 0.5:
                par = par[0]
            kind = "pmux"
        else:
            par = v.addr(rng, rng.choice(cands[-5:] if rng.random() < 0.5 else cands))
            kind = rng.choice(H.LOADS) if rng.random() < 0.4 else rng.choice(H.NONLOAD)
        return {"op": o, "parent": par, "comp": new_comp(kind, n, serial), "group": rng.choice(H.GROUPS),
                "rail": _rail_choice(rng, cfg, v, kind, n)}
    if o == "change_comp":
        t = rng.choice(v.names)
        if v.ctype[t] == "SOURCE":
            kind = "source"
        elif v.ctype[t] == "PMUX":
            kind = "pmux"
        elif v.kids.get(t):
            kind = rng.choice(H.NONLOAD)
        else:
            kind = rng.choice(H.LOADS + H.NONLOAD)
        if v.ctype[t] not in ("SOURCE", "PMUX") and not v.muxes and rng.random() < 0.06:
            kind = "pmux"               # a single-input component may become THE PMux of a system that has none
        same = rng.random() < 0.55
        n = t if same else v.fresh(rng, cfg, H.NAMES, H.RAILS)
        if n is None:
            n = t
        rail = _rail_choice(rng, cfg, v, kind, n)
        if n == t and v.rails.get(t, "") != "" and rng.random() < 0.3:
            rail = v.rails[t]           # keep its own rail
        return {"op": o, "name": t, "comp": new_comp(kind, n, serial), "group": rng.choice(H.GROUPS), "rail": rail}
    if o == "del_comp":
        cands = [x for x in v.names if v.ctype[x] != "SOURCE" or len(v.sources) >= 2]
        if not cands:
            return None
        t = rng.choice(cands)
        dc = True if v.ctype[t] == "SOURCE" else (rng.random() < 0.5)
        return {"op": o, "name": t, "del_childs": dc}
    if o == "set_sys_phases":
        k = rng.choice([0, 2, 2, 3, 4])
        ph = rng.sample(H.PHASES, k)
        return {"op": o, "phases": [[p, float(rng.choice([1, 2, 5, 10, 60]))] for p in ph]}
    if o == "set_comp_phases":
        cands = [x for x in v.names if v.ctype[x] != "SLOSS"]
        if not cands:
            return None
        t = rng.choice(cands)
        sub = [p for p in H.PHASES if rng.random() < 0.5]
        if v.ctype[t] == "LOAD":
            base = H.BASE[v.kind[t]]
            conf = {"table": [[p, base * rng.choice([0.5, 1.0, 2.0])] for p in sub]}
            if getattr(cfg, "p_wrong_form", 0.0) and rng.random() < cfg.p_wrong_form:
                conf = {"names": sub}          # a LIST on a load: the documented form for loads is a dict
        else:
            conf = {"names": sub}
        return {"op": o, "name": t, "conf": conf}
    return None


def gen_invalid(rng, v, cfg, serial, kinds_ops):
    """a call crafted to be rejected; returns (op, cause)"""
    o = rng.choices(kinds_ops[0], kinds_ops[1])[0]
    unknown = rng.choice([x for x in H.NAMES + H.RAILS if x not in v.used] or ["zz"])
    some = rng.choice(v.names)
    fresh = v.fresh(rng, cfg, H.NAMES, H.RAILS) or "zz"
    g = rng.choice(H.GROUPS)
    nonload = [x for x in v.names if v.ctype[x] != "LOAD"]
    if o == "add_source":
        c = rng.choice(["dup_name", "name_is_rail", "dup_rail", "rail_is_name", "rail_eq_name", "not_a_source"])
        if c == "dup_name":
            return {"op": o, "comp": new_comp("source", some, serial), "group": g, "rail": ""}, c
        if c == "name_is_rail" and v.railvals:
            return {"op": o, "comp": new_comp("source", rng.choice(v.railvals), serial), "group": g, "rail": ""}, c
        if c == "dup_rail" and v.railvals:
            return {"op": o, "comp": new_comp("source", fresh, serial), "group": g, "rail": rng.choice(v.railvals)}, c
        if c == "rail_is_name":
            return {"op": o, "comp": new_comp("source", fresh, serial), "group": g, "rail": some}, c
        if c == "rail_eq_name":
            return {"op": o, "comp": new_comp("source", fresh, serial), "group": g, "rail": fresh}, c
        return {"op": o, "comp": new_comp(rng.choice(H.LOADS + H.NONLOAD), fresh, serial), "group": g, "rail": ""}, "not_a_source"
    if o == "add_comp":
        c = rng.choice(["unknown_parent", "parent_is_load", "child_is_source", "second_mux", "list_for_non_mux",
                        "dup_in_list", "dup_name", "name_is_rail", "dup_rail", "rail_is_name", "rail_eq_name",
                        "empty_list", "alias_list", "load_in_list"])
        kind = rng.choice(H.LOADS + H.NONLOAD)
        par = v.addr(rng, rng.choice(nonload)) if nonload else some
        if c == "empty_list":
            return {"op": o, "parent": [], "comp": new_comp("pmux", fresh, serial), "group": g, "rail": ""}, c
        own = [n for n in v.names if v.rails.get(n, "") != "" and v.ctype[n] != "LOAD"]
        if c == "alias_list" and own and not v.muxes:
            n = rng.choice(own)
            pl = [n, v.rails[n]] + ([rng.choice(nonload)] if rng.random() < 0.3 else [])
            if len(set(pl)) == len(pl):
                return {"op": o, "parent": pl, "comp": new_comp("pmux", fresh, serial), "group": g, "rail": ""}, c
        if c == "unknown_parent":
            p = unknown if rng.random() < 0.7 else [par, unknown]
            if isinstance(p, list):
                if len(nonload) > 1 and rng.random() < 0.5:
                    p.append(rng.choice([x for x in nonload if x != par] or [par]))
                rng.shuffle(p)                      # the offending entry at ANY position of the list
                p = list(dict.fromkeys(p))
            return {"op": o, "parent": p, "comp": new_comp("pmux" if isinstance(p, list) else kind, fresh, serial),
                    "group": g, "rail": ""}, c
        loads = [x for x in v.names if v.ctype[x] == "LOAD"]
        if c == "load_in_list" and loads and nonload and not v.muxes:
            pl = [rng.choice(loads), par] + ([rng.choice(nonload)] if rng.random() < 0.4 else [])
            rng.shuffle(pl)
            pl = list(dict.fromkeys(pl))
            if len(pl) >= 2:
                return {"op": o, "parent": pl, "comp": new_comp("pmux", fresh, serial), "group": g, "rail": ""}, c
        if c == "parent_is_load" and loads:
            return {"op": o, "parent": rng.choice(loads), "comp": new_comp(kind, fresh, serial), "group": g, "rail": ""}, c
        if c == "child_is_source":
            return {"op": o, "parent": par, "comp": new_comp("source", fresh, serial), "group": g, "rail": ""}, c
        if c == "second_mux" and v.muxes:
            return {"op": o, "parent": par, "comp": new_comp("pmux", fresh, serial), "group": g, "rail": ""}, c
        if c == "list_for_non_mux":
            return {"op": o, "parent": [par], "comp": new_comp(kind, fresh, serial), "group": g, "rail": ""}, c
        if c == "dup_in_list":
            return {"op": o, "parent": [par, par], "comp": new_comp("pmux", fresh, serial), "group": g, "rail": ""}, c
        if c == "name_is_rail" and v.railvals:
            return {"op": o, "parent": par, "comp": new_comp(kind, rng.choice(v.railvals), serial), "group": g, "rail": ""}, c
        if c == "dup_rail" and v.railvals:
            return {"op": o, "parent": par, "comp": new_comp(kind, fresh, serial), "group": g,
                    "rail": rng.choice(v.railvals)}, c
        if c == "rail_is_name":
            return {"op": o, "parent": par, "comp": new_comp(kind, fresh, serial), "group": g, "rail": some}, c
        if c == "rail_eq_name":
            return {"op": o, "parent": par, "comp": new_comp(kind, fresh, serial), "group": g, "rail": fresh}, c
        return {"op": o, "parent": par, "comp": new_comp(kind, some, serial), "group": g, "rail": ""}, "dup_name"
    if o == "change_comp":
        c = rng.choice(["unknown_target", "target_by_rail", "source_to_other", "mux_to_other", "other_to_source",
                        "dup_name", "name_is_rail", "dup_rail", "rail_is_name", "rail_eq_name",
                        "to_load_with_children", "same_name_rail_in_use", "second_mux_by_change"])
        withkids = [x for x in v.names if v.kids.get(x) and v.kind[x] in H.NONLOAD]
        if c == "to_load_with_children" and withkids:
            t = rng.choice(withkids)
            return {"op": o, "name": t, "comp": new_comp(rng.choice(H.LOADS), t if rng.random() < 0.5 else fresh, serial),
                    "group": g, "rail": ""}, c
        if c == "same_name_rail_in_use":
            cand = [x for x in v.names if v.ctype[x] != "LOAD"]
            if cand:
                t = rng.choice(cand)
                coll = [r for k, r in v.rails.items() if k != t and r != ""] + list(v.names)
                return {"op": o, "name": t, "comp": new_comp(v.kind[t], t, serial), "group": g, "rail": rng.choice(coll)}, c
        if c == "second_mux_by_change" and v.muxes:
            cand = [x for x in v.names if v.kind[x] in H.NONLOAD]
            if cand:
                t = rng.choice(cand)
                return {"op": o, "name": t, "comp": new_comp("pmux", t if rng.random() < 0.5 else fresh, serial),
                        "group": g, "rail": ""}, c
        if c == "unknown_target":
            return {"op": o, "name": unknown, "comp": new_comp(rng.choice(H.NONLOAD), fresh, serial), "group": g, "rail": ""}, c
        if c == "target_by_rail" and v.railvals:
            r = rng.choice(v.railvals)
            return {"op": o, "name": r, "comp": new_comp(rng.choice(H.NONLOAD), r, serial), "group": g, "rail": ""}, c
        if c == "source_to_other":
            t = rng.choice(v.sources)
            n = t if rng.random() < 0.5 else fresh
            k = "pmux" if rng.random() < 0.3 else rng.choice(H.NONLOAD + H.LOADS)      # a root can only be a Source - not even the other "special" kind
            return {"op": o, "name": t, "comp": new_comp(k, n, serial), "group": g, "rail": ""}, c
        if c == "mux_to_other" and v.muxes:
            t = v.muxes[0]
            n = t if rng.random() < 0.5 else fresh
            return {"op": o, "name": t, "comp": new_comp(rng.choice(H.NONLOAD + H.LOADS), n, serial), "group": g, "rail": ""}, c
        others = [x for x in v.names if v.ctype[x] != "SOURCE"]
        if c == "other_to_source" and others:
            t = rng.choice(others)
            n = t if rng.random() < 0.5 else fresh
            return {"op": o, "name": t, "comp": new_comp("source", n, serial), "group": g, "rail": ""}, c
        # name / rail collisions need a changed name (with an unchanged name `_chk_name` is skipped: finding F17)
        t = some
        if v.ctype[t] == "SOURCE":
            kind = "source"
        elif v.ctype[t] == "PMUX":
            kind = "pmux"
        else:
            kind = rng.choice(H.NONLOAD)
        other = [x for x in v.names if x != t]
        if c == "name_is_rail" and v.railvals:
            return {"op": o, "name": t, "comp": new_comp(kind, rng.choice(v.railvals), serial), "group": g, "rail": ""}, c
        if c == "dup_rail" and v.railvals:
            return {"op": o, "name": t, "comp": new_comp(kind, fresh, serial), "group": g, "rail": rng.choice(v.railvals)}, c
        if c == "rail_is_name":
            return {"op": o, "name": t, "comp": new_comp(kind, fresh, serial), "group": g, "rail": some}, c
        if c == "rail_eq_name":
            return {"op": o, "name": t, "comp": new_comp(kind, fresh, serial), "group": g, "rail": fresh}, c
        if other:
            return {"op": o, "name": t, "comp": new_comp(kind, rng.choice(other), serial), "group": g, "rail": ""}, "dup_name"
        return {"op": o, "name": unknown, "comp": new_comp(kind, fresh, serial), "group": g, "rail": ""}, "unknown_target"
    if o == "del_comp":
        c = rng.choice(["unknown_target", "last_source", "source_without_childs", "target_by_rail"])
        if c == "target_by_rail" and v.railvals:
            return {"op": o, "name": rng.choice(v.railvals), "del_childs": rng.random() < 0.5}, c
        if c == "last_source" and len(v.sources) == 1:
            return {"op": o, "name": v.sources[0], "del_childs": True}, c
        if c == "source_without_childs":
            return {"op": o, "name": rng.choice(v.sources), "del_childs": False}, c
        return {"op": o, "name": unknown, "del_childs": rng.random() < 0.5}, "unknown_target"
    if o == "set_sys_phases":
        c = rng.choice(["one_phase", "reserved_name"])
        if c == "one_phase":
            return {"op": o, "phases": [[rng.choice(H.PHASES), 1.0]]}, c
        ph = rng.sample(H.PHASES, rng.choice([1, 2])) + ["N/A"]
        rng.shuffle(ph)
        return {"op": o, "phases": [[p, 1.0] for p in ph]}, c
    if o == "set_comp_phases":
        c = rng.choice(["unknown_target", "bad_type", "loss_component", "loss_component", "target_by_rail", "list_on_load"])
        sl = [x for x in v.names if v.ctype[x] == "SLOSS"]
        lds = [x for x in v.names if v.ctype[x] == "LOAD"]
        if c == "list_on_load" and lds:
            return {"op": o, "name": rng.choice(lds), "conf": {"names": [p for p in H.PHASES if rng.random() < 0.5]}}, c
        if c == "target_by_rail" and v.railvals:
            return {"op": o, "name": rng.choice(v.railvals), "conf": {"names": [rng.choice(H.PHASES)]}}, c
        if c == "loss_component" and sl:
            return {"op": o, "name": rng.choice(sl), "conf": {"names": [rng.choice(H.PHASES)]}}, c
        if c == "bad_type":
            return {"op": o, "name": some, "conf": "bad"}, c
        return {"op": o, "name": unknown, "conf": {"names": []}}, "unknown_target"
    return None, None


def gen_weird(rng, v, cfg, serial):
    """rare argument shapes: the empty string as a name / rail / target, an aliasing or empty parent list"""
    c = rng.choice(["empty_target_del", "empty_parent", "alias_list", "empty_name"])
    fresh = v.fresh(rng, cfg, H.NAMES, H.RAILS) or "zz"
    if c == "empty_parent":
        return {"op": "add_comp", "parent": "", "comp": new_comp(rng.choice(H.LOADS), fresh, serial), "group": "", "rail": ""}, c
    if c == "alias_list":
        own = [n for n in v.names if v.rails.get(n, "") != "" and v.ctype[n] != "LOAD"]
        if own and not v.muxes:
            n = rng.choice(own)
            return {"op": "add_comp", "parent": [n, v.rails[n]], "comp": new_comp("pmux", fresh, serial), "group": "", "rail": ""}, c
    if c == "empty_name":
        return {"op": "add_source", "comp": new_comp("source", "", serial), "group": "", "rail": ""}, c
    return {"op": "change_comp", "name": "", "comp": new_comp("converter", fresh, serial), "group": "", "rail": ""}, "empty_target"


EDIT_OPS = (["add_source", "add_comp", "change_comp", "del_comp"], [0.12, 0.45, 0.25, 0.18])


def op_weights(cfg):
    ops, w = list(EDIT_OPS[0]), list(EDIT_OPS[1])
    if cfg.w_phase > 0:
        ops += ["set_sys_phases", "set_comp_phases"]
        w += [cfg.w_phase * 0.35, cfg.w_phase * 0.65]
    return ops, w


def gen_op(rng, st, recorded, serial, cfg):
    """one call for the current structure; returns (op, intent) — intent is "valid" or the crafted rejection cause"""
    v = View(st)
    ko = op_weights(cfg)
    for _ in range(20):
        r = rng.random()
        if r < cfg.p_weird:
            op, intent = gen_weird(rng, v, cfg, serial)
        elif r < cfg.p_weird + cfg.p_reject:
            kk = ko
            if not cfg.phase_reject:
                kk = EDIT_OPS
            op, intent = gen_invalid(rng, v, cfg, serial, kk)
        else:
            op, intent = gen_valid(rng, v, cfg, serial, ko), "valid"
        if op is None:
            continue
        f = H.facts(st, recorded, op)
        if H.unsafe_ids(op, f) and rng.random() >= cfg.p_unsafe:
            continue
        if op["op"] == "del_comp" and rng.random() < 0.2:
            op["dc_form"] = rng.choice(["int", "numpy"])      # same truth value, another type (a flag computed with numpy, 0/1)
        return op, intent
    return {"op": "del_comp", "name": "zz", "del_childs": True}, "unknown_target"


def gen_init(rng, cfg=None, unsafe=False):
    n = rng.choice(H.NAMES)
    r = "" if rng.random() < 0.5 else rng.choice(H.RAILS)
    if unsafe:
        r = n
    return {"name": "sys", "comp": new_comp("source", n, 0), "group": rng.choice(H.GROUPS), "rail": r}


# ---------------------------------------------------------------------------------------------------
# calls that match the trigger of a given open finding (dedicated streams)

def gen_trigger(rng, st, recorded, serial, fid):
    v = View(st)
    cfg = Cfg()
    fresh = v.fresh(rng, cfg, H.NAMES, H.RAILS) or "zz"
    cands = []
    if fid == "F16":
        for t in v.names:
            if v.kids.get(t) and v.kind[t] in H.NONLOAD:
                cands.append({"op": "change_comp", "name": t, "comp": new_comp(rng.choice(H.LOADS), rng.choice([t, fresh]), serial),
                              "group": "", "rail": ""})
    elif fid in ("F17", "F17b"):
        for t in v.names:
            if v.ctype[t] == "LOAD":
                continue
            kind = v.kind[t]
            coll = [r for k, r in v.rails.items() if k != t and r != ""] if fid == "F17" else ([x for x in v.names])
            for r in coll:
                cands.append({"op": "change_comp", "name": t, "comp": new_comp(kind, t, serial), "group": "", "rail": r})
    elif fid == "F18":
        for m in v.muxes:
            if len(v.preds.get(m, ())) > 1:
                for e in recorded.get(m, [])[:len(v.preds[m])]:
                    if e in v.names:
                        kind = v.kind[e] if v.ctype[e] in ("SOURCE", "PMUX") else rng.choice(H.NONLOAD)
                        cands.append({"op": "change_comp", "name": e, "comp": new_comp(kind, fresh, serial), "group": "", "rail": ""})
                    else:
                        own = [k for k, r in v.rails.items() if r == e]
                        if own:
                            t = own[0]
                            kind = v.kind[t] if v.ctype[t] in ("SOURCE", "PMUX") else rng.choice(H.NONLOAD)
                            cands.append({"op": "change_comp", "name": t, "comp": new_comp(kind, t, serial), "group": "", "rail": ""})
    elif fid == "F32":
        if v.muxes:
            for t in v.names:
                if v.kind[t] in H.NONLOAD:
                    cands.append({"op": "change_comp", "name": t, "comp": new_comp("pmux", rng.choice([t, fresh]), serial),
                                  "group": "", "rail": ""})
    elif fid == "F19":
        for m in v.muxes:
            if len(v.preds.get(m, ())) > 1:
                for t in v.preds[m]:
                    if v.ctype[t] != "SOURCE":
                        cands.append({"op": "del_comp", "name": t, "del_childs": False})
    elif fid in ("F20", "F20b"):
        for k, r in v.rails.items():
            if r == "":
                continue
            if v.ctype[k] != "SOURCE":
                cands.append({"op": "del_comp", "name": r, "del_childs": rng.random() < 0.5})
            elif len(v.sources) >= 2:
                cands.append({"op": "del_comp", "name": r, "del_childs": True})
    elif fid == "F21":
        for k, r in v.rails.items():
            if r != "" and v.ctype[k] != "SLOSS":
                cands.append({"op": "set_comp_phases", "name": r, "conf": {"names": [rng.choice(H.PHASES)]}})
    elif fid == "F34":
        if not v.muxes:
            cands.append({"op": "add_comp", "parent": [], "comp": new_comp("pmux", fresh, serial), "group": "", "rail": ""})
    rng.shuffle(cands)
    for op in cands:
        f = H.facts(st, recorded, op)
        want = {"F17b": "F17", "F20b": "F20"}.get(fid, fid)
        if want == "F34" or want in H.unsafe_ids(op, f):
            return op
    return None


# ---------------------------------------------------------------------------------------------------
# scripted family: a PMux whose inputs are related to each other (one input is the ancestor of another, inputs
# addressed by rail or by name, 2-4 inputs), followed by edits aimed at the inputs and their ancestors.  Random
# histories reach these shapes rarely; the PMux input bookkeeping (`pnames`: rename, re-link, de-duplication) lives here.

def mux_family(rng, apply):
    """drives `apply(op) -> step`; returns nothing.  Names/rails come from the usual pools so that collisions stay possible."""
    names = list(H.NAMES)
    rng.shuffle(names)
    rails = list(H.RAILS)
    rng.shuffle(rails)
    serial = [0]

    def comp(kind, name):
        serial[0] += 1
        return new_comp(kind, name, serial[0])

    def nonload():
        return rng.choice(["converter", "linreg", "pswitch", "rloss", "vloss"])

    rail_of = {}

    def addr(n):
        r = rail_of.get(n, "")
        return r if (r and rng.random() < 0.55) else n

    def add(parent, kind, rail_p=0.6):
        n = names.pop()
        r = rails.pop() if (rails and kind not in H.LOADS and rng.random() < rail_p) else ""
        s = apply({"op": "add_comp", "parent": parent, "comp": comp(kind, n), "group": "", "rail": r})
        if s["outcome"] == "ok":
            rail_of[n] = r
            return n
        return None

    def live(step):
        return [c[0] for c in step["st"]["comps"]]

    s0 = None
    # second source (sometimes)
    srcs = []
    if rng.random() < 0.7:
        n = names.pop()
        r = rails.pop() if rng.random() < 0.5 else ""
        s = apply({"op": "add_source", "comp": comp("source", n), "group": "", "rail": r})
        if s["outcome"] == "ok":
            rail_of[n] = r
            srcs.append(n)
    root = None
    return_state = {}
    # the first source is whatever the run was initialised with: find it through a probe step
    probe = apply({"op": "set_comp_phases", "name": "__nosuch__", "conf": {"names": []}})      # rejected: state unchanged
    first = [c[0] for c in probe["st"]["comps"] if c[1] == "SOURCE" and c[0] not in srcs]
    if not first:
        return
    root = first[0]
    rail_of.setdefault(root, dict(probe["st"]["rails"] or []).get(root, ""))
    P = add(addr(root), nonload(), rail_p=0.8)
    if P is None:
        return
    X = add(addr(P), nonload())
    if X is None:
        return
    Z = add(addr(X), nonload()) if rng.random() < 0.4 else None
    pool = [P, X] + ([Z] if Z else []) + srcs + ([root] if rng.random() < 0.5 else [])
    k = rng.randint(2, min(4, len(pool)))
    ins = rng.sample(pool, k)
    if X not in ins and rng.random() < 0.7:
        ins[rng.randrange(len(ins))] = X
    ins = list(dict.fromkeys(ins))
    directed = rng.random() < 0.3 and bool(rail_of.get(P)) and len(pool) >= 3
    if directed:
        # the shape the de-duplication of inputs is for: P listed by its RAIL, its direct child X by name, at least one more input after
        # them - and the first edit removes X and keeps its children
        others = [q for q in pool if q not in (P, X)]
        pair = [P, X] if rng.random() < 0.6 else [X, P]
        ins = pair + rng.sample(others, rng.randint(1, min(2, len(others))))
    m = names.pop()
    mr = rails.pop() if (rails and rng.random() < 0.3) else ""
    plist = [addr(i) for i in ins]
    if directed:
        plist = [(rail_of[P] if i == P else (i if i == X else addr(i))) for i in ins]
    mux_op = {"op": "add_comp", "parent": plist, "comp": comp("pmux", m), "group": "", "rail": mr}
    if rng.random() < 0.25:
        mux_op["parent_form"] = "tuple"         # rejected today (parent: str | list); if a version accepts it, everything after must still hold
    s = apply(mux_op)
    if s["outcome"] != "ok":
        return
    rail_of[m] = mr
    add(addr(m), rng.choice(list(H.LOADS)))
    # edits aimed at the inputs and their ancestors
    first_edit = True
    for _ in range(rng.randint(1, 3)):
        cur = live(s)
        targets = [t for t in ins + [P] if t in cur and t != root]
        if not targets:
            break
        t = rng.choice(targets)
        r = rng.random()
        forced = directed and first_edit and X in cur
        first_edit = False
        if forced:
            op = {"op": "del_comp", "name": X, "del_childs": False}
        elif r < 0.45:
            op = {"op": "del_comp", "name": t, "del_childs": rng.random() < 0.3}
        elif r < 0.8:
            newname = t if rng.random() < 0.4 else (names.pop() if names else t)
            kind = "source" if t in srcs else nonload()
            nr = rng.choice(["", rail_of.get(t, ""), rails.pop() if rails else ""])
            op = {"op": "change_comp", "name": t, "comp": comp(kind, newname), "group": "", "rail": nr}
        else:
            op = {"op": "del_comp", "name": addr(t), "del_childs": False}
        s = apply(op)
        if s["outcome"] == "ok":
            if op["op"] == "change_comp":
                rail_of.pop(t, None)
                rail_of[op["comp"]["name"]] = op["rail"]
                ins = [op["comp"]["name"] if i == t else i for i in ins]
                if t == P:
                    P = op["comp"]["name"]
                srcs = [op["comp"]["name"] if i == t else i for i in srcs]
        if s["wf"] or s["st"]["save_exc"]:
            break


# ---------------------------------------------------------------------------------------------------
# scripted family: node indices freed by a deletion are re-used by components added later under ANOTHER, later-created source, and a
# PMux then runs from that branch - "the oldest node" / "the lowest index" of a branch is then not its source.

def index_reuse_family(rng, apply):
    names = list(H.NAMES)
    rng.shuffle(names)
    serial = [100]

    def comp(kind, name):
        serial[0] += 1
        return new_comp(kind, name, serial[0])

    def add(parent, kind):
        n = names.pop()
        s = apply({"op": "add_comp", "parent": parent, "comp": comp(kind, n), "group": "", "rail": ""})
        return n if s["outcome"] == "ok" else None
    probe = apply({"op": "set_comp_phases", "name": "__nosuch__", "conf": {"names": []}})
    first = [c[0] for c in probe["st"]["comps"] if c[1] == "SOURCE"]
    if not first:
        return
    root = first[0]
    # a little tree under the first source, to be deleted again
    a = add(root, rng.choice(["converter", "linreg", "pswitch", "rloss"]))
    if a is None:
        return
    for _ in range(rng.randint(1, 3)):
        add(a, rng.choice(list(H.LOADS)))
    s2 = names.pop()
    if apply({"op": "add_source", "comp": comp("source", s2), "group": "", "rail": ""})["outcome"] != "ok":
        return
    if apply({"op": "del_comp", "name": a, "del_childs": True})["outcome"] != "ok":
        return
    # the freed (low) indices go to a branch under the LATER source
    b = add(s2, rng.choice(["converter", "linreg", "pswitch", "rloss"]))
    if b is None:
        return
    b2 = add(b, rng.choice(["converter", "pswitch", "rloss"])) if rng.random() < 0.5 else None
    tip = b2 or b
    ins = [tip, root] if rng.random() < 0.7 else [root, tip]
    m = names.pop()
    if apply({"op": "add_comp", "parent": ins, "comp": comp("pmux", m), "group": "", "rail": ""})["outcome"] != "ok":
        return
    add(m, rng.choice(list(H.LOADS)))
    if rng.random() < 0.4:
        add(tip, rng.choice(list(H.LOADS)))
