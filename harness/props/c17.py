"""C17 — analyses are read-only; batt_life restores the battery even on failure."""
import copy, json, os, tempfile

from .. import gen, sysdesc, hist as H
from . import c14, c16, c18

CLAIM = True
LEVEL_TEXT = ("Theorems (Lean 4): (a) in the model of a session of edit and analysis calls, where - as in system.py - an analysis "
              "may write only the relationship / phase-lookup caches and rebuilds them before reading them, an analysis leaves "
              "graph and registries literally unchanged, its output does not depend on the caches it finds, repeating it gives "
              "the same output, and dropping an analysis from ANY interleaving with edits changes neither the state reached nor "
              "any later output (`interleaving_invisible`); (b) batt_life restores the Source's vo / rs for every callback "
              "script (incl. an exception at the probe or at the k-th deplete call, every k) and every solver behaviour "
              "(`batt_restores`, over Model/Batt). That the real analyses write nothing but those caches, and leave the objects "
              "passed to them alone, is checked by correspondence: around every call of solve / rail_rep / params / limits / "
              "phases / tree / save / plot_interp / make_diag / make_hdiag in random interleavings, all public reports and deep "
              "copies of all argument objects are compared before / after; an interleaving stream replays the same accepted calls on two fresh systems "
              "with no observation in between - once with analyses interleaved, once without - followed by a delete / re-add that re-uses a node index, and "
              "demands equal reports (`interleaving_invisible` on the implementation); the set of attributes the analysis methods can assign is re-derived "
              "from the source of system.py on every run (harness/writeset.py) and must equal the caches the model allows; batt_life is run with callbacks raising at every call.")
LEVEL_NOTE = ("(a) is a statement about the cache discipline (by construction of the model; the write-set it assumes is re-derived from the AST of "
              "system.py on every run, in-place mutation through aliases is left to the dynamic snapshots); its tie to the code is the before/after and interleaving tests; (b) is proved at full "
              "strength about the batt_life model of C18")
MODULE = "SysLoss.Props.C17"
THEOREMS = [
    "SysLoss.C17.analysis_preserves_sys", "SysLoss.C17.analysis_output_fresh", "SysLoss.C17.session_cache_independent",
    "SysLoss.C17.interleaving_invisible", "SysLoss.C17.solve_idempotent", "SysLoss.C17.read_only_nonvacuous",
] + list(c18.C17_THEOREMS)          # clause 3: proved in Props/C17Batt (imported by Props/C17) over the C18 model
RULE = ("random power trees (gen.gen_system: 1-3 sources, <= 16 nodes, all kinds, tables, limits, groups, rails, 0 or 2-4 phases) "
        "and edited systems (C16 histories) x random sequences of 3-10 analysis calls with random arguments; before the "
        "sequence and after every call: solve / rail_rep / params(limits) / limits / phases / tree / save compared with the "
        "first snapshot, argument objects deep-compared; batt_life: well-behaved, raising probe, raising k-th deplete call for "
        "every k, raising solver; non-trivial = sequence of >= 4 calls on a system of >= 3 components incl. >= 2 solver-based "
        "calls; distinct by system + call sequence")
ASSUMPTIONS = ["'unchanged' compares every public report (and the exception class if one raises) produced before and after, in "
               "the same process, cell by cell; hidden state that never influences a report is out of reach",
               "matplotlib / Graphviz render to throw-away files (Agg backend, dot -Tjson)"]
EXPLANATION = ("theorems: SysLoss.Props.C17 (cache discipline, interleaving) and SysLoss.Props.C17Batt (battery restored); "
               "oracle: public reports and argument objects before vs after every analysis call; battery row of params() "
               "before vs after batt_life for every failure position")
TRUSTED = ["Graphviz dot -Tjson and matplotlib Agg as throw-away renderers"]

_TMP = tempfile.mkdtemp(prefix="verif-c17-")
SNAP = ("solve", "rail_rep", "params", "limits", "phases", "tree", "save")


def _plain(x):
    if isinstance(x, dict):
        return [[str(k), _plain(v)] for k, v in sorted(x.items(), key=lambda kv: str(kv[0]))]
    if isinstance(x, (list, tuple)):
        return [_plain(v) for v in x]
    return x


def snapshot(sys_):
    rep = c16.reports(sys_, diag=False)
    return {k: json.dumps(_plain(rep[k]), default=str) for k in SNAP}


def snapshot_solver_first(sys_):
    """the same reports, but solve() and rail_rep() are taken BEFORE any configuration report has run on this object: if the
    two snapshot orders disagree on two identically built systems, some report changes what a later one returns"""
    pre = {}
    for name, f, keys in (("solve", sys_.solve, ["Component", "Phase"]), ("rail_rep", sys_.rail_rep, ["Rail", "Component", "Phase"])):
        df, e, _ = H.quiet(f)
        pre[name] = ("exc", H.exc_name(e)) if e is not None else ("ok", c16.df_rows(df, keys))
    rep = c16.reports(sys_, diag=False)
    rep.update(pre)
    return {k: json.dumps(_plain(rep[k]), default=str) for k in SNAP}


def gen_call(rng, names, phases, tabled):
    """one analysis call: (label, function(sys) -> result, argument objects)"""
    k = rng.choice(["solve", "solve", "rail_rep", "params", "limits", "phases", "tree", "save", "plot_interp",
                    "make_diag", "make_hdiag"])
    if k in ("solve", "rail_rep"):
        kw = {}
        if rng.random() < 0.4:
            kw["energy"] = True
        if rng.random() < 0.3:
            kw["tags"] = {"Tag1": rng.choice(["a", "b"]), "run": rng.randint(1, 9)}
        if rng.random() < 0.3:
            kw["ta"] = float(rng.choice([0, 25, 60]))
        if phases and rng.random() < 0.3:
            kw["phase"] = rng.choice(phases)
        if rng.random() < 0.2:
            kw["vtol"], kw["itol"] = 1e-9, 1e-9
        return k, (lambda s, kw=kw: getattr(s, k)(**kw)), kw
    if k == "params":
        kw = {"limits": rng.random() < 0.5}
        return k, (lambda s, kw=kw: s.params(**kw)), kw
    if k in ("limits", "phases"):
        return k, (lambda s: getattr(s, k)()), {}
    if k == "tree":
        kw = {"name": rng.choice(names)} if rng.random() < 0.4 else {}
        return k, (lambda s, kw=kw: s.tree(**kw)), kw
    if k == "save":
        kw = {"indent": rng.choice([1, 4])}
        return k, (lambda s, kw=kw: s.save(os.path.join(_TMP, "x.json"), **kw)), kw
    if k == "plot_interp":
        kw = {"name": rng.choice(tabled or names), "plot3d": rng.random() < 0.3, "inpdata": rng.random() < 0.5}

        def f(s, kw=kw):
            import matplotlib.pyplot as plt
            fig = s.plot_interp(kw["name"], plot3d=kw["plot3d"], inpdata=kw["inpdata"])
            plt.close("all")
            return fig
        return k, f, kw
    from sysloss.diagram import make_diag, make_hdiag, get_conf
    cfg = {}
    if rng.random() < 0.6:
        cfg = get_conf()
        if rng.random() < 0.6:
            cfg["node"]["Source"] = {"fillcolor": "#ccffcc"}
            cfg["node"]["default"]["shape"] = rng.choice(["box", "ellipse"])
    kw = {"config": cfg, "group": rng.random() < 0.7}
    if k == "make_diag":
        return k, (lambda s, kw=kw: make_diag(s, fname=os.path.join(_TMP, "d.json"), **kw)), kw
    return k, (lambda s, kw=kw: make_hdiag(s, fname=os.path.join(_TMP, "h.json"), **kw)), kw


def analyse_session(ctx, sys_, case, names, phases, tabled, stream):
    """random interleaving of analyses on one system; returns True if something failed"""
    rng = ctx.rng
    base = snapshot(sys_)
    twin = case.get("_twin")
    if twin is not None:
        other = snapshot_solver_first(twin())
        diff = [k for k in SNAP if other[k] != base[k]]
        ctx.stats["%s:twin_order_compared" % stream] += 1
        if diff:
            ctx.oracle({k: v for k, v in case.items() if k != "_twin"}, "state_unchanged", "report order", {},
                       {"stream": stream, "reports_that_differ": diff,
                        "a_is": "params, limits, phases, tree, save, then solve, rail_rep", "b_is": "solve, rail_rep first, on an identically built system",
                        "first": {diff[0]: [base[diff[0]][:300], other[diff[0]][:300]]}})
            return True
    calls = []
    n = rng.randint(3, 10)
    first_solve = {}
    bad = False
    for j in range(n):
        label, f, args = gen_call(rng, names, phases, tabled)
        before_args = copy.deepcopy(args)
        res, e, _ = H.quiet(f, sys_)
        calls.append([label, {k: (v if not isinstance(v, dict) or len(json.dumps(v, default=str)) < 200 else "<config>")
                              for k, v in before_args.items()}, H.exc_name(e)])
        ctx.stats["%s:call:%s:%s" % (stream, label, "ok" if e is None else H.exc_name(e))] += 1
        if args != before_args:
            ctx.oracle(dict({k_: v_ for k_, v_ in case.items() if k_ != "_twin"}, calls=calls), "args_unchanged", label, {},
                       {"stream": stream, "before": json.dumps(before_args, default=str)[:300],
                        "after": json.dumps(args, default=str)[:300]})
            bad = True
        if label == "solve" and e is None:
            key = json.dumps(before_args, sort_keys=True)
            cur = json.dumps(_plain(c16.df_rows(res, ["Component", "Phase"])), default=str)
            if key in first_solve and first_solve[key] != cur:
                ctx.oracle(dict({k_: v_ for k_, v_ in case.items() if k_ != "_twin"}, calls=calls), "solve_repeatable", label, {}, {"stream": stream, "args": before_args})
                bad = True
            first_solve.setdefault(key, cur)
        now = snapshot(sys_)
        changed = [k for k in SNAP if now[k] != base[k]]
        if changed:
            ctx.oracle(dict({k_: v_ for k_, v_ in case.items() if k_ != "_twin"}, calls=calls), "state_unchanged", label, {},
                       {"stream": stream, "reports_that_changed": changed,
                        "first": {changed[0]: [base[changed[0]][:300], now[changed[0]][:300]]}})
            bad = True
            break
    solverish = sum(1 for c in calls if c[0] in ("solve", "rail_rep", "make_hdiag"))
    ctx.case(key=[case.get("key"), calls], nontrivial=(len(calls) >= 4 and solverish >= 2 and len(names) >= 3),
             sample={"system": case.get("short"), "calls": calls[:10]})
    ctx.traces += 1
    return bad


def desc_case(ctx):
    rng = ctx.rng
    desc = gen.gen_system(rng, max_nodes=16, p_table=0.35, phases=0.45, p_rail=0.3, p_group=0.3, p_limits=0.3, p_rt=0.2)
    sys_, e = sysdesc.quiet_call(sysdesc.build, desc)
    if e is not None:
        ctx.stats["skipped:build"] += 1
        return None
    names = [c["name"] for c in desc["comps"]]
    tabled = [c["name"] for c in desc["comps"] if any(isinstance(v, dict) and k != "limits" for k, v in c["args"].items())]
    case = {"desc": desc, "key": json.dumps(desc, sort_keys=True, default=str),
            "short": [(c["kind"], c["name"], c["parents"]) for c in desc["comps"]],
            "_twin": (lambda d=desc: sysdesc.quiet_call(sysdesc.build, copy.deepcopy(d))[0])}
    return sys_, case, names, list((desc.get("phases") or {}).keys()), tabled


def hist_case(ctx):
    run = c16.gen_history(ctx, "edited")
    if run.init_outcome != "ok" or any(s["wf"] for s in run.steps):
        return None
    st = run.cur()
    names = [c[0] for c in st["comps"]]
    tabled = [c[0] for c in st["comps"] if run.by_tag.get(c[2], {}).get("table")]
    h = run.history()
    case = {"history": h, "key": c14._hist_key(h), "short": H.short(h)[:12], "_twin": (lambda hh=h: c16.replay16(hh).sys)}
    return run.sys, case, names, [k for k, _ in (st["phases"] or [])], tabled


def interleave_case(ctx, hist=None, marks=None, tail=None):
    """`interleaving_invisible` on the implementation: the same accepted calls are replayed on two fresh systems WITHOUT any
    observation in between - on A with analyses (solve / params / phases / rail_rep / save / tree) interleaved at some points,
    on B with none - followed by a tail that deletes a leaf and re-adds it below another parent (rustworkx re-uses the freed
    node index).  Every report of A must equal the report of B: an analysis leaves nothing behind that a later one picks up."""
    from sysloss.system import System
    rng = ctx.rng
    if hist is None:
        run = c16.gen_history(ctx, "interleave")
        if run.init_outcome != "ok" or any(s["wf"] for s in run.steps):
            return None
        ops = [s["op"] for s in run.steps if s["outcome"] == "ok"]
        hist = {"init": run.init, "ops": ops}
        fs = c16.final_structure(run)
        if fs is not None:
            kids = {}
            for n_, c_ in fs["comps"].items():
                for q in c_["parents"]:
                    kids.setdefault(q, []).append(n_)
            leaves = sorted(n_ for n_, c_ in fs["comps"].items() if not kids.get(n_) and len(c_["parents"]) == 1
                            and c_["desc"]["kind"] not in ("source", "pmux"))
            rng.shuffle(leaves)
            for x in leaves:
                others = sorted(q for q, c_ in fs["comps"].items() if q != x and q != fs["comps"][x]["parents"][0]
                                and c_["desc"]["kind"] not in H.LOADS)
                if others:
                    free = [n_ for n_ in H.NAMES if n_ not in fs["comps"] and n_ not in fs["rails"].values()]
                    newname = x if (rng.random() < 0.5 or not free) else rng.choice(free)
                    tail = [{"op": "del_comp", "name": x, "del_childs": True},
                            {"op": "add_comp", "parent": rng.choice(others), "comp": dict(fs["comps"][x]["desc"], name=newname),
                             "group": "", "rail": ""}]
                    break
        marks = sorted(set([k for k in range(len(ops)) if rng.random() < 0.35] + [len(ops) - 1]))
    ops = hist["ops"] + (tail or [])
    kinds = ["solve", "params", "phases", "rail_rep", "save", "tree", "limits"]

    def build(with_analyses):
        s, e, _ = H.quiet(lambda: System(hist["init"]["name"], H.mk(hist["init"]["comp"]), group=hist["init"]["group"], rail=hist["init"]["rail"]))
        if e is not None:
            return None
        for k, op in enumerate(ops):
            H.call(s, op)
            if with_analyses and k in marks:
                what = kinds[(k * 7 + len(ops)) % len(kinds)]
                if what == "save":
                    H.quiet(s.save, os.path.join(_TMP, "i.json"))
                elif what == "params":
                    H.quiet(s.params, limits=True)
                else:
                    H.quiet(getattr(s, what))
        return s
    a, b = build(True), build(False)
    if a is None or b is None:
        return None
    ra, rb = c16.reports(a), c16.reports(b)
    ctx.stats["interleave:cases"] += 1
    ctx.stats["interleave:with_tail"] += 1 if tail else 0
    case = {"history": hist, "marks": marks, "tail": tail, "short": H.short(hist)[-8:]}
    bad = False
    for name in ra:
        d = c16.diff_report(name, ra[name], rb[name])
        if d is not None:
            ctx.oracle(case, "interleaving_invisible", name, {},
                       dict(d, a_is="calls with analyses interleaved after calls %s" % marks, b_is="the same calls, no analysis in between"))
            bad = True
            break
    ctx.case(key=["interleave", c14._hist_key(hist), marks], nontrivial=len(ops) >= 4 and len(marks) >= 1,
             sample={"calls": H.short(hist)[-6:], "analyses_after": marks, "tail": [t["op"] for t in (tail or [])]})
    return bad


def switched_supply_desc(rng):
    """two supplies of different voltage, the preferred one present in some phases only, a PMux, and behind it a stage whose parameter
    is tabulated over input voltage AND output current, loaded by a constant current outside (or inside) the tabulated current range:
    the same stage sees the same current at two input voltages, depending on the phase"""
    v1, v2 = gen.sd(rng, 9.0, 14.0), gen.sd(rng, 3.3, 5.5)
    names = rng.sample(["docked", "mobile", "tx", "idle"], rng.randint(2, 4))
    on = rng.sample(names, rng.randint(1, len(names) - 1))
    comps = [{"name": "S1", "kind": "source", "args": {"vo": v1}, "parents": [], "pconf": on},
             {"name": "S2", "kind": "source", "args": {"vo": v2}, "parents": []},
             {"name": "MX", "kind": "pmux", "args": {"rs": gen.sd(rng, 1e-3, 0.05)}, "parents": ["S1", "S2"]}]
    vi = sorted({float("%.3g" % x) for x in (0.8 * v2, v2, 0.5 * (v1 + v2), v1, 1.2 * v1)})
    io = [0.1, 0.3, 0.6, 1.0]
    kind = rng.choice(["converter", "converter", "linreg", "pswitch", "vloss"])
    if kind == "converter":
        tab = {"vi": vi, "io": io, "eff": [[gen.ud(rng, 0.55, 0.95, 3) for _ in io] for _ in vi]}
        comps.append({"name": "X", "kind": "converter", "args": {"vo": 1.8, "eff": tab}, "parents": ["MX"]})
    elif kind == "linreg":
        tab = {"vi": vi, "io": io, "ig": [[gen.ud(rng, 1e-4, 5e-3, 3) for _ in io] for _ in vi]}
        comps.append({"name": "X", "kind": "linreg", "args": {"vo": 1.8, "ig": tab}, "parents": ["MX"]})
    elif kind == "pswitch":
        tab = {"vi": vi, "io": io, "ig": [[gen.ud(rng, 1e-4, 5e-3, 3) for _ in io] for _ in vi]}
        comps.append({"name": "X", "kind": "pswitch", "args": {"rs": 0.01, "ig": tab}, "parents": ["MX"]})
    else:
        tab = {"vi": vi, "io": io, "vdrop": [[gen.ud(rng, 0.05, 0.6, 3) for _ in io] for _ in vi]}
        comps.append({"name": "X", "kind": "vloss", "args": {"vdrop": tab}, "parents": ["MX"]})
    ii = rng.choice([0.01, 0.03, 0.2, 0.45, 1.6, 3.0])          # below / inside / above the tabulated currents
    comps.append({"name": "L", "kind": "iload", "args": {"ii": ii}, "parents": ["X"]})
    return {"name": "sys", "comps": comps, "phases": {p: gen.sd(rng, 1.0, 1e4) for p in names}, "_build": {"phase_order": "normal"}}


def phase_order_case(ctx, case=None):
    """"interleaving any of these calls changes no later result", for the solver itself: on ONE system the phases are solved one by
    one in a shuffled order (optionally after an all-phase solve / a rail report); each single-phase table must be exactly the table a
    FRESH, identically built system gives for that phase alone.  Systems with tabulated parameters and loads far below / above the
    tabulated currents (micro regime, heavy loads), supplies that differ from phase to phase (phase-switched sources, a PMux)."""
    rng = ctx.rng
    if case is None and rng.random() < 0.4:
        case = {"desc": switched_supply_desc(rng), "warmup": rng.choice(["none", "none", "solve", "rail_rep"])}
        case["phase_order"] = list(case["desc"]["phases"])
        rng.shuffle(case["phase_order"])
    if case is None:
        desc = gen.gen_system(rng, max_nodes=10, p_table=0.9, phases=1.0, p_mux=0.6, n_sources=rng.choice([1, 2, 2, 3]),
                              p_micro=0.5, p_neg_src_rs=0.0, p_detour=0.0, p_bridge=0.0, p_moved=0.0, p_rename=0.0, heavy=rng.random() < 0.2)
        phs = list(desc["phases"])
        rng.shuffle(phs)
        case = {"desc": desc, "phase_order": phs, "warmup": rng.choice(["none", "none", "solve", "rail_rep"])}
    desc, phs = case["desc"], case["phase_order"]
    sys_, e = sysdesc.quiet_call(sysdesc.build, copy.deepcopy(desc))
    if e is not None:
        ctx.stats["phase_order:skipped:build"] += 1
        return None
    ctx.stats["phase_order:cases"] += 1
    if case["warmup"] == "solve":
        H.quiet(sys_.solve)
    elif case["warmup"] == "rail_rep":
        H.quiet(sys_.rail_rep)
    seen = 0
    for ph in phs:
        a, ea, _ = H.quiet(lambda: sys_.solve(phase=ph))
        fresh, e = sysdesc.quiet_call(sysdesc.build, copy.deepcopy(desc))
        if e is not None:
            return None
        b, eb, _ = H.quiet(lambda: fresh.solve(phase=ph))
        ra = ("exc", H.exc_name(ea)) if ea is not None else ("ok", json.dumps(_plain(c16.df_rows(a, ["Component", "Phase"])), default=str))
        rb = ("exc", H.exc_name(eb)) if eb is not None else ("ok", json.dumps(_plain(c16.df_rows(b, ["Component", "Phase"])), default=str))
        seen += ra[0] == "ok"
        if ra != rb:
            d = None
            if ra[0] == rb[0] == "ok":
                d = c16.diff_report("solve", ("ok", c16.df_rows(a, ["Component", "Phase"])), ("ok", c16.df_rows(b, ["Component", "Phase"])))
            if ra[0] != rb[0] or d is not None or ra[1] != rb[1]:
                ctx.oracle(dict(case, stream="phase_order"), "solve_repeatable", "solve", {"phase_order": True},
                           {"phase": ph, "solved_after": phs[:phs.index(ph)], "warmup": case["warmup"],
                            "difference": d if d is not None else {"a": ra[1][:200], "b": rb[1][:200]},
                            "a_is": "solve(phase=%r) on a system that has solved other phases before" % ph,
                            "b_is": "the same call on a fresh, identically built system"})
                return True
    ctx.case(key=["phase_order", json.dumps(desc, sort_keys=True, default=str), phs], nontrivial=seen >= 2,
             sample={"stream": "phase_order", "phases": phs, "warmup": case["warmup"],
                     "system": [(c["kind"], c["name"], c["parents"]) for c in desc["comps"]]})
    ctx.traces += 1
    return False


def battery_part(ctx, n):
    """clause 3 on the implementation: the battery's params() row before vs after batt_life, for every failure position"""
    done = 0
    for _ in range(n * 3):
        if done >= n:
            break
        desc = gen.gen_system(ctx.rng, max_nodes=10, phases=0.5, p_rail=0.2)
        recs = c18.batt_restore_sweep(ctx, desc, max_k=6)
        if not recs:
            continue
        done += 1
        for r in recs:
            ctx.stats["battery:fresh(probe = declared vo, rs)"] += 1 if r.get("fresh_battery") else 0
            ctx.stats["battery:%s:%s" % ("k=%s" % (r["k"] if not isinstance(r["k"], int) else "deplete"), r["outcome"])] += 1
            ctx.case(key=["batt", json.dumps(desc, sort_keys=True, default=str), str(r["k"]), bool(r.get("fresh_battery"))],
                     nontrivial=r["k"] is not None and r["outcome"] != "ok",
                     sample={"battery": r["battery"], "raise_at": r["k"], "outcome": r["outcome"], "restored": r["restored"]})
            if not r["restored"]:
                ctx.oracle({"desc": desc, "battery": r["battery"], "batt": r["batt"], "cutoff": r["cutoff"], "raise_at": r["k"]},
                           "batt_restores", "batt_life", {"raise_at_probe": r["k"] == "probe", "solver_raises": r["k"] == "solver"},
                           {"before": r["before"], "after": r["after"], "outcome": r["outcome"], "origin": r["origin"]})


def run(ctx):
    from .. import writeset
    writeset.compare(ctx)        # what the analysis methods can write, re-derived from the source on every run (the model's assumption)
    n = ctx.n(120, 2000)
    for k in range(n):
        got = desc_case(ctx) if k % 3 else hist_case(ctx)
        if got is None:
            ctx.case(nontrivial=False)
            continue
        analyse_session(ctx, *got, stream="gen" if k % 3 else "edited")
    for _ in range(ctx.n(40, 1000)):
        interleave_case(ctx)
    for _ in range(ctx.n(60, 1000)):
        phase_order_case(ctx)
    battery_part(ctx, ctx.n(5, 60))


def search(ctx):
    for k in range(ctx.n(40, 300)):
        got = desc_case(ctx)
        if got is not None:
            analyse_session(ctx, *got, stream="search")


def replay(ctx, data):
    case = data["case"]
    if case.get("stream") == "phase_order":
        phase_order_case(ctx, case={k: case[k] for k in ("desc", "phase_order", "warmup")})
        return
    if "marks" in case:
        interleave_case(ctx, hist=case["history"], marks=case["marks"], tail=case.get("tail"))
        return
    if "history" in case:
        r = c16.replay16(case["history"])
        st = r.cur()
        sys_, names = r.sys, [c[0] for c in st["comps"]]
        phases, tabled = [k for k, _ in (st["phases"] or [])], []
    elif "batt" in case:
        r = c18.batt_restore_probe(ctx, case["desc"], case.get("raise_at"), case["battery"], case["batt"], case["cutoff"])
        if r is not None and not r["restored"]:
            ctx.oracle(case, "batt_restores", "batt_life", {}, {"before": r["before"], "after": r["after"]})
        return
    else:
        sys_, e = sysdesc.quiet_call(sysdesc.build, case["desc"])
        names = [c["name"] for c in case["desc"]["comps"]]
        phases, tabled = list((case["desc"].get("phases") or {}).keys()), []
    if "history" in case:
        case["_twin"] = (lambda hh=case["history"]: c16.replay16(hh).sys)
    elif "desc" in case:
        case["_twin"] = (lambda d=case["desc"]: sysdesc.quiet_call(sysdesc.build, copy.deepcopy(d))[0])
    base = snapshot(sys_)
    for label, args, _ in case.get("calls", []):
        pass
    analyse_session(ctx, sys_, case, names, phases, tabled, "replay")
