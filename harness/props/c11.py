"""C11 — constructors reject unphysical parameters and normalise signs."""
import copy, math

from .. import ctorgen, probe, solved, sysdesc, wire
from .. import hist as H

CLAIM = True
LEVEL_TEXT = ("Theorems (Lean 4, any linearly ordered field) about the constructor model mkComp: every rejection cause of the property "
              "returns a ValueError-class error (constant / tabulated efficiency out of (0,1], regulator dropout >= |vo|, zero load "
              "resistance, table without vi/io/value key, io axis not strictly increasing, shape mismatch, negative tabulated ground "
              "current, malformed limits for all 11 kinds, non-numeric rs lists); every accepted component is physical (Spec/Phys); "
              "negating any magnitude-type numeric argument (the scalar rs of PMux / Rectifier included) leaves the constructed component "
              "unchanged. 'accepted => physical' is proved at full strength (all kinds, 1-D / 2-D tables in any row order, no side "
              "condition) for the code as repaired by /repo 2b347cd, b1d6b51, b59f1ff, 7008460 (former findings F08, F12, F11, "
              "F28-C11-IQKEY, kept as regression cases). PARTIAL by nature: sign insensitivity of the ground current ig holds up to the "
              "displayed _params entry (stored as given; ig_display_differs shows plain equality is false). "
              "The model is tied to the constructors on every run (accept / reject + exception class, stored _params, "
              "limits, and the solved probe Source -> component -> ILoad certified against the model's laws).")
LEVEL_NOTE = ("consequence clause: proved for whole systems (Props/C11System) - every system whose components all come out of the constructor model, in an exact "
              "steady state of a well-formed tree, shows Power, Loss >= 0 in every row (`built_rows_nonneg`, no exclusion), no passive element (series loss, switch, "
              "mux, rectifier) inverting or amplifying its input (`built_passive_no_amplify`, no exclusion), Loss <= Power and efficiency within [0,100] per row and in the "
              "System total (`built_rows_physical_partial`, `built_total_eff_le_100_partial`; partial only through the recorded findings F01 / F35, each refuted on a "
              "witness built through the constructors); on the implementation the clause is checked on light-load probe systems")
MODULE = "SysLoss.Props.C11"
THEOREMS = ["SysLoss.C11." + t for t in (
    "reject_eff_const", "reject_linreg_dropout", "reject_rload_zero", "reject_rs_list_pmux", "reject_rs_list_rectifier",
    "reject_rs_scalar_rectifier", "table_missing_key", "table_io_not_increasing", "table_shape_mismatch",
    "table_ig_negative", "table_eff_range", "reject_table_vloss", "reject_table_converter", "reject_table_pswitch",
    "reject_table_pmux", "reject_table_linreg", "reject_table_linreg_iq", "reject_table_rectifier_vdrop",
    "reject_table_rectifier_ig", "reject_limits_source", "reject_limits_pload", "reject_limits_iload",
    "reject_limits_rload", "reject_limits_rloss", "reject_limits_vloss", "reject_limits_converter",
    "reject_limits_linreg", "reject_limits_pswitch", "reject_limits_pmux", "reject_limits_rectifier_diode",
    "reject_limits_rectifier_mosfet", "reject_table_linreg_iq_nokey", "accepted_normalised", "sign_insensitive",
    "sign_insensitive_ig_partial", "ig_display_differs",
    # Props/C11System: the consequence clause, starting from constructor calls
    "BuiltFrom.phys", "BuiltFrom.compsOK", "pl_eff_spec", "getEff_range", "built_rows_nonneg", "built_rows_physical_partial",
    "built_rows_physical_full_fails", "built_rows_loss_le_power_partial", "built_rows_loss_le_power_full_fails",
    "built_passive_no_amplify", "built_total_eff_le_100_partial", "built_total_loss_le_power_partial")]
MODULES = ["SysLoss.Props.C11", "SysLoss.Props.C11System"]
RULE = ("type-directed constructor calls for all 11 kinds: 70% valid (random sign on every magnitude-type argument, int/float/bool "
        "forms, scalar / list / 1-D / 2-D table forms, optional limits), 30% malformed: one rejection cause of the property injected "
        "(two thirds) or one type confusion (string / None / list / number where another type is expected, degenerate table shapes); "
        "non-trivial = the call carries a negative magnitude, a table, a list or a fault; distinct by (kind, arguments)")
ASSUMPTIONS = ["type confusions on arguments the constructors never inspect (non-numeric vo of Source / Converter, limits given as None / "
               "list / str) are outside the stream: the model's Comp record stores vo as a number",
               "arguments a mode ignores are not subject to the rejection table (Rectifier: rs / ig / iq with a non-zero vdrop, vdrop "
               "= 0 selects the MOSFET mode; LinReg: ig when the deprecated iq is given)",
               "the displayed value of a constant ground current ig and of the entries of a PMux rs list is the raw argument "
               "(self._params['ig'] = ig); the property's 'treated as magnitudes' is checked on their effect (probe solve), not on the display",
               "probe loads are light (series drops <= 20% of |Vin|): overload behaviour is C03's business"]
EXPLANATION = ("correspondence: driver command `ctor` (mkComp at Rat) vs the real constructor: accepted/rejected and exception class; "
               "for accepted components the stored _params seen through save() / params(), the applicable limits seen through save(), and "
               "the probe system solved by the implementation certified by the model (table assembly + one more sweep); oracle: the "
               "property's rejection table as a Python predicate over raw arguments -> ValueError; stored magnitudes >= 0; probe Loss >= 0, "
               "Efficiency <= 100, passive |Vout| <= |Vin|; same probe table for a call and for the call with all magnitudes made positive")

DEFAULT_LIM = {"vi": [0.0, 1e6], "vo": [0.0, 1e6], "vd": [0.0, 1e6], "ii": [0.0, 1e6], "io": [0.0, 1e6], "pi": [0.0, 1e6],
               "po": [0.0, 1e6], "pl": [0.0, 1e6], "tr": [0.0, 1e6], "tp": [-1e6, 1e6]}


def same_value(a, b):
    """stored parameter: model PV (decoded) vs JSON value from save()"""
    if isinstance(a, dict) and isinstance(b, dict):
        return list(a.keys()) == list(b.keys()) and all(same_value(a[k], b[k]) for k in a)
    if isinstance(a, list) and isinstance(b, list):
        return len(a) == len(b) and all(same_value(x, y) for x, y in zip(a, b))
    if isinstance(a, bool) or isinstance(b, bool):
        return isinstance(a, bool) and isinstance(b, bool) and a == b
    if isinstance(a, (int, float)) and isinstance(b, (int, float)):
        return a == b
    return a == b and type(a) is type(b)


def nontrivial(kind, a, tag):
    if tag != "valid":
        return True
    return bool(ctorgen.neg_facts(kind, a)) or any(isinstance(v, (dict, list)) for v in a.values())


def probe_table(kind, a, v, i):
    desc, names = probe.probe_desc([{"v": v, "i": i, "kind": kind, "args": a}])
    rows, obs, sys_, df, err = probe.solve_probe(desc)
    return desc, names[0], rows, obs, err


def physical(kind, row):
    """the consequence clause on one solved row -> list of failed sub-checks"""
    bad = []
    sc = max(abs(row["vin"] * row["iin"]), abs(row["vout"] * row["iout"]), 1e-9)
    if not all(math.isfinite(row[k]) for k in ("vin", "vout", "iin", "iout", "pwr", "loss", "eff")):
        return ["finite"]
    if row["loss"] < -1e-9 * sc - 1e-12:
        bad.append("loss_nonneg")
    if row["eff"] > 100.0 + 1e-7:
        bad.append("eff_le_100")
    if kind in probe.PASSIVE and abs(row["vout"]) > abs(row["vin"]) * (1 + 1e-9) + 1e-12:
        bad.append("passive_vout_le_vin")
    return bad


def stored_negative(params):
    return [k for k in ctorgen.STORED_MAG if isinstance(params.get(k), (int, float)) and not isinstance(params.get(k), bool)
            and params[k] < 0]


def rows_differ(ra, rb):
    for col in ("vin", "vout", "iin", "iout", "pwr", "loss", "eff"):
        u, w = ra[col], rb[col]
        if abs(u - w) > 1e-9 * max(abs(u), abs(w), 1e-6):
            return col
    return None


def accepted_checks(ctx, kind, a, case):
    """oracle on an accepted component: stored magnitudes, probe consequences, sign insensitivity"""
    v, i = ctorgen.probe_point(ctx.rng, kind, a)
    desc, name, rows, obs, err = probe_table(kind, a, v, i)
    case = dict(case, probe={"v": v, "i": i})
    facts = ctorgen.neg_facts(kind, a)
    if err is not None:
        cls = probe.exc_name(err[1])
        ctx.stats["probe:%s:%s" % (err[0], cls)] += 1
        if kind == "rectifier" and isinstance(a.get("rs"), list) and not ctorgen.rect_diode(a) and cls == "TypeError":
            ctx.stats["observation:F13 rectifier rs list accepted, solve() raises TypeError"] += 1
        elif not (cls == "ValueError" and "Unstable" in str(err[1])) and cls != "RuntimeError":
            ctx.notes.append("probe of an accepted %s raises %s: %r" % (kind, cls, a)) if len(ctx.notes) < 10 else None
        return
    ctx.stats["probe:ok"] += 1
    row = rows[name]
    # correspondence of the effective (normalised) parameters: the implementation's solved table is certified by the model
    model = solved.cert(ctx.drv, desc, obs)
    if not model.get("ok"):
        ctx.corr(case, "probe: the model refuses a system the implementation solved", model)
    else:
        ctx.traces += 1
        for m in solved.compare_tables(obs, model, cols=["vin", "vout", "iin", "iout", "pwr", "loss", "eff"], textcols=["typ"]):
            ctx.corr(case, "probe table-assembly: %s" % m["col"], m)
        solved.sweep_residuals(ctx, desc, obs, model, 1e-12, 1e-12, relprefix="probe ")
    # oracle
    failed = physical(kind, row)
    absa = ctorgen.abs_args(kind, a)
    if absa != a:
        _d, n2, rows2, _o, err2 = probe_table(kind, absa, v, i)
        ctx.stats["sign_pairs"] += 1
        if err2 is not None:
            failed.append("sign_insensitive(abs variant raises %s)" % probe.exc_name(err2[1]))
        else:
            col = rows_differ(row, rows2[n2])
            if col is not None:
                failed.append("sign_insensitive(%s: %r vs %r)" % (col, row[col], rows2[n2][col]))
    if failed:
        trig = dict(facts)
        if "rs_scalar_negative" in facts and kind in ("pmux", "rectifier"):
            # does the failure vanish when only the sign of rs is normalised?
            b = copy.deepcopy(a)
            b["rs"] = abs(b["rs"])
            _d, n3, rows3, _o, err3 = probe_table(kind, b, v, i)
            clean = err3 is None and not physical(kind, rows3[n3])
            if clean and ctorgen.abs_args(kind, b) != b:
                _d, n4, rows4, _o, err4 = probe_table(kind, ctorgen.abs_args(kind, b), v, i)
                clean = err4 is None and rows_differ(rows3[n3], rows4[n4]) is None
            trig["clean_with_abs_rs"] = bool(clean)
        ctx.oracle(case, "accepted_physical", kind, trig,
                   {"failed": failed, "row": {k: row[k] for k in ("vin", "vout", "iin", "iout", "pwr", "loss", "eff")},
                    "args": a, "probe": {"v": v, "i": i}})


def one_call(ctx, kind, a, tag, want_probe=True):
    case = {"kind": kind, "args": a, "tag": tag}
    try:
        w = sysdesc.args_wire(kind, a)
    except (TypeError, ValueError):
        ctx.stats["unencodable"] += 1
        return
    ctx.case(key=[kind, repr(a)], nontrivial=nontrivial(kind, a, tag),
             sample={"kind": kind, "args": repr(a)[:200], "stream": tag})
    ctx.stats["kind:" + kind] += 1
    ctx.stats["stream:" + (tag if tag in ("valid",) or tag in ctorgen.CAUSES else "confusion:" + tag.split(":")[0])] += 1
    for k, v in a.items():
        if isinstance(v, dict) and k != "limits":
            ctx.stats["form:table%s" % ("1D" if isinstance(v.get("vi"), list) and len(v["vi"]) == 1 else "2D")] += 1
        elif isinstance(v, list):
            ctx.stats["form:list"] += 1
    if ctorgen.neg_facts(kind, a):
        ctx.stats["has_negative_magnitude"] += 1
    m = ctx.drv.ask({"cmd": "ctor", "carrier": "rat", "kind": kind, "name": "X", "args": w})
    if "bad-op" in m:
        raise RuntimeError("driver: %r" % (m,))
    exc, params, limits, prow = probe.stored(kind, "X", a)
    pc = probe.exc_name(exc)
    mc = "ok" if m.get("ok") else m["error"]["cls"]
    ctx.stats["outcome:" + pc] += 1
    # ---- correspondence
    if pc != mc:
        ctx.corr(case, "constructor outcome: accepted / exception class", {"impl": pc, "impl_msg": str(exc)[:120], "model": mc,
                                                                         "model_detail": m.get("error")})
    elif pc == "ok":
        mp = wire.unpv(m["params"])
        if not same_value(mp, params):
            ctx.corr(case, "stored _params (save())", {"impl": params, "model": mp})
        mlim = {k: [float(wire.unnum(lo)), float(wire.unnum(hi))] for k, (lo, hi) in m["limits"]}
        for k, val in limits.items():
            want = mlim.get(k, DEFAULT_LIM[k])
            if [float(val[0]), float(val[1])] != want:
                ctx.corr(case, "applicable limits (save())", {"key": k, "impl": val, "model": want})
        if prow is not None:
            for col, key in (("vo (V)", "vo"), ("vdrop (V)", "vdrop"), ("rs (Ohm)", "rs"), ("rt (°C/W)", "rt"), ("eff (%)", "eff"),
                             ("ig (A)", "ig"), ("iq (A)", "iq"), ("ii (A)", "ii"), ("iis (A)", "iis"), ("pwr (W)", "pwr"),
                             ("pwrs (W)", "pwrs"), ("loss", "loss")):
                want = mp.get(key, "")
                if isinstance(want, dict):
                    want = "interp"
                got = prow[col]
                if hasattr(got, "item"):
                    got = got.item()
                if isinstance(want, list) or isinstance(got, list):
                    ok = list(got) == list(want) if isinstance(got, (list, tuple)) and isinstance(want, list) else False
                else:
                    ok = (got == want) or (got is None and want is None)
                if not ok:
                    ctx.corr(case, "params() row", {"col": col, "impl": repr(got), "model": repr(want)})
    # ---- oracle
    want = ctorgen.must_reject(kind, a)
    for c in want:
        ctx.stats["cause:" + c] += 1
    if want and pc != "ValueError":
        trig = {"cause": want[0], "raises": pc}
        if kind == "linreg" and isinstance(a.get("iq"), dict):
            trig["via_deprecated_iq"] = True
        ctx.oracle(case, "reject_with_ValueError", kind, trig, {"causes": want, "outcome": pc, "message": str(exc)[:120], "args": a})
    if tag in ctorgen.CAUSES and tag not in want:
        ctx.notes.append("generator: injected %s not recognised by the rejection predicate: %r" % (tag, a)) if len(ctx.notes) < 10 else None
    if pc == "ok":
        neg = stored_negative(params)
        if neg:
            trig = dict(ctorgen.neg_facts(kind, a))
            if neg == ["rs"] and kind in ("pmux", "rectifier"):
                trig["clean_with_abs_rs"] = True
            ctx.oracle(case, "accepted_physical", kind, trig, {"failed": ["stored_magnitude<0: %s" % neg], "params": params, "args": a})
        if want_probe and tag == "valid":
            accepted_checks(ctx, kind, a, case)


TABLE_KINDS = ["converter", "vloss", "linreg", "pswitch", "pmux", "rectifier"]


def alias_case(ctx, kind, a, arg, z, form, mut, pt=None):
    """The accepted component is what the constructor validated - not whatever the caller's buffers hold later.
    A 1-D table is given as float64 numpy arrays (`form`: which of io / value row / vi are arrays; the value row may be a VIEW of a
    2-D array), the component is built and accepted, then the caller reuses the arrays in place (`mut`: scale the values up, flip
    their sign, overwrite them) - e.g. to derive the table of the next part.  The component, solved afterwards in a probe system,
    must still be physical (the property's consequence clause) and, for the correspondence, behave as the component built from
    the same numbers as plain lists.  The constructor leaving its arguments as they were is recorded too (correspondence only)."""
    import numpy as np
    from sysloss.system import System
    from sysloss.components import Source, ILoad
    t = a[arg]
    case = {"kind": kind, "args": a, "tag": "alias", "alias": {"arg": arg, "z": z, "form": form, "mut": mut}}
    ctx.case(key=["alias", kind, repr(a), form, mut], nontrivial=True, sample={"kind": kind, "stream": "alias", "form": form, "mut": mut})
    ctx.stats["stream:alias"] += 1
    ctx.stats["alias:form:" + form] += 1
    ctx.stats["alias:mut:" + mut] += 1
    v, i = pt or ctorgen.probe_point(ctx.rng, kind, a)
    case["probe"] = {"v": v, "i": i}
    base = np.array(t[z], dtype=float)                  # 2-D (1 x n): the row handed over is a view of it
    io = np.array(t["io"], dtype=float)
    vi = np.array(t["vi"], dtype=float)
    na = copy.deepcopy(a)
    na[arg] = {"vi": vi if "v" in form else list(t["vi"]), "io": io if "i" in form else list(t["io"]),
               z: (base if "Z" in form else [base[0]] if "z" in form else copy.deepcopy(t[z]))}
    snap = (base.copy(), io.copy(), vi.copy())
    try:
        comp = sysdesc.KIND_CLASS[kind]("X0", **na)
    except Exception as e:      # noqa
        ctx.stats["alias:ctor:" + probe.exc_name(e)] += 1   # numpy arrays are not a documented table form: nothing is demanded
        return
    ctx.stats["alias:ctor:ok"] += 1
    if not (np.array_equal(base, snap[0]) and np.array_equal(io, snap[1]) and np.array_equal(vi, snap[2])):
        ctx.corr(case, "constructor: the caller's table arrays are left as they were", {"before": [s.tolist() for s in snap],
                                                                                    "after": [base.tolist(), io.tolist(), vi.tolist()]})
    # the caller reuses the buffers
    if mut == "scale":
        base *= 2.5
    elif mut == "negate":
        base *= -3.0
    elif mut == "fill":
        base[:] = 1.3 if z == "eff" else -4.0 * float(np.max(np.abs(snap[0])))
    elif mut == "axis":
        io *= 0.01
    # reference: same numbers as lists
    desc, name, rows, obs, err = probe_table(kind, a, v, i)
    if err is not None:
        ctx.stats["alias:probe:" + probe.exc_name(err[1])] += 1
        return

    def go():
        s = System("probe", Source("S0", vo=v))
        par = "S0"
        if kind == "pmux":
            par = ["S0"]
        s.add_comp(par, comp=comp)
        s.add_comp("X0", comp=ILoad("L0", ii=i))
        return s.solve(**probe.SOLVE_KW)
    df, e, _ = H.quiet(go)
    if e is not None:
        ctx.oracle(case, "accepted_physical", kind, {"alias": True}, {"failed": ["snapshot(probe of the accepted component raises %s after the caller "
                   "reused its arrays; the list-built twin solves)" % probe.exc_name(e)], "args": a, "alias": case["alias"]})
        return
    ctx.stats["alias:probe:ok"] += 1
    row = {r["name"]: r for r in sysdesc.observe(df)["phases"][0]["rows"]}["X0"]
    failed = physical(kind, row)
    col = rows_differ(rows[name], row)
    if failed:
        ctx.oracle(case, "accepted_physical", kind, {"alias": True},
                   {"failed": failed + ["snapshot(%s)" % col], "row": {k: row[k] for k in ("vin", "vout", "iin", "iout", "pwr", "loss", "eff")},
                    "twin_row": {k: rows[name][k] for k in ("vin", "vout", "iin", "iout", "pwr", "loss", "eff")}, "args": a,
                    "alias": case["alias"], "probe": {"v": v, "i": i}})
    elif col is not None:
        ctx.corr(case, "accepted component = the validated table (caller's arrays reused afterwards)",
                 {"col": col, "impl": row[col], "model(list-built twin, certified)": rows[name][col]})


def alias_stream(ctx, n):
    for _ in range(n):
        kind = ctx.rng.choice(TABLE_KINDS)
        a = ctorgen.gen_valid(ctx.rng, kind)
        arg, z = ctorgen.ensure_table(ctx.rng, kind, a)
        t = a[arg]
        for _k in range(8):
            if isinstance(t.get("vi"), list) and len(t["vi"]) == 1:
                break
            t = a[arg] = ctorgen.small_table(ctx.rng, z, *{"eff": (0.3, 1.0), "vdrop": (0.05, 1.0)}.get(z, (1e-5, 1e-2)))
        if not (isinstance(t.get("vi"), list) and len(t["vi"]) == 1) or ctorgen.must_reject(kind, a):
            ctx.stats["alias:skipped"] += 1
            continue
        form = ctx.rng.choice(["iz", "iZ", "viZ", "z", "Z", "i", "viz"])
        mut = ctx.rng.choice(["scale", "negate", "fill", "axis"])
        alias_case(ctx, kind, a, arg, z, form, mut)


# regression cases of the former findings F08, F12, F28-C11-IQKEY, F11 (all fixed in /repo) and the F13 observation;
# corpus/C11/*.json holds the same cases as files
WITNESSES = [("pmux", {"rs": -1.0}, "valid"), ("rectifier", {"rs": -1.0}, "valid"), ("rectifier", {"rs": [0.1, 0.2]}, "valid"),
             ("linreg", {"vo": 3.3, "iq": {"vi": [5.0], "io": [0.0, 0.1], "ig": [[1e-3, 2e-3]]}}, "valid"),
             ("linreg", {"vo": 3.3, "iq": {"vi": [5.0], "io": [0.0, 0.1]}}, "table_missing_key"),
             ("vloss", {"vdrop": {"vi": [5.0], "io": [-2.0, -1.0], "vdrop": [[0.1, 0.2]]}}, "io_not_increasing")]


def corpus_cases():
    import glob, json, os
    out = []
    for f in sorted(glob.glob(os.path.join(wire.VERIF, "corpus", "C11", "*.json"))):
        c = json.load(open(f))["case"]
        out.append((c["kind"], c["args"], c.get("tag", "valid")))
    return out


def run(ctx):
    n = ctx.n(4000, 60000)
    nprobe = ctx.n(1200, 20000)
    for kind, a, tag in WITNESSES + corpus_cases():
        one_call(ctx, kind, copy.deepcopy(a), tag)
    alias_stream(ctx, ctx.n(150, 2000))
    done = 0
    for k in range(n):
        kind = ctx.rng.choice(ctorgen.KINDS)
        r = ctx.rng.random()
        if r < 0.7:
            a, tag = ctorgen.gen_valid(ctx.rng, kind), "valid"
        elif r < 0.9:                  # every rejection cause equally often, then a kind it applies to
            cause = ctx.rng.choice(sorted(ctorgen.CAUSES))
            kind = ctx.rng.choice(ctorgen.CAUSES[cause])
            a, tag = ctorgen.gen_malformed(ctx.rng, kind, cause)
        else:
            a, tag = ctorgen.gen_confused(ctx.rng, kind)
        want_probe = done < nprobe
        one_call(ctx, kind, a, tag, want_probe=want_probe)
        done += 1 if (tag == "valid" and want_probe) else 0


def search(ctx):
    for k in range(ctx.n(1500, 20000)):
        kind = ctx.rng.choice(ctorgen.KINDS)
        a, tag = (ctorgen.gen_valid(ctx.rng, kind), "valid") if ctx.rng.random() < 0.5 else ctorgen.gen_malformed(ctx.rng, kind)
        one_call(ctx, kind, a, tag)


def replay(ctx, data):
    case = data["case"]
    if case.get("tag") == "alias":
        al = case["alias"]
        return alias_case(ctx, case["kind"], case["args"], al["arg"], al["z"], al["form"], al["mut"], pt=(case["probe"]["v"], case["probe"]["i"]))
    one_call(ctx, case["kind"], case["args"], case.get("tag", "valid"))
