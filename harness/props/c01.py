"""C01 — the solved table obeys every component's documented electrical law."""
from .. import gen, solved, sysdesc, wire

CLAIM = True
LEVEL_TEXT = ("Theorems (Lean 4, any linearly ordered field): on a live supply the voltage law and the current law the solver applies "
              "to each kind equal the documented transfer laws (mux instance in Props/C05); the table row of a component shows Vin = its "
              "parent's Vout, Iout = the sum of the currents its children draw, and feeds the laws exactly the (Vin, Iout) of the row, so "
              "a row's deviation from the law is the sweep residual; pass-through kinds mirror the input polarity, regulated kinds "
              "follow the sign of vo, currents do not depend on the polarity. The model is tied to the code on every run: for hundreds "
              "of random trees the table cells Vin/Vout/Iin/Iout/Parent are re-assembled by the model from the implementation's own "
              "(v,i) and must agree to 1e-9, one more model sweep must reproduce (v,i) within the solver's exit test, and the "
              "documented laws are evaluated exactly on every returned row (the failing-input search). End to end (Props/C01Conv): for whatever solvePhase returns, every single-supply row, every Source row and the PMux row deviates from its documented voltage law by at most atol + vtol*|law| and from its current law by at most atol + itol*|law| (`solve_row_voltage_law`, `solve_row_current_law`, `solve_source_row_*`, `solve_mux_row_laws`; the current law is evaluated at the once-more-swept supply voltage, which is within vtol of the row's Vin - stated, not hidden), and exactly in an exact steady state (`steady_row_exact`). Partial: negative Source "
              "with series resistance (finding F01) is excluded by hypothesis and reported as KNOWN-FINDING.")
LEVEL_NOTE = "Law level, row level and the end-to-end tolerance statement are theorems about the model; that the model is the code is differential testing (certificate correspondence + oracle on generated systems)."
LEVEL_NOTE = LEVEL_NOTE + (' Every solved-table check first demands one row per component and phase (`one_row_per_component`); finding F39 (a component named like a summary row had its cells overwritten; fixed e319b02) came from the table correspondence on unusual names.')
MODULE = "SysLoss.Props.C01"
MODULES = ["SysLoss.Props.C01", "SysLoss.Props.C01Conv"]
THEOREMS = ["SysLoss.C01." + t for t in (
    "volt_refines_spec_partial", "curr_refines_spec", "row_linkage", "row_root", "sweep_args_are_row",
    "mirror_passthrough", "regulated_ignores_input_sign",
    # Props/C01Conv: end to end - what solve() returns obeys the documented laws within the exit tolerance
    "converged_iff", "solvePhase_sizes", "solvePhase_exit", "ioOf_indep", "sweep_cell_is_law",
    "solve_row_voltage_law", "solve_row_current_law", "solve_row_current_law_rowIout_partial", "steady_row_exact",
    "solve_source_row_voltage_law_partial", "solve_source_row_current_law", "solve_source_row_voltage_law_full_fails",
    "mux_volt_eq", "mux_row_cells", "solve_mux_row_laws")]
RULE = ("random power trees (1-3 sources, <=24 nodes, all 11 kinds, 25% tabulated parameters, both polarities, "
        "<=1 PMux) built and solved through the public API with vtol=itol=1e-10 or the defaults; non-trivial = "
        "solved successfully and has >= 3 components; distinct by canonical description")
ASSUMPTIONS = ["IEEE rounding is outside the theorems: implementation cells are compared with exact model values "
               "under 1e-9 relative tolerance; law residuals under the solver's own exit tolerance (x4)"]
EXPLANATION = ("theorems: the sweep laws refine the documented laws on live supplies (SysLoss.Props.C01); "
               "correspondence: table cells Vin/Vout/Iin/Iout/Parent assembled by the model from the implementation's "
               "(v,i) and one more model sweep on them; oracle: documented laws (Spec/Laws.lean) evaluated exactly "
               "on every row the implementation returned")


def gen_fn(rng):
    return gen.gen_system(rng, phases=0.15, p_rail=0.15, p_neg_src_rs=0.05, p_group=rng.choice([0.0, 0.0, 0.3]), p_rename=0.1, p_oddnames=0.15)


def _gen_with_scripts(rng):
    if rng.random() < 0.06:
        return gen.zero_vs_omitted(rng)
    return gen_fn(rng)


def solve_kw(rng):
    if rng.random() < 0.8:
        return {"vtol": 1e-10, "itol": 1e-10}
    return {}


def tol(x, rtol, lip=0.0):
    return 4 * (solved.ATOL + rtol * abs(x)) + lip + 1e-12


def oracle(ctx, desc, obs, model, kw):
    """the property's clauses on the implementation's own table"""
    vtol, itol = kw.get("vtol", 1e-6), kw.get("itol", 1e-6)
    comps = {c["name"]: c for c in desc["comps"]}
    owner = {c["rail"]: c["name"] for c in desc["comps"] if c.get("rail")}
    idx = {c["name"]: i for i, c in enumerate(desc["comps"])}
    for p, sw in zip(obs["phases"], model["sweeps"]):
        rows = {r["name"]: r for r in p["rows"]}
        spec = {s["id"]: s for s in sw["spec"]}
        kids = {}
        for r in p["rows"]:
            c = comps[r["name"]]
            pars = [owner.get(q, q) for q in c["parents"]]
            # clause 1: Vin = Vout of the feeding component (mux: first live declared input)
            if pars:
                live = [q for q in pars if rows[q]["vout"] != 0.0]
                feeder = live[0] if (c["kind"] == "pmux" and live) else pars[0]
                if c["kind"] == "pmux" and not live:
                    feeder = None
                if feeder is not None:
                    kids.setdefault(feeder, []).append(r["name"])
                    if not solved.close(r["vin"], rows[feeder]["vout"]):
                        ctx.oracle(desc, "vin_is_parent_vout", c["kind"], {}, {"phase": p["phase"], "row": r["name"],
                                   "vin": r["vin"], "feeder": feeder, "feeder_vout": rows[feeder]["vout"]})
            # clause 3: documented transfer law
            s = spec[idx[r["name"]]]
            svo, sii = float(wire.unnum(s["vo"])), float(wire.unnum(s["ii"]))
            trig = {}
            if c["kind"] == "source":
                trig = {"vo_neg": c["args"]["vo"] < 0, "rs_pos": abs(c["args"].get("rs", 0.0)) > 0}
            if abs(r["vout"] - svo) > tol(svo, vtol):
                ctx.oracle(desc, "law_vo", c["kind"], trig, {"phase": p["phase"], "row": r["name"], "vin": r["vin"],
                           "iout": r["iout"], "vout": r["vout"], "documented_vout": svo})
            lip = abs(sii) / max(abs(r["vin"]), 1e-3) * tol(r["vin"], vtol) if r["vin"] != 0 else 0.0
            if abs(r["iin"] - sii) > tol(sii, itol, 2 * lip):
                ctx.oracle(desc, "law_ii", c["kind"], trig, {"phase": p["phase"], "row": r["name"], "vin": r["vin"],
                           "iout": r["iout"], "iin": r["iin"], "documented_iin": sii})
        # clause 2: Iout = sum of the input currents of the children fed from this component
        for r in p["rows"]:
            want = sum(rows[k]["iin"] for k in kids.get(r["name"], []))
            if abs(r["iout"] - want) > tol(want, itol) * (1 + len(kids.get(r["name"], []))):
                ctx.oracle(desc, "iout_is_children_sum", comps[r["name"]]["kind"], {},
                           {"phase": p["phase"], "row": r["name"], "iout": r["iout"], "children_iin_sum": want,
                            "children": kids.get(r["name"], [])})


def per_case(ctx, desc, obs, model, sys_, df, kw):
    ctx.case(key=solved.desc_key(desc), nontrivial=len(desc["comps"]) >= 3,
             sample={"components": [(c["kind"], c["name"], c["parents"]) for c in desc["comps"]],
                     "rows": len(obs["phases"][0]["rows"])})
    for m in solved.compare_tables(obs, model, cols=["vin", "vout", "iin", "iout"], textcols=["parent", "railIn", "railOut", "group", "typ"]):
        ctx.corr(desc, "table-assembly: %s" % m["col"], m)
    sm = solved.shape_mismatch(desc, obs, model, kw)
    if sm is not None:
        ctx.corr(desc, "table-shape: columns shown", sm)
    solved.sweep_residuals(ctx, desc, obs, model, kw.get("vtol", 1e-6), kw.get("itol", 1e-6))
    oracle(ctx, desc, obs, model, kw)


def run(ctx):
    solved.run_witnesses(ctx, per_case)
    solved.run_cases(ctx, ctx.n(250, 6000), _gen_with_scripts, per_case, solve_kw)


def search(ctx):
    solved.run_cases(ctx, ctx.n(600, 4000), lambda r: gen.gen_system(r, phases=0.3, p_rail=0.3, p_table=0.4), per_case, solve_kw)


def replay(ctx, data):
    desc = data["case"]
    kw = {"vtol": 1e-10, "itol": 1e-10}
    sys_, df, err = solved.solve_case(desc, kw)
    if err is not None:
        ctx.notes.append("replay: %s %r" % err)
        return
    obs = sysdesc.observe(df)
    if not solved.rows_ok(ctx, desc, obs):
        return
    model = solved.cert(ctx.drv, desc, obs)
    per_case(ctx, desc, obs, model, sys_, df, kw)
