"""C03 — solve() returns only converged, finite, physical steady states, else raises."""
import io, re, contextlib, math
from .. import gen, oracles, solved, sysdesc, wire

CLAIM = True
MODULE = "SysLoss.Props.C03"
MODULES = ["SysLoss.Props.C03", "SysLoss.Props.C03Live", "SysLoss.Props.C03Contract", "SysLoss.Props.C03Const"]
THEOREMS = ["SysLoss.C03." + t for t in (
    "loop_spec", "solve_terminates", "solvePhase_sound", "solvePhase_error", "passive_ok_physical",
    "source_ok_physical_partial", "source_ok_physical_full_fails", "exact_fixed_point_returns",
    # Props/C03Live: the first liveness class (voltage laws that do not read the load current, single-supply trees)
    "loop_returns_if_eventually_fixed", "loop_returns_of_iterate_fixed", "volt_io_indep", "volt_step_settle", "volt_frozen",
    "voltages_settle_partial", "curr_step_settle", "currents_settle_partial", "eventually_fixed_partial",
    "finite_settling_partial", "law_margin", "noraise_of_margin", "finite_settling_margin_partial",
    # Props/C03Contract: second liveness class - a Source with series resistance feeding loads directly (contraction)
    "loop_returns_if_eventually_converged", "star_step", "star_recurrence_general", "star_recurrence", "linear_cert",
    "linear_factor_lt_one", "star_converges_explicit_partial", "star_converges_partial", "star_converges_cert_partial",
    "star_converges_cert_arch_partial",
    # Props/C03Const: third liveness class - current laws that do not read the voltage (ILoads, constant ground currents), arbitrary series resistances
    "constant_current_settling_partial", "constant_current_settling_height_partial", "const_eventually_fixed_partial",
    "const_eventually_fixed_height_partial", "inv_all", "inv_of_iterate", "const_noraise", "all_live", "curr_settle", "volt_settle",
    "constKind_of_cert", "constant_current_settling_full_fails")]
LEVEL_TEXT = ("Theorems (Lean 4) about the model of the sweep loop: it performs at most maxiter+1 sweeps (structural recursion); "
              "whatever it returns is a triple on which the exit test fired (never an intermediate iterate); the only other outcomes are "
              "RuntimeError and an exception raised by a voltage law; and a voltage law that returns for a passive series element "
              "(RLoss, VLoss, PSwitch, Rectifier, Source with vo >= 0) neither inverts nor amplifies its input, over any ordered field. "
              "Tied to the code on every run by replaying the loop in IEEE doubles (outcome class and sweep count must agree with "
              "solve(quiet=False)) and by one more exact model sweep on every returned table; the oracle checks finiteness, polarity, "
              "exception class and default-settings convergence on modest-drop trees. Liveness, first class proved (Props/C03Live): on single-supply trees whose voltage laws do not read the load current (rs = 0, constant drops; converters and regulators arbitrary) the sweep map reaches an EXACT fixed point after at most 2*depth+2 sweeps, so solve() returns (never RuntimeError) whenever maxiter >= 2*depth+3 (`finite_settling_partial`, with the no-raise premise derived from a checkable margin certificate in `finite_settling_margin_partial`); generic lemma `loop_returns_if_eventually_fixed` for any system. Second class (Props/C03Contract), current-dependent drops: a positive Source with series resistance feeding ILoads / RLoads (and PLoads under a stated certificate) directly, with rs*(J + G*vo) < vo (modest drop): the sweep is an affine contraction with factor rs*G < 1, every iterate stays in [vo - rs*(J+G*vo), vo] (so the polarity guard never fires) and solve() returns within K+3 sweeps for any K with (rs*G)^K*vo <= min(vtol,itol)*(vo - rs*(J+G*vo)) (`star_converges_explicit_partial`); over an Archimedean field such a K exists for every vtol, itol > 0 (`star_converges_partial`). Third class (Props/C03Const), series resistances arbitrary but currents independent of the voltages (ILoads, LinReg / PSwitch / Rectifier with constant ground current, series losses; no Converter, PLoad, RLoad, PMux): under a checkable certificate (lower voltage bounds lo, upper current bounds im per node) no guard ever fires, liveness spreads one level per sweep, then the currents settle from the leaves up and the voltages from the roots down, iterate 2*depth+height+2 is an exact fixed point and solve() returns for maxiter >= 3*depth+3 (`constant_current_settling_partial`; without the certificate the class statement is refuted: `constant_current_settling_full_fails`). Not proved: the general liveness clause "
              "(existence of a modest-drop steady state implies convergence) - tested on every generated modest-drop system only; "
              "finiteness (IEEE overflow) is outside an ordered-field theorem. Partial: negative Source with resistance amplifies (F01).")
LEVEL_NOTE = "The PMux instance of the polarity theorem is in Props/C05; liveness for current-dependent drops (the statement C03_liveness_full in Props/C03Live.lean, a def, not asserted) is evidence by test only, labelled as such."
RULE = ("three streams: modest-drop trees (must converge with default settings), overloaded trees (constant-power / "
        "constant-current loads behind series resistance sized 0.5-20x the critical value at a source, switch, mux input, "
        "MOSFET bridge or series loss), and solver settings vtol,itol in 10^[-12,-2], maxiter in {0,1,2,5,50,10000}; "
        "non-trivial = a case that reached solve(); distinct by description + settings")
ASSUMPTIONS = ["IEEE overflow to inf is invisible to an ordered-field theorem; watched by the isfinite oracle only",
               "Float replay of the sweep loop mirrors the Python operation order; compared by outcome class and sweep count"]


def settings(rng):
    r = rng.random()
    if r < 0.5:
        return {}
    kw = {"vtol": 10 ** rng.uniform(-12, -2), "itol": 10 ** rng.uniform(-12, -2)}
    if rng.random() < 0.5:
        kw["maxiter"] = rng.choice([0, 1, 2, 5, 50, 10000])
    return kw


def overloaded(rng):
    """a small tree with a constant-power / constant-current load behind a series resistance near / beyond critical"""
    v = gen.sd(rng, 1.0, 24)
    if rng.random() < 0.25:
        v = -v
    place = rng.choice(["source", "pswitch", "pmux", "mosfet", "rloss", "vloss", "diode", "vloss_tab", "diode_tab"])
    k = rng.choice([0.3, 0.6, 0.9, 1.1, 2.0, 5.0, 20.0])
    ld = rng.choice(["pload", "iload"])
    comps = [{"name": "S", "kind": "source", "args": {"vo": v}, "parents": []}]
    par = "S"
    if ld == "iload":
        ii = gen.sd(rng, 0.01, 2)
        rcrit = abs(v) / ii
        load = {"name": "L", "kind": "iload", "args": {"ii": ii}}
    else:
        p = gen.sd(rng, 0.01, 10)
        rcrit = v * v / (4 * p)
        load = {"name": "L", "kind": "pload", "args": {"pwr": p}}
    r = float("%.4g" % (k * rcrit))
    if place == "source":
        if v < 0 and rng.random() < 0.8:
            comps[0]["args"]["vo"] = v = abs(v)
        comps[0]["args"]["rs"] = r
    elif place == "pswitch":
        comps.append({"name": "E", "kind": "pswitch", "args": {"rs": r}, "parents": ["S"]}); par = "E"
    elif place == "pmux":
        comps.append({"name": "S2", "kind": "source", "args": {"vo": v * 0.9}, "parents": []})
        comps.append({"name": "E", "kind": "pmux", "args": {"rs": [r, r]}, "parents": ["S", "S2"]}); par = "E"
    elif place == "mosfet":
        comps.append({"name": "E", "kind": "rectifier", "args": {"rs": r / 2}, "parents": ["S"]}); par = "E"
    elif place == "rloss":
        comps.append({"name": "E", "kind": "rloss", "args": {"rs": r}, "parents": ["S"]}); par = "E"
    elif place == "vloss":
        comps.append({"name": "E", "kind": "vloss", "args": {"vdrop": float("%.4g" % (k * abs(v) * 0.5))}, "parents": ["S"]}); par = "E"
    elif place in ("vloss_tab", "diode_tab"):
        # a tabulated drop written with the RAIL'S SIGN (tables are looked up by magnitude: a passive element never amplifies)
        d0 = k * abs(v) * (0.5 if place == "vloss_tab" else 0.25)
        sg = -1.0 if rng.random() < 0.7 else 1.0
        io_ax = [0.0, float("%.3g" % (0.5 * max(abs(load["args"].get("ii", 0.1)), 1e-3))), float("%.3g" % (4 * max(abs(load["args"].get("ii", 0.1)), 1e-3)))]
        vi_ax = [float("%.3g" % (0.4 * abs(v))), float("%.3g" % (0.9 * abs(v))), float("%.3g" % (1.5 * abs(v)))]
        if rng.random() < 0.5:
            vi_ax = [-x for x in vi_ax]
        tab = {"vi": vi_ax, "io": io_ax, "vdrop": [[float("%.4g" % (sg * d0 * f * g)) for g in (0.8, 1.0, 1.3)] for f in (0.9, 1.0, 1.1)]}
        comps.append({"name": "E", "kind": "vloss" if place == "vloss_tab" else "rectifier", "args": {"vdrop": tab}, "parents": ["S"]}); par = "E"
    else:
        comps.append({"name": "E", "kind": "rectifier", "args": {"vdrop": float("%.4g" % (k * abs(v) * 0.25))}, "parents": ["S"]}); par = "E"
    load["parents"] = [par]
    comps.append(load)
    if rng.random() < 0.4:
        comps.append({"name": "L2", "kind": "rload", "args": {"rs": gen.sd(rng, 10, 1e4)}, "parents": [par]})
    return {"name": "ovl", "comps": comps, "phases": {}, "_place": place, "_k": k}


def stepdown(rng):
    """modest-drop trees with a large step-down ratio: a series element (source resistance / RLoss / PSwitch) upstream of a
    buck converter that feeds a high-current, low-voltage load.  The TRUE drop is 2-12 % of the supply, but the element's
    resistance times the LOAD-side current exceeds the supply: an initial guess or a sweep that mixes the two sides of the
    converter trips the polarity guards although a modest-drop steady state exists."""
    v = gen.sd(rng, 9.0, 60.0)
    vo = gen.sd(rng, 0.6, 3.3)
    eff = gen.ud(rng, 0.7, 0.97)
    iload = gen.sd(rng, 2.0, 60.0)
    iin = vo * iload / (eff * v)
    frac = rng.uniform(0.02, 0.12)
    r = float("%.4g" % (frac * v / iin))
    place = rng.choice(["source", "rloss", "pswitch"])
    comps = [{"name": "S", "kind": "source", "args": {"vo": v}, "parents": []}]
    par = "S"
    if place == "source":
        comps[0]["args"]["rs"] = r
    else:
        comps.append({"name": "E", "kind": place, "args": {"rs": r}, "parents": ["S"]})
        par = "E"
    comps.append({"name": "B", "kind": "converter", "args": {"vo": vo, "eff": eff}, "parents": [par]})
    last = "B"
    if rng.random() < 0.3:
        comps.append({"name": "B2", "kind": "linreg", "args": {"vo": float("%.3g" % (vo * 0.7))}, "parents": ["B"]})
        last = "B2"
    if rng.random() < 0.7:
        comps.append({"name": "L", "kind": "iload", "args": {"ii": iload}, "parents": [last]})
    else:
        comps.append({"name": "L", "kind": "rload", "args": {"rs": float("%.4g" % (vo / iload))}, "parents": [last]})
    return {"name": "stepdown", "comps": comps, "phases": {}, "_place": place}


SERIES = ("rloss", "vloss", "pswitch", "pmux", "rectifier")


def modest_state(ctx, desc, lam=0.3, steps=600):
    """a steady state of the system in which every series element (and every source resistance) drops at most 25 % of its
    input, found by damped iteration; None if the iteration raises, does not settle, or settles on larger drops"""
    req = {"cmd": "relax", "carrier": "float", "sys": sysdesc.to_wire(desc, None), "ta": wire.num(25.0), "phase": "",
           "lambda": wire.num(lam), "steps": steps}
    m = ctx.drv.ask(req)
    if not m.get("ok"):
        return None
    v, F = [float(wire.unnum(x)) for x in m["v"]], [float(wire.unnum(x)) for x in m["F"]]
    i, G = [float(wire.unnum(x)) for x in m["i"]], [float(wire.unnum(x)) for x in m["G"]]
    if any(abs(a - b) > 1e-9 + 1e-7 * abs(b) for a, b in zip(v, F)) or any(abs(a - b) > 1e-9 + 1e-7 * abs(b) for a, b in zip(i, G)):
        return None
    kinds = {c["name"]: c for c in desc["comps"]}
    rows = m["phases"][0]["rows"]
    out = []
    for r in rows:
        c = kinds.get(r["name"])
        if c is None:
            continue
        vin, vout = float(wire.unnum(r["vin"])), float(wire.unnum(r["vout"]))
        if c["kind"] in SERIES or (c["kind"] == "source" and abs(c["args"].get("rs", 0.0)) > 0):
            if vin != 0.0 and abs(vout) < 0.75 * abs(vin):
                return None
            out.append([r["name"], round(vin, 6), round(vout, 6)])
    return {"series_rows_vin_vout": out[:8]}


def solve_observed(desc, kw):
    """solve(quiet=False): returns (df, exc, sweeps per phase from the printed messages)"""
    sys_, e = sysdesc.quiet_call(sysdesc.build, desc)
    if e is not None:
        return None, ("build", e), None
    buf = io.StringIO()
    import warnings
    with warnings.catch_warnings():
        warnings.simplefilter("ignore")
        with contextlib.redirect_stdout(buf):
            try:
                df, e = sys_.solve(quiet=False, **kw), None
            except Exception as ex:  # noqa
                df, e = None, ex
    its = [int(x) for x in re.findall(r"Tolerances met after (\d+) iterations", buf.getvalue())]
    return df, (("solve", e) if e is not None else None), its


def one(ctx, desc, kw, stream):
    df, err, its = solve_observed(desc, kw)
    key = solved.desc_key(desc) + [repr(sorted(kw.items()))]
    if err is not None and err[0] == "build":
        ctx.stats["build_failed"] += 1
        ctx.case(nontrivial=False)
        return
    cls = sysdesc.exc_class(err[1]) if err else "ok"
    ctx.stats["%s:%s" % (stream, cls)] += 1
    ctx.case(key=key, nontrivial=True, sample={"stream": stream, "settings": kw, "outcome": cls,
                                              "components": [(c["kind"], c["name"], c["parents"], {k: v for k, v in c["args"].items() if not isinstance(v, dict)}) for c in desc["comps"]]})
    place = desc.get("_place")
    # ---- oracle: outcome class
    if cls not in ("ok", "RuntimeError", "ValueError(unstable)"):
        ctx.oracle(desc, "exception_class", "solve", {"cls": cls, "empty_component_name": any(c["name"] == "" for c in desc["comps"])},
                   {"exception": repr(err[1]), "solve_kw": kw})
    if stream in ("modest", "stepdown") and cls != "ok" and not kw:
        # the clause is conditional: "whenever a steady state with modest drops EXISTS".  Existence is decided by an independent
        # route - damped iteration of the model's sweep map (driver `relax`) - and by looking at the drops of what it finds.
        found = modest_state(ctx, desc)
        if found is None:
            ctx.stats["%s:raised_and_no_modest_steady_state_found" % stream] += 1
        else:
            ctx.oracle(desc, "liveness_default_settings", "solve", {},
                       {"exception": repr(err[1]), "solve_kw": kw, "a_modest_steady_state_exists": found})
    # ---- replay of the sweep loop in IEEE doubles by the model
    vt, it, mi = kw.get("vtol", 1e-6), kw.get("itol", 1e-6), kw.get("maxiter", 10000)
    topo = None
    if df is not None:
        obs = sysdesc.observe(df)
        topo = [r["name"] for r in obs["phases"][0]["rows"]]
    if mi <= 200 or cls == "ok":
        req = {"cmd": "run", "carrier": "float", "sys": sysdesc.to_wire(desc, topo), "ta": wire.num(25.0), "phase": "",
               "cfg": {"atol": wire.num(1e-8), "vtol": wire.num(vt), "itol": wire.num(it), "maxiter": mi}}
        m = ctx.drv.ask(req)
        ctx.traces += 1
        mcls = "ok" if m.get("ok") else ("ctor" if "ctor_error" in m else
                                         ("ValueError(unstable)" if m["error"]["detail"].startswith("unstable") else m["error"]["cls"]))
        if mcls != cls:
            ctx.corr(desc, "replay: outcome class of solve()", {"impl": cls, "model": mcls, "solve_kw": kw})
        elif cls == "ok" and its and m["iters"] != its:
            # sweep counts may differ by rounding in rare borderline cases; a systematic shift is a loop change
            if any(abs(a - b) > 1 for a, b in zip(m["iters"], its)) or len(m["iters"]) != len(its):
                ctx.corr(desc, "replay: number of sweeps", {"impl": its, "model": m["iters"], "solve_kw": kw})
            else:
                ctx.stats["sweepcount_off_by_one"] += 1
    if df is None:
        return
    # ---- a table was returned: converged (model laws once more on it), finite, physical
    nonfinite = [(p["phase"], r["name"], c, repr(r[c])) for p in obs["phases"] for r in p["rows"]
                 for c in sysdesc.NUMCOLS if r.get(c) is not None and not math.isfinite(r[c])]
    if nonfinite:
        neg = any(c["kind"] == "source" and c["args"]["vo"] < 0 and abs(c["args"].get("rs", 0.0)) > 0 for c in desc["comps"])
        ctx.oracle(desc, "finite", "solve", {"neg_source_rs": neg}, {"cells": nonfinite[:6], "solve_kw": kw, "place": place})
        return
    model = solved.cert(ctx.drv, desc, obs)
    if not model.get("ok"):
        ctx.corr(desc, "constructor: the model rejects a component the implementation accepted", model)
        return
    solved.sweep_residuals(ctx, desc, obs, model, vt, it, relprefix="returned table is converged — ")
    if its and any(n > mi for n in its):
        ctx.oracle(desc, "within_maxiter", "solve", {}, {"sweeps": its, "maxiter": mi})
    oracles.o_c03_table(ctx, desc, obs, model, kw)
    # the spec-level version of "converged": documented laws reproduce the returned values (C01's oracle, with the caller's tolerance)
    from . import c01
    c01.oracle(ctx, desc, obs, model, kw)


def phase_maxiter(ctx):
    """several phases, a sweep budget that SOME phase exceeds and another does not: the call must raise RuntimeError, whichever
    position the slow phase has in the declaration order (no partly converged table)"""
    rng = ctx.rng
    desc = gen.gen_system(rng, phases=1.0, max_nodes=10, p_neg_src_rs=0.0, p_micro=0.0)
    odd = rng.random()
    if odd < 0.2:
        gen.odd_phase(rng, desc)         # the exception contract does not depend on what a phase is called
    if rng.random() < 0.5 and len(desc.get("phases") or {}) >= 2:
        items = list(desc["phases"].items())
        rng.shuffle(items)
        desc["phases"] = dict(items)
    df, err, its = solve_observed(desc, {})
    if err is not None or not its or len(its) < 2 or min(its) == max(its):
        ctx.stats["phase_maxiter:not_applicable"] += 1
        return
    m = rng.randint(min(its), max(its) - 1)
    if 0.2 <= odd < 0.5:
        # ... in particular not on what the phase that runs out of sweeps is called (format placeholders, per cent signs)
        slow = list(desc["phases"])[its.index(max(its))]
        gen.odd_phase(rng, desc, pool=["tx{burst}", "{}", "{0}", "a}", "{", "%s", "%(x)s", "100%"], which=slow)
    df2, err2, its2 = solve_observed(desc, {"maxiter": m})
    cls = sysdesc.exc_class(err2[1]) if err2 else "ok"
    ctx.stats["phase_maxiter:%s" % cls] += 1
    ctx.case(key=solved.desc_key(desc) + ["maxiter", m], nontrivial=True,
             sample={"stream": "phase_maxiter", "sweeps_per_phase": its, "maxiter": m, "outcome": cls})
    if cls != "RuntimeError":
        ctx.oracle(desc, "unconverged_phase_returned", "solve", {},
                   {"sweeps_needed_per_phase": its, "phases": list(desc["phases"]), "solve_kw": {"maxiter": m}, "outcome": cls})


def run(ctx):
    for _ in range(ctx.n(40, 600)):
        phase_maxiter(ctx)
    for desc_kw in witnesses():
        one(ctx, desc_kw[0], desc_kw[1], "witness")
    n = ctx.n(120, 5000)
    for _ in range(n):
        one(ctx, gen.gen_system(ctx.rng, phases=0.0, max_nodes=16, p_neg_src_rs=0.0), {}, "modest")
    for _ in range(n // 4):
        one(ctx, stepdown(ctx.rng), {}, "stepdown")
    for _ in range(n):
        one(ctx, overloaded(ctx.rng), settings(ctx.rng) if ctx.rng.random() < 0.3 else {}, "overloaded")
    for _ in range(n // 2):
        one(ctx, gen.gen_system(ctx.rng, phases=0.1, max_nodes=12, p_neg_src_rs=0.0), settings(ctx.rng), "settings")
    for _ in range(n // 3):
        one(ctx, gen.gen_system(ctx.rng, heavy=True, max_nodes=10, p_neg_src_rs=0.0), {}, "heavy")
    for _ in range(n // 3):
        one(ctx, signed_phase_currents(ctx.rng), {}, "signed_phase_currents")
    for _ in range(n // 3):
        one(ctx, signed_mux_rs(ctx.rng), {}, "signed_mux_rs")


def signed_mux_rs(rng):
    """a PMux whose on-resistance is given per input, with a sign on some entries (a resistance is a magnitude wherever it is written):
    the mux must not amplify, and an overloaded input must still be reported as unstable"""
    for _ in range(6):
        d = gen.gen_system(rng, phases=0.3, max_nodes=10, p_mux=3.0, n_sources=rng.choice([2, 2, 3]), p_neg_src_rs=0.0, p_micro=0.0,
                           heavy=rng.random() < 0.3)
        mux = [c for c in d["comps"] if c["kind"] == "pmux"]
        if mux:
            c = mux[0]
            n = len(c["parents"])
            base = c["args"].get("rs")
            vals = base if isinstance(base, list) and len(base) == n else [gen.sd(rng, 1e-3, 0.5) for _ in range(n)]
            c["args"]["rs"] = [(-abs(x) if rng.random() < 0.6 else abs(x)) for x in vals]
            return d
    return d


def signed_phase_currents(rng):
    """per-phase values of constant-current loads written with a sign (a sink on a negative rail, naturally): a current is a magnitude
    wherever it is configured - no passive element upstream may end up with more voltage at its output than at its input.
    (Only ILoad: negative per-phase POWER values are outside the quantifier, DESIGN.md F25.)"""
    d = gen.gen_system(rng, phases=1.0, max_nodes=10, p_neg_src_rs=0.0, p_micro=0.0)
    names = list(d["phases"])
    for c in d["comps"]:
        if c["kind"] == "iload":
            pc = c.get("pconf") if isinstance(c.get("pconf"), dict) else {}
            if not pc:
                pc = {p: gen.sd(rng, 1e-3, 0.3) for p in names if rng.random() < 0.7}
            c["pconf"] = {p: (-abs(v) if rng.random() < 0.6 else v) for p, v in pc.items()}
    d["_signed_phase_currents"] = True
    return d


def witnesses():
    from ..check import load_known
    out = []
    for k in load_known():
        if k["property"] == "C03" and k.get("status") == "open" and "witness_desc" in k:
            out.append((k["witness_desc"], k.get("witness_kw", {})))
    return out


def search(ctx):
    for _ in range(ctx.n(400, 3000)):
        one(ctx, overloaded(ctx.rng), {}, "overloaded")
        one(ctx, gen.gen_system(ctx.rng, phases=0.2, max_nodes=16), settings(ctx.rng), "settings")


def replay(ctx, data):
    one(ctx, data["case"], (data.get("detail") or {}).get("solve_kw") or {}, "replay")
