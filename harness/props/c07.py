"""C07 — subsystem, total, average and energy rows are exact aggregates."""
from .. import gen, oracles, tablecheck

CLAIM = True
MODULE = "SysLoss.Props.C07"
THEOREMS = ["SysLoss.C07." + t for t in (
    "energy_nophase", "energy_phase", "lookup_self_of_nodup", "energies_add_up", "total_eff_le_100", "subs_spec", "total_spec", "average_spec", "domain_step", "domain_table",
    # Props/C07Total: the assumptions of total_eff_le_100 discharged from the model's own table (via the C02 balance)
    "pl_pwr_nonneg", "pl_loss_nonneg", "switch_vout_le", "mux_vout_le", "rows_loss_nonneg", "rowOf_nonneg", "total_cells",
    "total_pwr_eq_sources", "rows_domain_covered", "total_loss_eq_sum", "total_loss_le_power_partial", "total_pwr_sub_loss_partial",
    "total_eff_le_100_table_partial", "total_loss_le_power_full_fails", "D_feeder", "domain_balance", "muxInputsPlain_of_oneMux",
    "subsystem_loss_le_power_partial", "subsystem_loss_le_power_oneMux_partial", "subsystem_eff_le_100_partial",
    "subsystem_loss_le_power_full_fails", "table_energies_add_up", "table_total_energies_add_up")] + ["SysLoss.domInv_foldl", "SysLoss.C07aux_domain_step"]
MODULES = ["SysLoss.Props.C07", "SysLoss.Props.C07Total"]
LEVEL_TEXT = ("Theorems (Lean 4): 24 h energy = power x 24 resp. power x 24 x the phase's share; the per-phase energies of a row add up to the energy of its duration-weighted average; each Subsystem row carries its source's Iout and Power and the sum of the losses of exactly the rows attributed to it, with Yes iff one of them warns; System total = sums over the subsystems with efficiency <= 100 when 0 <= Loss <= Power - and Props/C07Total discharges that premise from the model itself: in every exact steady state of a well-formed tree (PMux included) every row has Power, Loss >= 0, the System total row has Power = sum of source powers, Loss = sum of all losses and 0 <= Loss <= Power, hence efficiency within [0,100] (`total_eff_le_100_table_partial`), likewise every Subsystem row (`subsystem_eff_le_100_partial`), and on the assembled multi-phase table the per-phase energy cells of a row add up to 24 h x its duration-weighted average power (`table_energies_add_up`, `table_total_energies_add_up`); partial only through the recorded findings F01 / F35 (negative Source with rs, Converter with vo = 0: `total_loss_le_power_full_fails`); System average = duration-weighted means; a row's Domain is its own name (Source), the source above the selected input (PMux) or its parent's domain. Tied to the code on every run: Domain, Subsystem / total / average rows and energies re-assembled by the model from the implementation's (v,i) (1e-9) on multi-source systems built in random interleavings, and an oracle that recomputes every aggregate from the component rows and the tree.")
LEVEL_NOTE = ("Genuine defect found by this check and repaired: Domain carried over from the previously listed row (fix 8389da8). `domain_table` is the global statement for every valid topological order (induction over the table loop, Proofs/Domain.lean): each Source row is its own domain and every other non-mux row carries the domain of its first parent's row.")
RULE = ("1-4 sources, a mux joining 0-4 of them at depth 0-2, children added in random interleavings (varies node ids and the "
        "topological order), phases on half of the systems, energy=True; non-trivial = >= 2 sources or phases")
ASSUMPTIONS = ["aggregates are compared with sums recomputed from the component rows; tolerance = accumulated row tolerances"]


def gen_fn(rng):
    return gen.gen_system(rng, phases=0.5, n_sources=rng.choice([1, 2, 2, 3, 4]), p_mux=0.6, max_nodes=18, p_neg_src_rs=0.0, p_dup=0.15, p_rail=0.3, p_rename=0.25,
                          p_group=rng.choice([0.0, 0.3]))


def solve_kw(rng, desc):
    kw = {"vtol": 1e-10, "itol": 1e-10, "energy": True}
    if desc.get("phases") and rng.random() < 0.25:
        kw["phase"] = rng.choice(sorted(desc["phases"]))       # one phase only: its energies are still shares of the WHOLE cycle
    return kw


tablecheck.make(globals(), cols=["pwr", "loss", "eff", "ener", "iout", "vin"], textcols=["domain", "typ"], oracle=oracles.o_c07,
                gen_fn=gen_fn, solve_kw=solve_kw,
                nontrivial=lambda desc, obs: len(obs["phases"]) > 1 or sum(1 for c in desc["comps"] if c["kind"] == "source") > 1)
